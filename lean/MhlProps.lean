import MhlProps.Proofs.CodecLemmas
import MhlProps.Proofs.C4Lemmas
import MhlProps.Proofs.HashingLemmas
import MhlProps.C01
import MhlProps.C04
