/-
C18 (order and sizes) — the packing list is deterministic in its ORDER too, and the size attribute of a record is the
one of the earliest record that contributed.

These statements go beyond what property C18 demands (C18 fixes the SET of records and digests, not their order), so
no monitor judges the implementation by them: they describe the model, and the model's record order and sizes are
compared with the written packing list by the correspondence check only.

About `MhlModel.flattenRecords` for arbitrary `gens : List LGen` (nothing assumed):

* `flatten_order`: the paths of the records, in the order written, are the paths of the non-failed file entries of
  the history in the order in which they were first recorded (generations in order, records in order) — every path
  once, at the position of its first appearance.  So two histories with the same item sequence give the same record
  order, whatever else differs (`flatten_order_congr`).
* `flatten_size_is_first`: the size of a record is the size attribute of the first item of that path.
* `flatten_absorbs`: generations that only repeat (path, format) pairs already recorded leave the list unchanged
  (a later digest never replaces the earliest one and never adds a record); `flatten_idempotent`.
* `flatten_prefix`: sealing a further generation never reorders or removes what the packing list already held: the
  paths of the shorter history are a prefix of the paths of the longer one.
-/
import MhlProps.Proofs.FlattenLemmas
import MhlProps.C18

namespace MhlProps.C18order
open MhlModel

/-- append `p` unless it is there -/
def addNew (l : List String) (p : String) : List String := if p ∈ l then l else l ++ [p]

/-- the distinct elements of a list in the order of their first appearance -/
def firstAppearance (l : List String) : List String := l.foldl addNew []

theorem ins_paths (acc : List Record) (it : Item) :
    (ins acc it).map (·.path) = addNew (acc.map (·.path)) it.path := by
  unfold ins addNew
  split
  · next hnone =>
    have hnot : it.path ∉ acc.map (·.path) := by
      intro hmem
      obtain ⟨x, hx, hp⟩ := List.mem_map.1 hmem
      have := List.find?_eq_none.1 hnone x hx
      simp [hp] at this
    simp [hnot]
  · next x hsome =>
    have hx := List.mem_of_find?_eq_some hsome
    have hp := List.find?_some hsome
    have hmem : it.path ∈ acc.map (·.path) :=
      List.mem_map.2 ⟨x, hx, by simpa using hp⟩
    simp only [hmem, if_true]
    split
    · rfl
    · rw [List.map_map]
      apply List.map_congr_left
      intro y _
      simp only [Function.comp]
      split <;> rfl

theorem foldl_ins_paths (L : List Item) (acc : List Record) :
    (L.foldl ins acc).map (·.path) = (L.map (·.path)).foldl addNew (acc.map (·.path)) := by
  induction L generalizing acc with
  | nil => rfl
  | cons it L ih => simp only [List.foldl_cons, List.map_cons, ih, ins_paths]

/-- the record order of the packing list: first appearance among the non-failed file entries -/
theorem flatten_order (gens : List LGen) :
    (flattenRecords gens).map (·.path) = firstAppearance ((items gens).map (·.path)) := by
  rw [flattenRecords_eq_items, foldl_ins_paths]; rfl

/-- the same for the records as `flatten` writes them (entries of each record sorted by format name) -/
theorem written_order (gens : List LGen) :
    (MhlProps.C18.sortedRecords gens).map (·.path) = firstAppearance ((items gens).map (·.path)) := by
  rw [MhlProps.C18.sortedRecords_paths, flatten_order]

theorem flatten_order_congr (g₁ g₂ : List LGen) (h : (items g₁).map (·.path) = (items g₂).map (·.path)) :
    (flattenRecords g₁).map (·.path) = (flattenRecords g₂).map (·.path) := by
  rw [flatten_order, flatten_order, h]

theorem addNew_prefix (l : List String) (p : String) : l <+: addNew l p := by
  unfold addNew; split
  · exact List.prefix_refl _
  · exact List.prefix_append _ _

theorem foldl_addNew_prefix (ps l : List String) : l <+: ps.foldl addNew l := by
  induction ps generalizing l with
  | nil => exact List.prefix_refl _
  | cons p ps ih => exact (addNew_prefix l p).trans (ih _)

theorem items_append (g₁ g₂ : List LGen) : items (g₁ ++ g₂) = items g₁ ++ items g₂ := by
  simp [items, List.flatMap_append]

/-- a longer history only appends records -/
theorem flatten_prefix (g₁ g₂ : List LGen) :
    (flattenRecords g₁).map (·.path) <+: (flattenRecords (g₁ ++ g₂)).map (·.path) := by
  rw [flatten_order, flatten_order, items_append, List.map_append]
  unfold firstAppearance
  rw [List.foldl_append]
  exact foldl_addNew_prefix _ _

/-- every element of `firstAppearance l` is in `l`, and the other way round -/
theorem mem_foldl_addNew (ps l : List String) (p : String) : p ∈ ps.foldl addNew l ↔ p ∈ l ∨ p ∈ ps := by
  induction ps generalizing l with
  | nil => simp
  | cons q ps ih =>
    rw [List.foldl_cons, ih]
    unfold addNew
    split
    · next hq =>
      constructor
      · rintro (h | h)
        · exact .inl h
        · exact .inr (List.mem_cons_of_mem _ h)
      · rintro (h | h)
        · exact .inl h
        · rcases List.mem_cons.1 h with rfl | h
          · exact .inl hq
          · exact .inr h
    · simp only [List.mem_append, List.mem_cons, List.not_mem_nil, or_false, or_assoc]

theorem mem_firstAppearance (l : List String) (p : String) : p ∈ firstAppearance l ↔ p ∈ l := by
  unfold firstAppearance; rw [mem_foldl_addNew]; simp

theorem addNew_nodup (l : List String) (p : String) (h : l.Nodup) : (addNew l p).Nodup := by
  unfold addNew; split
  · exact h
  · next hp =>
    rw [List.nodup_append]
    refine ⟨h, by simp, ?_⟩
    intro a ha b hb
    rw [List.mem_singleton] at hb
    subst hb
    intro hab; subst hab; exact hp ha

theorem firstAppearance_nodup (l : List String) : (firstAppearance l).Nodup := by
  unfold firstAppearance
  suffices ∀ acc : List String, acc.Nodup → (l.foldl addNew acc).Nodup from this [] List.nodup_nil
  induction l with
  | nil => intro acc h; exact h
  | cons p ps ih => intro acc h; exact ih _ (addNew_nodup acc p h)

/-! ### sizes -/

/-- the size attribute of the first item recorded for the path -/
def firstSize (L : List Item) (p : String) : Option (Option Nat) :=
  (L.find? fun it => it.path == p).map (·.size)

def sizeOf (acc : List Record) (p : String) : Option (Option Nat) :=
  (acc.find? fun r => r.path == p).map (·.size)

theorem find?_map_keep (acc : List Record) (f : Record → Record) (q : Record → Bool)
    (hq : ∀ y, q (f y) = q y) :
    (acc.map f).find? q = (acc.find? q).map f := by
  induction acc with
  | nil => rfl
  | cons y ys ih =>
    simp only [List.map_cons, List.find?_cons, hq]
    split
    · rfl
    · exact ih

theorem ins_sizeOf (acc : List Record) (it : Item) (p : String) :
    sizeOf (ins acc it) p =
      match sizeOf acc p with
      | some s => some s
      | none => if it.path == p then some it.size else none := by
  unfold ins
  split
  · next hnone =>
    unfold sizeOf
    rw [List.find?_append]
    cases hf : acc.find? (fun r => r.path == p) with
    | some r => simp
    | none =>
      by_cases hp : it.path = p
      · simp [hp]
      · simp [hp]
  · next x hsome =>
    split
    · cases h : sizeOf acc p with
      | some s => rfl
      | none =>
        have hxp := List.find?_some hsome
        have hx := List.mem_of_find?_eq_some hsome
        by_cases hp : it.path = p
        · exfalso
          unfold sizeOf at h
          rw [Option.map_eq_none_iff, List.find?_eq_none] at h
          have := h x hx
          simp only [beq_iff_eq] at hxp this
          exact this (hxp.trans hp)
        · simp [hp]
    · unfold sizeOf
      rw [find?_map_keep]
      · cases hf : acc.find? (fun r => r.path == p) with
        | some r =>
          simp only [Option.map_some]
          split <;> rfl
        | none =>
          have hxp := List.find?_some hsome
          have hx := List.mem_of_find?_eq_some hsome
          by_cases hp : it.path = p
          · exfalso
            rw [List.find?_eq_none] at hf
            have := hf x hx
            simp only [beq_iff_eq] at hxp this
            exact this (hxp.trans hp)
          · simp [hp]
      · intro y; split <;> rfl

theorem foldl_ins_sizeOf (L : List Item) (acc : List Record) (p : String) :
    sizeOf (L.foldl ins acc) p =
      match sizeOf acc p with
      | some s => some s
      | none => firstSize L p := by
  induction L generalizing acc with
  | nil => simp only [List.foldl_nil]; cases sizeOf acc p <;> rfl
  | cons it L ih =>
    rw [List.foldl_cons, ih, ins_sizeOf]
    cases h : sizeOf acc p with
    | some s => rfl
    | none =>
      unfold firstSize
      simp only [List.find?_cons]
      by_cases hp : it.path = p
      · simp [hp]
      · have hb : (it.path == p) = false := by simp [hp]
        simp [hb]

/-- the size attribute of a packing-list record is the one of the earliest non-failed file entry of its path -/
theorem flatten_size_is_first (gens : List LGen) (p : String) :
    sizeOf (flattenRecords gens) p = firstSize (items gens) p := by
  rw [flattenRecords_eq_items, foldl_ins_sizeOf]; rfl

/-! ### a generation that only repeats what is recorded changes nothing -/

/-- `acc` already holds an entry of the item's format in the record of the item's path -/
def Covered (acc : List Record) (it : Item) : Prop :=
  ∃ r ∈ acc, r.path = it.path ∧ ∃ e ∈ r.entries, e.fmt = it.entry.fmt

theorem ins_of_covered (acc : List Record) (it : Item) (hn : (acc.map (·.path)).Nodup) (h : Covered acc it) :
    ins acc it = acc := by
  obtain ⟨r, hr, hp, e, he, hf⟩ := h
  unfold ins
  split
  · next hnone =>
    have := List.find?_eq_none.1 hnone r hr
    simp [hp] at this
  · next x hsome =>
    have hx := List.mem_of_find?_eq_some hsome
    have hxp := List.find?_some hsome
    simp only [beq_iff_eq] at hxp
    have hrx : r = x := eq_of_nodup_map_path hn hr hx (hp.trans hxp.symm)
    subst hrx
    have hany : (r.entries.any fun y => y.fmt == it.entry.fmt) = true :=
      List.any_eq_true.2 ⟨e, he, by simp [hf]⟩
    simp [hany]

theorem foldl_ins_of_covered (L : List Item) (acc : List Record) (hn : (acc.map (·.path)).Nodup)
    (h : ∀ it ∈ L, Covered acc it) : L.foldl ins acc = acc := by
  induction L with
  | nil => rfl
  | cons it L ih =>
    rw [List.foldl_cons, ins_of_covered acc it hn (h it (List.mem_cons_self ..))]
    exact ih fun it' hit => h it' (List.mem_cons_of_mem _ hit)

theorem covered_of_inv {L : List Item} {acc : List Record} (inv : Inv L acc) (it : Item) (hit : it ∈ L) :
    Covered acc it := by
  obtain ⟨e, he⟩ := firstItem_isSome_of_mem hit
  obtain ⟨r, hr, hp, hmem⟩ := inv.complete _ _ _ he
  exact ⟨r, hr, hp, e, hmem, (firstItem_some he).1⟩

/-- generations whose non-failed file entries all repeat a (path, format) pair that the history already holds
leave the packing list as it is — whatever digests, sizes or actions they carry -/
theorem flatten_absorbs (g₁ g₂ : List LGen)
    (h : ∀ it ∈ items g₂, ∃ it' ∈ items g₁, it'.path = it.path ∧ it'.entry.fmt = it.entry.fmt) :
    flattenRecords (g₁ ++ g₂) = flattenRecords g₁ := by
  have inv := flattenRecords_inv g₁
  rw [flattenRecords_eq_items, items_append, List.foldl_append, ← flattenRecords_eq_items]
  apply foldl_ins_of_covered _ _ inv.pathsNodup
  intro it hit
  obtain ⟨it', hit', hp, hf⟩ := h it hit
  obtain ⟨r, hr, hrp, e, he, hef⟩ := covered_of_inv inv it' hit'
  exact ⟨r, hr, hrp.trans hp, e, he, hef.trans hf⟩

/-- in particular, the same generations read twice give the same list -/
theorem flatten_idempotent (gens : List LGen) : flattenRecords (gens ++ gens) = flattenRecords gens :=
  flatten_absorbs gens gens fun it hit => ⟨it, hit, rfl, rfl⟩

/-! ### the premises are met by a concrete history, and the statements are not trivial on it -/

private def e (f a : String) : Entry := { fmt := f, digest := "00", action := a }
private def g (n : Nat) (rs : List Record) : LGen :=
  { number := n, gen := { fileName := "x", process := "in-place", records := rs } }
private def hist : List LGen :=
  [g 1 [{ path := "b", size := some 3, entries := [e "md5" "original"] },
        { path := "a", size := some 5, entries := [e "md5" "failed"] }],
   g 2 [{ path := "a", size := some 7, entries := [e "md5" "original"] },
        { path := "b", size := some 4, entries := [e "sha1" "new"] }]]

example : (flattenRecords hist).map (·.path) = ["b", "a"] := by decide
example : sizeOf (flattenRecords hist) "b" = some (some 3) ∧ sizeOf (flattenRecords hist) "a" = some (some 7) := by
  decide

example : flattenRecords (hist ++ [g 3 [{ path := "a", size := some 9, entries := [e "md5" "verified"] }]]) = flattenRecords hist := by
  decide

end MhlProps.C18order
