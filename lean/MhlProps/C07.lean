/-
C07 — Directory hashes follow the compositional definition.

About `MhlModel.nodeHashes` / `kidHashes` / `hashOfList` / `bindName` (the SPECIFICATION of the directory hashes):

  * the content hash and the structure hash of a directory do not depend on the order in which the OS lists it
    (`listing_order_invariant`, deep version `permEq_invariant`);
  * an empty directory hashes as the empty input (`empty_dir`);
  * the content hash does not change when a file or a folder is renamed in place
    (`content_rename_file_invariant`, `content_rename_dir_invariant`, deep versions `content_renamedAt_invariant`,
    `content_rename_deep_no_ignore`);
  * the content hash binds the contents and the structure hash binds the names — stated with exactly the digest
    inequalities the claim rests on (`content_binds_contents_partial`, `structure_binds_names_partial`, and the
    versions with arbitrarily many siblings `content_binds_contents_siblings`, `structure_binds_names_siblings`);
  * for a file both components are the digest of its bytes (`file_hashes`).

`H : HashFn` and `D : DecodeFn` are arbitrary functions: nothing (no injectivity, no collision freeness) is assumed
globally.  Where a conclusion needs two digests to differ, that inequality (or injectivity of `H fmt` on the two
pre-images that occur) is a hypothesis of the theorem.
-/
import MhlProps.Proofs.DirHashLemmas

/-! ### relations between trees used below -/

namespace MhlModel

/-- Two trees that differ only by the order of the children lists, anywhere in the tree.  The relation is generated
by: permuting the children of the top directory (`perm`), replacing one child by a related one (`congr`), and
reflexivity / transitivity; `PermEq.dir_congr` below shows that it contains the simultaneous replacement of all
children. -/
inductive Node.PermEq : Node → Node → Prop
  | refl (t : Node) : Node.PermEq t t
  | trans {a b c : Node} : Node.PermEq a b → Node.PermEq b c → Node.PermEq a c
  | perm (n : String) {cs₁ cs₂ : List Node} (h : Option HistStore) :
      cs₁.Perm cs₂ → Node.PermEq (.dir n cs₁ h) (.dir n cs₂ h)
  | congr (n : String) (pre post : List Node) (h : Option HistStore) {a b : Node} :
      Node.PermEq a b → Node.PermEq (.dir n (pre ++ a :: post) h) (.dir n (pre ++ b :: post) h)

end MhlModel

namespace MhlProps.C07
open MhlModel

/-- `RenamedAt old n' p a b`: `b` is `a` with the entry called `old` of the directory at path `p` below `a`
renamed to `n'` (everything else, including the order of all children lists, is untouched) -/
inductive RenamedAt (old n' : String) : RelPath → Node → Node → Prop
  | top (n : String) (pre post : List Node) (h : Option HistStore) (x : Node) : x.name = old →
      RenamedAt old n' [] (.dir n (pre ++ x :: post) h) (.dir n (pre ++ x.rename n' :: post) h)
  | inside (n : String) (pre post : List Node) (h : Option HistStore) {a b : Node} {p : RelPath} :
      RenamedAt old n' p a b →
      RenamedAt old n' (a.name :: p) (.dir n (pre ++ a :: post) h) (.dir n (pre ++ b :: post) h)


variable (H : HashFn) (D : DecodeFn) (fmt : String) (hit : RelPath → Bool) (here : RelPath)

/-! ### 1. sorting forgets the order -/

/-- sorted permutations of each other are equal: `isort strLe` depends only on the multiset of the strings -/
theorem isort_perm_eq {l₁ l₂ : List String} (h : l₁.Perm l₂) : isort strLe l₁ = isort strLe l₂ :=
  isort_eq_of_perm strLe strLe_total strLe_trans strLe_antisymm h

/-- `hash_of_hash_list` does not depend on the order of the digests it is given -/
theorem hashOfList_perm {l₁ l₂ : List String} (h : l₁.Perm l₂) :
    hashOfList H D fmt l₁ = hashOfList H D fmt l₂ := by
  unfold hashOfList
  rw [isort_perm_eq h]

/-! ### 6. files -/

/-- for a file node both components are the digest of its bytes; the name (and the position, and the ignore
patterns) play no role -/
theorem file_hashes (n : String) (c : Bytes) : nodeHashes H D fmt hit here (.file n c) = (H fmt c, H fmt c) :=
  nodeHashes_file H D fmt hit here n c

theorem file_hashes_name_independent (hit' : RelPath → Bool) (here' : RelPath) (n n' : String) (c : Bytes) :
    nodeHashes H D fmt hit here (.file n c) = nodeHashes H D fmt hit' here' (.file n' c) := by
  rw [file_hashes, file_hashes]

/-! ### 3. the empty directory -/

/-- an empty directory has content hash and structure hash `H(empty input)` -/
theorem empty_dir (n : String) (h : Option HistStore) :
    nodeHashes H D fmt hit here (.dir n [] h) = (H fmt [], H fmt []) := by
  rw [nodeHashes_dir]
  rfl

/-- more generally: a directory all of whose entries are ignored hashes as the empty input -/
theorem all_ignored_dir (n : String) (cs : List Node) (h : Option HistStore)
    (hall : ∀ c ∈ cs, hit (here ++ [c.name]) = true) :
    nodeHashes H D fmt hit here (.dir n cs h) = (H fmt [], H fmt []) := by
  have : visKids_d H D fmt hit here cs = [] := by
    unfold visKids_d
    rw [List.filter_eq_nil_iff]
    intro k hk
    obtain ⟨c, hc, rfl⟩ := List.mem_map.1 hk
    simp [kidOf_d, hall c hc]
  rw [nodeHashes_dir, this]
  rfl

/-! ### 2. the order in which the OS lists a directory -/

/-- any enumeration order of a directory gives the same content hash and the same structure hash -/
theorem listing_order_invariant (n : String) {cs₁ cs₂ : List Node} (h : Option HistStore) (hp : cs₁.Perm cs₂) :
    nodeHashes H D fmt hit here (.dir n cs₁ h) = nodeHashes H D fmt hit here (.dir n cs₂ h) := by
  have hv := visKids_perm H D fmt hit here hp
  rw [nodeHashes_dir, nodeHashes_dir, hashOfList_perm H D fmt (hv.map (·.content)),
    hashOfList_perm H D fmt (hv.map (bindName H D fmt))]

theorem PermEq.name_eq {a b : Node} (h : Node.PermEq a b) : a.name = b.name := by
  induction h with
  | refl => rfl
  | trans _ _ ih₁ ih₂ => exact ih₁.trans ih₂
  | perm => rfl
  | congr => rfl

theorem PermEq.symm {a b : Node} (h : Node.PermEq a b) : Node.PermEq b a := by
  induction h with
  | refl t => exact .refl t
  | trans _ _ ih₁ ih₂ => exact .trans ih₂ ih₁
  | perm n h hp => exact .perm n h hp.symm
  | congr n pre post h _ ih => exact .congr n pre post h ih

/-- replacing every child by a related one (position by position) is contained in `PermEq` -/
theorem PermEq.dir_congr (n : String) (h : Option HistStore) :
    ∀ (pre cs₁ cs₂ : List Node), cs₁.length = cs₂.length →
      (∀ i (h₁ : i < cs₁.length) (h₂ : i < cs₂.length), Node.PermEq cs₁[i] cs₂[i]) →
      Node.PermEq (.dir n (pre ++ cs₁) h) (.dir n (pre ++ cs₂) h)
  | pre, [], [], _, _ => .refl _
  | _, [], _ :: _, hl, _ => by simp at hl
  | _, _ :: _, [], hl, _ => by simp at hl
  | pre, a :: as, b :: bs, hl, hall => by
    have h0 : Node.PermEq a b := hall 0 (by simp) (by simp)
    have step₁ : Node.PermEq (.dir n (pre ++ a :: as) h) (.dir n (pre ++ b :: as) h) := .congr n pre as h h0
    have step₂ := PermEq.dir_congr n h (pre ++ [b]) as bs (by simpa using hl)
      (fun i h₁ h₂ => hall (i + 1) (by simpa using h₁) (by simpa using h₂))
    simp only [List.append_assoc, List.singleton_append] at step₂
    exact .trans step₁ step₂

/-- permuting the children lists anywhere in the tree leaves both hashes of every node unchanged -/
theorem permEq_invariant {a b : Node} (hab : Node.PermEq a b) :
    ∀ here, nodeHashes H D fmt hit here a = nodeHashes H D fmt hit here b := by
  induction hab with
  | refl => intro _; rfl
  | trans _ _ ih₁ ih₂ => intro here; exact (ih₁ here).trans (ih₂ here)
  | perm n h hp => intro here; exact listing_order_invariant H D fmt hit here n h hp
  | @congr n pre post h a b hab ih =>
    intro here
    have hk : kidOf_d H D fmt hit here a = kidOf_d H D fmt hit here b := by
      simp only [kidOf_d, PermEq.name_eq hab, ih]
    rw [nodeHashes_dir, nodeHashes_dir]
    simp only [visKids_append, visKids_cons, hk, PermEq.name_eq hab]

/-! ### 4. renaming in place does not change the content hash -/

/-- General form: a child `x` of the directory at `here` is renamed to `n'`.  If the ignore test does not distinguish
the old and the new location (neither for the child itself, `p = []`, nor for anything below it), the content hash of
the directory is unchanged. -/
theorem content_rename_invariant (n n' : String) (pre post : List Node) (x : Node) (h : Option HistStore)
    (hh : ∀ p, hit (here ++ x.name :: p) = hit (here ++ n' :: p)) :
    (nodeHashes H D fmt hit here (.dir n (pre ++ x :: post) h)).1 =
      (nodeHashes H D fmt hit here (.dir n (pre ++ x.rename n' :: post) h)).1 := by
  have hsub : nodeHashes H D fmt hit (here ++ [n']) (x.rename n') = nodeHashes H D fmt hit (here ++ [x.name]) x := by
    rw [nodeHashes_rename]
    exact nodeHashes_congr H D fmt hit hit x _ _ (fun p => by simpa using (hh p).symm)
  have h0 : hit (here ++ [n']) = hit (here ++ [x.name]) := (hh []).symm
  rw [nodeHashes_dir, nodeHashes_dir]
  simp only [visKids_append, visKids_cons, Node.name_rename, h0, List.map_append]
  cases hit (here ++ [x.name]) <;> simp [kidOf_d, hsub]

/-- renaming a FILE child in place (same content, new name) does not change the content hash of the parent
directory, provided the old and the new name are both not ignored -/
theorem content_rename_file_invariant (n old n' : String) (c : Bytes) (pre post : List Node)
    (h : Option HistStore) (ho : hit (here ++ [old]) = false) (hn : hit (here ++ [n']) = false) :
    (nodeHashes H D fmt hit here (.dir n (pre ++ .file old c :: post) h)).1 =
      (nodeHashes H D fmt hit here (.dir n (pre ++ .file n' c :: post) h)).1 := by
  rw [nodeHashes_dir, nodeHashes_dir]
  simp [visKids_append, visKids_cons, Node.name, ho, hn, kidOf_d, nodeHashes_file]

/-- renaming any child (file or sub-directory) in place does not change the content hash of the parent directory
when there are no ignore patterns -/
theorem content_rename_dir_invariant (n n' : String) (pre post : List Node) (x : Node) (h : Option HistStore) :
    (nodeHashes H D fmt (fun _ => false) here (.dir n (pre ++ x :: post) h)).1 =
      (nodeHashes H D fmt (fun _ => false) here (.dir n (pre ++ x.rename n' :: post) h)).1 :=
  content_rename_invariant H D fmt (fun _ => false) here n n' pre post x h (fun _ => rfl)

theorem RenamedAt.name_eq {old n' : String} {p : RelPath} {a b : Node} (h : RenamedAt old n' p a b) :
    a.name = b.name := by
  cases h <;> rfl

/-- Deep version: renaming an entry anywhere below a node leaves the content hash of the node — hence of EVERY
ancestor of the renamed entry — unchanged, provided the ignore test does not distinguish the old from the new
location (of the entry and of everything below it). -/
theorem content_renamedAt_invariant {old n' : String} {p : RelPath} {a b : Node} (hr : RenamedAt old n' p a b) :
    ∀ here, (∀ q, hit (here ++ p ++ old :: q) = hit (here ++ p ++ n' :: q)) →
      (nodeHashes H D fmt hit here a).1 = (nodeHashes H D fmt hit here b).1 := by
  induction hr with
  | top n pre post h x hx =>
    intro here hh
    subst hx
    exact content_rename_invariant H D fmt hit here n n' pre post x h (by simpa using hh)
  | @inside n pre post h a b p hr ih =>
    intro here hh
    have hn := hr.name_eq
    have hc := ih (here ++ [a.name]) (by simpa [List.append_assoc] using hh)
    rw [nodeHashes_dir, nodeHashes_dir]
    simp only [visKids_append, visKids_cons, ← hn, List.map_append]
    cases hit (here ++ [a.name]) <;> simp [kidOf_d, ← hn, hc]

/-- without ignore patterns: renaming a file or a folder anywhere in the tree leaves the content hash of every
ancestor unchanged -/
theorem content_rename_deep_no_ignore {old n' : String} {p : RelPath} {a b : Node} (hr : RenamedAt old n' p a b) :
    (nodeHashes H D fmt (fun _ => false) here a).1 = (nodeHashes H D fmt (fun _ => false) here b).1 :=
  content_renamedAt_invariant H D fmt (fun _ => false) hr here (fun _ => rfl)

/-- with ignore patterns: renaming a FILE anywhere in the tree leaves the content hash of every ancestor unchanged
when the old and the new path are both not ignored -/
theorem content_rename_file_deep {old n' : String} {p : RelPath} {a b : Node} (hr : RenamedAt old n' p a b)
    (hfile : ∀ q, q ≠ [] → hit (here ++ p ++ old :: q) = hit (here ++ p ++ n' :: q))
    (ho : hit (here ++ p ++ [old]) = false) (hn : hit (here ++ p ++ [n']) = false) :
    (nodeHashes H D fmt hit here a).1 = (nodeHashes H D fmt hit here b).1 := by
  apply content_renamedAt_invariant H D fmt hit hr here
  intro q
  cases q with
  | nil => rw [ho, hn]
  | cons x xs => exact hfile _ (by simp)

/-! ### 5. what the hashes bind -/

/-- the hashes of a directory whose only entry is a visible file, written out -/
theorem single_file_dir (n nm : String) (c : Bytes) (h : Option HistStore) (hv : hit (here ++ [nm]) = false) :
    nodeHashes H D fmt hit here (.dir n [.file nm c] h) =
      (H fmt ((D fmt (H fmt c)).getD []),
       H fmt ((D fmt (H fmt (nm.toUTF8.toList ++ (D fmt (H fmt c)).getD []))).getD [])) := by
  rw [nodeHashes_dir]
  simp [visKids_d, kidOf_d, Node.name, hv, nodeHashes_file, hashOfList_eq, bindName]

/-- Content hash binds contents (single visible file).  Changing the content `c` to `c'` changes the content hash of
the directory EXACTLY WHEN `H fmt` separates the two decoded file digests. -/
theorem content_binds_contents_iff (n nm : String) (c c' : Bytes) (h : Option HistStore)
    (hv : hit (here ++ [nm]) = false) :
    (nodeHashes H D fmt hit here (.dir n [.file nm c] h)).1 ≠ (nodeHashes H D fmt hit here (.dir n [.file nm c'] h)).1
      ↔ H fmt ((D fmt (H fmt c)).getD []) ≠ H fmt ((D fmt (H fmt c')).getD []) := by
  rw [single_file_dir H D fmt hit here n nm c h hv, single_file_dir H D fmt hit here n nm c' h hv]

/-- Content hash binds contents (single visible file): if the two file digests differ, decoding keeps them apart, and
`H fmt` does not collide on the two pre-images `decode (H c)`, `decode (H c')`, then the content hash of the directory
changes. -/
theorem content_binds_contents_partial (n nm : String) (c c' : Bytes) (h : Option HistStore)
    (hv : hit (here ++ [nm]) = false)
    (hne : H fmt c ≠ H fmt c')
    (hdec : (D fmt (H fmt c)).getD [] = (D fmt (H fmt c')).getD [] → H fmt c = H fmt c')
    (hinj : H fmt ((D fmt (H fmt c)).getD []) = H fmt ((D fmt (H fmt c')).getD []) →
      (D fmt (H fmt c)).getD [] = (D fmt (H fmt c')).getD []) :
    (nodeHashes H D fmt hit here (.dir n [.file nm c] h)).1 ≠
      (nodeHashes H D fmt hit here (.dir n [.file nm c'] h)).1 :=
  (content_binds_contents_iff H D fmt hit here n nm c c' h hv).2 fun e => hne (hdec (hinj e))

/-- Structure hash binds names (single visible file).  Renaming `nm` to `nm'` changes the structure hash of the
directory EXACTLY WHEN `H fmt` separates the two decoded name-binding digests. -/
theorem structure_binds_names_iff (n nm nm' : String) (c : Bytes) (h : Option HistStore)
    (hv : hit (here ++ [nm]) = false) (hv' : hit (here ++ [nm']) = false) :
    (nodeHashes H D fmt hit here (.dir n [.file nm c] h)).2 ≠ (nodeHashes H D fmt hit here (.dir n [.file nm' c] h)).2
      ↔ H fmt ((D fmt (H fmt (nm.toUTF8.toList ++ (D fmt (H fmt c)).getD []))).getD []) ≠
        H fmt ((D fmt (H fmt (nm'.toUTF8.toList ++ (D fmt (H fmt c)).getD []))).getD []) := by
  rw [single_file_dir H D fmt hit here n nm c h hv, single_file_dir H D fmt hit here n nm' c h hv']

/-- Structure hash binds names (single visible file): with `d = decode (H c)`, if `H (utf8 nm ++ d) ≠ H (utf8 nm' ++ d)`,
decoding keeps these two digests apart, and `H fmt` does not collide on the two outer pre-images, then the structure
hash of the directory changes. -/
theorem structure_binds_names_partial (n nm nm' : String) (c : Bytes) (h : Option HistStore)
    (hv : hit (here ++ [nm]) = false) (hv' : hit (here ++ [nm']) = false)
    (hne : H fmt (nm.toUTF8.toList ++ (D fmt (H fmt c)).getD []) ≠
      H fmt (nm'.toUTF8.toList ++ (D fmt (H fmt c)).getD []))
    (hdec : (D fmt (H fmt (nm.toUTF8.toList ++ (D fmt (H fmt c)).getD []))).getD [] =
        (D fmt (H fmt (nm'.toUTF8.toList ++ (D fmt (H fmt c)).getD []))).getD [] →
      H fmt (nm.toUTF8.toList ++ (D fmt (H fmt c)).getD []) = H fmt (nm'.toUTF8.toList ++ (D fmt (H fmt c)).getD []))
    (hinj : H fmt ((D fmt (H fmt (nm.toUTF8.toList ++ (D fmt (H fmt c)).getD []))).getD []) =
        H fmt ((D fmt (H fmt (nm'.toUTF8.toList ++ (D fmt (H fmt c)).getD []))).getD []) →
      (D fmt (H fmt (nm.toUTF8.toList ++ (D fmt (H fmt c)).getD []))).getD [] =
        (D fmt (H fmt (nm'.toUTF8.toList ++ (D fmt (H fmt c)).getD []))).getD []) :
    (nodeHashes H D fmt hit here (.dir n [.file nm c] h)).2 ≠
      (nodeHashes H D fmt hit here (.dir n [.file nm' c] h)).2 :=
  (structure_binds_names_iff H D fmt hit here n nm nm' c h hv hv').2 fun e => hne (hdec (hinj e))

/-! #### arbitrarily many siblings

`contentList` / `structList` are the lists of digests that enter `hashOfList` for the directory at `here` with
children `cs`; `preimage D fmt l` (DirHashLemmas) is the byte string `hashOfList` feeds to `H fmt`. -/

/-- the content digests of the visible children -/
def contentList (cs : List Node) : List String := (visKids_d H D fmt hit here cs).map (·.content)

/-- the name-binding digests of the visible children -/
def structList (cs : List Node) : List String := (visKids_d H D fmt hit here cs).map (bindName H D fmt)

theorem dir_hashes_eq (n : String) (cs : List Node) (h : Option HistStore) :
    nodeHashes H D fmt hit here (.dir n cs h) =
      (H fmt (preimage D fmt (contentList H D fmt hit here cs)),
       H fmt (preimage D fmt (structList H D fmt hit here cs))) :=
  nodeHashes_dir H D fmt hit here n cs h

/-- The general detection statement, both components: two directories get different content (structure) hashes as
soon as the pre-images differ and `H fmt` does not collide on these two pre-images. -/
theorem dir_hash_ne_of_preimage_ne (n₁ n₂ : String) (cs₁ cs₂ : List Node) (h₁ h₂ : Option HistStore) :
    (preimage D fmt (contentList H D fmt hit here cs₁) ≠ preimage D fmt (contentList H D fmt hit here cs₂) →
      (H fmt (preimage D fmt (contentList H D fmt hit here cs₁)) =
          H fmt (preimage D fmt (contentList H D fmt hit here cs₂)) →
        preimage D fmt (contentList H D fmt hit here cs₁) = preimage D fmt (contentList H D fmt hit here cs₂)) →
      (nodeHashes H D fmt hit here (.dir n₁ cs₁ h₁)).1 ≠ (nodeHashes H D fmt hit here (.dir n₂ cs₂ h₂)).1) ∧
    (preimage D fmt (structList H D fmt hit here cs₁) ≠ preimage D fmt (structList H D fmt hit here cs₂) →
      (H fmt (preimage D fmt (structList H D fmt hit here cs₁)) =
          H fmt (preimage D fmt (structList H D fmt hit here cs₂)) →
        preimage D fmt (structList H D fmt hit here cs₁) = preimage D fmt (structList H D fmt hit here cs₂)) →
      (nodeHashes H D fmt hit here (.dir n₁ cs₁ h₁)).2 ≠ (nodeHashes H D fmt hit here (.dir n₂ cs₂ h₂)).2) := by
  rw [dir_hashes_eq, dir_hashes_eq]
  exact ⟨fun hne hinj e => hne (hinj e), fun hne hinj e => hne (hinj e)⟩

/-- Content hash binds contents, any number of siblings (of any kind, in any position, ignored or not).
The content of one visible file changes from `c` to `c'`.  Hypotheses: the file digests differ; the content digests of
the visible children (before and after) decode to `L > 0` bytes each, injectively (true for hex decoding of digests of
one format); `H fmt` does not collide on the two pre-images that occur. -/
theorem content_binds_contents_siblings (n nm : String) (c c' : Bytes) (pre post : List Node) (h : Option HistStore)
    (L : Nat) (hL : 0 < L)
    (hv : hit (here ++ [nm]) = false)
    (hne : H fmt c ≠ H fmt c')
    (hD : DecodesWell D fmt L (contentList H D fmt hit here (pre ++ .file nm c :: post) ++
      contentList H D fmt hit here (pre ++ .file nm c' :: post)))
    (hinj : H fmt (preimage D fmt (contentList H D fmt hit here (pre ++ .file nm c :: post))) =
        H fmt (preimage D fmt (contentList H D fmt hit here (pre ++ .file nm c' :: post))) →
      preimage D fmt (contentList H D fmt hit here (pre ++ .file nm c :: post)) =
        preimage D fmt (contentList H D fmt hit here (pre ++ .file nm c' :: post))) :
    (nodeHashes H D fmt hit here (.dir n (pre ++ .file nm c :: post) h)).1 ≠
      (nodeHashes H D fmt hit here (.dir n (pre ++ .file nm c' :: post) h)).1 := by
  have e : ∀ c, contentList H D fmt hit here (pre ++ .file nm c :: post) =
      contentList H D fmt hit here pre ++ H fmt c :: contentList H D fmt hit here post := by
    intro c
    simp [contentList, visKids_append, visKids_cons, Node.name, hv, kidOf_d, nodeHashes_file]
  rw [nodeHashes_dir, nodeHashes_dir]
  simp only [contentList] at e
  simp only [contentList, e] at hD hinj ⊢
  exact hashOfList_replace_ne H D fmt L hL _ _ _ _ hne hD hinj

/-- Structure hash binds names, any number of siblings.  One visible child `x` (file or folder) is replaced by a
visible child `x'` whose name-binding digest differs — in particular `x' = x.rename nm'`, see
`structure_binds_names_siblings`.  Hypotheses as for the content hash, on the name-binding digests. -/
theorem structure_binds_child_siblings (n : String) (x x' : Node) (pre post : List Node) (h : Option HistStore)
    (L : Nat) (hL : 0 < L)
    (hv : hit (here ++ [x.name]) = false) (hv' : hit (here ++ [x'.name]) = false)
    (hne : bindName H D fmt (kidOf_d H D fmt hit here x) ≠ bindName H D fmt (kidOf_d H D fmt hit here x'))
    (hD : DecodesWell D fmt L (structList H D fmt hit here (pre ++ x :: post) ++
      structList H D fmt hit here (pre ++ x' :: post)))
    (hinj : H fmt (preimage D fmt (structList H D fmt hit here (pre ++ x :: post))) =
        H fmt (preimage D fmt (structList H D fmt hit here (pre ++ x' :: post))) →
      preimage D fmt (structList H D fmt hit here (pre ++ x :: post)) =
        preimage D fmt (structList H D fmt hit here (pre ++ x' :: post))) :
    (nodeHashes H D fmt hit here (.dir n (pre ++ x :: post) h)).2 ≠
      (nodeHashes H D fmt hit here (.dir n (pre ++ x' :: post) h)).2 := by
  have e : ∀ y, hit (here ++ [y.name]) = false → structList H D fmt hit here (pre ++ y :: post) =
      structList H D fmt hit here pre ++ bindName H D fmt (kidOf_d H D fmt hit here y) ::
        structList H D fmt hit here post := by
    intro y hy
    simp [structList, visKids_append, visKids_cons, hy]
  rw [nodeHashes_dir, nodeHashes_dir]
  have e₁ := e x hv
  have e₂ := e x' hv'
  simp only [structList] at e₁ e₂
  simp only [structList, e₁, e₂] at hD hinj ⊢
  exact hashOfList_replace_ne H D fmt L hL _ _ _ _ hne hD hinj

/-- Structure hash binds names, any number of siblings: a visible FILE `nm` is renamed to the visible name `nm'`;
the inequality the claim rests on is `H (utf8 nm ++ d) ≠ H (utf8 nm' ++ d)` with `d = decode (H c)`. -/
theorem structure_binds_names_siblings (n nm nm' : String) (c : Bytes) (pre post : List Node) (h : Option HistStore)
    (L : Nat) (hL : 0 < L)
    (hv : hit (here ++ [nm]) = false) (hv' : hit (here ++ [nm']) = false)
    (hne : H fmt (nm.toUTF8.toList ++ (D fmt (H fmt c)).getD []) ≠
      H fmt (nm'.toUTF8.toList ++ (D fmt (H fmt c)).getD []))
    (hD : DecodesWell D fmt L (structList H D fmt hit here (pre ++ .file nm c :: post) ++
      structList H D fmt hit here (pre ++ .file nm' c :: post)))
    (hinj : H fmt (preimage D fmt (structList H D fmt hit here (pre ++ .file nm c :: post))) =
        H fmt (preimage D fmt (structList H D fmt hit here (pre ++ .file nm' c :: post))) →
      preimage D fmt (structList H D fmt hit here (pre ++ .file nm c :: post)) =
        preimage D fmt (structList H D fmt hit here (pre ++ .file nm' c :: post))) :
    (nodeHashes H D fmt hit here (.dir n (pre ++ .file nm c :: post) h)).2 ≠
      (nodeHashes H D fmt hit here (.dir n (pre ++ .file nm' c :: post) h)).2 :=
  structure_binds_child_siblings H D fmt hit here n (.file nm c) (.file nm' c) pre post h L hL hv hv'
    (by simpa [bindName, kidOf_d, Node.name, nodeHashes_file] using hne) hD hinj

/-- the structure hash also binds the contents: same statement for a content change of a visible file -/
theorem structure_binds_contents_siblings (n nm : String) (c c' : Bytes) (pre post : List Node)
    (h : Option HistStore) (L : Nat) (hL : 0 < L)
    (hv : hit (here ++ [nm]) = false)
    (hne : H fmt (nm.toUTF8.toList ++ (D fmt (H fmt c)).getD []) ≠
      H fmt (nm.toUTF8.toList ++ (D fmt (H fmt c')).getD []))
    (hD : DecodesWell D fmt L (structList H D fmt hit here (pre ++ .file nm c :: post) ++
      structList H D fmt hit here (pre ++ .file nm c' :: post)))
    (hinj : H fmt (preimage D fmt (structList H D fmt hit here (pre ++ .file nm c :: post))) =
        H fmt (preimage D fmt (structList H D fmt hit here (pre ++ .file nm c' :: post))) →
      preimage D fmt (structList H D fmt hit here (pre ++ .file nm c :: post)) =
        preimage D fmt (structList H D fmt hit here (pre ++ .file nm c' :: post))) :
    (nodeHashes H D fmt hit here (.dir n (pre ++ .file nm c :: post) h)).2 ≠
      (nodeHashes H D fmt hit here (.dir n (pre ++ .file nm c' :: post) h)).2 :=
  structure_binds_child_siblings H D fmt hit here n (.file nm c) (.file nm c') pre post h L hL hv hv
    (by simpa [bindName, kidOf_d, Node.name, nodeHashes_file] using hne) hD hinj

/-! ### non-vacuity: the hypotheses are satisfiable on concrete non-trivial values -/

section Examples

/-- a toy digest (one letter) and a toy decoder (the code points) — only used to show that the hypotheses of the
binding theorems can be met; they are NOT collision free (26 values), which is the point: only the listed
inequalities are needed -/
def toyH : HashFn := fun _ b =>
  String.singleton (Char.ofNat (97 + (b.foldl (fun a u => 3 * a + u.toNat + 1) 0) % 26))
def toyD : DecodeFn := fun _ s => some (s.toList.map fun ch => ch.toNat.toUInt8)
/-- ignore every entry called "tmp" -/
def hitTmp : RelPath → Bool := fun p => p.getLast? == some "tmp"

/-- listing order, arbitrary `H`, `D`, ignore test: a directory with a sub-directory, listed in two orders -/
example (H : HashFn) (D : DecodeFn) (hit : RelPath → Bool) :
    nodeHashes H D "md5" hit [] (.dir "r" [.file "b" [1], .dir "s" [.file "x" [3]] none, .file "a" [2]] none) =
    nodeHashes H D "md5" hit [] (.dir "r" [.file "a" [2], .file "b" [1], .dir "s" [.file "x" [3]] none] none) :=
  listing_order_invariant H D "md5" hit [] "r" none
    ((List.Perm.cons _ (List.Perm.swap _ _ _)).trans (List.Perm.swap _ _ _))

/-- deep reordering: the children of the top directory AND of the sub-directory are listed differently -/
example (H : HashFn) (D : DecodeFn) (hit : RelPath → Bool) :
    nodeHashes H D "md5" hit [] (.dir "r" [.dir "s" [.file "x" [3], .file "y" [4]] none, .file "a" [2]] none) =
    nodeHashes H D "md5" hit [] (.dir "r" [.file "a" [2], .dir "s" [.file "y" [4], .file "x" [3]] none] none) :=
  permEq_invariant H D "md5" hit
    (.trans (.congr "r" [] [.file "a" [2]] none (.perm "s" none (List.Perm.swap _ _ _)))
      (.perm "r" none (List.Perm.swap _ _ _))) []

/-- renaming a file next to an ignored entry and a sub-directory -/
example (H : HashFn) (D : DecodeFn) :
    (nodeHashes H D "md5" hitTmp ["top"]
      (.dir "r" ([.file "tmp" [9]] ++ .file "old.mov" [1, 2] :: [.dir "s" [] none]) none)).1 =
    (nodeHashes H D "md5" hitTmp ["top"]
      (.dir "r" ([.file "tmp" [9]] ++ .file "new.mov" [1, 2] :: [.dir "s" [] none]) none)).1 :=
  content_rename_file_invariant H D "md5" hitTmp ["top"] "r" "old.mov" "new.mov" [1, 2] _ _ none
    (by decide) (by decide)

/-- renaming a sub-directory two levels down: the content hash of the top directory (an ancestor) is unchanged -/
example (H : HashFn) (D : DecodeFn) :
    (nodeHashes H D "md5" (fun _ => false) []
      (.dir "r" ([.file "a" [1]] ++ .dir "s" ([] ++ .dir "old" [.file "x" [3]] none :: [.file "y" [4]]) none :: [])
        none)).1 =
    (nodeHashes H D "md5" (fun _ => false) []
      (.dir "r" ([.file "a" [1]] ++ .dir "s" ([] ++ .dir "new" [.file "x" [3]] none :: [.file "y" [4]]) none :: [])
        none)).1 :=
  content_rename_deep_no_ignore H D "md5" []
    (old := "old") (n' := "new") (p := ["s"])
    (.inside "r" [.file "a" [1]] [] none
      (.top "s" [] [.file "y" [4]] none (.dir "old" [.file "x" [3]] none) rfl))

/-- the hypotheses of `content_binds_contents_partial` hold for the toy functions -/
example :
    (nodeHashes toyH toyD "md5" hitTmp [] (.dir "r" [.file "a" [1]] none)).1 ≠
    (nodeHashes toyH toyD "md5" hitTmp [] (.dir "r" [.file "a" [2]] none)).1 :=
  content_binds_contents_partial toyH toyD "md5" hitTmp [] "r" "a" [1] [2] none
    (by decide) (by decide) (by decide) (by decide)

/-- the hypotheses of `structure_binds_names_partial` hold for the toy functions -/
example :
    (nodeHashes toyH toyD "md5" hitTmp [] (.dir "r" [.file "a" [1]] none)).2 ≠
    (nodeHashes toyH toyD "md5" hitTmp [] (.dir "r" [.file "b" [1]] none)).2 :=
  structure_binds_names_partial toyH toyD "md5" hitTmp [] "r" "a" "b" [1] none
    (by decide) (by decide)
    (by simp only [byteArray_toList_eq]; decide)
    (by simp only [byteArray_toList_eq]; decide)
    (by simp only [byteArray_toList_eq]; decide)

/-- the hypotheses of `content_binds_contents_siblings` hold: siblings are a file, an ignored file and a folder -/
example :
    (nodeHashes toyH toyD "md5" hitTmp []
      (.dir "r" ([.file "a" [7], .file "tmp" [9]] ++ .file "b" [1] :: [.dir "s" [.file "x" [3]] none]) none)).1 ≠
    (nodeHashes toyH toyD "md5" hitTmp []
      (.dir "r" ([.file "a" [7], .file "tmp" [9]] ++ .file "b" [2] :: [.dir "s" [.file "x" [3]] none]) none)).1 :=
  content_binds_contents_siblings toyH toyD "md5" hitTmp [] "r" "b" [1] [2] _ _ none 1 (by decide)
    (by decide) (by decide) (by decide) (by decide)

/-- the hypotheses of `structure_binds_names_siblings` hold -/
example :
    (nodeHashes toyH toyD "md5" hitTmp []
      (.dir "r" ([.file "a" [7], .file "tmp" [9]] ++ .file "b" [1] :: [.file "s" [3]]) none)).2 ≠
    (nodeHashes toyH toyD "md5" hitTmp []
      (.dir "r" ([.file "a" [7], .file "tmp" [9]] ++ .file "c" [1] :: [.file "s" [3]]) none)).2 :=
  structure_binds_names_siblings toyH toyD "md5" hitTmp [] "r" "b" "c" [1] _ _ none 1 (by decide)
    (by decide) (by decide)
    (by simp only [byteArray_toList_eq]; decide)
    (by simp only [structList, bindName_eq_bindNameC]; decide)
    (by simp only [structList, bindName_eq_bindNameC]; decide)

/-- The digest inequalities are NEEDED: with a constant hash function every directory has the same hashes, whatever
the contents and the names (so no unconditional "binds" statement holds for arbitrary `H`). -/
example (D : DecodeFn) (hit : RelPath → Bool) (here : RelPath) (n₁ n₂ : String) (cs₁ cs₂ : List Node)
    (h₁ h₂ : Option HistStore) :
    nodeHashes (fun _ _ => "x") D "md5" hit here (.dir n₁ cs₁ h₁) =
      nodeHashes (fun _ _ => "x") D "md5" hit here (.dir n₂ cs₂ h₂) := by
  rw [dir_hashes_eq, dir_hashes_eq]

/-- The decoding hypothesis is needed as well: with a decoder that fails on everything (`hashOfList` then skips every
digest) all directories hash as the empty input, even for an injective-looking `H`. -/
example (H : HashFn) (hit : RelPath → Bool) (here : RelPath) (n : String) (cs : List Node) (h : Option HistStore) :
    nodeHashes H (fun _ _ => none) "md5" hit here (.dir n cs h) = (H "md5" [], H "md5" []) := by
  have nil : ∀ l : List String, l.flatMap (fun _ => ([] : Bytes)) = [] := by
    intro l; induction l <;> simp_all
  rw [dir_hashes_eq]
  simp [preimage, nil]

end Examples

end MhlProps.C07
