/-
C08 — Nested histories partition the tree and reference each other correctly.

Routing (`MhlModel.route`, history.py `find_history_for_path`), commit order (`walkPost`, `commitStep`) and references
(`writeOne`).  The partition of the records themselves follows from routing every traversed entry through `route`
(createVisit → sealFile / appendDirHashes) and is tied to the code by the scenario correspondence and the monitor.
-/
import MhlProps.Proofs.SealLemmas

namespace MhlProps.C08
open MhlModel

/-- picking the candidate with the longest root (first among equals), as the loop that shortens the path does -/
def pickStep (best : Option Hist) (c : Hist) : Option Hist :=
  match best with
  | none => some c
  | some b => if c.root.length > b.root.length then some c else some b

theorem route_unfold (h : Hist) (p : RelPath) :
    route h p =
      match ((allDescendants h).filter fun c => !c.root.isEmpty && isPrefixOf c.root p).foldl pickStep none with
      | some c => (c, p.drop c.root.length)
      | none => (h, p) := by
  unfold route; rfl

theorem foldl_pick_spec (l : List Hist) (init : Option Hist) :
    (l.foldl pickStep init = none ↔ l = [] ∧ init = none) ∧
    (∀ r, l.foldl pickStep init = some r →
      (r ∈ l ∨ init = some r) ∧ (∀ c ∈ l, c.root.length ≤ r.root.length) ∧
      (∀ b, init = some b → b.root.length ≤ r.root.length)) := by
  induction l generalizing init with
  | nil =>
    refine ⟨by simp, ?_⟩
    intro r hr
    simp at hr
    exact ⟨Or.inr hr, by simp, by intro b hb; rw [hr] at hb; cases hb; exact Nat.le_refl _⟩
  | cons a as ih =>
    simp only [List.foldl_cons]
    obtain ⟨ih1, ih2⟩ := ih (pickStep init a)
    refine ⟨?_, ?_⟩
    · constructor
      · intro hn
        have := ih1.mp hn
        exfalso
        have h2 := this.2
        unfold pickStep at h2
        cases init with
        | none => simp at h2
        | some b => simp only at h2; split at h2 <;> simp at h2
      · rintro ⟨h, _⟩; simp at h
    · intro r hr
      obtain ⟨hmem, hmax, hinit⟩ := ih2 r hr
      have hstep : ∀ x, pickStep init a = some x →
          (x = a ∨ init = some x) ∧ a.root.length ≤ x.root.length ∧ (∀ b, init = some b → b.root.length ≤ x.root.length) := by
        intro x hx
        unfold pickStep at hx
        cases init with
        | none => simp at hx; subst hx; exact ⟨Or.inl rfl, Nat.le_refl _, by simp⟩
        | some b =>
          simp only at hx
          split at hx
          · next hgt => cases hx; exact ⟨Or.inl rfl, Nat.le_refl _, by intro b' hb'; cases hb'; omega⟩
          · next hgt => cases hx; exact ⟨Or.inr rfl, by omega, by intro b' hb'; cases hb'; exact Nat.le_refl _⟩
      -- pickStep init a is always some
      obtain ⟨x, hx⟩ : ∃ x, pickStep init a = some x := by
        unfold pickStep; cases init with
        | none => exact ⟨a, rfl⟩
        | some b => simp only; split <;> simp
      obtain ⟨hx1, hx2, hx3⟩ := hstep x hx
      have hxr := hinit x hx
      refine ⟨?_, ?_, ?_⟩
      · rcases hmem with hm | hm
        · exact Or.inl (List.mem_cons_of_mem _ hm)
        · rw [hx] at hm; cases hm
          rcases hx1 with rfl | h1
          · exact Or.inl (by simp)
          · exact Or.inr h1
      · intro c hc
        simp only [List.mem_cons] at hc
        rcases hc with rfl | hc
        · omega
        · exact hmax c hc
      · intro b hb
        have := hx3 b hb
        omega

/-- the history a path is routed to is the root history or one of its (transitive) nested histories whose root is a
component-wise prefix of the path, and no nested history with a LONGER matching root exists: the deepest one wins.
The returned path is the given path relative to that history's root. -/
theorem route_deepest (h : Hist) (p : RelPath) (hroot : h.root = []) :
    ((route h p).1 = h ∨ (route h p).1 ∈ allDescendants h) ∧
    isPrefixOf (route h p).1.root p = true ∧
    (route h p).2 = p.drop (route h p).1.root.length ∧
    (∀ c ∈ allDescendants h, c.root ≠ [] → isPrefixOf c.root p = true →
      c.root.length ≤ (route h p).1.root.length) := by
  generalize hr : route h p = r
  rw [route_unfold] at hr
  obtain ⟨hnone, hsome⟩ := foldl_pick_spec ((allDescendants h).filter fun c => !c.root.isEmpty && isPrefixOf c.root p) none
  cases hf : ((allDescendants h).filter fun c => !c.root.isEmpty && isPrefixOf c.root p).foldl pickStep none with
  | none =>
    rw [hf] at hr
    simp only at hr
    have hemp := (hnone.mp hf).1
    subst hr
    refine ⟨Or.inl rfl, by simp [isPrefixOf, hroot], by simp [hroot], ?_⟩
    intro c hc hne hpre
    exfalso
    have : c ∈ (allDescendants h).filter fun c => !c.root.isEmpty && isPrefixOf c.root p := by
      simp only [List.mem_filter, Bool.and_eq_true, Bool.not_eq_true']
      exact ⟨hc, by cases hcr : c.root <;> simp_all, hpre⟩
    rw [hemp] at this; simp at this
  | some c0 =>
    rw [hf] at hr
    simp only at hr
    obtain ⟨hmem, hmax, _⟩ := hsome c0 hf
    have hmem' : c0 ∈ (allDescendants h).filter fun c => !c.root.isEmpty && isPrefixOf c.root p := by
      rcases hmem with h1 | h1
      · exact h1
      · cases h1
    simp only [List.mem_filter, Bool.and_eq_true] at hmem'
    subst hr
    refine ⟨Or.inr hmem'.1, hmem'.2.2, rfl, ?_⟩
    intro c hc hne hpre
    apply hmax
    simp only [List.mem_filter, Bool.and_eq_true, Bool.not_eq_true']
    exact ⟨hc, by cases hcr : c.root <;> simp_all, hpre⟩

/-- sibling folders whose names are string prefixes of each other are not confused: the match is component-wise -/
example : isPrefixOf ["A"] ["AB", "x.txt"] = false ∧ isPrefixOf ["Clips"] ["Clips_proxy", "p.mov"] = false ∧
    isPrefixOf ["A"] ["A", "x.txt"] = true := by decide

/-- children are committed before their parents: the post-order walk ends with the history itself and every nested
history is listed before it -/
theorem walkPost_self_last (h : Hist) : (walkPost h).getLast? = some h := by
  cases h with
  | mk r g c e cs => simp [walkPost]

theorem walkPost_children_before (r : RelPath) (g : List LGen) (c : List ChainEntry) (e : Bool) (cs : List Hist) :
    walkPost (.mk r g c e cs) = walkPostList cs ++ [.mk r g c e cs] := by
  simp [walkPost]

/-- a history writes a generation in a run iff it received a record (has a list in the session) or one of its direct
children wrote one; otherwise the commit leaves it alone -/
theorem commitStep_skip (rootHist : Hist) (s : Session) (fn stamp process : String) (cb : Option String)
    (written : List Written) (h : Hist)
    (hno : (s.lists.any fun l => l.root == h.root) = false)
    (hrefs : (written.filter fun w => parentRoot rootHist w.histRoot == some h.root) = []) :
    commitStep rootHist s fn stamp process cb written h = .ok written := by
  unfold commitStep
  simp [hno, hrefs]
  rfl

/-- the references written into a parent manifest are exactly the direct children that wrote a generation in this
run, in the order they wrote, each as <child root relative to the parent>/ascmhl/<new manifest name> -/
theorem writeOne_refs (rootHist : Hist) (s : Session) (fn stamp process : String) (cb : Option String) (h : Hist)
    (refs : List Written) (w : Written) (hw : writeOne rootHist s fn stamp process cb h refs = .ok w) :
    w.gen.refs = refs.map fun c => posix (c.histRoot.drop h.root.length ++ [Gen.folderName, c.gen.fileName]) := by
  unfold writeOne at hw
  simp only [bind, Except.bind] at hw
  split at hw
  · cases hw
  · simp only [pure, Except.pure] at hw
    cases hw; rfl

end MhlProps.C08
