/-
Lemmas about `isort`, the set of all paths of a tree and the traversal `traverse` / `traverseKids` /
`visiblePaths` of MhlModel/Tree.lean (C02, C12).
-/
import MhlModel.Tree

namespace MhlModel

/-! ## `isort` is a permutation -/

theorem insertSorted_perm {α : Type} (le : α → α → Bool) (a : α) (l : List α) :
    (insertSorted le a l).Perm (a :: l) := by
  induction l with
  | nil => simp [insertSorted]
  | cons x xs ih =>
    simp only [insertSorted]
    split
    · exact .refl _
    · exact (List.Perm.cons x ih).trans (List.Perm.swap a x xs)

theorem isort_perm {α : Type} (le : α → α → Bool) (l : List α) : (isort le l).Perm l := by
  induction l with
  | nil => simp [isort]
  | cons x xs ih =>
    simp only [isort]
    exact (insertSorted_perm le x _).trans (ih.cons x)

theorem mem_isort {α : Type} (le : α → α → Bool) (l : List α) (x : α) : x ∈ isort le l ↔ x ∈ l :=
  (isort_perm le l).mem_iff

theorem length_isort {α : Type} (le : α → α → Bool) (l : List α) : (isort le l).length = l.length :=
  (isort_perm le l).length_eq

/-- a symmetric pairwise relation survives sorting -/
theorem pairwise_isort {α : Type} {R : α → α → Prop} (sym : ∀ {x y}, R x y → R y x)
    (le : α → α → Bool) (l : List α) : (isort le l).Pairwise R ↔ l.Pairwise R :=
  (isort_perm le l).pairwise_iff sym

/-! ## structural induction on trees -/

/-- induction over the nested inductive `Node`: the hypothesis for a directory is the statement for all its
children -/
theorem Node.induct {P : Node → Prop} (file : ∀ n c, P (.file n c))
    (dir : ∀ n cs h, (∀ c ∈ cs, P c) → P (.dir n cs h)) (t : Node) : P t :=
  Node.rec (motive_1 := P) (motive_2 := fun cs => ∀ c ∈ cs, P c)
    file (fun n cs h ih => dir n cs h ih) (by simp)
    (fun c cs hc hcs => by
      intro x hx
      rcases List.mem_cons.1 hx with rfl | hx
      · exact hc
      · exact hcs x hx) t

/-! ## all paths of a tree -/

mutual
/-- every proper descendant of the node whose own path is `here`, as (path, is_dir); in stored order, a directory
before its content -/
def Node.paths (here : RelPath) : Node → List (RelPath × Bool)
  | .file _ _ => []
  | .dir _ cs _ => Node.pathsKids here cs
def Node.pathsKids (here : RelPath) : List Node → List (RelPath × Bool)
  | [] => []
  | c :: cs => (here ++ [c.name], c.isDir) :: (Node.paths (here ++ [c.name]) c ++ Node.pathsKids here cs)
end

mutual
/-- the names of all proper descendants -/
def Node.descNames : Node → List String
  | .file _ _ => []
  | .dir _ cs _ => Node.descNamesKids cs
def Node.descNamesKids : List Node → List String
  | [] => []
  | c :: cs => c.name :: (Node.descNames c ++ Node.descNamesKids cs)
end

mutual
/-- sibling names are pairwise distinct in every directory of the tree (what a file system guarantees) -/
def Node.NamesDistinct : Node → Prop
  | .file _ _ => True
  | .dir _ cs _ => (cs.map Node.name).Nodup ∧ Node.NamesDistinctKids cs
def Node.NamesDistinctKids : List Node → Prop
  | [] => True
  | c :: cs => Node.NamesDistinct c ∧ Node.NamesDistinctKids cs
end

theorem Node.pathsKids_eq (here : RelPath) (cs : List Node) :
    Node.pathsKids here cs =
      cs.flatMap fun c => (here ++ [c.name], c.isDir) :: Node.paths (here ++ [c.name]) c := by
  induction cs with
  | nil => simp [Node.pathsKids]
  | cons c cs ih => simp [Node.pathsKids, ih]

theorem Node.descNamesKids_eq (cs : List Node) :
    Node.descNamesKids cs = cs.flatMap fun c => c.name :: Node.descNames c := by
  induction cs with
  | nil => simp [Node.descNamesKids]
  | cons c cs ih => simp [Node.descNamesKids, ih]

theorem Node.namesDistinctKids_iff (cs : List Node) :
    Node.NamesDistinctKids cs ↔ ∀ c ∈ cs, Node.NamesDistinct c := by
  induction cs with
  | nil => simp [Node.NamesDistinctKids]
  | cons c cs ih => simp [Node.NamesDistinctKids, ih]

theorem Node.namesDistinct_dir (n : String) (cs : List Node) (h : Option HistStore) :
    Node.NamesDistinct (.dir n cs h) ↔ (cs.map Node.name).Nodup ∧ ∀ c ∈ cs, Node.NamesDistinct c := by
  rw [Node.NamesDistinct, Node.namesDistinctKids_iff]

@[simp] theorem Node.paths_file (here : RelPath) (n : String) (b : Bytes) :
    Node.paths here (.file n b) = [] := by rw [Node.paths]

theorem Node.mem_paths_dir (here : RelPath) (n : String) (cs : List Node) (h : Option HistStore)
    (x : RelPath × Bool) :
    x ∈ Node.paths here (.dir n cs h) ↔
      ∃ c ∈ cs, x = (here ++ [c.name], c.isDir) ∨ x ∈ Node.paths (here ++ [c.name]) c := by
  rw [Node.paths, Node.pathsKids_eq]
  simp [List.mem_flatMap]

theorem Node.mem_descNames_dir (n : String) (cs : List Node) (h : Option HistStore) (s : String) :
    s ∈ Node.descNames (.dir n cs h) ↔ ∃ c ∈ cs, s = c.name ∨ s ∈ Node.descNames c := by
  rw [Node.descNames, Node.descNamesKids_eq]
  simp [List.mem_flatMap]

/-- every path of the tree at `here` is `here` extended by a non-empty list of names of descendants -/
theorem Node.paths_shape (t : Node) : ∀ (here : RelPath) (p : RelPath) (d : Bool),
    (p, d) ∈ Node.paths here t → ∃ q, p = here ++ q ∧ q ≠ [] ∧ ∀ s ∈ q, s ∈ Node.descNames t := by
  induction t using Node.induct with
  | file n c => intro here p d h; simp at h
  | dir n cs h ih =>
    intro here p d hp
    rw [Node.mem_paths_dir] at hp
    obtain ⟨c, hc, hp | hp⟩ := hp
    · refine ⟨[c.name], ?_, by simp, ?_⟩
      · simpa using congrArg Prod.fst hp
      · intro s hs
        rw [Node.mem_descNames_dir]
        exact ⟨c, hc, Or.inl (by simpa using hs)⟩
    · obtain ⟨q, rfl, -, hq⟩ := ih c hc _ _ _ hp
      refine ⟨c.name :: q, by simp, by simp, ?_⟩
      intro s hs
      rw [Node.mem_descNames_dir]
      rcases List.mem_cons.1 hs with rfl | hs
      · exact ⟨c, hc, Or.inl rfl⟩
      · exact ⟨c, hc, Or.inr (hq s hs)⟩

theorem Node.paths_prefix {t : Node} {here p : RelPath} {d : Bool} (h : (p, d) ∈ Node.paths here t) :
    here.length < p.length ∧ p.take here.length = here := by
  obtain ⟨q, rfl, hq, -⟩ := Node.paths_shape t here p d h
  refine ⟨?_, by simp⟩
  have : 0 < q.length := List.length_pos_iff.2 hq
  simp; omega

/-! ## the traversal -/

/-- the per-child result of `traverseKids` -/
def kidOf (hit : RelPath → Bool) (here : RelPath) (c : Node) : Kid :=
  ⟨c.name, c.isDir, traverse hit (here ++ [c.name]) c⟩

theorem traverseKids_eq (hit : RelPath → Bool) (here : RelPath) (cs : List Node) :
    traverseKids hit here cs = cs.map (kidOf hit here) := by
  induction cs with
  | nil => simp [traverseKids]
  | cons c cs ih => simp [traverseKids, ih, kidOf]

/-- the visible children of the directory at `here`, sorted by name -/
def visKids (hit : RelPath → Bool) (here : RelPath) (cs : List Node) : List Kid :=
  (isort (fun a b => strLe a.name b.name) (cs.map (kidOf hit here))).filter
    fun k => !hit (here ++ [k.name])

theorem traverse_dir (hit : RelPath → Bool) (here : RelPath) (n : String) (cs : List Node)
    (h : Option HistStore) :
    traverse hit here (.dir n cs h) =
      (visKids hit here cs).flatMap (·.visits) ++
        [⟨here, (visKids hit here cs).map fun k => (k.name, k.isDir)⟩] := by
  rw [traverse, traverseKids_eq]; rfl

theorem mem_visKids (hit : RelPath → Bool) (here : RelPath) (cs : List Node) (k : Kid) :
    k ∈ visKids hit here cs ↔ ∃ c ∈ cs, hit (here ++ [c.name]) = false ∧ k = kidOf hit here c := by
  simp only [visKids, List.mem_filter, mem_isort, List.mem_map]
  constructor
  · rintro ⟨⟨c, hc, rfl⟩, hk⟩
    exact ⟨c, hc, by simpa [kidOf] using hk, rfl⟩
  · rintro ⟨c, hc, hh, rfl⟩
    exact ⟨⟨c, hc, rfl⟩, by simpa [kidOf] using hh⟩

/-- the (path, is_dir) pairs yielded by a list of visits -/
def visitPaths (vs : List Visit) : List (RelPath × Bool) :=
  vs.flatMap fun v => v.children.map fun c => (v.folder ++ [c.1], c.2)

/-- `visiblePaths` for a traversal that starts at the path `here` -/
def visFrom (hit : RelPath → Bool) (here : RelPath) (t : Node) : List (RelPath × Bool) :=
  visitPaths (traverse hit here t)

theorem visiblePaths_eq (hit : RelPath → Bool) (t : Node) : visiblePaths hit t = visFrom hit [] t := rfl

@[simp] theorem visFrom_file (hit : RelPath → Bool) (here : RelPath) (n : String) (b : Bytes) :
    visFrom hit here (.file n b) = [] := by simp [visFrom, visitPaths, traverse]

theorem visFrom_dir (hit : RelPath → Bool) (here : RelPath) (n : String) (cs : List Node)
    (h : Option HistStore) :
    visFrom hit here (.dir n cs h) =
      (visKids hit here cs).flatMap (fun k => visitPaths k.visits) ++
        (visKids hit here cs).map (fun k => (here ++ [k.name], k.isDir)) := by
  simp [visFrom, visitPaths, traverse_dir, List.flatMap_assoc, Function.comp_def]

theorem mem_visFrom_dir (hit : RelPath → Bool) (here : RelPath) (n : String) (cs : List Node)
    (h : Option HistStore) (x : RelPath × Bool) :
    x ∈ visFrom hit here (.dir n cs h) ↔
      ∃ c ∈ cs, hit (here ++ [c.name]) = false ∧
        (x = (here ++ [c.name], c.isDir) ∨ x ∈ visFrom hit (here ++ [c.name]) c) := by
  rw [visFrom_dir]
  simp only [List.mem_append, List.mem_flatMap, List.mem_map, mem_visKids]
  constructor
  · rintro (⟨k, ⟨c, hc, hh, rfl⟩, hx⟩ | ⟨k, ⟨c, hc, hh, rfl⟩, rfl⟩)
    · exact ⟨c, hc, hh, Or.inr hx⟩
    · exact ⟨c, hc, hh, Or.inl rfl⟩
  · rintro ⟨c, hc, hh, rfl | hx⟩
    · exact Or.inr ⟨_, ⟨c, hc, hh, rfl⟩, rfl⟩
    · exact Or.inl ⟨_, ⟨c, hc, hh, rfl⟩, hx⟩

/-! ## visible = in the tree and no component ignored -/


theorem mem_visFrom_iff (hit : RelPath → Bool) (t : Node) : ∀ (here p : RelPath) (d : Bool),
    (p, d) ∈ visFrom hit here t ↔
      (p, d) ∈ Node.paths here t ∧ ∀ k, here.length < k → k ≤ p.length → hit (p.take k) = false := by
  induction t using Node.induct with
  | file n c => intro here p d; simp
  | dir n cs h ih =>
    intro here p d
    rw [mem_visFrom_dir, Node.mem_paths_dir]
    constructor
    · rintro ⟨c, hc, hh, hx | hx⟩
      · refine ⟨⟨c, hc, Or.inl hx⟩, ?_⟩
        obtain ⟨rfl, rfl⟩ := Prod.mk.inj hx
        intro k hk1 hk2
        have : k = (here ++ [c.name]).length := by simp at hk2 ⊢; omega
        rw [this, List.take_length]; exact hh
      · obtain ⟨hp, hk⟩ := (ih c hc _ _ _).1 hx
        refine ⟨⟨c, hc, Or.inr hp⟩, ?_⟩
        intro k hk1 hk2
        by_cases hk3 : k = here.length + 1
        · have := (Node.paths_prefix hp).2
          simp only [List.length_append, List.length_singleton] at this
          rw [hk3, this]; exact hh
        · exact hk k (by simp; omega) hk2
    · rintro ⟨⟨c, hc, hx | hx⟩, hk⟩
      · refine ⟨c, hc, ?_, Or.inl hx⟩
        obtain ⟨rfl, rfl⟩ := Prod.mk.inj hx
        have := hk (here ++ [c.name]).length (by simp) (Nat.le_refl _)
        rwa [List.take_length] at this
      · have hpre := Node.paths_prefix hx
        simp only [List.length_append, List.length_singleton] at hpre
        refine ⟨c, hc, ?_, Or.inr ((ih c hc _ _ _).2 ⟨hx, ?_⟩)⟩
        · have := hk (here.length + 1) (by omega) (by omega)
          rwa [hpre.2] at this
        · intro k hk1 hk2
          exact hk k (by simp at hk1; omega) hk2

/-! ## no duplicates -/


theorem visKids_names_pairwise (hit : RelPath → Bool) (here : RelPath) (cs : List Node)
    (hnd : (cs.map Node.name).Nodup) : (visKids hit here cs).Pairwise (fun a b => a.name ≠ b.name) := by
  unfold visKids
  apply List.Pairwise.filter
  rw [pairwise_isort (fun h => Ne.symm h), List.pairwise_map]
  rw [List.Nodup, List.pairwise_map] at hnd
  exact hnd

theorem visitPaths_kid_prefix {hit : RelPath → Bool} {here : RelPath} {cs : List Node} {k : Kid}
    (hk : k ∈ visKids hit here cs) {x : RelPath × Bool} (hx : x ∈ visitPaths k.visits) :
    here.length + 1 < x.1.length ∧ x.1.take (here.length + 1) = here ++ [k.name] := by
  obtain ⟨c, hc, -, rfl⟩ := (mem_visKids _ _ _ _).1 hk
  obtain ⟨p, d⟩ := x
  have := Node.paths_prefix ((mem_visFrom_iff hit c _ p d).1 hx).1
  simpa [kidOf] using this

theorem nodup_visFrom (hit : RelPath → Bool) (t : Node) :
    ∀ here : RelPath, t.NamesDistinct → (visFrom hit here t).Nodup := by
  induction t using Node.induct with
  | file n c => intro here _; simp
  | dir n cs h ih =>
    intro here hd
    rw [Node.namesDistinct_dir] at hd
    have hnames := visKids_names_pairwise hit here cs hd.1
    rw [visFrom_dir, List.nodup_append]
    refine ⟨?_, ?_, ?_⟩
    · rw [List.Nodup, List.pairwise_flatMap]
      constructor
      · intro k hk
        obtain ⟨c, hc, -, rfl⟩ := (mem_visKids _ _ _ _).1 hk
        exact ih c hc _ (hd.2 c hc)
      · refine hnames.imp_of_mem ?_
        intro a b ha hb hab x hx y hy hxy
        have h1 := (visitPaths_kid_prefix ha hx).2
        have h2 := (visitPaths_kid_prefix hb hy).2
        rw [hxy, h2] at h1
        exact hab (by simpa using h1.symm)
    · rw [List.Nodup, List.pairwise_map]
      refine hnames.imp ?_
      intro a b hab heq
      exact hab (by simpa using congrArg Prod.fst heq)
    · intro a ha b hb hab
      obtain ⟨k, hk, hx⟩ := List.mem_flatMap.1 ha
      obtain ⟨k', -, rfl⟩ := List.mem_map.1 hb
      have := (visitPaths_kid_prefix hk hx).1
      rw [hab] at this
      simp at this

/-! ## post-order -/



theorem infix_flatMap_of_mem {α β : Type} {f : α → List β} {a : α} {l : List α} (h : a ∈ l) :
    f a <:+: l.flatMap f := by
  obtain ⟨s, t, rfl⟩ := List.append_of_mem h
  exact ⟨s.flatMap f, t.flatMap f, by simp⟩

/-- every visit of the traversal of the node at `here` is of a folder at or below `here` -/
theorem traverse_folder_shape (hit : RelPath → Bool) (t : Node) :
    ∀ (here : RelPath) (v : Visit), v ∈ traverse hit here t → ∃ q, v.folder = here ++ q := by
  induction t using Node.induct with
  | file n c => intro here v hv; simp [traverse] at hv
  | dir n cs h ih =>
    intro here v hv
    rw [traverse_dir, List.mem_append, List.mem_flatMap] at hv
    rcases hv with ⟨k, hk, hv⟩ | hv
    · obtain ⟨c, hc, -, rfl⟩ := (mem_visKids _ _ _ _).1 hk
      obtain ⟨q, hq⟩ := ih c hc _ v hv
      exact ⟨c.name :: q, by simp [hq]⟩
    · exact ⟨[], by simp at hv; simp [hv]⟩

theorem kid_visit_shape {hit : RelPath → Bool} {here : RelPath} {cs : List Node} {k : Kid}
    (hk : k ∈ visKids hit here cs) {v : Visit} (hv : v ∈ k.visits) :
    ∃ q, v.folder = here ++ k.name :: q := by
  obtain ⟨c, hc, -, rfl⟩ := (mem_visKids _ _ _ _).1 hk
  obtain ⟨q, hq⟩ := traverse_folder_shape hit c _ v hv
  exact ⟨q, by simp [hq, kidOf]⟩

theorem traverse_pairwise (hit : RelPath → Bool) (t : Node) :
    ∀ here : RelPath, t.NamesDistinct →
      (traverse hit here t).Pairwise (fun v w => ¬ v.folder <+: w.folder) := by
  induction t using Node.induct with
  | file n c => intro here _; simp [traverse]
  | dir n cs h ih =>
    intro here hd
    rw [Node.namesDistinct_dir] at hd
    have hnames := visKids_names_pairwise hit here cs hd.1
    rw [traverse_dir, List.pairwise_append]
    refine ⟨?_, by simp, ?_⟩
    · rw [List.pairwise_flatMap]
      constructor
      · intro k hk
        obtain ⟨c, hc, -, rfl⟩ := (mem_visKids _ _ _ _).1 hk
        exact ih c hc _ (hd.2 c hc)
      · refine hnames.imp_of_mem ?_
        intro a b ha hb hab v hv w hw hpre
        obtain ⟨q, hq⟩ := kid_visit_shape ha hv
        obtain ⟨q', hq'⟩ := kid_visit_shape hb hw
        obtain ⟨r, hr⟩ := hpre
        rw [hq, hq', List.append_assoc, List.append_cancel_left_eq] at hr
        exact hab (by simpa using (List.cons.inj hr).1)
    · intro v hv w hw hpre
      obtain ⟨k, hk, hv⟩ := List.mem_flatMap.1 hv
      obtain ⟨q, hq⟩ := kid_visit_shape hk hv
      have := hpre.length_le
      simp at hw
      rw [hq, hw] at this
      simp at this
      omega

/-! ## `Node.paths` and the model's lookup `Node.at?` -/


theorem findChild_some {cs : List Node} {n : String} {c : Node} (h : findChild cs n = some c) :
    c ∈ cs ∧ c.name = n := by
  unfold findChild at h
  exact ⟨List.mem_of_find?_eq_some h, by simpa using List.find?_some h⟩

theorem findChild_of_mem {cs : List Node} (hnd : (cs.map Node.name).Nodup) {c : Node} (hc : c ∈ cs) :
    findChild cs c.name = some c := by
  induction cs with
  | nil => simp at hc
  | cons x xs ih =>
    simp only [List.map_cons, List.nodup_cons, List.mem_map, not_exists, not_and] at hnd
    rcases List.mem_cons.1 hc with rfl | hc
    · simp [findChild]
    · have : x.name ≠ c.name := fun e => hnd.1 c hc e.symm
      have hb : (x.name == c.name) = false := by simpa using this
      have := ih hnd.2 hc
      simpa [findChild, List.find?_cons, hb] using this

theorem Node.at?_dir_cons (n : String) (cs : List Node) (h : Option HistStore) (m : String) (rest : RelPath) :
    (Node.dir n cs h).at? (m :: rest) = (findChild cs m).bind (·.at? rest) := by
  rw [Node.at?]; cases findChild cs m <;> rfl

/-- `Node.paths` agrees with the model's own lookup `Node.at?` -/
theorem Node.mem_paths_iff_at (t : Node) : ∀ (here q : RelPath) (d : Bool), t.NamesDistinct →
    ((here ++ q, d) ∈ Node.paths here t ↔ q ≠ [] ∧ ∃ c, t.at? q = some c ∧ c.isDir = d) := by
  induction t using Node.induct with
  | file n b =>
    intro here q d _
    cases q with
    | nil => simp
    | cons m rest => simp [Node.at?]
  | dir n cs h ih =>
    intro here q d hd
    rw [Node.namesDistinct_dir] at hd
    rw [Node.mem_paths_dir]
    constructor
    · rintro ⟨c, hc, hx | hx⟩
      · obtain ⟨h1, rfl⟩ := Prod.mk.inj hx
        have : q = [c.name] := List.append_cancel_left h1
        subst this
        exact ⟨by simp, c, by simp [findChild_of_mem hd.1 hc, Node.at?], rfl⟩
      · obtain ⟨q', hq', -, -⟩ := Node.paths_shape c _ _ _ hx
        have : q = c.name :: q' := by
          rw [List.append_assoc] at hq'; exact List.append_cancel_left hq'
        subst this
        have hx' : ((here ++ [c.name]) ++ q', d) ∈ Node.paths (here ++ [c.name]) c := by simpa using hx
        obtain ⟨-, c', h1, h2⟩ := (ih c hc _ q' d (hd.2 c hc)).1 hx'
        exact ⟨by simp, c', by simp [Node.at?_dir_cons, findChild_of_mem hd.1 hc, h1], h2⟩
    · rintro ⟨hq, c', hat, rfl⟩
      cases q with
      | nil => exact absurd rfl hq
      | cons m rest =>
        rw [Node.at?_dir_cons] at hat
        cases hf : findChild cs m with
        | none => simp [hf] at hat
        | some c =>
          obtain ⟨hc, rfl⟩ := findChild_some hf
          simp only [hf, Option.bind_some] at hat
          refine ⟨c, hc, ?_⟩
          cases rest with
          | nil =>
            simp [Node.at?] at hat; subst hat; exact Or.inl rfl
          | cons m' rest' =>
            right
            have := (ih c hc (here ++ [c.name]) (m' :: rest') c'.isDir (hd.2 c hc)).2
              ⟨by simp, c', hat, rfl⟩
            simpa using this

end MhlModel
