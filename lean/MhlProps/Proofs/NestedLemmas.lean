/-
Lemmas for C08part: folder-mode `create` on a tree that contains nested histories.

A. the tree of loaded histories (`Hist`): induction principle, `allDescendants` / `walkPost` as `flatMap`s,
   the post-order walk is a permutation of `h :: allDescendants h`, every child history is walked before its parent
B. histories with pairwise different roots: every history has ONE parent (`parentRoot` is exact)
-/
import MhlProps.C08
import MhlProps.C02rec
import MhlProps.Proofs.SealVerifyLemmas
import MhlProps.Proofs.DirHashImplLemmas

namespace MhlModel

/-! ## A. the tree of histories -/

/-- induction over the nested inductive `Hist` -/
theorem Hist.induct {P : Hist → Prop}
    (mk : ∀ r g c e cs, (∀ x ∈ cs, P x) → P (.mk r g c e cs)) (h : Hist) : P h :=
  Hist.rec (motive_1 := P) (motive_2 := fun cs => ∀ x ∈ cs, P x)
    (fun r g c e cs ih => mk r g c e cs ih) (by simp)
    (fun c cs hc hcs => by
      intro x hx
      rcases List.mem_cons.1 hx with rfl | hx
      · exact hc
      · exact hcs x hx) h

/-- the history and all its transitive children -/
def Hist.all (h : Hist) : List Hist := h :: allDescendants h

theorem descList_eq (cs : List Hist) : descList cs = cs.flatMap Hist.all := by
  induction cs with
  | nil => simp [descList]
  | cons c cs ih => simp [descList, ih, Hist.all]

theorem walkPostList_eq (cs : List Hist) : walkPostList cs = cs.flatMap walkPost := by
  induction cs with
  | nil => simp [walkPostList]
  | cons c cs ih => simp [walkPostList, ih]

theorem allDescendants_eq (h : Hist) : allDescendants h = h.children.flatMap Hist.all := by
  cases h with
  | mk r g c e cs => rw [allDescendants, descList_eq]; rfl

theorem walkPost_eq (h : Hist) : walkPost h = h.children.flatMap walkPost ++ [h] := by
  cases h with
  | mk r g c e cs => rw [walkPost, walkPostList_eq]; rfl

theorem Hist.all_eq (h : Hist) : h.all = h :: h.children.flatMap Hist.all := by
  rw [Hist.all, allDescendants_eq]

theorem Hist.self_mem_all (h : Hist) : h ∈ h.all := by simp [Hist.all]

theorem descList_append (a b : List Hist) : descList (a ++ b) = descList a ++ descList b := by
  simp [descList_eq]

/-- a direct child is a descendant -/
theorem child_mem_allDescendants {h c : Hist} (hc : c ∈ h.children) : c ∈ allDescendants h := by
  rw [allDescendants_eq, List.mem_flatMap]
  exact ⟨c, hc, c.self_mem_all⟩

/-- descendants of a member are descendants -/
theorem allDescendants_trans (g : Hist) : ∀ x ∈ g.all, ∀ y ∈ allDescendants x, y ∈ allDescendants g := by
  induction g using Hist.induct with
  | mk r gg c e cs ih =>
    intro x hx y hy
    rw [Hist.all_eq] at hx
    rcases List.mem_cons.1 hx with rfl | hx
    · exact hy
    · obtain ⟨k, hk, hxk⟩ := List.mem_flatMap.1 hx
      have := ih k hk x hxk y hy
      rw [allDescendants_eq, List.mem_flatMap]
      exact ⟨k, hk, List.mem_cons_of_mem _ this⟩

theorem all_trans (g : Hist) {x y : Hist} (hx : x ∈ g.all) (hy : y ∈ x.all) : y ∈ g.all := by
  rcases List.mem_cons.1 hy with rfl | hy
  · exact hx
  · exact List.mem_cons_of_mem _ (allDescendants_trans g x hx y hy)

/-- the children of a member are descendants -/
theorem child_of_mem_all {g x c : Hist} (hx : x ∈ g.all) (hc : c ∈ x.children) : c ∈ allDescendants g :=
  allDescendants_trans g x hx c (child_mem_allDescendants hc)

/-- every descendant is the direct child of a member -/
theorem allDescendants_has_parent (g : Hist) : ∀ y ∈ allDescendants g, ∃ x ∈ g.all, y ∈ x.children := by
  induction g using Hist.induct with
  | mk r gg c e cs ih =>
    intro y hy
    rw [allDescendants_eq, List.mem_flatMap] at hy
    obtain ⟨k, hk, hyk⟩ := hy
    rcases List.mem_cons.1 hyk with rfl | hyk
    · exact ⟨_, Hist.self_mem_all _, hk⟩
    · obtain ⟨x, hx, hyx⟩ := ih k hk y hyk
      refine ⟨x, ?_, hyx⟩
      exact all_trans _ (List.mem_cons_of_mem _ (child_mem_allDescendants (h := .mk r gg c e cs) hk)) hx

/-- the post-order walk lists the history and all its descendants -/
theorem walkPost_perm (h : Hist) : (walkPost h).Perm h.all := by
  induction h using Hist.induct with
  | mk r g c e cs ih =>
    rw [walkPost_eq, Hist.all_eq]
    refine List.perm_append_singleton _ _ |>.trans (List.Perm.cons _ ?_)
    exact List.Perm.flatMap_left _ ih

theorem mem_walkPost (h x : Hist) : x ∈ walkPost h ↔ x ∈ h.all := (walkPost_perm h).mem_iff

/-- the walk of a member is a contiguous block of the walk -/
theorem walkPost_infix (g : Hist) : ∀ h ∈ walkPost g, walkPost h <:+: walkPost g := by
  induction g using Hist.induct with
  | mk r gg c e cs ih =>
    intro h hh
    rw [walkPost_eq, List.mem_append] at hh
    rcases hh with hh | hh
    · obtain ⟨k, hk, hhk⟩ := List.mem_flatMap.1 hh
      have h1 := ih k hk h hhk
      have h2 : walkPost k <:+: (Hist.mk r gg c e cs).children.flatMap walkPost :=
        infix_flatMap_of_mem (f := walkPost) hk
      rw [walkPost_eq (Hist.mk r gg c e cs)]
      exact h1.trans (h2.trans (List.prefix_append _ _).isInfix)
    · simp only [List.mem_singleton] at hh
      subst hh
      exact List.infix_refl _

/-- in the walk, everything before a history's own position that belongs to ... : a direct child of `h` is listed in
the block of `h`, before `h` itself -/
theorem child_in_block {h c : Hist} (hc : c ∈ h.children) : ∃ a b, walkPost h = a ++ c :: b ++ [h] := by
  rw [walkPost_eq]
  have hcm : c ∈ h.children.flatMap walkPost :=
    List.mem_flatMap.2 ⟨c, hc, (mem_walkPost c c).2 c.self_mem_all⟩
  obtain ⟨a, b, hab⟩ := List.append_of_mem hcm
  exact ⟨a, b, by rw [hab]⟩

/-! ## B. pairwise different roots -/

/-- the roots of a list of histories -/
abbrev rootsOf (l : List Hist) : List RelPath := l.map (·.root)

theorem nodup_block {cs : List Hist} {k : Hist} (hk : k ∈ cs) (hnd : (rootsOf (cs.flatMap Hist.all)).Nodup) :
    (rootsOf k.all).Nodup := by
  have h1 : k.all <:+: cs.flatMap Hist.all := infix_flatMap_of_mem (f := Hist.all) hk
  exact hnd.sublist (h1.sublist.map _)

/-- two members with the same root lie in the block of the same child -/
theorem same_block {cs : List Hist} (hnd : (rootsOf (cs.flatMap Hist.all)).Nodup) {k k' u v : Hist}
    (hk : k ∈ cs) (hk' : k' ∈ cs) (hu : u ∈ k.all) (hv : v ∈ k'.all) (huv : u.root = v.root) : k' = k := by
  obtain ⟨a, b, rfl⟩ := List.append_of_mem hk
  simp only [List.flatMap_append, List.flatMap_cons, rootsOf, List.map_append] at hnd
  rw [List.nodup_append] at hnd
  obtain ⟨-, hnd2, hdis1⟩ := hnd
  rw [List.nodup_append] at hnd2
  obtain ⟨-, -, hdis2⟩ := hnd2
  have hur : u.root ∈ List.map (·.root) k.all := List.mem_map_of_mem hu
  rcases List.mem_append.1 hk' with h | h
  · exfalso
    have hvr : v.root ∈ List.map (·.root) (a.flatMap Hist.all) :=
      List.mem_map_of_mem (List.mem_flatMap.2 ⟨k', h, hv⟩)
    exact hdis1 _ hvr _ (List.mem_append_left _ hur) huv.symm
  · rcases List.mem_cons.1 h with h | h
    · exact h
    · exfalso
      have hvr : v.root ∈ List.map (·.root) (b.flatMap Hist.all) :=
        List.mem_map_of_mem (List.mem_flatMap.2 ⟨k', h, hv⟩)
      exact hdis2 _ hur _ hvr huv

/-- with pairwise different roots a history has one parent -/
theorem unique_parent (g : Hist) : (rootsOf g.all).Nodup →
    ∀ x ∈ g.all, ∀ y ∈ g.all, ∀ c1 ∈ x.children, ∀ c2 ∈ y.children, c1.root = c2.root → x.root = y.root := by
  induction g using Hist.induct with
  | mk r gg ch e cs ih =>
    intro hnd x hx y hy c1 hc1 c2 hc2 heq
    rw [Hist.all_eq] at hnd hx hy
    have hnd' : (rootsOf (cs.flatMap Hist.all)).Nodup := by
      simp only [rootsOf, List.map_cons, List.nodup_cons] at hnd
      exact hnd.2
    -- a direct child of the top and a strict descendant of a child never share a root
    have key : ∀ c ∈ cs, ∀ k ∈ cs, ∀ z ∈ k.all, ∀ c' ∈ z.children, c.root = c'.root → False := by
      intro c hc k hk z hz c' hc' he
      have hc'k : c' ∈ allDescendants k := child_of_mem_all hz hc'
      have hkc : k = c := same_block hnd' hc hk c.self_mem_all (List.mem_cons_of_mem _ hc'k) he
      subst hkc
      have := nodup_block hc hnd'
      simp only [rootsOf, Hist.all, List.map_cons, List.nodup_cons] at this
      exact this.1 (he ▸ List.mem_map_of_mem hc'k)
    rcases List.mem_cons.1 hx with rfl | hx
    · rcases List.mem_cons.1 hy with rfl | hy
      · rfl
      · obtain ⟨k, hk, hyk⟩ := List.mem_flatMap.1 hy
        exact (key c1 hc1 k hk y hyk c2 hc2 heq).elim
    · obtain ⟨k1, hk1, hxk⟩ := List.mem_flatMap.1 hx
      rcases List.mem_cons.1 hy with rfl | hy
      · exact (key c2 hc2 k1 hk1 x hxk c1 hc1 heq.symm).elim
      · obtain ⟨k2, hk2, hyk⟩ := List.mem_flatMap.1 hy
        have h12 : k2 = k1 := same_block hnd' hk1 hk2
          (List.mem_cons_of_mem _ (child_of_mem_all hxk hc1)) (List.mem_cons_of_mem _ (child_of_mem_all hyk hc2)) heq
        subst h12
        exact ih k2 hk2 (nodup_block hk2 hnd') x hxk y hyk c1 hc1 c2 hc2 heq

/-- what `parentRoot` returns is the root of a member that has a direct child rooted at `d` -/
theorem parentRoot_some {g : Hist} {d pr : RelPath} (h : parentRoot g d = some pr) :
    ∃ x ∈ g.all, x.root = pr ∧ ∃ c ∈ x.children, c.root = d := by
  unfold parentRoot at h
  cases hf : (g :: allDescendants g).find? (fun x => x.children.any fun c => c.root == d) with
  | none => simp [hf] at h
  | some x =>
    simp only [hf, Option.map_some, Option.some.injEq] at h
    have hp := List.find?_some hf
    obtain ⟨c, hc, hcd⟩ := List.any_eq_true.1 hp
    exact ⟨x, List.mem_of_find?_eq_some hf, h, c, hc, by simpa using hcd⟩

theorem parentRoot_none {g : Hist} {d : RelPath} (h : parentRoot g d = none) :
    ∀ x ∈ g.all, ∀ c ∈ x.children, c.root ≠ d := by
  unfold parentRoot at h
  simp only [Option.map_eq_none_iff, List.find?_eq_none] at h
  intro x hx c hc hcd
  exact h x hx (List.any_eq_true.2 ⟨c, hc, by simpa using hcd⟩)

/-- with pairwise different roots `parentRoot` is exact -/
theorem parentRoot_child {g : Hist} (hnd : (rootsOf g.all).Nodup) {x c : Hist} (hx : x ∈ g.all)
    (hc : c ∈ x.children) : parentRoot g c.root = some x.root := by
  cases hp : parentRoot g c.root with
  | none => exact absurd rfl (parentRoot_none hp x hx c hc)
  | some pr =>
    obtain ⟨y, hy, hyr, c', hc', hcc⟩ := parentRoot_some hp
    rw [← hyr, unique_parent g hnd y hy x hx c' hc' c hc hcc]

theorem mem_all_root_inj {g : Hist} (hnd : (rootsOf g.all).Nodup) {x y : Hist} (hx : x ∈ g.all) (hy : y ∈ g.all)
    (h : x.root = y.root) : x = y :=
  List.inj_on_of_nodup_map hnd hx hy h

theorem parentRoot_iff {g : Hist} (hnd : (rootsOf g.all).Nodup) {x : Hist} (hx : x ∈ g.all) (d : RelPath) :
    parentRoot g d = some x.root ↔ ∃ c ∈ x.children, c.root = d := by
  constructor
  · intro h
    obtain ⟨y, hy, hyr, c, hc, hcd⟩ := parentRoot_some h
    rw [mem_all_root_inj hnd hy hx hyr] at hc
    exact ⟨c, hc, hcd⟩
  · rintro ⟨c, hc, rfl⟩
    exact parentRoot_child hnd hx hc

theorem append_cons_unique {α : Type} {l : List α} (hnd : l.Nodup) {x : α} :
    ∀ {p1 q1 p2 q2 : List α}, l = p1 ++ x :: q1 → l = p2 ++ x :: q2 → p1 = p2 ∧ q1 = q2 := by
  intro p1
  induction p1 generalizing l with
  | nil =>
    intro q1 p2 q2 h1 h2
    cases p2 with
    | nil => simp_all
    | cons y p2 =>
      exfalso
      subst h1
      simp only [List.nil_append, List.cons_append, List.cons.injEq] at h2
      obtain ⟨rfl, rfl⟩ := h2
      simp at hnd
  | cons z p1 ih =>
    intro q1 p2 q2 h1 h2
    cases p2 with
    | nil =>
      exfalso
      subst h2
      simp only [List.nil_append, List.cons_append, List.cons.injEq] at h1
      obtain ⟨rfl, rfl⟩ := h1
      simp at hnd
    | cons y p2 =>
      subst h1
      simp only [List.cons_append, List.cons.injEq] at h2
      obtain ⟨rfl, h2⟩ := h2
      simp only [List.cons_append, List.nodup_cons] at hnd
      obtain ⟨rfl, rfl⟩ := ih hnd.2 rfl h2
      exact ⟨rfl, rfl⟩

theorem walkPost_roots_nodup {g : Hist} (hnd : (rootsOf g.all).Nodup) : (rootsOf (walkPost g)).Nodup :=
  ((walkPost_perm g).map _).nodup_iff.2 hnd

/-- children are walked before their parent -/
theorem walkPost_child_before {g : Hist} (hnd : (rootsOf g.all).Nodup) {l1 l2 : List Hist} {h : Hist}
    (hw : walkPost g = l1 ++ h :: l2) {c : Hist} (hc : c ∈ h.children) : c ∈ l1 := by
  have hh : h ∈ walkPost g := by rw [hw]; simp
  obtain ⟨a, b, hab⟩ := walkPost_infix g h hh
  obtain ⟨a', b', hc'⟩ := child_in_block hc
  have hndw : (walkPost g).Nodup := (walkPost_roots_nodup hnd).of_map _
  have h2 : walkPost g = (a ++ (a' ++ c :: b')) ++ h :: b := by
    rw [← hab, hc']; simp
  obtain ⟨h3, -⟩ := append_cons_unique hndw hw h2
  rw [h3]
  simp

/-! ## C. what `loadHistory` builds -/

/-- `a` comes before `b` in a top-down walk that enters sub-folders in the order of their names: the two paths part
at some folder, `a` into the sub-folder with the smaller name -/
def WalkLt (a b : RelPath) : Prop :=
  ∃ pre x y ra rb, a = pre ++ x :: ra ∧ b = pre ++ y :: rb ∧ x ≠ y ∧ strLe x y = true

theorem WalkLt.append {a b : RelPath} (h : WalkLt a b) (s s' : RelPath) : WalkLt (a ++ s) (b ++ s') := by
  obtain ⟨pre, x, y, ra, rb, rfl, rfl, hne, hle⟩ := h
  exact ⟨pre, x, y, ra ++ s, rb ++ s', by simp, by simp, hne, hle⟩

theorem WalkLt.not_prefix {a b : RelPath} (h : WalkLt a b) : ¬ a <+: b ∧ ¬ b <+: a := by
  obtain ⟨pre, x, y, ra, rb, rfl, rfl, hne, -⟩ := h
  constructor
  · rintro ⟨r, hr⟩
    rw [List.append_assoc, List.append_cancel_left_eq, List.cons_append, List.cons.injEq] at hr
    exact hne hr.1
  · rintro ⟨r, hr⟩
    rw [List.append_assoc, List.append_cancel_left_eq, List.cons_append, List.cons.injEq] at hr
    exact hne hr.1.symm

/-- the histories `hs` found at or below the node `c` whose path is `P`: rooted at folders of `c`, with pairwise
different roots, every child history rooted strictly below its parent, siblings in walk order -/
structure Below (c : Node) (P : RelPath) (hs : List Hist) : Prop where
  at_ : ∀ x ∈ descList hs, ∃ q, x.root = P ++ q ∧ ∃ n, c.at? q = some n ∧ n.isDir = true
  nodup : (rootsOf (descList hs)).Nodup
  child : ∀ x ∈ descList hs, ∀ k ∈ x.children, x.root <+: k.root ∧ x.root.length < k.root.length
  order : (rootsOf hs).Pairwise WalkLt
  orderKids : ∀ x ∈ descList hs, (rootsOf x.children).Pairwise WalkLt

theorem mem_descList_self {hs : List Hist} {x : Hist} (h : x ∈ hs) : x ∈ descList hs := by
  rw [descList_eq, List.mem_flatMap]; exact ⟨x, h, x.self_mem_all⟩

theorem buildHist_root (here : RelPath) (st : Option HistStore) (kids : List Hist) :
    (buildHist here st kids).root = here := by
  unfold buildHist; split <;> rfl

theorem buildHist_children (here : RelPath) (st : Option HistStore) (kids : List Hist) :
    (buildHist here st kids).children = kids := by
  unfold buildHist; split <;> rfl

theorem buildHist_desc (here : RelPath) (st : Option HistStore) (kids : List Hist) :
    allDescendants (buildHist here st kids) = descList kids := by
  unfold buildHist; split <;> rfl

theorem mapM_ok_forall₂ {ε α β : Type} (f : α → Except ε β) : ∀ (l : List α) (out : List β),
    l.mapM f = .ok out → List.Forall₂ (fun a b => f a = .ok b) l out := by
  intro l
  induction l with
  | nil =>
    intro out h
    simp only [List.mapM_nil, pure, Except.pure, Except.ok.injEq] at h
    subst h; exact List.Forall₂.nil
  | cons a as ih =>
    intro out h
    rw [List.mapM_cons] at h
    cases hf : f a with
    | error e => simp [hf, bind, Except.bind] at h
    | ok b =>
      cases hm : as.mapM f with
      | error e => simp [hf, hm, bind, Except.bind] at h
      | ok bs =>
        simp only [hf, hm, bind, Except.bind, pure, Except.pure, Except.ok.injEq] at h
        subst h
        exact List.Forall₂.cons hf (ih bs hm)

theorem findChildrenList_names (here : RelPath) (cs : List Node) :
    (findChildrenList here cs).map (·.1) = cs.map Node.name := by
  induction cs with
  | nil => simp [findChildrenList]
  | cons c cs ih => simp [findChildrenList, ih]

/-- gluing the per-child results of one folder -/
theorem below_flatten (n : String) (cs : List Node) (st : Option HistStore) (here : RelPath)
    (hnd : (cs.map Node.name).Nodup) :
    ∀ (S : List (String × Except Err (List Hist))) (Ls : List (List Hist)),
      List.Forall₂ (fun a b => a.2 = .ok b) S Ls → (S.map (·.1)).Nodup →
      S.Pairwise (fun a b => strLe a.1 b.1 = true) →
      (∀ x ∈ S, ∃ c ∈ cs, x.1 = c.name ∧ ∀ hs, x.2 = .ok hs → Below c (here ++ [c.name]) hs) →
      Below (.dir n cs st) here Ls.flatten ∧
        (∀ y ∈ descList Ls.flatten, ∃ a ∈ S, ∃ q, y.root = here ++ a.1 :: q) := by
  intro S Ls hF
  induction hF with
  | nil =>
    intro _ _ _
    refine ⟨⟨?_, ?_, ?_, ?_, ?_⟩, ?_⟩ <;> simp [descList]
  | @cons a b S' Ls' hab _ ih =>
    intro hnames hsorted hS
    simp only [List.map_cons, List.nodup_cons] at hnames
    rw [List.pairwise_cons] at hsorted
    obtain ⟨ih1, ih2⟩ := ih hnames.2 hsorted.2 (fun x hx => hS x (List.mem_cons_of_mem _ hx))
    obtain ⟨c, hc, hac, hb⟩ := hS a List.mem_cons_self
    have hB := hb b hab
    have htag : ∀ x ∈ descList b, ∃ q, x.root = here ++ a.1 :: q := by
      intro x hx
      obtain ⟨q, hq, -⟩ := hB.at_ x hx
      exact ⟨q, by rw [hq, hac]; simp⟩
    refine ⟨⟨?_, ?_, ?_, ?_, ?_⟩, ?_⟩ <;> simp only [List.flatten_cons, descList_append]
    · intro x hx
      rcases List.mem_append.1 hx with hx | hx
      · obtain ⟨q, hq, nd, hnd1, hnd2⟩ := hB.at_ x hx
        refine ⟨c.name :: q, by rw [hq]; simp, nd, ?_, hnd2⟩
        rw [Node.at?_dir_cons, findChild_of_mem hnd hc]
        exact hnd1
      · exact ih1.at_ x hx
    · rw [rootsOf, List.map_append, List.nodup_append]
      refine ⟨hB.nodup, ih1.nodup, ?_⟩
      intro r1 hr1 r2 hr2 h12
      obtain ⟨x, hx, rfl⟩ := List.mem_map.1 hr1
      obtain ⟨y, hy, rfl⟩ := List.mem_map.1 hr2
      obtain ⟨q1, hq1⟩ := htag x hx
      obtain ⟨a', ha', q2, hq2⟩ := ih2 y hy
      rw [hq1, hq2, List.append_cancel_left_eq, List.cons.injEq] at h12
      exact hnames.1 (List.mem_map.2 ⟨a', ha', h12.1.symm⟩)
    · intro x hx
      rcases List.mem_append.1 hx with hx | hx
      · exact hB.child x hx
      · exact ih1.child x hx
    · rw [rootsOf, List.map_append, List.pairwise_append]
      refine ⟨hB.order, ih1.order, ?_⟩
      intro r1 hr1 r2 hr2
      obtain ⟨x, hx, rfl⟩ := List.mem_map.1 hr1
      obtain ⟨y, hy, rfl⟩ := List.mem_map.1 hr2
      obtain ⟨q1, hq1⟩ := htag x (mem_descList_self hx)
      obtain ⟨a', ha', q2, hq2⟩ := ih2 y (mem_descList_self hy)
      refine ⟨here, a.1, a'.1, q1, q2, hq1, hq2, ?_, hsorted.1 a' ha'⟩
      intro he
      exact hnames.1 (List.mem_map.2 ⟨a', ha', he.symm⟩)
    · intro x hx
      rcases List.mem_append.1 hx with hx | hx
      · exact hB.orderKids x hx
      · exact ih1.orderKids x hx
    · intro y hy
      rcases List.mem_append.1 hy with hy | hy
      · obtain ⟨q, hq⟩ := htag y hy
        exact ⟨a, List.mem_cons_self, q, hq⟩
      · obtain ⟨a', ha', q, hq⟩ := ih2 y hy
        exact ⟨a', List.mem_cons_of_mem _ ha', q, hq⟩

theorem Node.at?_nil' (t : Node) : t.at? [] = some t := by cases t <;> rfl

mutual
theorem findChildren_below : (t : Node) → (here : RelPath) → t.NamesDistinct → ∀ hs, findChildren here t = .ok hs →
    Below t here hs ∧ ∀ x ∈ descList hs, here.length < x.root.length
  | .file _ _, here, _, hs, h => by
    simp only [findChildren, pure, Except.pure, Except.ok.injEq] at h
    subst h
    refine ⟨⟨?_, ?_, ?_, ?_, ?_⟩, ?_⟩ <;> simp [descList]
  | .dir n cs st, here, hd, hs, h => by
    rw [Node.namesDistinct_dir] at hd
    have ihl := findChildrenList_below cs here ((Node.namesDistinctKids_iff cs).2 hd.2)
    rw [findChildren] at h
    cases hm : (isort (fun (a b : String × Except Err (List Hist)) => strLe a.1 b.1)
        (findChildrenList here cs)).mapM (fun (x : String × Except Err (List Hist)) => x.2) with
    | error e => rw [hm] at h; cases h
    | ok Ls =>
      rw [hm] at h
      simp only [Except.map, Except.ok.injEq] at h
      subst h
      have hF := mapM_ok_forall₂ _ _ _ hm
      have hnames : ((isort (fun (a b : String × Except Err (List Hist)) => strLe a.1 b.1)
          (findChildrenList here cs)).map (·.1)).Nodup := by
        rw [((isort_perm _ _).map _).nodup_iff, findChildrenList_names]
        exact hd.1
      obtain ⟨h1, h2⟩ := below_flatten n cs st here hd.1 _ _ hF hnames
        (isort_key_sorted (fun x : String × Except Err (List Hist) => x.1) _)
        (fun x hx => ihl x ((mem_isort _ _ _).1 hx))
      refine ⟨h1, ?_⟩
      intro y hy
      obtain ⟨a, -, q, hq⟩ := h2 y hy
      rw [hq]; simp
theorem findChildrenList_below : (cs : List Node) → (here : RelPath) → Node.NamesDistinctKids cs →
    ∀ x ∈ findChildrenList here cs, ∃ c ∈ cs, x.1 = c.name ∧ ∀ hs, x.2 = .ok hs → Below c (here ++ [c.name]) hs
  | [], _, _ => by simp [findChildrenList]
  | c :: cs, here, hd => by
    rw [Node.NamesDistinctKids] at hd
    have ih1 := findChildren_below c (here ++ [c.name]) hd.1
    have ih2 := findChildrenList_below cs here hd.2
    intro x hx
    rw [findChildrenList, List.mem_cons] at hx
    rcases hx with rfl | hx
    · refine ⟨c, List.mem_cons_self, rfl, ?_⟩
      intro hs hok
      simp only at hok
      cases hh : c.hist with
      | none =>
        rw [hh] at hok
        exact (ih1 hs hok).1
      | some s =>
        rw [hh] at hok
        simp only at hok
        cases hcs : checkStore (some s) with
        | error e => simp [hcs, bind, Except.bind] at hok
        | ok u =>
          cases hk : findChildren (here ++ [c.name]) c with
          | error e => simp [hcs, hk, bind, Except.bind] at hok
          | ok kids =>
            simp only [hcs, hk, bind, Except.bind, pure, Except.pure, Except.ok.injEq] at hok
            subst hok
            obtain ⟨hB, hstrict⟩ := ih1 kids hk
            have hcd : c.isDir = true := by
              cases c with
              | file _ _ => simp [Node.hist] at hh
              | dir _ _ _ => rfl
            have hdl : descList [buildHist (here ++ [c.name]) (some s) kids] =
                buildHist (here ++ [c.name]) (some s) kids :: descList kids := by
              simp [descList, buildHist_desc]
            refine ⟨?_, ?_, ?_, by simp [rootsOf], ?_⟩ <;> rw [hdl]
            · intro x hx
              rcases List.mem_cons.1 hx with rfl | hx
              · exact ⟨[], by simp [buildHist_root], c, Node.at?_nil' c, hcd⟩
              · exact hB.at_ x hx
            · simp only [rootsOf, List.map_cons, List.nodup_cons, buildHist_root]
              refine ⟨?_, hB.nodup⟩
              intro hm
              obtain ⟨y, hy, hyr⟩ := List.mem_map.1 hm
              have := hstrict y hy
              rw [hyr] at this
              exact Nat.lt_irrefl _ this
            · intro x hx k hk'
              rcases List.mem_cons.1 hx with rfl | hx
              · rw [buildHist_children] at hk'
                have hkd : k ∈ descList kids := by
                  rw [descList_eq, List.mem_flatMap]; exact ⟨k, hk', k.self_mem_all⟩
                obtain ⟨q, hq, -⟩ := hB.at_ k hkd
                rw [buildHist_root]
                exact ⟨⟨q, hq.symm⟩, hstrict k hkd⟩
              · exact hB.child x hx k hk'
            · intro x hx
              rcases List.mem_cons.1 hx with rfl | hx
              · rw [buildHist_children]; exact hB.order
              · exact hB.orderKids x hx
    · obtain ⟨c', hc', h1, h2⟩ := ih2 x hx
      exact ⟨c', List.mem_cons_of_mem _ hc', h1, h2⟩
end

/-- what is known about a loaded history: rooted at the command root; pairwise different roots; child histories
rooted strictly below their parents; nested histories rooted at (non-root) folders of the tree -/
structure HistOK (t : Node) (g : Hist) : Prop where
  root : g.root = []
  nodup : (rootsOf g.all).Nodup
  child : ∀ x ∈ g.all, ∀ k ∈ x.children, x.root <+: k.root ∧ x.root.length < k.root.length
  isDir : ∀ x ∈ allDescendants g, x.root ≠ [] ∧ ∃ n, t.at? x.root = some n ∧ n.isDir = true
  order : ∀ x ∈ g.all, (rootsOf x.children).Pairwise WalkLt

theorem loadHistory_histOK (t : Node) (g : Hist) (hl : loadHistory t = .ok g) (hd : t.NamesDistinct) :
    HistOK t g := by
  obtain ⟨kids, hk, rfl⟩ := loadHistory_ok_eq t g hl
  obtain ⟨hB, hstrict⟩ := findChildren_below t [] hd kids hk
  have hne : ∀ x ∈ descList kids, x.root ≠ [] := by
    intro x hx h0
    have := hstrict x hx
    rw [h0] at this
    exact Nat.lt_irrefl _ this
  refine ⟨buildHist_root _ _ _, ?_, ?_, ?_, ?_⟩
  · simp only [rootsOf, Hist.all, buildHist_desc, List.map_cons, List.nodup_cons, buildHist_root]
    refine ⟨?_, hB.nodup⟩
    intro hm
    obtain ⟨y, hy, hyr⟩ := List.mem_map.1 hm
    exact hne y hy hyr
  · intro x hx k hk'
    rw [Hist.all, buildHist_desc] at hx
    rcases List.mem_cons.1 hx with rfl | hx
    · rw [buildHist_children] at hk'
      have hkd : k ∈ descList kids := by
        rw [descList_eq, List.mem_flatMap]; exact ⟨k, hk', k.self_mem_all⟩
      rw [buildHist_root]
      exact ⟨List.nil_prefix, List.length_pos_iff.2 (hne k hkd)⟩
    · exact hB.child x hx k hk'
  · intro x hx
    rw [buildHist_desc] at hx
    obtain ⟨q, hq, n, h1, h2⟩ := hB.at_ x hx
    rw [List.nil_append] at hq
    exact ⟨hne x hx, n, by rw [hq]; exact h1, h2⟩
  · intro x hx
    rw [Hist.all, buildHist_desc] at hx
    rcases List.mem_cons.1 hx with rfl | hx
    · rw [buildHist_children]; exact hB.order
    · exact hB.orderKids x hx

/-- the roots of the members extend the root of the history -/
theorem all_root_prefix (k : Hist) : (∀ y ∈ k.all, ∀ c ∈ y.children, y.root <+: c.root) →
    ∀ x ∈ k.all, k.root <+: x.root := by
  induction k using Hist.induct with
  | mk r gg ch e cs ih =>
    intro hc x hx
    rw [Hist.all_eq] at hx
    rcases List.mem_cons.1 hx with rfl | hx
    · exact List.prefix_refl _
    · obtain ⟨c, hcm, hxc⟩ := List.mem_flatMap.1 hx
      have h1 : (Hist.mk r gg ch e cs).root <+: c.root := hc _ (Hist.self_mem_all _) c hcm
      have hsub : ∀ y ∈ c.all, y ∈ (Hist.mk r gg ch e cs).all := fun y hy =>
        all_trans _ (List.mem_cons_of_mem _ (child_mem_allDescendants (h := .mk r gg ch e cs) hcm)) hy
      exact h1.trans (ih c hcm (fun y hy => hc y (hsub y hy)) x hxc)

/-- the post-order walk of a history whose sibling histories are in walk order: of two histories the earlier one is
before the later one in walk order, or lies below it -/
theorem walkPost_order (g : Hist) : (∀ y ∈ g.all, ∀ c ∈ y.children, y.root <+: c.root) →
    (∀ y ∈ g.all, (rootsOf y.children).Pairwise WalkLt) →
    (walkPost g).Pairwise (fun a b => WalkLt a.root b.root ∨ b.root <+: a.root) := by
  induction g using Hist.induct with
  | mk r gg ch e cs ih =>
    intro hc ho
    have hsub : ∀ c ∈ cs, ∀ y ∈ c.all, y ∈ (Hist.mk r gg ch e cs).all := fun c hcm y hy =>
      all_trans _ (List.mem_cons_of_mem _ (child_mem_allDescendants (h := .mk r gg ch e cs) hcm)) hy
    rw [walkPost_eq, List.pairwise_append]
    refine ⟨?_, by simp, ?_⟩
    · rw [List.pairwise_flatMap]
      constructor
      · intro c hcm
        exact ih c hcm (fun y hy => hc y (hsub c hcm y hy)) (fun y hy => ho y (hsub c hcm y hy))
      · have hord := ho _ (Hist.self_mem_all _)
        rw [rootsOf, List.pairwise_map] at hord
        refine hord.imp_of_mem ?_
        intro k1 k2 hk1 hk2 hlt a ha b hb
        left
        obtain ⟨q1, hq1⟩ := all_root_prefix k1 (fun y hy => hc y (hsub k1 hk1 y hy)) a ((mem_walkPost k1 a).1 ha)
        obtain ⟨q2, hq2⟩ := all_root_prefix k2 (fun y hy => hc y (hsub k2 hk2 y hy)) b ((mem_walkPost k2 b).1 hb)
        rw [← hq1, ← hq2]
        exact hlt.append q1 q2
    · intro a ha b hb
      simp only [List.mem_singleton] at hb
      subst hb
      right
      obtain ⟨c, hcm, hac⟩ := List.mem_flatMap.1 ha
      exact all_root_prefix _ hc a (hsub c hcm a ((mem_walkPost c a).1 hac))

/-! ## D. routing on a loaded history -/

/-- the root folder of the history a path is routed to -/
abbrev ownerOf (g : Hist) (p : RelPath) : RelPath := (route g p).1.root
/-- the path relative to that root -/
abbrev relOf (g : Hist) (p : RelPath) : RelPath := (route g p).2

theorem isPrefixOf_iff (a b : RelPath) : isPrefixOf a b = true ↔ a <+: b := by
  unfold isPrefixOf
  rw [List.prefix_iff_eq_take]
  simp only [Bool.and_eq_true, decide_eq_true_eq, beq_iff_eq]
  constructor
  · rintro ⟨-, h⟩; exact h.symm
  · intro h
    refine ⟨?_, h.symm⟩
    have := congrArg List.length h
    simp only [List.length_take] at this
    omega

section route
variable {t : Node} {g : Hist} (hg : HistOK t g)
include hg

theorem route_mem (p : RelPath) : (route g p).1 ∈ g.all := by
  rcases (MhlProps.C08.route_deepest g p hg.root).1 with h | h
  · rw [h]; exact g.self_mem_all
  · exact List.mem_cons_of_mem _ h

theorem owner_prefix (p : RelPath) : ownerOf g p <+: p :=
  (isPrefixOf_iff _ _).1 (MhlProps.C08.route_deepest g p hg.root).2.1

theorem owner_append (p : RelPath) : ownerOf g p ++ relOf g p = p := by
  have h1 := (MhlProps.C08.route_deepest g p hg.root).2.2.1
  have h2 := owner_prefix hg p
  rw [List.prefix_iff_eq_append] at h2
  show (route g p).1.root ++ (route g p).2 = p
  rw [h1]; exact h2

theorem owner_max (p : RelPath) {c : Hist} (hc : c ∈ allDescendants g) (hp : c.root <+: p) :
    c.root.length ≤ (ownerOf g p).length :=
  (MhlProps.C08.route_deepest g p hg.root).2.2.2 c hc (hg.isDir c hc).1 ((isPrefixOf_iff _ _).2 hp)

theorem owner_nested {c : Hist} (hc : c ∈ allDescendants g) :
    ownerOf g c.root = c.root ∧ relOf g c.root = [] := by
  have h1 := owner_prefix hg c.root
  have h2 := owner_max hg c.root hc (List.prefix_refl _)
  have h3 : ownerOf g c.root = c.root := List.IsPrefix.eq_of_length_le h1 h2
  refine ⟨h3, ?_⟩
  have h4 := owner_append hg c.root
  rw [h3] at h4
  exact List.append_right_eq_self.1 h4

theorem owner_nil : ownerOf g [] = [] ∧ relOf g [] = [] := by
  show (route g []).1.root = [] ∧ (route g []).2 = []
  rw [route_nil]
  exact ⟨hg.root, rfl⟩

/-- a path that is routed to itself is the command root or the root folder of a nested history -/
theorem relOf_nil {p : RelPath} (h : relOf g p = []) :
    ownerOf g p = p ∧ (p = [] ∨ ∃ c ∈ allDescendants g, c.root = p) := by
  have h1 := owner_append hg p
  rw [h, List.append_nil] at h1
  refine ⟨h1, ?_⟩
  rcases List.mem_cons.1 (route_mem hg p) with h2 | h2
  · left
    have : ownerOf g p = g.root := congrArg Hist.root h2
    rw [← h1, this, hg.root]
  · exact Or.inr ⟨_, h2, h1⟩

/-- the parent of a nested history's root is a strict prefix of it -/
theorem parentRoot_prefix {d pr : RelPath} (h : parentRoot g d = some pr) :
    pr <+: d ∧ pr.length < d.length ∧ ∃ c ∈ allDescendants g, c.root = d := by
  obtain ⟨x, hx, rfl, c, hc, rfl⟩ := parentRoot_some h
  exact ⟨(hg.child x hx c hc).1, (hg.child x hx c hc).2, c, child_of_mem_all hx hc, rfl⟩

theorem parentRoot_of_nested {c : Hist} (hc : c ∈ allDescendants g) : ∃ pr, parentRoot g c.root = some pr := by
  obtain ⟨x, hx, hcx⟩ := allDescendants_has_parent g c hc
  exact ⟨x.root, parentRoot_child hg.nodup hx hcx⟩

end route

/-! ## E. the session as a family of lists indexed by history root -/

/-- the roots of the histories that have a list in the session -/
def Session.roots (s : Session) : List RelPath := s.lists.map (·.root)

/-- `touch`, then update the record `p` of the list of `R` (what `sealFile` and `appendDirHashes` do) -/
def Session.addTo (s : Session) (R : RelPath) (p : String) (sz : Option Nat) (f : Record → Record) : Session :=
  (s.touch R).put (((s.touch R).get R).update p sz f)

theorem Session.any_root_iff (s : Session) (R : RelPath) :
    (s.lists.any fun l => l.root == R) = true ↔ R ∈ s.roots := by
  simp only [List.any_eq_true, beq_iff_eq, Session.roots, List.mem_map]

theorem Session.touch_get (s : Session) (R R' : RelPath) : (s.touch R).get R' = s.get R' := by
  unfold Session.touch
  split
  · rfl
  · next hany =>
    unfold Session.get
    simp only [List.find?_append]
    cases hf : s.lists.find? (fun l => l.root == R') with
    | some l => simp
    | none =>
      by_cases hR : R = R'
      · subst hR; simp
      · have : (R == R') = false := by simpa using hR
        simp [this]

theorem Session.touch_roots (s : Session) (R : RelPath) :
    (s.touch R).roots = if R ∈ s.roots then s.roots else s.roots ++ [R] := by
  unfold Session.touch
  by_cases h : R ∈ s.roots
  · rw [if_pos ((s.any_root_iff R).2 h), if_pos h]
  · rw [if_neg (fun h' => h ((s.any_root_iff R).1 h')), if_neg h]
    simp [Session.roots]

theorem Session.touch_patterns (s : Session) (R : RelPath) : (s.touch R).patterns = s.patterns := by
  unfold Session.touch; split <;> rfl

theorem Session.put_roots_of_mem (s : Session) (nl : NewList) (h : nl.root ∈ s.roots) :
    (s.put nl).roots = s.roots := by
  unfold Session.put
  rw [if_pos ((s.any_root_iff _).2 h)]
  simp only [Session.roots, List.map_map]
  apply List.map_congr_left
  intro l _
  simp only [Function.comp]
  split
  · next h' => exact (by simpa using h' : l.root = nl.root).symm
  · rfl

theorem Session.put_patterns (s : Session) (nl : NewList) : (s.put nl).patterns = s.patterns := by
  unfold Session.put; split <;> rfl

theorem Session.addTo_patterns (s : Session) (R : RelPath) (p : String) (sz : Option Nat) (f : Record → Record) :
    (s.addTo R p sz f).patterns = s.patterns := by
  rw [Session.addTo, Session.put_patterns, Session.touch_patterns]

theorem Session.addTo_get_same (s : Session) (R : RelPath) (p : String) (sz : Option Nat) (f : Record → Record) :
    (s.addTo R p sz f).get R = (s.get R).update p sz f := by
  have hroot : (((s.touch R).get R).update p sz f).root = R := by
    rw [NewList.update_root, Session.get_root]
  have := Session.get_put_same (s.touch R) (((s.touch R).get R).update p sz f)
  rw [hroot] at this
  rw [Session.addTo, this, Session.touch_get]

theorem Session.addTo_get_ne (s : Session) (R : RelPath) (p : String) (sz : Option Nat) (f : Record → Record)
    (R' : RelPath) (h : R' ≠ R) : (s.addTo R p sz f).get R' = s.get R' := by
  have hroot : (((s.touch R).get R).update p sz f).root = R := by
    rw [NewList.update_root, Session.get_root]
  rw [Session.addTo, Session.get_put_ne _ _ _ (by rw [hroot]; exact fun e => h e.symm), Session.touch_get]

theorem Session.addTo_roots (s : Session) (R : RelPath) (p : String) (sz : Option Nat) (f : Record → Record) :
    (s.addTo R p sz f).roots = if R ∈ s.roots then s.roots else s.roots ++ [R] := by
  have hroot : (((s.touch R).get R).update p sz f).root = R := by
    rw [NewList.update_root, Session.get_root]
  have hmem : R ∈ (s.touch R).roots := by
    rw [Session.touch_roots]; split <;> simp_all
  rw [Session.addTo, Session.put_roots_of_mem _ _ (by rw [hroot]; exact hmem), Session.touch_roots]

theorem Session.mem_addTo_roots (s : Session) (R : RelPath) (p : String) (sz : Option Nat) (f : Record → Record)
    (R' : RelPath) : R' ∈ (s.addTo R p sz f).roots ↔ R' ∈ s.roots ∨ R' = R := by
  rw [Session.addTo_roots]
  split
  · next h => constructor
              · exact Or.inl
              · rintro (h' | rfl)
                · exact h'
                · exact h
  · simp

theorem Session.addTo_roots_nodup (s : Session) (R : RelPath) (p : String) (sz : Option Nat) (f : Record → Record)
    (h : s.roots.Nodup) : (s.addTo R p sz f).roots.Nodup := by
  rw [Session.addTo_roots]
  split
  · exact h
  · next hR =>
    rw [List.nodup_append]
    refine ⟨h, by simp, ?_⟩
    intro a ha b hb hab
    simp only [List.mem_singleton] at hb
    exact hR (hb ▸ hab ▸ ha)

/-- with pairwise different roots a list of the session is the one `get` finds for its root -/
theorem Session.get_of_mem (s : Session) (hnd : s.roots.Nodup) {l : NewList} (hl : l ∈ s.lists) :
    s.get l.root = l := by
  unfold Session.get
  cases hf : s.lists.find? (fun x => x.root == l.root) with
  | none =>
    have := List.find?_eq_none.1 hf l hl
    simp at this
  | some l' =>
    have h1 : l' ∈ s.lists := List.mem_of_find?_eq_some hf
    have h2 : l'.root = l.root := by simpa using List.find?_some hf
    simp only [Option.getD_some]
    exact List.inj_on_of_nodup_map hnd h1 hl h2

theorem Session.get_mem (s : Session) {R : RelPath} (h : R ∈ s.roots) : s.get R ∈ s.lists := by
  unfold Session.get
  cases hf : s.lists.find? (fun x => x.root == R) with
  | none =>
    obtain ⟨l, hl, hlr⟩ := List.mem_map.1 h
    have := List.find?_eq_none.1 hf l hl
    simp [hlr] at this
  | some l' => exact List.mem_of_find?_eq_some hf

theorem Session.get_not_mem (s : Session) {R : RelPath} (h : R ∉ s.roots) : s.get R = { root := R } := by
  unfold Session.get
  cases hf : s.lists.find? (fun x => x.root == R) with
  | none => rfl
  | some l' =>
    exfalso
    apply h
    have h2 : l'.root = R := by simpa using List.find?_some hf
    exact List.mem_map.2 ⟨l', List.mem_of_find?_eq_some hf, h2⟩

theorem NewList.update_fresh_q (nl : NewList) (p : String) (sz : Option Nat) (f : Record → Record)
    (hp : p ≠ ".") (hfr : ∀ r ∈ nl.records, r.path ≠ p) :
    nl.update p sz f = { nl with records := nl.records ++ [f { path := p, size := sz }] } := by
  unfold NewList.update
  have hd : (p == ".") = false := by simpa using hp
  have hany : (nl.records.any fun r => r.path == p) = false := by
    rw [List.any_eq_false]
    intro r hr
    simpa using hfr r hr
  simp [hd, hany]

theorem NewList.update_dot_q (nl : NewList) (sz : Option Nat) (f : Record → Record) :
    nl.update "." sz f = { nl with rootRec := some (f (nl.rootRec.getD { path := ".", size := sz })) } := by
  simp [NewList.update]

/-- what `sealFile` does to the record of a file -/
def fileUpd (ents : List Entry) (r : Record) : Record := { r with entries := r.entries ++ ents }
/-- what `appendDirHashes` does to the record of a folder -/
def dirUpd (hashes : List (String × String × String)) (r : Record) : Record :=
  { r with isDir := true, entries := r.entries ++ dirEnts hashes }

theorem dirUpd_actions (hashes : List (String × String × String)) (p : String) :
    ∀ e ∈ (dirUpd hashes { path := p, size := none }).entries, e.action = "" := by
  intro e he
  simp only [dirUpd, List.nil_append] at he
  exact dirEnts_action hashes e he

/-- `sealFile` as one `addTo` -/
theorem sealFile_addTo (H : HashFn) (g : Hist) (s : Session) (file : RelPath) (c : Bytes) (fmts : List String)
    (hne : (sealEntries (route g file).1.gens (posix (relOf g file)) (fun f => H f c) fmts).1 ≠ []) :
    (sealFile H g s file c fmts).1 =
      s.addTo (ownerOf g file) (posix (relOf g file)) (some c.length)
        (fileUpd (sealEntries (route g file).1.gens (posix (relOf g file)) (fun f => H f c) fmts).1) := by
  unfold relOf at hne
  unfold sealFile ownerOf relOf
  generalize route g file = x at hne ⊢
  obtain ⟨h, hrel⟩ := x
  dsimp only at hne ⊢
  generalize sealEntries h.gens (posix hrel) (fun f => H f c) fmts = se at hne ⊢
  obtain ⟨ents, res⟩ := se
  dsimp only at hne ⊢
  have he : ents.isEmpty = false := by cases ents <;> simp_all
  rw [he]
  rfl

/-- `appendDirHashes` as one or two `addTo` -/
theorem appendDirHashes_addTo (g : Hist) (s : Session) (folder : RelPath)
    (hashes : List (String × String × String)) :
    appendDirHashes g s folder hashes =
      if (relOf g folder).isEmpty then
        match parentRoot g (ownerOf g folder) with
        | some pr => (s.addTo (ownerOf g folder) (posix (relOf g folder)) none (dirUpd hashes)).addTo pr
            (posix (folder.drop pr.length)) none (dirUpd hashes)
        | none => s.addTo (ownerOf g folder) (posix (relOf g folder)) none (dirUpd hashes)
      else s.addTo (ownerOf g folder) (posix (relOf g folder)) none (dirUpd hashes) := by
  unfold appendDirHashes ownerOf relOf
  generalize route g folder = x
  obtain ⟨h, hrel⟩ := x
  rfl

/-! ## F. the invariant of the traversal fold -/

/-- `s'` extends `s`: more lists, more records, root records kept -/
def Session.Le (s s' : Session) : Prop :=
  (∀ R ∈ s.roots, R ∈ s'.roots) ∧
  ∀ R, (∀ r ∈ (s.get R).records, r ∈ (s'.get R).records) ∧
    ∀ rr, (s.get R).rootRec = some rr → (s'.get R).rootRec = some rr

theorem Session.Le.refl (s : Session) : s.Le s := ⟨fun _ h => h, fun _ => ⟨fun _ h => h, fun _ h => h⟩⟩

theorem Session.Le.trans {a b c : Session} (h1 : a.Le b) (h2 : b.Le c) : a.Le c :=
  ⟨fun R h => h2.1 R (h1.1 R h),
   fun R => ⟨fun r h => (h2.2 R).1 r ((h1.2 R).1 r h), fun rr h => (h2.2 R).2 rr ((h1.2 R).2 rr h)⟩⟩

/-- the visited file `p` is recorded in the list of the history it is routed to -/
def FileDone (env : Env) (t : Node) (g : Hist) (fmts : List String) (s : Session) (p : RelPath) : Prop :=
  ownerOf g p ∈ s.roots ∧ ∃ r ∈ (s.get (ownerOf g p)).records,
    r.path = posix (relOf g p) ∧ r.isDir = false ∧ r.prev = none ∧ r.size = some (fileContent t p).length ∧
    r.entries = (sealEntries (route g p).1.gens (posix (relOf g p)) (fun f => env.H f (fileContent t p)) fmts).1

/-- the visited folder `d` is recorded: as a directory record of the list of the history it is routed to, or — when
it is the root folder of a history — as that list's root record and (nested history) as a directory record of the
PARENT history's list carrying the same entries -/
def DirDone (g : Hist) (s : Session) (d : RelPath) : Prop :=
  ownerOf g d ∈ s.roots ∧
  (relOf g d ≠ [] → ∃ r ∈ (s.get (ownerOf g d)).records,
      r.path = posix (relOf g d) ∧ r.isDir = true ∧ r.prev = none ∧ r.size = none ∧ ∀ e ∈ r.entries, e.action = "") ∧
  (relOf g d = [] → ∃ rr, (s.get d).rootRec = some rr ∧ rr.isDir = true ∧ rr.path = "." ∧
      (∀ e ∈ rr.entries, e.action = "") ∧
      ∀ pr, parentRoot g d = some pr → pr ∈ s.roots ∧ ∃ r ∈ (s.get pr).records,
        r.path = posix (d.drop pr.length) ∧ r.isDir = true ∧ r.prev = none ∧ r.size = none ∧
        r.entries = rr.entries)

theorem FileDone.mono {env : Env} {t : Node} {g : Hist} {fmts : List String} {s s' : Session} {p : RelPath}
    (h : FileDone env t g fmts s p) (hle : s.Le s') : FileDone env t g fmts s' p := by
  obtain ⟨h1, r, hr, h2⟩ := h
  exact ⟨hle.1 _ h1, r, (hle.2 _).1 r hr, h2⟩

theorem DirDone.mono {g : Hist} {s s' : Session} {d : RelPath} (h : DirDone g s d) (hle : s.Le s') :
    DirDone g s' d := by
  obtain ⟨h1, h2, h3⟩ := h
  refine ⟨hle.1 _ h1, ?_, ?_⟩
  · intro hne
    obtain ⟨r, hr, hh⟩ := h2 hne
    exact ⟨r, (hle.2 _).1 r hr, hh⟩
  · intro he
    obtain ⟨rr, hrr, ha, hb, hact, hc⟩ := h3 he
    refine ⟨rr, (hle.2 _).2 rr hrr, ha, hb, hact, ?_⟩
    intro pr hpr
    obtain ⟨hp1, r, hr, hh⟩ := hc pr hpr
    exact ⟨hle.1 _ hp1, r, (hle.2 _).1 r hr, hh⟩

/-- soundness of the session with respect to the items `L` visited so far: every record of every list denotes a
visited item and sits in the list the item is routed to (or, for the root folder of a nested history, in the list of
the parent history) -/
structure SCore (g : Hist) (pats : List String) (s : Session) (L : List (RelPath × Bool)) : Prop where
  pats : s.patterns = pats
  nodup : s.roots.Nodup
  paths : ∀ R, ((s.get R).records.map (·.path)).Nodup
  recs : ∀ R, ∀ r ∈ (s.get R).records, ∃ x ∈ L, ∃ q, q ≠ [] ∧ r.path = posix q ∧ R ++ q = x.1 ∧ r.isDir = x.2 ∧
    (R = ownerOf g x.1 ∨ (x.2 = true ∧ relOf g x.1 = [] ∧ parentRoot g x.1 = some R))
  rootRecs : ∀ R rr, (s.get R).rootRec = some rr → (R, true) ∈ L
  rootsJ : ∀ R ∈ s.roots, ∃ x ∈ L, R <+: x.1

theorem mem_of_append_eq {α : Type} {a b c : List α} (h : a ++ b = c) : ∀ n ∈ b, n ∈ c := by
  intro n hn; rw [← h]; exact List.mem_append_right _ hn

theorem SCore.fresh {g : Hist} {pats : List String} {s : Session} {L : List (RelPath × Bool)}
    (hc : SCore g pats s L) (hL : ∀ x ∈ L, ∀ n ∈ x.1, NameOk n) {R q p : RelPath} (hq : R ++ q = p)
    (hqn : ∀ n ∈ q, NameOk n) (hp : p ∉ L.map (·.1)) : ∀ r ∈ (s.get R).records, r.path ≠ posix q := by
  intro r hr heq
  obtain ⟨x, hx, q', -, hq', hx1, -⟩ := hc.recs R r hr
  have hqq : q' = q := posix_inj (fun n hn => hL x hx n (mem_of_append_eq hx1 n hn)) hqn (hq'.symm.trans heq)
  subst hqq
  exact hp (List.mem_map.2 ⟨x, hx, by rw [← hx1, hq]⟩)

theorem SCore.addRec {g : Hist} {pats : List String} {s : Session} {L L' : List (RelPath × Bool)}
    (hc : SCore g pats s L) (hsub : ∀ y ∈ L, y ∈ L') {x : RelPath × Bool} (hx : x ∈ L') {R q : RelPath}
    (hq0 : q ≠ []) (hq : R ++ q = x.1) (hqn : ∀ n ∈ q, NameOk n)
    (hfresh : ∀ r ∈ (s.get R).records, r.path ≠ posix q) (sz : Option Nat) (f : Record → Record)
    (hfp : (f { path := posix q, size := sz }).path = posix q)
    (hfd : (f { path := posix q, size := sz }).isDir = x.2)
    (hj : R = ownerOf g x.1 ∨ (x.2 = true ∧ relOf g x.1 = [] ∧ parentRoot g x.1 = some R)) :
    SCore g pats (s.addTo R (posix q) sz f) L' ∧ s.Le (s.addTo R (posix q) sz f) ∧
      R ∈ (s.addTo R (posix q) sz f).roots ∧
      ((s.addTo R (posix q) sz f).get R).records = (s.get R).records ++ [f { path := posix q, size := sz }] ∧
      (∀ R', ((s.addTo R (posix q) sz f).get R').rootRec = (s.get R').rootRec) ∧
      (∀ R', R' ≠ R → (s.addTo R (posix q) sz f).get R' = s.get R') := by
  have hdot : posix q ≠ "." := fun h => hq0 ((posix_eq_dot hqn).1 h)
  have hsame : (s.addTo R (posix q) sz f).get R =
      { s.get R with records := (s.get R).records ++ [f { path := posix q, size := sz }] } := by
    rw [Session.addTo_get_same, NewList.update_fresh_q _ _ _ _ hdot hfresh]
  have hne := Session.addTo_get_ne s R (posix q) sz f
  have hrecs : ((s.addTo R (posix q) sz f).get R).records =
      (s.get R).records ++ [f { path := posix q, size := sz }] := by rw [hsame]
  have hroot : ∀ R', ((s.addTo R (posix q) sz f).get R').rootRec = (s.get R').rootRec := by
    intro R'
    by_cases h : R' = R
    · subst h; rw [hsame]
    · rw [hne R' h]
  have hle : s.Le (s.addTo R (posix q) sz f) := by
    refine ⟨fun R' h => (Session.mem_addTo_roots _ _ _ _ _ _).2 (Or.inl h), fun R' => ⟨?_, ?_⟩⟩
    · intro r hr
      by_cases h : R' = R
      · subst h; rw [hrecs]; exact List.mem_append_left _ hr
      · rw [hne R' h]; exact hr
    · intro rr hrr
      rw [hroot]; exact hrr
  refine ⟨⟨?_, ?_, ?_, ?_, ?_, ?_⟩, hle, (Session.mem_addTo_roots _ _ _ _ _ _).2 (Or.inr rfl), hrecs, hroot, hne⟩
  · rw [Session.addTo_patterns]; exact hc.pats
  · exact Session.addTo_roots_nodup _ _ _ _ _ hc.nodup
  · intro R'
    by_cases h : R' = R
    · subst h
      rw [hrecs, List.map_append, List.nodup_append]
      refine ⟨hc.paths _, by simp, ?_⟩
      intro a ha b hb hab
      obtain ⟨r, hr, rfl⟩ := List.mem_map.1 ha
      simp only [List.map_cons, List.map_nil, List.mem_singleton] at hb
      exact hfresh r hr (hab.trans (hb.trans hfp))
    · rw [hne R' h]; exact hc.paths _
  · intro R' r hr
    by_cases h : R' = R
    · subst h
      rw [hrecs] at hr
      rcases List.mem_append.1 hr with hr | hr
      · obtain ⟨y, hy, rest⟩ := hc.recs _ r hr
        exact ⟨y, hsub y hy, rest⟩
      · simp only [List.mem_singleton] at hr
        subst hr
        exact ⟨x, hx, q, hq0, hfp, hq, hfd, hj⟩
    · rw [hne R' h] at hr
      obtain ⟨y, hy, rest⟩ := hc.recs _ r hr
      exact ⟨y, hsub y hy, rest⟩
  · intro R' rr hrr
    rw [hroot] at hrr
    exact hsub _ (hc.rootRecs R' rr hrr)
  · intro R' hR'
    rcases (Session.mem_addTo_roots _ _ _ _ _ _).1 hR' with h | h
    · obtain ⟨y, hy, hpre⟩ := hc.rootsJ R' h
      exact ⟨y, hsub y hy, hpre⟩
    · subst h
      exact ⟨x, hx, ⟨q, hq⟩⟩

theorem SCore.setRoot {g : Hist} {pats : List String} {s : Session} {L L' : List (RelPath × Bool)}
    (hc : SCore g pats s L) (hsub : ∀ y ∈ L, y ∈ L') {R : RelPath} (hR : (R, true) ∈ L')
    (hfresh : (s.get R).rootRec = none) (sz : Option Nat) (f : Record → Record) :
    SCore g pats (s.addTo R "." sz f) L' ∧ s.Le (s.addTo R "." sz f) ∧
      R ∈ (s.addTo R "." sz f).roots ∧
      ((s.addTo R "." sz f).get R).rootRec = some (f { path := ".", size := sz }) ∧
      (∀ R', ((s.addTo R "." sz f).get R').records = (s.get R').records) := by
  have hsame : (s.addTo R "." sz f).get R =
      { s.get R with rootRec := some (f { path := ".", size := sz }) } := by
    rw [Session.addTo_get_same, NewList.update_dot_q, hfresh]; rfl
  have hne := Session.addTo_get_ne s R "." sz f
  have hrecs : ∀ R', ((s.addTo R "." sz f).get R').records = (s.get R').records := by
    intro R'
    by_cases h : R' = R
    · subst h; rw [hsame]
    · rw [hne R' h]
  have hle : s.Le (s.addTo R "." sz f) := by
    refine ⟨fun R' h => (Session.mem_addTo_roots _ _ _ _ _ _).2 (Or.inl h), fun R' => ⟨?_, ?_⟩⟩
    · intro r hr; rw [hrecs]; exact hr
    · intro rr hrr
      by_cases h : R' = R
      · subst h; rw [hfresh] at hrr; cases hrr
      · rw [hne R' h]; exact hrr
  refine ⟨⟨?_, ?_, ?_, ?_, ?_, ?_⟩, hle, (Session.mem_addTo_roots _ _ _ _ _ _).2 (Or.inr rfl), by rw [hsame], hrecs⟩
  · rw [Session.addTo_patterns]; exact hc.pats
  · exact Session.addTo_roots_nodup _ _ _ _ _ hc.nodup
  · intro R'; rw [hrecs]; exact hc.paths _
  · intro R' r hr
    rw [hrecs] at hr
    obtain ⟨y, hy, rest⟩ := hc.recs _ r hr
    exact ⟨y, hsub y hy, rest⟩
  · intro R' rr hrr
    by_cases h : R' = R
    · subst h; exact hR
    · rw [hne R' h] at hrr
      exact hsub _ (hc.rootRecs R' rr hrr)
  · intro R' hR'
    rcases (Session.mem_addTo_roots _ _ _ _ _ _).1 hR' with h | h
    · obtain ⟨y, hy, hpre⟩ := hc.rootsJ R' h
      exact ⟨y, hsub y hy, hpre⟩
    · subst h
      exact ⟨_, hR, List.prefix_refl _⟩

/-- the visited items are unambiguous: pairwise different paths, names that can be path components, and no file
sits where a history is rooted -/
structure ItemsOk (g : Hist) (L : List (RelPath × Bool)) : Prop where
  nodup : (L.map (·.1)).Nodup
  names : ∀ x ∈ L, ∀ n ∈ x.1, NameOk n
  files : ∀ p, (p, false) ∈ L → relOf g p ≠ []

theorem ItemsOk.left {g : Hist} {L M : List (RelPath × Bool)} (h : ItemsOk g (L ++ M)) : ItemsOk g L := by
  refine ⟨?_, fun x hx => h.names x (List.mem_append_left _ hx), fun p hp => h.files p (List.mem_append_left _ hp)⟩
  have := h.nodup
  rw [List.map_append] at this
  exact (List.nodup_append.1 this).1

theorem ItemsOk.fresh {g : Hist} {L : List (RelPath × Bool)} {x : RelPath × Bool} (h : ItemsOk g (L ++ [x])) :
    x.1 ∉ L.map (·.1) := by
  have := h.nodup
  rw [List.map_append, List.nodup_append] at this
  intro hm
  exact this.2.2 _ hm _ (by simp) rfl

/-- the session after the items `L`: sound, and every item is recorded where it belongs -/
structure SInv (env : Env) (t : Node) (g : Hist) (fmts pats : List String) (s : Session)
    (L : List (RelPath × Bool)) : Prop where
  core : SCore g pats s L
  files : ∀ p, (p, false) ∈ L → FileDone env t g fmts s p
  dirs : ∀ d, (d, true) ∈ L → DirDone g s d

section steps
variable {env : Env} {t : Node} {g : Hist} {fmts pats : List String} (hg : HistOK t g)
include hg

theorem sinv_file {s : Session} {L : List (RelPath × Bool)} {p : RelPath} (hfm : fmts ≠ [])
    (hs : SInv env t g fmts pats s L) (hok : ItemsOk g (L ++ [(p, false)])) :
    SInv env t g fmts pats (sealFile env.H g s p (fileContent t p) fmts).1 (L ++ [(p, false)]) := by
  have hne := sealEntries_ne_nil (route g p).1.gens (posix (relOf g p)) (fun f => env.H f (fileContent t p)) fmts hfm
  rw [sealFile_addTo env.H g s p (fileContent t p) fmts hne]
  have hq0 : relOf g p ≠ [] := hok.files p (by simp)
  have hq := owner_append hg p
  have hpn : ∀ n ∈ p, NameOk n := hok.names (p, false) (by simp)
  have hqn : ∀ n ∈ relOf g p, NameOk n := fun n hn => hpn n (mem_of_append_eq hq n hn)
  have hfresh := hs.core.fresh (fun x hx => hok.left.names x hx) hq hqn hok.fresh
  obtain ⟨hcore, hle, hroots, hrecs, -, -⟩ := hs.core.addRec (L' := L ++ [(p, false)])
    (fun y hy => List.mem_append_left _ hy) (x := (p, false)) (by simp) hq0 hq hqn hfresh
    (some (fileContent t p).length)
    (fileUpd (sealEntries (route g p).1.gens (posix (relOf g p)) (fun f => env.H f (fileContent t p)) fmts).1)
    rfl rfl (Or.inl rfl)
  refine ⟨hcore, ?_, ?_⟩
  · intro p' hp'
    rcases List.mem_append.1 hp' with h | h
    · exact (hs.files p' h).mono hle
    · have hpp : p' = p := by simpa using h
      rw [hpp]
      refine ⟨hroots, fileUpd (sealEntries (route g p).1.gens (posix (relOf g p))
          (fun f => env.H f (fileContent t p)) fmts).1
          { path := posix (relOf g p), size := some (fileContent t p).length },
        by rw [hrecs]; simp, rfl, rfl, rfl, rfl, by simp [fileUpd]⟩
  · intro d hd
    rcases List.mem_append.1 hd with h | h
    · exact (hs.dirs d h).mono hle
    · simp at h

theorem sinv_dir {s : Session} {L : List (RelPath × Bool)} {d : RelPath}
    (hashes : List (String × String × String))
    (hs : SInv env t g fmts pats s L) (hok : ItemsOk g (L ++ [(d, true)])) :
    SInv env t g fmts pats (appendDirHashes g s d hashes) (L ++ [(d, true)]) := by
  rw [appendDirHashes_addTo]
  have hq := owner_append hg d
  have hdn : ∀ n ∈ d, NameOk n := hok.names (d, true) (by simp)
  have hsub : ∀ y ∈ L, y ∈ L ++ [(d, true)] := fun y hy => List.mem_append_left _ hy
  have hmem : (d, true) ∈ L ++ [(d, true)] := by simp
  have hLn : ∀ x ∈ L, ∀ n ∈ x.1, NameOk n := fun x hx => hok.left.names x hx
  by_cases hrel : relOf g d = []
  · -- the root folder of a history
    obtain ⟨hown, -⟩ := relOf_nil hg hrel
    have hposix : posix (relOf g d) = "." := by rw [hrel]; rfl
    have hfresh0 : (s.get d).rootRec = none := by
      cases h : (s.get d).rootRec with
      | none => rfl
      | some rr =>
        exfalso
        exact hok.fresh (List.mem_map.2 ⟨(d, true), hs.core.rootRecs d rr h, rfl⟩)
    have hemp : (relOf g d).isEmpty = true := by rw [hrel]; rfl
    rw [if_pos hemp, hown, hposix]
    obtain ⟨hcore1, hle1, hroots1, hrr1, hrecs1⟩ := hs.core.setRoot hsub hmem hfresh0 none (dirUpd hashes)
    cases hpr : parentRoot g d with
    | none =>
      simp only
      refine ⟨hcore1, fun p' hp' => ?_, fun d' hd' => ?_⟩
      · rcases List.mem_append.1 hp' with h | h
        · exact (hs.files p' h).mono hle1
        · simp at h
      · rcases List.mem_append.1 hd' with h | h
        · exact (hs.dirs d' h).mono hle1
        · have hdd : d' = d := by simpa using h
          rw [hdd]
          refine ⟨by rw [hown]; exact hroots1, fun h => absurd hrel h,
            fun _ => ⟨dirUpd hashes { path := ".", size := none }, hrr1, rfl, rfl, dirUpd_actions hashes ".", ?_⟩⟩
          intro pr h; rw [hpr] at h; cases h
    | some pr =>
      simp only
      obtain ⟨hpre, hlen, -⟩ := parentRoot_prefix hg hpr
      have hq2 : pr ++ d.drop pr.length = d := List.prefix_iff_eq_append.1 hpre
      have hq20 : d.drop pr.length ≠ [] := by
        intro h
        have := congrArg List.length h
        simp only [List.length_drop, List.length_nil] at this
        omega
      have hqn2 : ∀ n ∈ d.drop pr.length, NameOk n := fun n hn => hdn n (List.mem_of_mem_drop hn)
      have hfresh2 : ∀ r ∈ ((s.addTo d "." none (dirUpd hashes)).get pr).records,
          r.path ≠ posix (d.drop pr.length) := by
        rw [hrecs1]
        exact hs.core.fresh hLn hq2 hqn2 hok.fresh
      obtain ⟨hcore2, hle2, hroots2, hrecs2, hrr2, -⟩ := hcore1.addRec (L' := L ++ [(d, true)])
        (fun y hy => hy) (x := (d, true)) hmem hq20 hq2 hqn2 hfresh2 none (dirUpd hashes)
        rfl rfl (Or.inr ⟨rfl, hrel, hpr⟩)
      have hle := hle1.trans hle2
      refine ⟨hcore2, fun p' hp' => ?_, fun d' hd' => ?_⟩
      · rcases List.mem_append.1 hp' with h | h
        · exact (hs.files p' h).mono hle
        · simp at h
      · rcases List.mem_append.1 hd' with h | h
        · exact (hs.dirs d' h).mono hle
        · have hdd : d' = d := by simpa using h
          rw [hdd]
          refine ⟨by rw [hown]; exact hle2.1 _ hroots1, fun h => absurd hrel h,
            fun _ => ⟨dirUpd hashes { path := ".", size := none }, by rw [hrr2]; exact hrr1, rfl, rfl,
              dirUpd_actions hashes ".", ?_⟩⟩
          intro pr' h
          rw [hpr] at h
          cases h
          exact ⟨hroots2, dirUpd hashes { path := posix (d.drop pr.length), size := none },
            by rw [hrecs2]; simp, rfl, rfl, rfl, rfl, rfl⟩
  · -- an ordinary folder
    have hemp : (relOf g d).isEmpty = false := by cases h : relOf g d <;> simp_all
    simp only [hemp, Bool.false_eq_true, if_false]
    have hqn : ∀ n ∈ relOf g d, NameOk n := fun n hn => hdn n (mem_of_append_eq hq n hn)
    have hfresh := hs.core.fresh hLn hq hqn hok.fresh
    obtain ⟨hcore, hle, hroots, hrecs, -, -⟩ := hs.core.addRec (L' := L ++ [(d, true)]) hsub (x := (d, true)) hmem
      hrel hq hqn hfresh none (dirUpd hashes) rfl rfl (Or.inl rfl)
    refine ⟨hcore, fun p' hp' => ?_, fun d' hd' => ?_⟩
    · rcases List.mem_append.1 hp' with h | h
      · exact (hs.files p' h).mono hle
      · simp at h
    · rcases List.mem_append.1 hd' with h | h
      · exact (hs.dirs d' h).mono hle
      · have hdd : d' = d := by simpa using h
        rw [hdd]
        exact ⟨hroots, fun _ => ⟨dirUpd hashes { path := posix (relOf g d), size := none },
          by rw [hrecs]; simp, rfl, rfl, rfl, rfl, dirUpd_actions hashes _⟩, fun h => absurd h hrel⟩

end steps

/-! ## G. the traversal fold -/

/-- the invariant, conditional on the visited items being unambiguous -/
def SessInv (env : Env) (t : Node) (g : Hist) (fmts pats : List String) (s : Session)
    (L : List (RelPath × Bool)) : Prop :=
  ItemsOk g L → SInv env t g fmts pats s L

theorem sessInv_empty (env : Env) (t : Node) (g : Hist) (fmts pats : List String) :
    SessInv env t g fmts pats { patterns := pats } [] := by
  intro _
  refine ⟨⟨rfl, by simp [Session.roots], ?_, ?_, ?_, ?_⟩, ?_, ?_⟩
  · intro R; simp [Session.get]
  · intro R r hr; simp [Session.get] at hr
  · intro R rr hrr; simp [Session.get] at hrr
  · intro R hR; simp [Session.roots] at hR
  · intro p hp; cases hp
  · intro d hd; cases hd

theorem createVisit_sessInv {env : Env} {t : Node} {g : Hist} {fmts pats : List String} (hg : HistOK t g)
    (hfm : fmts ≠ []) (noDir : Bool) (st : CreateState) (v : Visit) (L : List (RelPath × Bool))
    (hs : SessInv env t g fmts pats st.session L) :
    SessInv env t g fmts pats (createVisit env t g fmts noDir st v).session (L ++ visitItems v) := by
  unfold createVisit
  dsimp only
  generalize hres : List.foldl _ (st, _) v.children = res
  have hP : SessInv env t g fmts pats res.1.session
      (L ++ v.children.flatMap fun c => if c.2 then [] else [(v.folder ++ [c.1], false)]) := by
    rw [← hres]
    refine foldl_track (fun (a : CreateState × List (String × DirCtx)) L => SessInv env t g fmts pats a.1.session L)
      _ _ ?_ _ _ _ hs
    intro a b L' hP
    try dsimp only at hP ⊢
    by_cases hb : b.2 = true
    · simp only [hb, if_true, List.append_nil]
      split <;> exact hP
    · simp only [hb, Bool.false_eq_true, if_false]
      intro hok
      exact sinv_file hg hfm (hP hok.left) hok
  unfold visitItems
  rw [← List.append_assoc]
  cases noDir
  · simp only [Bool.false_eq_true, if_false]
    intro hok
    exact sinv_dir hg _ (hP hok.left) hok
  · simp only [if_true]
    intro hok
    exact sinv_dir hg _ (hP hok.left) hok

theorem createFold_sessInv {env : Env} {t : Node} {g : Hist} {fmts pats : List String} (hg : HistOK t g)
    (hfm : fmts ≠ []) (noDir : Bool) (vs : List Visit) (st : CreateState) (L : List (RelPath × Bool))
    (hs : SessInv env t g fmts pats st.session L) :
    SessInv env t g fmts pats (vs.foldl (createVisit env t g fmts noDir) st).session (L ++ recItems vs) :=
  foldl_track (fun (st : CreateState) L => SessInv env t g fmts pats st.session L) _ visitItems
    (fun a b L hP => createVisit_sessInv hg hfm noDir a b L hP) vs st L hs

theorem mem_recItems (hit : RelPath → Bool) (t : Node) (x : RelPath × Bool) :
    x ∈ recItems (traverse hit [] t) ↔ x ∈ visiblePaths hit t ∨ (x = ([], true) ∧ t.isDir = true) := by
  rw [(recItems_perm hit t []).mem_iff, ← visiblePaths_eq, List.mem_append]
  constructor
  · rintro (h | h)
    · exact Or.inl h
    · split at h
      · next hd => exact Or.inr ⟨by simpa using h, hd⟩
      · simp at h
  · rintro (h | ⟨h1, h2⟩)
    · exact Or.inl h
    · right; rw [if_pos h2, h1]; simp

/-- the items of a whole traversal are unambiguous -/
theorem recItems_itemsOk {t : Node} {g : Hist} (hg : HistOK t g) (hit : RelPath → Bool) (hd : t.NamesDistinct)
    (hn : t.NamesOk) : ItemsOk g (recItems (traverse hit [] t)) := by
  have hk := recItems_keysOk hit t hd hn
  refine ⟨?_, ?_, ?_⟩
  · have := hk.1
    rw [show (fun x : RelPath × Bool => posix x.1) = posix ∘ (·.1) from rfl, ← List.map_map] at this
    exact List.Nodup.of_map _ this
  · intro x hx
    rcases (mem_recItems hit t x).1 hx with h | ⟨h, -⟩
    · exact (visible_names_ok hit t hn x h).2
    · rw [h]; simp
  · intro p hp hrel
    rcases (mem_recItems hit t _).1 hp with h | ⟨h, -⟩
    · obtain ⟨c, hc, hcd⟩ := MhlProps.C02.visible_on_disk hit t hd p false h
      obtain ⟨-, h0 | ⟨c', hc', hcr⟩⟩ := relOf_nil hg hrel
      · exact (visible_names_ok hit t hn _ h).1 h0
      · obtain ⟨-, n, hn1, hn2⟩ := hg.isDir c' hc'
        rw [hcr, hc] at hn1
        cases hn1
        rw [hcd] at hn2
        cases hn2
    · cases h

/-- the session after the whole traversal -/
theorem createFold_sinv {env : Env} {t : Node} {g : Hist} (hg : HistOK t g) (hd : t.NamesDistinct) (hn : t.NamesOk)
    (fmts : List String) (hfm : fmts ≠ []) (noDir : Bool) (pats : List String) (hit : RelPath → Bool) :
    SInv env t g fmts pats
      ((traverse hit [] t).foldl (createVisit env t g fmts noDir) { session := { patterns := pats } }).session
      (recItems (traverse hit [] t)) := by
  have h0 := createFold_sessInv (env := env) hg hfm noDir (traverse hit [] t)
    { session := { patterns := pats } } [] (sessInv_empty env t g fmts pats)
  rw [List.nil_append] at h0
  exact h0 (recItems_itemsOk hg hit hd hn)

/-- a record that denotes the visited item `x` (its list's root followed by its path is the path of `x`) is the
record made for `x` -/
theorem SCore.denotes {g : Hist} {pats : List String} {s : Session} {L : List (RelPath × Bool)}
    (hc : SCore g pats s L) (hok : ItemsOk g L) {R : RelPath} {r : Record} (hr : r ∈ (s.get R).records)
    {x : RelPath × Bool} (hx : x ∈ L) (hden : R ++ splitPath r.path = x.1) :
    r.isDir = x.2 ∧ ∃ q, q ≠ [] ∧ r.path = posix q ∧ R ++ q = x.1 ∧
      (R = ownerOf g x.1 ∨ (x.2 = true ∧ relOf g x.1 = [] ∧ parentRoot g x.1 = some R)) := by
  obtain ⟨y, hy, q, hq0, hq, hy1, hyd, hj⟩ := hc.recs R r hr
  have hqn : ∀ n ∈ q, NameOk n := fun n hn => hok.names y hy n (mem_of_append_eq hy1 n hn)
  rw [hq, splitPath_posix hqn] at hden
  have hxy : y = x := List.inj_on_of_nodup_map hok.nodup hy hx (hy1.symm.trans hden)
  subst hxy
  exact ⟨hyd, q, hq0, hq, hy1, hj⟩

/-- a non-empty prefix of a visible path that resolves in the tree is itself visible -/
theorem visible_prefix (hit : RelPath → Bool) (t : Node) (hd : t.NamesDistinct) {p q : RelPath} {d : Bool}
    (hp : (p, d) ∈ visiblePaths hit t) (hq : q <+: p) (hq0 : q ≠ []) {n : Node} (hat : t.at? q = some n) :
    (q, n.isDir) ∈ visiblePaths hit t := by
  rw [MhlProps.C02.visible_iff_at hit t hd] at hp ⊢
  refine ⟨⟨hq0, n, hat, rfl⟩, ?_⟩
  intro k hk0 hk
  obtain ⟨r, rfl⟩ := hq
  have := hp.2 k hk0 (by simp; omega)
  rwa [List.take_append_of_le_length hk] at this

/-! ### an evaluable test for `Node.NamesDistinct` -/

mutual
/-- sibling names pairwise distinct in every folder, as a Boolean (for concrete trees) -/
def namesDistinctB : Node → Bool
  | .file _ _ => true
  | .dir _ cs _ => decide (cs.map Node.name).Nodup && namesDistinctKidsB cs
def namesDistinctKidsB : List Node → Bool
  | [] => true
  | c :: cs => namesDistinctB c && namesDistinctKidsB cs
end

mutual
theorem namesDistinctB_sound : (t : Node) → namesDistinctB t = true → t.NamesDistinct
  | .file _ _, _ => by simp [Node.NamesDistinct]
  | .dir _ cs _, h => by
    rw [namesDistinctB, Bool.and_eq_true, decide_eq_true_eq] at h
    rw [Node.NamesDistinct]
    exact ⟨h.1, namesDistinctKidsB_sound cs h.2⟩
theorem namesDistinctKidsB_sound : (cs : List Node) → namesDistinctKidsB cs = true → Node.NamesDistinctKids cs
  | [], _ => by simp [Node.NamesDistinctKids]
  | c :: cs, h => by
    rw [namesDistinctKidsB, Bool.and_eq_true] at h
    rw [Node.NamesDistinctKids]
    exact ⟨namesDistinctB_sound c h.1, namesDistinctKidsB_sound cs h.2⟩
end

/-! ## H. the commit -/

section commit
variable (g : Hist) (s : Session) (rn stamp process : String) (cb : Option String)

/-- the generations already written whose history is a direct child of the history rooted at `R` -/
def childRefs (g : Hist) (written : List Written) (R : RelPath) : List Written :=
  written.filter fun w => parentRoot g w.histRoot == some R

theorem commitStep_cases {acc acc' : List Written} {h : Hist}
    (hst : commitStep g s rn stamp process cb acc h = .ok acc') :
    (acc' = acc ∧ h.root ∉ s.roots ∧ childRefs g acc h.root = []) ∨
    (∃ w, acc' = acc ++ [w] ∧ writeOne g s rn stamp process cb h (childRefs g acc h.root) = .ok w ∧
      (h.root ∈ s.roots ∨ childRefs g acc h.root ≠ [])) := by
  unfold commitStep at hst
  simp only at hst
  split at hst
  · next hskip =>
    left
    simp only [pure, Except.pure, Except.ok.injEq] at hst
    simp only [Bool.and_eq_true, Bool.not_eq_true', List.isEmpty_iff] at hskip
    refine ⟨hst.symm, ?_, hskip.2⟩
    intro hm
    have := (s.any_root_iff h.root).2 hm
    rw [hskip.1] at this
    cases this
  · next hskip =>
    right
    cases hw : writeOne g s rn stamp process cb h
        (acc.filter fun w => parentRoot g w.histRoot == some h.root) with
    | error e => simp [hw, bind, Except.bind] at hst
    | ok w =>
      simp only [hw, bind, Except.bind, pure, Except.pure, Except.ok.injEq] at hst
      refine ⟨w, hst.symm, hw, ?_⟩
      by_cases hm : h.root ∈ s.roots
      · exact Or.inl hm
      · right
        intro hnil
        apply hskip
        have h1 : (s.lists.any fun l => l.root == h.root) = false := by
          cases hany : s.lists.any fun l => l.root == h.root with
          | false => rfl
          | true => exact absurd ((s.any_root_iff h.root).1 hany) hm
        have h2 : (acc.filter fun w => parentRoot g w.histRoot == some h.root) = [] := hnil
        simp [h1, h2]

/-- what a run of commit steps adds: one generation for some of the histories, in their order -/
theorem commitFold_news : ∀ (l : List Hist) (acc res : List Written),
    l.foldlM (commitStep g s rn stamp process cb) acc = .ok res →
    ∃ news, res = acc ++ news ∧ (news.map (·.histRoot)).Sublist (l.map (·.root)) ∧
      ∀ w ∈ news, ∃ h ∈ l, ∃ refs, writeOne g s rn stamp process cb h refs = .ok w := by
  intro l
  induction l with
  | nil =>
    intro acc res h
    simp only [List.foldlM_nil, pure, Except.pure, Except.ok.injEq] at h
    exact ⟨[], by simp [h], by simp, by simp⟩
  | cons h l ih =>
    intro acc res hf
    rw [List.foldlM_cons] at hf
    cases hst : commitStep g s rn stamp process cb acc h with
    | error e => simp [hst, bind, Except.bind] at hf
    | ok acc' =>
      simp only [hst, bind, Except.bind] at hf
      obtain ⟨news, hres, hsub, hall⟩ := ih acc' res hf
      rcases commitStep_cases g s rn stamp process cb hst with ⟨rfl, -, -⟩ | ⟨w, rfl, hw, -⟩
      · refine ⟨news, hres, ?_, ?_⟩
        · rw [List.map_cons]; exact hsub.cons _
        · intro w hw
          obtain ⟨h', hh', rest⟩ := hall w hw
          exact ⟨h', List.mem_cons_of_mem _ hh', rest⟩
      · refine ⟨w :: news, by rw [hres]; simp, ?_, ?_⟩
        · rw [List.map_cons, List.map_cons, (writeOne_records _ _ _ _ _ _ _ _ _ hw).1]
          exact hsub.cons_cons _
        · intro w' hw'
          rcases List.mem_cons.1 hw' with rfl | hw'
          · exact ⟨h, List.mem_cons_self, _, hw⟩
          · obtain ⟨h', hh', rest⟩ := hall w' hw'
            exact ⟨h', List.mem_cons_of_mem _ hh', rest⟩

theorem foldlM_split {α β ε : Type} (f : β → α → Except ε β) (l1 : List α) (a : α) (l2 : List α) (b res : β)
    (h : (l1 ++ a :: l2).foldlM f b = .ok res) :
    ∃ b1 b2, l1.foldlM f b = .ok b1 ∧ f b1 a = .ok b2 ∧ l2.foldlM f b2 = .ok res := by
  rw [List.foldlM_append] at h
  cases h1 : l1.foldlM f b with
  | error e => simp [h1, bind, Except.bind] at h
  | ok b1 =>
    simp only [h1, bind, Except.bind, List.foldlM_cons] at h
    cases h2 : f b1 a with
    | error e => simp [h2] at h
    | ok b2 =>
      simp only [h2] at h
      exact ⟨b1, b2, rfl, h2, h⟩

/-- the commit seen from one history of the walk: what was written before it, what it wrote, what came after -/
theorem commit_at {ws : List Written} (hcm : commit g s rn stamp process cb = .ok ws) {l1 l2 : List Hist} {h : Hist}
    (hw : walkPost g = l1 ++ h :: l2) :
    ∃ a1 nh n2, ws = a1 ++ nh ++ n2 ∧
      (∀ w ∈ a1, ∃ h' ∈ l1, w.histRoot = h'.root) ∧ (∀ w ∈ n2, ∃ h' ∈ l2, w.histRoot = h'.root) ∧
      ((nh = [] ∧ h.root ∉ s.roots ∧ childRefs g a1 h.root = []) ∨
       (∃ w, nh = [w] ∧ writeOne g s rn stamp process cb h (childRefs g a1 h.root) = .ok w ∧
         (h.root ∈ s.roots ∨ childRefs g a1 h.root ≠ []))) := by
  unfold commit at hcm
  rw [hw] at hcm
  obtain ⟨a1, a2, h1, h2, h3⟩ := foldlM_split _ _ _ _ _ _ hcm
  obtain ⟨n1, hn1, -, hall1⟩ := commitFold_news g s rn stamp process cb l1 [] a1 h1
  obtain ⟨n2, hn2, -, hall2⟩ := commitFold_news g s rn stamp process cb l2 a2 ws h3
  rw [List.nil_append] at hn1
  subst hn1
  have hroot : ∀ (l : List Hist) (n : List Written),
      (∀ w ∈ n, ∃ h ∈ l, ∃ refs, writeOne g s rn stamp process cb h refs = .ok w) →
      ∀ w ∈ n, ∃ h' ∈ l, w.histRoot = h'.root := by
    intro l n hall w hw'
    obtain ⟨h', hh', refs, hwr⟩ := hall w hw'
    exact ⟨h', hh', (writeOne_records _ _ _ _ _ _ _ _ _ hwr).1⟩
  rcases commitStep_cases g s rn stamp process cb h2 with ⟨he, hx, hy⟩ | ⟨w, he, hwr, hor⟩
  · exact ⟨a1, [], n2, by rw [hn2, he]; simp, hroot l1 a1 hall1, hroot l2 n2 hall2, Or.inl ⟨rfl, hx, hy⟩⟩
  · exact ⟨a1, [w], n2, by rw [hn2, he], hroot l1 a1 hall1, hroot l2 n2 hall2, Or.inr ⟨w, rfl, hwr, hor⟩⟩

/-- every written generation is the one `writeOne` makes for a history of the walk -/
theorem commit_written {ws : List Written} (hcm : commit g s rn stamp process cb = .ok ws) :
    (ws.map (·.histRoot)).Sublist (rootsOf (walkPost g)) ∧
    ∀ w ∈ ws, ∃ h ∈ walkPost g, ∃ refs, writeOne g s rn stamp process cb h refs = .ok w := by
  unfold commit at hcm
  obtain ⟨news, hn, hsub, hall⟩ := commitFold_news g s rn stamp process cb _ [] ws hcm
  rw [List.nil_append] at hn
  subst hn
  exact ⟨hsub, hall⟩

end commit

/-! ## I. the commit of a loaded history -/

theorem split_disjoint {t : Node} {g : Hist} (hg : HistOK t g) {l1 l2 : List Hist} {h : Hist}
    (hw : walkPost g = l1 ++ h :: l2) :
    (∀ a ∈ l1, a.root ≠ h.root) ∧ (∀ b ∈ l2, b.root ≠ h.root) ∧ ∀ a ∈ l1, ∀ b ∈ l2, a.root ≠ b.root := by
  have hnd := walkPost_roots_nodup hg.nodup
  rw [hw] at hnd
  simp only [rootsOf, List.map_append, List.map_cons] at hnd
  rw [List.nodup_append] at hnd
  obtain ⟨-, h2, h3⟩ := hnd
  rw [List.nodup_cons] at h2
  refine ⟨?_, ?_, ?_⟩
  · intro a ha he
    exact h3 _ (List.mem_map_of_mem ha) _ List.mem_cons_self he
  · intro b hb he
    exact h2.1 (he ▸ List.mem_map_of_mem hb)
  · intro a ha b hb he
    exact h3 _ (List.mem_map_of_mem ha) _ (List.mem_cons_of_mem _ (List.mem_map_of_mem hb)) he

section commitOK
variable {t : Node} {g : Hist} (hg : HistOK t g) (s : Session) (rn stamp process : String) (cb : Option String)
  {ws : List Written} (hcm : commit g s rn stamp process cb = .ok ws)
include hg hcm

/-- no history is written twice -/
theorem commit_roots_nodup : (ws.map (·.histRoot)).Nodup :=
  (commit_written g s rn stamp process cb hcm).1.nodup (walkPost_roots_nodup hg.nodup)

/-- a history is written iff it has a list in the session or one of its direct children was written -/
theorem commit_written_iff (h : Hist) (hh : h ∈ walkPost g) :
    (∃ w ∈ ws, w.histRoot = h.root) ↔
      (h.root ∈ s.roots ∨ ∃ c ∈ h.children, ∃ w' ∈ ws, w'.histRoot = c.root) := by
  obtain ⟨l1, l2, hw⟩ := List.append_of_mem hh
  obtain ⟨d1, d2, d12⟩ := split_disjoint hg hw
  have hall : h ∈ g.all := (mem_walkPost g h).1 hh
  obtain ⟨a1, nh, n2, hws, ha1, hn2, hcase⟩ := commit_at g s rn stamp process cb hcm hw
  constructor
  · rintro ⟨w, hwm, hwr⟩
    rcases hcase with ⟨rfl, -, -⟩ | ⟨w0, rfl, hw0, hor⟩
    · exfalso
      rw [hws] at hwm
      simp only [List.append_nil, List.mem_append] at hwm
      rcases hwm with hm | hm
      · obtain ⟨h', hh', he⟩ := ha1 w hm
        exact d1 h' hh' (he ▸ hwr)
      · obtain ⟨h', hh', he⟩ := hn2 w hm
        exact d2 h' hh' (he ▸ hwr)
    · rcases hor with hor | hor
      · exact Or.inl hor
      · right
        obtain ⟨w', hw'⟩ := List.exists_mem_of_ne_nil _ hor
        simp only [childRefs, List.mem_filter, beq_iff_eq] at hw'
        obtain ⟨c, hc, hcr⟩ := (parentRoot_iff hg.nodup hall _).1 hw'.2
        exact ⟨c, hc, w', by rw [hws]; simp [hw'.1], hcr.symm⟩
  · intro hor
    rcases hcase with ⟨rfl, hx, hy⟩ | ⟨w0, rfl, hw0, -⟩
    · exfalso
      rcases hor with hor | ⟨c, hc, w', hw', hwc⟩
      · exact hx hor
      · have hc1 : c ∈ l1 := walkPost_child_before hg.nodup hw hc
        rw [hws] at hw'
        simp only [List.append_nil, List.mem_append] at hw'
        rcases hw' with hm | hm
        · have : w' ∈ childRefs g a1 h.root := by
            simp only [childRefs, List.mem_filter, beq_iff_eq]
            exact ⟨hm, by rw [hwc]; exact parentRoot_child hg.nodup hall hc⟩
          rw [hy] at this
          cases this
        · obtain ⟨h', hh', he⟩ := hn2 w' hm
          exact d12 c hc1 h' hh' (by rw [← hwc, he])
    · exact ⟨w0, by rw [hws]; simp, (writeOne_records _ _ _ _ _ _ _ _ _ hw0).1⟩

/-- the references of a written generation: exactly the written generations of the direct child histories, in the
order written -/
theorem commit_refs_exact (w : Written) (hwm : w ∈ ws) :
    w.gen.refs = (childRefs g ws w.histRoot).map fun w' =>
      posix (w'.histRoot.drop w.histRoot.length ++ [Gen.folderName, w'.gen.fileName]) := by
  obtain ⟨h, hh, refs, hwr⟩ := (commit_written g s rn stamp process cb hcm).2 w hwm
  have hroot : w.histRoot = h.root := (writeOne_records _ _ _ _ _ _ _ _ _ hwr).1
  obtain ⟨l1, l2, hw⟩ := List.append_of_mem hh
  obtain ⟨d1, d2, d12⟩ := split_disjoint hg hw
  have hall : h ∈ g.all := (mem_walkPost g h).1 hh
  obtain ⟨a1, nh, n2, hws, ha1, hn2, hcase⟩ := commit_at g s rn stamp process cb hcm hw
  -- `w` is the generation written at `h`
  have hw0 : ∃ w0, nh = [w0] ∧ writeOne g s rn stamp process cb h (childRefs g a1 h.root) = .ok w0 := by
    rcases hcase with ⟨rfl, -, -⟩ | ⟨w0, rfl, hw0, -⟩
    · exfalso
      rw [hws] at hwm
      simp only [List.append_nil, List.mem_append] at hwm
      rcases hwm with hm | hm
      · obtain ⟨h', hh', he⟩ := ha1 w hm
        exact d1 h' hh' (he ▸ hroot)
      · obtain ⟨h', hh', he⟩ := hn2 w hm
        exact d2 h' hh' (he ▸ hroot)
    · exact ⟨w0, rfl, hw0⟩
  obtain ⟨w0, rfl, hw0⟩ := hw0
  have hww : w = w0 := by
    rw [hws] at hwm
    simp only [List.mem_append, List.mem_singleton] at hwm
    rcases hwm with (hm | hm) | hm
    · exfalso
      obtain ⟨h', hh', he⟩ := ha1 w hm
      exact d1 h' hh' (he ▸ hroot)
    · exact hm
    · exfalso
      obtain ⟨h', hh', he⟩ := hn2 w hm
      exact d2 h' hh' (he ▸ hroot)
  subst hww
  rw [MhlProps.C08.writeOne_refs _ _ _ _ _ _ _ _ _ hw0, hroot]
  congr 1
  -- nothing written at or after `h` is a direct child of `h`
  rw [hws]
  simp only [childRefs, List.filter_append]
  have h1 : ([w].filter fun w' => parentRoot g w'.histRoot == some h.root) = [] := by
    rw [List.filter_eq_nil_iff]
    intro w' hw'
    simp only [List.mem_singleton] at hw'
    subst hw'
    simp only [beq_iff_eq]
    intro hp
    rw [hroot] at hp
    obtain ⟨c, hc, hcr⟩ := (parentRoot_iff hg.nodup hall _).1 hp
    have := (hg.child h hall c hc).2
    rw [hcr] at this
    exact Nat.lt_irrefl _ this
  have h2 : (n2.filter fun w' => parentRoot g w'.histRoot == some h.root) = [] := by
    rw [List.filter_eq_nil_iff]
    intro w' hw'
    simp only [beq_iff_eq]
    intro hp
    obtain ⟨c, hc, hcr⟩ := (parentRoot_iff hg.nodup hall _).1 hp
    obtain ⟨h', hh', he⟩ := hn2 w' hw'
    exact d12 c (walkPost_child_before hg.nodup hw hc) h' hh' (by rw [hcr, he])
  rw [h1, h2]
  simp

omit hg hcm in
theorem pairwise_either {α : Type} {R : α → α → Prop} {l : List α} (h : l.Pairwise R) :
    ∀ a ∈ l, ∀ b ∈ l, a ≠ b → R a b ∨ R b a := by
  induction h with
  | nil => intro a ha; cases ha
  | @cons x xs hx _ ih =>
    intro a ha b hb hne
    rcases List.mem_cons.1 ha with ha1 | ha1
    · rcases List.mem_cons.1 hb with hb1 | hb1
      · exact absurd (ha1.trans hb1.symm) hne
      · exact Or.inl (ha1 ▸ hx b hb1)
    · rcases List.mem_cons.1 hb with hb1 | hb1
      · exact Or.inr (hb1 ▸ hx a ha1)
      · exact ih a ha1 b hb1 hne

/-- the references are in walk order: sub-folders by name, top-down -/
theorem commit_refs_sorted (R : RelPath) : ((childRefs g ws R).map (·.histRoot)).Pairwise WalkLt := by
  have hsub : ((childRefs g ws R).map (·.histRoot)).Sublist (rootsOf (walkPost g)) :=
    ((List.filter_sublist (l := ws)).map _).trans (commit_written g s rn stamp process cb hcm).1
  have hord := walkPost_order g (fun y hy c hc => (hg.child y hy c hc).1) hg.order
  have hnd := walkPost_roots_nodup hg.nodup
  have hboth : (rootsOf (walkPost g)).Pairwise (fun a b => (WalkLt a b ∨ b <+: a) ∧ a ≠ b) := by
    rw [rootsOf, List.Nodup, List.pairwise_map] at hnd
    rw [rootsOf, List.pairwise_map]
    exact hord.and hnd
  have hmem : ∀ r ∈ (childRefs g ws R).map (·.histRoot), parentRoot g r = some R := by
    intro r hr
    obtain ⟨w, hw, rfl⟩ := List.mem_map.1 hr
    simp only [childRefs, List.mem_filter, beq_iff_eq] at hw
    exact hw.2
  refine (hboth.sublist hsub).imp_of_mem ?_
  intro a b ha hb hab
  rcases hab.1 with h | h
  · exact h
  · exfalso
    obtain ⟨x, hx, hxr, c1, hc1, hc1r⟩ := parentRoot_some (hmem a ha)
    obtain ⟨y, hy, hyr, c2, hc2, hc2r⟩ := parentRoot_some (hmem b hb)
    have hxy : y = x := mem_all_root_inj hg.nodup hy hx (hyr.trans hxr.symm)
    subst hxy
    have hord' := hg.order y hy
    have hm1 : a ∈ rootsOf y.children := List.mem_map.2 ⟨c1, hc1, hc1r⟩
    have hm2 : b ∈ rootsOf y.children := List.mem_map.2 ⟨c2, hc2, hc2r⟩
    rcases pairwise_either hord' a hm1 b hm2 hab.2 with h' | h'
    · exact h'.not_prefix.2 h
    · exact h'.not_prefix.1 h

/-- whatever is written lies at or above a history that has a list in the session -/
theorem commit_session_below (w : Written) (hwm : w ∈ ws) : ∃ R ∈ s.roots, w.histRoot <+: R := by
  unfold commit at hcm
  have key : ∀ (l : List Hist) (acc res : List Written),
      l.foldlM (commitStep g s rn stamp process cb) acc = .ok res →
      (∀ w ∈ acc, ∃ R ∈ s.roots, w.histRoot <+: R) → ∀ w ∈ res, ∃ R ∈ s.roots, w.histRoot <+: R := by
    intro l
    induction l with
    | nil =>
      intro acc res h hacc
      simp only [List.foldlM_nil, pure, Except.pure, Except.ok.injEq] at h
      rw [← h]; exact hacc
    | cons h l ih =>
      intro acc res hf hacc
      rw [List.foldlM_cons] at hf
      cases hst : commitStep g s rn stamp process cb acc h with
      | error e => simp [hst, bind, Except.bind] at hf
      | ok acc' =>
        simp only [hst, bind, Except.bind] at hf
        refine ih acc' res hf ?_
        rcases commitStep_cases g s rn stamp process cb hst with ⟨rfl, -, -⟩ | ⟨w0, rfl, hw0, hor⟩
        · exact hacc
        · intro w' hw'
          rcases List.mem_append.1 hw' with hm | hm
          · exact hacc w' hm
          · simp only [List.mem_singleton] at hm
            subst hm
            rw [(writeOne_records _ _ _ _ _ _ _ _ _ hw0).1]
            rcases hor with hor | hor
            · exact ⟨h.root, hor, List.prefix_refl _⟩
            · obtain ⟨w1, hw1⟩ := List.exists_mem_of_ne_nil _ hor
              simp only [childRefs, List.mem_filter, beq_iff_eq] at hw1
              obtain ⟨R, hR, hpre⟩ := hacc w1 hw1.1
              exact ⟨R, hR, (parentRoot_prefix hg hw1.2).1.trans hpre⟩
  exact key _ [] ws hcm (by simp) w hwm

end commitOK

end MhlModel
