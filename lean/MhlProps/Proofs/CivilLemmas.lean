/- Lemmas about `MhlModel.Civil`: the year-of-era formula of `civil_from_days` (checked on the 400 years of an era by
the kernel and extended to every day by monotonicity), the normal forms of `civilFromDays` / `daysFromCivil`, the
round trips, and the character-level shape of the texts. -/
import MhlModel.Civil
import MhlProps.Proofs.TimeLemmas

namespace MhlModel.Civil

open MhlModel.Time (pad2 pad2Chars offsetText)

/-! ### the year of the era -/

/-- the numerator of Hinnant's year-of-era formula -/
def nOf (doe : Int) : Int := doe - doe / 1460 + doe / 36524 - doe / 146096
/-- first day (of the era) of the March-based year `y` of the era -/
def fOf (y : Int) : Int := 365 * y + y / 4 - y / 100
def yoeOf (doe : Int) : Int := nOf doe / 365

/-- for year `k` of the era: the formula does not put its first day into an earlier year nor its last day into a
later year (the last year of the era has the 400-year leap day) -/
def yearOk (k : Nat) : Bool :=
  let y : Int := k
  decide (365 * y ≤ nOf (fOf y)) && decide (nOf (fOf (y + 1) - 1 + (y + 1) / 400) ≤ 365 * y + 364)

def allBelow (p : Nat → Bool) : Nat → Bool
  | 0 => true
  | n + 1 => p n && allBelow p n

theorem allBelow_spec (p : Nat → Bool) : ∀ n, allBelow p n = true → ∀ i, i < n → p i = true
  | 0, _, i, hi => by omega
  | n + 1, h, i, hi => by
    simp only [allBelow, Bool.and_eq_true] at h
    by_cases e : i = n
    · subst e; exact h.1
    · exact allBelow_spec p n h.2 i (by omega)

/-- 400 evaluations in the kernel (about a second) -/
theorem yearOk_all : allBelow yearOk 400 = true := by decide +kernel

theorem yearOk_int (y : Int) (h0 : 0 ≤ y) (h1 : y < 400) :
    365 * y ≤ nOf (fOf y) ∧ nOf (fOf (y + 1) - 1 + (y + 1) / 400) ≤ 365 * y + 364 := by
  obtain ⟨k, rfl⟩ := Int.eq_ofNat_of_zero_le h0
  have h := allBelow_spec yearOk _ yearOk_all k (by omega)
  simpa only [yearOk, Bool.and_eq_true, decide_eq_true_eq] using h

theorem nOf_step (a : Int) (h0 : 0 ≤ a) (h1 : a + 1 < 146097) : nOf a ≤ nOf (a + 1) := by
  unfold nOf; omega

theorem nOf_mono_aux (a : Int) (h0 : 0 ≤ a) : ∀ k : Nat, a + k < 146097 → nOf a ≤ nOf (a + k)
  | 0, _ => by simp
  | k + 1, h => by
    have h' : a + (k : Int) < 146097 := by omega
    have ih := nOf_mono_aux a h0 k h'
    have st := nOf_step (a + k) (by omega) (by omega)
    have e : a + ((k + 1 : Nat) : Int) = a + k + 1 := by omega
    rw [e]; omega

theorem nOf_mono (a b : Int) (h0 : 0 ≤ a) (hab : a ≤ b) (h1 : b < 146097) : nOf a ≤ nOf b := by
  have := nOf_mono_aux a h0 (b - a).toNat (by omega)
  have e : a + ((b - a).toNat : Int) = b := by omega
  rwa [e] at this

/-- KEY: the year-of-era formula is exact on the whole era: the computed year is in 0..399 and the day lies between
the first day of that year and the first day of the next (the era ends one day later: 400-year leap day) -/
theorem yoe_key (doe : Int) (h0 : 0 ≤ doe) (h1 : doe < 146097) :
    0 ≤ yoeOf doe ∧ yoeOf doe ≤ 399 ∧ fOf (yoeOf doe) ≤ doe ∧
      doe < fOf (yoeOf doe + 1) + (yoeOf doe + 1) / 400 := by
  have hy0 : 0 ≤ yoeOf doe := by unfold yoeOf nOf; omega
  have hy1 : yoeOf doe ≤ 399 := by unfold yoeOf nOf; omega
  have hdef : 365 * yoeOf doe ≤ nOf doe ∧ nOf doe ≤ 365 * yoeOf doe + 364 := by unfold yoeOf; omega
  generalize yoeOf doe = Y at *
  refine ⟨hy0, hy1, ?_, ?_⟩
  · -- doe before the first day of year Y: then it is at most the last day of year Y-1, whose formula value is < 365 Y
    apply Decidable.byContradiction; intro hc
    have hY : 1 ≤ Y := by unfold fOf at hc; omega
    have k := (yearOk_int (Y - 1) (by omega) (by omega)).2
    have e : Y - 1 + 1 = Y := by omega
    rw [e] at k
    have hz : Y / 400 = 0 := by omega
    have m := nOf_mono doe (fOf Y - 1 + Y / 400) h0 (by omega) (by unfold fOf; omega)
    omega
  · apply Decidable.byContradiction; intro hc
    have hY : Y < 399 := by unfold fOf at hc; omega
    have k := (yearOk_int (Y + 1) (by omega) (by omega)).1
    have hz : (Y + 1) / 400 = 0 := by omega
    have m := nOf_mono (fOf (Y + 1)) doe (by unfold fOf; omega) (by omega) h1
    omega

/-- the same with the definitions spelled out as they occur in `civilFromDays` -/
theorem yoe_key' (doe : Int) (h0 : 0 ≤ doe) (h1 : doe < 146097) :
    let yoe := (doe - doe / 1460 + doe / 36524 - doe / 146096) / 365
    0 ≤ yoe ∧ yoe ≤ 399 ∧ 365 * yoe + yoe / 4 - yoe / 100 ≤ doe ∧
      doe < 365 * (yoe + 1) + (yoe + 1) / 4 - (yoe + 1) / 100 + (yoe + 1) / 400 :=
  yoe_key doe h0 h1

theorem fOf_mono (a b : Int) (h : a ≤ b) : fOf a ≤ fOf b := by
  unfold fOf; omega

/-- a year of the era is determined by the interval its days lie in -/
theorem yoe_unique (doe Y : Int) (h0 : 0 ≤ Y) (h1 : Y ≤ 399) (hf : fOf Y ≤ doe)
    (hg : doe < fOf (Y + 1) + (Y + 1) / 400) : yoeOf doe = Y := by
  have d0 : 0 ≤ doe := by unfold fOf at hf; omega
  have d1 : doe < 146097 := by unfold fOf at hg; omega
  obtain ⟨k0, k1, k2, k3⟩ := yoe_key doe d0 d1
  generalize yoeOf doe = X at *
  apply Decidable.byContradiction; intro hne
  by_cases c : X < Y
  · have m := fOf_mono (X + 1) Y (by omega)
    have : (X + 1) / 400 = 0 := by omega
    omega
  · have m := fOf_mono (Y + 1) X (by omega)
    have : (Y + 1) / 400 = 0 := by omega
    omega

/-! ### normal forms -/

/-- the part of `civilFromDays` after the split into era and day of era -/
def civilOfEra (era doe : Int) : Int × Nat × Nat :=
  let yoe := (doe - doe / 1460 + doe / 36524 - doe / 146096) / 365
  let y := yoe + era * 400
  let doy := doe - (365 * yoe + yoe / 4 - yoe / 100)
  let mp := (5 * doy + 2) / 153
  let d := doy - (153 * mp + 2) / 5 + 1
  let m := if mp < 10 then mp + 3 else mp - 9
  (if m ≤ 2 then y + 1 else y, m.toNat, d.toNat)

theorem civilFromDays_eq (z : Int) :
    civilFromDays z = civilOfEra ((z + 719468) / 146097) (z + 719468 - (z + 719468) / 146097 * 146097) := rfl

theorem doe_range (z : Int) :
    0 ≤ z + 719468 - (z + 719468) / 146097 * 146097 ∧ z + 719468 - (z + 719468) / 146097 * 146097 < 146097 := by
  omega

/-- `isLeap` as a proposition -/
theorem isLeap_iff (y : Int) : isLeap y = true ↔ (y % 4 = 0 ∧ (y % 100 ≠ 0 ∨ y % 400 = 0)) := by
  simp [isLeap]

/-- the explicit result of `civilOfEra`, with the ranges of every intermediate quantity -/
theorem civilOfEra_spec (era doe : Int) (h0 : 0 ≤ doe) (h1 : doe < 146097) :
    ∃ yoe doy mp : Int, 0 ≤ yoe ∧ yoe ≤ 399 ∧ doy = doe - fOf yoe ∧ 0 ≤ doy ∧
      doy < fOf (yoe + 1) - fOf yoe + (yoe + 1) / 400 ∧ mp = (5 * doy + 2) / 153 ∧ 0 ≤ mp ∧ mp ≤ 11 ∧
      civilOfEra era doe = (yoe + era * 400 + (if mp < 10 then 0 else 1),
        (if mp < 10 then mp + 3 else mp - 9).toNat, (doy - (153 * mp + 2) / 5 + 1).toNat) := by
  obtain ⟨k0, k1, k2, k3⟩ := yoe_key doe h0 h1
  refine ⟨yoeOf doe, doe - fOf (yoeOf doe), (5 * (doe - fOf (yoeOf doe)) + 2) / 153, k0, k1, rfl, by omega, by omega,
    rfl, ?_, ?_, ?_⟩
  · omega
  · unfold fOf at k2 k3 ⊢; omega
  · unfold civilOfEra
    simp only []
    have e : (doe - doe / 1460 + doe / 36524 - doe / 146096) / 365 = yoeOf doe := rfl
    have e2 : ∀ y, 365 * y + y / 4 - y / 100 = fOf y := fun _ => rfl
    rw [e, e2]
    by_cases c : (5 * (doe - fOf (yoeOf doe)) + 2) / 153 < 10
    · simp only [c, if_true]
      have : ¬ ((5 * (doe - fOf (yoeOf doe)) + 2) / 153 + 3 ≤ 2) := by omega
      simp only [this, if_false, Int.add_zero]
    · simp only [c, if_false]
      have : (5 * (doe - fOf (yoeOf doe)) + 2) / 153 - 9 ≤ 2 := by unfold fOf at k2 k3 ⊢; omega
      simp only [this, if_true]

/-- days before the first of March of year `y`, counted from 0000-03-01 -/
def gOf (y : Int) : Int := 365 * y + y / 4 - y / 100 + y / 400

/-- the March-based month number (March = 0 … February = 11) -/
def mpOf (m : Nat) : Int := if m > 2 then (m : Int) - 3 else (m : Int) + 9

/-- `daysFromCivil` without the split into eras -/
theorem daysFromCivil_eq (y : Int) (m d : Nat) :
    daysFromCivil y m d = gOf (if m ≤ 2 then y - 1 else y) + (153 * mpOf m + 2) / 5 + d - 1 - 719468 := by
  unfold daysFromCivil gOf mpOf
  simp only []
  generalize (if m ≤ 2 then y - 1 else y) = Y
  generalize (153 * (if m > 2 then (m : Int) - 3 else (m : Int) + 9) + 2) / 5 = q
  omega

theorem gOf_era (era yoe : Int) (h0 : 0 ≤ yoe) (h1 : yoe ≤ 399) :
    gOf (yoe + era * 400) = era * 146097 + fOf yoe := by
  unfold gOf fOf; omega

/-- round trip days → date → days, on one era -/
theorem days_civilOfEra (era doe : Int) (h0 : 0 ≤ doe) (h1 : doe < 146097) :
    daysFromCivil (civilOfEra era doe).1 (civilOfEra era doe).2.1 (civilOfEra era doe).2.2
      = era * 146097 + doe - 719468 := by
  obtain ⟨yoe, doy, mp, y0, y1, hdoy, d0, d1, hmp, m0, m1, e⟩ := civilOfEra_spec era doe h0 h1
  rw [e, daysFromCivil_eq]
  simp only []
  have dd : doy ≤ 365 := by unfold fOf at d1; omega
  by_cases c : mp < 10
  · simp only [c, if_true]
    have c1 : ¬ ((mp + 3).toNat ≤ 2) := by omega
    have c2 : mpOf (mp + 3).toNat = mp := by unfold mpOf; rw [if_pos (by omega)]; omega
    simp only [c1, if_false, c2, Int.add_zero]
    rw [gOf_era era yoe y0 y1]
    omega
  · simp only [c, if_false]
    have c1 : (mp - 9).toNat ≤ 2 := by omega
    have c2 : mpOf (mp - 9).toNat = mp := by unfold mpOf; rw [if_neg (by omega)]; omega
    simp only [c1, if_true, c2]
    have : yoe + era * 400 + 1 - 1 = yoe + era * 400 := by omega
    rw [this, gOf_era era yoe y0 y1]
    omega

theorem days_civil_roundtrip' (z : Int) :
    daysFromCivil (civilFromDays z).1 (civilFromDays z).2.1 (civilFromDays z).2.2 = z := by
  rw [civilFromDays_eq, days_civilOfEra _ _ (doe_range z).1 (doe_range z).2]
  omega

/-- a date of the calendar -/
def validDate (c : Int × Nat × Nat) : Prop := 1 ≤ c.2.1 ∧ c.2.1 ≤ 12 ∧ 1 ≤ c.2.2 ∧ c.2.2 ≤ daysInMonth c.1 c.2.1

instance (c : Int × Nat × Nat) : Decidable (validDate c) := by unfold validDate; infer_instance

theorem civilOfEra_valid (era doe : Int) (h0 : 0 ≤ doe) (h1 : doe < 146097) : validDate (civilOfEra era doe) := by
  obtain ⟨yoe, doy, mp, y0, y1, hdoy, d0, d1, hmp, m0, m1, e⟩ := civilOfEra_spec era doe h0 h1
  rw [e]
  unfold validDate
  have hm : mp = 0 ∨ mp = 1 ∨ mp = 2 ∨ mp = 3 ∨ mp = 4 ∨ mp = 5 ∨ mp = 6 ∨ mp = 7 ∨ mp = 8 ∨ mp = 9 ∨ mp = 10 ∨
    mp = 11 := by omega
  rcases hm with rfl | rfl | rfl | rfl | rfl | rfl | rfl | rfl | rfl | rfl | rfl | rfl
  case inr.inr.inr.inr.inr.inr.inr.inr.inr.inr.inr =>
    -- February: its length depends on the year the date belongs to, which is the NEXT March-based year
    have e1 : ((if (11 : Int) < 10 then (11 : Int) + 3 else 11 - 9).toNat) = 2 := by decide
    have e2 : (if (11 : Int) < 10 then (0 : Int) else 1) = 1 := by decide
    simp only [e1, e2, daysInMonth]
    unfold fOf at d1
    by_cases lp : isLeap (yoe + era * 400 + 1) = true
    · simp only [lp, if_true]; omega
    · simp only [lp]
      rw [isLeap_iff] at lp
      simp only [Bool.false_eq_true, if_false]
      omega
  all_goals (simp [daysInMonth]; omega)

theorem civilFromDays_valid (z : Int) : validDate (civilFromDays z) := by
  rw [civilFromDays_eq]; exact civilOfEra_valid _ _ (doe_range z).1 (doe_range z).2

/-- `civilOfEra` on a day given by its March-based coordinates -/
theorem civilOfEra_of (era yoe mp dd : Int) (y0 : 0 ≤ yoe) (y1 : yoe ≤ 399) (m0 : 0 ≤ mp) (m1 : mp ≤ 11)
    (d0 : 1 ≤ dd) (d1 : (153 * mp + 2) / 5 + dd - 1 < (153 * (mp + 1) + 2) / 5)
    (d2 : (153 * mp + 2) / 5 + dd - 1 < fOf (yoe + 1) - fOf yoe + (yoe + 1) / 400) :
    civilOfEra era (fOf yoe + ((153 * mp + 2) / 5 + dd - 1))
      = (yoe + era * 400 + (if mp < 10 then 0 else 1), (if mp < 10 then mp + 3 else mp - 9).toNat, dd.toNat) := by
  generalize hdoe : fOf yoe + ((153 * mp + 2) / 5 + dd - 1) = doe
  have hq : 0 ≤ (153 * mp + 2) / 5 := by omega
  have h0 : 0 ≤ doe := by unfold fOf at hdoe; omega
  have h1 : doe < 146097 := by unfold fOf at hdoe d2; omega
  obtain ⟨yoe', doy', mp', y0', y1', hdoy', d0', d1', hmp', m0', m1', e⟩ := civilOfEra_spec era doe h0 h1
  have u1 := yoe_unique doe yoe y0 y1 (by omega) (by omega)
  have u2 := yoe_unique doe yoe' y0' y1' (by omega) (by omega)
  have ey : yoe' = yoe := by omega
  subst ey
  have ed : doy' = (153 * mp + 2) / 5 + dd - 1 := by omega
  have em : mp' = mp := by omega
  subst em
  rw [e, ed]
  have : (153 * mp' + 2) / 5 + dd - 1 - (153 * mp' + 2) / 5 + 1 = dd := by omega
  rw [this]

/-- the March-based coordinates of a valid date satisfy what `civilOfEra_of` asks for -/
theorem valid_aux (y : Int) (m d : Nat) (hm1 : 1 ≤ m) (hm12 : m ≤ 12) (hd1 : 1 ≤ d) (hdm : d ≤ daysInMonth y m)
    (Y : Int) (hY : (if m ≤ 2 then y - 1 else y) = Y) (yoe : Int) (hyoe : yoe = Y - Y / 400 * 400) :
    0 ≤ mpOf m ∧ mpOf m ≤ 11 ∧
    (153 * mpOf m + 2) / 5 + (d : Int) - 1 < (153 * (mpOf m + 1) + 2) / 5 ∧
    (153 * mpOf m + 2) / 5 + (d : Int) - 1 < fOf (yoe + 1) - fOf yoe + (yoe + 1) / 400 ∧
    (if mpOf m < 10 then mpOf m + 3 else mpOf m - 9).toNat = m ∧
    Y + (if mpOf m < 10 then 0 else 1) = y := by
  have hm : m = 1 ∨ m = 2 ∨ m = 3 ∨ m = 4 ∨ m = 5 ∨ m = 6 ∨ m = 7 ∨ m = 8 ∨ m = 9 ∨ m = 10 ∨ m = 11 ∨ m = 12 := by
    omega
  unfold fOf
  rcases hm with rfl | rfl | rfl | rfl | rfl | rfl | rfl | rfl | rfl | rfl | rfl | rfl
  case inr.inl =>
    -- February
    have e : mpOf 2 = 11 := by decide
    simp only [daysInMonth] at hdm
    simp only [e]
    simp only [show ((2 : Nat) ≤ 2) = True from by simp, if_true] at hY
    by_cases lp : isLeap y = true
    · simp only [lp, if_true] at hdm
      rw [isLeap_iff] at lp
      refine ⟨by omega, by omega, by omega, by omega, by decide, by omega⟩
    · simp only [lp, Bool.false_eq_true, if_false] at hdm
      rw [isLeap_iff] at lp
      refine ⟨by omega, by omega, by omega, by omega, by decide, by omega⟩
  all_goals
    simp [daysInMonth] at hdm
    simp at hY
    simp [mpOf]
    omega

/-- round trip date → days → date for every date of the calendar -/
theorem civil_days_roundtrip' (y : Int) (m d : Nat) (hm1 : 1 ≤ m) (hm12 : m ≤ 12) (hd1 : 1 ≤ d)
    (hdm : d ≤ daysInMonth y m) : civilFromDays (daysFromCivil y m d) = (y, m, d) := by
  generalize hY : (if m ≤ 2 then y - 1 else y) = Y
  generalize hyoe : Y - Y / 400 * 400 = yoe
  obtain ⟨m0, m1, d1, d2, em, ey⟩ := valid_aux y m d hm1 hm12 hd1 hdm Y hY yoe hyoe.symm
  have y0 : 0 ≤ yoe := by omega
  have y1 : yoe ≤ 399 := by omega
  have key : daysFromCivil y m d
      = Y / 400 * 146097 + (fOf yoe + ((153 * mpOf m + 2) / 5 + (d : Int) - 1)) - 719468 := by
    unfold daysFromCivil fOf mpOf
    simp only [hY, hyoe]
    generalize (153 * (if m > 2 then (m : Int) - 3 else (m : Int) + 9) + 2) / 5 = q
    omega
  have c := civilOfEra_of (Y / 400) yoe (mpOf m) d y0 y1 m0 m1 (by omega) d1 d2
  generalize hdoe : fOf yoe + ((153 * mpOf m + 2) / 5 + (d : Int) - 1) = doe at key c
  have h0 : 0 ≤ doe := by unfold fOf at hdoe; omega
  have h1 : doe < 146097 := by unfold fOf at hdoe d2; omega
  rw [civilFromDays_eq, key]
  have e1 : (Y / 400 * 146097 + doe - 719468 + 719468) / 146097 = Y / 400 := by omega
  have e2 : Y / 400 * 146097 + doe - 719468 + 719468 - Y / 400 * 146097 = doe := by omega
  rw [e1, e2, c, em]
  have e3 : yoe + Y / 400 * 400 + (if mpOf m < 10 then 0 else 1) = y := by omega
  rw [e3]
  simp

/-! ### order -/

/-- the lexicographic (= chronological) order on (year, month, day) -/
def dateLt (a b : Int × Nat × Nat) : Prop :=
  a.1 < b.1 ∨ (a.1 = b.1 ∧ (a.2.1 < b.2.1 ∨ (a.2.1 = b.2.1 ∧ a.2.2 < b.2.2)))

instance (a b : Int × Nat × Nat) : Decidable (dateLt a b) := by unfold dateLt; infer_instance

theorem gOf_mono (a b : Int) (h : a ≤ b) : gOf a ≤ gOf b := by
  unfold gOf; omega

/-- March-based coordinates of a valid date: the day count, the position of the month on the month line, and the
room the day of the year leaves before the next month and the next year -/
theorem date_summary (y : Int) (m d : Nat) (hv : validDate (y, m, d)) :
    ∃ Y mp : Int, daysFromCivil y m d = gOf Y + ((153 * mp + 2) / 5 + (d : Int) - 1) - 719468 ∧
      0 ≤ mp ∧ mp ≤ 11 ∧ 12 * Y + mp = 12 * y + (m : Int) - 3 ∧ 1 ≤ d ∧
      (153 * mp + 2) / 5 + (d : Int) - 1 < (153 * (mp + 1) + 2) / 5 ∧
      (153 * mp + 2) / 5 + (d : Int) - 1 < gOf (Y + 1) - gOf Y := by
  obtain ⟨hm1, hm12, hd1, hdm⟩ := hv
  simp only [] at hm1 hm12 hd1 hdm
  generalize hY : (if m ≤ 2 then y - 1 else y) = Y
  generalize hyoe : Y - Y / 400 * 400 = yoe
  obtain ⟨m0, m1, d1, d2, em, ey⟩ := valid_aux y m d hm1 hm12 hd1 hdm Y hY yoe hyoe.symm
  refine ⟨Y, mpOf m, ?_, m0, m1, ?_, hd1, d1, ?_⟩
  · rw [daysFromCivil_eq, hY]; omega
  · by_cases c : mpOf m < 10
    · simp only [c, if_true] at em ey; omega
    · simp only [c, if_false] at em ey; omega
  · have y0 : 0 ≤ yoe := by omega
    have y1 : yoe ≤ 399 := by omega
    have g1 := gOf_era (Y / 400) yoe y0 y1
    have e : yoe + Y / 400 * 400 = Y := by omega
    rw [e] at g1
    by_cases c : yoe = 399
    · have g2 := gOf_era (Y / 400 + 1) 0 (by omega) (by omega)
      have e2 : 0 + (Y / 400 + 1) * 400 = Y + 1 := by omega
      rw [e2] at g2
      unfold fOf at *
      omega
    · have g2 := gOf_era (Y / 400) (yoe + 1) (by omega) (by omega)
      have e2 : yoe + 1 + Y / 400 * 400 = Y + 1 := by omega
      rw [e2] at g2
      unfold fOf at *
      omega

/-- `daysFromCivil` is strictly monotone on the dates of the calendar -/
theorem daysFromCivil_lt (a b : Int × Nat × Nat) (va : validDate a) (vb : validDate b) (h : dateLt a b) :
    daysFromCivil a.1 a.2.1 a.2.2 < daysFromCivil b.1 b.2.1 b.2.2 := by
  obtain ⟨ya, ma, da⟩ := a
  obtain ⟨yb, mb, db⟩ := b
  obtain ⟨Ya, pa, ea, a0, a1, ka, a2, a3, a4⟩ := date_summary ya ma da va
  obtain ⟨Yb, pb, eb, b0, b1, kb, b2, b3, b4⟩ := date_summary yb mb db vb
  obtain ⟨_, hma, _, _⟩ := va
  obtain ⟨hmb, _, _, _⟩ := vb
  unfold dateLt at h
  simp only [] at h hma hmb ⊢
  rw [ea, eb]
  have hq0 : 0 ≤ (153 * pb + 2) / 5 := by omega
  by_cases c1 : Ya < Yb
  · have := gOf_mono (Ya + 1) Yb (by omega)
    omega
  · have eY : Ya = Yb := by omega
    subst eY
    by_cases c2 : pa < pb
    · have : (153 * (pa + 1) + 2) / 5 ≤ (153 * pb + 2) / 5 := by omega
      omega
    · have eP : pa = pb := by omega
      subst eP
      omega

/-! ### time of day and the six fields -/

theorem hms_spec (s : Int) (h0 : 0 ≤ s) (h1 : s < 86400) :
    (hms s).1 < 24 ∧ (hms s).2.1 < 60 ∧ (hms s).2.2 < 60 ∧
      ((hms s).1 : Int) * 3600 + ((hms s).2.1 : Int) * 60 + ((hms s).2.2 : Int) = s := by
  unfold hms; simp only []; omega

theorem fields_eq (t : Int) : fields t = ((civilFromDays (t / 86400)).1, (civilFromDays (t / 86400)).2.1,
    (civilFromDays (t / 86400)).2.2, (hms (t % 86400)).1, (hms (t % 86400)).2.1, (hms (t % 86400)).2.2) := rfl

theorem fields_injective' (t₁ t₂ : Int) (h : fields t₁ = fields t₂) : t₁ = t₂ := by
  rw [fields_eq, fields_eq] at h
  simp only [Prod.mk.injEq] at h
  obtain ⟨e1, e2, e3, e4, e5, e6⟩ := h
  have r1 := days_civil_roundtrip' (t₁ / 86400)
  have r2 := days_civil_roundtrip' (t₂ / 86400)
  rw [e1, e2, e3, r2] at r1
  have s1 := (hms_spec (t₁ % 86400) (by omega) (by omega)).2.2.2
  have s2 := (hms_spec (t₂ % 86400) (by omega) (by omega)).2.2.2
  rw [e4, e5, e6, s2] at s1
  omega

/-! ### the texts on characters -/

/-- four decimal digit characters of a number below 10000 -/
def pad4Chars (n : Nat) : List Char :=
  [Nat.digitChar (n / 1000), Nat.digitChar (n / 100 % 10), Nat.digitChar (n / 10 % 10), Nat.digitChar (n % 10)]

theorem toDigits_lt_10000 (n : Nat) (h : n < 10000) : Nat.toDigits 10 n =
    if n < 10 then [Nat.digitChar n]
    else if n < 100 then [Nat.digitChar (n / 10), Nat.digitChar (n % 10)]
    else if n < 1000 then [Nat.digitChar (n / 100), Nat.digitChar (n / 10 % 10), Nat.digitChar (n % 10)]
    else pad4Chars n := by
  by_cases c1 : n < 10
  · simp [c1, Nat.toDigits_of_lt_base c1]
  · rw [Nat.toDigits_of_base_le (by omega) (by omega : 10 ≤ n)]
    by_cases c2 : n < 100
    · have : n / 10 < 10 := by omega
      simp [c1, c2, Nat.toDigits_of_lt_base this]
    · rw [Nat.toDigits_of_base_le (by omega) (by omega : 10 ≤ n / 10)]
      by_cases c3 : n < 1000
      · have : n / 100 < 10 := by omega
        have e : n / 10 / 10 = n / 100 := by omega
        simp [c1, c2, c3, Nat.toDigits_of_lt_base this, e]
      · rw [Nat.toDigits_of_base_le (by omega) (by omega : 10 ≤ n / 10 / 10)]
        have : n / 1000 < 10 := by omega
        have e : n / 10 / 10 / 10 = n / 1000 := by omega
        have e' : n / 10 / 10 % 10 = n / 100 % 10 := by omega
        simp [c1, c2, c3, Nat.toDigits_of_lt_base this, e, e', pad4Chars]

theorem pad4_toList (y : Int) (h0 : 0 ≤ y) (h1 : y ≤ 9999) : (pad4 y).toList = pad4Chars y.toNat := by
  obtain ⟨n, rfl⟩ := Int.eq_ofNat_of_zero_le h0
  have hn : n < 10000 := by omega
  unfold pad4
  have e0 : ¬ ((n : Int) < 0) := by omega
  simp only [e0, if_false, Int.natAbs_natCast, Int.toNat_natCast]
  have hd : (toString n).toList = Nat.toDigits 10 n := by simp
  simp only [String.toList_append, hd, toDigits_lt_10000 n hn]
  have z : Nat.digitChar 0 = '0' := rfl
  by_cases c1 : n < 10
  · have a1 : n / 1000 = 0 := by omega
    have a2 : n / 100 % 10 = 0 := by omega
    have a3 : n / 10 % 10 = 0 := by omega
    have a4 : n % 10 = n := by omega
    simp [c1, pad4Chars, a1, a2, a3, a4]
  · by_cases c2 : n < 100
    · have a1 : n / 1000 = 0 := by omega
      have a2 : n / 100 % 10 = 0 := by omega
      have a3 : n / 10 % 10 = n / 10 := by omega
      simp [c1, c2, pad4Chars, a1, a2, a3]
    · by_cases c3 : n < 1000
      · have a1 : n / 1000 = 0 := by omega
        have a2 : n / 100 % 10 = n / 100 := by omega
        simp [c1, c2, c3, pad4Chars, a1, a2]
      · simp [c1, c2, c3]

theorem pad4Chars_inj (n m : Nat) (hn : n < 10000) (hm : m < 10000) (e : pad4Chars n = pad4Chars m) : n = m := by
  simp only [pad4Chars, List.cons.injEq, and_true] at e
  have e1 := Time.digitChar_inj _ _ (by omega) (by omega) e.1
  have e2 := Time.digitChar_inj _ _ (by omega) (by omega) e.2.1
  have e3 := Time.digitChar_inj _ _ (by omega) (by omega) e.2.2.1
  have e4 := Time.digitChar_inj _ _ (by omega) (by omega) e.2.2.2
  omega

theorem daysInMonth_le (y : Int) (m : Nat) : daysInMonth y m ≤ 31 := by
  unfold daysInMonth
  split <;> (try split) <;> omega

/-- ranges of the six fields of any second count -/
theorem fields_ranges (t : Int) : 1 ≤ (fields t).2.1 ∧ (fields t).2.1 ≤ 12 ∧ 1 ≤ (fields t).2.2.1 ∧
    (fields t).2.2.1 ≤ 31 ∧ (fields t).2.2.2.1 < 24 ∧ (fields t).2.2.2.2.1 < 60 ∧ (fields t).2.2.2.2.2 < 60 := by
  rw [fields_eq]
  obtain ⟨v1, v2, v3, v4⟩ := civilFromDays_valid (t / 86400)
  have v5 := daysInMonth_le (civilFromDays (t / 86400)).1 (civilFromDays (t / 86400)).2.1
  obtain ⟨s1, s2, s3, _⟩ := hms_spec (t % 86400) (by omega) (by omega)
  simp only []
  exact ⟨v1, v2, v3, by omega, s1, s2, s3⟩

/-- the stamp "YYYY-MM-DD_HHMMSS" on characters -/
def stampChars (f : Int × Nat × Nat × Nat × Nat × Nat) : List Char :=
  pad4Chars f.1.toNat ++ '-' :: (pad2Chars f.2.1 ++ '-' :: (pad2Chars f.2.2.1 ++ '_' :: (pad2Chars f.2.2.2.1 ++
    (pad2Chars f.2.2.2.2.1 ++ pad2Chars f.2.2.2.2.2))))

theorem stampOfEpoch_toList (t : Int) (h0 : 0 ≤ (fields t).1) (h1 : (fields t).1 ≤ 9999) :
    (stampOfEpoch t).toList = stampChars (fields t) := by
  obtain ⟨r1, r2, r3, r4, r5, r6, r7⟩ := fields_ranges t
  unfold stampOfEpoch stampChars
  simp only [String.toList_append, pad4_toList _ h0 h1, Time.pad2_toList _ (by omega : (fields t).2.1 < 100),
    Time.pad2_toList _ (by omega : (fields t).2.2.1 < 100), Time.pad2_toList _ (by omega : (fields t).2.2.2.1 < 100),
    Time.pad2_toList _ (by omega : (fields t).2.2.2.2.1 < 100),
    Time.pad2_toList _ (by omega : (fields t).2.2.2.2.2 < 100)]
  simp [pad4Chars, pad2Chars]

theorem stampChars_inj (f g : Int × Nat × Nat × Nat × Nat × Nat)
    (f0 : 0 ≤ f.1) (f1 : f.1 ≤ 9999) (f2 : f.2.1 < 100) (f3 : f.2.2.1 < 100) (f4 : f.2.2.2.1 < 100)
    (f5 : f.2.2.2.2.1 < 100) (f6 : f.2.2.2.2.2 < 100)
    (g0 : 0 ≤ g.1) (g1 : g.1 ≤ 9999) (g2 : g.2.1 < 100) (g3 : g.2.2.1 < 100) (g4 : g.2.2.2.1 < 100)
    (g5 : g.2.2.2.2.1 < 100) (g6 : g.2.2.2.2.2 < 100)
    (e : stampChars f = stampChars g) : f = g := by
  obtain ⟨fy, fm, fd, fh, fi, fs⟩ := f
  obtain ⟨gy, gm, gd, gh, gi, gs⟩ := g
  simp only [] at *
  have ey : pad4Chars fy.toNat = pad4Chars gy.toNat := by
    simp only [stampChars, pad4Chars, pad2Chars, List.cons_append, List.nil_append, List.cons.injEq] at e
    simp only [pad4Chars, List.cons.injEq, and_true]
    exact ⟨e.1, e.2.1, e.2.2.1, e.2.2.2.1⟩
  have e1 := pad4Chars_inj _ _ (by omega) (by omega) ey
  have ep : pad2Chars fm = pad2Chars gm ∧ pad2Chars fd = pad2Chars gd ∧ pad2Chars fh = pad2Chars gh ∧
      pad2Chars fi = pad2Chars gi ∧ pad2Chars fs = pad2Chars gs := by
    simp only [stampChars, pad4Chars, pad2Chars, List.cons_append, List.nil_append, List.cons.injEq, and_true,
      true_and] at e ⊢
    obtain ⟨_, _, _, _, a1, a2, b1, b2, c1, c2, d1, d2, x1, x2⟩ := e
    exact ⟨⟨a1, a2⟩, ⟨b1, b2⟩, ⟨c1, c2⟩, ⟨d1, d2⟩, ⟨x1, x2⟩⟩
  obtain ⟨p1, p2, p3, p4, p5⟩ := ep
  have e2 := Time.pad2Chars_inj _ _ f2 g2 p1
  have e3 := Time.pad2Chars_inj _ _ f3 g3 p2
  have e4 := Time.pad2Chars_inj _ _ f4 g4 p3
  have e5 := Time.pad2Chars_inj _ _ f5 g5 p4
  have e6 := Time.pad2Chars_inj _ _ f6 g6 p5
  have e1' : fy = gy := by omega
  subst e1' e2 e3 e4 e5 e6
  rfl

end MhlModel.Civil
