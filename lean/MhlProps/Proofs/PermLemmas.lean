/-
Lemmas for C13 (independence of the OS listing order): sorting by a key with distinct values is canonical,
`Node.PermEq` preserves names / kinds / histories / distinctness of sibling names, `findChild` and `Node.at?` under
permutations, `traverse`, `findChildren`.
-/
import MhlProps.Proofs.TraverseLemmas
import MhlProps.C07
import MhlModel.Commands

namespace MhlModel

/-! ## sorting by a string key -/

theorem eq_of_key_eq_of_nodup {α : Type} (key : α → String) {l : List α} (hnd : (l.map key).Nodup)
    {a b : α} (ha : a ∈ l) (hb : b ∈ l) (hk : key a = key b) : a = b := by
  induction l with
  | nil => simp at ha
  | cons x xs ih =>
    simp only [List.map_cons, List.nodup_cons, List.mem_map, not_exists, not_and] at hnd
    rcases List.mem_cons.1 ha with e₁ | ha <;> rcases List.mem_cons.1 hb with e₂ | hb
    · rw [e₁, e₂]
    · exact absurd (e₁ ▸ hk).symm (hnd.1 b hb)
    · exact absurd (e₂ ▸ hk) (hnd.1 a ha)
    · exact ih hnd.2 ha hb

/-- sorting by a string key is canonical on lists whose keys are pairwise distinct: the result depends only on the
set of elements -/
theorem isort_key_eq_of_perm {α : Type} (key : α → String) {l₁ l₂ : List α} (hp : l₁.Perm l₂)
    (hnd : (l₁.map key).Nodup) :
    isort (fun a b => strLe (key a) (key b)) l₁ = isort (fun a b => strLe (key a) (key b)) l₂ := by
  have tot : ∀ a b : α, strLe (key a) (key b) = true ∨ strLe (key b) (key a) = true :=
    fun a b => strLe_total _ _
  have tr : ∀ a b c : α, strLe (key a) (key b) = true → strLe (key b) (key c) = true →
      strLe (key a) (key c) = true := fun a b c => strLe_trans _ _ _
  refine List.Perm.eq_of_pairwise (le := fun x y => strLe (key x) (key y) = true) ?_
    (isort_pairwise_d _ tot tr l₁) (isort_pairwise_d _ tot tr l₂)
    ((isort_perm_d _ l₁).trans (hp.trans (isort_perm_d _ l₂).symm))
  intro a b ha hb hab hba
  have ha' : a ∈ l₁ := (mem_isort_d _ _ _).1 ha
  have hb' : b ∈ l₁ := hp.mem_iff.2 ((mem_isort_d _ _ _).1 hb)
  exact eq_of_key_eq_of_nodup key hnd ha' hb' (strLe_antisymm _ _ hab hba)

/-- the sorted list is sorted -/
theorem isort_key_sorted {α : Type} (key : α → String) (l : List α) :
    (isort (fun a b => strLe (key a) (key b)) l).Pairwise (fun a b => strLe (key a) (key b) = true) :=
  isort_pairwise_d (fun a b => strLe (key a) (key b)) (fun a b => strLe_total (key a) (key b))
    (fun a b c => strLe_trans (key a) (key b) (key c)) l

/-! ## what `PermEq` preserves -/

theorem PermEq.isDir_eq {a b : Node} (h : Node.PermEq a b) : a.isDir = b.isDir := by
  induction h with
  | refl => rfl
  | trans _ _ ih₁ ih₂ => exact ih₁.trans ih₂
  | perm => rfl
  | congr => rfl

theorem PermEq.hist_eq {a b : Node} (h : Node.PermEq a b) : a.hist = b.hist := by
  induction h with
  | refl => rfl
  | trans _ _ ih₁ ih₂ => exact ih₁.trans ih₂
  | perm => rfl
  | congr => rfl

theorem PermEq.name_eq' {a b : Node} (h : Node.PermEq a b) : a.name = b.name :=
  MhlProps.C07.PermEq.name_eq h

theorem PermEq.symm' {a b : Node} (h : Node.PermEq a b) : Node.PermEq b a :=
  MhlProps.C07.PermEq.symm h

/-- a file is only related to itself -/
theorem PermEq.eq_of_file {a b : Node} (h : Node.PermEq a b) : a.isDir = false → a = b := by
  induction h with
  | refl => intro _; rfl
  | trans h₁ _ ih₁ ih₂ =>
    intro hf
    have := ih₁ hf
    subst this
    exact ih₂ hf
  | perm => intro hf; simp [Node.isDir] at hf
  | congr => intro hf; simp [Node.isDir] at hf

theorem PermEq.namesDistinct {a b : Node} (h : Node.PermEq a b) : a.NamesDistinct → b.NamesDistinct := by
  induction h with
  | refl => exact id
  | trans _ _ ih₁ ih₂ => exact fun hd => ih₂ (ih₁ hd)
  | perm n h hp =>
    intro hd
    rw [Node.namesDistinct_dir] at hd ⊢
    exact ⟨(hp.map Node.name).nodup_iff.1 hd.1, fun c hc => hd.2 c (hp.mem_iff.2 hc)⟩
  | @congr n pre post h a b hab ih =>
    intro hd
    rw [Node.namesDistinct_dir] at hd ⊢
    refine ⟨?_, ?_⟩
    · simpa [PermEq.name_eq' hab] using hd.1
    · intro c hc
      simp only [List.mem_append, List.mem_cons] at hc
      rcases hc with hc | rfl | hc
      · exact hd.2 c (by simp [hc])
      · exact ih (hd.2 a (by simp))
      · exact hd.2 c (by simp [hc])

/-! ## `findChild` and `Node.at?` -/

theorem findChild_none_iff (cs : List Node) (m : String) :
    findChild cs m = none ↔ ∀ c ∈ cs, c.name ≠ m := by
  simp [findChild]

theorem findChild_perm {cs₁ cs₂ : List Node} (hp : cs₁.Perm cs₂) (hnd : (cs₁.map Node.name).Nodup)
    (m : String) : findChild cs₁ m = findChild cs₂ m := by
  cases h : findChild cs₁ m with
  | none =>
    rw [findChild_none_iff] at h
    exact ((findChild_none_iff cs₂ m).2 fun c hc => h c (hp.mem_iff.2 hc)).symm
  | some c =>
    obtain ⟨hc, rfl⟩ := findChild_some h
    exact (findChild_of_mem ((hp.map Node.name).nodup_iff.1 hnd) (hp.mem_iff.1 hc)).symm

theorem findChild_append (l₁ l₂ : List Node) (m : String) :
    findChild (l₁ ++ l₂) m = (findChild l₁ m).or (findChild l₂ m) := by
  simp [findChild, List.find?_append]

theorem findChild_cons (c : Node) (cs : List Node) (m : String) :
    findChild (c :: cs) m = if c.name == m then some c else findChild cs m := by
  simp [findChild, List.find?_cons]
  split <;> simp_all

/-- two optional nodes are both absent, or both present and related -/
def OptPermEq : Option Node → Option Node → Prop
  | none, none => True
  | some x, some y => Node.PermEq x y
  | _, _ => False

theorem OptPermEq.refl (x : Option Node) : OptPermEq x x := by
  cases x with
  | none => trivial
  | some x => exact Node.PermEq.refl x

theorem OptPermEq.trans {x y z : Option Node} (h₁ : OptPermEq x y) (h₂ : OptPermEq y z) : OptPermEq x z := by
  cases x <;> cases y <;> cases z <;> simp_all [OptPermEq]
  exact Node.PermEq.trans h₁ h₂

theorem at?_permEq {a b : Node} (hab : Node.PermEq a b) :
    a.NamesDistinct → ∀ p, OptPermEq (a.at? p) (b.at? p) := by
  induction hab with
  | refl => intro _ p; exact OptPermEq.refl _
  | trans h₁ _ ih₁ ih₂ =>
    intro hd p
    exact (ih₁ hd p).trans (ih₂ (PermEq.namesDistinct h₁ hd) p)
  | @perm n cs₁ cs₂ h hp =>
    intro hd p
    rw [Node.namesDistinct_dir] at hd
    cases p with
    | nil => exact Node.PermEq.perm n h hp
    | cons m rest =>
      rw [Node.at?_dir_cons, Node.at?_dir_cons, findChild_perm hp hd.1 m]
      exact OptPermEq.refl _
  | @congr n pre post h a b hab ih =>
    intro hd p
    rw [Node.namesDistinct_dir] at hd
    cases p with
    | nil => exact Node.PermEq.congr n pre post h hab
    | cons m rest =>
      rw [Node.at?_dir_cons, Node.at?_dir_cons, findChild_append, findChild_append, findChild_cons,
        findChild_cons, ← PermEq.name_eq' hab]
      cases findChild pre m with
      | some c => exact OptPermEq.refl _
      | none =>
        simp only [Option.none_or]
        split
        · exact ih (hd.2 a (by simp)) rest
        · exact OptPermEq.refl _

/-! ## the traversal -/

theorem kidOf_name (hit : RelPath → Bool) (here : RelPath) (c : Node) : (kidOf hit here c).name = c.name := rfl

theorem visKids_perm_eq (hit : RelPath → Bool) (here : RelPath) {cs₁ cs₂ : List Node} (hp : cs₁.Perm cs₂)
    (hnd : (cs₁.map Node.name).Nodup) : visKids hit here cs₁ = visKids hit here cs₂ := by
  unfold visKids
  rw [isort_key_eq_of_perm Kid.name (hp.map (kidOf hit here))]
  simpa [Function.comp_def, kidOf_name] using hnd

theorem traverse_perm_top (hit : RelPath → Bool) (here : RelPath) (n : String) {cs₁ cs₂ : List Node}
    (h : Option HistStore) (hp : cs₁.Perm cs₂) (hnd : (cs₁.map Node.name).Nodup) :
    traverse hit here (.dir n cs₁ h) = traverse hit here (.dir n cs₂ h) := by
  rw [traverse_dir, traverse_dir, visKids_perm_eq hit here hp hnd]

theorem traverse_permEq (hit : RelPath → Bool) {a b : Node} (hab : Node.PermEq a b) :
    a.NamesDistinct → ∀ here, traverse hit here a = traverse hit here b := by
  induction hab with
  | refl => intro _ _; rfl
  | trans h₁ _ ih₁ ih₂ =>
    intro hd here
    exact (ih₁ hd here).trans (ih₂ (PermEq.namesDistinct h₁ hd) here)
  | @perm n cs₁ cs₂ h hp =>
    intro hd here
    rw [Node.namesDistinct_dir] at hd
    exact traverse_perm_top hit here n h hp hd.1
  | @congr n pre post h a b hab ih =>
    intro hd here
    rw [Node.namesDistinct_dir] at hd
    have hk : kidOf hit here a = kidOf hit here b := by
      simp only [kidOf, PermEq.name_eq' hab, PermEq.isDir_eq hab]
      rw [← PermEq.name_eq' hab, ih (hd.2 a (by simp))]
    rw [traverse_dir, traverse_dir]
    simp only [visKids, List.map_append, List.map_cons, hk]

end MhlModel

namespace MhlModel

/-! ## loading histories -/

/-- what one child contributes to `findChildrenList`: its name and the child histories found at or below it, or the
first problem there (the anonymous `match` of `findChildrenList`) -/
def childPair (here : RelPath) (c : Node) : String × Except Err (List Hist) :=
  (c.name,
    match c.hist with
    | some s => do
      checkStore (some s)
      let kids ← findChildren (here ++ [c.name]) c
      pure [buildHist (here ++ [c.name]) (some s) kids]
    | none => findChildren (here ++ [c.name]) c)

theorem findChildrenList_eq_map (here : RelPath) (cs : List Node) :
    findChildrenList here cs = cs.map (childPair here) := by
  induction cs with
  | nil => rw [findChildrenList]; rfl
  | cons c cs ih => rw [findChildrenList, ih]; rfl

theorem findChildren_dir (here : RelPath) (n : String) (cs : List Node) (h : Option HistStore) :
    findChildren here (.dir n cs h) =
      ((isort (fun (a b : String × Except Err (List Hist)) => strLe a.1 b.1) (cs.map (childPair here))).mapM
        fun (x : String × Except Err (List Hist)) => x.2).map List.flatten := by
  rw [findChildren, findChildrenList_eq_map]

theorem findChildren_perm_top (here : RelPath) (n : String) {cs₁ cs₂ : List Node} (h : Option HistStore)
    (hp : cs₁.Perm cs₂) (hnd : (cs₁.map Node.name).Nodup) :
    findChildren here (.dir n cs₁ h) = findChildren here (.dir n cs₂ h) := by
  rw [findChildren_dir, findChildren_dir,
    isort_key_eq_of_perm (Prod.fst : String × Except Err (List Hist) → String) (hp.map (childPair here))]
  simpa [Function.comp_def, childPair] using hnd

/-- a node related to a directory is a directory with the same name and the same `ascmhl` folder -/
theorem PermEq.dir_inv {n : String} {cs : List Node} {h : Option HistStore} {b : Node}
    (hab : Node.PermEq (.dir n cs h) b) : ∃ cs', b = .dir n cs' h := by
  have h1 := PermEq.name_eq' hab
  have h2 := PermEq.isDir_eq hab
  have h3 := PermEq.hist_eq hab
  cases b with
  | file _ _ => simp [Node.isDir] at h2
  | dir n' cs' h' =>
    simp only [Node.name, Node.hist] at h1 h3
    subst h1; subst h3
    exact ⟨cs', rfl⟩

theorem findChildren_permEq {a b : Node} (hab : Node.PermEq a b) :
    a.NamesDistinct → ∀ here, findChildren here a = findChildren here b := by
  induction hab with
  | refl => intro _ _; rfl
  | trans h₁ _ ih₁ ih₂ =>
    intro hd here
    exact (ih₁ hd here).trans (ih₂ (PermEq.namesDistinct h₁ hd) here)
  | @perm n cs₁ cs₂ h hp =>
    intro hd here
    rw [Node.namesDistinct_dir] at hd
    exact findChildren_perm_top here n h hp hd.1
  | @congr n pre post h a b hab ih =>
    intro hd here
    rw [Node.namesDistinct_dir] at hd
    have hk : childPair here a = childPair here b := by
      simp only [childPair, PermEq.name_eq' hab, PermEq.hist_eq hab]
      rw [← PermEq.name_eq' hab, ih (hd.2 a (by simp))]
    rw [findChildren_dir, findChildren_dir]
    simp only [List.map_append, List.map_cons, hk]

/-- loading the histories does not depend on the listing order: same history, or same error -/
theorem loadHistory_permEq {a b : Node} (hab : Node.PermEq a b) (hd : a.NamesDistinct) :
    loadHistory a = loadHistory b := by
  rw [loadHistory, loadHistory, PermEq.hist_eq hab, findChildren_permEq hab hd]

end MhlModel

namespace MhlModel

/-! ## the commands look at the tree only through `traverse`, `fileContent`, `Node.at?` and `loadHistory` -/

theorem Node.NamesDistinct.at? (t : Node) : ∀ (p : RelPath) (x : Node), t.NamesDistinct → t.at? p = some x →
    x.NamesDistinct := by
  induction t using Node.induct with
  | file n c =>
    intro p x hd hx
    cases p with
    | nil => simp [Node.at?] at hx; subst hx; exact hd
    | cons m rest => simp [Node.at?] at hx
  | dir n cs h ih =>
    intro p x hd hx
    cases p with
    | nil => simp [Node.at?] at hx; subst hx; exact hd
    | cons m rest =>
      rw [Node.namesDistinct_dir] at hd
      rw [Node.at?_dir_cons] at hx
      cases hf : findChild cs m with
      | none => simp [hf] at hx
      | some c =>
        simp only [hf, Option.bind_some] at hx
        exact ih c (findChild_some hf).1 rest x (hd.2 c (findChild_some hf).1) hx

/-- what the commands see of the node at a path: related nodes are equal or both directories with the same name and
the same `ascmhl` folder -/
theorem at?_view {a b : Node} (hab : Node.PermEq a b) (hd : a.NamesDistinct) (p : RelPath) :
    a.at? p = b.at? p ∨ ∃ n cs cs' h, a.at? p = some (.dir n cs h) ∧ b.at? p = some (.dir n cs' h) ∧
      Node.PermEq (.dir n cs h) (.dir n cs' h) := by
  have := at?_permEq hab hd p
  cases ha : a.at? p with
  | none =>
    cases hb : b.at? p with
    | none => exact Or.inl rfl
    | some y => simp [ha, hb, OptPermEq] at this
  | some x =>
    cases hb : b.at? p with
    | none => simp [ha, hb, OptPermEq] at this
    | some y =>
      rw [ha, hb] at this
      have h : Node.PermEq x y := this
      cases x with
      | file n c =>
        have := PermEq.eq_of_file h rfl
        subst this; exact Or.inl rfl
      | dir n cs hh =>
        obtain ⟨cs', rfl⟩ := PermEq.dir_inv h
        exact Or.inr ⟨n, cs, cs', hh, rfl, rfl, h⟩

theorem fileContent_perm {a b : Node} (hab : Node.PermEq a b) (hd : a.NamesDistinct) :
    fileContent a = fileContent b := by
  funext p
  have := at?_permEq hab hd p
  unfold fileContent
  cases ha : a.at? p with
  | none =>
    cases hb : b.at? p with
    | none => rfl
    | some y => simp [ha, hb, OptPermEq] at this
  | some x =>
    cases hb : b.at? p with
    | none => simp [ha, hb, OptPermEq] at this
    | some y =>
      rw [ha, hb] at this
      have h : Node.PermEq x y := this
      cases x with
      | file n c =>
        have := PermEq.eq_of_file h rfl
        subst this; rfl
      | dir n cs hh =>
        obtain ⟨cs', rfl⟩ := PermEq.dir_inv h
        rfl

theorem visiblePaths_perm (hit : RelPath → Bool) {a b : Node} (hab : Node.PermEq a b) (hd : a.NamesDistinct) :
    visiblePaths hit a = visiblePaths hit b := by
  unfold visiblePaths
  rw [traverse_permEq hit hab hd]

theorem judgeFile_perm (env : Env) {a b : Node} (hab : Node.PermEq a b) (hd : a.NamesDistinct) :
    judgeFile env a = judgeFile env b := by
  funext rootHist hashing p
  unfold judgeFile
  rw [fileContent_perm hab hd]

theorem verifyOrDiff_of_load (env : Env) {a b : Node} (hab : Node.PermEq a b) (hd : a.NamesDistinct)
    (o : VerifyOpts) (hashing : Bool) (pl : Option Generation) (hl : loadHistory a = loadHistory b) :
    verifyOrDiff env a o hashing pl = verifyOrDiff env b o hashing pl := by
  unfold verifyOrDiff
  simp only [hl, judgeFile_perm env hab hd, visiblePaths_perm _ hab hd]

theorem dhVisit_perm (env : Env) {a b : Node} (hab : Node.PermEq a b) (hd : a.NamesDistinct) :
    dhVisit env a = dhVisit env b := by
  funext rootHist fmts o st v
  unfold dhVisit
  rw [fileContent_perm hab hd]

theorem createVisit_perm (env : Env) {a b : Node} (hab : Node.PermEq a b) (hd : a.NamesDistinct) :
    createVisit env a = createVisit env b := by
  funext rootHist fmts noDir st v
  unfold createVisit
  rw [fileContent_perm hab hd]

theorem verifyDh_of_load (env : Env) {a b : Node} (hab : Node.PermEq a b) (hd : a.NamesDistinct)
    (o : DhOpts) (hl : loadHistory a = loadHistory b) :
    verifyDh env a o = verifyDh env b o := by
  unfold verifyDh
  simp only [hl, dhVisit_perm env hab hd, traverse_permEq _ hab hd]

theorem detectRenames_perm (env : Env) {a b : Node} (hab : Node.PermEq a b) (hd : a.NamesDistinct) :
    detectRenames env a = detectRenames env b := by
  funext rootHist s newPaths notFound
  unfold detectRenames
  congr 1
  funext acc np
  rcases at?_view hab hd np with h | ⟨n, cs, cs', h, h1, h2, -⟩
  · rw [h]
  · rw [h1, h2]

theorem missingHist_perm {a b : Node} (hab : Node.PermEq a b) (hd : a.NamesDistinct) :
    (fun (ref : String) =>
          createFolder.match_1 (fun _ => Option RelPath) (a.at? (splitPath ref).dropLast.dropLast)
            (fun n => if n.hist.isSome then none else some (splitPath ref).dropLast.dropLast)
            (fun _ => some (splitPath ref).dropLast.dropLast)) =
    (fun (ref : String) =>
          createFolder.match_1 (fun _ => Option RelPath) (b.at? (splitPath ref).dropLast.dropLast)
            (fun n => if n.hist.isSome then none else some (splitPath ref).dropLast.dropLast)
            (fun _ => some (splitPath ref).dropLast.dropLast)) := by
  funext ref
  rcases at?_view hab hd (splitPath ref).dropLast.dropLast with h | ⟨n, cs, cs', h, h1, h2, -⟩
  · rw [h]
  · rw [h1, h2]; rfl

theorem createFolder_of_load (env : Env) {a b : Node} (hab : Node.PermEq a b) (hd : a.NamesDistinct)
    (o : CreateOpts) (hl : loadHistory a = loadHistory b) :
    createFolder env a o = createFolder env b o := by
  unfold createFolder
  simp only [hl, createVisit_perm env hab hd, traverse_permEq _ hab hd, detectRenames_perm env hab hd,
    missingHist_perm hab hd]

theorem filesBelow_perm (hit : RelPath → Bool) {a b : Node} (hab : Node.PermEq a b) (hd : a.NamesDistinct) :
    filesBelow hit a = filesBelow hit b := by
  funext folder
  unfold filesBelow
  rcases at?_view hab hd folder with h | ⟨n, cs, cs', h, h1, h2, hp⟩
  · rw [h]
  · rw [h1, h2]
    simp only
    rw [traverse_permEq hit hp (Node.NamesDistinct.at? a folder _ hd h1)]

theorem targets_perm {a b : Node} (hab : Node.PermEq a b) (hd : a.NamesDistinct) (hit : RelPath → Bool) :
    (fun (acc : List RelPath) (p : RelPath) =>
      createSingleFiles.match_1 (fun _ => List RelPath) (a.at? p)
        (fun _ _ _ => List.foldl appendNew acc (filesBelow hit b p)) fun _ => appendNew acc p) =
    (fun (acc : List RelPath) (p : RelPath) =>
      createSingleFiles.match_1 (fun _ => List RelPath) (b.at? p)
        (fun _ _ _ => List.foldl appendNew acc (filesBelow hit b p)) fun _ => appendNew acc p) := by
  funext acc p
  rcases at?_view hab hd p with h | ⟨n, cs, cs', h, h1, h2, -⟩
  · rw [h]
  · rw [h1, h2]

theorem createSingleFiles_of_load (env : Env) {a b : Node} (hab : Node.PermEq a b) (hd : a.NamesDistinct)
    (o : CreateOpts) (hl : loadHistory a = loadHistory b) :
    createSingleFiles env a o = createSingleFiles env b o := by
  unfold createSingleFiles
  simp only [hl, fileContent_perm hab hd, filesBelow_perm _ hab hd, targets_perm hab hd]

theorem create_of_load (env : Env) {a b : Node} (hab : Node.PermEq a b) (hd : a.NamesDistinct)
    (o : CreateOpts) (hl : loadHistory a = loadHistory b) :
    create env a o = create env b o := by
  unfold create
  rw [createFolder_of_load env hab hd o hl, createSingleFiles_of_load env hab hd o hl]


theorem flatten_of_load (env : Env) {a b : Node} (ic ifl : List String) (hl : loadHistory a = loadHistory b) :
    flatten env a ic ifl = flatten env b ic ifl := by
  unfold flatten
  rw [hl]

theorem info_of_load {a b : Node} (hl : loadHistory a = loadHistory b) : info a = info b := by
  unfold info
  rw [hl]

end MhlModel
