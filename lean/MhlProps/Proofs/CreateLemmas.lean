/-
Lemmas for C02rec: folder-mode `create` on a tree with ONE history (no nested histories).
Routing without nested histories, injectivity of `posix`, the session as a single list under construction,
the effect of `createVisit` on the session, and the commit of a flat history.
-/
import MhlModel.Commands
import MhlProps.Proofs.SealLemmas
import MhlProps.Proofs.TraverseLemmas
import MhlProps.C04
import MhlProps.C02
import MhlProps.Proofs.LoadLemmas
import Mathlib.Data.List.Forall2
import Mathlib.Data.List.Perm.Basic
import Mathlib.Data.List.Nodup

namespace MhlModel

/-! ## A. no nested histories -/

theorem allDescendants_flat (h : Hist) (hc : h.children = []) : allDescendants h = [] := by
  cases h with
  | mk r g c e cs =>
    simp only [Hist.children] at hc
    subst hc
    simp [allDescendants, descList]

/-- with no nested histories every path is routed to the root history, unchanged -/
theorem route_flat (h : Hist) (hc : h.children = []) (p : RelPath) : route h p = (h, p) := by
  unfold route
  simp [allDescendants_flat h hc]

theorem parentRoot_flat (h : Hist) (hc : h.children = []) (r : RelPath) : parentRoot h r = none := by
  unfold parentRoot
  simp [allDescendants_flat h hc, hc]

theorem walkPost_flat (h : Hist) (hc : h.children = []) : walkPost h = [h] := by
  cases h with
  | mk r g c e cs =>
    simp only [Hist.children] at hc
    subst hc
    simp [walkPost, walkPostList]

/-! ## B. `posix` is injective on paths made of well-formed names -/

/-- a name that can be a path component without ambiguity in the POSIX text: no '/' inside, and not "." (the text of
the empty path).  (Non-emptiness is not needed for injectivity.) -/
def NameOk (s : String) : Prop := '/' ∉ s.toList ∧ s ≠ "."

instance : DecidablePred NameOk := fun s => inferInstanceAs (Decidable ('/' ∉ s.toList ∧ s ≠ "."))

theorem posix_nil : posix [] = "." := rfl

theorem posix_ne_nil {p : RelPath} (h : p ≠ []) : posix p = "/".intercalate p := by
  unfold posix
  cases p with
  | nil => exact absurd rfl h
  | cons a as => simp

theorem posix_toList_split {p : RelPath} (hne : p ≠ []) (hp : ∀ s ∈ p, '/' ∉ s.toList) :
    (posix p).toList.splitOn '/' = p.map String.toList := by
  rw [posix_ne_nil hne, String.toList_intercalate]
  have : ("/" : String).toList = ['/'] := by decide
  rw [this, List.splitOn_intercalate]
  · intro l hl
    obtain ⟨s, hs, rfl⟩ := List.mem_map.1 hl
    exact hp s hs
  · simpa using hne

theorem posix_eq_dot {p : RelPath} (hp : ∀ s ∈ p, NameOk s) : posix p = "." ↔ p = [] := by
  constructor
  · intro h
    by_cases hne : p = []
    · exact hne
    · exfalso
      have h1 := posix_toList_split hne (fun s hs => (hp s hs).1)
      rw [h] at h1
      have h2 : (".".toList.splitOn '/') = [['.']] := by decide
      rw [h2] at h1
      cases p with
      | nil => exact hne rfl
      | cons a as =>
        cases as with
        | nil =>
          simp only [List.map_cons, List.map_nil, List.cons.injEq, and_true] at h1
          have : a = "." := by
            apply String.toList_inj.1
            rw [← h1]; decide
          exact (hp a (by simp)).2 this
        | cons b bs => simp at h1
  · rintro rfl; rfl

theorem posix_inj {p q : RelPath} (hp : ∀ s ∈ p, NameOk s) (hq : ∀ s ∈ q, NameOk s)
    (h : posix p = posix q) : p = q := by
  by_cases hpe : p = []
  · subst hpe
    exact ((posix_eq_dot hq).1 h.symm).symm
  · by_cases hqe : q = []
    · subst hqe
      exact (posix_eq_dot hp).1 h
    · have h1 := posix_toList_split hpe (fun s hs => (hp s hs).1)
      have h2 := posix_toList_split hqe (fun s hs => (hq s hs).1)
      rw [h, h2] at h1
      exact ((List.map_inj_right (fun a b hab => String.toList_inj.1 hab)).1 h1).symm

/-! ## C. the session of a flat history: at most one list, the one of the root history -/

def Session.Flat (s : Session) : Prop := s.lists = [] ∨ ∃ nl, s.lists = [nl] ∧ nl.root = []

theorem NewList.update_root (nl : NewList) (p : String) (sz : Option Nat) (f : Record → Record) :
    (nl.update p sz f).root = nl.root := by
  unfold NewList.update
  split
  · rfl
  · split <;> rfl

theorem Session.flat_get_root (s : Session) (hs : s.Flat) : (s.get []).root = [] := by
  rcases hs with h | ⟨nl, h, hr⟩
  · simp [Session.get, h]
  · simp [Session.get, h, hr]

theorem Session.flat_put (s : Session) (hs : s.Flat) (nl' : NewList) (hr : nl'.root = []) :
    ((s.touch []).put nl').lists = [nl'] ∧ ((s.touch []).put nl').patterns = s.patterns ∧
      (s.touch []).get [] = s.get [] := by
  rcases hs with h | ⟨nl, h, hr'⟩
  · simp [Session.touch, Session.put, Session.get, h, hr]
  · simp [Session.touch, Session.put, Session.get, h, hr, hr']

theorem Session.get_single (s : Session) (nl : NewList) (h : s.lists = [nl]) (hr : nl.root = []) :
    s.get [] = nl := by
  simp [Session.get, h, hr]

/-- sealing one file into the session of a flat history: one update of the single list -/
theorem sealFile_flat (H : HashFn) (h : Hist) (hc : h.children = []) (hr : h.root = []) (s : Session)
    (hs : s.Flat) (p : RelPath) (c : Bytes) (fmts : List String)
    (hne : (sealEntries h.gens (posix p) (fun f => H f c) fmts).1 ≠ []) :
    (sealFile H h s p c fmts).1.lists =
        [(s.get []).update (posix p) (some c.length) fun r =>
          { r with entries := r.entries ++ (sealEntries h.gens (posix p) (fun f => H f c) fmts).1 }] ∧
      (sealFile H h s p c fmts).1.patterns = s.patterns := by
  unfold sealFile
  rw [route_flat h hc]
  dsimp only
  generalize sealEntries h.gens (posix p) (fun f => H f c) fmts = se at hne ⊢
  obtain ⟨ents, res⟩ := se
  dsimp only at hne ⊢
  have he : ents.isEmpty = false := by cases ents <;> simp_all
  rw [he]
  simp only [Bool.false_eq_true, if_false, hr]
  have hput := Session.flat_put s hs
    (((s.touch []).get []).update (posix p) (some c.length) fun r => { r with entries := r.entries ++ ents })
    (by rw [NewList.update_root, (Session.flat_put s hs { root := [] } rfl).2.2]; exact Session.flat_get_root s hs)
  refine ⟨?_, hput.2.1⟩
  rw [hput.1, hput.2.2]

/-- the entries `appendDirHashes` adds to the record of a folder -/
def dirEnts (hashes : List (String × String × String)) : List Entry :=
  hashes.map fun (f, c, st) => { fmt := f, digest := c, shash := some st }

theorem dirEnts_action (hashes : List (String × String × String)) : ∀ e ∈ dirEnts hashes, e.action = "" := by
  intro e he
  obtain ⟨x, -, rfl⟩ := List.mem_map.1 he
  rfl

/-- recording the hashes of one folder in the session of a flat history: one update of the single list -/
theorem appendDirHashes_flat (h : Hist) (hc : h.children = []) (hr : h.root = []) (s : Session)
    (hs : s.Flat) (folder : RelPath) (hashes : List (String × String × String)) :
    (appendDirHashes h s folder hashes).lists =
        [(s.get []).update (posix folder) none fun r =>
          { r with isDir := true, entries := r.entries ++ dirEnts hashes }] ∧
      (appendDirHashes h s folder hashes).patterns = s.patterns := by
  unfold appendDirHashes
  rw [route_flat h hc]
  dsimp only
  simp only [parentRoot_flat h hc, hr]
  have hget : (s.touch []).get [] = s.get [] := (Session.flat_put s hs { root := [] } rfl).2.2
  rw [hget]
  have hput := Session.flat_put s hs
    ((s.get []).update (posix folder) none fun r =>
      { r with isDir := true, entries := r.entries ++ dirEnts hashes })
    (by rw [NewList.update_root]; exact Session.flat_get_root s hs)
  split <;> exact ⟨hput.1, hput.2.1⟩

/-! ## D. facts about `sealEntries` -/

open MhlProps.C04 in
/-- with at least one requested format something is always recorded for a file -/
theorem sealEntries_ne_nil (gens : List LGen) (p : String) (dig : String → String) (req : List String)
    (hreq : req ≠ []) : (sealEntries gens p dig req).1 ≠ [] := by
  by_cases hex : existingFormats gens p = []
  · obtain ⟨f, rest, rfl⟩ : ∃ f rest, req = f :: rest := by
      cases req with
      | nil => exact absurd rfl hreq
      | cons f rest => exact ⟨f, rest, rfl⟩
    have hf : f ∈ formatsToGenerate [] (f :: rest) := by
      unfold formatsToGenerate
      have := (mem_foldl_appendNew (fun (s : String) => s) (f :: rest) (baseFormats [] (f :: rest)) f).mpr
        (Or.inr ⟨f, by simp, rfl⟩)
      simpa using this
    unfold sealEntries
    simp only [hex]
    intro hnil
    have : ({ fmt := f, digest := dig f, action := decideAction gens p f (dig f) } : Entry) ∈ ([] : List Entry) := by
      rw [← hnil]
      simp only [List.filter_nil, List.map_nil, List.all_nil, if_true, List.nil_append, List.mem_map,
        List.mem_filter]
      exact ⟨f, ⟨hf, by simp⟩, rfl⟩
    simp at this
  · have hch := checked_ne (existingFormats gens p) req hex
    unfold sealEntries
    intro hnil
    simp only [List.append_eq_nil_iff, List.map_eq_nil_iff] at hnil
    exact hch hnil.1

theorem requested_subset_toGen (existing req : List String) : ∀ f ∈ req, f ∈ formatsToGenerate existing req := by
  intro f hf
  unfold formatsToGenerate
  have := (mem_foldl_appendNew (fun (s : String) => s) req (baseFormats existing req) f).mpr
    (Or.inr ⟨f, hf, rfl⟩)
  simpa using this

/-- every recorded digest is the digest of the current content in the entry's format -/
theorem sealEntries_digest (gens : List LGen) (p : String) (dig : String → String) (req : List String) :
    ∀ e ∈ (sealEntries gens p dig req).1, e.digest = dig e.fmt := by
  obtain ⟨ents1, ents2, heq, h1, h2, _⟩ := MhlProps.C04.sealEntries_shape gens p dig req
  rw [heq]
  intro e he
  rcases List.mem_append.mp he with h' | h'
  · exact (h1 e h').2.1
  · exact (h2 e h').2.1

/-- when no check failed, every requested format is among the entries -/
theorem sealEntries_requested (gens : List LGen) (p : String) (dig : String → String) (req : List String)
    (hnf : ∀ e ∈ (sealEntries gens p dig req).1, e.action ≠ "failed") :
    ∀ f ∈ req, ∃ e ∈ (sealEntries gens p dig req).1, e.fmt = f := by
  intro f hf
  have hgen := requested_subset_toGen (existingFormats gens p) req f hf
  unfold sealEntries at hnf ⊢
  dsimp only at hnf ⊢
  by_cases hex : f ∈ existingFormats gens p
  · refine ⟨{ fmt := f, digest := dig f, action := decideAction gens p f (dig f) }, ?_, rfl⟩
    apply List.mem_append_left
    exact List.mem_map.2 ⟨f, List.mem_filter.2 ⟨hex, by simpa using hgen⟩, rfl⟩
  · have hver : (((existingFormats gens p).filter
        ((formatsToGenerate (existingFormats gens p) req).contains ·)).map fun f =>
          ({ fmt := f, digest := dig f, action := decideAction gens p f (dig f) } : Entry)).all
            (fun e => e.action != "failed") = true := by
      rw [List.all_eq_true]
      intro e he
      have := hnf e (List.mem_append_left _ he)
      simpa using this
    refine ⟨{ fmt := f, digest := dig f, action := decideAction gens p f (dig f) }, ?_, rfl⟩
    apply List.mem_append_right
    rw [if_pos hver]
    exact List.mem_map.2 ⟨f, List.mem_filter.2 ⟨hgen, by simpa using hex⟩, rfl⟩

/-! ## E. the list under construction as a list of records of visited items -/

/-- the record `create` makes for the visited item `x = (path, is_dir)` -/
def RecFor (env : Env) (t : Node) (h : Hist) (fmts : List String) (x : RelPath × Bool) (r : Record) : Prop :=
  r.path = posix x.1 ∧ r.isDir = x.2 ∧ r.prev = none ∧
  (x.2 = false → r.size = some (fileContent t x.1).length ∧
     r.entries = (sealEntries h.gens (posix x.1) (fun f => env.H f (fileContent t x.1)) fmts).1) ∧
  (x.2 = true → r.size = none ∧ ∀ e ∈ r.entries, e.action = "")

/-- the items that get a record in `records` (the root folder `[]` gets the root record instead) -/
def nonRoot (L : List (RelPath × Bool)) : List (RelPath × Bool) := L.filter fun x => !x.1.isEmpty

theorem nonRoot_append (L M : List (RelPath × Bool)) : nonRoot (L ++ M) = nonRoot L ++ nonRoot M := by
  simp [nonRoot]

theorem mem_nonRoot (L : List (RelPath × Bool)) (x : RelPath × Bool) : x ∈ nonRoot L ↔ x ∈ L ∧ x.1 ≠ [] := by
  simp [nonRoot]

/-- the list under construction holds exactly the records of the items `L`, in order -/
def ListFor (env : Env) (t : Node) (h : Hist) (fmts : List String) (nl : NewList)
    (L : List (RelPath × Bool)) : Prop :=
  nl.root = [] ∧ List.Forall₂ (RecFor env t h fmts) (nonRoot L) nl.records ∧
  (∀ r, nl.rootRec = some r → r.path = "." ∧ r.prev = none ∧ r.size = none ∧ ∀ e ∈ r.entries, e.action = "") ∧
  (([], true) ∈ L → ∃ r, nl.rootRec = some r ∧ r.isDir = true)

theorem ListFor.paths {env : Env} {t : Node} {h : Hist} {fmts : List String} {nl : NewList}
    {L : List (RelPath × Bool)} (hl : ListFor env t h fmts nl L) :
    nl.records.map (·.path) = (nonRoot L).map fun x => posix x.1 := by
  have := hl.2.1
  generalize nonRoot L = M at this
  generalize nl.records = rs at this
  induction this with
  | nil => rfl
  | cons hr _ ih => simp [hr.1, ih]

theorem listFor_empty (env : Env) (t : Node) (h : Hist) (fmts : List String) :
    ListFor env t h fmts { root := [] } [] := by
  refine ⟨rfl, ?_, ?_, ?_⟩
  · simp [nonRoot]
  · intro r hr; cases hr
  · intro hm; cases hm

theorem ListFor.snoc {env : Env} {t : Node} {h : Hist} {fmts : List String} {nl : NewList}
    {L : List (RelPath × Bool)} (hl : ListFor env t h fmts nl L) (x : RelPath × Bool) (hx : x.1 ≠ [])
    (hk : posix x.1 ∉ L.map fun y => posix y.1) (hdot : posix x.1 ≠ ".") (sz : Option Nat)
    (f : Record → Record) (hf : RecFor env t h fmts x (f { path := posix x.1, size := sz })) :
    ListFor env t h fmts (nl.update (posix x.1) sz f) (L ++ [x]) := by
  have hfresh : (nl.records.any fun r => r.path == posix x.1) = false := by
    rw [List.any_eq_false]
    intro r hr hp
    apply hk
    have : r.path ∈ nl.records.map (·.path) := List.mem_map.2 ⟨r, hr, rfl⟩
    rw [hl.paths] at this
    obtain ⟨y, hy, hyp⟩ := List.mem_map.1 this
    have hp' : r.path = posix x.1 := by simpa using hp
    exact List.mem_map.2 ⟨y, ((mem_nonRoot L y).1 hy).1, by rw [hyp, hp']⟩
  have hupd : nl.update (posix x.1) sz f =
      { nl with records := nl.records ++ [f { path := posix x.1, size := sz }] } := by
    unfold NewList.update
    have hd : (posix x.1 == ".") = false := by simpa using hdot
    simp [hd, hfresh]
  rw [hupd]
  have hxe : x.1.isEmpty = false := by cases hx' : x.1 <;> simp_all
  refine ⟨hl.1, ?_, hl.2.2.1, ?_⟩
  · rw [nonRoot_append]
    have : nonRoot [x] = [x] := by simp [nonRoot, hxe]
    rw [this]
    exact List.rel_append hl.2.1 (List.Forall₂.cons hf List.Forall₂.nil)
  · intro hm
    rcases List.mem_append.1 hm with hm | hm
    · exact hl.2.2.2 hm
    · simp only [List.mem_singleton] at hm
      rw [← hm] at hx
      exact absurd rfl hx

theorem ListFor.snoc_root {env : Env} {t : Node} {h : Hist} {fmts : List String} {nl : NewList}
    {L : List (RelPath × Bool)} (hl : ListFor env t h fmts nl L) (ents : List Entry)
    (hents : ∀ e ∈ ents, e.action = "") :
    ListFor env t h fmts
      (nl.update "." none fun r => { r with isDir := true, entries := r.entries ++ ents })
      (L ++ [([], true)]) := by
  generalize hr0 : nl.rootRec.getD { path := ".", size := none } = r0
  have hupd : (nl.update "." none fun r => { r with isDir := true, entries := r.entries ++ ents }) =
      { nl with rootRec := some ({ r0 with isDir := true, entries := r0.entries ++ ents } : Record) } := by
    unfold NewList.update
    simp [hr0]
  rw [hupd]
  have hold : r0.path = "." ∧ r0.prev = none ∧ r0.size = none ∧ ∀ e ∈ r0.entries, e.action = "" := by
    rw [← hr0]
    cases hr : nl.rootRec with
    | none => simp
    | some r => simpa using hl.2.2.1 r hr
  refine ⟨hl.1, ?_, ?_, ?_⟩
  · rw [nonRoot_append]
    have : nonRoot [(([] : RelPath), true)] = [] := by simp [nonRoot]
    rw [this, List.append_nil]
    exact hl.2.1
  · intro r hr
    simp only [Option.some.injEq] at hr
    subst hr
    refine ⟨hold.1, hold.2.1, hold.2.2.1, ?_⟩
    intro e he
    rcases List.mem_append.1 he with he | he
    · exact hold.2.2.2 e he
    · exact hents e he
  · intro _
    exact ⟨_, rfl, rfl⟩

/-- the POSIX texts of the items are pairwise different and only the root folder has the text "." -/
def KeysOk (L : List (RelPath × Bool)) : Prop :=
  (L.map fun x => posix x.1).Nodup ∧ ∀ x ∈ L, posix x.1 = "." → x.1 = []

theorem KeysOk.left {L M : List (RelPath × Bool)} (hk : KeysOk (L ++ M)) : KeysOk L := by
  refine ⟨?_, fun x hx => hk.2 x (List.mem_append_left _ hx)⟩
  have := hk.1
  rw [List.map_append] at this
  exact (List.nodup_append.1 this).1

theorem KeysOk.fresh {L : List (RelPath × Bool)} {x : RelPath × Bool} (hk : KeysOk (L ++ [x])) :
    posix x.1 ∉ L.map fun y => posix y.1 := by
  have := hk.1
  rw [List.map_append, List.nodup_append] at this
  intro hm
  exact this.2.2 _ hm _ (by simp) rfl

/-- the session holds (at most) the list of the root history, and that list holds the records of the items `L`;
conditional on the texts of the items being unambiguous -/
def SessFor (env : Env) (t : Node) (h : Hist) (fmts pats : List String) (s : Session)
    (L : List (RelPath × Bool)) : Prop :=
  KeysOk L → s.Flat ∧ s.patterns = pats ∧ (L ≠ [] → s.lists ≠ []) ∧ ListFor env t h fmts (s.get []) L

theorem sessFor_empty (env : Env) (t : Node) (h : Hist) (fmts pats : List String) :
    SessFor env t h fmts pats { patterns := pats } [] := by
  intro _
  refine ⟨Or.inl rfl, rfl, fun hne => absurd rfl hne, ?_⟩
  exact listFor_empty env t h fmts

theorem sessFor_file (env : Env) (t : Node) (h : Hist) (hc : h.children = []) (hr : h.root = [])
    (fmts pats : List String) (hfm : fmts ≠ []) (s : Session) (L : List (RelPath × Bool)) (p : RelPath)
    (hp : p ≠ []) (hs : SessFor env t h fmts pats s L) :
    SessFor env t h fmts pats (sealFile env.H h s p (fileContent t p) fmts).1 (L ++ [(p, false)]) := by
  intro hk
  obtain ⟨hflat, hpat, _, hlist⟩ := hs hk.left
  have hne := sealEntries_ne_nil h.gens (posix p) (fun f => env.H f (fileContent t p)) fmts hfm
  obtain ⟨hlists, hpats⟩ := sealFile_flat env.H h hc hr s hflat p (fileContent t p) fmts hne
  have hroot : ((s.get []).update (posix p) (some (fileContent t p).length) fun r =>
      { r with entries := r.entries ++
        (sealEntries h.gens (posix p) (fun f => env.H f (fileContent t p)) fmts).1 }).root = [] := by
    rw [NewList.update_root]; exact hlist.1
  refine ⟨Or.inr ⟨_, hlists, hroot⟩, by rw [hpats, hpat], by rw [hlists]; simp, ?_⟩
  rw [Session.get_single _ _ hlists hroot]
  have hdot : posix p ≠ "." := fun hd => hp (hk.2 (p, false) (by simp) hd)
  refine hlist.snoc (p, false) hp hk.fresh hdot _ _ ?_
  refine ⟨rfl, rfl, rfl, ?_, ?_⟩
  · intro _; exact ⟨rfl, by simp⟩
  · intro hx; cases hx

theorem sessFor_dir (env : Env) (t : Node) (h : Hist) (hc : h.children = []) (hr : h.root = [])
    (fmts pats : List String) (s : Session) (L : List (RelPath × Bool)) (p : RelPath)
    (hashes : List (String × String × String)) (hs : SessFor env t h fmts pats s L) :
    SessFor env t h fmts pats (appendDirHashes h s p hashes) (L ++ [(p, true)]) := by
  intro hk
  obtain ⟨hflat, hpat, _, hlist⟩ := hs hk.left
  obtain ⟨hlists, hpats⟩ := appendDirHashes_flat h hc hr s hflat p hashes
  have hroot : ((s.get []).update (posix p) none fun r =>
      { r with isDir := true, entries := r.entries ++ dirEnts hashes }).root = [] := by
    rw [NewList.update_root]; exact hlist.1
  refine ⟨Or.inr ⟨_, hlists, hroot⟩, by rw [hpats, hpat], by rw [hlists]; simp, ?_⟩
  rw [Session.get_single _ _ hlists hroot]
  by_cases hp : p = []
  · subst hp
    exact hlist.snoc_root (dirEnts hashes) (dirEnts_action hashes)
  · have hdot : posix p ≠ "." := fun hd => hp (hk.2 (p, true) (by simp) hd)
    refine hlist.snoc (p, true) hp hk.fresh hdot _ _ ?_
    refine ⟨rfl, rfl, rfl, ?_, ?_⟩
    · intro hx; cases hx
    · intro _; exact ⟨rfl, by simpa using dirEnts_action hashes⟩

/-! ## F. `createVisit` on the session -/

/-- the items one visit records: its files in listing order, then the folder itself -/
def visitItems (v : Visit) : List (RelPath × Bool) :=
  (v.children.flatMap fun c => if c.2 then [] else [(v.folder ++ [c.1], false)]) ++ [(v.folder, true)]

/-- the items a traversal records, in the order the records are created -/
def recItems (vs : List Visit) : List (RelPath × Bool) := vs.flatMap visitItems

theorem foldl_track {α β γ : Type} (P : α → List γ → Prop) (f : α → β → α) (g : β → List γ)
    (step : ∀ a b L, P a L → P (f a b) (L ++ g b)) :
    ∀ (l : List β) (a : α) (L : List γ), P a L → P (l.foldl f a) (L ++ l.flatMap g) := by
  intro l
  induction l with
  | nil => intro a L h; simpa using h
  | cons b bs ih =>
    intro a L h
    simp only [List.foldl_cons, List.flatMap_cons, ← List.append_assoc]
    exact ih _ _ (step a b L h)

theorem createVisit_sessFor (env : Env) (t : Node) (h : Hist) (hc : h.children = []) (hr : h.root = [])
    (fmts pats : List String) (hfm : fmts ≠ []) (noDir : Bool) (st : CreateState) (v : Visit)
    (L : List (RelPath × Bool)) (hs : SessFor env t h fmts pats st.session L) :
    SessFor env t h fmts pats (createVisit env t h fmts noDir st v).session (L ++ visitItems v) := by
  unfold createVisit
  dsimp only
  generalize hres : List.foldl _ (st, _) v.children = res
  have hP : SessFor env t h fmts pats res.1.session
      (L ++ v.children.flatMap fun c => if c.2 then [] else [(v.folder ++ [c.1], false)]) := by
    rw [← hres]
    refine foldl_track (fun (a : CreateState × List (String × DirCtx)) L => SessFor env t h fmts pats a.1.session L)
      _ _ ?_ _ _ _ hs
    intro a b L' hP
    try dsimp only at hP ⊢
    by_cases hb : b.2 = true
    · simp only [hb, if_true, List.append_nil]
      split <;> exact hP
    · simp only [hb, Bool.false_eq_true, if_false]
      exact sessFor_file env t h hc hr fmts pats hfm _ _ _ (by simp) hP
  unfold visitItems
  rw [← List.append_assoc]
  cases noDir
  · simp only [Bool.false_eq_true, if_false]
    exact sessFor_dir env t h hc hr fmts pats _ _ _ _ hP
  · simp only [if_true]
    exact sessFor_dir env t h hc hr fmts pats _ _ _ _ hP

theorem createFold_sessFor (env : Env) (t : Node) (h : Hist) (hc : h.children = []) (hr : h.root = [])
    (fmts pats : List String) (hfm : fmts ≠ []) (noDir : Bool) (vs : List Visit) (st : CreateState)
    (L : List (RelPath × Bool)) (hs : SessFor env t h fmts pats st.session L) :
    SessFor env t h fmts pats (vs.foldl (createVisit env t h fmts noDir) st).session (L ++ recItems vs) :=
  foldl_track (fun (st : CreateState) L => SessFor env t h fmts pats st.session L) _ visitItems
    (fun a b L hP => createVisit_sessFor env t h hc hr fmts pats hfm noDir a b L hP) vs st L hs

/-! ## G. the recorded items are the visible paths (and the root folder) -/

theorem recItems_append (a b : List Visit) : recItems (a ++ b) = recItems a ++ recItems b := by
  simp [recItems]

/-- records are created in a different order than `visiblePaths` lists the entries (a folder's record is made when the
folder itself is yielded, before its parent lists it), but they are the same items -/
theorem recItems_perm (hit : RelPath → Bool) (t : Node) : ∀ here : RelPath,
    (recItems (traverse hit here t)).Perm
      (visFrom hit here t ++ (if t.isDir then [(here, true)] else [])) := by
  induction t using Node.induct with
  | file n c => intro here; simp [traverse, recItems, Node.isDir]
  | dir n cs h ih =>
    intro here
    rw [traverse_dir, recItems_append, visFrom_dir]
    simp only [Node.isDir, if_true]
    have h1 : recItems ((visKids hit here cs).flatMap (·.visits)) =
        (visKids hit here cs).flatMap fun k => recItems k.visits := by
      simp [recItems, List.flatMap_assoc]
    have h2 : recItems [⟨here, (visKids hit here cs).map fun k => (k.name, k.isDir)⟩] =
        ((visKids hit here cs).flatMap fun k => if k.isDir then [] else [(here ++ [k.name], false)]) ++
          [(here, true)] := by
      simp [recItems, visitItems, List.flatMap_map]
    rw [h1, h2, ← List.append_assoc]
    refine List.Perm.append ?_ (List.Perm.refl _)
    have h3 : (visKids hit here cs).map (fun k => (here ++ [k.name], k.isDir)) =
        (visKids hit here cs).flatMap fun k => [(here ++ [k.name], k.isDir)] := by
      induction visKids hit here cs with
      | nil => rfl
      | cons a as ih' => simp [ih']
    rw [h3]
    refine (List.flatMap_append_perm _ _ _).trans (List.Perm.trans ?_ (List.flatMap_append_perm _ _ _).symm)
    refine List.Perm.flatMap_left _ ?_
    intro k hk
    obtain ⟨c, hc, -, rfl⟩ := (mem_visKids _ _ _ _).1 hk
    have := ih c hc (here ++ [c.name])
    simp only [kidOf]
    change (recItems (traverse hit (here ++ [c.name]) c) ++ _).Perm (visFrom hit (here ++ [c.name]) c ++ _)
    by_cases hd : c.isDir = true
    · simp only [hd, if_true, List.append_nil] at this ⊢
      exact this
    · have hd' : c.isDir = false := by simpa using hd
      simp only [hd', Bool.false_eq_true, if_false, List.append_nil] at this ⊢
      exact List.Perm.append this (List.Perm.refl _)

/-- every name in the tree can be a path component without ambiguity -/
def Node.NamesOk (t : Node) : Prop := ∀ s ∈ t.descNames, NameOk s

instance (t : Node) : Decidable t.NamesOk := inferInstanceAs (Decidable (∀ s ∈ t.descNames, NameOk s))

open MhlProps.C02 in
theorem visible_names_ok (hit : RelPath → Bool) (t : Node) (hn : t.NamesOk) (x : RelPath × Bool)
    (hx : x ∈ visiblePaths hit t) : x.1 ≠ [] ∧ ∀ s ∈ x.1, NameOk s := by
  obtain ⟨p, d⟩ := x
  obtain ⟨-, hne, hs⟩ := visible_relative hit t p d hx
  exact ⟨hne, fun s hsm => hn s (hs s hsm)⟩

open MhlProps.C02 in
/-- the POSIX texts of the visible paths are pairwise different -/
theorem visible_keys_nodup (hit : RelPath → Bool) (t : Node) (hd : t.NamesDistinct) (hn : t.NamesOk) :
    ((visiblePaths hit t).map fun x => posix x.1).Nodup := by
  refine List.Nodup.map_on ?_ (visible_nodup hit t hd)
  intro x hx y hy hxy
  have hp : x.1 = y.1 :=
    posix_inj (visible_names_ok hit t hn x hx).2 (visible_names_ok hit t hn y hy).2 hxy
  obtain ⟨p, d⟩ := x
  obtain ⟨q, e⟩ := y
  simp only at hp
  subst hp
  obtain ⟨c, hc, rfl⟩ := visible_on_disk hit t hd p d hx
  obtain ⟨c', hc', rfl⟩ := visible_on_disk hit t hd p e hy
  rw [hc] at hc'
  cases hc'
  rfl

theorem recItems_keysOk (hit : RelPath → Bool) (t : Node) (hd : t.NamesDistinct) (hn : t.NamesOk) :
    KeysOk (recItems (traverse hit [] t)) := by
  have hperm := recItems_perm hit t []
  rw [← visiblePaths_eq] at hperm
  constructor
  · rw [(hperm.map fun x => posix x.1).nodup_iff, List.map_append, List.nodup_append]
    refine ⟨visible_keys_nodup hit t hd hn, by split <;> simp, ?_⟩
    intro a ha b hb hab
    obtain ⟨x, hx, rfl⟩ := List.mem_map.1 ha
    have hbdot : b = "." := by
      split at hb
      · simpa [posix] using hb
      · simp at hb
    obtain ⟨hne, hok⟩ := visible_names_ok hit t hn x hx
    exact hne ((posix_eq_dot hok).1 (hab.trans hbdot))
  · intro x hx hdot
    have hx' := hperm.mem_iff.1 hx
    rcases List.mem_append.1 hx' with hv | hr
    · exact (posix_eq_dot (visible_names_ok hit t hn x hv).2).1 hdot
    · split at hr
      · simp only [List.mem_singleton] at hr
        rw [hr]
      · simp at hr

/-! ## H. validation and commit of a flat history -/

/-- what `validateRecord` does to an entry when it lets the record through -/
def relabel (e : Entry) : Entry := if e.action == "new" then { e with action := "verified" } else e

theorem relabel_fmt (e : Entry) : (relabel e).fmt = e.fmt := by unfold relabel; split <;> rfl
theorem relabel_digest (e : Entry) : (relabel e).digest = e.digest := by unfold relabel; split <;> rfl
theorem relabel_failed (e : Entry) : (relabel e).action = "failed" ↔ e.action = "failed" := by
  unfold relabel
  split
  · next h =>
    have : e.action = "new" := by simpa using h
    simp [this]
  · rfl

theorem validateRecord_ok (r r' : Record) (h : validateRecord r = .ok r') :
    r' = { r with entries := r.entries.map relabel } := by
  unfold validateRecord at h
  split at h
  · dsimp only at h
    split at h
    · cases h
    · split at h
      · cases h
      · simp only [pure, Except.pure, Except.ok.injEq] at h
        rw [← h]
        rfl
  · next hnew =>
    simp only [pure, Except.pure, Except.ok.injEq] at h
    subst h
    have : r.entries.map relabel = r.entries := by
      conv => rhs; rw [← List.map_id r.entries]
      apply List.map_congr_left
      intro e he
      unfold relabel
      split
      · next hn => exact absurd (List.any_eq_true.2 ⟨e, he, hn⟩) hnew
      · rfl
    rw [this]

theorem mapM_validate_ok : ∀ (rs out : List Record), rs.mapM validateRecord = .ok out →
    out = rs.map fun r => { r with entries := r.entries.map relabel } := by
  intro rs
  induction rs with
  | nil =>
    intro out h
    simp only [List.mapM_nil, pure, Except.pure, Except.ok.injEq] at h
    rw [← h]; rfl
  | cons r rs ih =>
    intro out h
    rw [List.mapM_cons] at h
    cases hv : validateRecord r with
    | error e => simp [hv, bind, Except.bind] at h
    | ok r' =>
      cases hm : rs.mapM validateRecord with
      | error e => simp [hv, hm, bind, Except.bind] at h
      | ok out' =>
        simp only [hv, hm, bind, Except.bind, pure, Except.pure, Except.ok.injEq] at h
        rw [← h, ih out' hm, validateRecord_ok r r' hv]
        rfl

/-- a record as it is written: validated (`new` ↦ `verified`), the entries of a file record sorted by format -/
def finalRec (r : Record) : Record :=
  if r.isDir then { r with entries := r.entries.map relabel }
  else { r with entries := isort (fun a b => strLe a.fmt b.fmt) (r.entries.map relabel) }

theorem finalRec_path (r : Record) : (finalRec r).path = r.path := by unfold finalRec; split <;> rfl
theorem finalRec_isDir (r : Record) : (finalRec r).isDir = r.isDir := by unfold finalRec; split <;> rfl
theorem finalRec_size (r : Record) : (finalRec r).size = r.size := by unfold finalRec; split <;> rfl
theorem finalRec_prev (r : Record) : (finalRec r).prev = r.prev := by unfold finalRec; split <;> rfl
theorem finalRec_entries (r : Record) : (finalRec r).entries.Perm (r.entries.map relabel) := by
  unfold finalRec
  split
  · exact List.Perm.refl _
  · exact isort_perm _ _

theorem writeOne_records (rootHist : Hist) (s : Session) (rn stamp process : String) (cb : Option String)
    (h : Hist) (refs : List Written) (w : Written)
    (hw : writeOne rootHist s rn stamp process cb h refs = .ok w) :
    w.histRoot = h.root ∧ w.gen.records = (s.get h.root).records.map finalRec ∧
      w.gen.rootHash = ((s.get h.root).rootRec.bind fun r => if r.entries.isEmpty then none else some r.entries) := by
  unfold writeOne at hw
  cases hm : (s.get h.root).records.mapM validateRecord with
  | error e => simp [hm, bind, Except.bind] at hw
  | ok recs =>
    simp only [hm, bind, Except.bind, pure, Except.pure, Except.ok.injEq] at hw
    subst hw
    refine ⟨rfl, ?_, rfl⟩
    rw [mapM_validate_ok _ _ hm]
    simp only [List.map_map]
    apply List.map_congr_left
    intro r _
    simp only [Function.comp, finalRec]

/-- the commit of a history without nested histories: nothing, or the one generation of the root history -/
theorem commit_flat (h : Hist) (hc : h.children = []) (s : Session) (rn stamp process : String)
    (cb : Option String) (ws : List Written) (hcm : commit h s rn stamp process cb = .ok ws) :
    (ws = [] ∧ s.lists.any (fun l => l.root == h.root) = false) ∨
      ∃ w, ws = [w] ∧ writeOne h s rn stamp process cb h [] = .ok w := by
  unfold commit at hcm
  rw [walkPost_flat h hc] at hcm
  simp only [List.foldlM_cons, List.foldlM_nil, commitStep, List.filter_nil, List.isEmpty_nil, Bool.and_true]
    at hcm
  cases hin : s.lists.any (fun l => l.root == h.root)
  · left
    simp only [hin, Bool.not_false, if_true, bind, Except.bind, pure, Except.pure, Except.ok.injEq] at hcm
    exact ⟨hcm.symm, rfl⟩
  · right
    simp only [hin, Bool.not_true, Bool.false_eq_true, if_false] at hcm
    cases hw : writeOne h s rn stamp process cb h [] with
    | error e => simp [hw, bind, Except.bind] at hcm
    | ok w =>
      simp only [hw, bind, Except.bind, pure, Except.pure, Except.ok.injEq, List.nil_append] at hcm
      exact ⟨w, hcm.symm, rfl⟩

/-! ## I. a tree without nested `ascmhl` folders loads as a flat history -/

/-- no `ascmhl` folder strictly below the node (the node itself may have one) -/
def noNested : Node → Bool
  | .file _ _ => true
  | .dir _ cs _ => noHistList cs

theorem mapM_snd_ok_nil : ∀ l : List (String × Except Err (List Hist)), (∀ x ∈ l, x.2 = .ok []) →
    (l.mapM fun x => x.2) = .ok (l.map fun _ => []) := by
  intro l
  induction l with
  | nil => intro _; rfl
  | cons a as ih =>
    intro h
    rw [List.mapM_cons, h a (by simp), ih (fun x hx => h x (List.mem_cons_of_mem _ hx))]
    rfl

theorem noHist_parts (c : Node) (h : noHist c = true) : c.hist = none ∧ noNested c = true := by
  cases c with
  | file n b => exact ⟨rfl, rfl⟩
  | dir n cs hs =>
    simp only [noHist, Bool.and_eq_true, Option.isNone_iff_eq_none] at h
    exact ⟨h.1, h.2⟩

mutual
theorem findChildren_noNested : (t : Node) → (here : RelPath) → noNested t = true → findChildren here t = .ok []
  | .file _ _, _, _ => by simp [findChildren, pure, Except.pure]
  | .dir _ cs _, here, hn => by
    rw [findChildren]
    have hall := findChildrenList_noHist cs here hn
    have hsorted : ∀ x ∈ isort (fun (a b : String × Except Err (List Hist)) => strLe a.1 b.1)
        (findChildrenList here cs), x.2 = .ok [] := fun x hx => hall x ((mem_isort _ _ _).1 hx)
    simp only [mapM_snd_ok_nil _ hsorted, Except.map]
    congr 1
    simp
theorem findChildrenList_noHist : (cs : List Node) → (here : RelPath) → noHistList cs = true →
    ∀ x ∈ findChildrenList here cs, x.2 = .ok []
  | [], _, _ => by simp [findChildrenList]
  | c :: cs, here, hn => by
    simp only [noHistList, Bool.and_eq_true] at hn
    obtain ⟨hh, hnn⟩ := noHist_parts c hn.1
    have h1 := findChildren_noNested c (here ++ [c.name]) hnn
    have h2 := findChildrenList_noHist cs here hn.2
    intro x hx
    rw [findChildrenList, List.mem_cons] at hx
    rcases hx with rfl | hx
    · simp only [hh, h1]
    · exact h2 x hx
end

/-- a tree with no `ascmhl` folder below the root loads (if it loads) as a history without nested histories -/
theorem loadHistory_flat (t : Node) (hn : noNested t = true) (rootHist : Hist)
    (hl : loadHistory t = .ok rootHist) : rootHist.children = [] ∧ rootHist.root = [] := by
  obtain ⟨kids, hk, rfl⟩ := loadHistory_ok_eq t rootHist hl
  rw [findChildren_noNested t [] hn] at hk
  cases hk
  unfold buildHist
  split <;> exact ⟨rfl, rfl⟩

end MhlModel
