/-
Helper lemmas for MhlProps/C03nested.lean: sealing a tree WITH NESTED HISTORIES from the outer root, then verify / diff.

  A. `addWritten ws h`       the loaded history after the generations `ws` were written: same shape, every history
                             that wrote has its old generations followed by the new one
  B. `load_applyWritten`     `loadHistory (applyWritten t ws) = .ok (addWritten ws h)`
  C. what `applyWritten`, `setContent`, `removeChild`, `addChild` leave alone (traversal, contents, loading)
  D. lookups in `gens ++ [new]`
  E. the session of a run without `-dr` records no previous path
  F. expected paths of `addWritten ws h`
-/
import MhlProps.C04nested
import MhlProps.C08part
import MhlProps.C05e2e
import MhlProps.C06
import MhlProps.C12
import MhlProps.Proofs.RenameLemmas

namespace MhlModel
open MhlProps.C02rec MhlProps.C04 MhlProps.C08

/-! ## A. the history after a write -/

/-- the generations the run adds to the history rooted at `r` -/
def newGens (ws : List Written) (r : RelPath) : List LGen :=
  (ws.filter fun w => w.histRoot == r).map fun w => ⟨w.number, w.gen⟩

/-- the chain entries the run adds to the history rooted at `r` -/
def newChain_n2 (ws : List Written) (r : RelPath) : List ChainEntry :=
  (ws.filter fun w => w.histRoot == r).map fun w => ⟨w.number, w.gen.fileName⟩

mutual
/-- the loaded history after the generations `ws` were written into the `ascmhl` folders: same roots, same children in
the same order; a history gets the generations (and chain entries) written for its root appended -/
def addWritten (ws : List Written) : Hist → Hist
  | .mk r g c e cs =>
    .mk r (g ++ newGens ws r) (c ++ newChain_n2 ws r) (e || ws.any fun w => w.histRoot == r) (addWrittenList ws cs)
def addWrittenList (ws : List Written) : List Hist → List Hist
  | [] => []
  | c :: cs => addWritten ws c :: addWrittenList ws cs
end

theorem addWrittenList_eq_map (ws : List Written) (cs : List Hist) :
    addWrittenList ws cs = cs.map (addWritten ws) := by
  induction cs with
  | nil => rfl
  | cons c cs ih => rw [addWrittenList, ih]; rfl

theorem addWritten_root (ws : List Written) (h : Hist) : (addWritten ws h).root = h.root := by
  cases h; rfl

theorem addWritten_gens (ws : List Written) (h : Hist) : (addWritten ws h).gens = h.gens ++ newGens ws h.root := by
  cases h; rfl

theorem addWritten_chain (ws : List Written) (h : Hist) :
    (addWritten ws h).chain = h.chain ++ newChain_n2 ws h.root := by
  cases h; rfl

theorem addWritten_children (ws : List Written) (h : Hist) :
    (addWritten ws h).children = h.children.map (addWritten ws) := by
  cases h; rw [addWritten, ← addWrittenList_eq_map]; rfl

theorem newGens_nil (r : RelPath) : newGens [] r = [] := rfl
theorem newChain_nil (r : RelPath) : newChain_n2 [] r = [] := rfl

theorem newGens_cons (w : Written) (ws : List Written) (r : RelPath) :
    newGens (w :: ws) r = newGens [w] r ++ newGens ws r := by
  unfold newGens
  by_cases h : (w.histRoot == r) = true <;> simp [h]

theorem newChain_cons (w : Written) (ws : List Written) (r : RelPath) :
    newChain_n2 (w :: ws) r = newChain_n2 [w] r ++ newChain_n2 ws r := by
  unfold newChain_n2
  by_cases h : (w.histRoot == r) = true <;> simp [h]

theorem newGens_of_ne (ws : List Written) (r : RelPath) (h : ∀ w ∈ ws, w.histRoot ≠ r) : newGens ws r = [] := by
  unfold newGens
  rw [List.filter_eq_nil_iff.2 (fun w hw => by simpa using h w hw)]
  rfl

theorem newChain_of_ne (ws : List Written) (r : RelPath) (h : ∀ w ∈ ws, w.histRoot ≠ r) : newChain_n2 ws r = [] := by
  unfold newChain_n2
  rw [List.filter_eq_nil_iff.2 (fun w hw => by simpa using h w hw)]
  rfl

theorem any_root_of_ne (ws : List Written) (r : RelPath) (h : ∀ w ∈ ws, w.histRoot ≠ r) :
    (ws.any fun w => w.histRoot == r) = false := by
  rw [List.any_eq_false]
  intro w hw
  simpa using h w hw

theorem filter_root_single (ws : List Written) (hnd : (ws.map (·.histRoot)).Nodup) (w : Written) (hw : w ∈ ws) :
    (ws.filter fun w' => w'.histRoot == w.histRoot) = [w] := by
  induction ws with
  | nil => cases hw
  | cons a as ih =>
    rw [List.map_cons, List.nodup_cons] at hnd
    rcases List.mem_cons.1 hw with rfl | hw'
    · have : (as.filter fun w' => w'.histRoot == w.histRoot) = [] := by
        rw [List.filter_eq_nil_iff]
        intro x hx hxe
        exact hnd.1 (List.mem_map.2 ⟨x, hx, by simpa using hxe⟩)
      simp [this]
    · have hne : (a.histRoot == w.histRoot) = false := by
        apply beq_false_of_ne
        intro he
        exact hnd.1 (List.mem_map.2 ⟨w, hw', he.symm⟩)
      rw [List.filter_cons, hne]
      exact ih hnd.2 hw'

theorem newGens_single (ws : List Written) (hnd : (ws.map (·.histRoot)).Nodup) (w : Written) (hw : w ∈ ws) :
    newGens ws w.histRoot = [⟨w.number, w.gen⟩] := by
  unfold newGens
  rw [filter_root_single ws hnd w hw]
  rfl

/-- a history none of whose members wrote is unchanged -/
theorem addWritten_of_ne (ws : List Written) : (h : Hist) → (∀ x ∈ h.all, ∀ w ∈ ws, w.histRoot ≠ x.root) →
    addWritten ws h = h := by
  intro h
  induction h using Hist.induct with
  | _ r g c e cs ih =>
    intro hne
    have h0 : ∀ w ∈ ws, w.histRoot ≠ r := fun w hw => hne _ (Hist.self_mem_all _) w hw
    rw [addWritten, newGens_of_ne ws r h0, newChain_of_ne ws r h0, any_root_of_ne ws r h0, addWrittenList_eq_map]
    simp only [List.append_nil, Bool.or_false]
    congr 1
    conv => rhs; rw [← List.map_id cs]
    apply List.map_congr_left
    intro k hk
    apply ih k hk
    intro x hx
    exact hne x (all_trans (.mk r g c e cs) (List.mem_cons_of_mem _ (child_mem_allDescendants hk)) hx)

mutual
theorem allDescendants_addWritten (ws : List Written) : (h : Hist) →
    allDescendants (addWritten ws h) = (allDescendants h).map (addWritten ws)
  | .mk r g c e cs => by rw [addWritten, allDescendants, allDescendants, descList_addWritten ws cs]
theorem descList_addWritten (ws : List Written) : (cs : List Hist) →
    descList (addWrittenList ws cs) = (descList cs).map (addWritten ws)
  | [] => rfl
  | c :: cs => by
    rw [addWrittenList, descList, descList, allDescendants_addWritten ws c, descList_addWritten ws cs]
    simp
end

theorem all_addWritten (ws : List Written) (h : Hist) : (addWritten ws h).all = h.all.map (addWritten ws) := by
  unfold Hist.all
  rw [allDescendants_addWritten, List.map_cons]

theorem pickStep_addWritten (ws : List Written) (init : Option Hist) (a : Hist) :
    pickStep (init.map (addWritten ws)) (addWritten ws a) = (pickStep init a).map (addWritten ws) := by
  cases init with
  | none => rfl
  | some b =>
    simp only [pickStep, Option.map_some, addWritten_root]
    split <;> rfl

theorem foldl_pickStep_addWritten (ws : List Written) (M : List Hist) (init : Option Hist) :
    (M.map (addWritten ws)).foldl pickStep (init.map (addWritten ws)) =
      (M.foldl pickStep init).map (addWritten ws) := by
  induction M generalizing init with
  | nil => rfl
  | cons a as ih =>
    rw [List.map_cons, List.foldl_cons, List.foldl_cons, pickStep_addWritten, ih]

/-- routing does not see the new generations: the owner of a path is the old owner with its new generation, the
relative path is the same -/
theorem route_addWritten (ws : List Written) (h : Hist) (p : RelPath) :
    route (addWritten ws h) p = (addWritten ws (route h p).1, (route h p).2) := by
  rw [route_unfold, route_unfold, allDescendants_addWritten, List.filter_map]
  have hf : ((fun c : Hist => !c.root.isEmpty && isPrefixOf c.root p) ∘ addWritten ws) =
      fun c : Hist => !c.root.isEmpty && isPrefixOf c.root p := by
    funext c
    simp only [Function.comp, addWritten_root]
  rw [hf]
  have := foldl_pickStep_addWritten ws ((allDescendants h).filter fun c => !c.root.isEmpty && isPrefixOf c.root p) none
  rw [Option.map_none] at this
  rw [this]
  cases ((allDescendants h).filter fun c => !c.root.isEmpty && isPrefixOf c.root p).foldl pickStep none with
  | none => rfl
  | some c => simp only [Option.map_some, addWritten_root]

/-- writing `w` first and `ws` afterwards -/
theorem addWritten_cons (w : Written) (ws : List Written) : (h : Hist) →
    addWritten (w :: ws) h = addWritten ws (addWritten [w] h) := by
  intro h
  induction h using Hist.induct with
  | _ r g c e cs ih =>
    rw [addWritten, addWritten, addWritten, newGens_cons, newChain_cons, addWrittenList_eq_map,
      addWrittenList_eq_map, addWrittenList_eq_map, List.map_map]
    simp only [List.append_assoc, List.any_cons, List.any_nil, Bool.or_false, Bool.or_assoc]
    congr 1
    apply List.map_congr_left
    intro k hk
    exact ih k hk

theorem addWritten_nil : (h : Hist) → addWritten [] h = h := by
  intro h
  exact addWritten_of_ne [] h (fun _ _ w hw => by cases hw)

theorem addWritten_buildHist (ws : List Written) (here : RelPath) (store : Option HistStore) (kids : List Hist) :
    addWritten ws (buildHist here store kids) =
      .mk here ((buildHist here store kids).gens ++ newGens ws here)
        ((buildHist here store kids).chain ++ newChain_n2 ws here)
        ((buildHist here store kids).folderExists || ws.any fun w => w.histRoot == here)
        (kids.map (addWritten ws)) := by
  cases store <;> simp only [buildHist, addWritten, addWrittenList_eq_map, Hist.gens, Hist.chain, Hist.folderExists]

/-! ## B. loading after a write -/

/-- the chain check still passes after `add` of a manifest whose name parses to a number above every loaded one -/
theorem checkStore_add (s : HistStore) (w : Written) (k : Nat) (hchk : checkStore (some s) = .ok ())
    (hparse : parseGenName w.gen.fileName = some k) (hstate : w.gen.state = .ok)
    (hlt : ∀ g ∈ loadGens s, g.number < k) : checkStore (some (s.add w)) = .ok () := by
  have hcp : s.chainPresent = true := by
    cases hc : s.chainPresent with
    | true => rfl
    | false => rw [MhlProps.C05.checkStore_no_chain s hc] at hchk; cases hchk
  rw [MhlProps.C05.checkStore_chain s hcp] at hchk
  have hun := (MhlProps.C06.fresh_of_parse_above s _ k hparse hlt).2 hchk
  rw [MhlProps.C05.checkStore_chain _ (by rfl), MhlProps.C05.checkChain_ok_iff]
  have hold := (MhlProps.C05.checkChain_ok_iff s).1 hchk
  intro e he
  have hg : (s.add w).gens = s.gens.filter (fun g => g.fileName != w.gen.fileName) ++ [w.gen] := rfl
  have hc : (s.add w).chain = s.chain ++ [⟨w.number, w.gen.fileName⟩] := rfl
  rw [hc, List.mem_append] at he
  rw [hg, List.find?_append]
  rcases he with he | he
  · obtain ⟨g, hf, hst⟩ := hold e he
    have hne : e.fileName ≠ w.gen.fileName := (MhlProps.C06.lists_eq_false_iff s _).1 hun e he
    refine ⟨g, ?_, hst⟩
    rw [List.find?_filter]
    have : s.gens.find? (fun a => decide ((a.fileName != w.gen.fileName) = true ∧ (a.fileName == e.fileName) = true)) =
        s.gens.find? (fun a => a.fileName == e.fileName) := by
      apply MhlProps.C06.find?_congr_mem
      intro a _
      by_cases ha : a.fileName = e.fileName
      · simp [ha, hne]
      · simp [ha]
    rw [this, hf]
    rfl
  · simp only [List.mem_singleton] at he
    subst he
    refine ⟨w.gen, ?_, hstate⟩
    have : (s.gens.filter fun g => g.fileName != w.gen.fileName).find? (fun g => g.fileName == w.gen.fileName) = none := by
      rw [List.find?_eq_none]
      intro x hx
      have := (List.mem_filter.1 hx).2
      simpa using this
    rw [this]
    simp

/-- the per-child results of `cs'` are those of `cs` with `F` applied to every history found: so are the results of
the folders -/
theorem findChildren_dir_map (F : Hist → Hist) (here : RelPath) (n n' : String) (cs cs' : List Node)
    (h h' : Option HistStore)
    (hp : cs'.map (childPair here) = (cs.map (childPair here)).map fun x => (x.1, x.2.map (List.map F))) :
    findChildren here (.dir n' cs' h') = (findChildren here (.dir n cs h)).map (List.map F) := by
  rw [findChildren_dir, findChildren_dir, hp]
  have hs := isort_map (keyLe (β := Except Err (List Hist))) (keyLe (β := Except Err (List Hist)))
    (fun x : String × Except Err (List Hist) => (x.1, x.2.map (List.map F))) (fun _ _ => rfl)
    (cs.map (childPair here))
  rw [show (fun (a b : String × Except Err (List Hist)) => strLe a.1 b.1) = keyLe from rfl, hs, List.mapM_map]
  have := mapM_map_except (fun x : String × Except Err (List Hist) => x.2) (List.map F)
    (isort keyLe (cs.map (childPair here)))
  rw [show ((fun x : String × Except Err (List Hist) => x.2) ∘
      fun x : String × Except Err (List Hist) => (x.1, x.2.map (List.map F))) =
    fun x => (x.2).map (List.map F) from rfl, this]
  cases (isort keyLe (cs.map (childPair here))).mapM (fun x => x.2) with
  | error e => rfl
  | ok L =>
    simp only [Except.map]
    congr 1
    simp [List.map_flatten]

/-- histories none of which is rooted where `w` wrote are unchanged -/
theorem map_addWritten_ne (w : Written) (v : List Hist) (hb : ∀ y ∈ descList v, y.root ≠ w.histRoot) :
    v.map (addWritten [w]) = v := by
  conv => rhs; rw [← List.map_id v]
  apply List.map_congr_left
  intro x hx
  apply addWritten_of_ne
  intro y hy w' hw'
  simp only [List.mem_singleton] at hw'
  subst hw'
  intro he
  apply hb y _ he.symm
  rw [descList_eq, List.mem_flatMap]
  exact ⟨x, hx, hy⟩

/-- histories all of whose roots lie below `P`, when `w` did not write below `P`: none of them wrote -/
theorem map_addWritten_below (w : Written) (v : List Hist) (P : RelPath)
    (hb : ∀ y ∈ descList v, P <+: y.root) (hP : ¬ P <+: w.histRoot) : v.map (addWritten [w]) = v :=
  map_addWritten_ne w v (fun y hy he => hP (he ▸ hb y hy))

theorem childPair_hist_some (here : RelPath) (c : Node) (s : HistStore) (hs : c.hist = some s) (v : List Hist)
    (hv : (childPair here c).2 = .ok v) :
    checkStore (some s) = .ok () ∧ ∃ kids, findChildren (here ++ [c.name]) c = .ok kids ∧
      v = [buildHist (here ++ [c.name]) (some s) kids] := by
  unfold childPair at hv
  rw [hs] at hv
  dsimp only at hv
  cases hcs : checkStore (some s) with
  | error e => simp [hcs, bind, Except.bind] at hv
  | ok u =>
    cases hk : findChildren (here ++ [c.name]) c with
    | error e => simp [hcs, hk, bind, Except.bind] at hv
    | ok kids =>
      simp only [hcs, hk, bind, Except.bind, pure, Except.pure, Except.ok.injEq] at hv
      exact ⟨rfl, kids, rfl, hv.symm⟩

theorem childPair_of_some (here : RelPath) (c : Node) (s : HistStore) (hs : c.hist = some s) (kids : List Hist)
    (hchk : checkStore (some s) = .ok ()) (hk : findChildren (here ++ [c.name]) c = .ok kids) :
    childPair here c = (c.name, .ok [buildHist (here ++ [c.name]) (some s) kids]) := by
  unfold childPair
  rw [hs]
  simp only [hchk, hk, bind, Except.bind, pure, Except.pure]

theorem childPair_of_none (here : RelPath) (c : Node) (hs : c.hist = none) :
    childPair here c = (c.name, findChildren (here ++ [c.name]) c) := by
  unfold childPair
  rw [hs]

theorem prefix_snoc_cons {here : RelPath} {a n : String} {rest : RelPath}
    (h : (here ++ [a]) <+: (here ++ n :: rest)) : a = n := by
  rw [List.prefix_append_right_inj] at h
  exact (List.cons_prefix_cons.1 h).1

/-- ONE WRITE INTO A NESTED `ascmhl` FOLDER, seen from the walk for nested histories: the folder at `r` (below the
folder the walk starts from) holds the store `s`; after `add` of `w` — whose store passes the chain check and loads as
the old generations followed by the new one — the walk finds the same histories, the one rooted there with its new
generation -/
theorem findChildren_addGeneration (w : Written) : ∀ (r : RelPath) (t d : Node) (s : HistStore) (here : RelPath)
    (kids : List Hist), r ≠ [] → t.NamesDistinct → t.at? r = some d → d.hist = some s →
    parseGenName w.gen.fileName = some w.number → w.gen.state = .ok → (∀ g ∈ loadGens s, g.number < w.number) →
    w.histRoot = here ++ r → findChildren here t = .ok kids →
    findChildren here (Node.updateAt (Node.addGeneration w) t r) = .ok (kids.map (addWritten [w])) := by
  intro r
  induction r with
  | nil => intro _ _ _ _ _ hne; exact absurd rfl hne
  | cons n rest ih =>
    intro t d s here kids _ hd hat hds hparse hstate hlt hroot hk
    have hload := MhlProps.C06.loadGens_add_lt s w w.number hparse hstate hlt
    cases t with
    | file _ _ => simp [Node.at?] at hat
    | dir nm cs h =>
      rw [Node.namesDistinct_dir] at hd
      rw [Node.at?_dir_cons] at hat
      cases hc : findChild cs n with
      | none => rw [hc] at hat; cases hat
      | some c =>
        rw [hc] at hat
        have hat : c.at? rest = some d := hat
        have hmem : c ∈ cs := List.mem_of_find?_eq_some hc
        have hcn : c.name = n := findChild_name hc
        obtain ⟨-, hallok⟩ := findChildren_dir_ok here nm cs h kids hk
        rw [updateAt_dir_cons, updateKids_eq_map]
        have key : (cs.map fun c' => if c'.name == n then Node.updateAt (Node.addGeneration w) c' rest else c').map
            (childPair here) =
            (cs.map (childPair here)).map fun x => (x.1, x.2.map (List.map (addWritten [w]))) := by
          rw [List.map_map, List.map_map]
          apply List.map_congr_left
          intro c' hc'
          simp only [Function.comp]
          by_cases hname : c'.name = n
          · -- the child on the way
            have hcc : c' = c := by
              have h1 := findChild_of_mem hd.1 hc'
              rw [hname, hc] at h1
              exact (Option.some.inj h1).symm
            subst hcc
            simp only [hname, beq_self_eq_true, if_true]
            have hok := hallok c' hc'
            cases rest with
            | nil =>
              rw [Node.at?_nil'] at hat
              have hcd : c' = d := Option.some.inj hat
              subst hcd
              obtain ⟨hchk0, kidsc, hkc, hv⟩ := childPair_hist_some here c' s hds _ hok
              have hchk := checkStore_add s w w.number hchk0 hparse hstate hlt
              cases c' with
              | file _ _ => cases hds
              | dir cn ccs ch =>
                simp only [Node.hist] at hds
                subst hds
                simp only [Node.name] at hname hkc hv
                have hupd : Node.updateAt (Node.addGeneration w) (.dir cn ccs (some s)) [] =
                    .dir cn ccs (some (s.add w)) := by
                  simp [Node.updateAt, Node.addGeneration]
                rw [hupd]
                have hkc' : findChildren (here ++ [(Node.dir cn ccs (some (s.add w))).name])
                    (.dir cn ccs (some (s.add w))) = .ok kidsc := by
                  rw [← hkc]; simp only [Node.name]; rw [findChildren_dir, findChildren_dir]
                rw [childPair_of_some here _ (s.add w) rfl kidsc hchk hkc',
                  childPair_of_some here (.dir cn ccs (some s)) s rfl kidsc hchk0 hkc]
                simp only [Node.name, Except.map, List.map_cons, List.map_nil]
                congr 3
                rw [addWritten_buildHist]
                have hr : w.histRoot = here ++ [cn] := by rw [hroot, hname]
                have hng : newGens [w] (here ++ [cn]) = [⟨w.number, w.gen⟩] := by
                  simp [newGens, hr]
                have hnc : newChain_n2 [w] (here ++ [cn]) = [⟨w.number, w.gen.fileName⟩] := by
                  simp [newChain_n2, hr]
                have hkids : kidsc.map (addWritten [w]) = kidsc := by
                  apply map_addWritten_ne w kidsc
                  intro y hy he
                  obtain ⟨c2, -, hp⟩ := findChildren_below_u (here ++ [cn]) _ kidsc hkc y hy
                  rw [he, hr] at hp
                  have := hp.length_le
                  simp at this
                rw [hng, hnc, hkids]
                simp only [buildHist, Hist.gens, Hist.chain, Hist.folderExists, hload, Bool.true_or]
                rfl
            | cons n' rest' =>
              cases c' with
              | file _ _ => simp [Node.at?] at hat
              | dir cn ccs ch =>
                simp only [Node.name] at hname
                have hdc : (Node.dir cn ccs ch).NamesDistinct := hd.2 _ hc'
                have hr' : w.histRoot = (here ++ [cn]) ++ n' :: rest' := by
                  rw [hroot, hname]; simp
                have hrne : w.histRoot ≠ here ++ [cn] := by
                  rw [hr']
                  intro he
                  have := congrArg List.length he
                  simp at this
                have hng : newGens [w] (here ++ [cn]) = [] := newGens_of_ne _ _ (by simpa using hrne)
                have hnc : newChain_n2 [w] (here ++ [cn]) = [] := newChain_of_ne _ _ (by simpa using hrne)
                have hany : ([w].any fun w' => w'.histRoot == here ++ [cn]) = false :=
                  any_root_of_ne _ _ (by simpa using hrne)
                rw [updateAt_dir_cons]
                cases ch with
                | none =>
                  rw [childPair_of_none here _ rfl, childPair_of_none here (.dir cn ccs none) rfl] at *
                  simp only [Node.name] at hok ⊢
                  have := ih (.dir cn ccs none) d s (here ++ [cn]) _ (by simp) hdc hat hds hparse hstate hlt hr' hok
                  rw [updateAt_dir_cons] at this
                  rw [this, hok]
                  rfl
                | some sc =>
                  obtain ⟨hchk0, kidsc, hkc, hv⟩ := childPair_hist_some here (.dir cn ccs (some sc)) sc rfl _ hok
                  simp only [Node.name] at hkc
                  have := ih (.dir cn ccs (some sc)) d s (here ++ [cn]) _ (by simp) hdc hat hds hparse hstate hlt hr' hkc
                  rw [updateAt_dir_cons] at this
                  rw [childPair_of_some here (.dir cn (Node.updateKids (Node.addGeneration w) n' rest' ccs) (some sc))
                      sc rfl _ hchk0 this,
                    childPair_of_some here (.dir cn ccs (some sc)) sc rfl kidsc hchk0 hkc]
                  simp only [Node.name, Except.map, List.map_cons, List.map_nil]
                  congr 3
                  rw [addWritten_buildHist, hng, hnc, hany]
                  simp [buildHist, Hist.gens, Hist.chain, Hist.folderExists]
          · -- another child: nothing below it wrote
            have hne : (c'.name == n) = false := beq_false_of_ne hname
            simp only [hne, Bool.false_eq_true, if_false]
            have hok := hallok c' hc'
            have hv : (valOf (childPair here c')).map (addWritten [w]) = valOf (childPair here c') := by
              apply map_addWritten_below w _ (here ++ [c'.name])
              · exact childPair_below here cs c' hc' _ hok
              · intro hp
                rw [hroot] at hp
                exact hname (prefix_snoc_cons hp)
            rw [Prod.ext_iff]
            refine ⟨rfl, ?_⟩
            simp only
            rw [hok, Except.map, hv]
        rw [findChildren_dir_map (addWritten [w]) here nm nm cs _ h h key, hk]
        rfl

/-- `w` is a valid next generation of the member of `h` rooted at `w.histRoot`: its file name parses to its number,
the manifest is intact, and the number is above every loaded number of that history -/
def WriteOk (h : Hist) (w : Written) : Prop :=
  parseGenName w.gen.fileName = some w.number ∧ w.gen.state = .ok ∧
    ∃ x ∈ h.all, x.root = w.histRoot ∧ ∀ g ∈ x.gens, g.number < w.number

theorem addGeneration_dir (w : Written) (nm : String) (cs : List Node) (hs : Option HistStore) :
    Node.addGeneration w (.dir nm cs hs) = .dir nm cs (some ((hs.getD {}).add w)) := rfl

/-- ONE WRITE, seen from `loadHistory`: the tree loads as before, the history that wrote with its new generation -/
theorem load_step (t : Node) (h : Hist) (w : Written) (hl : loadHistory t = .ok h) (hd : t.NamesDistinct)
    (hdir : t.isDir = true) (hw : WriteOk h w) :
    loadHistory (Node.updateAt (Node.addGeneration w) t w.histRoot) = .ok (addWritten [w] h) := by
  obtain ⟨hparse, hstate, x, hx, hxr, hlt⟩ := hw
  have hg := loadHistory_histOK t h hl hd
  have hstores := loadHistory_stores t h hl hd
  obtain ⟨kids, hk, rfl⟩ := loadHistory_ok_eq t h hl
  cases t with
  | file _ _ => cases hdir
  | dir nm cs hs =>
    have hchk0 : checkStore hs = .ok () := by
      unfold loadHistory at hl
      cases hc : checkStore hs with
      | error e => simp [Node.hist, hc, bind, Except.bind] at hl
      | ok u => rfl
    have hkidsne : ∀ y ∈ descList kids, y.root ≠ [] := by
      intro y hy
      have : y ∈ allDescendants (buildHist [] (Node.dir nm cs hs).hist kids) := by rw [buildHist_desc]; exact hy
      exact (hg.isDir y this).1
    cases hr : w.histRoot with
    | nil =>
      rw [hr] at hxr
      have hxh : x = buildHist [] hs kids := by
        rcases List.mem_cons.1 hx with h0 | h0
        · exact h0
        · exact absurd hxr (hg.isDir x h0).1
      subst hxh
      rw [updateAt_nil_u, addGeneration_dir]
      have hgens : (buildHist [] hs kids).gens = loadGens (hs.getD {}) := by cases hs <;> rfl
      have hchain : (buildHist [] hs kids).chain = (hs.getD {}).chain := by cases hs <;> rfl
      rw [hgens] at hlt
      have hchkD : checkStore (some (hs.getD {})) = .ok () := by
        cases hs with
        | none => rfl
        | some s => exact hchk0
      have hchk := checkStore_add (hs.getD {}) w w.number hchkD hparse hstate hlt
      have hload := MhlProps.C06.loadGens_add_lt (hs.getD {}) w w.number hparse hstate hlt
      have hk' : findChildren [] (.dir nm cs (some ((hs.getD {}).add w))) = .ok kids := by
        rw [← hk, findChildren_dir, findChildren_dir]
      unfold loadHistory
      simp only [Node.hist, hchk, hk', bind, Except.bind, pure, Except.pure]
      congr 1
      rw [addWritten_buildHist, map_addWritten_ne w kids (fun y hy => by rw [hr]; exact hkidsne y hy), hgens, hchain]
      have hng : newGens [w] [] = [⟨w.number, w.gen⟩] := by simp [newGens, hr]
      have hnc : newChain_n2 [w] [] = [⟨w.number, w.gen.fileName⟩] := by simp [newChain_n2, hr]
      rw [hng, hnc]
      simp only [buildHist, hload]
      congr 1
      simp [hr]
    | cons n rest =>
      rw [hr] at hxr
      have hxd : x ∈ allDescendants (buildHist [] hs kids) := by
        rcases List.mem_cons.1 hx with h0 | h0
        · rw [h0, buildHist_root] at hxr; cases hxr
        · exact h0
      obtain ⟨d, s, hat, hds, hgens, -⟩ := hstores x hxd
      rw [hxr] at hat
      rw [hgens] at hlt
      have hfc := findChildren_addGeneration w (n :: rest) (.dir nm cs hs) d s [] kids (by simp) hd hat hds hparse
        hstate hlt (by rw [hr]; rfl) hk
      rw [updateAt_dir_cons] at hfc ⊢
      unfold loadHistory
      simp only [Node.hist, hchk0, hfc, bind, Except.bind, pure, Except.pure]
      congr 1
      rw [addWritten_buildHist]
      have hne : ∀ w' ∈ [w], w'.histRoot ≠ ([] : RelPath) := by
        intro w' hw'
        simp only [List.mem_singleton] at hw'
        subst hw'
        rw [hr]; simp
      rw [newGens_of_ne _ _ hne, newChain_of_ne _ _ hne, any_root_of_ne _ _ hne]
      cases hs <;> simp [buildHist, Hist.gens, Hist.chain, Hist.folderExists]

/-! ## C. what a write leaves alone: everything that does not look into the `ascmhl` folders -/

mutual
/-- the tree without any `ascmhl` folder -/
def Node.eraseHist : Node → Node
  | .file n c => .file n c
  | .dir n cs _ => .dir n (eraseHistList cs) none
def eraseHistList : List Node → List Node
  | [] => []
  | c :: cs => c.eraseHist :: eraseHistList cs
end

theorem eraseHistList_eq_map (cs : List Node) : eraseHistList cs = cs.map Node.eraseHist := by
  induction cs with
  | nil => rfl
  | cons c cs ih => rw [eraseHistList, ih]; rfl

theorem Node.eraseHist_dir (n : String) (cs : List Node) (h : Option HistStore) :
    (Node.dir n cs h).eraseHist = .dir n (cs.map Node.eraseHist) none := by
  rw [Node.eraseHist, eraseHistList_eq_map]

theorem Node.eraseHist_name (t : Node) : t.eraseHist.name = t.name := by
  cases t with
  | file _ _ => rfl
  | dir _ _ _ => rw [Node.eraseHist_dir]; rfl

theorem Node.eraseHist_isDir (t : Node) : t.eraseHist.isDir = t.isDir := by
  cases t with
  | file _ _ => rfl
  | dir _ _ _ => rw [Node.eraseHist_dir]; rfl

theorem traverse_eraseHist (hit : RelPath → Bool) (t : Node) :
    ∀ here, traverse hit here t.eraseHist = traverse hit here t := by
  induction t using Node.induct with
  | file n c => intro here; rfl
  | dir n cs h ih =>
    intro here
    rw [Node.eraseHist_dir, traverse_dir, traverse_dir]
    have : (cs.map Node.eraseHist).map (kidOf hit here) = cs.map (kidOf hit here) := by
      rw [List.map_map]
      apply List.map_congr_left
      intro c hc
      simp only [Function.comp, kidOf, Node.eraseHist_name, Node.eraseHist_isDir, ih c hc]
    unfold visKids
    rw [this]

theorem namesDistinct_eraseHist (t : Node) : t.eraseHist.NamesDistinct ↔ t.NamesDistinct := by
  induction t using Node.induct with
  | file n c => exact Iff.rfl
  | dir n cs h ih =>
    rw [Node.eraseHist_dir, Node.namesDistinct_dir, Node.namesDistinct_dir, List.map_map]
    have : (Node.name ∘ Node.eraseHist) = Node.name := by funext c; exact Node.eraseHist_name c
    rw [this]
    apply and_congr_right
    intro _
    constructor
    · intro hall c hc
      exact (ih c hc).1 (hall _ (List.mem_map_of_mem hc))
    · intro hall c' hc'
      obtain ⟨c, hc, rfl⟩ := List.mem_map.1 hc'
      exact (ih c hc).2 (hall c hc)

theorem descNames_eraseHist (t : Node) : t.eraseHist.descNames = t.descNames := by
  induction t using Node.induct with
  | file n c => rfl
  | dir n cs h ih =>
    rw [Node.eraseHist_dir, Node.descNames, Node.descNames, Node.descNamesKids_eq, Node.descNamesKids_eq,
      List.flatMap_map]
    apply List.flatMap_congr
    intro c hc
    rw [Node.eraseHist_name, ih c hc]

theorem namesOk_eraseHist (t : Node) : t.eraseHist.NamesOk ↔ t.NamesOk := by
  unfold Node.NamesOk
  rw [descNames_eraseHist]

theorem findChild_map_eraseHist (cs : List Node) (n : String) :
    findChild (cs.map Node.eraseHist) n = (findChild cs n).map Node.eraseHist := by
  unfold findChild
  induction cs with
  | nil => rfl
  | cons c cs ih =>
    rw [List.map_cons, List.find?_cons, List.find?_cons, Node.eraseHist_name]
    cases c.name == n with
    | true => rfl
    | false => exact ih

theorem at?_eraseHist (p : RelPath) : ∀ t : Node, t.eraseHist.at? p = (t.at? p).map Node.eraseHist := by
  induction p with
  | nil => intro t; rw [Node.at?_nil', Node.at?_nil']; rfl
  | cons n rest ih =>
    intro t
    cases t with
    | file _ _ => simp [Node.eraseHist, Node.at?]
    | dir nm cs h =>
      rw [Node.eraseHist_dir, Node.at?_dir_cons, Node.at?_dir_cons, findChild_map_eraseHist]
      cases findChild cs n with
      | none => rfl
      | some c => exact ih c

theorem fileContent_eraseHist (t : Node) (p : RelPath) : fileContent t.eraseHist p = fileContent t p := by
  unfold fileContent
  rw [at?_eraseHist]
  cases t.at? p with
  | none => rfl
  | some x =>
    cases x with
    | file _ _ => rfl
    | dir _ _ _ => simp [Node.eraseHist_dir]

theorem eraseHist_updateAt (f : Node → Node) (hf : ∀ x, (f x).eraseHist = x.eraseHist) :
    ∀ (p : RelPath) (t : Node), (Node.updateAt f t p).eraseHist = t.eraseHist := by
  intro p
  induction p with
  | nil => intro t; rw [updateAt_nil_u, hf]
  | cons n rest ih =>
    intro t
    cases t with
    | file _ _ => simp [Node.updateAt]
    | dir nm cs h =>
      rw [updateAt_dir_cons, Node.eraseHist_dir, Node.eraseHist_dir, updateKids_eq_map, List.map_map]
      congr 1
      apply List.map_congr_left
      intro c _
      simp only [Function.comp]
      split
      · exact ih c
      · rfl

theorem eraseHist_addGeneration (w : Written) (x : Node) : (Node.addGeneration w x).eraseHist = x.eraseHist := by
  cases x with
  | file _ _ => rfl
  | dir n cs h => rw [addGeneration_dir, Node.eraseHist_dir, Node.eraseHist_dir]

theorem eraseHist_applyWritten (t : Node) (ws : List Written) : (applyWritten t ws).eraseHist = t.eraseHist := by
  unfold applyWritten
  induction ws generalizing t with
  | nil => rfl
  | cons w ws ih =>
    rw [List.foldl_cons, ih, eraseHist_updateAt _ (eraseHist_addGeneration w)]

/-- two trees that only differ in their `ascmhl` folders -/
def SameFiles (a b : Node) : Prop := a.eraseHist = b.eraseHist

theorem SameFiles.traverse {a b : Node} (h : SameFiles a b) (hit : RelPath → Bool) (here : RelPath) :
    traverse hit here a = traverse hit here b := by
  rw [← traverse_eraseHist hit a here, h, traverse_eraseHist]

theorem SameFiles.visiblePaths {a b : Node} (h : SameFiles a b) (hit : RelPath → Bool) :
    visiblePaths hit a = visiblePaths hit b := by
  unfold MhlModel.visiblePaths
  rw [h.traverse]

theorem SameFiles.namesDistinct {a b : Node} (h : SameFiles a b) : a.NamesDistinct ↔ b.NamesDistinct := by
  rw [← namesDistinct_eraseHist a, h, namesDistinct_eraseHist]

theorem SameFiles.namesOk {a b : Node} (h : SameFiles a b) : a.NamesOk ↔ b.NamesOk := by
  rw [← namesOk_eraseHist a, h, namesOk_eraseHist]

theorem SameFiles.isDir {a b : Node} (h : SameFiles a b) : a.isDir = b.isDir := by
  rw [← Node.eraseHist_isDir a, h, Node.eraseHist_isDir]

theorem SameFiles.fileContent {a b : Node} (h : SameFiles a b) (p : RelPath) :
    fileContent a p = fileContent b p := by
  rw [← fileContent_eraseHist a, h, fileContent_eraseHist]

theorem sameFiles_applyWritten (t : Node) (ws : List Written) : SameFiles (applyWritten t ws) t :=
  eraseHist_applyWritten t ws

theorem sameFiles_step (t : Node) (w : Written) (p : RelPath) :
    SameFiles (Node.updateAt (Node.addGeneration w) t p) t :=
  eraseHist_updateAt _ (eraseHist_addGeneration w) p t

/-- ALL WRITES OF A RUN, seen from `loadHistory`: if the generations have pairwise different history roots and each
is a valid next generation of its history, the tree with them loads as `addWritten ws h` -/
theorem load_applyWritten (ws : List Written) : ∀ (t : Node) (h : Hist), loadHistory t = .ok h → t.NamesDistinct →
    t.isDir = true → (ws.map (·.histRoot)).Nodup → (∀ w ∈ ws, WriteOk h w) →
    loadHistory (applyWritten t ws) = .ok (addWritten ws h) := by
  induction ws with
  | nil =>
    intro t h hl _ _ _ _
    rw [addWritten_nil]
    exact hl
  | cons w ws ih =>
    intro t h hl hd hdir hnd hok
    rw [List.map_cons, List.nodup_cons] at hnd
    have h1 := load_step t h w hl hd hdir (hok w (by simp))
    have hs := sameFiles_step t w w.histRoot
    have := ih _ _ h1 (hs.namesDistinct.2 hd) (by rw [hs.isDir]; exact hdir) hnd.2 (by
      intro w' hw'
      obtain ⟨hp, hst, x, hx, hxr, hlt⟩ := hok w' (by simp [hw'])
      refine ⟨hp, hst, addWritten [w] x, ?_, by rw [addWritten_root]; exact hxr, ?_⟩
      · rw [all_addWritten]; exact List.mem_map_of_mem hx
      · rw [addWritten_gens, newGens_of_ne, List.append_nil]
        · exact hlt
        · intro w0 hw0
          simp only [List.mem_singleton] at hw0
          subst hw0
          rw [hxr]
          intro he
          exact hnd.1 (List.mem_map.2 ⟨w', hw', he.symm⟩))
    rw [addWritten_cons]
    exact this

/-! ## D. the lookups of verify over `gens ++ [new]` -/

theorem recordedName_append_noPrev (gens : List LGen) (G : LGen) (p : String)
    (hG : ∀ r ∈ G.gen.records, r.prev = none) : recordedName (gens ++ [G]) p = recordedName gens p := by
  unfold recordedName
  rw [List.foldl_append, List.foldl_cons, List.foldl_nil]
  cases hf : G.gen.records.find? (fun r => r.path == List.foldl (fun p g =>
      match g.gen.records.find? (fun r => r.path == p) with
      | some r => r.prev.getD p
      | none => p) p gens) with
  | none => rfl
  | some r => simp only [hG r (List.mem_of_find?_eq_some hf), Option.getD_none]

/-- a generation that does not find the path has no record under that path -/
theorem find_none_records (g : Generation) (p : String) (h : g.find p = none) :
    g.records.find? (fun r => r.path == p) = none := by
  unfold Generation.find at h
  rw [List.find?_eq_none] at h ⊢
  intro r hr
  have := h r (List.mem_reverse.2 (List.mem_append_right _ hr))
  simp only [Bool.or_eq_true, not_or] at this
  exact this.1

theorem recordedName_of_unrecorded (gens : List LGen) (p : String) (h : ∀ g ∈ gens, g.gen.find p = none) :
    recordedName gens p = p := by
  apply recordedName_of_noPrev
  intro g hg r hr hp
  have := find_none_records g.gen p (h g hg)
  rw [List.find?_eq_none] at this
  exact absurd (by simpa using hp) (this r hr)

/-- what `create` leaves stays so when a generation without previous paths is appended -/
theorem recordedOriginal_append (gens : List LGen) (G : LGen) (p : String)
    (hG : ∀ r ∈ G.gen.records, r.prev = none) (h : RecordedOriginal gens p) : RecordedOriginal (gens ++ [G]) p := by
  obtain ⟨h1, e, h2, h3⟩ := h
  exact ⟨by rw [recordedName_append_noPrev gens G p hG, h1], e, original_is_monotone gens _ p e h2,
    reference_is_monotone gens _ p e.fmt e h3⟩

/-- a path without any record gets one whose entries are all `original` -/
theorem recordedOriginal_new (gens : List LGen) (G : LGen) (p : String) (r : Record)
    (hG : ∀ r ∈ G.gen.records, r.prev = none) (hun : ∀ g ∈ gens, g.gen.find p = none)
    (hfind : G.gen.find p = some r) (hne : r.entries ≠ []) (horig : ∀ e ∈ r.entries, e.action = "original") :
    RecordedOriginal (gens ++ [G]) p :=
  ⟨by rw [recordedName_append_noPrev gens G p hG, recordedName_of_unrecorded gens p hun],
    recordedOriginal_of_first (gens ++ [G]) gens [] G p r rfl hun hfind hne horig⟩

/-- the references stay the digests of the content when the appended generation records such digests -/
theorem firstOk_append_gen (dig : String → String) (gens : List LGen) (G : LGen) (p : String)
    (h : FirstOk dig gens p) (hr : ∀ r, G.gen.find p = some r → ∀ e ∈ r.entries, e.digest = dig e.fmt) :
    FirstOk dig (gens ++ [G]) p := by
  intro fmt e he
  cases hold : findFirstOfFormat gens p fmt with
  | some e1 =>
    rw [reference_is_monotone gens _ p fmt e1 hold] at he
    cases he; exact h fmt e hold
  | none =>
    unfold findFirstOfFormat at he hold
    rw [findSome_append, hold] at he
    simp only [Option.orElse, List.findSome?_cons, List.findSome?_nil] at he
    cases hf : G.gen.find p with
    | none => simp [hf] at he
    | some r =>
      simp only [hf] at he
      cases hfe : r.entries.find? (fun e => e.fmt == fmt) with
      | none => simp [hfe] at he
      | some e0 =>
        simp [hfe] at he; subst he
        have hfmt : e0.fmt = fmt := by simpa using List.find?_some hfe
        rw [← hfmt]; exact hr r hf e0 (List.mem_of_find?_eq_some hfe)

/-- the record of a path in a generation with pairwise different record paths and no previous paths -/
theorem find_of_record (g : Generation) (r : Record) (hnd : (g.records.map (·.path)).Nodup)
    (hprev : ∀ x ∈ g.records, x.prev = none) (hr : r ∈ g.records) (hdot : r.path ≠ ".") :
    g.find r.path = some r := by
  unfold Generation.find
  apply reverse_find?_unique
  · exact List.mem_append_right _ hr
  · simp
  · intro x hx hpx
    rcases List.mem_append.1 hx with hx | hx
    · exfalso
      cases hrh : g.rootHash with
      | none => simp [hrh] at hx
      | some es =>
        simp only [hrh, List.mem_singleton] at hx
        subst hx
        simp at hpx
        exact hdot hpx.symm
    · have hp := hprev x hx
      simp only [hp, Bool.or_eq_true, beq_iff_eq, reduceCtorEq, or_false] at hpx
      exact record_unique hnd hx hr hpx

/-- the entries `seal_file_path` appends are all `original` when the history has no original entry for the path -/
theorem sealEntries_original (gens : List LGen) (p : String) (dig : String → String) (req : List String)
    (h : findOriginal gens p = none) : ∀ e ∈ (sealEntries gens p dig req).1, e.action = "original" := by
  obtain ⟨e1, e2, heq, h1, h2, -⟩ := sealEntries_shape gens p dig req
  rw [heq]
  intro e he
  rcases List.mem_append.1 he with h' | h'
  · rw [(h1 e h').2.2]; exact (original_iff_first gens p _ _).2 h
  · rw [(h2 e h').2.2]; exact (original_iff_first gens p _ _).2 h

theorem findOriginal_none_of_unrecorded (gens : List LGen) (p : String) (h : ∀ g ∈ gens, g.gen.find p = none) :
    findOriginal gens p = none := by
  unfold findOriginal
  rw [List.findSome?_eq_none_iff]
  intro g hg
  rw [h g hg]

/-! ## E. without `-dr` no record of the session carries a previous path -/

def NewList.NoPrev (nl : NewList) : Prop := ∀ r ∈ nl.records, r.prev = none

def Session.NoPrev (s : Session) : Prop := ∀ l ∈ s.lists, l.NoPrev

theorem Session.noPrev_touch {s : Session} (hs : s.NoPrev) (root : RelPath) : (s.touch root).NoPrev := by
  unfold Session.touch
  split
  · exact hs
  · intro l hl
    rcases List.mem_append.1 hl with h | h
    · exact hs l h
    · simp only [List.mem_singleton] at h
      subst h
      intro r hr
      cases hr

theorem Session.noPrev_get {s : Session} (hs : s.NoPrev) (root : RelPath) : (s.get root).NoPrev := by
  unfold Session.get
  cases hf : s.lists.find? (fun l => l.root == root) with
  | none => intro r hr; cases hr
  | some l => exact hs l (List.mem_of_find?_eq_some hf)

theorem Session.noPrev_put {s : Session} (hs : s.NoPrev) {nl : NewList} (hn : nl.NoPrev) : (s.put nl).NoPrev := by
  unfold Session.put
  split
  · intro l hl
    obtain ⟨l0, hl0, rfl⟩ := List.mem_map.1 hl
    split
    · exact hn
    · exact hs l0 hl0
  · intro l hl
    rcases List.mem_append.1 hl with h | h
    · exact hs l h
    · simp only [List.mem_singleton] at h
      subst h
      exact hn

theorem NewList.noPrev_update {nl : NewList} (hn : nl.NoPrev) (path : String) (size : Option Nat)
    (f : Record → Record) (hf : ∀ r, (f r).prev = r.prev) : (nl.update path size f).NoPrev := by
  unfold NewList.update
  split
  · exact hn
  · split
    · intro r hr
      obtain ⟨r0, hr0, rfl⟩ := List.mem_map.1 hr
      split
      · rw [hf]; exact hn r0 hr0
      · exact hn r0 hr0
    · intro r hr
      rcases List.mem_append.1 hr with h | h
      · exact hn r h
      · simp only [List.mem_singleton] at h
        subst h
        rw [hf]

theorem sealFile_noPrev (H : HashFn) (rootHist : Hist) (s : Session) (hs : s.NoPrev) (file : RelPath) (c : Bytes)
    (req : List String) : (sealFile H rootHist s file c req).1.NoPrev := by
  unfold sealFile
  generalize route rootHist file = x
  obtain ⟨h', hrel⟩ := x
  dsimp only
  generalize sealEntries h'.gens (posix hrel) (fun f => H f c) req = y
  obtain ⟨ents, res⟩ := y
  dsimp only
  split
  · exact hs
  · apply Session.noPrev_put (Session.noPrev_touch hs _)
    apply NewList.noPrev_update (Session.noPrev_get (Session.noPrev_touch hs _) _)
    intro r; rfl

theorem appendDirHashes_noPrev (rootHist : Hist) (s : Session) (hs : s.NoPrev) (folder : RelPath)
    (hashes : List (String × String × String)) : (appendDirHashes rootHist s folder hashes).NoPrev := by
  unfold appendDirHashes
  generalize route rootHist folder = x
  obtain ⟨h', hrel⟩ := x
  dsimp only
  have hupd : ∀ (s' : Session), s'.NoPrev → ∀ (root : RelPath) (p : String) (ents : List Entry),
      ((s'.touch root).put (((s'.touch root).get root).update p none fun r =>
        { r with isDir := true, entries := r.entries ++ ents })).NoPrev := by
    intro s' hs' root p ents
    apply Session.noPrev_put (Session.noPrev_touch hs' _)
    apply NewList.noPrev_update (Session.noPrev_get (Session.noPrev_touch hs' _) _)
    intro r; rfl
  have h1 := hupd s hs h'.root (posix hrel)
  split
  · split
    · exact hupd _ (h1 _) _ _ _
    · exact h1 _
  · exact h1 _

theorem createVisit_noPrev (env : Env) (t : Node) (rootHist : Hist) (fmts : List String) (noDir : Bool)
    (st : CreateState) (v : Visit) (hs : st.session.NoPrev) :
    (createVisit env t rootHist fmts noDir st v).session.NoPrev := by
  unfold createVisit
  dsimp only
  generalize hres : List.foldl _ (st, _) v.children = res
  have hP : res.1.session.NoPrev := by
    rw [← hres]
    refine foldl_inv_mem (fun (a : CreateState × List (String × DirCtx)) => a.1.session.NoPrev) _ _ _ hs ?_
    intro a b _ hP
    try dsimp only at hP ⊢
    by_cases hd : b.2 = true
    · simp only [hd, if_true]
      split <;> exact hP
    · have hd' : b.2 = false := by simpa using hd
      simp only [hd', Bool.false_eq_true, if_false]
      exact sealFile_noPrev env.H rootHist _ hP _ _ _
  cases noDir <;> exact appendDirHashes_noPrev rootHist _ hP _ _

theorem cSession_noPrev (env : Env) (t : Node) (rootHist : Hist) (o : CreateOpts) :
    (cSession env t rootHist o).NoPrev := by
  unfold cSession
  refine foldl_inv_mem (fun (st' : CreateState) => st'.session.NoPrev) _ _ _ ?_
    (fun b a _ hP => createVisit_noPrev env t rootHist _ _ b a hP)
  intro l hl
  cases hl

/-! ## F. expected paths -/

theorem mem_expectedPaths_iff (h : Hist) (p : RelPath) :
    p ∈ expectedPaths h ↔ ∃ x ∈ h.all, p ∈ expectedOfGens x.root x.gens := by
  unfold expectedPaths
  show p ∈ List.foldl (fun acc x => (expectedOfGens x.root x.gens).foldl appendNew acc) [] h.all ↔ _
  suffices hgen : ∀ (l : List Hist) (acc : List RelPath),
      p ∈ l.foldl (fun acc x => (expectedOfGens x.root x.gens).foldl appendNew acc) acc ↔
        p ∈ acc ∨ ∃ x ∈ l, p ∈ expectedOfGens x.root x.gens by
    rw [hgen]; simp
  intro l
  induction l with
  | nil => intro acc; simp
  | cons a as ih =>
    intro acc
    rw [List.foldl_cons, ih, mem_foldl_appendNew']
    simp only [List.mem_cons, exists_eq_or_imp]
    rw [or_assoc]

/-- what is expected after the run: what was expected before, or what a written generation records -/
theorem mem_expectedPaths_addWritten (ws : List Written) (hnd : (ws.map (·.histRoot)).Nodup) (h : Hist) (p : RelPath)
    (hp : p ∈ expectedPaths (addWritten ws h)) :
    p ∈ expectedPaths h ∨ ∃ w ∈ ws, ∃ r ∈ w.gen.records, p = w.histRoot ++ splitPath r.path := by
  rw [mem_expectedPaths_iff] at hp
  obtain ⟨x', hx', hpx⟩ := hp
  rw [all_addWritten] at hx'
  obtain ⟨x, hx, rfl⟩ := List.mem_map.1 hx'
  rw [addWritten_root, addWritten_gens] at hpx
  by_cases hw : ∃ w ∈ ws, w.histRoot = x.root
  · obtain ⟨w, hwm, hwr⟩ := hw
    rw [← hwr, newGens_single ws hnd w hwm, MhlProps.C17.expected_drops_previous] at hpx
    rcases hpx with ⟨h1, -⟩ | ⟨r, hr, hq⟩
    · left
      rw [mem_expectedPaths_iff]
      exact ⟨x, hx, by rw [← hwr]; exact h1⟩
    · exact Or.inr ⟨w, hwm, r, hr, hq⟩
  · rw [newGens_of_ne ws x.root (fun w hwm he => hw ⟨w, hwm, he⟩), List.append_nil] at hpx
    left
    rw [mem_expectedPaths_iff]
    exact ⟨x, hx, hpx⟩

/-- … and conversely what a written generation records is expected afterwards -/
theorem expected_of_written (ws : List Written) (hnd : (ws.map (·.histRoot)).Nodup) (h : Hist) (w : Written)
    (hw : w ∈ ws) (x : Hist) (hx : x ∈ h.all) (hxr : x.root = w.histRoot) (r : Record) (hr : r ∈ w.gen.records) :
    w.histRoot ++ splitPath r.path ∈ expectedPaths (addWritten ws h) := by
  rw [mem_expectedPaths_iff]
  refine ⟨addWritten ws x, by rw [all_addWritten]; exact List.mem_map_of_mem hx, ?_⟩
  rw [addWritten_root, addWritten_gens, hxr, newGens_single ws hnd w hw, MhlProps.C17.expected_drops_previous]
  exact Or.inr ⟨r, hr, rfl⟩

/-- an expected path stays expected when the new generations record no previous path -/
theorem expected_mono_addWritten (ws : List Written) (hnd : (ws.map (·.histRoot)).Nodup)
    (hprev : ∀ w ∈ ws, ∀ r ∈ w.gen.records, r.prev = none) (h : Hist) (p : RelPath)
    (hp : p ∈ expectedPaths h) : p ∈ expectedPaths (addWritten ws h) := by
  rw [mem_expectedPaths_iff] at hp ⊢
  obtain ⟨x, hx, hpx⟩ := hp
  refine ⟨addWritten ws x, by rw [all_addWritten]; exact List.mem_map_of_mem hx, ?_⟩
  rw [addWritten_root, addWritten_gens]
  by_cases hw : ∃ w ∈ ws, w.histRoot = x.root
  · obtain ⟨w, hwm, hwr⟩ := hw
    rw [← hwr, newGens_single ws hnd w hwm, MhlProps.C17.expected_drops_previous]
    left
    refine ⟨by rw [hwr]; exact hpx, ?_⟩
    rintro ⟨r, hr, q, hq, -⟩
    rw [hprev w hwm r hr] at hq
    cases hq
  · rw [newGens_of_ne ws x.root (fun w hwm he => hw ⟨w, hwm, he⟩), List.append_nil]
    exact hpx

/-! ## G. edits of the tree that loading does not see: new content, a file removed, a file added -/

/-- an update that keeps names and `ascmhl` folders and, at the node it is applied to, the nested histories found,
does not change what the walk for nested histories finds -/
theorem findChildren_updateAt_at (f : Node → Node) (hn : ∀ x, (f x).name = x.name) (hh : ∀ x, (f x).hist = x.hist) :
    ∀ (p : RelPath) (t : Node), t.NamesDistinct →
      (∀ d, t.at? p = some d → ∀ here, findChildren here (f d) = findChildren here d) →
      ∀ here, findChildren here (Node.updateAt f t p) = findChildren here t := by
  intro p
  induction p with
  | nil =>
    intro t _ hf here
    rw [updateAt_nil_u]
    exact hf t (Node.at?_nil' t) here
  | cons m rest ih =>
    intro t hd hf here
    cases t with
    | file _ _ => simp [Node.updateAt]
    | dir nm cs h =>
      rw [Node.namesDistinct_dir] at hd
      rw [updateAt_dir_cons, updateKids_eq_map, findChildren_dir, findChildren_dir, List.map_map]
      congr 3
      apply List.map_congr_left
      intro c hc
      simp only [Function.comp]
      split
      · next hname =>
        have hname' : c.name = m := by simpa using hname
        have hfc : findChild cs m = some c := by rw [← hname']; exact findChild_of_mem hd.1 hc
        have ihc := ih c (hd.2 c hc) (by
          intro d hd' here'
          apply hf d _ here'
          rw [Node.at?_dir_cons, hfc]
          exact hd')
        unfold childPair
        rw [Node.updateAt_name f hn, updateAt_hist f hh, ihc]
      · rfl

theorem loadHistory_updateAt_at (f : Node → Node) (hn : ∀ x, (f x).name = x.name) (hh : ∀ x, (f x).hist = x.hist)
    (p : RelPath) (t : Node) (hd : t.NamesDistinct)
    (hf : ∀ d, t.at? p = some d → ∀ here, findChildren here (f d) = findChildren here d) :
    loadHistory (Node.updateAt f t p) = loadHistory t := by
  unfold loadHistory
  rw [updateAt_hist f hh, findChildren_updateAt_at f hn hh p t hd hf]

theorem setContent_hist (c' : Bytes) (x : Node) : (setContent c' x).hist = x.hist := by
  cases x <;> rfl

/-- replacing the content of a file is not seen by `loadHistory` -/
theorem loadHistory_setContent (c' : Bytes) (p : RelPath) (t : Node) (hd : t.NamesDistinct) :
    loadHistory (Node.updateAt (setContent c') t p) = loadHistory t := by
  apply loadHistory_updateAt_at _ (setContent_name c') (setContent_hist c') p t hd
  intro d _ here
  cases d with
  | file _ _ => rfl
  | dir _ _ _ => rfl

/-- the second component of a per-child result -/
abbrev pairVal (y : String × Except Err (List Hist)) : Except Err (List Hist) := y.2

/-- inserting a result without histories anywhere into the sorted per-child results changes nothing -/
theorem mapM_insertSorted_nil (x : String × Except Err (List Hist)) (hx : x.2 = .ok [])
    (S : List (String × Except Err (List Hist))) :
    ((insertSorted keyLe x S).mapM pairVal).map List.flatten = (S.mapM pairVal).map List.flatten := by
  induction S with
  | nil =>
    simp [insertSorted, pairVal, hx, bind, Except.bind, pure, Except.pure, Except.map]
  | cons y S ih =>
    simp only [insertSorted]
    split
    · rw [List.mapM_cons]
      simp only [pairVal, hx]
      cases (y :: S).mapM pairVal with
      | error e => rfl
      | ok L => simp [bind, Except.bind, pure, Except.pure, Except.map]
    · rw [List.mapM_cons, List.mapM_cons]
      cases pairVal y with
      | error e => rfl
      | ok b =>
        cases h1 : (insertSorted keyLe x S).mapM pairVal with
        | error e =>
          rw [h1] at ih
          cases h2 : S.mapM pairVal with
          | error e' => rw [h2] at ih; simp [Except.map] at ih; subst ih; rfl
          | ok L => rw [h2] at ih; simp [Except.map] at ih
        | ok L1 =>
          rw [h1] at ih
          cases h2 : S.mapM pairVal with
          | error e' => rw [h2] at ih; simp [Except.map] at ih
          | ok L2 =>
            rw [h2] at ih
            simp only [Except.map, Except.ok.injEq] at ih
            simp [bind, Except.bind, pure, Except.pure, Except.map, ih]

theorem childPair_file (here : RelPath) (n : String) (b : Bytes) :
    childPair here (.file n b) = (n, .ok []) := by
  unfold childPair
  simp [Node.hist, Node.name, findChildren, pure, Except.pure]

/-- a folder with one more child that is a file finds the same nested histories -/
theorem findChildren_perm_file (here : RelPath) (nm : String) (cs cs' : List Node) (h : Option HistStore)
    (n : String) (b : Bytes) (hp : cs'.Perm (.file n b :: cs)) (hnd : (cs'.map Node.name).Nodup) :
    findChildren here (.dir nm cs' h) = findChildren here (.dir nm cs h) := by
  rw [findChildren_perm_top here nm h hp hnd, findChildren_dir, findChildren_dir, List.map_cons, isort,
    childPair_file]
  exact mapM_insertSorted_nil (n, .ok []) rfl _

/-- removing a file from a folder is not seen by the walk for nested histories -/
theorem findChildren_removeChild (na : String) (d : Node) (hd : d.NamesDistinct) (nmA : String) (cA : Bytes)
    (ha : d.at? [na] = some (.file nmA cA)) (here : RelPath) :
    findChildren here (removeChild na d) = findChildren here d := by
  cases d with
  | file _ _ => rfl
  | dir nm cs h =>
    rw [Node.namesDistinct_dir] at hd
    rw [Node.at?_dir_cons] at ha
    cases hc : findChild cs na with
    | none => rw [hc] at ha; cases ha
    | some c =>
      rw [hc] at ha
      simp only [Option.bind_some, Node.at?_nil'] at ha
      cases ha
      have hmem : Node.file nmA cA ∈ cs := List.mem_of_find?_eq_some hc
      have hname : nmA = na := findChild_name hc
      subst hname
      obtain ⟨pre, post, hsplit⟩ := List.append_of_mem hmem
      have hnd := hd.1
      rw [hsplit, List.map_append, List.map_cons, List.nodup_append] at hnd
      obtain ⟨hpre, hpost, hdisj⟩ := hnd
      rw [List.nodup_cons] at hpost
      have hfilter : (cs.filter fun c => c.name != nmA) = pre ++ post := by
        rw [hsplit, List.filter_append, List.filter_cons]
        have h1 : pre.filter (fun c => c.name != nmA) = pre := by
          apply List.filter_eq_self.2
          intro c hc'
          have := hdisj c.name (List.mem_map_of_mem hc') nmA (List.mem_cons_self)
          simpa using this
        have h2 : post.filter (fun c => c.name != nmA) = post := by
          apply List.filter_eq_self.2
          intro c hc'
          have : c.name ≠ nmA := fun he => hpost.1 (by
            show nmA ∈ List.map Node.name post
            rw [← he]; exact List.mem_map_of_mem hc')
          simpa using this
        have h3 : ((Node.file nmA cA).name != nmA) = false := by simp [Node.name]
        rw [h1, h2, h3]
        rfl
      show findChildren here (.dir nm (cs.filter fun c => c.name != nmA) h) = _
      rw [hfilter]
      symm
      apply findChildren_perm_file here nm (pre ++ post) cs h nmA cA
      · rw [hsplit]; exact List.perm_middle
      · exact hd.1

/-- adding a file to a folder is not seen by the walk for nested histories -/
theorem findChildren_addChild (nb : String) (c : Bytes) (d : Node) (hd : d.NamesDistinct)
    (hfresh : d.at? [nb] = none) (here : RelPath) :
    findChildren here (addChild (.file nb c) d) = findChildren here d := by
  cases d with
  | file _ _ => rfl
  | dir nm cs h =>
    rw [Node.namesDistinct_dir] at hd
    rw [Node.at?_dir_cons] at hfresh
    have hnone : findChild cs nb = none := by
      cases hc : findChild cs nb with
      | none => rfl
      | some x => rw [hc] at hfresh; simp [Node.at?_nil'] at hfresh
    show findChildren here (.dir nm (cs ++ [.file nb c]) h) = _
    apply findChildren_perm_file here nm cs _ h nb c
    · exact List.perm_append_singleton _ _
    · rw [List.map_append, List.nodup_append]
      refine ⟨hd.1, by simp, ?_⟩
      intro a ha b hb
      simp only [List.map_cons, List.map_nil, List.mem_singleton, Node.name] at hb
      subst hb
      obtain ⟨x, hx, rfl⟩ := List.mem_map.1 ha
      intro he
      unfold findChild at hnone
      have := List.find?_eq_none.1 hnone x hx
      simp [he] at this

/-- the one expected path that is gone, and not ignored, is the missing list — the others being found or ignored -/
theorem missing_single_or (hit : RelPath → Bool) (E F : List RelPath) (a : RelPath) (hnd : E.Nodup) (ha : a ∈ E)
    (haF : a ∉ F) (hhit : hitAbove hit a = false)
    (hrest : ∀ p ∈ E, p ≠ a → p ∈ F ∨ hitAbove hit p = true) :
    missingAfter hit (E.filter fun p => !F.contains p) = [a] := by
  unfold missingAfter
  rw [List.filter_filter]
  apply filter_eq_singleton _ _ _ hnd ha
  intro x hx
  simp only [Bool.and_eq_true, Bool.not_eq_true', List.contains_eq_mem, decide_eq_false_iff_not]
  constructor
  · rintro ⟨hxh, hxF⟩
    by_contra hne
    rcases hrest x hx hne with h1 | h1
    · exact hxF h1
    · rw [hxh] at h1; cases h1
  · rintro rfl
    exact ⟨hhit, haF⟩

theorem SameFiles.at?_none {a b : Node} (h : SameFiles a b) (p : RelPath) : a.at? p = none ↔ b.at? p = none := by
  have h1 := at?_eraseHist p a
  have h2 := at?_eraseHist p b
  unfold SameFiles at h
  rw [h] at h1
  rw [h1] at h2
  cases ha : a.at? p <;> cases hb : b.at? p <;> simp [ha, hb] at h2 ⊢

end MhlModel
