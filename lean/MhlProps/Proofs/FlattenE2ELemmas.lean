/-
Lemmas for C18e2e: the end-to-end composition  create → applyWritten → flatten → verify -pl.

A. `flattenRecords` of ONE generation whose file records are "clean" (distinct paths, per record distinct formats,
   nothing failed, at least one entry): the file records themselves, in order
B. sorting entries that are already sorted by format name
-/
import MhlProps.C18
import MhlProps.C03e2e

namespace MhlModel

/-! ## A. `flattenRecords` of one clean generation -/

/-- the record `flattenRecords` makes of a file record all of whose entries are taken over -/
def stripRec (r : Record) : Record := { path := r.path, size := r.size, entries := r.entries }

theorem stripRec_eq (r : Record) (hd : r.isDir = false) (hp : r.prev = none) : stripRec r = r := by
  cases r
  simp_all [stripRec]

/-- further entries of a path that is the LAST record of the accumulator and has none of their formats yet are
appended to that record -/
theorem foldl_ins_tail (acc : List Record) (p : String) (sz : Option Nat) (rest pre : List Entry)
    (hnew : ∀ r ∈ acc, r.path ≠ p) (hnd : ((pre ++ rest).map (·.fmt)).Nodup) :
    (rest.map fun e => (⟨p, sz, e⟩ : Item)).foldl ins (acc ++ [{ path := p, size := sz, entries := pre }]) =
      acc ++ [{ path := p, size := sz, entries := pre ++ rest }] := by
  induction rest generalizing pre with
  | nil => simp
  | cons e rest ih =>
    have hfind : (acc ++ [({ path := p, size := sz, entries := pre } : Record)]).find? (fun x => x.path == p) =
        some { path := p, size := sz, entries := pre } := by
      rw [List.find?_append]
      have : acc.find? (fun x => x.path == p) = none := by
        rw [List.find?_eq_none]
        intro x hx
        simpa using hnew x hx
      rw [this]
      simp
    have hany : (pre.any fun y => y.fmt == e.fmt) = false := by
      rw [List.any_eq_false]
      intro y hy
      have h1 : (pre.map (·.fmt) ++ (e.fmt :: rest.map (·.fmt))).Nodup := by simpa using hnd
      have := (List.nodup_append.1 h1).2.2 y.fmt (List.mem_map_of_mem hy) e.fmt (by simp)
      simpa using this
    have hmap : (acc ++ [({ path := p, size := sz, entries := pre } : Record)]).map
        (fun y => if y.path == p then { y with entries := y.entries ++ [e] } else y) =
        acc ++ [{ path := p, size := sz, entries := pre ++ [e] }] := by
      rw [List.map_append]
      congr 1
      · conv => rhs; rw [← List.map_id acc]
        apply List.map_congr_left
        intro y hy
        have : (y.path == p) = false := by simpa using hnew y hy
        simp [this]
      · simp
    rw [List.map_cons, List.foldl_cons]
    have hstep : ins (acc ++ [({ path := p, size := sz, entries := pre } : Record)]) ⟨p, sz, e⟩ =
        acc ++ [{ path := p, size := sz, entries := pre ++ [e] }] := by
      unfold ins
      simp only [hfind, hany, Bool.false_eq_true, if_false]
      exact hmap
    rw [hstep, ih (pre ++ [e]) (by simpa using hnd)]
    simp

/-- all entries of one file record whose path is new: one record is appended -/
theorem foldl_ins_record (acc : List Record) (p : String) (sz : Option Nat) (es : List Entry)
    (hnew : ∀ r ∈ acc, r.path ≠ p) (hnd : (es.map (·.fmt)).Nodup) (hne : es ≠ []) :
    (es.map fun e => (⟨p, sz, e⟩ : Item)).foldl ins acc = acc ++ [{ path := p, size := sz, entries := es }] := by
  cases es with
  | nil => exact absurd rfl hne
  | cons e rest =>
    rw [List.map_cons, List.foldl_cons]
    have hfind : acc.find? (fun x => x.path == p) = none := by
      rw [List.find?_eq_none]
      intro x hx
      simpa using hnew x hx
    have hstep : ins acc ⟨p, sz, e⟩ = acc ++ [{ path := p, size := sz, entries := [e] }] := by
      unfold ins
      simp only [hfind]
    rw [hstep, foldl_ins_tail acc p sz rest [e] hnew (by simpa using hnd)]
    simp

/-- a file record none of whose entries failed contributes all its entries -/
theorem itemsOfRecord_clean (r : Record) (hd : r.isDir = false) (hnf : ∀ e ∈ r.entries, e.action ≠ "failed") :
    itemsOfRecord r = r.entries.map fun e => ⟨r.path, r.size, e⟩ := by
  unfold itemsOfRecord
  simp only [hd, Bool.false_eq_true, if_false]
  congr 1
  rw [List.filter_eq_self]
  intro e he
  simpa using hnf e he

/-- the fold of `stepRecord` over records with distinct paths, clean file records -/
theorem foldl_stepRecord_clean (rs : List Record) (acc : List Record)
    (hnd : (rs.map (·.path)).Nodup) (hacc : ∀ a ∈ acc, ∀ r ∈ rs, a.path ≠ r.path)
    (hclean : ∀ r ∈ rs, r.isDir = false →
      (r.entries.map (·.fmt)).Nodup ∧ r.entries ≠ [] ∧ ∀ e ∈ r.entries, e.action ≠ "failed") :
    rs.foldl stepRecord acc = acc ++ (rs.filter fun r => !r.isDir).map stripRec := by
  induction rs generalizing acc with
  | nil => simp
  | cons r rs ih =>
    rw [List.foldl_cons]
    rw [List.map_cons, List.nodup_cons] at hnd
    by_cases hd : r.isDir = true
    · have h1 : stepRecord acc r = acc := by simp [stepRecord, hd]
      rw [h1, ih acc hnd.2 (fun a ha x hx => hacc a ha x (List.mem_cons_of_mem _ hx))
        (fun x hx => hclean x (List.mem_cons_of_mem _ hx))]
      simp [hd]
    · have hd' : r.isDir = false := by simpa using hd
      obtain ⟨c1, c2, c3⟩ := hclean r (by simp) hd'
      have h1 : stepRecord acc r = acc ++ [stripRec r] := by
        rw [stepRecord_eq, itemsOfRecord_clean r hd' c3]
        exact foldl_ins_record acc r.path r.size r.entries (fun a ha => hacc a ha r (by simp)) c1 c2
      rw [h1, ih (acc ++ [stripRec r]) hnd.2 ?_ (fun x hx => hclean x (List.mem_cons_of_mem _ hx))]
      · simp [hd']
      · intro a ha x hx
        rcases List.mem_append.1 ha with ha | ha
        · exact hacc a ha x (List.mem_cons_of_mem _ hx)
        · simp only [List.mem_singleton] at ha
          subst ha
          intro h
          exact hnd.1 (List.mem_map.2 ⟨x, hx, h.symm⟩)

/-- `flattenRecords` of one generation with distinct record paths whose file records are clean: the file records,
in order, reduced to path, size and entries -/
theorem flattenRecords_single (k : Nat) (g : Generation)
    (hnd : (g.records.map (·.path)).Nodup)
    (hclean : ∀ r ∈ g.records, r.isDir = false →
      (r.entries.map (·.fmt)).Nodup ∧ r.entries ≠ [] ∧ ∀ e ∈ r.entries, e.action ≠ "failed") :
    flattenRecords [⟨k, g⟩] = (g.records.filter fun r => !r.isDir).map stripRec := by
  rw [flattenRecords_eq_foldl]
  simp only [List.foldl_cons, List.foldl_nil, stepGen]
  rw [foldl_stepRecord_clean g.records [] hnd (by simp) hclean]
  simp

/-! ## B. sorting what is sorted -/

/-- sorting by format name a list that is a sorted list with distinct formats changes nothing -/
theorem isort_fmt_idem (es : List Entry) (hnd : (es.map (·.fmt)).Nodup) :
    isort (fun a b => strLe a.fmt b.fmt) (isort (fun a b => strLe a.fmt b.fmt) es) =
      isort (fun a b => strLe a.fmt b.fmt) es := by
  have hp : (isort (fun (a b : Entry) => strLe a.fmt b.fmt) es).Perm es := isort_perm _ _
  exact isort_key_eq_of_perm (fun e : Entry => e.fmt) hp ((hp.map _).nodup_iff.2 hnd)

/-! ## C. the entries of a first record are clean -/

open MhlProps.C02rec MhlProps.C04 in
theorem origEntries_fmts_nodup (env : Env) (c : Bytes) (formats : List String) :
    ((origEntries env c formats).map (·.fmt)).Nodup := by
  unfold origEntries
  have hp := (isort_perm (fun (a b : Entry) => strLe a.fmt b.fmt)
    (((isort strLe formats).foldl appendNew []).map fun f =>
      ({ fmt := f, digest := env.H f c, action := "original" } : Entry))).map (·.fmt)
  rw [hp.nodup_iff, List.map_map]
  have : ((fun e : Entry => e.fmt) ∘ fun f => ({ fmt := f, digest := env.H f c, action := "original" } : Entry)) = id := by
    funext f; rfl
  rw [this, List.map_id]
  exact (dedup_spec _).1

theorem origEntries_sorted_idem (env : Env) (c : Bytes) (formats : List String) :
    isort (fun a b => strLe a.fmt b.fmt) (origEntries env c formats) = origEntries env c formats := by
  unfold origEntries
  apply isort_fmt_idem
  rw [List.map_map]
  have : ((fun e : Entry => e.fmt) ∘ fun f => ({ fmt := f, digest := env.H f c, action := "original" } : Entry)) = id := by
    funext f; rfl
  rw [this, List.map_id]
  exact (dedup_spec _).1

theorem origEntries_clean (env : Env) (c : Bytes) (formats : List String) (hf : formats ≠ []) :
    ((origEntries env c formats).map (·.fmt)).Nodup ∧ origEntries env c formats ≠ [] ∧
      ∀ e ∈ origEntries env c formats, e.action ≠ "failed" := by
  refine ⟨origEntries_fmts_nodup env c formats, origEntries_ne_nil env c formats hf, ?_⟩
  intro e he h
  have := (origEntries_spec env c formats e he).1
  rw [this] at h
  exact absurd h (by decide)

/-! ## D. `flatten` with named pieces -/

/-- the generation `flatten` writes for the generations `gens` of the root history -/
def flattenGen (env : Env) (gens : List LGen) (ic ifl : List String) : Generation :=
  { fileName := "packinglist_" ++ env.rootName ++ "_" ++ env.stamp ++ Gen.fileExtension,
    process := "flatten", rootHash := none,
    ignore := setPatterns none (setPatterns (latestIgnore gens) ic ifl) [],
    records := MhlProps.C18.sortedRecords gens }

/-- `flatten`, once the history loaded and is not empty -/
theorem flatten_eq (env : Env) (t : Node) (ic ifl : List String) (h : Hist) (hl : loadHistory t = .ok h)
    (hg : h.gens ≠ []) :
    flatten env t ic ifl =
      { written := if (MhlProps.C18.sortedRecords h.gens).isEmpty then []
                   else [⟨[], 1, flattenGen env h.gens ic ifl⟩] } := by
  have he : h.gens.isEmpty = false := (isEmpty_eq_false_iff _).2 hg
  unfold flatten
  simp only [hl, he]
  rfl

/-- the one-generation history `verify -pl` judges against -/
def plHist (g : Generation) : Hist := .mk [] [⟨1, g⟩] [] true []

theorem plHist_gens (g : Generation) : (plHist g).gens = [⟨1, g⟩] := rfl
theorem plHist_gens_ne (g : Generation) : (plHist g).gens ≠ [] := by simp [plHist, Hist.gens]
theorem plHist_children (g : Generation) : (plHist g).children = [] := rfl

/-- `verify -pl FILE` / `diff` against a packing list: the run of `verifyOrDiff` against `plHist g` -/
theorem verifyOrDiff_pl_eq (env : Env) (t : Node) (o : VerifyOpts) (hashing : Bool) (g : Generation) :
    verifyOrDiff env t o hashing (some g) =
      { err := if hashing then
            verifyExit ((vMism env t (plHist g) o hashing).map posix) ((vNews env t (plHist g) o hashing).map posix)
              o.singleFile.isSome (vFoundSingle env t (plHist g) o hashing) (vMissing env t (plHist g) o)
          else diffExit ((vNews env t (plHist g) o hashing).map posix) (vMissing env t (plHist g) o),
        report := { mismatch := (vMism env t (plHist g) o hashing).map posix,
                    missing := (vMissing env t (plHist g) o).map posix,
                    new := (vNews env t (plHist g) o hashing).map posix } } := by
  unfold verifyOrDiff
  rfl

/-! ## E. the lookups of verify over a packing-list generation -/

/-- what `flatten` guarantees about the generation it writes (and what the lookups need): no root hash, one record
per path, no previous paths -/
structure PlClean (g : Generation) : Prop where
  root : g.rootHash = none
  nodup : (g.records.map (·.path)).Nodup
  prev : ∀ r ∈ g.records, r.prev = none

section plclean
variable {g : Generation}

theorem PlClean.find_some (h : PlClean g) (r : Record) (hr : r ∈ g.records) : g.find r.path = some r := by
  unfold Generation.find
  simp only [h.root, List.nil_append]
  apply reverse_find?_unique
  · exact hr
  · simp
  · intro x hx hpx
    simp only [h.prev x hx, Bool.or_eq_true, beq_iff_eq, reduceCtorEq, or_false] at hpx
    exact record_unique h.nodup hx hr hpx

theorem PlClean.find_none (h : PlClean g) (s : String) (hs : ∀ r ∈ g.records, r.path ≠ s) : g.find s = none := by
  unfold Generation.find
  simp only [h.root, List.nil_append]
  rw [List.find?_eq_none]
  intro x hx
  have hx' := List.mem_reverse.1 hx
  simp [h.prev x hx', hs x hx']

/-- no rename is recorded in a packing list: the recorded name of any path is the path itself -/
theorem PlClean.recordedName_eq (h : PlClean g) (k : Nat) (s : String) : recordedName [⟨k, g⟩] s = s := by
  simp only [recordedName, List.foldl_cons, List.foldl_nil]
  cases hf : g.records.find? (fun r => r.path == s) with
  | none => rfl
  | some r =>
    simp only [h.prev r (List.mem_of_find?_eq_some hf)]
    rfl

theorem PlClean.findOriginal_mem (h : PlClean g) (k : Nat) (r : Record) (hr : r ∈ g.records) :
    findOriginal [⟨k, g⟩] r.path = r.entries.find? (fun e => e.action == "original") := by
  simp only [findOriginal, List.findSome?_cons, h.find_some r hr, List.findSome?_nil]
  cases r.entries.find? (fun e => e.action == "original") <;> rfl

theorem PlClean.findOriginal_none (h : PlClean g) (k : Nat) (s : String) (hs : ∀ r ∈ g.records, r.path ≠ s) :
    findOriginal [⟨k, g⟩] s = none := by
  simp only [findOriginal, List.findSome?_cons, h.find_none s hs, List.findSome?_nil]

/-- the verdict of `verify -pl` / `diff` on a file whose POSIX text is the path of the record `r` -/
theorem PlClean.judgeFile_mem (h : PlClean g) (env : Env) (t2 : Node) (hashing : Bool) (p : RelPath) (r : Record)
    (hr : r ∈ g.records) (hp : r.path = posix p) :
    judgeFile env t2 (plHist g) hashing p =
      match r.entries.find? (fun e => e.action == "original") with
      | none => .new
      | some e => if hashing && env.H e.fmt (fileContent t2 p) != e.digest then .mismatch else .ok := by
  unfold judgeFile
  rw [route_flat _ (plHist_children g) p]
  simp only [plHist_gens, h.recordedName_eq, ← hp, h.findOriginal_mem 1 r hr]
  cases r.entries.find? (fun e => e.action == "original") <;> rfl

/-- a file whose POSIX text is not a record path is new -/
theorem PlClean.judgeFile_new (h : PlClean g) (env : Env) (t2 : Node) (hashing : Bool) (p : RelPath)
    (hs : ∀ r ∈ g.records, r.path ≠ posix p) : judgeFile env t2 (plHist g) hashing p = .new := by
  unfold judgeFile
  rw [route_flat _ (plHist_children g) p]
  simp only [plHist_gens, h.recordedName_eq, h.findOriginal_none 1 _ hs]

/-- the expected paths of a packing list: the split record paths -/
theorem mem_expectedPaths_pl (g : Generation) (p : RelPath) :
    p ∈ expectedPaths (plHist g) ↔ ∃ r ∈ g.records, splitPath r.path = p := by
  simp only [plHist, expectedPaths, allDescendants, descList, List.foldl_cons, List.foldl_nil, Hist.root, Hist.gens,
    expectedOfGens, List.filter_nil]
  rw [mem_foldl_appendNew', mem_foldl_appendNew (fun r : Record => ([] : RelPath) ++ splitPath r.path)]
  simp

theorem expectedPaths_pl_nodup (g : Generation) : (expectedPaths (plHist g)).Nodup := by
  simp only [plHist, expectedPaths, allDescendants, descList, List.foldl_cons, List.foldl_nil]
  exact (foldl_appendNew_nodup _ []).2 (by simp)

theorem vMissing_pl_nodup (env : Env) (t2 : Node) (g : Generation) (o : VerifyOpts) :
    (vMissing env t2 (plHist g) o).Nodup := by
  unfold vMissing missingAfter
  exact List.Nodup.sublist (List.filter_sublist.trans List.filter_sublist) (expectedPaths_pl_nodup g)

theorem eq_singleton_of_nodup {α : Type} {l : List α} {a : α} (hnd : l.Nodup) (h : ∀ x, x ∈ l ↔ x = a) :
    l = [a] := by
  cases l with
  | nil => exact absurd ((h a).2 rfl) (by simp)
  | cons x xs =>
    have hx : x = a := (h x).1 (by simp)
    subst hx
    rw [List.nodup_cons] at hnd
    cases xs with
    | nil => rfl
    | cons y ys =>
      have hy : y = x := (h y).1 (by simp)
      subst hy
      exact absurd (by simp) hnd.1

theorem eq_nil_of_forall_not_mem {α : Type} {l : List α} (h : ∀ x, x ∉ l) : l = [] :=
  List.eq_nil_iff_forall_not_mem.2 h

end plclean

/-! ## F. the earliest non-failed entry, generation by generation -/

/-- in a generation with distinct record paths the search of `firstNonFailed` looks at the one file record of the
path -/
theorem findSome_record_unique {β : Type} (rs : List Record) (hnd : (rs.map (·.path)).Nodup) (r : Record)
    (hr : r ∈ rs) (hd : r.isDir = false) (f : Record → Option β) :
    rs.findSome? (fun r' => if r'.isDir = false ∧ r'.path = r.path then f r' else none) = f r := by
  induction rs with
  | nil => cases hr
  | cons x xs ih =>
    rw [List.map_cons, List.nodup_cons] at hnd
    rw [List.findSome?_cons]
    rcases List.mem_cons.1 hr with rfl | hr'
    · simp only [hd, and_self, if_true]
      cases hf : f r with
      | some b => rfl
      | none =>
        simp only
        rw [List.findSome?_eq_none_iff]
        intro y hy
        have : y.path ≠ r.path := fun h => hnd.1 (List.mem_map.2 ⟨y, hy, h⟩)
        simp [this]
    · have : x.path ≠ r.path := fun h => hnd.1 (List.mem_map.2 ⟨r, hr', h.symm⟩)
      simp only [this, and_false, if_false]
      exact ih hnd.2 hr'

/-- the same when uniqueness is only known among the FILE records of the path -/
theorem findSome_record_unique' {β : Type} (rs : List Record) (r : Record) (hr : r ∈ rs) (hd : r.isDir = false)
    (p : String) (hp : r.path = p) (hu : ∀ r' ∈ rs, r'.isDir = false → r'.path = p → r' = r)
    (f : Record → Option β) :
    rs.findSome? (fun r' => if r'.isDir = false ∧ r'.path = p then f r' else none) = f r := by
  induction rs with
  | nil => cases hr
  | cons x xs ih =>
    rw [List.findSome?_cons]
    by_cases hx : x.isDir = false ∧ x.path = p
    · have : x = r := hu x (by simp) hx.1 hx.2
      subst this
      simp only [hx, and_self, if_true]
      cases hf : f x with
      | some b => rfl
      | none =>
        simp only
        rw [List.findSome?_eq_none_iff]
        intro y hy
        by_cases hy' : y.isDir = false ∧ y.path = p
        · have : y = x := hu y (List.mem_cons_of_mem _ hy) hy'.1 hy'.2
          subst this
          simp [hy', hf]
        · simp [hy']
    · simp only [hx, if_false]
      rcases List.mem_cons.1 hr with rfl | hr'
      · exact absurd ⟨hd, hp⟩ hx
      · exact ih hr' (fun r' h' => hu r' (List.mem_cons_of_mem _ h'))

/-- no file record of the path in the generation: the search finds nothing -/
theorem findSome_record_none {β : Type} (rs : List Record) (s : String)
    (hno : ∀ r ∈ rs, r.isDir = false → r.path ≠ s) (f : Record → Option β) :
    rs.findSome? (fun r' => if r'.isDir = false ∧ r'.path = s then f r' else none) = none := by
  rw [List.findSome?_eq_none_iff]
  intro y hy
  by_cases hd : y.isDir = false
  · simp [hno y hy hd]
  · simp [hd]

theorem firstNonFailed_two (g1 g2 : LGen) (p fmt : String) :
    firstNonFailed [g1, g2] p fmt =
      ((g1.gen.records.findSome? fun r =>
        if r.isDir = false ∧ r.path = p then r.entries.find? (fun e => e.fmt == fmt && e.action != "failed")
        else none).or
       (g2.gen.records.findSome? fun r =>
        if r.isDir = false ∧ r.path = p then r.entries.find? (fun e => e.fmt == fmt && e.action != "failed")
        else none)) := by
  simp only [firstNonFailed, List.findSome?_cons, List.findSome?_nil]
  cases List.findSome? _ g1.gen.records with
  | some x => rfl
  | none =>
    cases List.findSome? _ g2.gen.records <;> rfl

/-- the entry of a format in a first record -/
theorem origEntries_find_fmt (env : Env) (c : Bytes) (formats : List String) (f : String) :
    (origEntries env c formats).find? (fun e => e.fmt == f && e.action != "failed") =
      if f ∈ formats then some (mkOrig env c f) else none := by
  split
  · next hf =>
    cases hfind : (origEntries env c formats).find? (fun e => e.fmt == f && e.action != "failed") with
    | none =>
      have := List.find?_eq_none.1 hfind (mkOrig env c f) ((mem_origEntries env c formats _).2 ⟨f, hf, rfl⟩)
      simp [mkOrig] at this
    | some e =>
      obtain ⟨f', -, rfl⟩ := (mem_origEntries env c formats e).1 (List.mem_of_find?_eq_some hfind)
      have := List.find?_some hfind
      simp only [mkOrig, Bool.and_eq_true, beq_iff_eq] at this
      rw [this.1]
  · next hf =>
    rw [List.find?_eq_none]
    intro e he
    obtain ⟨f', hf', rfl⟩ := (mem_origEntries env c formats e).1 he
    have : f' ≠ f := fun h => hf (h ▸ hf')
    simp [mkOrig, this]

/-- every entry `seal_file_path` appends is in a recorded format or in a requested one -/
theorem sealEntries_fmt_mem (gens : List LGen) (p : String) (dig : String → String) (req : List String) :
    ∀ e ∈ (sealEntries gens p dig req).1, e.fmt ∈ existingFormats gens p ∨ e.fmt ∈ req := by
  intro e he
  unfold sealEntries at he
  simp only [List.mem_append, List.mem_map, List.mem_filter] at he
  rcases he with ⟨f, ⟨hf, -⟩, rfl⟩ | he
  · exact Or.inl hf
  · split at he
    · simp only [List.mem_map, List.mem_filter] at he
      obtain ⟨f, ⟨hf1, hf2⟩, rfl⟩ := he
      unfold formatsToGenerate at hf1
      rcases (mem_foldl_appendNew' _ _ _).1 hf1 with h | h
      · exact Or.inl (MhlProps.C04.base_subset_existing _ _ _ h)
      · exact Or.inr h
    · cases he

/-! ## G. what `flattenRecords` keeps of a record besides the entries -/

/-- path, size, previous path and kind of a record -/
def recMeta (r : Record) : String × Option Nat × Option String × Bool := (r.path, r.size, r.prev, r.isDir)

theorem ins_meta (acc : List Record) (it : Item) :
    ∀ R ∈ ins acc it, (∃ R0 ∈ acc, recMeta R0 = recMeta R) ∨ recMeta R = (it.path, it.size, none, false) := by
  intro R hR
  unfold ins at hR
  split at hR
  · rcases List.mem_append.1 hR with h | h
    · exact Or.inl ⟨R, h, rfl⟩
    · simp only [List.mem_singleton] at h
      subst h
      exact Or.inr rfl
  · split at hR
    · exact Or.inl ⟨R, hR, rfl⟩
    · obtain ⟨R0, hR0, rfl⟩ := List.mem_map.1 hR
      refine Or.inl ⟨R0, hR0, ?_⟩
      split <;> rfl

theorem foldl_ins_meta (L : List Item) (acc : List Record) :
    ∀ R ∈ L.foldl ins acc,
      (∃ R0 ∈ acc, recMeta R0 = recMeta R) ∨ ∃ it ∈ L, recMeta R = (it.path, it.size, none, false) := by
  induction L generalizing acc with
  | nil => intro R hR; exact Or.inl ⟨R, hR, rfl⟩
  | cons it L ih =>
    intro R hR
    rw [List.foldl_cons] at hR
    rcases ih (ins acc it) R hR with ⟨R0, hR0, hm⟩ | ⟨it', hit', hm⟩
    · rcases ins_meta acc it R0 hR0 with ⟨R1, hR1, hm1⟩ | hm1
      · exact Or.inl ⟨R1, hR1, hm1.trans hm⟩
      · exact Or.inr ⟨it, by simp, hm.symm.trans hm1⟩
    · exact Or.inr ⟨it', List.mem_cons_of_mem _ hit', hm⟩

/-- every record of `flattenRecords` is a file record without previous path whose path and size are those of a file
record of the history (one with a digest that did not fail) -/
theorem flattenRecords_meta (gens : List LGen) :
    ∀ R ∈ flattenRecords gens, R.isDir = false ∧ R.prev = none ∧
      ∃ g ∈ gens, ∃ r ∈ g.gen.records, r.isDir = false ∧ r.path = R.path ∧ r.size = R.size := by
  intro R hR
  rw [flattenRecords_eq_items] at hR
  rcases foldl_ins_meta (items gens) [] R hR with ⟨R0, hR0, -⟩ | ⟨it, hit, hm⟩
  · cases hR0
  · obtain ⟨g, hg, r, hr, hd, e, -, -, rfl⟩ := (mem_items gens it).1 hit
    simp only [recMeta, Prod.mk.injEq] at hm
    exact ⟨hm.2.2.2, hm.2.2.1, g, hg, r, hr, hd, hm.1.symm, hm.2.1.symm⟩

/-- so the generation `flatten` writes is clean in the sense of `PlClean`, for ANY history -/
theorem flattenGen_clean (env : Env) (gens : List LGen) (ic ifl : List String) :
    PlClean (flattenGen env gens ic ifl) := by
  refine ⟨rfl, ?_, ?_⟩
  · change ((MhlProps.C18.sortedRecords gens).map (·.path)).Nodup
    rw [MhlProps.C18.sortedRecords_paths]
    exact MhlProps.C18.flatten_paths_unique gens
  · intro r' hr'
    obtain ⟨r, hr, -, -, -, hprev, -⟩ := (MhlProps.C18.sortedRecords_spec gens r').1 hr'
    rw [hprev]
    exact (flattenRecords_meta gens r hr).2.1

/-! ## H. loading the folder with two generations -/

theorem loadHistory_secondStore (rn : String) (cs : List Node) (hflat : noNested (.dir rn cs none) = true)
    (w w₂ : Written) (hparse1 : parseGenName w.gen.fileName = some 1) (hstate1 : w.gen.state = .ok)
    (hparse2 : parseGenName w₂.gen.fileName = some 2) (hstate2 : w₂.gen.state = .ok) :
    loadHistory (.dir rn cs (some ((firstStore w).add w₂))) =
      .ok (.mk [] [⟨1, w.gen⟩, ⟨2, w₂.gen⟩]
        [⟨w.number, w.gen.fileName⟩, ⟨w₂.number, w₂.gen.fileName⟩] true []) := by
  unfold loadHistory
  have hflat' : noNested (.dir rn cs (some ((firstStore w).add w₂))) = true := hflat
  rw [findChildren_noNested _ [] hflat']
  have hchk : checkStore (some ((firstStore w).add w₂)) = .ok () := by
    have hn : ¬ w.gen.fileName = w₂.gen.fileName := by
      intro h; rw [h, hparse2] at hparse1; cases hparse1
    have hn' : ¬ w₂.gen.fileName = w.gen.fileName := fun h => hn h.symm
    simp [checkStore, firstStore, HistStore.add, checkChain, hstate1, hstate2, hn, hn', pure, Except.pure, bind,
      Except.bind]
  have hg1 : loadGens (firstStore w) = [⟨1, w.gen⟩] := by
    have := MhlProps.C06.loadGens_add_lt {} w 1 hparse1 hstate1 (by simp [loadGens])
    rw [firstStore, this]
    rfl
  have hg : loadGens ((firstStore w).add w₂) = [⟨1, w.gen⟩, ⟨2, w₂.gen⟩] := by
    rw [MhlProps.C06.loadGens_add_lt (firstStore w) w₂ 2 hparse2 hstate2 (by rw [hg1]; simp), hg1]
    rfl
  simp only [Node.hist, hchk, bind, Except.bind, pure, Except.pure, buildHist, hg]
  rfl

/-! ## I. the first `original` entry of a list sorted by format name -/

/-- in a list sorted by a relation, what `find?` returns stands before every other element with the property -/
theorem find?_pairwise {α : Type} {R : α → α → Prop} {P : α → Bool} {l : List α} (hs : l.Pairwise R) {a b : α}
    (ha : l.find? P = some a) (hb : b ∈ l) (hP : P b = true) : a = b ∨ R a b := by
  induction l with
  | nil => cases hb
  | cons x xs ih =>
    rw [List.pairwise_cons] at hs
    rw [List.find?_cons] at ha
    by_cases hx : P x = true
    · simp only [hx] at ha
      cases ha
      rcases List.mem_cons.1 hb with rfl | hb'
      · exact Or.inl rfl
      · exact Or.inr (hs.1 b hb')
    · simp only [hx] at ha
      rcases List.mem_cons.1 hb with rfl | hb'
      · exact absurd hP hx
      · exact ih hs.2 ha hb'

/-- in a list sorted by format name, an entry with the property whose format is the least among those with the
property (and the only one of that format) is the one `find?` returns -/
theorem find?_least_fmt {P : Entry → Bool} {l : List Entry}
    (hs : l.Pairwise (fun a b => strLe a.fmt b.fmt = true)) {e0 : Entry} (h0 : e0 ∈ l) (hP0 : P e0 = true)
    (hleast : ∀ e ∈ l, P e = true → strLe e0.fmt e.fmt = true ∧ (e.fmt = e0.fmt → e = e0)) :
    l.find? P = some e0 := by
  induction l with
  | nil => cases h0
  | cons x xs ih =>
    rw [List.pairwise_cons] at hs
    rw [List.find?_cons]
    by_cases hx : P x = true
    · simp only [hx]
      obtain ⟨h1, h2⟩ := hleast x (by simp) hx
      rcases List.mem_cons.1 h0 with rfl | h0'
      · rfl
      · have h3 := hs.1 e0 h0'
        rw [h2 (strLe_antisymm _ _ h3 h1)]
    · simp only [hx]
      rcases List.mem_cons.1 h0 with rfl | h0'
      · exact absurd hP0 hx
      · exact ih hs.2 h0' (fun e he => hleast e (List.mem_cons_of_mem _ he))

/-- with distinct formats, the search for a format that did not fail finds the entry of that format -/
theorem find?_fmt_of_nodup {es : List Entry} (hnd : (es.map (·.fmt)).Nodup) {e : Entry} (he : e ∈ es)
    (hnf : e.action ≠ "failed") :
    es.find? (fun x => x.fmt == e.fmt && x.action != "failed") = some e := by
  cases hf : es.find? (fun x => x.fmt == e.fmt && x.action != "failed") with
  | none =>
    have := List.find?_eq_none.1 hf e he
    simp [hnf] at this
  | some x =>
    have hx := List.mem_of_find?_eq_some hf
    have hp := List.find?_some hf
    simp only [Bool.and_eq_true, beq_iff_eq] at hp
    rw [eq_of_key_eq_of_nodup (fun e : Entry => e.fmt) hnd hx he hp.1]

/-- a generation in which the look-up of a path finds nothing has no record with that path -/
theorem find_none_no_record (g : Generation) (p : String) (h : g.find p = none) :
    ∀ r ∈ g.records, r.path ≠ p := by
  intro r hr hp
  unfold Generation.find at h
  rw [List.find?_eq_none] at h
  have := h r (List.mem_reverse.2 (List.mem_append_right _ hr))
  simp [hp] at this

theorem firstNonFailed_append (pre post : List LGen) (p fmt : String) :
    firstNonFailed (pre ++ post) p fmt = (firstNonFailed pre p fmt).or (firstNonFailed post p fmt) := by
  unfold firstNonFailed
  induction pre with
  | nil => simp
  | cons g gs ih =>
    simp only [List.cons_append, List.findSome?_cons]
    cases List.findSome? _ g.gen.records with
    | some x => rfl
    | none => exact ih

theorem firstNonFailed_cons (g : LGen) (post : List LGen) (p fmt : String) :
    firstNonFailed (g :: post) p fmt =
      (g.gen.records.findSome? fun r =>
        if r.isDir = false ∧ r.path = p then r.entries.find? (fun e => e.fmt == fmt && e.action != "failed")
        else none).or (firstNonFailed post p fmt) := by
  unfold firstNonFailed
  rw [List.findSome?_cons]
  cases List.findSome? _ g.gen.records <;> rfl

theorem findOriginal_append_none (pre rest : List LGen) (p : String) (h : ∀ g ∈ pre, g.gen.find p = none) :
    findOriginal (pre ++ rest) p = findOriginal rest p := by
  induction pre with
  | nil => rfl
  | cons g gs ih =>
    have hg := h g (by simp)
    have := ih (fun g' hg' => h g' (by simp [hg']))
    unfold findOriginal at this ⊢
    rw [List.cons_append, List.findSome?_cons]
    simp only [hg]
    exact this

theorem findOriginal_cons_some (g : LGen) (post : List LGen) (p : String) (r : Record) (e : Entry)
    (hf : g.gen.find p = some r) (he : r.entries.find? (fun e => e.action == "original") = some e) :
    findOriginal (g :: post) p = some e := by
  unfold findOriginal
  rw [List.findSome?_cons]
  simp only [hf, he]

theorem firstNonFailed_none_of_no_record (gens : List LGen) (p fmt : String)
    (h : ∀ g ∈ gens, ∀ r ∈ g.gen.records, r.isDir = false → r.path ≠ p) : firstNonFailed gens p fmt = none := by
  unfold firstNonFailed
  rw [List.findSome?_eq_none_iff]
  intro g hg
  exact findSome_record_none _ _ (h g hg) _

/-! ## J. removing / adding a file at the root of a tree -/

/-- the tree without the root-level entries named `n` -/
def removeRoot (rn : String) (cs : List Node) (n : String) : Node := .dir rn (cs.filter fun c => c.name != n) none

/-- the tree with one more root-level file -/
def addRoot (rn : String) (cs : List Node) (n : String) (c : Bytes) : Node := .dir rn (cs ++ [.file n c]) none

/-- a root-level path of a tree is a child -/
theorem root_path_child {rn : String} {cs : List Node} {h : Option HistStore} {n : String} {d : Bool}
    (hp : ([n], d) ∈ Node.paths [] (.dir rn cs h)) : ∃ c ∈ cs, c.name = n ∧ c.isDir = d := by
  rw [Node.mem_paths_dir] at hp
  obtain ⟨c, hc, hx | hx⟩ := hp
  · simp only [List.nil_append, Prod.mk.injEq, List.cons.injEq, and_true] at hx
    exact ⟨c, hc, hx.1.symm, hx.2.symm⟩
  · obtain ⟨q, hq, hne, -⟩ := Node.paths_shape c _ _ _ hx
    exfalso
    have := congrArg List.length hq
    simp only [List.nil_append, List.length_cons, List.length_nil, List.length_append] at this
    have : 0 < q.length := List.length_pos_iff.2 hne
    omega

theorem paths_removeRoot {rn : String} {cs : List Node} {n : String} (hnd : (cs.map Node.name).Nodup)
    (hp : ([n], false) ∈ Node.paths [] (.dir rn cs none)) (x : RelPath × Bool) :
    x ∈ Node.paths [] (removeRoot rn cs n) ↔ x ∈ Node.paths [] (.dir rn cs none) ∧ x.1 ≠ [n] := by
  obtain ⟨c0, hc0, hn0, hd0⟩ := root_path_child hp
  have hfile : ∀ here, Node.paths here c0 = [] := by
    intro here
    cases c0 with
    | file nm b => simp
    | dir _ _ _ => cases hd0
  unfold removeRoot
  rw [Node.mem_paths_dir, Node.mem_paths_dir]
  constructor
  · rintro ⟨c, hc, hx⟩
    obtain ⟨hc1, hc2⟩ := List.mem_filter.1 hc
    have hcn : c.name ≠ n := by simpa using hc2
    refine ⟨⟨c, hc1, hx⟩, ?_⟩
    rcases hx with rfl | hx
    · simpa using hcn
    · obtain ⟨q, hq, hne, -⟩ := Node.paths_shape c _ _ _ hx
      rw [hq]
      intro h
      have := congrArg List.length h
      simp only [List.nil_append, List.length_cons, List.length_nil, List.length_append] at this
      have : 0 < q.length := List.length_pos_iff.2 hne
      omega
  · rintro ⟨⟨c, hc, hx⟩, hne⟩
    have hcn : c.name ≠ n := by
      intro h
      have : c = c0 := eq_of_key_eq_of_nodup Node.name hnd hc hc0 (h.trans hn0.symm)
      subst this
      rcases hx with rfl | hx
      · exact hne (by simp [h])
      · rw [hfile] at hx; cases hx
    exact ⟨c, List.mem_filter.2 ⟨hc, by simpa using hcn⟩, hx⟩

theorem paths_addRoot (rn : String) (cs : List Node) (n : String) (b : Bytes) (x : RelPath × Bool) :
    x ∈ Node.paths [] (addRoot rn cs n b) ↔ x ∈ Node.paths [] (.dir rn cs none) ∨ x = ([n], false) := by
  unfold addRoot
  rw [Node.mem_paths_dir, Node.mem_paths_dir]
  constructor
  · rintro ⟨c, hc, hx⟩
    rcases List.mem_append.1 hc with hc | hc
    · exact Or.inl ⟨c, hc, hx⟩
    · simp only [List.mem_singleton] at hc
      subst hc
      rcases hx with rfl | hx
      · exact Or.inr rfl
      · simp at hx
  · rintro (⟨c, hc, hx⟩ | rfl)
    · exact ⟨c, List.mem_append_left _ hc, hx⟩
    · exact ⟨.file n b, by simp, Or.inl rfl⟩

theorem findChild_filter_ne (cs : List Node) (n m : String) (h : m ≠ n) :
    findChild (cs.filter fun c => c.name != n) m = findChild cs m := by
  unfold findChild
  rw [List.find?_filter]
  congr 1
  funext c
  by_cases hc : c.name = m
  · simp [hc, h]
  · simp [hc]

/-- the content of every file not below the removed name is unchanged -/
theorem fileContent_removeRoot (rn : String) (cs : List Node) (n m : String) (rest : RelPath) (h : m ≠ n) :
    fileContent (removeRoot rn cs n) (m :: rest) = fileContent (.dir rn cs none) (m :: rest) := by
  unfold fileContent removeRoot
  rw [Node.at?_dir_cons, Node.at?_dir_cons, findChild_filter_ne cs n m h]

/-- the content of every file that exists in the old tree is unchanged -/
theorem fileContent_addRoot (rn : String) (cs : List Node) (n : String) (b : Bytes) (q : RelPath) (x : Node)
    (hne : q ≠ []) (h : (Node.dir rn cs none).at? q = some x) :
    fileContent (addRoot rn cs n b) q = fileContent (.dir rn cs none) q := by
  cases q with
  | nil => exact absurd rfl hne
  | cons m rest =>
    unfold fileContent addRoot
    rw [Node.at?_dir_cons] at h ⊢
    rw [Node.at?_dir_cons, findChild_append]
    cases hf : findChild cs m with
    | none => rw [hf] at h; cases h
    | some c => rfl

end MhlModel
