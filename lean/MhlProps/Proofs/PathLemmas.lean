/-
Helper lemmas for `MhlProps/Paths.lean`: the path glue of the command line (`MhlModel/Paths.lean`).
-/
import MhlModel.Paths

namespace MhlModel.Paths

/-! ### character level: `split('/')` and `'/'.join` -/

theorem splitC_ne_nil (cs : List Char) : splitC cs ≠ [] := by
  induction cs with
  | nil => simp [splitC]
  | cons c cs ih =>
    unfold splitC
    split
    · simp
    · split <;> simp

theorem splitC_cons_slash (cs : List Char) : splitC ('/' :: cs) = [] :: splitC cs := by
  simp [splitC]

/-- splitting distributes over a separating slash -/
theorem splitC_append_slash (a b : List Char) : splitC (a ++ '/' :: b) = splitC a ++ splitC b := by
  induction a with
  | nil => simp [splitC]
  | cons c a ih =>
    by_cases hc : c = '/'
    · subst hc; simp [splitC, ih]
    · have hne := splitC_ne_nil a
      simp only [List.cons_append, splitC, hc, if_false, ih]
      cases h : splitC a with
      | nil => exact absurd h hne
      | cons x t => simp

theorem splitC_of_noslash (x : List Char) (h : '/' ∉ x) : splitC x = [x] := by
  induction x with
  | nil => simp [splitC]
  | cons c x ih =>
    have hc : c ≠ '/' := fun e => h (by simp [e])
    have hx : '/' ∉ x := fun e => h (by simp [e])
    simp [splitC, hc, ih hx]

/-- no piece of a split contains a slash -/
theorem noslash_of_mem_splitC (cs x : List Char) (h : x ∈ splitC cs) : '/' ∉ x := by
  induction cs generalizing x with
  | nil => simp [splitC] at h; simp [h]
  | cons c cs ih =>
    by_cases hc : c = '/'
    · subst hc
      simp only [splitC, if_true, List.mem_cons] at h
      rcases h with h | h
      · simp [h]
      · exact ih x h
    · simp only [splitC, hc, if_false] at h
      cases hs : splitC cs with
      | nil => exact absurd hs (splitC_ne_nil cs)
      | cons y t =>
        rw [hs] at h ih
        simp only [List.mem_cons] at h
        rcases h with h | h
        · subst h
          have := ih y (by simp)
          simp only [List.mem_cons, not_or]
          exact ⟨fun e => hc e.symm, this⟩
        · exact ih x (by simp [h])

/-- `'/'.join(l).split('/') = l` for a nonempty list of slash-free pieces -/
theorem splitC_joinC (ls : List (List Char)) (hne : ls ≠ []) (h : ∀ l ∈ ls, '/' ∉ l) :
    splitC (joinC ls) = ls := by
  induction ls with
  | nil => exact absurd rfl hne
  | cons x r ih =>
    cases r with
    | nil => simpa [joinC] using splitC_of_noslash x (h x (by simp))
    | cons y r =>
      simp only [joinC]
      rw [splitC_append_slash, splitC_of_noslash x (h x (by simp)),
        ih (by simp) (fun l hl => h l (by simp [hl]))]
      rfl

theorem joinC_head (x : List Char) (r : List (List Char)) :
    ∃ t, joinC (x :: r) = x ++ t := by
  cases r with
  | nil => exact ⟨[], by simp [joinC]⟩
  | cons y r => exact ⟨'/' :: joinC (y :: r), by simp [joinC]⟩

/-! ### component level -/

/-- an ordinary component: neither empty nor `.` nor `..` -/
def Clean (p : String) : Prop := p ≠ "" ∧ p ≠ "." ∧ p ≠ ".."

/-- the invariant of the stack of `normStep` (top first): below the topmost `..` there are only `..`, and an
absolute path has no `..` at all; nothing is `""` or `"."`. -/
inductive StackOK (isabs : Bool) : List String → Prop
  | nil : StackOK isabs []
  | clean {p st} : Clean p → StackOK isabs st → StackOK isabs (p :: st)
  | dots {st} : isabs = false → (∀ x ∈ st, x = "..") → StackOK isabs (".." :: st)

theorem StackOK.tail {isabs p st} (h : StackOK isabs (p :: st)) : StackOK isabs st := by
  cases h with
  | clean _ h => exact h
  | dots hb hall =>
    induction st with
    | nil => exact .nil
    | cons q st ih =>
      have hq : q = ".." := hall q (by simp)
      subst hq
      exact .dots hb (fun x hx => hall x (by simp [hx]))

theorem StackOK.of_append {isabs} (l st : List String) (h : StackOK isabs (l ++ st)) : StackOK isabs st := by
  induction l with
  | nil => simpa using h
  | cons p l ih => exact ih (StackOK.tail h)

theorem normStep_ok {isabs st} (p : String) (h : StackOK isabs st) : StackOK isabs (normStep isabs st p) := by
  unfold normStep
  split
  · exact h
  · rename_i h1
    simp only [not_or] at h1
    split
    · rename_i h2
      exact .clean ⟨h1.1, h1.2, by simpa using h2⟩ h
    · split
      · cases isabs with
        | true => simpa using StackOK.nil
        | false => simpa using StackOK.dots rfl (by simp)
      · rename_i t rest
        split
        · rename_i ht
          subst ht
          cases h with
          | clean hc _ => exact absurd rfl hc.2.2
          | dots hb hall =>
            exact .dots hb (by intro x hx; simp at hx; rcases hx with hx | hx; exact hx; exact hall x hx)
        · exact StackOK.tail h

theorem foldl_normStep_ok {isabs} (l st : List String) (h : StackOK isabs st) :
    StackOK isabs (l.foldl (normStep isabs) st) := by
  induction l generalizing st with
  | nil => exact h
  | cons p l ih => exact ih _ (normStep_ok p h)

/-- pushing a component that keeps the stack well-formed is what `normStep` does -/
theorem normStep_of_ok {isabs p st} (h : StackOK isabs (p :: st)) : normStep isabs st p = p :: st := by
  cases h with
  | clean hc _ =>
    obtain ⟨h1, h2, h3⟩ := hc
    simp [normStep, h1, h2, h3]
  | dots hb hall =>
    subst hb
    cases st with
    | nil => simp [normStep]
    | cons t r =>
      have : t = ".." := hall t (by simp)
      subst this
      simp [normStep]

/-- a well-formed stack is reproduced by the fold -/
theorem foldl_normStep_of_ok {isabs} (l st : List String) (h : StackOK isabs (l.reverse ++ st)) :
    l.foldl (normStep isabs) st = l.reverse ++ st := by
  induction l generalizing st with
  | nil => simp
  | cons p l ih =>
    have h' : StackOK isabs (l.reverse ++ (p :: st)) := by simpa using h
    simp only [List.foldl_cons, List.reverse_cons, List.append_assoc, List.singleton_append]
    rw [normStep_of_ok (StackOK.of_append _ _ h')]
    exact ih _ h'

theorem normComps_ok (isabs : Bool) (l : List String) : StackOK isabs (normComps isabs l).reverse := by
  simpa [normComps] using foldl_normStep_ok l [] StackOK.nil

theorem normComps_of_ok {isabs} (l : List String) (h : StackOK isabs l.reverse) : normComps isabs l = l := by
  simp [normComps, foldl_normStep_of_ok l [] (by simpa using h)]

theorem stackOK_of_clean {isabs} (st : List String) (h : ∀ x ∈ st, Clean x) : StackOK isabs st := by
  induction st with
  | nil => exact .nil
  | cons p st ih => exact .clean (h p (by simp)) (ih fun x hx => h x (by simp [hx]))

theorem stackOK_abs_clean {st : List String} (h : StackOK true st) : ∀ x ∈ st, Clean x := by
  induction st with
  | nil => simp
  | cons p st ih =>
    cases h with
    | clean hc h =>
      intro x hx
      simp only [List.mem_cons] at hx
      rcases hx with hx | hx
      · exact hx ▸ hc
      · exact ih h x hx
    | dots hb _ => cases hb

/-- explicit shape of a well-formed stack, read bottom first -/
theorem stackOK_shape {isabs st} (h : StackOK isabs st) :
    ∃ k rest, st.reverse = List.replicate k ".." ++ rest ∧ (∀ x ∈ rest, Clean x) ∧ (isabs = true → k = 0) := by
  induction st with
  | nil => exact ⟨0, [], by simp⟩
  | cons p st ih =>
    cases h with
    | clean hc h =>
      obtain ⟨k, rest, h1, h2, h3⟩ := ih h
      refine ⟨k, rest ++ [p], by simp [h1], ?_, h3⟩
      intro x hx
      simp only [List.mem_append, List.mem_singleton] at hx
      rcases hx with hx | hx
      · exact h2 x hx
      · exact hx ▸ hc
    | dots hb hall =>
      refine ⟨st.length + 1, [], ?_, by simp, by simp [hb]⟩
      have : st = List.replicate st.length ".." := List.eq_replicate_iff.2 ⟨rfl, hall⟩
      rw [List.reverse_cons, this]
      simp [List.replicate_succ']

/-- every component of the result is one of the input components -/
theorem normStep_subset {isabs st p x} (h : x ∈ normStep isabs st p) : x ∈ st ∨ x = p := by
  unfold normStep at h
  split at h
  · exact .inl h
  · split at h
    · simp only [List.mem_cons] at h; rcases h with h | h; exact .inr h; exact .inl h
    · rename_i h2
      have hp : p = ".." := by simpa using h2
      split at h
      · split at h
        · simp at h
        · simp at h; exact .inr (h.trans hp.symm)
      · split at h
        · simp only [List.mem_cons] at h
          rcases h with h | h
          · exact .inr (h.trans hp.symm)
          · exact .inl (by simpa using h)
        · exact .inl (by simp [h])

theorem foldl_normStep_subset {isabs} (l st : List String) {x} (h : x ∈ l.foldl (normStep isabs) st) :
    x ∈ st ∨ x ∈ l := by
  induction l generalizing st with
  | nil => exact .inl h
  | cons p l ih =>
    rcases ih _ h with h | h
    · rcases normStep_subset h with h | h
      · exact .inl h
      · exact .inr (by simp [h])
    · exact .inr (by simp [h])

theorem normComps_subset {isabs l x} (h : x ∈ normComps isabs l) : x ∈ l := by
  have := foldl_normStep_subset l [] (x := x) (isabs := isabs) (by simpa [normComps] using h)
  simpa using this

/-- ordinary components are pushed -/
theorem foldl_normStep_clean {isabs} (l st : List String) (h : ∀ x ∈ l, Clean x) :
    l.foldl (normStep isabs) st = l.reverse ++ st := by
  induction l generalizing st with
  | nil => simp
  | cons p l ih =>
    obtain ⟨h1, h2, h3⟩ := h p (by simp)
    simp only [List.foldl_cons, List.reverse_cons, List.append_assoc, List.singleton_append]
    rw [show normStep isabs st p = p :: st by simp [normStep, h1, h2, h3]]
    exact ih _ (fun x hx => h x (by simp [hx]))

/-- as many `..` as there are ordinary components on top of the stack pop exactly these -/
theorem foldl_normStep_dots {isabs} (s st : List String) (h : ∀ x ∈ s, Clean x) :
    (List.replicate s.length "..").foldl (normStep isabs) (s ++ st) = st := by
  induction s with
  | nil => simp
  | cons t s ih =>
    have ht := (h t (by simp)).2.2
    simp only [List.length_cons, List.replicate_succ, List.foldl_cons, List.cons_append]
    rw [show normStep isabs (t :: (s ++ st)) ".." = s ++ st by simp [normStep, ht]]
    exact ih (fun x hx => h x (by simp [hx]))

/-- empty and `.` components are skipped -/
theorem foldl_normStep_skip {isabs} (l st : List String) (h : ∀ x ∈ l, x = "" ∨ x = ".") :
    l.foldl (normStep isabs) st = st := by
  induction l generalizing st with
  | nil => simp
  | cons p l ih =>
    have hp := h p (by simp)
    simp only [List.foldl_cons]
    rw [show normStep isabs st p = st by simp [normStep, hp]]
    exact ih _ (fun x hx => h x (by simp [hx]))

/-! ### common prefix -/

theorem commonPrefixLen_take (a b : List String) :
    a.take (commonPrefixLen a b) = b.take (commonPrefixLen a b) := by
  induction a generalizing b with
  | nil => simp [commonPrefixLen]
  | cons x a ih =>
    cases b with
    | nil => simp [commonPrefixLen]
    | cons y b =>
      by_cases hxy : x = y
      · subst hxy; simp [commonPrefixLen, ih]
      · simp [commonPrefixLen, hxy]

theorem commonPrefixLen_le_left (a b : List String) : commonPrefixLen a b ≤ a.length := by
  induction a generalizing b with
  | nil => simp [commonPrefixLen]
  | cons x a ih =>
    cases b with
    | nil => simp [commonPrefixLen]
    | cons y b =>
      by_cases hxy : x = y
      · subst hxy; simpa [commonPrefixLen] using ih b
      · simp [commonPrefixLen, hxy]

theorem commonPrefixLen_append (a r : List String) : commonPrefixLen a (a ++ r) = a.length := by
  induction a with
  | nil => cases r <;> simp [commonPrefixLen]
  | cons x a ih => simp [commonPrefixLen, ih]

/-! ### leading slashes -/

/-- number of leading slashes -/
def lead : List Char → Nat
  | c :: cs => if c = '/' then lead cs + 1 else 0
  | [] => 0

def slashClass (k : Nat) : Nat := if k = 0 then 0 else if k = 2 then 2 else 1

theorem initC_eq (l : List Char) : initC l = slashClass (lead l) := by
  rcases l with _ | ⟨a, _ | ⟨b, _ | ⟨c, l⟩⟩⟩
  · simp [initC, lead, slashClass]
  · by_cases ha : a = '/' <;> simp [initC, lead, slashClass, ha]
  · by_cases ha : a = '/' <;> by_cases hb : b = '/' <;> simp [initC, lead, slashClass, ha, hb]
  · by_cases ha : a = '/' <;> by_cases hb : b = '/' <;> by_cases hc : c = '/' <;>
      simp [initC, lead, slashClass, ha, hb, hc]

theorem initialSlashes_le (s : String) : initialSlashes s ≤ 2 := by
  rw [initialSlashes, initC_eq]; unfold slashClass; repeat' split
  all_goals omega

theorem isAbs_iff_lead (s : String) : isAbs s = true ↔ lead s.toList ≠ 0 := by
  unfold isAbs
  cases s.toList with
  | nil => simp [lead]
  | cons c l => by_cases hc : c = '/' <;> simp [lead, hc]

theorem isAbs_iff_initialSlashes (s : String) : isAbs s = true ↔ initialSlashes s ≠ 0 := by
  rw [isAbs_iff_lead, initialSlashes, initC_eq]; unfold slashClass
  repeat' split
  all_goals simp_all

theorem lead_replicate_append (n : Nat) (l : List Char) : lead (List.replicate n '/' ++ l) = n + lead l := by
  induction n with
  | zero => simp
  | succ n ih => simp [List.replicate_succ, lead, ih]; omega

theorem lead_append_of_lead_zero (a b : List Char) (h : lead b = 0) : lead (a ++ b) = lead a := by
  induction a with
  | nil => simpa [lead] using h
  | cons c a ih => by_cases hc : c = '/' <;> simp [lead, hc, ih]

theorem lead_append_of_last (a x : List Char) (hne : a ≠ []) (h : a.getLast? ≠ some '/') :
    lead (a ++ x) = lead a := by
  induction a with
  | nil => exact absurd rfl hne
  | cons c a ih =>
    by_cases hc : c = '/'
    · cases a with
      | nil => simp [hc] at h
      | cons d a =>
        have := ih (by simp) (by simpa [List.getLast?_cons_cons] using h)
        simp [lead, hc] at this ⊢
        simpa [lead] using this
    · simp [lead, hc]

/-! ### strings: split and join -/

theorem toList_joinSlash (l : List String) : (joinSlash l).toList = joinC (l.map String.toList) := by
  simp [joinSlash]

theorem noslash_of_mem_splitSlash {s p : String} (h : p ∈ splitSlash s) : '/' ∉ p.toList := by
  simp only [splitSlash, List.mem_map] at h
  obtain ⟨x, hx, rfl⟩ := h
  simpa using noslash_of_mem_splitC _ _ hx

/-- the round trip the string-level statements rest on -/
theorem splitSlash_joinSlash (l : List String) (hne : l ≠ []) (h : ∀ p ∈ l, '/' ∉ p.toList) :
    splitSlash (joinSlash l) = l := by
  simp only [splitSlash, toList_joinSlash]
  rw [splitC_joinC _ (by simpa using hne) (by simpa using h)]
  simp

theorem splitSlash_append_slash (a b : String) :
    splitSlash (a ++ "/" ++ b) = splitSlash a ++ splitSlash b := by
  simp only [splitSlash, String.toList_append]
  rw [show "/".toList = ['/'] by rfl]
  simp [splitC_append_slash]

/-- components as they come out of `normComps` applied to a split: nonempty and slash-free -/
def Comps (l : List String) : Prop := ∀ p ∈ l, p ≠ "" ∧ '/' ∉ p.toList

theorem lead_joinC_comps (l : List String) (h : Comps l) : lead (joinC (l.map String.toList)) = 0 := by
  cases l with
  | nil => simp [joinC, lead]
  | cons p l =>
    obtain ⟨t, ht⟩ := joinC_head p.toList (l.map String.toList)
    obtain ⟨h1, h2⟩ := h p (by simp)
    simp only [List.map_cons, ht]
    cases hp : p.toList with
    | nil => exact absurd (String.toList_inj.1 (by simpa using hp)) h1
    | cons c cs =>
      have : c ≠ '/' := fun e => h2 (by simp [hp, e])
      simp [lead, this]

theorem joinC_eq_nil_of_comps (l : List String) (h : Comps l) (hj : joinC (l.map String.toList) = []) : l = [] := by
  cases l with
  | nil => rfl
  | cons p l =>
    obtain ⟨t, ht⟩ := joinC_head p.toList (l.map String.toList)
    simp only [List.map_cons, ht, List.append_eq_nil_iff] at hj
    exact absurd (String.toList_inj.1 (by simpa using hj.1)) (h p (by simp)).1

theorem stackOK_ne_empty {isabs st} (h : StackOK isabs st) : ∀ x ∈ st, x ≠ "" ∧ x ≠ "." := by
  induction st with
  | nil => simp
  | cons p st ih =>
    intro x hx
    simp only [List.mem_cons] at hx
    rcases hx with hx | hx
    · subst hx
      cases h with
      | clean hc _ => exact ⟨hc.1, hc.2.1⟩
      | dots _ _ => decide
    · exact ih (StackOK.tail h) x hx

/-- the stack `new_comps` of `normpath s` -/
def stackOf (s : String) : List String := normComps (initialSlashes s != 0) (splitSlash s)

theorem comps_stackOf (s : String) : Comps (stackOf s) := by
  intro p hp
  refine ⟨?_, noslash_of_mem_splitSlash (normComps_subset hp)⟩
  have := stackOK_ne_empty (normComps_ok (initialSlashes s != 0) (splitSlash s)) p (by simpa [stackOf] using hp)
  exact this.1

/-! ### rendering -/

/-- the last lines of `posixpath.normpath` -/
def render (n : Nat) (l : List String) : String :=
  let r := String.ofList (List.replicate n '/') ++ joinSlash l
  if r = "" then "." else r

theorem normpath_eq (s : String) : normpath s = render (initialSlashes s) (stackOf s) := by
  unfold normpath
  split
  · rename_i h; subst h; decide
  · rfl

theorem render_toList (n : Nat) (l : List String) :
    (render n l).toList =
      if List.replicate n '/' ++ joinC (l.map String.toList) = [] then ['.']
      else List.replicate n '/' ++ joinC (l.map String.toList) := by
  have key : (String.ofList (List.replicate n '/') ++ joinSlash l).toList =
      List.replicate n '/' ++ joinC (l.map String.toList) := by simp [toList_joinSlash]
  unfold render
  simp only
  by_cases h : String.ofList (List.replicate n '/') ++ joinSlash l = ""
  · have : List.replicate n '/' ++ joinC (l.map String.toList) = [] := by rw [← key, h]; rfl
    rw [if_pos h, if_pos this]; rfl
  · have : ¬ (List.replicate n '/' ++ joinC (l.map String.toList) = []) :=
      fun e => h (String.toList_inj.1 (by rw [key, e]; rfl))
    rw [if_neg h, if_neg this, key]

theorem render_ne_empty (n : Nat) (l : List String) : render n l ≠ "" := by
  intro h
  have := congrArg String.toList h
  rw [render_toList] at this
  split at this <;> simp_all

theorem initialSlashes_render (n : Nat) (l : List String) (hn : n ≤ 2) (h : Comps l) :
    initialSlashes (render n l) = n := by
  rw [initialSlashes, render_toList, initC_eq]
  split
  · rename_i h0
    have : n = 0 := by simpa using (List.append_eq_nil_iff.1 h0).1
    subst this; simp [lead, slashClass]
  · rw [lead_replicate_append, lead_joinC_comps l h]
    unfold slashClass
    have : n = 0 ∨ n = 1 ∨ n = 2 := by omega
    rcases this with h | h | h <;> simp [h]

theorem splitC_replicate_append (n : Nat) (l : List Char) :
    splitC (List.replicate n '/' ++ l) = List.replicate n [] ++ splitC l := by
  induction n with
  | zero => simp
  | succ n ih => simp [List.replicate_succ, splitC_cons_slash, ih]

theorem normComps_skip_append (isabs : Bool) (k l : List String) (h : ∀ x ∈ k, x = "" ∨ x = ".") :
    normComps isabs (k ++ l) = normComps isabs l := by
  simp [normComps, List.foldl_append, foldl_normStep_skip k [] h]

theorem splitSlash_render (n : Nat) (l : List String) (h : Comps l) :
    splitSlash (render n l) =
      if n = 0 ∧ l = [] then ["."] else List.replicate n "" ++ (if l = [] then [""] else l) := by
  simp only [splitSlash, render_toList]
  by_cases hl : l = []
  · subst hl
    by_cases hn : n = 0
    · subst hn; simp [joinC, splitC]
    · have := splitC_replicate_append n []
      simp only [List.append_nil] at this
      simp [joinC, hn, this, splitC]
  · have hj : joinC (l.map String.toList) ≠ [] := fun e => hl (joinC_eq_nil_of_comps l h e)
    simp only [List.append_eq_nil_iff, hj, and_false, if_false, hl]
    rw [splitC_replicate_append, splitC_joinC _ (by simpa using hl) (by simpa using fun p hp => (h p hp).2)]
    simp

theorem normComps_splitSlash_render (isabs : Bool) (n : Nat) (l : List String) (h : Comps l) :
    normComps isabs (splitSlash (render n l)) = normComps isabs l := by
  rw [splitSlash_render n l h]
  split
  · rename_i h0; rw [h0.2]; decide +revert
  · by_cases hl : l = []
    · subst hl
      simp only [if_true]
      rw [normComps_skip_append _ _ _ (by simp)]
      cases isabs <;> decide
    · simp only [hl, if_false]
      exact normComps_skip_append _ _ _ (by simp)

theorem initialSlashes_normpath (s : String) : initialSlashes (normpath s) = initialSlashes s := by
  rw [normpath_eq, initialSlashes_render _ _ (initialSlashes_le s) (comps_stackOf s)]

theorem stackOf_normpath (s : String) : stackOf (normpath s) = stackOf s := by
  rw [stackOf, initialSlashes_normpath, normpath_eq, normComps_splitSlash_render _ _ _ (comps_stackOf s)]
  exact normComps_of_ok _ (normComps_ok _ _)

theorem normpath_idem' (s : String) : normpath (normpath s) = normpath s := by
  rw [normpath_eq (normpath s), initialSlashes_normpath, stackOf_normpath, ← normpath_eq]

theorem isAbs_normpath (s : String) : isAbs (normpath s) = isAbs s := by
  rw [Bool.eq_iff_iff, isAbs_iff_initialSlashes, isAbs_iff_initialSlashes, initialSlashes_normpath]

/-! ### joinPath -/

theorem endsSlash_split {a : String} (h : endsSlash a = true) : ∃ a', a.toList = a' ++ ['/'] := by
  unfold endsSlash at h
  exact List.getLast?_eq_some_iff.1 (by simpa using h)

theorem isAbs_false_lead {b : String} (h : isAbs b = false) : lead b.toList = 0 := by
  have := isAbs_iff_lead b
  rw [h] at this
  simpa using this

/-- joining a relative path does not change the number of initial slashes -/
theorem initialSlashes_joinPath (a b : String) (hb : isAbs b = false) :
    initialSlashes (joinPath a b) = initialSlashes a := by
  have hl := isAbs_false_lead hb
  unfold joinPath
  simp only [hb, Bool.false_eq_true, if_false]
  split
  · simp only [initialSlashes, String.toList_append, initC_eq, lead_append_of_lead_zero _ _ hl]
  · rename_i h
    simp only [not_or] at h
    have hne : a.toList ≠ [] := fun e => h.1 (String.toList_inj.1 (by simpa using e))
    have hlast : a.toList.getLast? ≠ some '/' := by simpa [endsSlash] using h.2
    simp only [initialSlashes, String.toList_append, initC_eq, List.append_assoc,
      lead_append_of_last _ _ hne hlast]

/-- the stack after a join with a relative path: continue the fold with the components of the second path -/
theorem foldl_splitSlash_joinPath (f : List String → String → List String)
    (hf : ∀ st, f st "" = st) (a b : String) (hb : isAbs b = false) :
    (splitSlash (joinPath a b)).foldl f [] = (splitSlash b).foldl f ((splitSlash a).foldl f []) := by
  unfold joinPath
  simp only [hb, Bool.false_eq_true, if_false]
  split
  · rename_i h
    rcases h with h | h
    · subst h
      rw [show splitSlash "" = [""] by decide]
      simp [hf]
    · obtain ⟨a', ha'⟩ := endsSlash_split h
      have h1 : splitSlash (a ++ b) = (splitC a').map String.ofList ++ splitSlash b := by
        simp [splitSlash, ha', splitC_append_slash]
      have h2 : splitSlash a = (splitC a').map String.ofList ++ [""] := by
        simp [splitSlash, ha', splitC_append_slash, splitC]
      rw [h1, h2]
      simp [List.foldl_append, hf]
  · rw [splitSlash_append_slash, List.foldl_append]

theorem normStep_empty (isabs : Bool) (st : List String) : normStep isabs st "" = st := by
  simp [normStep]

/-- two paths that `normpath` does not distinguish -/
def PEq (a a' : String) : Prop := initialSlashes a = initialSlashes a' ∧ stackOf a = stackOf a'

theorem PEq.normpath_eq {a a' : String} (h : PEq a a') : normpath a = normpath a' := by
  rw [Paths.normpath_eq a, Paths.normpath_eq a', h.1, h.2]

theorem PEq_normpath (a : String) : PEq (normpath a) a := ⟨initialSlashes_normpath a, stackOf_normpath a⟩

theorem stackOf_joinPath (a b : String) (hb : isAbs b = false) :
    stackOf (joinPath a b) =
      ((splitSlash b).foldl (normStep (initialSlashes a != 0)) (stackOf a).reverse).reverse := by
  simp only [stackOf, normComps, initialSlashes_joinPath a b hb, List.reverse_reverse]
  rw [foldl_splitSlash_joinPath _ (normStep_empty _) a b hb]

theorem PEq.joinPath {a a' : String} (h : PEq a a') (b : String) : PEq (joinPath a b) (joinPath a' b) := by
  cases hb : isAbs b
  · exact ⟨by rw [initialSlashes_joinPath a b hb, initialSlashes_joinPath a' b hb, h.1],
      by rw [stackOf_joinPath a b hb, stackOf_joinPath a' b hb, h.1, h.2]⟩
  · simp only [Paths.joinPath, hb, if_true]; exact ⟨rfl, rfl⟩

/-- normalising the first argument of a join first makes no difference -/
theorem normpath_joinPath_normpath (a b : String) :
    normpath (joinPath (normpath a) b) = normpath (joinPath a b) :=
  ((PEq_normpath a).joinPath b).normpath_eq

theorem PEq_joinPath_dot (a : String) : PEq (joinPath a ".") a := by
  have hb : isAbs "." = false := by decide
  refine ⟨initialSlashes_joinPath a "." hb, ?_⟩
  rw [stackOf_joinPath a "." hb, show splitSlash "." = ["."] by decide]
  simp [normStep]

theorem isAbs_joinPath (a b : String) (ha : isAbs a = true) : isAbs (joinPath a b) = true := by
  cases hb : isAbs b
  · rw [isAbs_iff_initialSlashes, initialSlashes_joinPath a b hb, ← isAbs_iff_initialSlashes]; exact ha
  · simp [joinPath, hb]

/-! ### abspath -/

theorem isAbs_abspath (cwd s : String) (hc : isAbs cwd = true) : isAbs (abspath cwd s) = true := by
  unfold abspath
  rw [isAbs_normpath]
  split
  · assumption
  · exact isAbs_joinPath _ _ hc

theorem abspath_of_isAbs (cwd s : String) (h : isAbs s = true) : abspath cwd s = normpath s := by
  simp [abspath, h]

/-- `abspath` is idempotent (for an absolute working directory) -/
theorem abspath_abspath (cwd s : String) (hc : isAbs cwd = true) : abspath cwd (abspath cwd s) = abspath cwd s := by
  rw [abspath_of_isAbs _ _ (isAbs_abspath cwd s hc)]
  exact normpath_idem' _

theorem abspath_ne_empty (cwd s : String) : abspath cwd s ≠ "" := by
  unfold abspath; rw [normpath_eq]; exact render_ne_empty _ _

/-! ### pieces -/

theorem pieces_normpath_abs (s : String) (h : isAbs s = true) : pieces (normpath s) = normComps true (splitSlash s) := by
  have hn : initialSlashes s ≠ 0 := (isAbs_iff_initialSlashes s).1 h
  have hst : stackOf s = normComps true (splitSlash s) := by
    have : (initialSlashes s != 0) = true := by simp [hn]
    rw [stackOf, this]
  have hc := comps_stackOf s
  rw [pieces, normpath_eq, splitSlash_render _ _ hc, ← hst]
  simp only [hn, false_and, if_false]
  rw [List.filter_append]
  have h1 : (List.replicate (initialSlashes s) "").filter (· ≠ "") = [] := by simp
  rw [h1]
  split
  · rename_i h0; rw [h0]; decide
  · simp only [List.nil_append]
    rw [List.filter_eq_self]
    intro p hp; simpa using (hc p hp).1

/-- the component list of an absolute path (after `abspath`) -/
theorem pieces_abspath_clean (cwd s : String) (hc : isAbs cwd = true) : ∀ x ∈ pieces (abspath cwd s), Clean x := by
  have := isAbs_abspath cwd s hc
  unfold abspath at this ⊢
  rw [isAbs_normpath] at this
  rw [pieces_normpath_abs _ this]
  have := normComps_ok true (splitSlash (if isAbs s = true then s else joinPath cwd s))
  intro x hx
  exact stackOK_abs_clean this x (by simpa using hx)

end MhlModel.Paths
