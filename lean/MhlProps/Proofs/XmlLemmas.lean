/-
Lemmas about the XML writer / event stream / event-driven reader of `MhlModel/Xml.lean` (C10).
-/
import MhlModel.Xml
import MhlProps.Proofs.SealLemmas
import MhlProps.Proofs.DirHashLemmas

namespace MhlModel.Xml
open MhlModel

/-! ## the reader as a run over events -/

/-- the reader's fold from an arbitrary state -/
def run (s : PState) (evs : List Event) : PState := evs.foldl step s

@[simp] theorem run_nil (s : PState) : run s [] = s := rfl
@[simp] theorem run_cons (s : PState) (e : Event) (evs : List Event) : run s (e :: evs) = run (step s e) evs := rfl
theorem run_append (s : PState) (a b : List Event) : run s (a ++ b) = run (run s a) b := by
  simp [run, List.foldl_append]

theorem events_mk (t : String) (a : List (String × String)) (x : Option String) (cs : List Elem) :
    events (.mk t a x cs) = .start t :: (eventsList cs ++ [.finish t a (normText x)]) := by
  rw [events]; rfl

@[simp] theorem eventsList_nil : eventsList [] = [] := by rw [eventsList]
@[simp] theorem eventsList_cons (c : Elem) (cs : List Elem) : eventsList (c :: cs) = events c ++ eventsList cs := by
  rw [eventsList]

theorem eventsList_append (l₁ l₂ : List Elem) : eventsList (l₁ ++ l₂) = eventsList l₁ ++ eventsList l₂ := by
  induction l₁ with
  | nil => simp
  | cons c cs ih => simp [ih]

theorem events_leaf (t : String) (a : List (String × String)) (x : Option String) :
    events (.mk t a x []) = [.start t, .finish t a (normText x)] := by
  simp [events_mk]

/-- running a whole element: start, children, end -/
theorem run_events_mk (s : PState) (t : String) (a : List (String × String)) (x : Option String) (cs : List Elem) :
    run s (events (.mk t a x cs)) = endStep (run (startStep s t) (eventsList cs)) t a (normText x) := by
  rw [events_mk, run_cons, run_append]; rfl

theorem run_leaf (s : PState) (t : String) (a : List (String × String)) (x : Option String) :
    run s (events (.mk t a x [])) = endStep (startStep s t) t a (normText x) := by
  rw [run_events_mk]; rfl

/-! ## texts and attributes -/

theorem normText_getD (d : String) : (normText (some d)).getD "" = d := by
  unfold normText
  split
  · next h => simp at h; simp [h]
  · rfl

theorem normText_of_ne {x : Option String} (h : x ≠ some "") : normText x = x := by
  unfold normText
  split
  · exact absurd rfl h
  · rfl

theorem normText_none : normText none = none := rfl

theorem normText_idem (x : Option String) : normText (normText x) = normText x := by
  by_cases h : x = some ""
  · subst h; rfl
  · rw [normText_of_ne h, normText_of_ne h]

theorem normText_ne (x : Option String) : normText x ≠ some "" := by
  unfold normText; split
  · simp
  · next h => exact fun e => h e

/-! ## creator information -/

def normAuthor (a : XAuthor) : XAuthor := { a with name := normText a.name }

def normCreator (c : XCreator) : XCreator :=
  { c with creationdate := normText c.creationdate, hostname := normText c.hostname, toolName := normText c.toolName,
           authors := c.authors.map normAuthor, location := normText c.location, comment := normText c.comment }

theorem alookup_author (a : XAuthor) :
    let attrs := optAttr "role" a.role ++ optAttr "email" a.email ++ optAttr "phone" a.phone
    alookup "role" attrs = a.role ∧ alookup "email" attrs = a.email ∧ alookup "phone" attrs = a.phone := by
  cases a.role <;> cases a.email <;> cases a.phone <;> simp [optAttr, alookup]

theorem run_author (c : XCreator) (a : XAuthor) (st : List Cur) (b : Bool) (ps : List String) (o : XGen) :
    run ⟨.creator c, st, b, ps, o⟩ (events (authorElem a))
      = ⟨.creator { c with authors := c.authors ++ [normAuthor a] }, st, b, ps, o⟩ := by
  unfold authorElem
  rw [run_leaf]
  have h := alookup_author a
  simp only at h
  simp [startStep, endStep, setLastAuthor, normAuthor]
  simpa [List.append_assoc] using h

theorem run_authors (as : List XAuthor) (c : XCreator) (st : List Cur) (b : Bool) (ps : List String) (o : XGen) :
    run ⟨.creator c, st, b, ps, o⟩ (eventsList (as.map authorElem))
      = ⟨.creator { c with authors := c.authors ++ as.map normAuthor }, st, b, ps, o⟩ := by
  induction as generalizing c with
  | nil => simp
  | cons a as ih =>
    simp only [List.map_cons, eventsList_cons, run_append, run_author, ih]
    simp

theorem run_creator (c : XCreator) (st : List Cur) (b : Bool) (ps : List String) (o : XGen) :
    run ⟨.none, st, b, ps, o⟩ (events (creatorElem c))
      = ⟨.none, st, b, ps, { o with creator := normCreator c }⟩ := by
  unfold creatorElem
  rw [run_events_mk]
  have h0 : startStep ⟨.none, st, b, ps, o⟩ "creatorinfo" = ⟨.creator {}, st, b, ps, o⟩ := by
    simp [startStep]
  rw [h0]
  simp only [eventsList_append, run_append, eventsList_cons, eventsList_nil, List.append_nil, run_leaf]
  have h1 : endStep (startStep (endStep (startStep (endStep (startStep ⟨.creator {}, st, b, ps, o⟩ "creationdate")
      "creationdate" [] (normText c.creationdate)) "hostname") "hostname" [] (normText c.hostname)) "tool") "tool"
      (optAttr "version" c.toolVersion) (normText c.toolName)
      = ⟨.creator { creationdate := normText c.creationdate, hostname := normText c.hostname,
                    toolName := normText c.toolName, toolVersion := c.toolVersion }, st, b, ps, o⟩ := by
    cases c.toolVersion <;> simp [startStep, endStep, optAttr, alookup]
  rw [h1, run_authors]
  cases hl : c.location <;> cases hc : c.comment <;>
    simp [startStep, endStep, run_leaf, normCreator, hl, hc, normText_none]

/-! ## format elements of a record -/

/-- a supported format name is none of the structural tags the reader dispatches on -/
theorem fmt_beq {t : String} (h : isFormatTag t = true) :
    (t == "structure") = false ∧ (t == "content") = false ∧ (t == "path") = false ∧ (t == "hash") = false ∧
    (t == "directoryhash") = false ∧ (t == "roothash") = false ∧ (t == "previousPath") = false := by
  have h' : t = "md5" ∨ t = "sha1" ∨ t = "xxh128" ∨ t = "xxh3" ∨ t = "xxh64" ∨ t = "c4" := by
    simpa [isFormatTag, Gen.supportedFormats] using h
  rcases h' with rfl | rfl | rfl | rfl | rfl | rfl <;> decide

/-- the entry as the content pass leaves it: no structure hash yet -/
def strip (e : XEntry) : XEntry := { e with shash := none }

theorem alookup_entry (e : XEntry) :
    alookup "action" (optAttr "action" e.action ++ optAttr "hashdate" e.hashdate) = e.action ∧
    alookup "hashdate" (optAttr "action" e.action ++ optAttr "hashdate" e.hashdate) = e.hashdate := by
  cases e.action <;> cases e.hashdate <;> simp [optAttr, alookup]

/-- one format element with its digest, read into a file record or into a directory record in `content` mode -/
theorem run_entry_content (e : XEntry) (hf : isFormatTag e.fmt = true) (r : XRecord) (st : List Cur) (b : Bool)
    (ps : List String) (o : XGen) (hb : r.isDir = false ∨ b = false) :
    run ⟨.media r, st, b, ps, o⟩ (events (entryElem e (some e.digest)))
      = ⟨.media { r with entries := r.entries ++ [strip e] }, st, b, ps, o⟩ := by
  unfold entryElem
  rw [run_leaf]
  obtain ⟨h1, h2, h3, h4, h5, h6, h7⟩ := fmt_beq hf
  obtain ⟨a1, a2⟩ := alookup_entry e
  rcases hb with hb | hb <;>
    simp [startStep, endStep, h1, h2, h3, hf, hb, a1, a2, normText_getD, strip]

theorem run_entries_content (es : List XEntry) (hf : ∀ e ∈ es, isFormatTag e.fmt = true) (r : XRecord)
    (st : List Cur) (b : Bool) (ps : List String) (o : XGen) (hb : r.isDir = false ∨ b = false) :
    run ⟨.media r, st, b, ps, o⟩ (eventsList (es.map fun e => entryElem e (some e.digest)))
      = ⟨.media { r with entries := r.entries ++ es.map strip }, st, b, ps, o⟩ := by
  induction es generalizing r with
  | nil => simp
  | cons e es ih =>
    simp only [List.map_cons, eventsList_cons, run_append]
    rw [run_entry_content e (hf e (by simp)) r st b ps o hb, ih (fun x hx => hf x (by simp [hx])) { r with entries := r.entries ++ [strip e] } hb]
    simp

/-- one format element of `<structure>`: the structure hash goes to the first entry of that format -/
theorem run_entry_struct (e : XEntry) (hf : isFormatTag e.fmt = true) (r : XRecord) (hd : r.isDir = true)
    (st : List Cur) (ps : List String) (o : XGen) :
    run ⟨.media r, st, true, ps, o⟩ (events (entryElem e e.shash))
      = ⟨.media { r with entries := endStep.setFirst e.fmt (normText e.shash) r.entries }, st, true, ps, o⟩ := by
  unfold entryElem
  rw [run_leaf]
  obtain ⟨h1, h2, h3, h4, h5, h6, h7⟩ := fmt_beq hf
  simp [startStep, endStep, h1, h2, h3, hf, hd]

theorem run_entries_struct (es : List XEntry) (hf : ∀ e ∈ es, isFormatTag e.fmt = true) (r : XRecord)
    (hd : r.isDir = true) (st : List Cur) (ps : List String) (o : XGen) :
    run ⟨.media r, st, true, ps, o⟩ (eventsList (es.map fun e => entryElem e e.shash))
      = ⟨.media { r with entries := es.foldl (fun L e => endStep.setFirst e.fmt (normText e.shash) L) r.entries },
          st, true, ps, o⟩ := by
  induction es generalizing r with
  | nil => simp
  | cons e es ih =>
    simp only [List.map_cons, eventsList_cons, run_append]
    rw [run_entry_struct e (hf e (by simp)) r hd st ps o, ih (fun x hx => hf x (by simp [hx])) { r with entries := endStep.setFirst e.fmt (normText e.shash) r.entries } hd]
    simp

/-! ### `setFirst` -/

theorem setFirst_nil (t : String) (x : Option String) : endStep.setFirst t x [] = [] := by
  rw [endStep.setFirst]

theorem setFirst_cons (t : String) (x : Option String) (e : XEntry) (es : List XEntry) :
    endStep.setFirst t x (e :: es)
      = if e.fmt == t then { e with shash := x } :: es else e :: endStep.setFirst t x es := by
  rw [endStep.setFirst]

/-- the first entry of the format gets the text -/
theorem setFirst_at (t : String) (x : Option String) (l₁ : List XEntry) (e : XEntry) (l₂ : List XEntry)
    (h₁ : ∀ a ∈ l₁, a.fmt ≠ t) (he : e.fmt = t) :
    endStep.setFirst t x (l₁ ++ e :: l₂) = l₁ ++ { e with shash := x } :: l₂ := by
  induction l₁ with
  | nil => simp [setFirst_cons, he]
  | cons a as ih =>
    have ha : a.fmt ≠ t := h₁ a (by simp)
    simp [setFirst_cons, ha, ih (fun y hy => h₁ y (by simp [hy]))]

/-- writing "no structure hash" where there is none changes nothing -/
theorem setFirst_none (t : String) (l : List XEntry) (h : ∀ a ∈ l, a.fmt = t → a.shash = none) :
    endStep.setFirst t none l = l := by
  induction l with
  | nil => exact setFirst_nil _ _
  | cons a as ih =>
    rw [setFirst_cons]
    by_cases ha : a.fmt = t
    · have := h a (by simp) ha
      cases a; simp_all
    · simp [ha, ih (fun y hy => h y (by simp [hy]))]

/-- duplicates of a format inside one record carry no structure hash -/
def DupFree (es : List XEntry) : Prop :=
  es.Pairwise fun a b => a.fmt = b.fmt → a.shash = none ∧ b.shash = none

theorem struct_pass_aux (rest done : List XEntry) (h₁ : ∀ e ∈ rest, e.shash ≠ some "")
    (h₂ : DupFree (done ++ rest)) :
    rest.foldl (fun L e => endStep.setFirst e.fmt (normText e.shash) L) (done ++ rest.map strip) = done ++ rest := by
  induction rest generalizing done with
  | nil => simp
  | cons e rest ih =>
    have hstep : endStep.setFirst e.fmt (normText e.shash) (done ++ List.map strip (e :: rest))
        = (done ++ [e]) ++ rest.map strip := by
      rw [normText_of_ne (h₁ e (by simp))]
      have hp := h₂
      unfold DupFree at hp
      rw [List.pairwise_append] at hp
      obtain ⟨_, _, hp3⟩ := hp
      cases hs : e.shash with
      | none =>
        rw [setFirst_none]
        · have : strip e = e := by cases e; simp_all [strip]
          simp [this]
        · intro a ha hfa
          simp only [List.map_cons, List.mem_append, List.mem_cons, List.mem_map] at ha
          rcases ha with ha | rfl | ⟨y, _, rfl⟩
          · exact (hp3 a ha e (by simp) hfa).1
          · rfl
          · rfl
      | some x =>
        have hd : ∀ a ∈ done, a.fmt ≠ e.fmt := by
          intro a ha hfa
          have := (hp3 a ha e (by simp) hfa).2
          rw [hs] at this; cases this
        simp only [List.map_cons]
        rw [setFirst_at e.fmt (some x) done (strip e) _ hd rfl]
        have : { strip e with shash := some x } = e := by cases e; simp_all [strip]
        simp [this]
    rw [List.foldl_cons, hstep, ih (done ++ [e]) (fun y hy => h₁ y (by simp [hy])) (by simpa using h₂)]
    simp

/-- the content pass followed by the structure pass restores the entries of a directory record -/
theorem struct_pass (es : List XEntry) (h₁ : ∀ e ∈ es, e.shash ≠ some "") (h₂ : DupFree es) :
    es.foldl (fun L e => endStep.setFirst e.fmt (normText e.shash) L) (es.map strip) = es := by
  simpa using struct_pass_aux es [] h₁ (by simpa using h₂)

/-! ### the size attribute -/

theorem parseNat_toString (n : Nat) : parseNat (toString n) = some n := by
  unfold parseNat
  have hl : (toString n).toList = Nat.toDigits 10 n := by
    rw [Nat.toString_eq_repr, Nat.toList_repr]
  have hne : (toString n).isEmpty = false := by
    rw [Nat.toString_eq_repr]
    simp
  have hall : (toString n).toList.all (fun c => '0' ≤ c && c ≤ '9') = true := by
    rw [hl, List.all_eq_true]
    intro c hc
    have := Nat.isDigit_of_mem_toDigits (by decide) (by decide) hc
    simpa [Char.isDigit, Char.le_def] using this
  rw [hne, hall]
  simp only [Bool.not_true, Bool.or_self, Bool.false_eq_true, ↓reduceIte, Option.some.injEq]
  rw [hl]
  have := @Nat.ofDigitChars_ten_toDigits n
  rw [Nat.ofDigitChars_eq_foldl] at this
  simpa [Nat.mul_comm] using this

/-! ## records -/

theorem run_path (r r0 : XRecord) (st : List Cur) (b : Bool) (ps : List String) (o : XGen) :
    run ⟨.media r0, st, b, ps, o⟩ (events (pathElem r))
      = ⟨.media { r0 with path := r.path, size := r.size }, st, b, ps, o⟩ := by
  unfold pathElem
  rw [run_leaf]
  have hs : (alookup "size" (optAttr "size" (r.size.map toString) ++ optAttr "lastmodificationdate" r.lastmod)).bind
      parseNat = r.size := by
    have hr : ∀ n : Nat, parseNat n.repr = some n := fun n => by
      rw [← Nat.toString_eq_repr]; exact parseNat_toString n
    cases r.size <;> cases r.lastmod <;> simp [optAttr, alookup, hr]
  simp [startStep, endStep, hs, normText_getD]

theorem run_prev (r r0 : XRecord) (h0 : r0.prev = none) (st : List Cur) (b : Bool) (ps : List String) (o : XGen) :
    run ⟨.media r0, st, b, ps, o⟩ (eventsList (prevElems r))
      = ⟨.media { r0 with prev := normText r.prev }, st, b, ps, o⟩ := by
  unfold prevElems
  cases hp : r.prev with
  | none => cases r0; simp_all [normText_none]
  | some p =>
    have : isFormatTag "previousPath" = false := by decide
    simp [run_leaf, startStep, endStep, this]

/-- the entries of a directory record as the reader rebuilds them: content pass, then structure pass -/
def readDirEntries (es : List XEntry) : List XEntry :=
  es.foldl (fun L e => endStep.setFirst e.fmt (normText e.shash) L) (es.map strip)

/-- a file record as the reader returns it -/
def readFile (r : XRecord) : XRecord :=
  { path := r.path, isDir := false, size := r.size, lastmod := none, prev := normText r.prev,
    entries := (isort (fun a b => strLe a.fmt b.fmt) r.entries).map strip }

/-- a directory record as the reader returns it -/
def readDir (r : XRecord) : XRecord :=
  { path := r.path, isDir := true, size := r.size, lastmod := none, prev := normText r.prev,
    entries := readDirEntries r.entries }

/-- the root hash as the reader returns it -/
def readRoot (r : XRecord) : XRecord :=
  { path := ".", isDir := true, size := none, lastmod := none, prev := normText r.prev,
    entries := readDirEntries r.entries }

theorem run_file (r : XRecord) (hf : ∀ e ∈ r.entries, isFormatTag e.fmt = true) (hp : r.path ≠ ".")
    (st : List Cur) (b : Bool) (ps : List String) (o : XGen) :
    run ⟨.none, st, b, ps, o⟩ (events (fileElem r))
      = ⟨.none, st, b, ps, { o with records := o.records ++ [readFile r] }⟩ := by
  unfold fileElem
  rw [run_events_mk]
  have h0 : startStep ⟨.none, st, b, ps, o⟩ "hash" = ⟨.media { path := "" }, st, b, ps, o⟩ := by
    simp [startStep]
  rw [h0]
  simp only [eventsList_append, run_append, eventsList_cons, eventsList_nil, List.append_nil]
  rw [run_path, run_entries_content _ (fun e he => hf e ((mem_isort_d _ _ _).1 he)) _ _ _ _ _ (Or.inl rfl),
    run_prev _ _ rfl]
  have : isFormatTag "hash" = false := by decide
  simp [endStep, this, hp, readFile]

/-- `<content>`, `<structure>` and `<previousPath>` of a directory record or of the root hash -/
theorem run_dirBody (r r0 : XRecord) (hf : ∀ e ∈ r.entries, isFormatTag e.fmt = true)
    (hd : r0.isDir = true) (he : r0.entries = []) (hp : r0.prev = none)
    (st : List Cur) (b : Bool) (ps : List String) (o : XGen) :
    run ⟨.media r0, st, b, ps, o⟩ (eventsList
        ([.mk "content" [] none (r.entries.map fun e => entryElem e (some e.digest)),
          .mk "structure" [] none (r.entries.map fun e => entryElem e e.shash)] ++ prevElems r))
      = ⟨.media { r0 with entries := readDirEntries r.entries, prev := normText r.prev }, st, true, ps, o⟩ := by
  simp only [eventsList_append, run_append, eventsList_cons, eventsList_nil, List.append_nil, run_events_mk]
  have h1 : startStep ⟨.media r0, st, b, ps, o⟩ "content" = ⟨.media r0, st, false, ps, o⟩ := by
    simp [startStep]
  rw [h1, run_entries_content _ hf _ _ _ _ _ (Or.inr rfl)]
  have f1 : isFormatTag "content" = false := by decide
  have f2 : isFormatTag "structure" = false := by decide
  have h2 : ∀ r' : XRecord, startStep (endStep ⟨.media r', st, false, ps, o⟩ "content" [] (normText none)) "structure"
      = ⟨.media r', st, true, ps, o⟩ := by
    intro r'; simp [startStep, endStep, f1]
  rw [h2, run_entries_struct _ hf { r0 with entries := r0.entries ++ List.map strip r.entries } hd]
  have h3 : ∀ r' : XRecord, endStep ⟨.media r', st, true, ps, o⟩ "structure" [] (normText none)
      = ⟨.media r', st, true, ps, o⟩ := by
    intro r'; simp [endStep, f2]
  rw [h3, run_prev]
  · simp [he, readDirEntries]
  · exact hp

theorem run_dir (r : XRecord) (hf : ∀ e ∈ r.entries, isFormatTag e.fmt = true) (hp : r.path ≠ ".")
    (st : List Cur) (b : Bool) (ps : List String) (o : XGen) :
    run ⟨.none, st, b, ps, o⟩ (events (dirElem "directoryhash" true r))
      = ⟨.none, st, true, ps, { o with records := o.records ++ [readDir r] }⟩ := by
  unfold dirElem
  rw [run_events_mk]
  have h0 : startStep ⟨.none, st, b, ps, o⟩ "directoryhash" = ⟨.media { path := "", isDir := true }, st, b, ps, o⟩ := by
    simp [startStep]
  rw [h0]
  simp only [↓reduceIte, List.append_assoc]
  rw [eventsList_append, run_append]
  simp only [eventsList_cons, eventsList_nil, List.append_nil]
  rw [run_path, run_dirBody r _ hf rfl rfl rfl]
  have : isFormatTag "directoryhash" = false := by decide
  simp [endStep, this, hp, readDir]

theorem run_root (r : XRecord) (hf : ∀ e ∈ r.entries, isFormatTag e.fmt = true)
    (p : Option String) (q : Option XRecord) (st : List Cur) (b : Bool) (ps : List String) (o : XGen) :
    run ⟨.process p q, st, b, ps, o⟩ (events (dirElem "roothash" false r))
      = ⟨.process p (some (readRoot r)), st, true, ps, o⟩ := by
  unfold dirElem
  rw [run_events_mk]
  have h0 : startStep ⟨.process p q, st, b, ps, o⟩ "roothash"
      = ⟨.media { path := "", isDir := true }, .process p q :: st, b, ps, o⟩ := by
    simp [startStep]
  rw [h0]
  simp only [Bool.false_eq_true, ↓reduceIte, List.nil_append]
  rw [run_dirBody r _ hf rfl rfl rfl]
  have : isFormatTag "roothash" = false := by decide
  simp [endStep, this, popStack, readRoot]

/-! ## process information, references, the whole manifest -/

theorem run_patterns (l : List String) (st : List Cur) (b : Bool) (ps : List String) (o : XGen) :
    run ⟨.ignoreSpec, st, b, ps, o⟩ (eventsList (l.map fun p => .mk "pattern" [] (some p) []))
      = ⟨.ignoreSpec, st, b, ps ++ l, o⟩ := by
  induction l generalizing ps with
  | nil => simp
  | cons p l ih =>
    simp only [List.map_cons, eventsList_cons, run_append, run_leaf]
    have : endStep (startStep ⟨.ignoreSpec, st, b, ps, o⟩ "pattern") "pattern" [] (normText (some p))
        = ⟨.ignoreSpec, st, b, ps ++ [p], o⟩ := by
      simp [startStep, endStep, normText_getD]
    rw [this, ih]; simp

theorem run_ignore (l : List String) (p : Option String) (q : Option XRecord) (st : List Cur) (b : Bool)
    (ps : List String) (o : XGen) :
    run ⟨.process p q, st, b, ps, o⟩ (events (.mk "ignore" [] none (l.map fun p => .mk "pattern" [] (some p) [])))
      = ⟨.process p q, st, b, ps ++ l, o⟩ := by
  rw [run_events_mk]
  have : startStep ⟨.process p q, st, b, ps, o⟩ "ignore" = ⟨.ignoreSpec, .process p q :: st, b, ps, o⟩ := by
    simp [startStep]
  rw [this, run_patterns]
  simp [endStep, popStack]

/-- the root hash as the reader returns it (none when nothing was written) -/
def readRootOpt (r : Option XRecord) : Option XRecord :=
  r.bind fun r => if r.entries.isEmpty then none else some (readRoot r)

theorem run_process (g : XGen) (hf : ∀ r, g.rootHash = some r → ∀ e ∈ r.entries, isFormatTag e.fmt = true)
    (st : List Cur) (b : Bool) (ps : List String) (o : XGen) :
    run ⟨.none, st, b, ps, o⟩ (events (processElem g))
      = ⟨.none, st, (readRootOpt g.rootHash).isSome || b, ps ++ g.ignore,
          { o with process := normText g.process, rootHash := readRootOpt g.rootHash }⟩ := by
  unfold processElem
  rw [run_events_mk]
  have h0 : startStep ⟨.none, st, b, ps, o⟩ "processinfo" = ⟨.process none none, st, b, ps, o⟩ := by
    simp [startStep]
  rw [h0]
  simp only [eventsList_append, run_append, eventsList_cons, eventsList_nil, List.append_nil, run_leaf]
  have h1 : endStep (startStep ⟨.process none none, st, b, ps, o⟩ "process") "process" [] (normText g.process)
      = ⟨.process (normText g.process) none, st, b, ps, o⟩ := by
    simp [startStep, endStep]
  rw [h1]
  cases hr : g.rootHash with
  | none => simp [run_ignore, endStep, readRootOpt]
  | some r =>
    by_cases he : r.entries = []
    · simp [he, run_ignore, endStep, readRootOpt]
    · have he' : r.entries.isEmpty = false := by simpa using he
      simp only [he', Bool.false_eq_true, ↓reduceIte, eventsList_cons, eventsList_nil, List.append_nil]
      rw [run_root r (hf r hr), run_ignore]
      simp [endStep, readRootOpt, he]

/-- a reference as the reader returns it -/
def normRef (r : XRef) : XRef := { path := normText r.path, c4 := normText r.c4 }

theorem run_ref (r : XRef) (st : List Cur) (b : Bool) (ps : List String) (o : XGen) :
    run ⟨.none, st, b, ps, o⟩ (events (refElem r))
      = ⟨.none, st, b, ps, { o with refs := o.refs ++ [normRef r] }⟩ := by
  unfold refElem
  rw [run_events_mk]
  simp [run_leaf, run_append, startStep, endStep, normRef]

theorem run_refs (rs : List XRef) (st : List Cur) (b : Bool) (ps : List String) (o : XGen) :
    run ⟨.none, st, b, ps, o⟩ (eventsList (rs.map refElem))
      = ⟨.none, st, b, ps, { o with refs := o.refs ++ rs.map normRef }⟩ := by
  induction rs generalizing o with
  | nil => simp
  | cons r rs ih =>
    simp only [List.map_cons, eventsList_cons, run_append, run_ref, ih]
    simp

theorem run_references (rs : List XRef) (st : List Cur) (b : Bool) (ps : List String) (o : XGen) :
    run ⟨.none, st, b, ps, o⟩ (eventsList (if rs.isEmpty then [] else [.mk "references" [] none (rs.map refElem)]))
      = ⟨.none, st, b, ps, { o with refs := o.refs ++ rs.map normRef }⟩ := by
  by_cases he : rs = []
  · simp [he]
  · have he' : rs.isEmpty = false := by simpa using he
    simp only [he', Bool.false_eq_true, ↓reduceIte, eventsList_cons, eventsList_nil, List.append_nil, run_events_mk]
    have hs : startStep ⟨.none, st, b, ps, o⟩ "references" = ⟨.none, st, b, ps, o⟩ := by simp [startStep]
    rw [hs, run_refs]
    simp [endStep]

/-- one record of `<hashes>` as the writer writes it -/
def recElem (r : XRecord) : Elem := if r.isDir then dirElem "directoryhash" true r else fileElem r

/-- one record as the reader returns it -/
def readRec (r : XRecord) : XRecord := if r.isDir then readDir r else readFile r

theorem run_records (rs : List XRecord) (hf : ∀ r ∈ rs, r.path ≠ "." ∧ ∀ e ∈ r.entries, isFormatTag e.fmt = true)
    (st : List Cur) (b : Bool) (ps : List String) (o : XGen) :
    run ⟨.none, st, b, ps, o⟩ (eventsList (rs.map recElem))
      = ⟨.none, st, rs.any (·.isDir) || b, ps, { o with records := o.records ++ rs.map readRec }⟩ := by
  induction rs generalizing o b with
  | nil => simp
  | cons r rs ih =>
    obtain ⟨hp, hfr⟩ := hf r (by simp)
    simp only [List.map_cons, eventsList_cons, run_append]
    by_cases hd : r.isDir = true
    · simp only [recElem, hd, ↓reduceIte, run_dir r hfr hp]
      rw [ih (fun x hx => hf x (by simp [hx]))]
      simp [readRec, hd]
    · simp only [recElem, hd, Bool.false_eq_true, ↓reduceIte, run_file r hfr hp]
      rw [ih (fun x hx => hf x (by simp [hx]))]
      simp [readRec, hd]

theorem run_hashes (rs : List XRecord) (hf : ∀ r ∈ rs, r.path ≠ "." ∧ ∀ e ∈ r.entries, isFormatTag e.fmt = true)
    (st : List Cur) (b : Bool) (ps : List String) (o : XGen) :
    run ⟨.none, st, b, ps, o⟩ (eventsList (if rs.isEmpty then [] else
        [.mk "hashes" [] none (rs.map fun r => if r.isDir then dirElem "directoryhash" true r else fileElem r)]))
      = ⟨.none, st, rs.any (·.isDir) || b, ps, { o with records := o.records ++ rs.map readRec }⟩ := by
  by_cases he : rs = []
  · simp [he]
  · have he' : rs.isEmpty = false := by simpa using he
    have hm : (rs.map fun r => if r.isDir then dirElem "directoryhash" true r else fileElem r) = rs.map recElem := rfl
    simp only [he', Bool.false_eq_true, ↓reduceIte, eventsList_cons, eventsList_nil, List.append_nil, run_events_mk, hm]
    have hs : startStep ⟨.none, st, b, ps, o⟩ "hashes" = ⟨.none, st, b, ps, o⟩ := by simp [startStep]
    rw [hs, run_records rs hf]
    simp [endStep]

/-- what the reader returns for what the writer wrote, field by field -/
def readBack (g : XGen) : XGen :=
  { creator := normCreator g.creator, process := normText g.process, rootHash := readRootOpt g.rootHash,
    ignore := setPatterns (some g.ignore) [] [], records := g.records.map readRec, refs := g.refs.map normRef }

/-- the structural conditions: supported formats everywhere, no record named "." -/
def Shape (g : XGen) : Prop :=
  (∀ r, g.rootHash = some r → ∀ e ∈ r.entries, isFormatTag e.fmt = true) ∧
  ∀ r ∈ g.records, r.path ≠ "." ∧ ∀ e ∈ r.entries, isFormatTag e.fmt = true

theorem parse_toXml_readBack (g : XGen) (h : Shape g) : parse (toXml g) = readBack g := by
  obtain ⟨hroot, hrecs⟩ := h
  unfold parse parseEvents toXml
  show (let s := run {} _; ({ s.out with ignore := setPatterns (some s.patterns) [] [] } : XGen)) = _
  rw [run_events_mk]
  have h0 : startStep {} "hashlist" = ⟨.none, [], false, [], {}⟩ := by simp [startStep]
  rw [h0]
  simp only [eventsList_append, run_append, eventsList_cons, eventsList_nil, List.append_nil]
  rw [run_creator, run_process g hroot, run_hashes g.records hrecs, run_references]
  simp [endStep, readBack]

/-! ## the representation shift `norm` -/

/-- the order in which the writer emits the format elements of a file record -/
def fmtLe (a b : XEntry) : Bool := strLe a.fmt b.fmt

/-- `norm` on one record -/
def nrec (r : XRecord) : XRecord :=
  { r with lastmod := none, entries := if r.isDir then r.entries else isort fmtLe r.entries }

/-- `norm` on the root hash -/
def nroot (r : XRecord) : XRecord := { (nrec r) with path := ".", isDir := true, size := none }

theorem norm_eq (g : XGen) :
    norm g = { g with rootHash := g.rootHash.bind fun r => if r.entries.isEmpty then none else some (nroot r),
                      ignore := setPatterns (some g.ignore) [] [],
                      records := g.records.map nrec } := rfl

theorem fmtLe_total (a b : XEntry) : fmtLe a b = true ∨ fmtLe b a = true := strLe_total _ _

theorem fmtLe_trans (a b c : XEntry) (h₁ : fmtLe a b = true) (h₂ : fmtLe b c = true) : fmtLe a c = true :=
  strLe_trans _ _ _ h₁ h₂

theorem isort_of_sorted {α : Type} (le : α → α → Bool) (l : List α) (h : l.Pairwise fun x y => le x y = true) :
    isort le l = l := by
  induction l with
  | nil => rfl
  | cons x xs ih =>
    rw [List.pairwise_cons] at h
    rw [isort, ih h.2]
    cases xs with
    | nil => rfl
    | cons y ys => simp [insertSorted, h.1 y (by simp)]

theorem isort_fmtLe_idem (l : List XEntry) : isort fmtLe (isort fmtLe l) = isort fmtLe l :=
  isort_of_sorted _ _ (isort_pairwise_d fmtLe fmtLe_total fmtLe_trans l)

theorem isort_eq_nil {α : Type} (le : α → α → Bool) (l : List α) : isort le l = [] ↔ l = [] := by
  rw [← List.length_eq_zero_iff, length_isort_d, List.length_eq_zero_iff]

theorem nrec_idem (r : XRecord) : nrec (nrec r) = nrec r := by
  unfold nrec
  cases hd : r.isDir <;> simp [isort_fmtLe_idem]

theorem nroot_entries_ne (r : XRecord) (h : r.entries ≠ []) : (nroot r).entries ≠ [] := by
  unfold nroot nrec
  cases hd : r.isDir <;> simp [h, isort_eq_nil]

theorem nroot_idem (r : XRecord) : nroot (nroot r) = nroot r := by
  simp [nroot, nrec]

/-! ### the ignore list -/

theorem foldl_appendNew_of_nodup (l acc : List String) (h : (acc ++ l).Nodup) : l.foldl appendNew acc = acc ++ l := by
  induction l generalizing acc with
  | nil => simp
  | cons x xs ih =>
    have hx : x ∉ acc := by
      intro hx
      rw [List.nodup_append] at h
      exact h.2.2 x hx x (by simp) rfl
    have : appendNew acc x = acc ++ [x] := by simp [appendNew, hx]
    rw [List.foldl_cons, this, ih (acc ++ [x]) (by simpa using h)]
    simp

theorem appendPatterns_nil_nodup (l : List String) : (appendPatterns [] l).Nodup :=
  nodup_foldl_appendNew id l [] List.nodup_nil

theorem appendPatterns_nil_eq_nil (l : List String) : appendPatterns [] l = [] ↔ l = [] := by
  constructor
  · intro h
    cases l with
    | nil => rfl
    | cons x xs =>
      have : x ∈ appendPatterns [] (x :: xs) :=
        (mem_foldl_appendNew id (x :: xs) [] x).2 (Or.inr ⟨x, by simp, rfl⟩)
      rw [h] at this; cases this
  · rintro rfl; rfl

theorem setPatterns_some (l : List String) :
    setPatterns (some l) [] [] = if l.isEmpty then appendPatterns [] Gen.defaultIgnore else appendPatterns [] l := by
  simp [setPatterns, basePatterns]

/-- reading an ignore list that was read before changes nothing -/
theorem setPatterns_idem (l : List String) :
    setPatterns (some (setPatterns (some l) [] [])) [] [] = setPatterns (some l) [] [] := by
  have key : ∀ m : List String, m ≠ [] → setPatterns (some (appendPatterns [] m)) [] [] = appendPatterns [] m := by
    intro m hm
    have hne : appendPatterns [] m ≠ [] := fun h => hm ((appendPatterns_nil_eq_nil m).1 h)
    have hne' : (appendPatterns [] m).isEmpty = false := by simpa using hne
    rw [setPatterns_some, hne']
    simp only [Bool.false_eq_true, ↓reduceIte]
    have := foldl_appendNew_of_nodup (appendPatterns [] m) [] (by simpa using appendPatterns_nil_nodup m)
    simpa [appendPatterns] using this
  rw [setPatterns_some l]
  by_cases he : l = []
  · subst he
    simp only [List.isEmpty_nil, ↓reduceIte]
    exact key Gen.defaultIgnore (by decide)
  · have he' : l.isEmpty = false := by simpa using he
    simp only [he', Bool.false_eq_true, ↓reduceIte]
    exact key l he

theorem norm_idem (g : XGen) : norm (norm g) = norm g := by
  rw [norm_eq (norm g), norm_eq g]
  simp only [setPatterns_idem, List.map_map]
  have h1 : (nrec ∘ nrec) = nrec := by funext r; exact nrec_idem r
  rw [h1]
  congr 1
  cases hr : g.rootHash with
  | none => rfl
  | some r =>
    by_cases he : r.entries = []
    · simp [he]
    · have := nroot_entries_ne r he
      simp [he, this, nroot_idem]

/-! ## chain file -/

def chainRun (s : CState) (evs : List Event) : CState := evs.foldl chainStep s

@[simp] theorem chainRun_nil (s : CState) : chainRun s [] = s := rfl
@[simp] theorem chainRun_cons (s : CState) (e : Event) (evs : List Event) :
    chainRun s (e :: evs) = chainRun (chainStep s e) evs := rfl
theorem chainRun_append (s : CState) (a b : List Event) : chainRun s (a ++ b) = chainRun (chainRun s a) b := by
  simp [chainRun, List.foldl_append]

/-- what the chain reader makes of one written entry (whatever the entry) -/
def readChainEntry (c : XChainEntry) : List XChainEntry := (chainRun {} (events (chainEntryElem c))).out

/-- one entry element, whatever it contains, is read on its own: the reader is between entries before and after, and
what it appends does not depend on what was read before -/
theorem chainRun_entry (c : XChainEntry) (out : List XChainEntry) :
    chainRun ⟨none, out⟩ (events (chainEntryElem c)) = ⟨none, out ++ readChainEntry c⟩ := by
  unfold readChainEntry chainEntryElem
  simp only [events_mk, eventsList_cons, eventsList_nil, List.append_nil, List.cons_append, List.nil_append,
    chainRun_cons, chainRun_nil]
  generalize c.fmt.getD "c4" = t
  have f1 : isFormatTag "hashlist" = false := by decide
  by_cases h1 : t = "path"
  · subst h1; simp [chainStep, f1]
  · by_cases h2 : isFormatTag t = true
    · simp [chainStep, h1, h2, f1]
    · by_cases h3 : t = "hashlist"
      · subst h3; simp [chainStep, f1]
      · simp [chainStep, h1, h2, h3, f1]

theorem chainRun_entries (cs : List XChainEntry) (out : List XChainEntry) :
    chainRun ⟨none, out⟩ (eventsList (cs.map chainEntryElem)) = ⟨none, out ++ cs.flatMap readChainEntry⟩ := by
  induction cs generalizing out with
  | nil => simp
  | cons c cs ih =>
    simp only [List.map_cons, eventsList_cons, chainRun_append, chainRun_entry, ih]
    simp

theorem parseChain_eq (cs : List XChainEntry) : parseChain (chainToXml cs) = cs.flatMap readChainEntry := by
  unfold parseChain chainToXml
  show (chainRun {} _).out = _
  rw [events_mk, chainRun_cons, chainRun_append]
  have h0 : chainStep {} (.start "ascmhldirectory") = ⟨none, []⟩ := by simp [chainStep]
  rw [h0, chainRun_entries]
  simp [chainStep]

/-- a chain entry the tool writes: a supported format; texts that are present are not empty -/
def WfChainEntry (c : XChainEntry) : Prop :=
  (∃ f, c.fmt = some f ∧ isFormatTag f = true) ∧ c.path ≠ some "" ∧ c.digest ≠ some ""

theorem readChainEntry_wf (c : XChainEntry) (h : WfChainEntry c) : readChainEntry c = [c] := by
  obtain ⟨⟨f, hf, hft⟩, hp, hd⟩ := h
  unfold readChainEntry chainEntryElem
  simp only [events_mk, eventsList_cons, eventsList_nil, List.append_nil, List.cons_append, List.nil_append,
    chainRun_cons, chainRun_nil, hf, Option.getD_some, normText_of_ne hp, normText_of_ne hd]
  have h1 : (f == "path") = false := (fmt_beq hft).2.2.1
  have hs : alookup "sequencenr" (optAttr "sequencenr" c.seq) = c.seq := by
    cases c.seq <;> simp [optAttr, alookup]
  have f1 : isFormatTag "hashlist" = false := by decide
  have f2 : isFormatTag "path" = false := by decide
  cases c
  simp_all [chainStep]

/-! ## the converse: what the structure pass returns only for `DupFree` entries -/

/-- the structure pass from an arbitrary list -/
def structFold (L es : List XEntry) : List XEntry :=
  es.foldl (fun L e => endStep.setFirst e.fmt (normText e.shash) L) L

theorem readDirEntries_eq (es : List XEntry) : readDirEntries es = structFold (es.map strip) es := rfl

@[simp] theorem structFold_nil (L : List XEntry) : structFold L [] = L := rfl
@[simp] theorem structFold_cons (L : List XEntry) (e : XEntry) (es : List XEntry) :
    structFold L (e :: es) = structFold (endStep.setFirst e.fmt (normText e.shash) L) es := rfl

/-- `setFirst` for a format leaves the entries of every other format alone -/
theorem setFirst_filter_ne (t f : String) (x : Option String) (h : t ≠ f) (L : List XEntry) :
    (endStep.setFirst t x L).filter (fun a => a.fmt == f) = L.filter (fun a => a.fmt == f) := by
  induction L with
  | nil => rw [setFirst_nil]
  | cons a as ih =>
    rw [setFirst_cons]
    by_cases ha : a.fmt = t
    · have : a.fmt ≠ f := ha ▸ h
      simp [ha, h]
    · simp [ha, List.filter_cons, ih]

theorem structFold_filter_ne (f : String) (es L : List XEntry) (h : ∀ e ∈ es, e.fmt ≠ f) :
    (structFold L es).filter (fun a => a.fmt == f) = L.filter (fun a => a.fmt == f) := by
  induction es generalizing L with
  | nil => rfl
  | cons e es ih =>
    rw [structFold_cons, ih _ (fun x hx => h x (by simp [hx])), setFirst_filter_ne _ _ _ (h e (by simp))]

/-- how the head of the list fares: it collects the texts of its own format; the tail sees the other formats -/
theorem structFold_cons_left (h : XEntry) (T es : List XEntry) :
    structFold (h :: T) es
      = { h with shash := (es.filter (fun e => e.fmt == h.fmt)).foldl (fun _ e => normText e.shash) h.shash }
        :: structFold T (es.filter (fun e => !(e.fmt == h.fmt))) := by
  induction es generalizing h T with
  | nil => rfl
  | cons e es ih =>
    rw [structFold_cons, setFirst_cons]
    by_cases he : h.fmt = e.fmt
    · simp only [he, beq_self_eq_true, ↓reduceIte]
      rw [ih]
      simp
    · have he' : (e.fmt == h.fmt) = false := by simpa using fun x => he x.symm
      have he'' : (h.fmt == e.fmt) = false := by simpa using he
      simp only [he'', Bool.false_eq_true, ↓reduceIte]
      rw [ih]
      simp [he']

/-- steps that write "no structure hash" for a format whose entries have none can be skipped -/
theorem structFold_skip (f : String) (es L : List XEntry) (hL : ∀ a ∈ L, a.fmt = f → a.shash = none)
    (hes : ∀ e ∈ es, e.fmt = f → e.shash = none) :
    structFold L es = structFold L (es.filter (fun e => !(e.fmt == f))) := by
  induction es generalizing L with
  | nil => rfl
  | cons e es ih =>
    by_cases he : e.fmt = f
    · have hs := hes e (by simp) he
      rw [structFold_cons, hs, normText_none, he, setFirst_none f L hL, ih L hL (fun x hx => hes x (by simp [hx]))]
      simp [he]
    · have he' : (e.fmt == f) = false := by simpa using he
      rw [List.filter_cons]
      simp only [he', Bool.not_false, ↓reduceIte, structFold_cons]
      apply ih
      · intro a ha haf
        have : a ∈ (endStep.setFirst e.fmt (normText e.shash) L).filter (fun a => a.fmt == f) := by
          simp [List.mem_filter, ha, haf]
        rw [setFirst_filter_ne _ _ _ he] at this
        exact hL a (List.mem_filter.1 this).1 haf
      · exact fun x hx => hes x (by simp [hx])

theorem foldl_last_none (l : List XEntry) (x : Option String) (hne : l ≠ []) (h : ∀ e ∈ l, e.shash = none) :
    l.foldl (fun _ e => normText e.shash) x = none := by
  induction l generalizing x with
  | nil => exact absurd rfl hne
  | cons e es ih =>
    rw [List.foldl_cons, h e (by simp), normText_none]
    cases es with
    | nil => rfl
    | cons e' es' => exact ih none (by simp) (fun y hy => h y (by simp [hy]))

/-- **converse of `struct_pass`**: the structure pass gives back the entries only if no present structure hash is
empty and repeated formats carry no structure hash -/
theorem struct_pass_conv (es : List XEntry) (h : readDirEntries es = es) :
    (∀ e ∈ es, e.shash ≠ some "") ∧ DupFree es := by
  induction es with
  | nil => exact ⟨by simp, List.Pairwise.nil⟩
  | cons e rest ih =>
    rw [readDirEntries_eq, List.map_cons, structFold_cons_left] at h
    have hfe : (strip e).fmt = e.fmt := rfl
    rw [hfe] at h
    have hhead := (List.cons.inj h).1
    have htail := (List.cons.inj h).2
    simp only [List.filter_cons, beq_self_eq_true, ↓reduceIte, Bool.not_true, Bool.false_eq_true] at hhead htail
    -- (*) the later entries of the same format carry no structure hash
    have hstar : ∀ e' ∈ rest, e'.fmt = e.fmt → e'.shash = none := by
      intro e' he' hf
      have hm : e' ∈ rest.filter (fun a => a.fmt == e.fmt) := by simp [List.mem_filter, he', hf]
      rw [← htail, structFold_filter_ne e.fmt _ _ (by simp [List.mem_filter])] at hm
      obtain ⟨y, _, rfl⟩ := List.mem_map.1 (List.mem_filter.1 hm).1
      rfl
    -- the tail: the skipped steps were no-ops
    have hrest : readDirEntries rest = rest := by
      rw [readDirEntries_eq, structFold_skip e.fmt rest _ (by
        intro a ha _
        obtain ⟨y, _, rfl⟩ := List.mem_map.1 ha
        rfl) hstar]
      exact htail
    obtain ⟨ih1, ih2⟩ := ih hrest
    -- the head
    have hsh : (List.foldl (fun _ e => normText e.shash) (normText e.shash)
        (rest.filter (fun e' => e'.fmt == e.fmt))) = e.shash := by
      have := congrArg XEntry.shash hhead
      simpa [strip] using this
    have hehead : e.shash ≠ some "" ∧ ∀ e' ∈ rest, e.fmt = e'.fmt → e.shash = none ∧ e'.shash = none := by
      by_cases hm : rest.filter (fun e' => e'.fmt == e.fmt) = []
      · rw [hm] at hsh
        refine ⟨?_, ?_⟩
        · rw [← hsh]; exact normText_ne _
        · intro e' he' hf
          have : e' ∈ rest.filter (fun e' => e'.fmt == e.fmt) := by simp [List.mem_filter, he', hf]
          rw [hm] at this; cases this
      · have hnone : e.shash = none := by
          rw [← hsh]
          exact foldl_last_none _ _ hm (fun y hy => by
            have := List.mem_filter.1 hy
            exact hstar y this.1 (by simpa using this.2))
        refine ⟨by rw [hnone]; simp, ?_⟩
        intro e' he' hf
        exact ⟨hnone, hstar e' he' hf.symm⟩
    refine ⟨?_, ?_⟩
    · intro x hx
      rcases List.mem_cons.1 hx with rfl | hx
      · exact hehead.1
      · exact ih1 x hx
    · exact List.Pairwise.cons hehead.2 ih2

theorem setFirst_map_fmt (t : String) (x : Option String) (L : List XEntry) :
    (endStep.setFirst t x L).map (·.fmt) = L.map (·.fmt) := by
  induction L with
  | nil => rw [setFirst_nil]
  | cons a as ih =>
    rw [setFirst_cons]
    split <;> simp [ih]

theorem structFold_map_fmt (es L : List XEntry) : (structFold L es).map (·.fmt) = L.map (·.fmt) := by
  induction es generalizing L with
  | nil => rfl
  | cons e es ih => rw [structFold_cons, ih, setFirst_map_fmt]

/-- the structure pass keeps the formats in their order -/
theorem readDirEntries_map_fmt (es : List XEntry) : (readDirEntries es).map (·.fmt) = es.map (·.fmt) := by
  rw [readDirEntries_eq, structFold_map_fmt]
  simp [strip]

/-- a list whose formats are in the order of its sorted version is sorted -/
theorem isort_eq_of_map_fmt (es : List XEntry) (h : (isort fmtLe es).map (·.fmt) = es.map (·.fmt)) :
    isort fmtLe es = es := by
  apply isort_of_sorted
  have hs := isort_pairwise_d fmtLe fmtLe_total fmtLe_trans es
  have h1 : ((isort fmtLe es).map (·.fmt)).Pairwise (fun a b => strLe a b = true) := by
    rw [List.pairwise_map]; exact hs
  rw [h, List.pairwise_map] at h1
  exact h1

/-- `l.map f = l` says `f` fixes every element -/
theorem map_eq_self {α : Type} {f : α → α} {l : List α} (h : l.map f = l) : ∀ a ∈ l, f a = a := by
  induction l with
  | nil => simp
  | cons x xs ih =>
    simp only [List.map_cons, List.cons.injEq] at h
    intro a ha
    rcases List.mem_cons.1 ha with rfl | ha
    · exact h.1
    · exact ih h.2 a ha

theorem normText_eq_self {x : Option String} (h : normText x = x) : x ≠ some "" := h ▸ normText_ne x

/-! ## what the reader can never return -/

/-- all entries of the record carry a supported format -/
def GoodRec (r : XRecord) : Prop := ∀ e ∈ r.entries, isFormatTag e.fmt = true

def GoodCur : Cur → Prop
  | .media r => GoodRec r
  | .process _ (some r) => GoodRec r
  | _ => True

/-- the invariant of the reader: every entry it holds was made from a supported format tag, and no record named "."
is among the records -/
structure Inv (s : PState) : Prop where
  cur : GoodCur s.cur
  stack : ∀ c ∈ s.stack, GoodCur c
  records : ∀ r ∈ s.out.records, r.path ≠ "." ∧ GoodRec r
  root : ∀ r ∈ s.out.rootHash, GoodRec r

theorem setFirst_good (t : String) (x : Option String) (L : List XEntry) (h : ∀ e ∈ L, isFormatTag e.fmt = true) :
    ∀ e ∈ endStep.setFirst t x L, isFormatTag e.fmt = true := by
  intro e he
  have : e.fmt ∈ (endStep.setFirst t x L).map (·.fmt) := List.mem_map.2 ⟨e, he, rfl⟩
  rw [setFirst_map_fmt] at this
  obtain ⟨y, hy, hye⟩ := List.mem_map.1 this
  rw [← hye]; exact h y hy

theorem inv_init : Inv {} := ⟨trivial, by simp, by simp, by simp⟩

theorem inv_startStep (s : PState) (t : String) (h : Inv s) : Inv (startStep s t) := by
  obtain ⟨cur, st, b, ps, o⟩ := s
  obtain ⟨h1, h2, h3, h4⟩ := h
  simp only at h1 h2 h3 h4
  cases cur with
  | none =>
    simp only [startStep]
    repeat' split
    all_goals first
      | exact ⟨by simp_all [GoodCur, GoodRec], by simpa using h2, h3, h4⟩
      | (refine ⟨?_, ?_, h3, h4⟩ <;> simp_all [GoodCur, GoodRec])
  | creator c =>
    simp only [startStep]
    split <;> exact ⟨trivial, h2, h3, h4⟩
  | process p q =>
    simp only [startStep]
    repeat' split
    all_goals (refine ⟨?_, ?_, h3, h4⟩ <;> simp_all [GoodCur, GoodRec])
  | ignoreSpec => exact ⟨trivial, h2, h3, h4⟩
  | media r =>
    simp only [startStep]
    repeat' split
    all_goals exact ⟨h1, h2, h3, h4⟩
  | ref r => exact ⟨trivial, h2, h3, h4⟩

theorem inv_ite {c : Prop} [Decidable c] {a b : PState} (ha : c → Inv a) (hb : ¬c → Inv b) :
    Inv (if c then a else b) := by
  split
  · exact ha ‹_›
  · exact hb ‹_›

theorem inv_endStep (s : PState) (t : String) (a : List (String × String)) (x : Option String) (h : Inv s) :
    Inv (endStep s t a x) := by
  obtain ⟨cur, st, b, ps, o⟩ := s
  obtain ⟨h1, h2, h3, h4⟩ := h
  simp only at h1 h2 h3 h4
  cases cur with
  | none => exact ⟨h1, h2, h3, h4⟩
  | creator c =>
    simp only [endStep]
    repeat' (apply inv_ite <;> intro _)
    all_goals exact ⟨trivial, h2, h3, h4⟩
  | process p q =>
    simp only [endStep]
    repeat' (apply inv_ite <;> intro _)
    · exact ⟨by cases q <;> exact h1, h2, h3, h4⟩
    · refine ⟨trivial, h2, h3, ?_⟩
      intro r hr
      have : q = some r := by simpa using hr
      subst this
      exact h1
    · exact ⟨h1, h2, h3, h4⟩
  | ignoreSpec =>
    simp only [endStep]
    repeat' (apply inv_ite <;> intro _)
    · exact ⟨trivial, h2, h3, h4⟩
    · cases st with
      | nil => exact ⟨trivial, by simp [popStack], h3, h4⟩
      | cons c rest =>
        exact ⟨h2 c (by simp), fun y hy => h2 y (by simp [popStack] at hy; simp [hy]), h3, h4⟩
    · exact ⟨trivial, h2, h3, h4⟩
  | media r =>
    have hr : GoodRec r := h1
    simp only [endStep]
    apply inv_ite <;> intro hpath
    · exact ⟨hr, h2, h3, h4⟩
    apply inv_ite <;> intro hfmt
    · have happ : GoodRec { r with entries := r.entries ++
          [{ fmt := t, digest := x.getD "", action := alookup "action" a, hashdate := alookup "hashdate" a }] } := by
        intro e he
        simp only [List.mem_append, List.mem_singleton] at he
        rcases he with he | rfl
        · exact hr e he
        · exact hfmt
      repeat' (apply inv_ite <;> intro _)
      · exact ⟨happ, h2, h3, h4⟩
      · exact ⟨setFirst_good t x r.entries hr, h2, h3, h4⟩
      · exact ⟨happ, h2, h3, h4⟩
    apply inv_ite <;> intro hhash
    · apply inv_ite <;> intro hp
      · refine ⟨trivial, h2, h3, ?_⟩
        intro r' hr'
        have : r = r' := by simpa using hr'
        subst this; exact hr
      · refine ⟨trivial, h2, ?_, h4⟩
        intro r' hr'
        simp only [List.mem_append, List.mem_singleton] at hr'
        rcases hr' with hr' | rfl
        · exact h3 r' hr'
        · exact ⟨by simpa using hp, hr⟩
    apply inv_ite <;> intro hroot
    · cases st with
      | nil => exact ⟨trivial, by simp [popStack], h3, h4⟩
      | cons c rest =>
        have hrest : ∀ y ∈ rest, GoodCur y := fun y hy => h2 y (by simp [hy])
        cases c with
        | process p q => exact ⟨hr, hrest, h3, h4⟩
        | none => exact ⟨trivial, hrest, h3, h4⟩
        | creator c => exact ⟨trivial, hrest, h3, h4⟩
        | ignoreSpec => exact ⟨trivial, hrest, h3, h4⟩
        | media r' => exact ⟨h2 (.media r') (by simp), hrest, h3, h4⟩
        | ref r' => exact ⟨trivial, hrest, h3, h4⟩
    apply inv_ite <;> intro hprev
    · exact ⟨hr, h2, h3, h4⟩
    · exact ⟨hr, h2, h3, h4⟩
  | ref r =>
    simp only [endStep]
    repeat' (apply inv_ite <;> intro _)
    all_goals exact ⟨trivial, h2, h3, h4⟩

theorem inv_step (s : PState) (e : Event) (h : Inv s) : Inv (step s e) := by
  cases e with
  | start t => exact inv_startStep s t h
  | finish t a x => exact inv_endStep s t a x h

theorem inv_run (evs : List Event) (s : PState) (h : Inv s) : Inv (run s evs) := by
  induction evs generalizing s with
  | nil => exact h
  | cons e evs ih => exact ih _ (inv_step s e h)

/-- **whatever the input tree**: the reader never returns an entry with an unsupported format name, nor a record
named "." among the records -/
theorem parse_good (e : Elem) :
    (∀ r ∈ (parse e).records, r.path ≠ "." ∧ GoodRec r) ∧ ∀ r ∈ (parse e).rootHash, GoodRec r := by
  have := inv_run (events e) {} inv_init
  exact ⟨this.records, this.root⟩

/-- one written entry is always read as exactly one entry, and it is the written one only if that was well-formed -/
theorem readChainEntry_single (c : XChainEntry) :
    ∃ c', readChainEntry c = [c'] ∧ (c' = c → WfChainEntry c) := by
  unfold readChainEntry chainEntryElem
  simp only [events_mk, eventsList_cons, eventsList_nil, List.append_nil, List.cons_append, List.nil_append,
    chainRun_cons, chainRun_nil]
  have f1 : isFormatTag "hashlist" = false := by decide
  have f2 : isFormatTag "c4" = true := by decide
  have hs : alookup "sequencenr" (optAttr "sequencenr" c.seq) = c.seq := by
    cases c.seq <;> simp [optAttr, alookup]
  cases hf : c.fmt with
  | none =>
    refine ⟨{ seq := c.seq, path := normText c.path, fmt := some "c4", digest := normText c.digest }, ?_, ?_⟩
    · simp [chainStep, f1, f2, hs]
    · intro h
      have := congrArg XChainEntry.fmt h
      rw [hf] at this; cases this
  | some t =>
    simp only [Option.getD_some]
    by_cases h1 : t = "path"
    · subst h1
      refine ⟨{ seq := c.seq, path := normText c.digest }, by simp [chainStep, f1, hs], ?_⟩
      intro h
      have := congrArg XChainEntry.fmt h
      rw [hf] at this; cases this
    · by_cases h2 : isFormatTag t = true
      · refine ⟨{ seq := c.seq, path := normText c.path, fmt := some t, digest := normText c.digest }, ?_, ?_⟩
        · simp [chainStep, h1, h2, f1, hs]
        · intro h
          refine ⟨⟨t, hf, h2⟩, ?_, ?_⟩
          · exact normText_eq_self (congrArg XChainEntry.path h)
          · exact normText_eq_self (congrArg XChainEntry.digest h)
      · by_cases h3 : t = "hashlist"
        · subst h3
          refine ⟨{ path := normText c.path }, by simp [chainStep, f1, alookup], ?_⟩
          intro h
          have := congrArg XChainEntry.fmt h
          rw [hf] at this; cases this
        · refine ⟨{ seq := c.seq, path := normText c.path }, by simp [chainStep, h1, h2, h3, f1, hs], ?_⟩
          intro h
          have := congrArg XChainEntry.fmt h
          rw [hf] at this; cases this

theorem flatMap_single_eq_self {α : Type} (f : α → List α) (hf : ∀ a, ∃ a', f a = [a']) (l : List α)
    (h : l.flatMap f = l) : ∀ a ∈ l, f a = [a] := by
  induction l with
  | nil => simp
  | cons x xs ih =>
    obtain ⟨x', hx'⟩ := hf x
    rw [List.flatMap_cons, hx'] at h
    simp only [List.cons_append, List.nil_append, List.cons.injEq] at h
    intro a ha
    rcases List.mem_cons.1 ha with rfl | ha
    · rw [hx', h.1]
    · exact ih h.2 a ha

/-- the chain file reads back as written exactly when every entry is well-formed -/
theorem parseChain_eq_self_iff (cs : List XChainEntry) :
    parseChain (chainToXml cs) = cs ↔ ∀ c ∈ cs, WfChainEntry c := by
  rw [parseChain_eq]
  constructor
  · intro h c hc
    have h1 := flatMap_single_eq_self readChainEntry
      (fun a => (readChainEntry_single a).imp fun _ h => h.1) cs h c hc
    obtain ⟨c', hc', himp⟩ := readChainEntry_single c
    rw [hc'] at h1
    exact himp (List.singleton_inj.1 h1 |> fun e => e)
  · intro h
    induction cs with
    | nil => rfl
    | cons c cs ih =>
      rw [List.flatMap_cons, readChainEntry_wf c (h c (by simp)), ih (fun x hx => h x (by simp [hx]))]
      rfl

end MhlModel.Xml
