/- Helper lemmas for the codec layer (C01). -/
import MhlModel.Codec
import Mathlib.Data.List.Induction

namespace MhlModel.Codec

/-! ### base-b digits -/

def decodeDigits (base : Nat) (ds : List Nat) : Nat := ds.foldl (fun r d => r * base + d) 0

theorem foldl_replicate_zero (base k : Nat) (ds : List Nat) :
    (List.replicate k 0 ++ ds).foldl (fun r d => r * base + d) 0
      = ds.foldl (fun r d => r * base + d) 0 := by
  induction k with
  | zero => simp
  | succ k ih => simpa [List.replicate_succ] using ih

theorem decodeDigits_append_one (base : Nat) (ds : List Nat) (d : Nat) :
    decodeDigits base (ds ++ [d]) = decodeDigits base ds * base + d := by
  simp [decodeDigits, List.foldl_append]

theorem decode_digits (base : Nat) (hb : 2 ≤ base) (n : Nat) : decodeDigits base (digits base n) = n := by
  induction n using Nat.strongRecOn with
  | _ n ih =>
    unfold digits digitsRev
    split
    · next h =>
      rcases h with h | h
      · simp [decodeDigits, h]
      · omega
    · next h =>
      simp only [List.reverse_cons]
      rw [decodeDigits_append_one]
      have hlt : n / base < n := Nat.div_lt_self (by omega) hb
      have := ih (n / base) hlt
      unfold digits at this
      rw [this]
      exact Nat.div_add_mod' n base

theorem digitsRev_length_le (base : Nat) (hb : 2 ≤ base) (n k : Nat) (h : n < base ^ k) :
    (digitsRev base n).length ≤ k := by
  induction k generalizing n with
  | zero =>
    have : n = 0 := by simpa using h
    unfold digitsRev; simp [this]
  | succ k ih =>
    unfold digitsRev
    split
    · simp
    · simp only [List.length_cons]
      have : n / base < base ^ k := by
        rw [Nat.div_lt_iff_lt_mul (by omega)]; rw [Nat.pow_succ] at h; exact h
      have := ih _ this
      omega

theorem digitsRev_lt (base : Nat) (n : Nat) : ∀ d ∈ digitsRev base n, d < base := by
  induction n using Nat.strongRecOn with
  | _ n ih =>
    unfold digitsRev
    split
    · simp
    · next h =>
      have hb : 2 ≤ base := by omega
      intro d hd
      simp only [List.mem_cons] at hd
      rcases hd with rfl | hd
      · exact Nat.mod_lt _ (by omega)
      · exact ih (n / base) (Nat.div_lt_self (by omega) hb) d hd

theorem digits_lt (base n : Nat) : ∀ d ∈ digits base n, d < base := by
  intro d hd; exact digitsRev_lt base n d (by simpa [digits] using hd)

/-- the digit list is empty exactly for 0, and its head is non-zero otherwise (no leading zeros) -/
theorem digitsRev_length_ge (base : Nat) (hb : 2 ≤ base) (n k : Nat) (h : base ^ k ≤ n) :
    k < (digitsRev base n).length := by
  induction k generalizing n with
  | zero =>
    unfold digitsRev
    have : n ≠ 0 := by simp at h; omega
    split
    · next h' => rcases h' with h' | h' <;> omega
    · simp
  | succ k ih =>
    have hpos : 0 < base ^ (k+1) := Nat.pow_pos (by omega)
    unfold digitsRev
    split
    · next h' => rcases h' with h' | h' <;> omega
    · simp only [List.length_cons]
      have : base ^ k ≤ n / base := by
        rw [Nat.le_div_iff_mul_le (by omega)]; rw [Nat.pow_succ] at h; exact h
      have := ih _ this
      omega

/-! ### big-endian bytes -/

theorem toBytesLE_length (k n : Nat) : (toBytesLE k n).length = k := by
  induction k generalizing n with
  | zero => simp [toBytesLE]
  | succ k ih => simp [toBytesLE, ih]

theorem toBytesBE_length (k n : Nat) : (toBytesBE k n).length = k := by
  simp [toBytesBE, toBytesLE_length]

theorem ofBytesBE_append_one (b : Bytes) (x : UInt8) : ofBytesBE (b ++ [x]) = ofBytesBE b * 256 + x.toNat := by
  simp [ofBytesBE, List.foldl_append]

theorem ofBytesBE_toBytesBE (k n : Nat) (h : n < 256 ^ k) : ofBytesBE (toBytesBE k n) = n := by
  induction k generalizing n with
  | zero => simp at h; simp [toBytesBE, toBytesLE, ofBytesBE, h]
  | succ k ih =>
    have hdiv : n / 256 < 256 ^ k := by
      rw [Nat.div_lt_iff_lt_mul (by omega)]; rw [Nat.pow_succ] at h; exact h
    have := ih (n / 256) hdiv
    simp only [toBytesBE, toBytesLE, List.reverse_cons] at *
    rw [ofBytesBE_append_one, this]
    have : (UInt8.ofNat (n % 256)).toNat = n % 256 := by
      simp [UInt8.toNat_ofNat']
    rw [this]; exact Nat.div_add_mod' n 256

theorem ofBytesBE_lt (b : Bytes) : ofBytesBE b < 256 ^ b.length := by
  induction b using List.reverseRecOn with
  | nil => simp [ofBytesBE]
  | append_singleton b x ih =>
    rw [ofBytesBE_append_one]
    simp only [List.length_append, List.length_cons, List.length_nil, Nat.zero_add, Nat.pow_succ]
    have := x.toNat_lt
    omega

theorem toBytesBE_ofBytesBE (b : Bytes) : toBytesBE b.length (ofBytesBE b) = b := by
  induction b using List.reverseRecOn with
  | nil => simp [toBytesBE, toBytesLE]
  | append_singleton b x ih =>
    rw [ofBytesBE_append_one]
    simp only [List.length_append, List.length_cons, List.length_nil, Nat.zero_add]
    simp only [toBytesBE, toBytesLE, List.reverse_cons]
    have hx := x.toNat_lt
    have h1 : (ofBytesBE b * 256 + x.toNat) % 256 = x.toNat := by omega
    have h2 : (ofBytesBE b * 256 + x.toNat) / 256 = ofBytesBE b := by omega
    rw [h1, h2]
    simp only [toBytesBE] at ih
    rw [ih]
    simp

end MhlModel.Codec
