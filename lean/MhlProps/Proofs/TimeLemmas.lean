/- Lemmas about `MhlModel.Time` (C16): normal forms of `fromTimestamp`, the resolution `mktime` in a zone with one
transition, the character-level shape of `offsetText`/`pad2`, and decimal rendering of sizes. -/
import MhlModel.Time

namespace MhlModel.Time

/-! ### `fromTimestamp` -/

/-- the local second count of `fromtimestamp(t)` is `t` plus the offset in force at `t`, in ANY zone -/
theorem fromTimestamp_secs (z : Zone) (t : Int) : (fromTimestamp z t).secs = t + z t := by
  unfold fromTimestamp localSecs
  by_cases h : t + z t - (t - 86400 + z (t - 86400)) - 86400 < 0
  · simp only [h, if_true]
  · simp only [h, if_false]

/-- the fold bit of `fromtimestamp(t)` in ANY zone: the offset dropped during the last 24 h by `d`, and the offset
at `t - d` is the one of 24 h ago -/
theorem fromTimestamp_fold (z : Zone) (t : Int) : (fromTimestamp z t).fold = true ↔
    (z t < z (t - 86400) ∧ z (t + (z t - z (t - 86400))) = z (t - 86400)) := by
  have e : t + z t - (t - 86400 + z (t - 86400)) - 86400 = z t - z (t - 86400) := by omega
  unfold fromTimestamp localSecs
  simp only [e]
  by_cases h : z t - z (t - 86400) < 0
  · simp only [h, if_true, beq_iff_eq]; omega
  · simp only [h, if_false]; simp only [Bool.false_eq_true, false_iff]; omega

theorem fromTimestamp_eta (z : Zone) (t : Int) :
    fromTimestamp z t = ⟨t + z t, (fromTimestamp z t).fold⟩ := by
  rw [← fromTimestamp_secs]

theorem fromTimestamp_fold_const (c t : Int) : (fromTimestamp (fun _ => c) t).fold = false := by
  have h := fromTimestamp_fold (fun _ => c) t
  cases hf : (fromTimestamp (fun _ => c) t).fold
  · rfl
  · rw [hf] at h; simp only [true_iff] at h; omega

/-- one-transition zone, offset drop at most 24 h: fold = 1 exactly in the second pass of the repeated interval
`[T, T + (a - b))` (empty unless `a > b`) -/
theorem fromTimestamp_fold_oneTransition (T a b t : Int) (h : a - b ≤ 86400) :
    (fromTimestamp (oneTransition T a b) t).fold = true ↔ (T ≤ t ∧ t < T + (a - b)) := by
  rw [fromTimestamp_fold]
  simp only [oneTransition]
  repeat' split
  all_goals omega

/-! ### `mktime` -/

/-- value of a one-transition zone, as a disjunction `omega` can use -/
theorem oneTransition_cases (T a b x : Int) :
    oneTransition T a b x = a ∧ x < T ∨ oneTransition T a b x = b ∧ T ≤ x := by
  simp only [oneTransition]; split <;> omega

private theorem add_sub_self (x y : Int) : x + y - x = y := by omega

/-- `mktime` with the `let`s inlined and `local(u) - u` simplified to `z u`, fold = 0 -/
theorem mktime_false (z : Zone) (s : Int) : mktime z ⟨s, false⟩ =
    (if s - z s + z (s - z s) = s then
      if z s = z (s - z s + -86400) then s - z s
      else
        if s - z (s - z s + -86400) + z (s - z (s - z s + -86400)) = s then s - z (s - z s + -86400)
        else if s - z s + z (s - z s) = s then s - z s else max (s - z s) (s - z (s - z s + -86400))
    else
      if s - z (s - z s) + z (s - z (s - z s)) = s then s - z (s - z s)
      else if s - z s + z (s - z s) = s then s - z s else max (s - z s) (s - z (s - z s))) := by
  simp only [mktime, localSecs, beq_iff_eq, Bool.false_eq_true, ↓reduceIte, add_sub_self]

/-- `mktime` with the `let`s inlined and `local(u) - u` simplified to `z u`, fold = 1 -/
theorem mktime_true (z : Zone) (s : Int) : mktime z ⟨s, true⟩ =
    (if s - z s + z (s - z s) = s then
      if z s = z (s - z s + 86400) then s - z s
      else
        if s - z (s - z s + 86400) + z (s - z (s - z s + 86400)) = s then s - z (s - z s + 86400)
        else if s - z s + z (s - z s) = s then s - z s else min (s - z s) (s - z (s - z s + 86400))
    else
      if s - z (s - z s) + z (s - z (s - z s)) = s then s - z (s - z s)
      else if s - z s + z (s - z s) = s then s - z s else min (s - z s) (s - z (s - z s))) := by
  simp only [mktime, localSecs, beq_iff_eq, ↓reduceIte, add_sub_self]

/-- in a constant zone the fold bit is irrelevant -/
theorem mktime_const (c s : Int) (f : Bool) : mktime (fun _ => c) ⟨s, f⟩ = s - c := by
  cases f
  · rw [mktime_false]; simp only []; repeat' split
    all_goals omega
  · rw [mktime_true]; simp only []; repeat' split
    all_goals omega

/-- the core of C16: in a one-transition zone whose offset drops by at most 24 h, `mktime` recovers the instant `t`
from its local second count, PROVIDED the fold bit says whether `t` is in the second pass of the repeated interval -/
theorem mktime_oneTransition (T a b t s : Int) (f : Bool) (h : a - b ≤ 86400)
    (hf : f = true ↔ (T ≤ t ∧ t < T + (a - b))) (hs : s = t + oneTransition T a b t) :
    mktime (oneTransition T a b) ⟨s, f⟩ = t := by
  have key := oneTransition_cases T a b
  generalize oneTransition T a b = z at key hs ⊢
  have k1 := key t
  have k2 := key s
  have k3 := key (s - z s)
  have k6 := key (s - z (s - z s))
  cases f
  · simp only [Bool.false_eq_true, false_iff] at hf
    rw [mktime_false]
    have k4 := key (s - z s + -86400)
    have k5 := key (s - z (s - z s + -86400))
    repeat' split
    all_goals omega
  · simp only [true_iff] at hf
    rw [mktime_true]
    have k4 := key (s - z s + 86400)
    have k5 := key (s - z (s - z s + 86400))
    repeat' split
    all_goals omega

/-! ### `offsetText` on characters -/

/-- two decimal digit characters of a number below 100 -/
def pad2Chars (n : Nat) : List Char := [Nat.digitChar (n / 10), Nat.digitChar (n % 10)]

/-- `offsetText` restated over `List Char` with explicit digit characters -/
def offsetChars (off : Int) : List Char :=
  let a := off.natAbs
  (if off < 0 then '-' else '+') :: (pad2Chars (a / 3600) ++ ':' :: pad2Chars (a % 3600 / 60)
    ++ (if a % 60 = 0 then [] else ':' :: pad2Chars (a % 60)))

theorem pad2_toList (n : Nat) (h : n < 100) : (pad2 n).toList = pad2Chars n := by
  unfold pad2 pad2Chars
  by_cases h10 : n < 10
  · have e1 : n / 10 = 0 := by omega
    have e2 : n % 10 = n := by omega
    simp [h10, Nat.toDigits_of_lt_base h10, e1, e2]
  · have h1 : n / 10 < 10 := by omega
    simp [h10, Nat.toDigits_of_base_le (by omega : 1 < 10) (by omega : 10 ≤ n), Nat.toDigits_of_lt_base h1]

/-- the model's `offsetText` is the character-level restatement, for every offset below 100 h -/
theorem offsetText_toList (off : Int) (h : off.natAbs < 360000) : (offsetText off).toList = offsetChars off := by
  unfold offsetText offsetChars
  have h1 : off.natAbs / 3600 < 100 := by omega
  have h2 : off.natAbs % 3600 / 60 < 100 := by omega
  have h3 : off.natAbs % 60 < 100 := by omega
  by_cases hs : off < 0 <;> by_cases hz : off.natAbs % 60 = 0 <;>
    simp [hs, hz, pad2_toList _ h1, pad2_toList _ h2, pad2_toList _ h3]

theorem offsetText_eq_ofList (off : Int) (h : off.natAbs < 360000) :
    offsetText off = String.ofList (offsetChars off) := by
  rw [← String.toList_inj, offsetText_toList off h, String.toList_ofList]

theorem digitChar_isDigit (n : Nat) (h : n < 10) : (Nat.digitChar n).isDigit = true := by
  have : ∀ n : Fin 10, (Nat.digitChar n.val).isDigit = true := by decide
  exact this ⟨n, h⟩

theorem digitChar_toNat (n : Nat) (h : n < 10) : (Nat.digitChar n).toNat - '0'.toNat = n := by
  have : ∀ n : Fin 10, (Nat.digitChar n.val).toNat - '0'.toNat = n.val := by decide
  exact this ⟨n, h⟩

theorem digitChar_inj (n m : Nat) (hn : n < 10) (hm : m < 10) (e : Nat.digitChar n = Nat.digitChar m) : n = m := by
  rw [← digitChar_toNat n hn, ← digitChar_toNat m hm, e]

theorem pad2Chars_inj (n m : Nat) (hn : n < 100) (hm : m < 100) (e : pad2Chars n = pad2Chars m) : n = m := by
  simp only [pad2Chars, List.cons.injEq, and_true] at e
  have e1 := digitChar_inj _ _ (by omega) (by omega) e.1
  have e2 := digitChar_inj _ _ (by omega) (by omega) e.2
  omega

/-! ### decimal sizes -/

theorem toString_nat_inj (n m : Nat) (e : toString n = toString m) : n = m := by
  have e' : Nat.toDigits 10 n = Nat.toDigits 10 m := by
    simpa [← String.toList_inj] using e
  rw [← Nat.ofDigitChars_ten_toDigits (n := n), ← Nat.ofDigitChars_ten_toDigits (n := m), e']

end MhlModel.Time
