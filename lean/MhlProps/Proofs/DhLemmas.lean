/-
Lemmas for C09e2e (MhlProps/C09e2e.lean): the END-TO-END positive half of C09.

Part A  the per-child step of `dhVisit`, named (`dhChildStep`), its projection `dhDirStep` on the two components that
        matter for directory hashes, and the refinement induction (`foldl_dhVisit_dirHashes`): the analogue for
        `verify -dh` of `foldl_createVisit_dirHashes`.
Part B  `failedFormats` during the fold (`foldl_dhVisit_failed`): nothing is marked when every recorded entry of every
        visible sub-folder, in a computed format, equals the specified hashes.
Part C  the session of folder-mode `create` on a history-free tree: every directory record carries exactly the
        specified hashes (`SessDir`), the root record too; validation succeeds; what is written.
Part D  loading the tree after `applyWritten`; the pattern list read back.
-/
import MhlProps.Proofs.DirHashImplLemmas
import MhlProps.Proofs.LoadLemmas
import MhlProps.Proofs.CreateLemmas
import MhlProps.C02rec
import MhlProps.C12

namespace MhlModel

/-! ## A. `dhVisit` and the directory hashes -/

/-- named copy of the anonymous per-child step of `dhVisit` (definitionally the same function, see `dhVisit_eq`) -/
def dhChildStep (env : Env) (t : Node) (rootHist : Hist) (fmts : List String) (o : DhOpts) (folder : RelPath)
    (acc : DhState × List (String × DirCtx)) (ch : String × Bool) : DhState × List (String × DirCtx) :=
  let (st, ctx) := acc
  let p := folder ++ [ch.1]
  if ch.2 then
    let (h, hrel) := route rootHist p
    let recorded := dirEntriesFor h (posix hrel)
    let sub := (alookup p st.dirHashes).getD []
    let ctx := ctx.map fun (f, c) =>
      match sub.find? (fun x => x.1 == f) with
      | some (_, ch', sh) => (f, c.add env.H env.D f ch.1 ch' sh)
      | none => (f, c)
    let st := { st with dirHashes := st.dirHashes.filter fun x => x.1 != p }
    let st := if o.rootOnly then st else dhCompare fmts true (posix p) sub st recorded
    (st, ctx)
  else
    let content := fileContent t p
    let ctx := ctx.map fun (f, c) => let d := env.H f content; (f, c.add env.H env.D f ch.1 d d)
    (st, ctx)

/-- the state after the children of one visit -/
def dhKids (env : Env) (t : Node) (rootHist : Hist) (fmts : List String) (o : DhOpts) (st : DhState) (v : Visit) :
    DhState × List (String × DirCtx) :=
  v.children.foldl (dhChildStep env t rootHist fmts o v.folder) (st, ctxInit fmts)

theorem dhVisit_dirHashes (env : Env) (t : Node) (rootHist : Hist) (fmts : List String) (o : DhOpts) (st : DhState)
    (v : Visit) :
    (dhVisit env t rootHist fmts o st v).dirHashes =
      (dhKids env t rootHist fmts o st v).1.dirHashes ++
        [(v.folder, ctxHashes env (dhKids env t rootHist fmts o st v).2)] := by
  unfold dhVisit
  simp only
  split <;> rfl

theorem dhVisit_failed (env : Env) (t : Node) (rootHist : Hist) (fmts : List String) (o : DhOpts) (st : DhState)
    (v : Visit) :
    (dhVisit env t rootHist fmts o st v).failedFormats = (dhKids env t rootHist fmts o st v).1.failedFormats := by
  unfold dhVisit
  simp only
  split <;> rfl

/-- the projection of `dhChildStep` on (`dirHashes`, contexts) -/
def dhDirStep (env : Env) (t : Node) (folder : RelPath)
    (acc : DirHashes × List (String × DirCtx)) (ch : String × Bool) : DirHashes × List (String × DirCtx) :=
  let p := folder ++ [ch.1]
  if ch.2 then
    let sub := (alookup p acc.1).getD []
    (acc.1.filter fun x => x.1 != p,
     acc.2.map fun (f, c) =>
        match sub.find? (fun x => x.1 == f) with
        | some (_, ch', sh) => (f, c.add env.H env.D f ch.1 ch' sh)
        | none => (f, c))
  else
    (acc.1, acc.2.map fun (f, c) =>
      (f, c.add env.H env.D f ch.1 (env.H f (fileContent t p)) (env.H f (fileContent t p))))

def dhProj (acc : DhState × List (String × DirCtx)) : DirHashes × List (String × DirCtx) :=
  (acc.1.dirHashes, acc.2)

theorem dhChildStep_proj (env : Env) (t : Node) (rootHist : Hist) (fmts : List String) (o : DhOpts)
    (folder : RelPath) (acc : DhState × List (String × DirCtx)) (ch : String × Bool) :
    dhProj (dhChildStep env t rootHist fmts o folder acc ch) = dhDirStep env t folder (dhProj acc) ch := by
  obtain ⟨st, ctx⟩ := acc
  obtain ⟨nm, b⟩ := ch
  cases b
  · simp only [dhChildStep, dhDirStep, dhProj, Bool.false_eq_true, if_false]
  · simp only [dhChildStep, dhDirStep, dhProj, if_true]
    cases o.rootOnly
    · simp only [Bool.false_eq_true, if_false, (dhCompare_dirHashes _ _ _ _ _ _).1]
    · simp only [if_true]

theorem foldl_dhChildStep_proj (env : Env) (t : Node) (rootHist : Hist) (fmts : List String) (o : DhOpts)
    (folder : RelPath) (L : List (String × Bool)) (acc : DhState × List (String × DirCtx)) :
    dhProj (L.foldl (dhChildStep env t rootHist fmts o folder) acc) =
      L.foldl (dhDirStep env t folder) (dhProj acc) := by
  induction L generalizing acc with
  | nil => rfl
  | cons ch L ih => simp only [List.foldl_cons, ih, dhChildStep_proj]

theorem dhDirStep_file (env : Env) (t : Node) (folder : RelPath) (K : List String) (dh : DirHashes)
    (C : String → DirCtx) (nm : String) :
    dhDirStep env t folder (dh, K.map fun f => (f, C f)) (nm, false) =
      (dh, K.map fun f => (f, (C f).add env.H env.D f nm (env.H f (fileContent t (folder ++ [nm])))
        (env.H f (fileContent t (folder ++ [nm]))))) := by
  simp only [dhDirStep, Bool.false_eq_true, if_false, List.map_map, Prod.mk.injEq, true_and]
  rfl

theorem dhDirStep_dir (env : Env) (t : Node) (folder : RelPath)
    (K : List String) (dh : DirHashes) (C : String → DirCtx) (nm : String) (a b : String → String)
    (hlook : alookup (folder ++ [nm]) dh = some (K.map fun f => (f, a f, b f))) :
    dhDirStep env t folder (dh, K.map fun f => (f, C f)) (nm, true) =
      (dh.filter (fun x => x.1 != folder ++ [nm]),
        K.map fun f => (f, (C f).add env.H env.D f nm (a f) (b f))) := by
  simp only [dhDirStep, if_true, List.map_map, Prod.mk.injEq, true_and, hlook, Option.getD_some]
  apply List.map_congr_left
  intro f hf
  have hfind := find?_keyed K (fun f => (a f, b f)) f hf
  simp only [Function.comp, hfind]

/-- the spec entries of the directories among `L` (what their visits left in `dirHashes`) -/
def specEntries (env : Env) (hit : RelPath → Bool) (K : List String) (here : RelPath) (L : List Node) : DirHashes :=
  (L.filter (·.isDir)).map fun c => specEntry env hit K (here ++ [c.name]) c

/-- with the entries of the sub-folders `c :: L` pending, the look-up of the directory `c` finds its spec entry -/
theorem alookup_specEntries (env : Env) (hit : RelPath → Bool) (K : List String) (here : RelPath) (base : DirHashes)
    (c : Node) (L : List Node) (hd : c.isDir = true) (hb0 : ∀ x ∈ base, x.1 ≠ here ++ [c.name]) :
    alookup (here ++ [c.name]) (base ++ specEntries env hit K here (c :: L)) =
      some (specEntry env hit K (here ++ [c.name]) c).2 := by
  rw [alookup_append_of_not_mem _ _ _ hb0]
  simp only [specEntries, List.filter_cons, hd, if_true, List.map_cons]
  exact alookup_cons_self _ _ _

theorem filter_specEntries (env : Env) (hit : RelPath → Bool) (K : List String) (here : RelPath) (base : DirHashes)
    (c : Node) (L : List Node) (hd : c.isDir = true) (hb0 : ∀ x ∈ base, x.1 ≠ here ++ [c.name])
    (hne : ∀ c' ∈ L, c.name ≠ c'.name) :
    (base ++ specEntries env hit K here (c :: L)).filter (fun x => x.1 != here ++ [c.name]) =
      base ++ specEntries env hit K here L := by
  rw [List.filter_append, filter_ne_of_not_mem _ _ hb0]
  simp only [specEntries, List.filter_cons, hd, if_true, List.map_cons]
  have : ((specEntry env hit K (here ++ [c.name]) c).1 != here ++ [c.name]) = false := by
    simp [specEntry]
  rw [this]
  simp only [Bool.false_eq_true, if_false]
  rw [filter_ne_of_not_mem]
  intro x hx
  obtain ⟨c', hc', rfl⟩ := List.mem_map.1 hx
  have := hne c' (List.mem_filter.1 hc').1
  simpa [specEntry] using Ne.symm this

/-- ONE step of the per-folder fold: the child `c` (first of the pending `c :: L`) is consumed -/
theorem dhDirStep_node (env : Env) (t : Node) (hit : RelPath → Bool) (here : RelPath) (K : List String)
    (base : DirHashes) (c : Node) (L : List Node) (C : String → DirCtx)
    (hfile : ∀ nm b, c = Node.file nm b → fileContent t (here ++ [nm]) = b)
    (hb0 : ∀ x ∈ base, x.1 ≠ here ++ [c.name]) (hne : ∀ c' ∈ L, c.name ≠ c'.name) :
    dhDirStep env t here (base ++ specEntries env hit K here (c :: L), K.map fun f => (f, C f)) (c.name, c.isDir) =
      (base ++ specEntries env hit K here L, K.map fun f => (f, addKid env hit here f (C f) c)) := by
  cases c with
  | file nm b =>
    simp only [Node.name_file, Node.isDir_file]
    rw [dhDirStep_file env t here K, hfile nm b rfl]
    simp only [specEntries, List.filter_cons, Node.isDir_file, Bool.false_eq_true, if_false, addKid,
      nodeHashes_file, Node.name_file]
  | dir nm cs h =>
    have hlook := alookup_specEntries env hit K here base (.dir nm cs h) L rfl hb0
    simp only [Node.name_dir, Node.isDir_dir] at hlook hb0 hne ⊢
    rw [dhDirStep_dir env t here K _ _ nm _ _ hlook]
    have := filter_specEntries env hit K here base (.dir nm cs h) L rfl hb0 hne
    simp only [Node.name_dir] at this
    rw [this]
    rfl

theorem foldl_dhDirStep (env : Env) (t : Node) (hit : RelPath → Bool)
    (here : RelPath) (K : List String) (base : DirHashes)
    (L : List Node) (C : String → DirCtx)
    (hfile : ∀ nm b, Node.file nm b ∈ L → fileContent t (here ++ [nm]) = b)
    (hpw : L.Pairwise fun a b => a.name ≠ b.name)
    (hbase : ∀ c ∈ L, ∀ x ∈ base, x.1 ≠ here ++ [c.name]) :
    (L.map fun c => (c.name, c.isDir)).foldl (dhDirStep env t here)
        (base ++ specEntries env hit K here L, K.map fun f => (f, C f)) =
      (base, K.map fun f => (f, L.foldl (addKid env hit here f) (C f))) := by
  induction L generalizing C with
  | nil => simp [specEntries]
  | cons c L ih =>
    rw [List.pairwise_cons] at hpw
    rw [List.map_cons, List.foldl_cons,
      dhDirStep_node env t hit here K base c L C (fun nm b hc => hfile nm b (hc ▸ List.mem_cons_self ..))
        (hbase c (List.mem_cons_self ..)) hpw.1,
      ih _ (fun nm b h => hfile nm b (List.mem_cons_of_mem _ h)) hpw.2
        (fun c' h => hbase c' (List.mem_cons_of_mem _ h))]
    rfl

/-- `dhVisit` on `dirHashes`, through the projection `dhDirStep` -/
theorem dhVisit_dirHashes_dh (env : Env) (t : Node) (rootHist : Hist) (fmts : List String) (o : DhOpts)
    (st : DhState) (v : Visit) :
    (dhVisit env t rootHist fmts o st v).dirHashes =
      (v.children.foldl (dhDirStep env t v.folder) (st.dirHashes, ctxInit fmts)).1 ++
        [(v.folder, ctxHashes env
          (v.children.foldl (dhDirStep env t v.folder) (st.dirHashes, ctxInit fmts)).2)] := by
  rw [dhVisit_dirHashes]
  have := foldl_dhChildStep_proj env t rootHist fmts o v.folder v.children (st, ctxInit fmts)
  rw [← show dhProj (st, ctxInit fmts) = (st.dirHashes, ctxInit fmts) from rfl, ← this]
  rfl

theorem foldl_dhKid_visits (env : Env) (t : Node) (rootHist : Hist) (fmts : List String) (o : DhOpts)
    (hit : RelPath → Bool) (here : RelPath) (K : List String) (L : List Node)
    (ih : ∀ c ∈ L, c.isDir = true → ∀ st : DhState,
      (∀ x ∈ st.dirHashes, ¬ (here ++ [c.name]) <+: x.1) →
      ((traverse hit (here ++ [c.name]) c).foldl (dhVisit env t rootHist fmts o) st).dirHashes =
        st.dirHashes ++ [specEntry env hit K (here ++ [c.name]) c])
    (hpw : L.Pairwise fun a b => a.name ≠ b.name) (st : DhState)
    (hst : ∀ c ∈ L, ∀ x ∈ st.dirHashes, ¬ (here ++ [c.name]) <+: x.1) :
    ((L.flatMap fun c => traverse hit (here ++ [c.name]) c).foldl
        (dhVisit env t rootHist fmts o) st).dirHashes =
      st.dirHashes ++ specEntries env hit K here L := by
  unfold specEntries
  induction L generalizing st with
  | nil => simp
  | cons c L ihL =>
    rw [List.pairwise_cons] at hpw
    rw [List.flatMap_cons, List.foldl_append]
    have ih' := fun c' hc' => ih c' (List.mem_cons_of_mem _ hc')
    have hst' := fun c' hc' => hst c' (List.mem_cons_of_mem _ hc')
    cases hd : c.isDir with
    | false =>
      have : traverse hit (here ++ [c.name]) c = [] := by
        cases c with
        | file n b => rw [traverse]
        | dir n cs h => simp [Node.isDir] at hd
      rw [this, List.foldl_nil, List.filter_cons, hd]
      exact ihL ih' hpw.2 st hst'
    | true =>
      have h1 := ih c (List.mem_cons_self ..) hd st (hst c (List.mem_cons_self ..))
      rw [List.filter_cons, hd, if_pos rfl, List.map_cons, ihL ih' hpw.2, h1, List.append_assoc]
      · rfl
      · intro c' hc' x hx
        rw [h1, List.mem_append, List.mem_singleton] at hx
        rcases hx with hx | rfl
        · exact hst' c' hc' x hx
        · exact prefix_singleton_ne (Ne.symm (hpw.1 c' hc'))

/-- REFINEMENT for `verify -dh`, general form.  The fold of `dhVisit` over the traversal of the directory `d` found at
`here` below the root, started from ANY state whose `dirHashes` has no key at or below `here`, appends exactly one
entry to `dirHashes`: `here` with, for each format key, the content and structure hash `nodeHashes` assigns to `d`. -/
theorem foldl_dhVisit_dirHashes (env : Env) (t : Node) (rootHist : Hist) (fmts : List String) (o : DhOpts)
    (hit : RelPath → Bool) (d : Node) :
    d.isDir = true → ∀ (here : RelPath) (st : DhState), t.at? here = some d → d.NamesDistinct →
      (∀ x ∈ st.dirHashes, ¬ here <+: x.1) →
      ((traverse hit here d).foldl (dhVisit env t rootHist fmts o) st).dirHashes =
        st.dirHashes ++ [specEntry env hit (ctxKeys fmts) here d] := by
  induction d using Node.induct with
  | file n c => intro h; simp [Node.isDir] at h
  | dir n cs h ih =>
    intro _ here st hat hnd hst
    rw [Node.namesDistinct_dir] at hnd
    have hVN := mem_visNodes hit here cs
    have hpw := visNodes_pairwise hit here cs hnd.1
    have hbelow : ∀ c : Node, ∀ x ∈ st.dirHashes, ¬ (here ++ [c.name]) <+: x.1 :=
      fun c x hx hp => hst x hx ((List.prefix_append _ _).trans hp)
    have hkids := foldl_dhKid_visits env t rootHist fmts o hit here (ctxKeys fmts) (visNodes hit here cs)
      (fun c hc hdir st' hst' => ih c ((hVN c).1 hc).1 hdir (here ++ [c.name]) st'
        (Node.at?_child hat hnd.1 ((hVN c).1 hc).1) (hnd.2 c ((hVN c).1 hc).1) hst')
      hpw st (fun c _ => hbelow c)
    rw [traverse_dir_nodes, List.foldl_append, List.foldl_cons, List.foldl_nil, dhVisit_dirHashes_dh, hkids,
      ctxInit_eq]
    have hfold := foldl_dhDirStep env t hit here (ctxKeys fmts)
      st.dirHashes (visNodes hit here cs) (fun _ => {})
      (fun nm b hm => fileContent_child hat hnd.1 ((hVN _).1 hm).1) hpw
      (fun c _ x hx he => hbelow c x hx (he ▸ List.prefix_refl _))
    simp only [hfold]
    rw [ctxHashes_spec env hit here (ctxKeys fmts) n cs h]
    rfl

/-! ## B. `failedFormats` during the fold -/

/-- every recorded entry (looked up the way `dhVisit` does: `route`, `dirEntriesFor`) of the folder `c` found at `p`,
in a computed format, carries the specified hashes of `c` -/
def RecOk (env : Env) (rootHist : Hist) (fmts : List String) (hit : RelPath → Bool) (p : RelPath) (c : Node) : Prop :=
  ∀ e ∈ dirEntriesFor (route rootHist p).1 (posix (route rootHist p).2), e.fmt ∈ fmts →
    e.digest = (nodeHashes env.H env.D e.fmt hit p c).1 ∧
    e.shash = some (nodeHashes env.H env.D e.fmt hit p c).2

theorem no_mismatch_spec (env : Env) (hit : RelPath → Bool) (fmts : List String) (p : RelPath) (c : Node)
    (recorded : List Entry)
    (h : ∀ e ∈ recorded, e.fmt ∈ fmts → e.digest = (nodeHashes env.H env.D e.fmt hit p c).1 ∧
      e.shash = some (nodeHashes env.H env.D e.fmt hit p c).2) :
    recorded.filter (mismatches fmts (specEntry env hit (ctxKeys fmts) p c).2) = [] := by
  rw [List.filter_eq_nil_iff]
  intro e he hm
  obtain ⟨hf, c', s', hfind, hcmp⟩ := (mismatches_iff _ _ _).1 hm
  have hk := find?_keyed (ctxKeys fmts)
    (fun f => ((nodeHashes env.H env.D f hit p c).1, (nodeHashes env.H env.D f hit p c).2)) e.fmt
    ((mem_ctxKeys fmts e.fmt).2 hf)
  simp only [specEntry] at hfind
  rw [hk] at hfind
  simp only [Option.some.injEq, Prod.mk.injEq, true_and] at hfind
  obtain ⟨rfl, rfl⟩ := hfind
  obtain ⟨h1, h2⟩ := h e he hf
  simp [compareDir, h1, h2] at hcmp

theorem dhChildStep_failed_file (env : Env) (t : Node) (rootHist : Hist) (fmts : List String) (o : DhOpts)
    (folder : RelPath) (acc : DhState × List (String × DirCtx)) (nm : String) :
    (dhChildStep env t rootHist fmts o folder acc (nm, false)).1.failedFormats = acc.1.failedFormats := by
  obtain ⟨st, ctx⟩ := acc
  simp only [dhChildStep, Bool.false_eq_true, if_false]

theorem dhChildStep_failed_dir (env : Env) (t : Node) (rootHist : Hist) (fmts : List String) (o : DhOpts)
    (folder : RelPath) (acc : DhState × List (String × DirCtx)) (nm : String) :
    (dhChildStep env t rootHist fmts o folder acc (nm, true)).1.failedFormats =
      if o.rootOnly then acc.1.failedFormats else
        ((dirEntriesFor (route rootHist (folder ++ [nm])).1 (posix (route rootHist (folder ++ [nm])).2)).filter
          (mismatches fmts ((alookup (folder ++ [nm]) acc.1.dirHashes).getD []))).foldl
            (fun a e => appendNew a e.fmt) acc.1.failedFormats := by
  obtain ⟨st, ctx⟩ := acc
  simp only [dhChildStep, if_true]
  cases o.rootOnly
  · simp only [Bool.false_eq_true, if_false, dhCompare_failed, if_true]
  · simp only [if_true]

/-- the per-folder fold marks nothing when the pending sub-folders are recorded with their specified hashes -/
theorem foldl_dhChildStep_failed (env : Env) (t : Node) (rootHist : Hist) (fmts : List String) (o : DhOpts)
    (hit : RelPath → Bool) (here : RelPath) (base : DirHashes) (L : List Node)
    (acc : DhState × List (String × DirCtx)) (C : String → DirCtx)
    (hproj : dhProj acc =
      (base ++ specEntries env hit (ctxKeys fmts) here L, (ctxKeys fmts).map fun f => (f, C f)))
    (hfile : ∀ nm b, Node.file nm b ∈ L → fileContent t (here ++ [nm]) = b)
    (hpw : L.Pairwise fun a b => a.name ≠ b.name)
    (hbase : ∀ c ∈ L, ∀ x ∈ base, x.1 ≠ here ++ [c.name])
    (hrec : ∀ c ∈ L, c.isDir = true → RecOk env rootHist fmts hit (here ++ [c.name]) c) :
    ((L.map fun c => (c.name, c.isDir)).foldl (dhChildStep env t rootHist fmts o here) acc).1.failedFormats =
      acc.1.failedFormats := by
  induction L generalizing acc C with
  | nil => rfl
  | cons c L ih =>
    rw [List.pairwise_cons] at hpw
    rw [List.map_cons, List.foldl_cons]
    have hb0 := hbase c (List.mem_cons_self ..)
    have hproj' : dhProj (dhChildStep env t rootHist fmts o here acc (c.name, c.isDir)) =
        (base ++ specEntries env hit (ctxKeys fmts) here L,
          (ctxKeys fmts).map fun f => (f, addKid env hit here f (C f) c)) := by
      rw [dhChildStep_proj, hproj,
        dhDirStep_node env t hit here (ctxKeys fmts) base c L C
          (fun nm b hc => hfile nm b (hc ▸ List.mem_cons_self ..)) hb0 hpw.1]
    rw [ih _ _ hproj' (fun nm b h => hfile nm b (List.mem_cons_of_mem _ h)) hpw.2
      (fun c' h => hbase c' (List.mem_cons_of_mem _ h)) (fun c' h => hrec c' (List.mem_cons_of_mem _ h))]
    cases hd : c.isDir with
    | false => exact dhChildStep_failed_file ..
    | true =>
      rw [dhChildStep_failed_dir]
      split
      · rfl
      · have hdh : acc.1.dirHashes = base ++ specEntries env hit (ctxKeys fmts) here (c :: L) :=
          congrArg Prod.fst hproj
        rw [hdh, alookup_specEntries env hit (ctxKeys fmts) here base c L hd hb0, Option.getD_some,
          no_mismatch_spec env hit fmts _ c _ (hrec c (List.mem_cons_self ..) hd)]
        rfl

theorem foldl_dhKid_failed (env : Env) (t : Node) (rootHist : Hist) (fmts : List String) (o : DhOpts)
    (hit : RelPath → Bool) (here : RelPath) (K : List String) (L : List Node)
    (ihD : ∀ c ∈ L, c.isDir = true → ∀ st : DhState,
      (∀ x ∈ st.dirHashes, ¬ (here ++ [c.name]) <+: x.1) →
      ((traverse hit (here ++ [c.name]) c).foldl (dhVisit env t rootHist fmts o) st).dirHashes =
        st.dirHashes ++ [specEntry env hit K (here ++ [c.name]) c])
    (ihF : ∀ c ∈ L, c.isDir = true → ∀ st : DhState,
      (∀ x ∈ st.dirHashes, ¬ (here ++ [c.name]) <+: x.1) →
      ((traverse hit (here ++ [c.name]) c).foldl (dhVisit env t rootHist fmts o) st).failedFormats =
        st.failedFormats)
    (hpw : L.Pairwise fun a b => a.name ≠ b.name) (st : DhState)
    (hst : ∀ c ∈ L, ∀ x ∈ st.dirHashes, ¬ (here ++ [c.name]) <+: x.1) :
    ((L.flatMap fun c => traverse hit (here ++ [c.name]) c).foldl
        (dhVisit env t rootHist fmts o) st).failedFormats = st.failedFormats := by
  induction L generalizing st with
  | nil => simp
  | cons c L ihL =>
    rw [List.pairwise_cons] at hpw
    rw [List.flatMap_cons, List.foldl_append]
    have ihD' := fun c' hc' => ihD c' (List.mem_cons_of_mem _ hc')
    have ihF' := fun c' hc' => ihF c' (List.mem_cons_of_mem _ hc')
    have hst' := fun c' hc' => hst c' (List.mem_cons_of_mem _ hc')
    cases hd : c.isDir with
    | false =>
      have : traverse hit (here ++ [c.name]) c = [] := by
        cases c with
        | file n b => rw [traverse]
        | dir n cs h => simp [Node.isDir] at hd
      rw [this, List.foldl_nil]
      exact ihL ihD' ihF' hpw.2 st hst'
    | true =>
      have h1 := ihD c (List.mem_cons_self ..) hd st (hst c (List.mem_cons_self ..))
      rw [ihL ihD' ihF' hpw.2, ihF c (List.mem_cons_self ..) hd st (hst c (List.mem_cons_self ..))]
      intro c' hc' x hx
      rw [h1, List.mem_append, List.mem_singleton] at hx
      rcases hx with hx | rfl
      · exact hst' c' hc' x hx
      · exact prefix_singleton_ne (Ne.symm (hpw.1 c' hc'))

/-- SOUNDNESS of the sub-folder comparison.  `d` is a directory found at `here`; if every visible sub-folder `q` of
`d` (a `(q, true)` the traversal lists) is recorded with the specified hashes in every computed format, the fold of
`dhVisit` over the traversal of `d` leaves `failedFormats` as it was. -/
theorem foldl_dhVisit_failed (env : Env) (t : Node) (rootHist : Hist) (fmts : List String) (o : DhOpts)
    (hit : RelPath → Bool) (d : Node) :
    d.isDir = true → ∀ (here : RelPath) (st : DhState), t.at? here = some d → d.NamesDistinct →
      (∀ x ∈ st.dirHashes, ¬ here <+: x.1) →
      (∀ q c, (q, true) ∈ visFrom hit here d → t.at? q = some c → RecOk env rootHist fmts hit q c) →
      ((traverse hit here d).foldl (dhVisit env t rootHist fmts o) st).failedFormats = st.failedFormats := by
  induction d using Node.induct with
  | file n c => intro h; simp [Node.isDir] at h
  | dir n cs h ih =>
    intro _ here st hat hnd hst hrec
    rw [Node.namesDistinct_dir] at hnd
    have hVN := mem_visNodes hit here cs
    have hpw := visNodes_pairwise hit here cs hnd.1
    have hbelow : ∀ c : Node, ∀ x ∈ st.dirHashes, ¬ (here ++ [c.name]) <+: x.1 :=
      fun c x hx hp => hst x hx ((List.prefix_append _ _).trans hp)
    have hatc : ∀ c ∈ visNodes hit here cs, t.at? (here ++ [c.name]) = some c :=
      fun c hc => Node.at?_child hat hnd.1 ((hVN c).1 hc).1
    have ihD : ∀ c ∈ visNodes hit here cs, c.isDir = true → ∀ st' : DhState,
        (∀ x ∈ st'.dirHashes, ¬ (here ++ [c.name]) <+: x.1) →
        ((traverse hit (here ++ [c.name]) c).foldl (dhVisit env t rootHist fmts o) st').dirHashes =
          st'.dirHashes ++ [specEntry env hit (ctxKeys fmts) (here ++ [c.name]) c] :=
      fun c hc hdir st' hst' => foldl_dhVisit_dirHashes env t rootHist fmts o hit c hdir _ st' (hatc c hc)
        (hnd.2 c ((hVN c).1 hc).1) hst'
    have ihF : ∀ c ∈ visNodes hit here cs, c.isDir = true → ∀ st' : DhState,
        (∀ x ∈ st'.dirHashes, ¬ (here ++ [c.name]) <+: x.1) →
        ((traverse hit (here ++ [c.name]) c).foldl (dhVisit env t rootHist fmts o) st').failedFormats =
          st'.failedFormats := by
      intro c hc hdir st' hst'
      refine ih c ((hVN c).1 hc).1 hdir _ st' (hatc c hc) (hnd.2 c ((hVN c).1 hc).1) hst' ?_
      intro q c' hq hc'
      refine hrec q c' ?_ hc'
      rw [mem_visFrom_dir]
      exact ⟨c, ((hVN c).1 hc).1, ((hVN c).1 hc).2, Or.inr hq⟩
    have hkidsD := foldl_dhKid_visits env t rootHist fmts o hit here (ctxKeys fmts) (visNodes hit here cs)
      ihD hpw st (fun c _ => hbelow c)
    have hkidsF := foldl_dhKid_failed env t rootHist fmts o hit here (ctxKeys fmts) (visNodes hit here cs)
      ihD ihF hpw st (fun c _ => hbelow c)
    rw [traverse_dir_nodes, List.foldl_append, List.foldl_cons, List.foldl_nil, dhVisit_failed]
    unfold dhKids
    simp only
    rw [foldl_dhChildStep_failed env t rootHist fmts o hit here st.dirHashes (visNodes hit here cs) _ (fun _ => {})
      (by rw [dhProj, hkidsD, ctxInit_eq])
      (fun nm b hm => fileContent_child hat hnd.1 ((hVN _).1 hm).1) hpw
      (fun c _ x hx he => hbelow c x hx (he ▸ List.prefix_refl _)), hkidsF]
    intro c hc hdir
    refine hrec _ c ?_ (hatc c hc)
    rw [mem_visFrom_dir]
    exact ⟨c, ((hVN c).1 hc).1, ((hVN c).1 hc).2, Or.inl (by rw [hdir])⟩

/-! ## C. the session of folder-mode `create`: directory records carry the specified hashes -/

/-- the hashes `createVisit` computes for the folder of the visit `v` when started from `st` -/
def visitHashes (env : Env) (t : Node) (rootHist : Hist) (fmts : List String) (st : CreateState) (v : Visit) :
    List (String × String × String) :=
  ctxHashes env (v.children.foldl (childStep env t rootHist fmts false v.folder) (st, ctxInit fmts)).2

theorem createVisit_session_eq (env : Env) (t : Node) (rootHist : Hist) (fmts : List String)
    (st : CreateState) (v : Visit) :
    (createVisit env t rootHist fmts false st v).session =
      appendDirHashes rootHist
        (v.children.foldl (childStep env t rootHist fmts false v.folder) (st, ctxInit fmts)).1.session
        v.folder (visitHashes env t rootHist fmts st v) := rfl

theorem createVisit_dirHashes_eq (env : Env) (t : Node) (rootHist : Hist) (fmts : List String)
    (st : CreateState) (v : Visit) :
    (createVisit env t rootHist fmts false st v).dirHashes =
      (v.children.foldl (childStep env t rootHist fmts false v.folder) (st, ctxInit fmts)).1.dirHashes ++
        [(v.folder, visitHashes env t rootHist fmts st v)] := rfl

/-- the hashes computed at every visit of `vs` (folding `createVisit` from `st`) are the specified ones of the folder
visited -/
def LogOK (env : Env) (t : Node) (rootHist : Hist) (fmts : List String) (hit : RelPath → Bool) :
    List Visit → CreateState → Prop
  | [], _ => True
  | v :: vs, st =>
    (∃ c, t.at? v.folder = some c ∧
      visitHashes env t rootHist fmts st v = (specEntry env hit (ctxKeys fmts) v.folder c).2) ∧
    LogOK env t rootHist fmts hit vs (createVisit env t rootHist fmts false st v)

theorem logOK_append (env : Env) (t : Node) (rootHist : Hist) (fmts : List String) (hit : RelPath → Bool)
    (a b : List Visit) (st : CreateState) :
    LogOK env t rootHist fmts hit (a ++ b) st ↔
      LogOK env t rootHist fmts hit a st ∧
      LogOK env t rootHist fmts hit b (a.foldl (createVisit env t rootHist fmts false) st) := by
  induction a generalizing st with
  | nil => simp [LogOK]
  | cons v a ih => simp only [List.cons_append, LogOK, ih, List.foldl_cons, and_assoc]

theorem logOK_kids (env : Env) (t : Node) (rootHist : Hist) (fmts : List String)
    (hit : RelPath → Bool) (here : RelPath) (K : List String) (L : List Node)
    (ihD : ∀ c ∈ L, c.isDir = true → ∀ st : CreateState,
      (∀ x ∈ st.dirHashes, ¬ (here ++ [c.name]) <+: x.1) →
      ((traverse hit (here ++ [c.name]) c).foldl (createVisit env t rootHist fmts false) st).dirHashes =
        st.dirHashes ++ [specEntry env hit K (here ++ [c.name]) c])
    (ihL : ∀ c ∈ L, c.isDir = true → ∀ st : CreateState,
      (∀ x ∈ st.dirHashes, ¬ (here ++ [c.name]) <+: x.1) →
      LogOK env t rootHist fmts hit (traverse hit (here ++ [c.name]) c) st)
    (hpw : L.Pairwise fun a b => a.name ≠ b.name) (st : CreateState)
    (hst : ∀ c ∈ L, ∀ x ∈ st.dirHashes, ¬ (here ++ [c.name]) <+: x.1) :
    LogOK env t rootHist fmts hit (L.flatMap fun c => traverse hit (here ++ [c.name]) c) st := by
  induction L generalizing st with
  | nil => simp [LogOK]
  | cons c L ih =>
    rw [List.pairwise_cons] at hpw
    rw [List.flatMap_cons, logOK_append]
    have ihD' := fun c' hc' => ihD c' (List.mem_cons_of_mem _ hc')
    have ihL' := fun c' hc' => ihL c' (List.mem_cons_of_mem _ hc')
    have hst' := fun c' hc' => hst c' (List.mem_cons_of_mem _ hc')
    cases hd : c.isDir with
    | false =>
      have : traverse hit (here ++ [c.name]) c = [] := by
        cases c with
        | file n b => rw [traverse]
        | dir n cs h => simp [Node.isDir] at hd
      rw [this, List.foldl_nil]
      exact ⟨trivial, ih ihD' ihL' hpw.2 st hst'⟩
    | true =>
      have h1 := ihD c (List.mem_cons_self ..) hd st (hst c (List.mem_cons_self ..))
      refine ⟨ihL c (List.mem_cons_self ..) hd st (hst c (List.mem_cons_self ..)), ih ihD' ihL' hpw.2 _ ?_⟩
      intro c' hc' x hx
      rw [h1, List.mem_append, List.mem_singleton] at hx
      rcases hx with hx | rfl
      · exact hst' c' hc' x hx
      · exact prefix_singleton_ne (Ne.symm (hpw.1 c' hc'))

/-- at EVERY visit of the traversal of a directory, `create` computes the specified hashes of the folder visited -/
theorem logOK_traverse (env : Env) (t : Node) (rootHist : Hist) (fmts : List String)
    (hit : RelPath → Bool) (d : Node) :
    d.isDir = true → ∀ (here : RelPath) (st : CreateState), t.at? here = some d → d.NamesDistinct →
      (∀ x ∈ st.dirHashes, ¬ here <+: x.1) →
      LogOK env t rootHist fmts hit (traverse hit here d) st := by
  induction d using Node.induct with
  | file n c => intro h; simp [Node.isDir] at h
  | dir n cs h ih =>
    intro hdir here st hat hnd0 hst
    have hnd := (Node.namesDistinct_dir n cs h).1 hnd0
    have hVN := mem_visNodes hit here cs
    have hpw := visNodes_pairwise hit here cs hnd.1
    have hbelow : ∀ c : Node, ∀ x ∈ st.dirHashes, ¬ (here ++ [c.name]) <+: x.1 :=
      fun c x hx hp => hst x hx ((List.prefix_append _ _).trans hp)
    have hatc : ∀ c ∈ visNodes hit here cs, t.at? (here ++ [c.name]) = some c :=
      fun c hc => Node.at?_child hat hnd.1 ((hVN c).1 hc).1
    have hall := foldl_createVisit_dirHashes env t rootHist fmts hit (.dir n cs h) hdir here st hat hnd0 hst
    rw [traverse_dir_nodes, List.foldl_append, List.foldl_cons, List.foldl_nil, createVisit_dirHashes_eq] at hall
    rw [traverse_dir_nodes, logOK_append]
    refine ⟨?_, ⟨_, hat, ?_⟩, trivial⟩
    · exact logOK_kids env t rootHist fmts hit here (ctxKeys fmts) (visNodes hit here cs)
        (fun c hc hd st' hst' => foldl_createVisit_dirHashes env t rootHist fmts hit c hd _ st' (hatc c hc)
          (hnd.2 c ((hVN c).1 hc).1) hst')
        (fun c hc hd st' hst' => ih c ((hVN c).1 hc).1 hd _ st' (hatc c hc) (hnd.2 c ((hVN c).1 hc).1) hst')
        hpw st (fun c _ => hbelow c)
    · have hlast := congrArg List.getLast? hall
      simp only [List.getLast?_append, List.getLast?_singleton, Option.some_or, Option.some.injEq] at hlast
      exact congrArg Prod.snd hlast

/-! ### the list under construction -/

theorem NewList.update_fresh (nl : NewList) (k : String) (sz : Option Nat) (f : Record → Record) (hk : k ≠ ".")
    (hfresh : k ∉ nl.records.map (·.path)) :
    nl.update k sz f = { nl with records := nl.records ++ [f { path := k, size := sz }] } := by
  unfold NewList.update
  have hd : (k == ".") = false := by simpa using hk
  have hany : (nl.records.any fun r => r.path == k) = false := by
    rw [List.any_eq_false]
    intro r hr hp
    exact hfresh (List.mem_map.2 ⟨r, hr, by simpa using hp⟩)
  simp [hd, hany]

theorem NewList.update_dot (nl : NewList) (sz : Option Nat) (f : Record → Record) :
    nl.update "." sz f = { nl with rootRec := some (f (nl.rootRec.getD { path := ".", size := sz })) } := by
  simp [NewList.update]

theorem ListFor.fresh {env : Env} {t : Node} {h : Hist} {fmts : List String} {nl : NewList}
    {L : List (RelPath × Bool)} (hl : ListFor env t h fmts nl L) (x : RelPath × Bool) (hk : KeysOk (L ++ [x])) :
    posix x.1 ∉ nl.records.map (·.path) := by
  rw [hl.paths]
  intro hm
  obtain ⟨y, hy, hyp⟩ := List.mem_map.1 hm
  exact hk.fresh (List.mem_map.2 ⟨y, ((mem_nonRoot L y).1 hy).1, hyp⟩)

/-- what the list under construction says about directories: every directory record carries exactly the entries of
the specified hashes of the folder it is the record of; so does the root record; and there is no root record before
the root folder was visited -/
def DirOk (env : Env) (t : Node) (hit : RelPath → Bool) (fmts : List String) (nl : NewList)
    (L : List (RelPath × Bool)) : Prop :=
  (∀ r ∈ nl.records, r.isDir = true → ∃ q c, r.path = posix q ∧ t.at? q = some c ∧
      r.entries = dirEnts (specEntry env hit (ctxKeys fmts) q c).2) ∧
  (∀ r, nl.rootRec = some r → r.entries = dirEnts (specEntry env hit (ctxKeys fmts) [] t).2) ∧
  ((∀ x ∈ L, x.1 ≠ []) → nl.rootRec = none)

/-- `SessFor` of CreateLemmas together with `DirOk` -/
def SessDir (env : Env) (t : Node) (h : Hist) (fmts pats : List String) (hit : RelPath → Bool) (s : Session)
    (L : List (RelPath × Bool)) : Prop :=
  KeysOk L → (s.Flat ∧ s.patterns = pats ∧ (L ≠ [] → s.lists ≠ []) ∧ ListFor env t h fmts (s.get []) L) ∧
    DirOk env t hit fmts (s.get []) L

theorem SessDir.sessFor {env : Env} {t : Node} {h : Hist} {fmts pats : List String} {hit : RelPath → Bool}
    {s : Session} {L : List (RelPath × Bool)} (hs : SessDir env t h fmts pats hit s L) :
    SessFor env t h fmts pats s L := fun hk => (hs hk).1

theorem sessDir_empty (env : Env) (t : Node) (h : Hist) (fmts pats : List String) (hit : RelPath → Bool) :
    SessDir env t h fmts pats hit { patterns := pats } [] := by
  intro hk
  refine ⟨sessFor_empty env t h fmts pats hk, ?_, ?_, ?_⟩
  · intro r hr; simp [Session.get] at hr
  · intro r hr; simp [Session.get] at hr
  · intro _; rfl

theorem sessDir_file (env : Env) (t : Node) (h : Hist) (hc : h.children = []) (hr : h.root = [])
    (fmts pats : List String) (hit : RelPath → Bool) (hfm : fmts ≠ []) (s : Session) (L : List (RelPath × Bool))
    (p : RelPath) (hp : p ≠ []) (hs : SessDir env t h fmts pats hit s L) :
    SessDir env t h fmts pats hit (sealFile env.H h s p (fileContent t p) fmts).1 (L ++ [(p, false)]) := by
  intro hk
  obtain ⟨⟨hflat, hpat, _, hlist⟩, hdir⟩ := hs hk.left
  refine ⟨sessFor_file env t h hc hr fmts pats hfm s L p hp hs.sessFor hk, ?_⟩
  have hne := sealEntries_ne_nil h.gens (posix p) (fun f => env.H f (fileContent t p)) fmts hfm
  obtain ⟨hlists, -⟩ := sealFile_flat env.H h hc hr s hflat p (fileContent t p) fmts hne
  have hroot : ((s.get []).update (posix p) (some (fileContent t p).length) fun r =>
      { r with entries := r.entries ++
        (sealEntries h.gens (posix p) (fun f => env.H f (fileContent t p)) fmts).1 }).root = [] := by
    rw [NewList.update_root]; exact hlist.1
  rw [Session.get_single _ _ hlists hroot]
  have hdot : posix p ≠ "." := fun hd => hp (hk.2 (p, false) (by simp) hd)
  rw [NewList.update_fresh _ _ _ _ hdot (hlist.fresh (p, false) hk)]
  refine ⟨?_, hdir.2.1, fun hx => hdir.2.2 fun x hx' => hx x (List.mem_append_left _ hx')⟩
  intro r hrm hrd
  rcases List.mem_append.1 hrm with hrm | hrm
  · exact hdir.1 r hrm hrd
  · simp only [List.mem_singleton] at hrm
    subst hrm
    cases hrd

theorem sessDir_dir (env : Env) (t : Node) (h : Hist) (hc : h.children = []) (hr : h.root = [])
    (fmts pats : List String) (hit : RelPath → Bool) (s : Session) (L : List (RelPath × Bool)) (p : RelPath)
    (c : Node) (hat : t.at? p = some c) (hs : SessDir env t h fmts pats hit s L) :
    SessDir env t h fmts pats hit (appendDirHashes h s p (specEntry env hit (ctxKeys fmts) p c).2)
      (L ++ [(p, true)]) := by
  intro hk
  obtain ⟨⟨hflat, hpat, _, hlist⟩, hdir⟩ := hs hk.left
  refine ⟨sessFor_dir env t h hc hr fmts pats s L p _ hs.sessFor hk, ?_⟩
  obtain ⟨hlists, -⟩ := appendDirHashes_flat h hc hr s hflat p (specEntry env hit (ctxKeys fmts) p c).2
  have hroot : ((s.get []).update (posix p) none fun r =>
      { r with isDir := true,
               entries := r.entries ++ dirEnts (specEntry env hit (ctxKeys fmts) p c).2 }).root = [] := by
    rw [NewList.update_root]; exact hlist.1
  rw [Session.get_single _ _ hlists hroot]
  by_cases hp : p = []
  · subst hp
    have hc' : c = t := by
      have : t.at? [] = some t := by simp [Node.at?]
      rw [this] at hat
      exact (Option.some.inj hat).symm
    subst hc'
    have hnone : (s.get []).rootRec = none := by
      apply hdir.2.2
      intro x hx hx0
      apply hk.fresh
      exact List.mem_map.2 ⟨x, hx, by rw [hx0]⟩
    have hposix : posix [] = "." := rfl
    rw [hposix, NewList.update_dot, hnone]
    refine ⟨hdir.1, ?_, ?_⟩
    · intro r hrr
      simp only [Option.getD_none, Option.some.injEq] at hrr
      subst hrr
      simp
    · intro hx
      exact absurd rfl (hx ([], true) (by simp))
  · have hdot : posix p ≠ "." := fun hd => hp (hk.2 (p, true) (by simp) hd)
    rw [NewList.update_fresh _ _ _ _ hdot (hlist.fresh (p, true) hk)]
    refine ⟨?_, hdir.2.1, fun hx => hdir.2.2 fun x hx' => hx x (List.mem_append_left _ hx')⟩
    intro r hrm hrd
    rcases List.mem_append.1 hrm with hrm | hrm
    · exact hdir.1 r hrm hrd
    · simp only [List.mem_singleton] at hrm
      subst hrm
      exact ⟨p, c, rfl, hat, by simp⟩

theorem childStep_sessDir (env : Env) (t : Node) (h : Hist) (hc : h.children = []) (hr : h.root = [])
    (fmts pats : List String) (hit : RelPath → Bool) (hfm : fmts ≠ []) (folder : RelPath)
    (a : CreateState × List (String × DirCtx)) (b : String × Bool) (L : List (RelPath × Bool))
    (hP : SessDir env t h fmts pats hit a.1.session L) :
    SessDir env t h fmts pats hit (childStep env t h fmts false folder a b).1.session
      (L ++ if b.2 then [] else [(folder ++ [b.1], false)]) := by
  obtain ⟨st, ctx⟩ := a
  obtain ⟨nm, d⟩ := b
  cases d
  · simp only [childStep, Bool.false_eq_true, if_false]
    exact sessDir_file env t h hc hr fmts pats hit hfm _ _ _ (by simp) hP
  · simp only [childStep, if_true, Bool.false_eq_true, if_false, List.append_nil]
    exact hP

theorem createVisit_sessDir (env : Env) (t : Node) (h : Hist) (hc : h.children = []) (hr : h.root = [])
    (fmts pats : List String) (hit : RelPath → Bool) (hfm : fmts ≠ []) (st : CreateState) (v : Visit)
    (L : List (RelPath × Bool)) (hs : SessDir env t h fmts pats hit st.session L)
    (hv : ∃ c, t.at? v.folder = some c ∧
      visitHashes env t h fmts st v = (specEntry env hit (ctxKeys fmts) v.folder c).2) :
    SessDir env t h fmts pats hit (createVisit env t h fmts false st v).session (L ++ visitItems v) := by
  obtain ⟨c, hat, hvh⟩ := hv
  rw [createVisit_session_eq, hvh]
  unfold visitItems
  rw [← List.append_assoc]
  refine sessDir_dir env t h hc hr fmts pats hit _ _ _ c hat ?_
  exact foldl_track
    (fun (a : CreateState × List (String × DirCtx)) L => SessDir env t h fmts pats hit a.1.session L)
    (childStep env t h fmts false v.folder) (fun b => if b.2 then [] else [(v.folder ++ [b.1], false)])
    (fun a b L hP => childStep_sessDir env t h hc hr fmts pats hit hfm v.folder a b L hP)
    v.children (st, ctxInit fmts) L hs

theorem createFold_sessDir (env : Env) (t : Node) (h : Hist) (hc : h.children = []) (hr : h.root = [])
    (fmts pats : List String) (hit : RelPath → Bool) (hfm : fmts ≠ []) (vs : List Visit) (st : CreateState)
    (L : List (RelPath × Bool)) (hs : SessDir env t h fmts pats hit st.session L)
    (hlog : LogOK env t h fmts hit vs st) :
    SessDir env t h fmts pats hit (vs.foldl (createVisit env t h fmts false) st).session (L ++ recItems vs) := by
  induction vs generalizing st L with
  | nil => simpa [recItems] using hs
  | cons v vs ih =>
    have : recItems (v :: vs) = visitItems v ++ recItems vs := by simp [recItems]
    rw [List.foldl_cons, this, ← List.append_assoc]
    exact ih _ _ (createVisit_sessDir env t h hc hr fmts pats hit hfm st v L hs hlog.1) hlog.2

/-- the session folder-mode `create` (with directory hashes) reaches on a folder with ONE history: one list, whose
records are those of `ListFor`, whose directory records and root record carry the specified hashes (`DirOk`) -/
theorem create_session_dirs (env : Env) (t : Node) (h : Hist) (hc : h.children = []) (hr : h.root = [])
    (hd : t.NamesDistinct) (hn : t.NamesOk) (hdir : t.isDir = true) (fmts : List String) (hf : fmts ≠ [])
    (pats : List String) (hit : RelPath → Bool) :
    let s := ((traverse hit [] t).foldl (createVisit env t h fmts false) { session := { patterns := pats } }).session
    s.patterns = pats ∧ s.lists = [s.get []] ∧ (s.get []).root = [] ∧
      ListFor env t h fmts (s.get []) (recItems (traverse hit [] t)) ∧
      DirOk env t hit fmts (s.get []) (recItems (traverse hit [] t)) := by
  intro s
  have h0 := createFold_sessDir env t h hc hr fmts pats hit hf (traverse hit [] t)
    { session := { patterns := pats } } [] (sessDir_empty env t h fmts pats hit)
    (logOK_traverse env t h fmts hit t hdir [] _ (by simp [Node.at?]) hd (by simp))
  rw [List.nil_append] at h0
  obtain ⟨⟨hflat, hpat, hne, hlist⟩, hdo⟩ := h0 (recItems_keysOk hit t hd hn)
  have hroot : (([] : RelPath), true) ∈ recItems (traverse hit [] t) := by
    rw [(recItems_perm hit t []).mem_iff, hdir]
    simp
  refine ⟨hpat, ?_, hlist.1, hlist, hdo⟩
  rcases hflat with h1 | ⟨nl0, h1, hr0⟩
  · exact absurd h1 (hne (List.ne_nil_of_mem hroot))
  · rw [h1, Session.get_single _ _ h1 hr0]

/-! ### validation and commit when nothing is `new` -/

theorem forall₂_mem_right {α β : Type} {R : α → β → Prop} {l₁ : List α} {l₂ : List β}
    (h : List.Forall₂ R l₁ l₂) {b : β} (hb : b ∈ l₂) : ∃ a ∈ l₁, R a b := by
  induction h with
  | nil => cases hb
  | cons hab _ ih =>
    rcases List.mem_cons.1 hb with rfl | hb
    · exact ⟨_, List.mem_cons_self .., hab⟩
    · obtain ⟨a, ha, hr⟩ := ih hb
      exact ⟨a, List.mem_cons_of_mem _ ha, hr⟩

theorem validateRecord_of_no_new (r : Record) (h : ∀ e ∈ r.entries, e.action ≠ "new") :
    validateRecord r = .ok r := by
  unfold validateRecord
  have : (r.entries.any fun e => e.action == "new") = false := by
    rw [List.any_eq_false]
    intro e he
    simpa using h e he
  simp [this, pure, Except.pure]

theorem mapM_validate_of_no_new (rs : List Record) (h : ∀ r ∈ rs, ∀ e ∈ r.entries, e.action ≠ "new") :
    rs.mapM validateRecord = .ok rs := by
  induction rs with
  | nil => rfl
  | cons r rs ih =>
    rw [List.mapM_cons, validateRecord_of_no_new r (h r (List.mem_cons_self ..)),
      ih (fun r' hr' => h r' (List.mem_cons_of_mem _ hr'))]
    rfl

/-- against an empty history every digest is `original` -/
theorem sealEntries_nil_action (p : String) (dig : String → String) (req : List String) :
    ∀ e ∈ (sealEntries [] p dig req).1, e.action = "original" := by
  obtain ⟨ents1, ents2, heq, h1, h2, -⟩ := MhlProps.C04.sealEntries_shape [] p dig req
  rw [heq]
  intro e he
  rcases List.mem_append.1 he with he | he
  · rw [(h1 e he).2.2]; rfl
  · rw [(h2 e he).2.2]; rfl

/-- the fields of the generation `writeOne` makes (no custom base name) -/
theorem writeOne_fields (rootHist : Hist) (s : Session) (rn stamp process : String) (h : Hist)
    (refs : List Written) (w : Written) (hw : writeOne rootHist s rn stamp process none h refs = .ok w) :
    w.histRoot = h.root ∧ w.number = latestGenerationNumber h.gens + 1 ∧ w.gen.state = .ok ∧
    w.gen.fileName = genFileName (latestGenerationNumber h.gens + 1) ((h.root.getLast?).getD rn) stamp ∧
    w.gen.ignore = setPatterns (latestIgnore h.gens) s.patterns [] ∧
    w.gen.records = (s.get h.root).records.map finalRec ∧
    w.gen.rootHash = ((s.get h.root).rootRec.bind fun r => if r.entries.isEmpty then none else some r.entries) := by
  have h3 := writeOne_records rootHist s rn stamp process none h refs w hw
  refine ⟨h3.1, ?_, ?_, ?_, ?_, h3.2.1, h3.2.2⟩
  all_goals
    unfold writeOne at hw
    cases hm : (s.get h.root).records.mapM validateRecord with
    | error e => simp [hm, bind, Except.bind] at hw
    | ok recs =>
      simp only [hm, bind, Except.bind, pure, Except.pure, Except.ok.injEq] at hw
      subst hw
      rfl

theorem writeOne_ok_of_valid (rootHist : Hist) (s : Session) (rn stamp process : String) (cb : Option String)
    (h : Hist) (refs : List Written) (recs : List Record)
    (hv : (s.get h.root).records.mapM validateRecord = .ok recs) :
    ∃ w, writeOne rootHist s rn stamp process cb h refs = .ok w := by
  unfold writeOne
  simp [hv, bind, Except.bind, pure, Except.pure]

theorem commit_flat_ok (h : Hist) (hc : h.children = []) (s : Session) (rn stamp process : String)
    (cb : Option String) (hin : s.lists.any (fun l => l.root == h.root) = true) (w : Written)
    (hw : writeOne h s rn stamp process cb h [] = .ok w) :
    commit h s rn stamp process cb = .ok [w] := by
  unfold commit
  rw [walkPost_flat h hc]
  simp only [List.foldlM_cons, List.foldlM_nil, commitStep, List.filter_nil, List.isEmpty_nil, Bool.and_true,
    hin, Bool.not_true, Bool.false_eq_true, if_false, hw, bind, Except.bind, pure, Except.pure, List.nil_append]

theorem map_relabel_dirEnts (hs : List (String × String × String)) : (dirEnts hs).map relabel = dirEnts hs := by
  unfold dirEnts
  rw [List.map_map]
  apply List.map_congr_left
  intro x _
  obtain ⟨f, c, st⟩ := x
  simp [relabel]

/-! ### a tree without any `ascmhl` folder -/

theorem loadHistory_noHist (t : Node) (hnh : noHist t = true) (hdir : t.isDir = true) :
    loadHistory t = .ok (.mk [] [] [] false []) := by
  cases t with
  | file n c => simp [Node.isDir] at hdir
  | dir n cs hs =>
    simp only [noHist, Bool.and_eq_true, Option.isNone_iff_eq_none] at hnh
    obtain ⟨rfl, hcs⟩ := hnh
    unfold loadHistory
    rw [findChildren_noNested (.dir n cs none) [] hcs]
    rfl

/-- WHAT `create` WRITES on a folder without any `ascmhl` folder (folder mode, directory hashes, no `-dr`, at least
one format): exactly one generation, for the root, number 1, named after the folder and the stamp, with the pattern
list of the run; its root hash entries are the specified hashes of the tree; no record has a previous path; every
directory record is the record of a folder of the tree and carries exactly the entries of its specified hashes. -/
theorem createFolder_sealed (env : Env) (t : Node) (o : CreateOpts) (hnh : noHist t = true) (hdir : t.isDir = true)
    (hd : t.NamesDistinct) (hn : t.NamesOk) (hf : o.formats ≠ []) (hno : o.noDirHashes = false)
    (hdr : o.detectRenaming = false) :
    ∃ w, (createFolder env t o).written = [w] ∧ w.histRoot = [] ∧ w.number = 1 ∧ w.gen.state = .ok ∧
      w.gen.fileName = genFileName 1 env.rootName env.stamp ∧
      w.gen.ignore = setPatterns none (setPatterns none o.ignoreCli o.ignoreFile) [] ∧
      w.gen.rootHash.getD [] =
        dirEnts (specEntry env (env.hit (setPatterns none o.ignoreCli o.ignoreFile))
          (ctxKeys (isort strLe o.formats)) [] t).2 ∧
      (∀ r ∈ w.gen.records, r.prev = none) ∧
      (∀ r ∈ w.gen.records, r.isDir = true → ∃ q c, r.path = posix q ∧ t.at? q = some c ∧
        r.entries = dirEnts (specEntry env (env.hit (setPatterns none o.ignoreCli o.ignoreFile))
          (ctxKeys (isort strLe o.formats)) q c).2) := by
  have hl := loadHistory_noHist t hnh hdir
  have hfm : isort strLe o.formats ≠ [] := by
    intro h0
    have := length_isort strLe o.formats
    rw [h0] at this
    exact hf (List.length_eq_zero_iff.1 this.symm)
  have hwr := MhlProps.C02rec.createFolder_written env t o _ hl hdr
  obtain ⟨hpat, hlists, hroot, hlist, hdo⟩ := create_session_dirs env t (.mk [] [] [] false []) rfl rfl hd hn hdir
    (isort strLe o.formats) hfm (setPatterns none o.ignoreCli o.ignoreFile)
    (env.hit (setPatterns none o.ignoreCli o.ignoreFile))
  have hsess : MhlProps.C02rec.cSession env t (.mk [] [] [] false []) o =
      ((traverse (env.hit (setPatterns none o.ignoreCli o.ignoreFile)) [] t).foldl
        (createVisit env t (.mk [] [] [] false []) (isort strLe o.formats) false)
        { session := { patterns := setPatterns none o.ignoreCli o.ignoreFile } }).session := by
    unfold MhlProps.C02rec.cSession MhlProps.C02rec.cHit
    rw [hno]
    rfl
  rw [hsess] at hwr
  generalize hS : ((traverse (env.hit (setPatterns none o.ignoreCli o.ignoreFile)) [] t).foldl
        (createVisit env t (.mk [] [] [] false []) (isort strLe o.formats) false)
        { session := { patterns := setPatterns none o.ignoreCli o.ignoreFile } }).session = S at *
  -- every record validates
  have hvalid : (S.get []).records.mapM validateRecord = .ok (S.get []).records := by
    apply mapM_validate_of_no_new
    intro r hr e he
    obtain ⟨x, -, hrf⟩ := forall₂_mem_right hlist.2.1 hr
    cases hx : x.2 with
    | false =>
      have := (hrf.2.2.2.1 hx).2
      rw [this] at he
      rw [sealEntries_nil_action _ _ _ e he]
      decide
    | true =>
      rw [(hrf.2.2.2.2 hx).2 e he]
      decide
  obtain ⟨w, hw⟩ := writeOne_ok_of_valid (.mk [] [] [] false []) S env.rootName env.stamp "in-place" none
    (.mk [] [] [] false []) [] _ hvalid
  have hin : S.lists.any (fun l => l.root == (Hist.mk [] [] [] false []).root) = true := by
    rw [hlists]
    simp [hroot, Hist.root]
  have hcm := commit_flat_ok (.mk [] [] [] false []) rfl S env.rootName env.stamp "in-place" none hin w hw
  rw [hcm] at hwr
  obtain ⟨f1, f2, f3, f4, f5, f6, f7⟩ := writeOne_fields _ _ _ _ _ _ _ _ hw
  have hrootIn : (([] : RelPath), true) ∈
      recItems (traverse (env.hit (setPatterns none o.ignoreCli o.ignoreFile)) [] t) := by
    rw [(recItems_perm _ t []).mem_iff, hdir]
    simp
  refine ⟨w, hwr, f1, f2, f3, f4, ?_, ?_, ?_, ?_⟩
  · rw [f5, hpat]; rfl
  · obtain ⟨r, hr1, -⟩ := hlist.2.2.2 hrootIn
    have hr2 := hdo.2.1 r hr1
    change w.gen.rootHash = ((S.get []).rootRec.bind _) at f7
    rw [f7, hr1, Option.bind_some, ← hr2]
    cases r.entries <;> simp
  · intro r hr
    change w.gen.records = (S.get []).records.map finalRec at f6
    rw [f6] at hr
    obtain ⟨r0, hr0, rfl⟩ := List.mem_map.1 hr
    rw [finalRec_prev]
    obtain ⟨x, -, hrf⟩ := forall₂_mem_right hlist.2.1 hr0
    exact hrf.2.2.1
  · intro r hr hrd
    change w.gen.records = (S.get []).records.map finalRec at f6
    rw [f6] at hr
    obtain ⟨r0, hr0, rfl⟩ := List.mem_map.1 hr
    rw [finalRec_isDir] at hrd
    obtain ⟨q, c, h1, h2, h3⟩ := hdo.1 r0 hr0 hrd
    refine ⟨q, c, by rw [finalRec_path, h1], h2, ?_⟩
    unfold finalRec
    rw [if_pos hrd]
    simp only
    rw [h3, map_relabel_dirEnts]

/-! ## D. the tree after `applyWritten`; the pattern list read back -/

theorem applyWritten_root_single (n : String) (cs : List Node) (w : Written) (hw : w.histRoot = []) :
    applyWritten (.dir n cs none) [w] = .dir n cs (some (({} : HistStore).add w)) := by
  obtain ⟨hr, num, g⟩ := w
  simp only at hw
  subst hw
  rfl

/-- the history loaded from a folder whose `ascmhl` folder holds exactly the generation `w` just written (no nested
histories): that one generation, under the number its file name parses to -/
theorem loadHistory_sealed (n : String) (cs : List Node) (w : Written) (hcs : noHistList cs = true)
    (hst : w.gen.state = .ok) (k : Nat) (hparse : parseGenName w.gen.fileName = some k) :
    loadHistory (.dir n cs (some (({} : HistStore).add w))) =
      .ok (.mk [] [⟨k, w.gen⟩] [⟨w.number, w.gen.fileName⟩] true []) := by
  unfold loadHistory
  rw [findChildren_noNested (.dir n cs _) [] hcs]
  have hchk : checkStore (Node.dir n cs (some (({} : HistStore).add w))).hist = .ok () := by
    simp [Node.hist, checkStore, HistStore.add, checkChain, hst, pure, Except.pure, bind, Except.bind]
  rw [hchk]
  simp [Node.hist, buildHist, loadGens, HistStore.add, HistStore.lists, hst, hparse, bind, Except.bind, pure, Except.pure]

theorem foldl_appendNew_of_subset (l acc : List String) (h : ∀ x ∈ l, x ∈ acc) : l.foldl appendNew acc = acc := by
  induction l with
  | nil => rfl
  | cons x xs ih =>
    have hx : appendNew acc x = acc := by simp [appendNew, h x (List.mem_cons_self ..)]
    rw [List.foldl_cons, hx]
    exact ih fun y hy => h y (List.mem_cons_of_mem _ hy)

/-- the pattern list of a first run, written into the generation and read back by the next command, is the same
list (so the next command ignores exactly what the first run ignored) -/
theorem setPatterns_roundtrip (cli file : List String) :
    setPatterns (some (setPatterns none (setPatterns none cli file) [])) [] [] = setPatterns none cli file := by
  obtain ⟨B, hB⟩ := MhlProps.C12.setPatterns_fresh cli file
  have hnd := MhlProps.C12.setPatterns_nodup none cli file
  generalize setPatterns none cli file = pats at hB hnd
  have hb0 : basePatterns none = Gen.defaultIgnore := by decide
  have hne : pats ≠ [] := by
    rw [← hB]
    have : Gen.defaultIgnore ≠ [] := by decide
    intro h0
    exact this (List.append_eq_nil_iff.1 h0).1
  have hemp : pats.isEmpty = false := by cases pats <;> simp_all
  have h1 : setPatterns none pats [] = pats := by
    unfold setPatterns
    simp only [hemp, Bool.false_eq_true, if_false, List.isEmpty_nil, if_true, hb0]
    unfold appendPatterns
    rw [← hB, List.foldl_append, foldl_appendNew_of_subset _ _ (fun x hx => hx)]
    exact foldl_appendNew_of_nodup B Gen.defaultIgnore (by rw [hB]; exact hnd)
  rw [h1]
  unfold setPatterns basePatterns
  simp only [List.isEmpty_nil, if_true, hemp, Bool.false_eq_true, if_false]
  unfold appendPatterns
  simpa using foldl_appendNew_of_nodup pats [] (by simpa using hnd)

/-- the components of a path that leads somewhere are names of descendants -/
theorem Node.at?_names (t : Node) : ∀ (q : RelPath) (c : Node), t.at? q = some c → ∀ s ∈ q, s ∈ t.descNames := by
  induction t using Node.induct with
  | file n b =>
    intro q c hq
    cases q with
    | nil => simp
    | cons m rest => simp [Node.at?] at hq
  | dir n cs h ih =>
    intro q c hq
    cases q with
    | nil => simp
    | cons m rest =>
      rw [Node.at?_dir_cons] at hq
      cases hf : findChild cs m with
      | none => simp [hf] at hq
      | some c0 =>
        obtain ⟨hc0, rfl⟩ := findChild_some hf
        simp only [hf, Option.bind_some] at hq
        intro s hs
        rw [Node.mem_descNames_dir]
        rcases List.mem_cons.1 hs with rfl | hs
        · exact ⟨c0, hc0, Or.inl rfl⟩
        · exact ⟨c0, hc0, Or.inr (ih c0 hc0 rest c hq s hs)⟩

/-- the `ascmhl` folder of the root plays no role for paths below the root, the traversal and the specified hashes -/
theorem at?_root_hist (n : String) (cs : List Node) (h h' : Option HistStore) (q : RelPath) (hq : q ≠ []) :
    (Node.dir n cs h).at? q = (Node.dir n cs h').at? q := by
  cases q with
  | nil => exact absurd rfl hq
  | cons m rest => rw [Node.at?_dir_cons, Node.at?_dir_cons]

theorem traverse_root_hist (hit : RelPath → Bool) (here : RelPath) (n : String) (cs : List Node)
    (h h' : Option HistStore) : traverse hit here (.dir n cs h) = traverse hit here (.dir n cs h') := by
  rw [traverse_dir, traverse_dir]

theorem nodeHashes_root_hist (H : HashFn) (D : DecodeFn) (f : String) (hit : RelPath → Bool) (here : RelPath)
    (n : String) (cs : List Node) (h h' : Option HistStore) :
    nodeHashes H D f hit here (.dir n cs h) = nodeHashes H D f hit here (.dir n cs h') := by
  rw [nodeHashes_dir, nodeHashes_dir]

/-! ### reading directory entries back -/

theorem mem_dirEnts_spec (env : Env) (hit : RelPath → Bool) (K : List String) (p : RelPath) (c : Node) (e : Entry)
    (he : e ∈ dirEnts (specEntry env hit K p c).2) :
    e.fmt ∈ K ∧ e.digest = (nodeHashes env.H env.D e.fmt hit p c).1 ∧
      e.shash = some (nodeHashes env.H env.D e.fmt hit p c).2 := by
  simp only [dirEnts, specEntry, List.map_map, List.mem_map, Function.comp] at he
  obtain ⟨f, hf, rfl⟩ := he
  exact ⟨hf, rfl, rfl⟩

theorem dirEnts_spec_mem (env : Env) (hit : RelPath → Bool) (K : List String) (p : RelPath) (c : Node) (f : String)
    (hf : f ∈ K) : ∃ e ∈ dirEnts (specEntry env hit K p c).2, e.fmt = f := by
  refine ⟨{ fmt := f, digest := (nodeHashes env.H env.D f hit p c).1,
            shash := some (nodeHashes env.H env.D f hit p c).2 }, ?_, rfl⟩
  simp only [dirEnts, specEntry, List.map_map, List.mem_map, Function.comp]
  exact ⟨f, hf, rfl⟩

/-- a hit of the look-up in the spec list of a folder is the entry of that format -/
theorem find?_specEntry (env : Env) (hit : RelPath → Bool) (K : List String) (p : RelPath) (c : Node) (f k c' s' : String)
    (h : (specEntry env hit K p c).2.find? (fun x => x.1 == f) = some (k, c', s')) :
    k = f ∧ c' = (nodeHashes env.H env.D f hit p c).1 ∧ s' = (nodeHashes env.H env.D f hit p c).2 := by
  have hk : k = f := by simpa using List.find?_some h
  have hm := List.mem_of_find?_eq_some h
  simp only [specEntry, List.mem_map, Prod.mk.injEq] at hm
  obtain ⟨g, -, rfl, rfl, rfl⟩ := hm
  subst hk
  exact ⟨rfl, rfl, rfl⟩

/-- the recorded directory entries of a path other than "." in a history with ONE generation, none of whose records
has a previous path: the entries of a directory record with that path -/
theorem dirEntriesFor_single (k : Nat) (g : Generation) (ch : List ChainEntry) (ex : Bool) (kids : List Hist)
    (path : String) (hp : path ≠ ".") (hprev : ∀ r ∈ g.records, r.prev = none) (e : Entry)
    (he : e ∈ dirEntriesFor (.mk [] [⟨k, g⟩] ch ex kids) path) :
    ∃ r ∈ g.records, r.path = path ∧ r.isDir = true ∧ e ∈ r.entries := by
  have hb : (path == ".") = false := by simpa using hp
  simp only [dirEntriesFor, Hist.gens, List.flatMap_cons, List.flatMap_nil, List.append_nil, hb,
    Bool.false_eq_true, if_false] at he
  cases hfind : g.find path with
  | none => simp [hfind] at he
  | some r =>
    simp only [hfind] at he
    cases hrd : r.isDir with
    | false => simp [hrd] at he
    | true =>
      simp only [hrd, if_true] at he
      unfold Generation.find at hfind
      have hmem := List.mem_of_find?_eq_some hfind
      have hpred := List.find?_some hfind
      rw [List.mem_reverse, List.mem_append] at hmem
      rcases hmem with hmem | hmem
      · exfalso
        cases hrh : g.rootHash with
        | none => simp [hrh] at hmem
        | some es =>
          simp only [hrh, List.mem_singleton] at hmem
          subst hmem
          simp [Ne.symm hp] at hpred
      · refine ⟨r, hmem, ?_, hrd, he⟩
        simpa [hprev r hmem] using hpred

end MhlModel
