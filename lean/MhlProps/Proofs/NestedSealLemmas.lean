/-
Lemmas for C04nested: folder-mode `create` / `verify` / `diff` on a tree WITH NESTED HISTORIES.

A.  `GoodEntries`: a compositional form of "the record passes `_validate_new_hash_list`" (closed under `++`)
B.  the invariant `Session.Good` (every record of every list of the session has good entries) and its
    preservation by `touch` / `get` / `put` / `update`, `sealFile`, `appendDirHashes`, `createVisit`, `detectRenames`
C.  `commit` never raises on a good session (`commit_good`); which histories write (`writesStep`, `writtenRoots`)
D.  folder-mode `create` with named pieces, with or without `-dr` (`cNotFound_u`, `cRen`, `createFolder_eq_gen`)
E.  the verdict of verify / diff on a recorded, consistent file (`RecordedOriginal`, `judgeFile_ok`,
    `recordedName_of_noPrev`, `recordedOriginal_of_first`)
F.  evaluable forms: Boolean tests `firstOkB`, `recordedOriginalB`, `namesDistinctB_u`; `expectedPathsWith`,
    `cMissingHistWith`, and verbatim copies `createFolderWith` / `verifyOrDiffWith` of the two commands with the
    path splitter as a parameter (`createFolder_eq_with`, `verifyOrDiff_eq_with`: equal to the model's with
    `splitPathL`, which the kernel can evaluate)
C'. `Session.has`: the history owning a yielded folder has a list in the session; membership in `writtenRoots`;
    `walkPost_perm_u`, `route_nil_u`
G.  grafting: `rerootH`, `findChildren_reroot` (the nested histories found from `pre ++ here` are those found from
    `here`, re-rooted), `findChildren_below_u` (their roots lie strictly below the folder), `graft_route` (a path below
    the graft is routed as in the sub-tree on its own)
-/
import MhlProps.Proofs.SealVerifyLemmas
import MhlProps.C04
import MhlProps.C08

namespace MhlModel
open MhlProps.C02rec MhlProps.C04 MhlProps.C08

/-! ## A. entries that pass validation, compositionally -/

/-- no entry failed, and if a digest in a format new for the file is present then so is a verified one.  Closed under
concatenation (a record may be appended to several times), implied by what `sealEntries` returns for an unaltered
file and by directory entries, and sufficient for `validateRecord`. -/
def GoodEntries (es : List Entry) : Prop :=
  (∀ e ∈ es, e.action ≠ "failed") ∧ ((∃ e ∈ es, e.action = "new") → ∃ e ∈ es, e.action = "verified")

theorem goodEntries_nil : GoodEntries [] := ⟨by simp, by simp⟩

theorem goodEntries_append {a b : List Entry} (ha : GoodEntries a) (hb : GoodEntries b) : GoodEntries (a ++ b) := by
  refine ⟨?_, ?_⟩
  · intro e he
    rcases List.mem_append.1 he with h | h
    · exact ha.1 e h
    · exact hb.1 e h
  · rintro ⟨e, he, hn⟩
    rcases List.mem_append.1 he with h | h
    · obtain ⟨v, hv, hvv⟩ := ha.2 ⟨e, h, hn⟩
      exact ⟨v, List.mem_append_left _ hv, hvv⟩
    · obtain ⟨v, hv, hvv⟩ := hb.2 ⟨e, h, hn⟩
      exact ⟨v, List.mem_append_right _ hv, hvv⟩

theorem goodEntries_no_action {es : List Entry} (h : ∀ e ∈ es, e.action = "") : GoodEntries es := by
  refine ⟨?_, ?_⟩
  · intro e he hf
    rw [h e he] at hf
    exact absurd hf (by decide)
  · rintro ⟨e, he, hn⟩
    rw [h e he] at hn
    exact absurd hn (by decide)

theorem goodEntries_pass {es : List Entry} (h : GoodEntries es) : entriesPass es = true := by
  unfold entriesPass
  by_cases hnew : (es.any fun e => e.action == "new") = true
  · obtain ⟨e, he, hn⟩ := List.any_eq_true.1 hnew
    obtain ⟨v, hv, hvv⟩ := h.2 ⟨e, he, by simpa using hn⟩
    have hmem : v ∈ es.filter fun e => e.action == "verified" || e.action == "failed" := by
      rw [List.mem_filter]
      exact ⟨hv, by simp [hvv]⟩
    have h1 : (es.filter fun e => e.action == "verified" || e.action == "failed").isEmpty = false := by
      cases hl : es.filter fun e => e.action == "verified" || e.action == "failed" with
      | nil => rw [hl] at hmem; cases hmem
      | cons a as => rfl
    have h2 : ((es.filter fun e => e.action == "verified" || e.action == "failed").any
        fun e => e.action != "verified") = false := by
      rw [List.any_eq_false]
      intro x hx
      obtain ⟨hx1, hx2⟩ := List.mem_filter.1 hx
      have : x.action = "verified" ∨ x.action = "failed" := by simpa using hx2
      rcases this with hv' | hf
      · simp [hv']
      · exact absurd hf (h.1 x hx1)
    simp [h1, h2]
  · have : (es.any fun e => e.action == "new") = false := by simpa using hnew
    simp [this]

theorem goodEntries_of_pass {es : List Entry} (hp : entriesPass es = true)
    (hnf : ∀ e ∈ es, e.action ≠ "failed") : GoodEntries es := by
  refine ⟨hnf, ?_⟩
  rintro ⟨e, he, hn⟩
  have hnew : (es.any fun e => e.action == "new") = true :=
    List.any_eq_true.2 ⟨e, he, by simp [hn]⟩
  unfold entriesPass at hp
  simp only [hnew, Bool.not_true, Bool.false_or, Bool.and_eq_true, Bool.not_eq_true'] at hp
  cases hl : es.filter fun e => e.action == "verified" || e.action == "failed" with
  | nil => rw [hl] at hp; simp at hp
  | cons v vs =>
    have hv : v ∈ es.filter fun e => e.action == "verified" || e.action == "failed" := by rw [hl]; simp
    obtain ⟨hv1, hv2⟩ := List.mem_filter.1 hv
    have : v.action = "verified" ∨ v.action = "failed" := by simpa using hv2
    rcases this with h | h
    · exact ⟨v, hv1, h⟩
    · exact absurd h (hnf v hv1)

theorem validate_of_good (r : Record) (h : GoodEntries r.entries) : ∃ r', validateRecord r = .ok r' :=
  (validateRecord_isOk r).2 (goodEntries_pass h)

/-- what `seal_file_path` appends for an unaltered file is good, whatever formats are requested -/
theorem goodEntries_sealEntries (dig : String → String) (gens : List LGen) (p : String) (req : List String)
    (h : FirstOk dig gens p) : GoodEntries (sealEntries gens p dig req).1 := by
  obtain ⟨r', hr', -⟩ := unaltered_validate_ok dig gens p req h none
  have := (validateRecord_isOk { path := p, size := none, entries := (sealEntries gens p dig req).1 }).1 ⟨r', hr'⟩
  exact goodEntries_of_pass this (unaltered_no_failed dig gens p req h)

theorem goodEntries_dirEnts (hashes : List (String × String × String)) : GoodEntries (dirEnts hashes) :=
  goodEntries_no_action (dirEnts_action hashes)

/-! ## B. the session invariant -/

def NewList.Good (nl : NewList) : Prop := ∀ r ∈ nl.records, GoodEntries r.entries

/-- every record (other than the root records, which are not validated) of every list under construction has good
entries -/
def Session.Good (s : Session) : Prop := ∀ l ∈ s.lists, l.Good

theorem Session.good_empty (pats : List String) : ({ patterns := pats } : Session).Good := by
  intro l hl; cases hl

theorem Session.good_touch {s : Session} (hs : s.Good) (root : RelPath) : (s.touch root).Good := by
  unfold Session.touch
  split
  · exact hs
  · intro l hl
    rcases List.mem_append.1 hl with h | h
    · exact hs l h
    · simp only [List.mem_singleton] at h
      subst h
      intro r hr
      cases hr

theorem Session.good_get {s : Session} (hs : s.Good) (root : RelPath) : (s.get root).Good := by
  unfold Session.get
  cases hf : s.lists.find? (fun l => l.root == root) with
  | none => intro r hr; cases hr
  | some l => exact hs l (List.mem_of_find?_eq_some hf)

theorem Session.good_put {s : Session} (hs : s.Good) {nl : NewList} (hn : nl.Good) : (s.put nl).Good := by
  unfold Session.put
  split
  · intro l hl
    obtain ⟨l0, hl0, rfl⟩ := List.mem_map.1 hl
    split
    · exact hn
    · exact hs l0 hl0
  · intro l hl
    rcases List.mem_append.1 hl with h | h
    · exact hs l h
    · simp only [List.mem_singleton] at h
      subst h
      exact hn

theorem NewList.good_update {nl : NewList} (hn : nl.Good) (path : String) (size : Option Nat)
    (f : Record → Record) (hf : ∀ r, GoodEntries r.entries → GoodEntries (f r).entries) :
    (nl.update path size f).Good := by
  unfold NewList.update
  split
  · exact hn
  · split
    · intro r hr
      obtain ⟨r0, hr0, rfl⟩ := List.mem_map.1 hr
      split
      · exact hf r0 (hn r0 hr0)
      · exact hn r0 hr0
    · intro r hr
      rcases List.mem_append.1 hr with h | h
      · exact hn r h
      · simp only [List.mem_singleton] at h
        subst h
        exact hf _ goodEntries_nil

/-- changing the previous path of records (rename detection) does not touch the entries -/
theorem NewList.good_mapPrev {nl : NewList} (hn : nl.Good) (g : Record → Record)
    (hg : ∀ r, (g r).entries = r.entries) : ({ nl with records := nl.records.map g } : NewList).Good := by
  intro r hr
  obtain ⟨r0, hr0, rfl⟩ := List.mem_map.1 hr
  rw [hg]
  exact hn r0 hr0

theorem sealFile_good (H : HashFn) (rootHist : Hist) (s : Session) (hs : s.Good) (file : RelPath) (c : Bytes)
    (req : List String)
    (hg : GoodEntries (sealEntries (route rootHist file).1.gens (posix (route rootHist file).2)
      (fun f => H f c) req).1) :
    (sealFile H rootHist s file c req).1.Good := by
  unfold sealFile
  generalize route rootHist file = x at hg
  obtain ⟨h', hrel⟩ := x
  dsimp only at hg ⊢
  generalize sealEntries h'.gens (posix hrel) (fun f => H f c) req = y at hg
  obtain ⟨ents, res⟩ := y
  dsimp only at hg ⊢
  split
  · exact hs
  · apply Session.good_put (Session.good_touch hs _)
    apply NewList.good_update (Session.good_get (Session.good_touch hs _) _)
    intro r hr
    exact goodEntries_append hr hg

theorem appendDirHashes_good (rootHist : Hist) (s : Session) (hs : s.Good) (folder : RelPath)
    (hashes : List (String × String × String)) : (appendDirHashes rootHist s folder hashes).Good := by
  unfold appendDirHashes
  generalize route rootHist folder = x
  obtain ⟨h', hrel⟩ := x
  dsimp only
  have hupd : ∀ (s' : Session), s'.Good → ∀ (root : RelPath) (p : String),
      ((s'.touch root).put (((s'.touch root).get root).update p none fun r =>
        { r with isDir := true, entries := r.entries ++ dirEnts hashes })).Good := by
    intro s' hs' root p
    apply Session.good_put (Session.good_touch hs' _)
    apply NewList.good_update (Session.good_get (Session.good_touch hs' _) _)
    intro r hr
    exact goodEntries_append hr (goodEntries_dirEnts hashes)
  have h1 := hupd s hs h'.root (posix hrel)
  split
  · split
    · exact hupd _ h1 _ _
    · exact h1
  · exact h1

/-- one yielded folder: if every file of the folder is unaltered with respect to the history that owns it, the
session stays good -/
theorem createVisit_good (env : Env) (t : Node) (rootHist : Hist) (fmts : List String) (noDir : Bool)
    (st : CreateState) (v : Visit) (hs : st.session.Good)
    (hok : ∀ ch ∈ v.children, ch.2 = false →
      GoodEntries (sealEntries (route rootHist (v.folder ++ [ch.1])).1.gens
        (posix (route rootHist (v.folder ++ [ch.1])).2)
        (fun f => env.H f (fileContent t (v.folder ++ [ch.1]))) fmts).1) :
    (createVisit env t rootHist fmts noDir st v).session.Good := by
  unfold createVisit
  dsimp only
  generalize hres : List.foldl _ (st, _) v.children = res
  have hP : res.1.session.Good := by
    rw [← hres]
    refine foldl_inv_mem (fun (a : CreateState × List (String × DirCtx)) => a.1.session.Good) _ _ _ hs ?_
    intro a b hb hP
    try dsimp only at hP ⊢
    by_cases hd : b.2 = true
    · simp only [hd, if_true]
      split <;> exact hP
    · have hd' : b.2 = false := by simpa using hd
      simp only [hd', Bool.false_eq_true, if_false]
      exact sealFile_good env.H rootHist _ hP _ _ _ (hok b hb hd')
  cases noDir <;> exact appendDirHashes_good rootHist _ hP _ _

theorem createFold_good (env : Env) (t : Node) (rootHist : Hist) (fmts : List String) (noDir : Bool)
    (vs : List Visit) (st : CreateState) (hs : st.session.Good)
    (hok : ∀ v ∈ vs, ∀ ch ∈ v.children, ch.2 = false →
      GoodEntries (sealEntries (route rootHist (v.folder ++ [ch.1])).1.gens
        (posix (route rootHist (v.folder ++ [ch.1])).2)
        (fun f => env.H f (fileContent t (v.folder ++ [ch.1]))) fmts).1) :
    (vs.foldl (createVisit env t rootHist fmts noDir) st).session.Good :=
  foldl_inv_mem (fun (st' : CreateState) => st'.session.Good) _ vs st hs
    (fun b a ha hP => createVisit_good env t rootHist fmts noDir b a hP (hok a ha))

/-! ### rename detection keeps the session good -/

theorem holder_mem (s : Session) (np : RelPath) (l : NewList) (r : Record)
    (h : (s.lists.findSome? fun l =>
      if isPrefixOf l.root np then (l.find (posix (np.drop l.root.length))).map fun r => (l, r) else none)
        = some (l, r)) : l ∈ s.lists := by
  obtain ⟨l', hl', hh⟩ := List.exists_of_findSome?_eq_some h
  split at hh
  · cases hf : l'.find (posix (np.drop l'.root.length)) with
    | none => rw [hf] at hh; cases hh
    | some r' =>
      rw [hf] at hh
      simp only [Option.map_some, Option.some.injEq, Prod.mk.injEq] at hh
      rw [← hh.1]; exact hl'
  · cases hh

theorem detectRenames_good (env : Env) (t : Node) (rootHist : Hist) (s : Session) (hs : s.Good)
    (newPaths notFound : List RelPath) : (detectRenames env t rootHist s newPaths notFound).1.Good := by
  unfold detectRenames
  refine foldl_inv_mem (fun (a : Session × List RelPath × List (String × String)) => a.1.Good) _ _ _ hs ?_
  intro a np _ ha
  refine foldl_inv_mem (fun (a : Session × List RelPath × List (String × String)) => a.1.Good) _ _ _ ha ?_
  intro acc nf _ hacc
  obtain ⟨s', fo, ren⟩ := acc
  dsimp only at hacc ⊢
  generalize route rootHist nf = x
  obtain ⟨oh, orel⟩ := x
  dsimp only
  split
  · exact hacc
  · split
    · exact hacc
    · next l r hholder =>
      have hl : l ∈ s'.lists := holder_mem s' np l r hholder
      have hsp : ∀ (fo' : List RelPath) (ren' : List (String × String)),
          ((if (r.path == ".") = true then
            match parentRoot rootHist l.root with
            | some pr =>
              s'.put
                { root := (s'.get pr).root,
                  records := (s'.get pr).records.map fun x =>
                      if (x.path == posix (np.drop pr.length)) = true then
                        { x with prev := some (posix orel) } else x,
                  rootRec := (s'.get pr).rootRec }
            | none => s'
          else
            s'.put
              { root := l.root,
                records := l.records.map fun x =>
                      if (x.path == r.path) = true then { x with prev := some (posix orel) } else x,
                rootRec := l.rootRec }), fo', ren').fst.Good := by
        intro fo' ren'
        dsimp only
        split
        · split
          · apply Session.good_put hacc
            apply NewList.good_mapPrev (Session.good_get hacc _)
            intro x; split <;> rfl
          · exact hacc
        · apply Session.good_put hacc
          apply NewList.good_mapPrev (hacc l hl)
          intro x; split <;> rfl
      split
      · split
        · exact hsp _ _
        · exact hacc
      · split
        · split
          · exact hsp _ _
          · exact hacc
        · exact hacc

/-! ## C. `commit` on a good session -/

theorem writeOne_good_ok (rootHist : Hist) (s : Session) (hs : s.Good) (rn stamp process : String)
    (cb : Option String) (h : Hist) (refs : List Written) :
    ∃ w, writeOne rootHist s rn stamp process cb h refs = .ok w :=
  writeOne_isOk rootHist s rn stamp process cb h refs
    (fun r hr => validate_of_good r (Session.good_get hs h.root r hr))

/-- which histories write in a `commit`: in post-order, a history writes iff it has a list in the session or a
history that already wrote names it as its parent; the list of the roots that wrote, in order -/
def writesStep (rootHist : Hist) (s : Session) (acc : List RelPath) (h : Hist) : List RelPath :=
  if (s.lists.any fun l => l.root == h.root) || acc.any (fun r => parentRoot rootHist r == some h.root)
  then acc ++ [h.root] else acc

def writtenRoots (rootHist : Hist) (s : Session) : List RelPath :=
  (walkPost rootHist).foldl (writesStep rootHist s) []

theorem filter_isEmpty_eq_any {α : Type} (p : α → Bool) (l : List α) : (l.filter p).isEmpty = !l.any p := by
  induction l with
  | nil => rfl
  | cons a as ih =>
    by_cases h : p a = true
    · simp [h]
    · have h' : p a = false := by simpa using h
      simp [h', ih]

/-- one step of the commit on a good session: never an error, and it writes exactly when `writesStep` says so -/
theorem commitStep_good (rootHist : Hist) (s : Session) (hs : s.Good) (rn stamp process : String)
    (cb : Option String) (acc : List Written) (h : Hist) :
    ∃ out, commitStep rootHist s rn stamp process cb acc h = .ok out ∧
      out.map (·.histRoot) = writesStep rootHist s (acc.map (·.histRoot)) h ∧
      (out = acc ∨ ∃ w, out = acc ++ [w] ∧ w.histRoot = h.root ∧ w.number = latestGenerationNumber h.gens + 1 ∧
        w.gen.state = .ok) := by
  have hany : (acc.map (·.histRoot)).any (fun r => parentRoot rootHist r == some h.root) =
      acc.any (fun w => parentRoot rootHist w.histRoot == some h.root) := by
    rw [List.any_map]; rfl
  unfold commitStep writesStep
  dsimp only
  rw [hany, filter_isEmpty_eq_any]
  by_cases hc : ((s.lists.any fun l => l.root == h.root) ||
      acc.any (fun w => parentRoot rootHist w.histRoot == some h.root)) = true
  · have hc' : (!(s.lists.any fun l => l.root == h.root) &&
        !acc.any (fun w => parentRoot rootHist w.histRoot == some h.root)) = false := by
      rw [← Bool.not_or, hc]; rfl
    rw [hc', if_pos hc]
    obtain ⟨w, hw⟩ := writeOne_good_ok rootHist s hs rn stamp process cb h
      (acc.filter fun w => parentRoot rootHist w.histRoot == some h.root)
    obtain ⟨h1, h2, h3⟩ := MhlProps.C06.writeOne_state _ _ _ _ _ _ _ _ _ hw
    refine ⟨acc ++ [w], ?_, ?_, Or.inr ⟨w, rfl, h3, h2, h1⟩⟩
    · simp only [Bool.false_eq_true, if_false, hw, bind, Except.bind, pure, Except.pure]
    · simp [h3]
  · have hc2 : ((s.lists.any fun l => l.root == h.root) ||
        acc.any (fun w => parentRoot rootHist w.histRoot == some h.root)) = false := by simpa using hc
    have hc' : (!(s.lists.any fun l => l.root == h.root) &&
        !acc.any (fun w => parentRoot rootHist w.histRoot == some h.root)) = true := by
      rw [← Bool.not_or, hc2]; rfl
    rw [hc', if_neg hc]
    exact ⟨acc, rfl, rfl, Or.inl rfl⟩

theorem foldlM_commitStep_good (rootHist : Hist) (s : Session) (hs : s.Good) (rn stamp process : String)
    (cb : Option String) (hsts : List Hist) : ∀ acc : List Written,
    ∃ out, hsts.foldlM (commitStep rootHist s rn stamp process cb) acc = .ok out ∧
      out.map (·.histRoot) = hsts.foldl (writesStep rootHist s) (acc.map (·.histRoot)) ∧
      (∀ w ∈ out, w ∈ acc ∨ ∃ h ∈ hsts, w.histRoot = h.root ∧ w.number = latestGenerationNumber h.gens + 1 ∧
        w.gen.state = .ok) := by
  induction hsts with
  | nil =>
    intro acc
    exact ⟨acc, rfl, rfl, fun w hw => Or.inl hw⟩
  | cons h rest ih =>
    intro acc
    obtain ⟨mid, hmid, hroots, hshape⟩ := commitStep_good rootHist s hs rn stamp process cb acc h
    obtain ⟨out, hout, hroots', hmem⟩ := ih mid
    refine ⟨out, ?_, ?_, ?_⟩
    · rw [List.foldlM_cons, hmid]
      exact hout
    · rw [List.foldl_cons, ← hroots]
      exact hroots'
    · intro w hw
      rcases hmem w hw with hm | ⟨h', hh', hr⟩
      · rcases hshape with rfl | ⟨w', rfl, hw1, hw2, hw3⟩
        · exact Or.inl hm
        · rcases List.mem_append.1 hm with ha | hb
          · exact Or.inl ha
          · simp only [List.mem_singleton] at hb
            subst hb
            exact Or.inr ⟨h, List.mem_cons_self, hw1, hw2, hw3⟩
      · exact Or.inr ⟨h', List.mem_cons_of_mem _ hh', hr⟩

/-- `commit` on a good session does not raise; the roots of the generations it writes are `writtenRoots`, in that
order; each generation belongs to a history in scope and is numbered one above that history's latest -/
theorem commit_good (rootHist : Hist) (s : Session) (hs : s.Good) (rn stamp process : String)
    (cb : Option String) :
    ∃ ws, commit rootHist s rn stamp process cb = .ok ws ∧
      ws.map (·.histRoot) = writtenRoots rootHist s ∧
      (∀ w ∈ ws, ∃ h ∈ walkPost rootHist, w.histRoot = h.root ∧ w.number = latestGenerationNumber h.gens + 1 ∧
        w.gen.state = .ok) := by
  obtain ⟨out, h1, h2, h3⟩ := foldlM_commitStep_good rootHist s hs rn stamp process cb (walkPost rootHist) []
  refine ⟨out, h1, h2, ?_⟩
  intro w hw
  rcases h3 w hw with h | h
  · cases h
  · exact h

/-! ## D. folder-mode `create`, with or without `-dr` -/

/-- the expected paths the traversal did not come across -/
def cNotFound_u (env : Env) (t : Node) (rootHist : Hist) (o : CreateOpts) : List RelPath :=
  (expectedPaths rootHist).filter fun p => !(cState env t rootHist o).found.contains p

/-- session, not-found paths and renames after the optional rename detection (`-dr`).
D19: the detection visits the not-found paths in the sorted order of their path strings (`sorted(not_found_paths)`);
before, the list handed to `detectRenames` was `cNotFound_u env t rootHist o` itself. -/
def cRen (env : Env) (t : Node) (rootHist : Hist) (o : CreateOpts) :
    Session × List RelPath × List (String × String) :=
  if o.detectRenaming then
    let r := detectRenames env t rootHist (cState env t rootHist o).session (cState env t rootHist o).newPaths
      (isort (fun a b => strLe (posix a) (posix b)) (cNotFound_u env t rootHist o))
    (r.1, (cNotFound_u env t rootHist o).filter fun p => !r.2.1.contains p, r.2.2)
  else ((cState env t rootHist o).session, cNotFound_u env t rootHist o, [])

/-- folder-mode `create`, with or without `-dr`, once the history loaded -/
theorem createFolder_eq_gen (env : Env) (t : Node) (o : CreateOpts) (rootHist : Hist)
    (hl : loadHistory t = .ok rootHist) :
    createFolder env t o =
      match commit rootHist (cRen env t rootHist o).1 env.rootName env.stamp "in-place" with
      | .error e => { err := some e }
      | .ok written =>
        { err := createExit (cState env t rootHist o).failed
            (missingAfter (cHit env rootHist o) (cRen env t rootHist o).2.1) (cMissingHist t rootHist),
          report := { mismatch := (cState env t rootHist o).mismatch,
                      missing := (missingAfter (cHit env rootHist o) (cRen env t rootHist o).2.1).map posix,
                      renamed := (cRen env t rootHist o).2.2 },
          written := written } := by
  unfold createFolder
  simp only [hl]
  cases hdr : o.detectRenaming
  · unfold cRen
    simp only [hdr, Bool.false_eq_true, if_false]
    rfl
  · unfold cRen
    simp only [hdr, if_true]
    rfl

/-! ## E. the verdict of verify / diff -/

/-- the path is looked up under its own name (no recorded rename leads elsewhere), an ORIGINAL entry is found for it,
and that entry is the reference entry (`findFirstOfFormat`) of its own format -/
def RecordedOriginal (gens : List LGen) (p : String) : Prop :=
  recordedName gens p = p ∧ ∃ e, findOriginal gens p = some e ∧ findFirstOfFormat gens p e.fmt = some e

/-- a file recorded with an original entry that is the reference of its format, and unaltered with respect to the
references, is judged ok by verify and by diff -/
theorem judgeFile_ok (env : Env) (t : Node) (rootHist : Hist) (hashing : Bool) (p : RelPath)
    (hrec : RecordedOriginal (route rootHist p).1.gens (posix (route rootHist p).2))
    (hfirst : FirstOk (fun f => env.H f (fileContent t p)) (route rootHist p).1.gens (posix (route rootHist p).2)) :
    judgeFile env t rootHist hashing p = .ok := by
  unfold judgeFile
  generalize route rootHist p = x at hrec hfirst
  obtain ⟨h, hrel⟩ := x
  dsimp only at hrec hfirst ⊢
  obtain ⟨hname, e, ho, hf⟩ := hrec
  rw [hname, ho]
  dsimp only
  have := hfirst e.fmt e hf
  simp [this]

/-- no record of the path carries a previous path: the recorded name is the path itself -/
theorem recordedName_of_noPrev (gens : List LGen) (p : String)
    (h : ∀ g ∈ gens, ∀ r ∈ g.gen.records, r.path = p → r.prev = none) : recordedName gens p = p := by
  unfold recordedName
  induction gens with
  | nil => rfl
  | cons g gs ih =>
    rw [List.foldl_cons]
    have ih' := ih (fun g' hg' => h g' (by simp [hg']))
    cases hf : g.gen.records.find? (fun r => r.path == p) with
    | none => simpa only [hf] using ih'
    | some r =>
      have hm := List.mem_of_find?_eq_some hf
      have hp : r.path = p := by simpa using List.find?_some hf
      simp only [h g (by simp) r hm hp, Option.getD_none]
      exact ih'

theorem findSome?_append_none {α β : Type} (f : α → Option β) (l₁ l₂ : List α) (h : ∀ a ∈ l₁, f a = none) :
    (l₁ ++ l₂).findSome? f = l₂.findSome? f := by
  induction l₁ with
  | nil => rfl
  | cons a as ih =>
    rw [List.cons_append, List.findSome?_cons, h a (by simp)]
    exact ih (fun x hx => h x (by simp [hx]))

/-- the shape `create` gives a history: the FIRST generation that has a record for the path has a non-empty record
all of whose entries are `original`; then the first of them is the original entry and the reference of its format -/
theorem recordedOriginal_of_first (gens pre post : List LGen) (g : LGen) (p : String) (r : Record)
    (hg : gens = pre ++ g :: post) (hpre : ∀ g' ∈ pre, g'.gen.find p = none) (hfind : g.gen.find p = some r)
    (hne : r.entries ≠ []) (horig : ∀ e ∈ r.entries, e.action = "original") :
    ∃ e, findOriginal gens p = some e ∧ findFirstOfFormat gens p e.fmt = some e := by
  obtain ⟨e0, es, hes⟩ : ∃ e0 es, r.entries = e0 :: es := by
    cases hr : r.entries with
    | nil => exact absurd hr hne
    | cons a as => exact ⟨a, as, rfl⟩
  have h0 : e0.action = "original" := horig e0 (by rw [hes]; simp)
  refine ⟨e0, ?_, ?_⟩
  · subst hg
    unfold findOriginal
    rw [findSome?_append_none _ _ _ (fun g' hg' => by rw [hpre g' hg']), List.findSome?_cons, hfind]
    simp [hes, h0]
  · subst hg
    unfold findFirstOfFormat
    rw [findSome?_append_none _ _ _ (fun g' hg' => by rw [hpre g' hg']), List.findSome?_cons, hfind]
    simp [hes]

/-! ## F. evaluable forms -/

/-- a Boolean test for `FirstOk` -/
def firstOkB (dig : String → String) (gens : List LGen) (p : String) : Bool :=
  (existingFormats gens p).all fun fmt =>
    match findFirstOfFormat gens p fmt with
    | some e => e.digest == dig fmt
    | none => true

theorem firstOkB_iff (dig : String → String) (gens : List LGen) (p : String) :
    firstOkB dig gens p = true ↔ FirstOk dig gens p := by
  unfold firstOkB FirstOk
  rw [List.all_eq_true]
  constructor
  · intro h fmt e he
    have hmem : fmt ∈ existingFormats gens p := by
      by_contra hn
      rw [(findFirstOfFormat_none_iff gens p fmt).2 hn] at he
      cases he
    have := h fmt hmem
    rw [he] at this
    simpa using this
  · intro h fmt _
    cases he : findFirstOfFormat gens p fmt with
    | none => rfl
    | some e => simp [h fmt e he]

/-- a Boolean test for `RecordedOriginal` -/
def recordedOriginalB (gens : List LGen) (p : String) : Bool :=
  recordedName gens p == p &&
    match findOriginal gens p with
    | some e => findFirstOfFormat gens p e.fmt == some e
    | none => false

theorem recordedOriginalB_iff (gens : List LGen) (p : String) :
    recordedOriginalB gens p = true ↔ RecordedOriginal gens p := by
  unfold recordedOriginalB RecordedOriginal
  rw [Bool.and_eq_true, beq_iff_eq]
  apply and_congr_right
  intro _
  cases ho : findOriginal gens p with
  | none => simp
  | some e => simp

/-- `expectedOfGens` with the path splitter as a parameter -/
def expectedOfGensWith_u (sp : String → RelPath) (root : RelPath) (gens : List LGen) : List RelPath :=
  gens.foldl (fun acc g =>
    let prevs := g.gen.records.filterMap fun r => r.prev.map fun p => root ++ sp p
    let acc := acc.filter fun p => !prevs.contains p
    g.gen.records.foldl (fun a r => appendNew a (root ++ sp r.path)) acc) []

def expectedPathsWith (sp : String → RelPath) (h : Hist) : List RelPath :=
  (h :: allDescendants h).foldl (fun acc x => (expectedOfGensWith_u sp x.root x.gens).foldl appendNew acc) []

theorem expectedPaths_eq_with (h : Hist) : expectedPaths h = expectedPathsWith splitPathL h := by
  rw [← splitPath_eq_splitPathL]
  rfl

def cMissingHistWith (sp : String → RelPath) (t : Node) (rootHist : Hist) : List RelPath :=
  match rootHist.gens.getLast? with
  | none => []
  | some g => g.gen.refs.filterMap fun ref =>
      let p := (sp ref).dropLast.dropLast
      match t.at? p with
      | some n => if n.hist.isSome then none else some p
      | none => some p

theorem cMissingHist_eq_with (t : Node) (rootHist : Hist) :
    cMissingHist t rootHist = cMissingHistWith splitPathL t rootHist := by
  rw [← splitPath_eq_splitPathL]
  rfl


/-- `createFolder` with the path splitter as a parameter (a verbatim copy of the model's definition) -/
def createFolderWith (sp : String → RelPath) (env : Env) (t : Node) (o : CreateOpts) : Outcome :=
  match loadHistory t with
  | .error e => { err := some e }
  | .ok rootHist =>
    let patterns := setPatterns (latestIgnore rootHist.gens) o.ignoreCli o.ignoreFile
    let hit := env.hit patterns
    let fmts := isort strLe o.formats
    let visits := traverse hit [] t
    let st := visits.foldl (createVisit env t rootHist fmts o.noDirHashes)
      { session := { patterns := patterns } }
    let notFound := (expectedPathsWith sp rootHist).filter fun p => !st.found.contains p
    let missingHist : List RelPath := match rootHist.gens.getLast? with
      | none => []
      | some g => g.gen.refs.filterMap fun ref =>
          let p := (sp ref).dropLast.dropLast
          match t.at? p with
          | some n => if n.hist.isSome then none else some p
          | none => some p
    let (session, notFound, renamed) :=
      if o.detectRenaming then
        let (s, foundOld, ren) := detectRenames env t rootHist st.session st.newPaths
          (isort (fun a b => strLe (posix a) (posix b)) notFound)
        (s, notFound.filter fun p => !foundOld.contains p, ren)
      else (st.session, notFound, [])
    match commit rootHist session env.rootName env.stamp "in-place" with
    | .error e => { err := some e }
    | .ok written =>
      let missing := missingAfter hit notFound
      { err := createExit st.failed missing missingHist,
        report := { mismatch := st.mismatch, missing := missing.map posix, renamed := renamed },
        written := written }

theorem createFolder_eq_with : createFolder = createFolderWith splitPathL := by
  rw [← splitPath_eq_splitPathL]
  rfl

/-- `verifyOrDiff` (against the history on disk) with the path splitter as a parameter -/
def verifyOrDiffWith (sp : String → RelPath) (env : Env) (t : Node) (o : VerifyOpts) (hashing : Bool) : Outcome :=
  match loadHistory t with
  | .error e => { err := some e }
  | .ok rootHist =>
    if rootHist.gens.isEmpty then { err := some errNoHistory }
    else
      let patterns := setPatterns (latestIgnore rootHist.gens) o.ignoreCli o.ignoreFile
      let hit := env.hit patterns
      let vis := visiblePaths hit t
      let found := vis.map (·.1)
      let files := (vis.filter fun x => !x.2).map (·.1)
      let considered := files.filter fun p => o.singleFile.isNone || o.singleFile == some p
      let news := (considered.filter fun p => judgeFile env t rootHist hashing p == .new).map posix
      let mism := (considered.filter fun p => judgeFile env t rootHist hashing p == .mismatch).map posix
      let foundSingle := considered.any fun p => judgeFile env t rootHist hashing p != .new
      let notFound := (expectedPathsWith sp rootHist).filter fun p => !found.contains p
      let missing := missingAfter hit notFound
      let err := if hashing then verifyExit mism news o.singleFile.isSome foundSingle missing
                 else diffExit news missing
      { err := err, report := { mismatch := mism, missing := missing.map posix, new := news } }

theorem verifyOrDiff_eq_with (env : Env) (t : Node) (o : VerifyOpts) (hashing : Bool) :
    verifyOrDiff env t o hashing none = verifyOrDiffWith splitPathL env t o hashing := by
  rw [← splitPath_eq_splitPathL]
  unfold verifyOrDiff verifyOrDiffWith
  rfl

theorem verify_eq_with (env : Env) (t : Node) (o : VerifyOpts) :
    verify env t o = verifyOrDiffWith splitPathL env t o true := verifyOrDiff_eq_with env t o true

theorem diff_eq_with (env : Env) (t : Node) (o : VerifyOpts) :
    diff env t o = verifyOrDiffWith splitPathL env t { o with singleFile := none } false :=
  verifyOrDiff_eq_with env t _ false

/-! ### a Boolean test for `Node.NamesDistinct` -/

mutual
/-- a Boolean test for `Node.NamesDistinct` -/
def namesDistinctB_u : Node → Bool
  | .file _ _ => true
  | .dir _ cs _ => decide ((cs.map Node.name).Nodup) && namesDistinctKidsB_u cs
def namesDistinctKidsB_u : List Node → Bool
  | [] => true
  | c :: cs => namesDistinctB_u c && namesDistinctKidsB_u cs
end

mutual
theorem namesDistinctB_spec : (t : Node) → namesDistinctB_u t = true → t.NamesDistinct
  | .file _ _, _ => by simp [Node.NamesDistinct]
  | .dir _ cs _, h => by
    rw [namesDistinctB_u, Bool.and_eq_true, decide_eq_true_iff] at h
    rw [Node.NamesDistinct]
    exact ⟨h.1, namesDistinctKidsB_spec cs h.2⟩
theorem namesDistinctKidsB_spec : (cs : List Node) → namesDistinctKidsB_u cs = true → Node.NamesDistinctKids cs
  | [], _ => by simp [Node.NamesDistinctKids]
  | c :: cs, h => by
    rw [namesDistinctKidsB_u, Bool.and_eq_true] at h
    rw [Node.NamesDistinctKids]
    exact ⟨namesDistinctB_spec c h.1, namesDistinctKidsB_spec cs h.2⟩
end

/-! ## C'. which histories have a list in the session, which histories write -/

/-- the history rooted at `r` has a list in the session -/
def Session.has (s : Session) (r : RelPath) : Prop := (s.lists.any fun l => l.root == r) = true

theorem Session.has_touch_mono {s : Session} {r : RelPath} (h : s.has r) (root : RelPath) : (s.touch root).has r := by
  unfold Session.touch
  split
  · exact h
  · unfold Session.has at h ⊢
    simp only [List.any_append, h, Bool.true_or]

theorem Session.has_touch_self (s : Session) (root : RelPath) : (s.touch root).has root := by
  unfold Session.touch
  split
  · next h => exact h
  · unfold Session.has
    simp

theorem Session.has_put_mono {s : Session} {r : RelPath} (h : s.has r) (nl : NewList) : (s.put nl).has r := by
  unfold Session.put
  split
  · unfold Session.has at h ⊢
    obtain ⟨l, hl, hr⟩ := List.any_eq_true.1 h
    apply List.any_eq_true.2
    refine ⟨_, List.mem_map_of_mem hl, ?_⟩
    split
    · next heq =>
      have h1 : l.root = nl.root := by simpa using heq
      have h2 : l.root = r := by simpa using hr
      simp [← h1, h2]
    · exact hr
  · unfold Session.has at h ⊢
    simp only [List.any_append, h, Bool.true_or]

theorem Session.has_put_self (s : Session) (nl : NewList) : (s.put nl).has nl.root := by
  unfold Session.put
  split
  · next h =>
    unfold Session.has
    obtain ⟨l, hl, hr⟩ := List.any_eq_true.1 h
    apply List.any_eq_true.2
    refine ⟨_, List.mem_map_of_mem hl, ?_⟩
    simp [hr]
  · unfold Session.has
    simp

theorem Session.get_root_u (s : Session) (root : RelPath) : (s.get root).root = root := by
  unfold Session.get
  cases hf : s.lists.find? (fun l => l.root == root) with
  | none => rfl
  | some l => simpa using List.find?_some hf

theorem sealFile_has_mono (H : HashFn) (rootHist : Hist) (s : Session) (file : RelPath) (c : Bytes)
    (req : List String) {r : RelPath} (h : s.has r) : (sealFile H rootHist s file c req).1.has r := by
  unfold sealFile
  generalize route rootHist file = x
  obtain ⟨h', hrel⟩ := x
  dsimp only
  generalize sealEntries h'.gens (posix hrel) (fun f => H f c) req = y
  obtain ⟨ents, res⟩ := y
  dsimp only
  split
  · exact h
  · exact Session.has_put_mono (Session.has_touch_mono h _) _

theorem appendDirHashes_has_mono (rootHist : Hist) (s : Session) (folder : RelPath)
    (hashes : List (String × String × String)) {r : RelPath} (h : s.has r) :
    (appendDirHashes rootHist s folder hashes).has r := by
  unfold appendDirHashes
  generalize route rootHist folder = x
  obtain ⟨h', hrel⟩ := x
  dsimp only
  have h1 := Session.has_put_mono (Session.has_touch_mono h h'.root)
    (((s.touch h'.root).get h'.root).update (posix hrel) none fun r =>
      { r with isDir := true, entries := r.entries ++ dirEnts hashes })
  split
  · split
    · exact Session.has_put_mono (Session.has_touch_mono h1 _) _
    · exact h1
  · exact h1

/-- recording the hashes of a folder gives the history that owns the folder a list in the session (even when no
directory hashes are computed: the record is created all the same) -/
theorem appendDirHashes_has_owner (rootHist : Hist) (s : Session) (folder : RelPath)
    (hashes : List (String × String × String)) :
    (appendDirHashes rootHist s folder hashes).has (route rootHist folder).1.root := by
  unfold appendDirHashes
  generalize route rootHist folder = x
  obtain ⟨h', hrel⟩ := x
  dsimp only
  have h1 : ((s.touch h'.root).put (((s.touch h'.root).get h'.root).update (posix hrel) none fun r =>
      { r with isDir := true, entries := r.entries ++ dirEnts hashes })).has h'.root := by
    have := Session.has_put_self (s.touch h'.root)
      (((s.touch h'.root).get h'.root).update (posix hrel) none fun r =>
        { r with isDir := true, entries := r.entries ++ dirEnts hashes })
    rwa [NewList.update_root, Session.get_root_u] at this
  split
  · split
    · exact Session.has_put_mono (Session.has_touch_mono h1 _) _
    · exact h1
  · exact h1

theorem createVisit_has_mono (env : Env) (t : Node) (rootHist : Hist) (fmts : List String) (noDir : Bool)
    (st : CreateState) (v : Visit) {r : RelPath} (h : st.session.has r) :
    (createVisit env t rootHist fmts noDir st v).session.has r := by
  unfold createVisit
  dsimp only
  generalize hres : List.foldl _ (st, _) v.children = res
  have hP : res.1.session.has r := by
    rw [← hres]
    refine foldl_inv_mem (fun (a : CreateState × List (String × DirCtx)) => a.1.session.has r) _ _ _ h ?_
    intro a b _ hP
    try dsimp only at hP ⊢
    by_cases hd : b.2 = true
    · simp only [hd, if_true]
      split <;> exact hP
    · have hd' : b.2 = false := by simpa using hd
      simp only [hd', Bool.false_eq_true, if_false]
      exact sealFile_has_mono env.H rootHist _ _ _ _ hP
  cases noDir <;> exact appendDirHashes_has_mono rootHist _ _ _ hP

theorem createVisit_has_owner (env : Env) (t : Node) (rootHist : Hist) (fmts : List String) (noDir : Bool)
    (st : CreateState) (v : Visit) :
    (createVisit env t rootHist fmts noDir st v).session.has (route rootHist v.folder).1.root := by
  unfold createVisit
  dsimp only
  cases noDir <;> exact appendDirHashes_has_owner rootHist _ _ _

/-- after the traversal, the history that owns a yielded folder has a list in the session -/
theorem createFold_has_owner (env : Env) (t : Node) (rootHist : Hist) (fmts : List String) (noDir : Bool)
    (vs : List Visit) : ∀ (st : CreateState), ∀ v ∈ vs,
    (vs.foldl (createVisit env t rootHist fmts noDir) st).session.has (route rootHist v.folder).1.root := by
  induction vs with
  | nil => intro st v hv; cases hv
  | cons a as ih =>
    intro st v hv
    rw [List.foldl_cons]
    rcases List.mem_cons.1 hv with rfl | hv
    · exact foldl_inv_mem (fun (st' : CreateState) => st'.session.has (route rootHist v.folder).1.root) _ as _
        (createVisit_has_owner env t rootHist fmts noDir st v)
        (fun b x _ hP => createVisit_has_mono env t rootHist fmts noDir b x hP)
    · exact ih _ v hv

theorem detectRenames_has_mono (env : Env) (t : Node) (rootHist : Hist) (s : Session)
    (newPaths notFound : List RelPath) {r : RelPath} (hs : s.has r) :
    (detectRenames env t rootHist s newPaths notFound).1.has r := by
  unfold detectRenames
  refine foldl_inv_mem (fun (a : Session × List RelPath × List (String × String)) => a.1.has r) _ _ _ hs ?_
  intro a np _ ha
  refine foldl_inv_mem (fun (a : Session × List RelPath × List (String × String)) => a.1.has r) _ _ _ ha ?_
  intro acc nf _ hacc
  obtain ⟨s', fo, ren⟩ := acc
  dsimp only at hacc ⊢
  generalize route rootHist nf = x
  obtain ⟨oh, orel⟩ := x
  dsimp only
  split
  · exact hacc
  · split
    · exact hacc
    · next l rr hholder =>
      have hsp : ∀ (fo' : List RelPath) (ren' : List (String × String)),
          ((if (rr.path == ".") = true then
            match parentRoot rootHist l.root with
            | some pr =>
              s'.put
                { root := (s'.get pr).root,
                  records := (s'.get pr).records.map fun x =>
                      if (x.path == posix (np.drop pr.length)) = true then
                        { x with prev := some (posix orel) } else x,
                  rootRec := (s'.get pr).rootRec }
            | none => s'
          else
            s'.put
              { root := l.root,
                records := l.records.map fun x =>
                      if (x.path == rr.path) = true then { x with prev := some (posix orel) } else x,
                rootRec := l.rootRec }), fo', ren').fst.has r := by
        intro fo' ren'
        dsimp only
        split
        · split
          · exact Session.has_put_mono hacc _
          · exact hacc
        · exact Session.has_put_mono hacc _
      split
      · split
        · exact hsp _ _
        · exact hacc
      · split
        · split
          · exact hsp _ _
          · exact hacc
        · exact hacc

/-! ### the roots that write -/

theorem writesStep_subset (rootHist : Hist) (s : Session) (acc : List RelPath) (h : Hist) {x : RelPath}
    (hx : x ∈ acc) : x ∈ writesStep rootHist s acc h := by
  unfold writesStep
  split
  · exact List.mem_append_left _ hx
  · exact hx

theorem foldl_writesStep_subset (rootHist : Hist) (s : Session) (l : List Hist) (acc : List RelPath) {x : RelPath}
    (hx : x ∈ acc) : x ∈ l.foldl (writesStep rootHist s) acc :=
  foldl_inv_mem (fun a => x ∈ a) _ l acc hx (fun b a _ hP => writesStep_subset rootHist s b a hP)

/-- a history with a list in the session writes -/
theorem mem_foldl_writesStep_of_has (rootHist : Hist) (s : Session) (l : List Hist) (acc : List RelPath)
    (h : Hist) (hl : h ∈ l) (hs : s.has h.root) : h.root ∈ l.foldl (writesStep rootHist s) acc := by
  induction l generalizing acc with
  | nil => cases hl
  | cons a as ih =>
    rw [List.foldl_cons]
    rcases List.mem_cons.1 hl with rfl | hl
    · apply foldl_writesStep_subset
      unfold writesStep
      unfold Session.has at hs
      simp [hs]
    · exact ih _ hl

/-- a history named as parent by a root that already wrote writes -/
theorem mem_foldl_writesStep_of_child (rootHist : Hist) (s : Session) (pre post : List Hist) (acc : List RelPath)
    (h : Hist) (r : RelPath) (hr : r ∈ pre.foldl (writesStep rootHist s) acc)
    (hp : parentRoot rootHist r = some h.root) :
    h.root ∈ (pre ++ h :: post).foldl (writesStep rootHist s) acc := by
  rw [List.foldl_append, List.foldl_cons]
  apply foldl_writesStep_subset
  generalize pre.foldl (writesStep rootHist s) acc = mid at hr
  have : mid.any (fun r => parentRoot rootHist r == some h.root) = true :=
    List.any_eq_true.2 ⟨r, hr, by simp [hp]⟩
  unfold writesStep
  simp [this]

/-- conversely a root only writes for one of these two reasons -/
theorem mem_foldl_writesStep_cases (rootHist : Hist) (s : Session) (l : List Hist) (acc : List RelPath)
    (x : RelPath) (hx : x ∈ l.foldl (writesStep rootHist s) acc) :
    x ∈ acc ∨ ∃ h ∈ l, h.root = x ∧
      (s.has x ∨ ∃ r ∈ l.foldl (writesStep rootHist s) acc, parentRoot rootHist r = some x) := by
  induction l generalizing acc with
  | nil => exact Or.inl hx
  | cons a as ih =>
    rw [List.foldl_cons] at hx ⊢
    rcases ih _ hx with h1 | ⟨h, hh, hroot, hwhy⟩
    · unfold writesStep at h1
      split at h1
      · next hc =>
        rcases List.mem_append.1 h1 with h2 | h2
        · exact Or.inl h2
        · right
          simp only [List.mem_singleton] at h2
          refine ⟨a, List.mem_cons_self, h2.symm, ?_⟩
          rcases Bool.or_eq_true_iff.1 hc with hc1 | hc1
          · left
            rw [h2]
            exact hc1
          · right
            obtain ⟨r, hr, hpr⟩ := List.any_eq_true.1 hc1
            refine ⟨r, foldl_writesStep_subset rootHist s as _ (writesStep_subset rootHist s acc a hr), ?_⟩
            rw [h2]
            simpa using hpr
      · exact Or.inl h1
    · exact Or.inr ⟨h, List.mem_cons_of_mem _ hh, hroot, hwhy⟩

/-! ### the post-order walk lists the root history and all its descendants -/

mutual
theorem walkPost_perm_u : (h : Hist) → (walkPost h).Perm (h :: allDescendants h)
  | .mk r g c e cs => by
    rw [walkPost, allDescendants]
    exact (List.perm_append_comm).trans ((walkPostList_perm cs).cons _)
theorem walkPostList_perm : (cs : List Hist) → (walkPostList cs).Perm (descList cs)
  | [] => by simp [walkPostList, descList]
  | c :: cs => by
    rw [walkPostList, descList]
    exact ((walkPost_perm_u c).append (walkPostList_perm cs))
end

theorem mem_walkPost_u (h x : Hist) : x ∈ walkPost h ↔ x = h ∨ x ∈ allDescendants h := by
  rw [(walkPost_perm_u h).mem_iff, List.mem_cons]

/-- the empty path is routed to the root history -/
theorem route_nil_u (h : Hist) : route h [] = (h, []) := by
  rw [MhlProps.C08.route_unfold]
  have : ((allDescendants h).filter fun c => !c.root.isEmpty && isPrefixOf c.root []) = [] := by
    rw [List.filter_eq_nil_iff]
    intro c _
    cases hc : c.root with
    | nil => simp
    | cons a as => simp [isPrefixOf]
  rw [this]
  rfl


/-! ## G. grafting a sealed sub-tree -/

mutual
/-- the same history seen from a command root `pre` components higher: every root gets the prefix -/
def rerootH (pre : RelPath) : Hist → Hist
  | .mk r g c e cs => .mk (pre ++ r) g c e (rerootL pre cs)
def rerootL (pre : RelPath) : List Hist → List Hist
  | [] => []
  | c :: cs => rerootH pre c :: rerootL pre cs
end

theorem rerootL_eq_map (pre : RelPath) (cs : List Hist) : rerootL pre cs = cs.map (rerootH pre) := by
  induction cs with
  | nil => rfl
  | cons c cs ih => rw [rerootL, ih]; rfl

theorem rerootH_root (pre : RelPath) (h : Hist) : (rerootH pre h).root = pre ++ h.root := by
  cases h; rfl
theorem rerootH_gens (pre : RelPath) (h : Hist) : (rerootH pre h).gens = h.gens := by
  cases h; rfl
theorem rerootH_chain (pre : RelPath) (h : Hist) : (rerootH pre h).chain = h.chain := by
  cases h; rfl
theorem rerootH_children (pre : RelPath) (h : Hist) : (rerootH pre h).children = h.children.map (rerootH pre) := by
  cases h; simp [rerootH, Hist.children, rerootL_eq_map]

theorem buildHist_reroot (pre here : RelPath) (store : Option HistStore) (kids : List Hist) :
    buildHist (pre ++ here) store (kids.map (rerootH pre)) = rerootH pre (buildHist here store kids) := by
  unfold buildHist
  cases store <;> simp [rerootH, rerootL_eq_map]

theorem mapM_map_except {α β γ : Type} (f : α → Except Err β) (F : β → γ) (l : List α) :
    (l.mapM fun x => (f x).map F) = (l.mapM f).map (List.map F) := by
  induction l with
  | nil => rfl
  | cons a as ih =>
    rw [List.mapM_cons, List.mapM_cons, ih]
    cases f a with
    | error e => rfl
    | ok b =>
      cases as.mapM f with
      | error e => rfl
      | ok bs => rfl

mutual
/-- the nested histories found from a path `pre ++ here` are those found from `here`, re-rooted -/
theorem findChildren_reroot (pre here : RelPath) : (t : Node) →
    findChildren (pre ++ here) t = (findChildren here t).map (List.map (rerootH pre))
  | .file _ _ => by simp [findChildren, pure, Except.pure, Except.map]
  | .dir n cs h => by
    rw [findChildren_dir, findChildren_dir, childPairList_reroot pre here cs]
    have hs := isort_map (keyLe (β := Except Err (List Hist))) (keyLe (β := Except Err (List Hist)))
      (fun x : String × Except Err (List Hist) => (x.1, x.2.map (List.map (rerootH pre)))) (fun _ _ => rfl)
      (cs.map (childPair here))
    rw [show (fun (a b : String × Except Err (List Hist)) => strLe a.1 b.1) = keyLe from rfl, hs, List.mapM_map]
    have := mapM_map_except (fun x : String × Except Err (List Hist) => x.2) (List.map (rerootH pre))
      (isort keyLe (cs.map (childPair here)))
    rw [show ((fun x : String × Except Err (List Hist) => x.2) ∘
        fun x : String × Except Err (List Hist) => (x.1, x.2.map (List.map (rerootH pre)))) =
      fun x => (x.2).map (List.map (rerootH pre)) from rfl, this]
    cases (isort keyLe (cs.map (childPair here))).mapM (fun x => x.2) with
    | error e => rfl
    | ok L =>
      simp only [Except.map]
      congr 1
      simp [List.map_flatten]
theorem childPairList_reroot (pre here : RelPath) : (cs : List Node) →
    cs.map (childPair (pre ++ here)) =
      (cs.map (childPair here)).map fun x => (x.1, x.2.map (List.map (rerootH pre)))
  | [] => rfl
  | c :: cs => by
    rw [List.map_cons, List.map_cons, List.map_cons, childPairList_reroot pre here cs]
    congr 1
    unfold childPair
    rw [List.append_assoc, findChildren_reroot pre (here ++ [c.name]) c]
    cases c.hist with
    | none => rfl
    | some s =>
      dsimp only
      cases checkStore (some s) with
      | error e => rfl
      | ok u =>
        cases findChildren (here ++ [c.name]) c with
        | error e => rfl
        | ok kids =>
          simp only [bind, Except.bind, Except.map, pure, Except.pure, List.map_cons, List.map_nil]
          rw [buildHist_reroot]
end


theorem descList_append_u (a b : List Hist) : descList (a ++ b) = descList a ++ descList b := by
  induction a with
  | nil => simp [descList]
  | cons x xs ih => simp [descList, ih]

theorem descList_flatten (L : List (List Hist)) : descList L.flatten = L.flatMap descList := by
  induction L with
  | nil => simp [descList]
  | cons a as ih => simp [descList_append_u, ih]

theorem descList_singleton (h : Hist) : descList [h] = h :: allDescendants h := by
  simp [descList]

theorem allDescendants_eq_u (h : Hist) : allDescendants h = descList h.children := by
  cases h; rw [allDescendants]; rfl

theorem allDescendants_buildHist (here : RelPath) (store : Option HistStore) (kids : List Hist) :
    allDescendants (buildHist here store kids) = descList kids := by
  unfold buildHist
  cases store <;> rw [allDescendants]

theorem buildHist_root_u (here : RelPath) (store : Option HistStore) (kids : List Hist) :
    (buildHist here store kids).root = here := by
  unfold buildHist
  cases store <;> rfl

/-- the value of a successful per-child result -/
def valOf (x : String × Except Err (List Hist)) : List Hist :=
  match x.2 with
  | .ok v => v
  | .error _ => []

theorem mapM_snd_ok (l : List (String × Except Err (List Hist))) (L : List (List Hist))
    (h : l.mapM (fun x => x.2) = .ok L) : L = l.map valOf ∧ ∀ x ∈ l, x.2 = .ok (valOf x) := by
  induction l generalizing L with
  | nil =>
    simp only [List.mapM_nil, pure, Except.pure, Except.ok.injEq] at h
    subst h
    exact ⟨rfl, by simp⟩
  | cons a as ih =>
    rw [List.mapM_cons] at h
    cases ha : a.2 with
    | error e => simp [ha, bind, Except.bind] at h
    | ok v =>
      cases hm : as.mapM (fun x => x.2) with
      | error e => simp [ha, hm, bind, Except.bind] at h
      | ok vs =>
        simp only [ha, hm, bind, Except.bind, pure, Except.pure, Except.ok.injEq] at h
        obtain ⟨h1, h2⟩ := ih vs hm
        subst h
        refine ⟨by simp [valOf, ha, h1], ?_⟩
        intro x hx
        rcases List.mem_cons.1 hx with rfl | hx
        · simp [valOf, ha]
        · exact h2 x hx

/-- the successful result of `findChildren` on a folder: the per-child values, sorted by name, concatenated -/
theorem findChildren_dir_ok (here : RelPath) (n : String) (cs : List Node) (h : Option HistStore) (kids : List Hist)
    (hk : findChildren here (.dir n cs h) = .ok kids) :
    kids = ((isort keyLe (cs.map (childPair here))).map valOf).flatten ∧
      ∀ c ∈ cs, (childPair here c).2 = .ok (valOf (childPair here c)) := by
  rw [findChildren_dir] at hk
  cases hm : (isort (fun (a b : String × Except Err (List Hist)) => strLe a.1 b.1) (cs.map (childPair here))).mapM
      (fun x => x.2) with
  | error e => simp [hm, Except.map] at hk
  | ok L =>
    simp only [hm, Except.map, Except.ok.injEq] at hk
    obtain ⟨h1, h2⟩ := mapM_snd_ok _ L hm
    refine ⟨by rw [← hk, h1], ?_⟩
    intro c hc
    exact h2 _ ((mem_isort _ _ _).2 (List.mem_map_of_mem hc))

theorem prefix_trans_append {a b c : RelPath} (h : (a ++ b) <+: c) : a <+: c :=
  (List.prefix_append a b).trans h

mutual
/-- every nested history found at or below a folder has its root strictly below that folder: under one of its
children -/
theorem findChildren_below_u (here : RelPath) : (t : Node) → ∀ kids, findChildren here t = .ok kids →
    ∀ d ∈ descList kids, ∃ c ∈ t.children, (here ++ [c.name]) <+: d.root
  | .file _ _ => by
    intro kids hk d hd
    simp only [findChildren, pure, Except.pure, Except.ok.injEq] at hk
    subst hk
    simp [descList] at hd
  | .dir n cs h => by
    intro kids hk d hd
    obtain ⟨h1, h2⟩ := findChildren_dir_ok here n cs h kids hk
    rw [h1, descList_flatten, List.mem_flatMap] at hd
    obtain ⟨v, hv, hdv⟩ := hd
    obtain ⟨x, hx, rfl⟩ := List.mem_map.1 hv
    rw [mem_isort] at hx
    obtain ⟨c, hc, rfl⟩ := List.mem_map.1 hx
    exact ⟨c, hc, childPair_below here cs c hc _ (h2 c hc) d hdv⟩
theorem childPair_below (here : RelPath) : (cs : List Node) → ∀ c ∈ cs, ∀ v, (childPair here c).2 = .ok v →
    ∀ d ∈ descList v, (here ++ [c.name]) <+: d.root
  | [] => by intro c hc; cases hc
  | c0 :: cs => by
    intro c hc v hv d hd
    rcases List.mem_cons.1 hc with heq | hc
    · rw [heq] at hv ⊢
      unfold childPair at hv
      dsimp only at hv
      cases hh : c0.hist with
      | none =>
        rw [hh] at hv
        dsimp only at hv
        obtain ⟨c2, -, hp⟩ := findChildren_below_u (here ++ [c0.name]) c0 v hv d hd
        exact prefix_trans_append hp
      | some s =>
        rw [hh] at hv
        dsimp only at hv
        cases hcs : checkStore (some s) with
        | error e => simp [hcs, bind, Except.bind] at hv
        | ok u =>
          cases hk : findChildren (here ++ [c0.name]) c0 with
          | error e => simp [hcs, hk, bind, Except.bind] at hv
          | ok kids =>
            simp only [hcs, hk, bind, Except.bind, pure, Except.pure, Except.ok.injEq] at hv
            subst hv
            rw [descList_singleton, allDescendants_buildHist] at hd
            rcases List.mem_cons.1 hd with rfl | hd
            · rw [buildHist_root_u]
              exact List.prefix_refl _
            · obtain ⟨c2, -, hp⟩ := findChildren_below_u (here ++ [c0.name]) c0 kids hk d hd
              exact prefix_trans_append hp
    · exact childPair_below here cs c hc v hv d hd
end


mutual
theorem allDescendants_reroot (pre : RelPath) : (h : Hist) →
    allDescendants (rerootH pre h) = (allDescendants h).map (rerootH pre)
  | .mk r g c e cs => by rw [rerootH, allDescendants, allDescendants, descList_reroot pre cs]
theorem descList_reroot (pre : RelPath) : (cs : List Hist) →
    descList (rerootL pre cs) = (descList cs).map (rerootH pre)
  | [] => rfl
  | c :: cs => by
    rw [rerootL, descList, descList, allDescendants_reroot pre c, descList_reroot pre cs]
    simp
end

theorem isPrefixOf_iff_u (a b : RelPath) : isPrefixOf a b = true ↔ a <+: b := by
  unfold isPrefixOf
  rw [Bool.and_eq_true, decide_eq_true_iff, beq_iff_eq, List.prefix_iff_eq_take]
  constructor
  · rintro ⟨-, h⟩; exact h.symm
  · intro h
    refine ⟨?_, h.symm⟩
    have := congrArg List.length h
    rw [List.length_take] at this
    omega

theorem pickStep_reroot (pre : RelPath) (init : Option Hist) (a : Hist) :
    pickStep (init.map (rerootH pre)) (rerootH pre a) = (pickStep init a).map (rerootH pre) := by
  cases init with
  | none => rfl
  | some b =>
    simp only [pickStep, Option.map_some, rerootH_root, List.length_append]
    by_cases h : a.root.length > b.root.length
    · have h' : pre.length + a.root.length > pre.length + b.root.length := by omega
      simp [h, h']
    · have h' : ¬ pre.length + a.root.length > pre.length + b.root.length := by omega
      simp [h, h']

theorem foldl_pickStep_reroot (pre : RelPath) (M : List Hist) (init : Option Hist) :
    (M.map (rerootH pre)).foldl pickStep (init.map (rerootH pre)) = (M.foldl pickStep init).map (rerootH pre) := by
  induction M generalizing init with
  | nil => rfl
  | cons a as ih =>
    rw [List.map_cons, List.foldl_cons, List.foldl_cons, pickStep_reroot, ih]

/-- picking among a shorter-rooted first candidate `c` followed by re-rooted candidates: the re-rooted pick, or `c`
when there are none -/
theorem foldl_pickStep_graft (pre : RelPath) (c : Hist) (M : List Hist)
    (hlen : ∀ m ∈ M, c.root.length < (rerootH pre m).root.length) :
    (M.map (rerootH pre)).foldl pickStep (some c) =
      some (match M.foldl pickStep none with
        | none => c
        | some y => rerootH pre y) := by
  cases M with
  | nil => rfl
  | cons a as =>
    rw [List.map_cons, List.foldl_cons, List.foldl_cons]
    have h1 : pickStep (some c) (rerootH pre a) = (some a).map (rerootH pre) := by
      have := hlen a (by simp)
      simp [pickStep, this]
    have h2 : pickStep none a = some a := rfl
    rw [h1, h2, foldl_pickStep_reroot]
    cases hres : as.foldl pickStep (some a) with
    | none =>
      have := ((foldl_pick_spec as (some a)).1.1 hres).2
      cases this
    | some y => rfl

theorem flatMap_unique {α β : Type} (l : List α) (g : α → List β) (a : α) (hnd : l.Nodup) (ha : a ∈ l)
    (h : ∀ x ∈ l, x ≠ a → g x = []) : l.flatMap g = g a := by
  induction l with
  | nil => cases ha
  | cons x xs ih =>
    rw [List.nodup_cons] at hnd
    rw [List.flatMap_cons]
    by_cases hx : x = a
    · subst hx
      have : xs.flatMap g = [] := by
        rw [List.flatMap_eq_nil_iff]
        intro y hy
        exact h y (by simp [hy]) (fun hyx => hnd.1 (hyx ▸ hy))
      rw [this, List.append_nil]
    · have ha' : a ∈ xs := by
        rcases List.mem_cons.1 ha with h1 | h1
        · exact absurd h1.symm hx
        · exact h1
      rw [h x (by simp) hx, List.nil_append]
      exact ih hnd.2 ha' (fun y hy => h y (by simp [hy]))

theorem updateAt_nil_u (f : Node → Node) (t : Node) : Node.updateAt f t [] = f t := by
  cases t <;> simp [Node.updateAt]

theorem updateKids_nil_eq_map (f : Node → Node) (n : String) (cs : List Node) :
    Node.updateKids f n [] cs = cs.map fun c => if c.name == n then f c else c := by
  induction cs with
  | nil => simp [Node.updateKids]
  | cons c cs ih => simp [Node.updateKids, ih, updateAt_nil_u]


/-- the sub-tree `inner` put in place of the child named `n` of the folder `outer` -/
def graft (outer : Node) (n : String) (inner : Node) : Node := Node.updateAt (fun _ => inner) outer [n]

theorem graft_dir (rn : String) (cs : List Node) (hs : Option HistStore) (n : String) (inner : Node) :
    graft (.dir rn cs hs) n inner = .dir rn (cs.map fun c => if c.name == n then inner else c) hs := by
  unfold graft
  rw [updateAt_dir_cons, updateKids_nil_eq_map]

/-- the per-child result for a sub-tree that has its own history and loads: that history, re-rooted at its name -/
theorem childPair_loaded (inner : Node) (s : HistStore) (hst : inner.hist = some s) (hin : Hist)
    (hl : loadHistory inner = .ok hin) :
    childPair [] inner = (inner.name, .ok [rerootH [inner.name] hin]) := by
  obtain ⟨kin, hk, rfl⟩ := loadHistory_ok_eq inner hin hl
  have hcs : checkStore (some s) = .ok () := by
    unfold loadHistory at hl
    rw [hst] at hl
    cases hc : checkStore (some s) with
    | error e => simp [hc, bind, Except.bind] at hl
    | ok u => rfl
  have hk' : findChildren ([] ++ [inner.name]) inner = .ok (kin.map (rerootH [inner.name])) := by
    have := findChildren_reroot [inner.name] [] inner
    rw [List.append_nil] at this
    rw [List.nil_append, this, hk]
    rfl
  unfold childPair
  rw [hst]
  dsimp only
  rw [hcs, hk']
  simp only [bind, Except.bind, pure, Except.pure, List.nil_append]
  have := buildHist_reroot [inner.name] [] (some s) kin
  rw [List.append_nil] at this
  rw [this]

/-- GRAFTING PRESERVES ROUTING.  Put a sub-tree `inner` that has its own history (and loads as `hin`) in place of the
child named `n` of a folder whose children have distinct names.  In the history `hout` the big tree loads as, a path
`n :: q` below the graft is owned by the history that owns `q` in `hin`, re-rooted under `n` — same generations,
same chain, same relative path. -/
theorem graft_route (rn : String) (cs : List Node) (hs : Option HistStore) (inner : Node) (s : HistStore)
    (hst : inner.hist = some s) (hnd : (cs.map Node.name).Nodup) (hmem : ∃ c ∈ cs, c.name = inner.name)
    (hin hout : Hist) (hlin : loadHistory inner = .ok hin)
    (hlout : loadHistory (graft (.dir rn cs hs) inner.name inner) = .ok hout) (q : RelPath) :
    route hout (inner.name :: q) = (rerootH [inner.name] (route hin q).1, (route hin q).2) := by
  generalize hn : inner.name = n at *
  rw [graft_dir] at hlout
  generalize hcs' : (cs.map fun c => if c.name == n then inner else c) = cs' at hlout
  -- the children of the grafted folder
  have hmem' : inner ∈ cs' := by
    obtain ⟨c, hc, hcn⟩ := hmem
    rw [← hcs']
    exact List.mem_map.2 ⟨c, hc, by simp [hcn]⟩
  have huniq : ∀ c' ∈ cs', c'.name = n → c' = inner := by
    intro c' hc' hcn
    rw [← hcs'] at hc'
    obtain ⟨c0, -, rfl⟩ := List.mem_map.1 hc'
    split
    · rfl
    · next hne =>
      rw [if_neg hne] at hcn
      simp [hcn] at hne
  have hnames : cs'.map Node.name = cs.map Node.name := by
    rw [← hcs', List.map_map]
    apply List.map_congr_left
    intro c _
    simp only [Function.comp]
    split
    · next h => rw [hn]; exact (by simpa using h : c.name = n).symm
    · rfl
  -- what the two trees load as
  obtain ⟨kout, hkout, rfl⟩ := loadHistory_ok_eq _ hout hlout
  obtain ⟨hkeq, hallok⟩ := findChildren_dir_ok [] rn cs' hs kout hkout
  have hroot_in : hin.root = [] := loadHistory_root inner hin hlin
  have hpair := childPair_loaded inner s hst hin hlin
  rw [hn] at hpair
  obtain ⟨kin, hkin, hin_eq⟩ := loadHistory_ok_eq inner hin hlin
  -- the candidates
  rw [route_unfold, route_unfold, allDescendants_buildHist, hkeq, descList_flatten, List.flatMap_map,
    List.filter_flatMap]
  have hsorted_nd : (isort keyLe (cs'.map (childPair []))).Nodup := by
    have hp : (isort keyLe (cs'.map (childPair []))).Perm (cs'.map (childPair [])) := isort_perm _ _
    rw [hp.nodup_iff]
    apply List.Nodup.of_map Prod.fst
    rw [List.map_map]
    have : (Prod.fst ∘ childPair []) = Node.name := by funext c; rfl
    rw [this, hnames]
    exact hnd
  have hone := flatMap_unique (isort keyLe (cs'.map (childPair [])))
    (fun x => (descList (valOf x)).filter fun c => !c.root.isEmpty && isPrefixOf c.root (n :: q))
    (childPair [] inner) hsorted_nd ((mem_isort _ _ _).2 (List.mem_map_of_mem hmem')) (by
      intro x hx hne
      rw [mem_isort] at hx
      obtain ⟨c', hc', rfl⟩ := List.mem_map.1 hx
      have hcn : c'.name ≠ n := fun h => hne (by rw [huniq c' hc' h])
      rw [List.filter_eq_nil_iff]
      intro d hd
      have hbelow := childPair_below [] cs' c' hc' _ (hallok c' hc') d hd
      rw [List.nil_append] at hbelow
      have : isPrefixOf d.root (n :: q) = false := by
        cases hp : isPrefixOf d.root (n :: q) with
        | false => rfl
        | true =>
          exfalso
          have h2 := hbelow.trans ((isPrefixOf_iff_u _ _).1 hp)
          rw [List.cons_prefix_cons] at h2
          exact hcn h2.1
      simp [this])

  rw [hone, hpair]
  simp only [valOf, descList_singleton, allDescendants_reroot]
  -- the history at the graft is a candidate; the deeper ones are the re-rooted candidates of the inner tree
  have hc0 : (!(rerootH [n] hin).root.isEmpty && isPrefixOf (rerootH [n] hin).root (n :: q)) = true := by
    rw [rerootH_root, hroot_in]
    simp [isPrefixOf]
  rw [List.filter_cons, if_pos hc0, List.filter_map]
  have hfilt : (allDescendants hin).filter
        ((fun c => !c.root.isEmpty && isPrefixOf c.root (n :: q)) ∘ rerootH [n]) =
      (allDescendants hin).filter fun c => !c.root.isEmpty && isPrefixOf c.root q := by
    apply List.filter_congr
    intro d hd
    have hne : d.root ≠ [] := by
      rw [hin_eq, allDescendants_buildHist] at hd
      obtain ⟨c2, -, hp⟩ := findChildren_below_u [] inner kin hkin d hd
      intro h0
      rw [h0, List.nil_append] at hp
      simp at hp
    simp only [Function.comp, rerootH_root]
    have h1 : ([n] ++ d.root).isEmpty = false := by simp
    have h2 : d.root.isEmpty = false := by cases hr : d.root <;> simp_all
    rw [h1, h2]
    simp only [Bool.not_false, Bool.true_and]
    rw [Bool.eq_iff_iff, isPrefixOf_iff_u, isPrefixOf_iff_u]
    simp
  rw [hfilt, List.foldl_cons]
  have hstart : pickStep none (rerootH [n] hin) = some (rerootH [n] hin) := rfl
  rw [hstart, foldl_pickStep_graft [n] (rerootH [n] hin)]
  · cases hres : ((allDescendants hin).filter fun c => !c.root.isEmpty && isPrefixOf c.root q).foldl pickStep none with
    | none =>
      simp only [rerootH_root, hroot_in]
      rfl
    | some y =>
      simp only [rerootH_root]
      rfl
  · intro m hm
    have hm' := (List.mem_filter.1 hm).2
    rw [rerootH_root, rerootH_root, hroot_in]
    have : m.root ≠ [] := by
      intro h0
      simp [h0] at hm'
    have : 0 < m.root.length := List.length_pos_iff.2 this
    simp
    omega


end MhlModel
