/-
Helper lemmas for C06seq: the append-only invariant over arbitrary sequences of `create` runs on a tree whose only
history is the one at the root.

Everything here is stated on the content of the root's `ascmhl` folder (`Option HistStore`); the tree-level
definitions (`Step`, `run`, `GoodHist`) and the property theorems are in MhlProps/C06seq.lean.
-/
import MhlProps.C05
import MhlProps.C06
import MhlProps.C12
import MhlProps.Proofs.SealVerifyLemmas

namespace MhlModel
open MhlProps

/-! ## A. what a flat tree loads as -/

/-- the loaded generations of the root's `ascmhl` folder (none = no folder) -/
def storeGens (hs : Option HistStore) : List LGen :=
  match hs with
  | none => []
  | some s => loadGens s

/-- the chain entries of the root's `ascmhl` folder -/
def storeChain (hs : Option HistStore) : List ChainEntry :=
  match hs with
  | none => []
  | some s => s.chain

theorem buildHist_flat_seq (hs : Option HistStore) :
    buildHist [] hs [] = .mk [] (storeGens hs) (storeChain hs) hs.isSome [] := by
  cases hs <;> rfl

/-- a tree without nested `ascmhl` folders loads iff the root folder's own checks pass, and then as the flat
history of the root folder -/
theorem loadHistory_noNested_seq (t : Node) (hn : noNested t = true) :
    loadHistory t = (checkStore t.hist).map fun _ => buildHist [] t.hist [] := by
  unfold loadHistory
  rw [findChildren_noNested t [] hn]
  cases checkStore t.hist <;> rfl

/-! ## B. what `create` writes is what a `commit` returned, for a session that carries the run's patterns -/

theorem touch_patterns_seq (s : Session) (r : RelPath) : (s.touch r).patterns = s.patterns := by
  unfold Session.touch; split <;> rfl

theorem put_patterns_seq (s : Session) (nl : NewList) : (s.put nl).patterns = s.patterns := by
  unfold Session.put; split <;> rfl

theorem sealFile_patterns_seq (H : HashFn) (h : Hist) (s : Session) (file : RelPath) (c : Bytes)
    (req : List String) : (sealFile H h s file c req).1.patterns = s.patterns := by
  unfold sealFile
  generalize route h file = x
  obtain ⟨h', hrel⟩ := x
  dsimp only
  generalize sealEntries h'.gens (posix hrel) (fun f => H f c) req = y
  obtain ⟨ents, res⟩ := y
  dsimp only
  split
  · rfl
  · simp only [put_patterns_seq, touch_patterns_seq]

theorem appendDirHashes_patterns_seq (h : Hist) (s : Session) (folder : RelPath)
    (hashes : List (String × String × String)) : (appendDirHashes h s folder hashes).patterns = s.patterns := by
  unfold appendDirHashes
  generalize route h folder = x
  obtain ⟨h', hrel⟩ := x
  dsimp only
  split
  · split
    · simp only [put_patterns_seq, touch_patterns_seq]
    · simp only [put_patterns_seq, touch_patterns_seq]
  · simp only [put_patterns_seq, touch_patterns_seq]

theorem createVisit_patterns_seq (env : Env) (t : Node) (h : Hist) (fmts : List String) (noDir : Bool)
    (st : CreateState) (v : Visit) :
    (createVisit env t h fmts noDir st v).session.patterns = st.session.patterns := by
  unfold createVisit
  dsimp only
  generalize hres : List.foldl _ (st, _) v.children = res
  have hP : res.1.session.patterns = st.session.patterns := by
    rw [← hres]
    refine foldl_inv_mem (fun (a : CreateState × List (String × DirCtx)) =>
      a.1.session.patterns = st.session.patterns) _ _ _ rfl ?_
    intro a b _ hP
    try dsimp only at hP ⊢
    split
    · split <;> exact hP
    · simp only [sealFile_patterns_seq]; exact hP
  rw [appendDirHashes_patterns_seq]
  cases noDir <;> exact hP

theorem detectRenames_patterns_seq (env : Env) (t : Node) (h : Hist) (s : Session) (newPaths notFound : List RelPath) :
    (detectRenames env t h s newPaths notFound).1.patterns = s.patterns := by
  unfold detectRenames
  refine foldl_inv_mem (fun (a : Session × List RelPath × List (String × String)) => a.1.patterns = s.patterns)
    _ _ _ rfl ?_
  intro a np _ hP
  refine foldl_inv_mem (fun (a : Session × List RelPath × List (String × String)) => a.1.patterns = s.patterns)
    _ _ _ hP ?_
  intro a nf _ hP
  obtain ⟨s', fo, ren⟩ := a
  dsimp only at hP ⊢
  generalize route h nf = x
  obtain ⟨oh, orel⟩ := x
  dsimp only
  split
  · exact hP
  · split
    · exact hP
    · next l r _ =>
      have hset : (if r.path == "." then
              match parentRoot h l.root with
              | some pr =>
                let pl := s'.get pr
                s'.put { pl with records := pl.records.map fun x =>
                  if x.path == posix (np.drop pr.length) then { x with prev := some (posix orel) } else x }
              | none => s'
            else
              s'.put { l with records := l.records.map fun x =>
                if x.path == r.path then { x with prev := some (posix orel) } else x }).patterns = s.patterns := by
        split
        · split
          · rw [put_patterns_seq]; exact hP
          · exact hP
        · rw [put_patterns_seq]; exact hP
      split
      · split
        · exact hset
        · exact hP
      · split
        · split
          · exact hset
          · exact hP
        · exact hP

theorem createFold_patterns_seq (env : Env) (t : Node) (h : Hist) (fmts : List String) (noDir : Bool)
    (vs : List Visit) (st : CreateState) :
    (vs.foldl (createVisit env t h fmts noDir) st).session.patterns = st.session.patterns :=
  foldl_inv_mem (fun (st' : CreateState) => st'.session.patterns = st.session.patterns) _ vs st rfl
    (fun b a _ hP => by rw [createVisit_patterns_seq]; exact hP)

theorem createFolder_written_pats_seq (env : Env) (t : Node) (o : CreateOpts) (rootHist : Hist)
    (hl : loadHistory t = .ok rootHist) :
    (createFolder env t o).written = [] ∨
      ∃ s, s.patterns = setPatterns (latestIgnore rootHist.gens) o.ignoreCli o.ignoreFile ∧
        commit rootHist s env.rootName env.stamp "in-place" none = .ok (createFolder env t o).written := by
  unfold createFolder
  simp only [hl]
  split
  · left; rfl
  · next ws hcm =>
    right
    refine ⟨_, ?_, hcm⟩
    split
    · rw [detectRenames_patterns_seq, createFold_patterns_seq]
    · rw [createFold_patterns_seq]

theorem createSingleFiles_written_pats_seq (env : Env) (t : Node) (o : CreateOpts) (rootHist : Hist)
    (hl : loadHistory t = .ok rootHist) :
    (createSingleFiles env t o).written = [] ∨
      ∃ s, s.patterns = setPatterns (latestIgnore rootHist.gens) o.ignoreCli o.ignoreFile ∧
        commit rootHist s env.rootName env.stamp "in-place" none = .ok (createSingleFiles env t o).written := by
  unfold createSingleFiles
  simp only [hl]
  split
  · left; rfl
  · next ws hcm =>
    right
    refine ⟨_, ?_, hcm⟩
    refine foldl_inv_mem (fun (a : Session × Nat × List String) =>
      a.1.patterns = setPatterns (latestIgnore rootHist.gens) o.ignoreCli o.ignoreFile) _ _ _ rfl ?_
    intro a p _ hP
    obtain ⟨s, failed, mism⟩ := a
    dsimp only at hP ⊢
    have := sealFile_patterns_seq env.H rootHist s p (fileContent t p) (isort strLe o.formats)
    generalize sealFile env.H rootHist s p (fileContent t p) (isort strLe o.formats) = x at this
    obtain ⟨s', res⟩ := x
    dsimp only at this ⊢
    split
    · split <;> (dsimp only; rw [this]; exact hP)
    · dsimp only; rw [this]; exact hP

/-! ## C. the root `ascmhl` folder in order, and one more generation -/

/-- the entry the chain holds for a loaded generation -/
def chainEntryOf (g : LGen) : ChainEntry := ⟨g.number, g.gen.fileName⟩

/-- the root `ascmhl` folder is in order: its checks pass, it loads as generations 1..n = `gs`, the chain has
one entry per generation (number, file name), every stored manifest is present and unaltered -/
def GoodStore (hs : Option HistStore) (n : Nat) (gs : List Generation) : Prop :=
  checkStore hs = .ok () ∧
  (storeGens hs).map (·.number) = List.range' 1 n ∧
  (storeGens hs).map (·.gen) = gs ∧
  storeChain hs = (storeGens hs).map chainEntryOf ∧
  ∀ s, hs = some s → ∀ g ∈ s.gens, g.state = .ok

theorem storeGens_getD_seq (hs : Option HistStore) : loadGens (hs.getD {}) = storeGens hs := by
  cases hs <;> rfl

theorem storeChain_getD_seq (hs : Option HistStore) : (hs.getD {}).chain = storeChain hs := by
  cases hs <;> rfl

theorem checkChain_of_checkStore_seq (hs : Option HistStore) (h : checkStore hs = .ok ()) :
    checkChain (hs.getD {}) = .ok () := by
  cases hs with
  | none => rfl
  | some s =>
    unfold checkStore at h
    simp only at h
    split at h
    · cases h
    · exact h

theorem goodStore_add_seq (hs : Option HistStore) (n : Nat) (gs : List Generation) (hg : GoodStore hs n gs)
    (w : Written) (hparse : parseGenName w.gen.fileName = some (n + 1)) (hstate : w.gen.state = .ok)
    (hnum : w.number = n + 1) :
    GoodStore (some ((hs.getD {}).add w)) (n + 1) (gs ++ [w.gen]) := by
  obtain ⟨hchk, hnums, hgens, hchain, hst⟩ := hg
  have hstS : ∀ g ∈ (hs.getD {}).gens, g.state = .ok := by
    cases hs with
    | none => intro g hg; cases hg
    | some s => exact hst s rfl
  have hcc := (C05.checkChain_ok_iff _).1 (checkChain_of_checkStore_seq hs hchk)
  have hmax : ∀ g ∈ loadGens (hs.getD {}), g.number < n + 1 := by
    intro g hg
    rw [storeGens_getD_seq] at hg
    have : g.number ∈ List.range' 1 n := hnums ▸ List.mem_map.2 ⟨g, hg, rfl⟩
    rw [List.mem_range'_1] at this
    omega
  have hload : storeGens (some ((hs.getD {}).add w)) = storeGens hs ++ [⟨n + 1, w.gen⟩] := by
    show loadGens _ = _
    rw [C06.loadGens_add_lt _ w (n + 1) hparse hstate hmax, storeGens_getD_seq]
  have hchainAdd : ((hs.getD {}).add w).chain = (hs.getD {}).chain ++ [⟨w.number, w.gen.fileName⟩] := rfl
  refine ⟨?_, ?_, ?_, ?_, ?_⟩
  · show (if !((hs.getD {}).add w).chainPresent then throw errNoChain else checkChain ((hs.getD {}).add w)) = _
    rw [if_neg (by simp [HistStore.add])]
    rw [C05.checkChain_ok_iff]
    intro e he
    -- whatever the chain entry names, the first stored manifest of that name is present and unaltered
    cases hf : ((hs.getD {}).add w).gens.find? (fun g => g.fileName == e.fileName) with
    | some g =>
      refine ⟨g, rfl, ?_⟩
      rcases (C06.mem_add_gens _ w g).1 (List.mem_of_find?_eq_some hf) with ⟨hg, -⟩ | rfl
      · exact hstS g hg
      · exact hstate
    | none =>
      exfalso
      have hnone := List.find?_eq_none.1 hf
      rw [hchainAdd, List.mem_append] at he
      rcases he with he | he
      · obtain ⟨g, hfg, -⟩ := hcc e he
        have hgn : g.fileName = e.fileName := by simpa using List.find?_some hfg
        by_cases hw : g.fileName = w.gen.fileName
        · exact hnone w.gen ((C06.mem_add_gens _ w _).2 (Or.inr rfl)) (by simp [← hw, hgn])
        · exact hnone g ((C06.mem_add_gens _ w _).2 (Or.inl ⟨List.mem_of_find?_eq_some hfg, hw⟩)) (by simp [hgn])
      · simp only [List.mem_singleton] at he
        subst he
        exact hnone w.gen ((C06.mem_add_gens _ w _).2 (Or.inr rfl)) (by simp)
  · rw [hload, List.map_append, hnums, List.range'_1_concat]
    simp [Nat.add_comm]
  · rw [hload, List.map_append, hgens]; rfl
  · rw [hload, List.map_append, ← hchain]
    show (hs.getD {}).chain ++ _ = _
    rw [storeChain_getD_seq, hnum]; rfl
  · intro s hs' g hg
    cases hs'
    rcases (C06.mem_add_gens _ w g).1 hg with ⟨hg, -⟩ | rfl
    · exact hstS g hg
    · exact hstate

/-! ## D. the commit on a folder in order -/

/-- the pattern list of the latest stored generation ([] when there is none) -/
def lastIgnore (gs : List Generation) : List String := (gs.getLast?.map (·.ignore)).getD []

theorem latestIgnore_map_seq (gens : List LGen) :
    latestIgnore gens = (gens.map (·.gen)).getLast?.map (·.ignore) := by
  unfold latestIgnore
  rw [List.getLast?_map]
  cases gens.getLast? <;> rfl

/-- the list a new generation carries extends the previous generation's list, provided that one is duplicate-free
(which every list written by the tool is) -/
theorem setPatterns_extends_last_seq (gs : List Generation) (pats file : List String)
    (hnd : (lastIgnore gs).Nodup) :
    lastIgnore gs <+: setPatterns (gs.getLast?.map (·.ignore)) pats file := by
  unfold lastIgnore at hnd ⊢
  cases hl : gs.getLast? with
  | none => exact List.nil_prefix
  | some g =>
    rw [hl] at hnd
    simp only [Option.map_some, Option.getD_some] at hnd ⊢
    by_cases hne : g.ignore = []
    · rw [hne]; exact List.nil_prefix
    · exact C12.setPatterns_keeps_previous g.ignore pats file hne hnd

theorem mem_setPatterns_of_base_seq (ex : Option (List String)) (cli file : List String) (x : String)
    (h : x ∈ basePatterns ex) : x ∈ setPatterns ex cli file := by
  unfold setPatterns
  have h1 : x ∈ (if cli.isEmpty then basePatterns ex else appendPatterns (basePatterns ex) cli) := by
    split
    · exact h
    · exact (C12.mem_appendPatterns _ _ _).2 (Or.inl h)
  simp only
  split
  · exact h1
  · exact (C12.mem_appendPatterns _ _ _).2 (Or.inl h1)

/-- no recorded pattern is ever lost, duplicates or not -/
theorem setPatterns_contains_last_seq (gs : List Generation) (pats file : List String) (p : String)
    (hp : p ∈ lastIgnore gs) : p ∈ setPatterns (gs.getLast?.map (·.ignore)) pats file := by
  unfold lastIgnore at hp
  cases hl : gs.getLast? with
  | none => rw [hl] at hp; cases hp
  | some g =>
    rw [hl] at hp
    simp only [Option.map_some, Option.getD_some] at hp ⊢
    apply mem_setPatterns_of_base_seq
    unfold basePatterns
    simp only
    split
    · next he => rw [List.isEmpty_iff] at he; rw [he] at hp; cases hp
    · exact (C12.mem_appendPatterns _ _ _).2 (Or.inr hp)


/-- the commit of a flat history on a folder in order: nothing, or exactly generation n+1 with the generated name -/
theorem commit_goodStore_seq (hs : Option HistStore) (n : Nat) (gs : List Generation) (hg : GoodStore hs n gs)
    (s : Session) (rn stamp : String) (hrn : '\n' ∉ rn.toList) (hstamp : '\n' ∉ stamp.toList)
    (ws : List Written) (hcm : commit (buildHist [] hs []) s rn stamp "in-place" none = .ok ws) :
    ws = [] ∨ ∃ w, ws = [w] ∧ w.histRoot = [] ∧ w.number = n + 1 ∧
      w.gen.fileName = genFileName (n + 1) rn stamp ∧ parseGenName w.gen.fileName = some (n + 1) ∧
      w.gen.state = .ok ∧ w.gen.ignore = setPatterns (gs.getLast?.map (·.ignore)) s.patterns [] := by
  obtain ⟨hchk, hnums, hgens, hchain, hst⟩ := hg
  rw [buildHist_flat_seq] at hcm
  rcases commit_flat _ rfl s rn stamp "in-place" none ws hcm with ⟨h0, -⟩ | ⟨w, hw, hone⟩
  · exact Or.inl h0
  · right
    refine ⟨w, hw, ?_⟩
    obtain ⟨hnum, hroot, hname⟩ := C06.writeOne_number _ s rn stamp "in-place" _ [] w hone
    obtain ⟨hstate, -, -⟩ := C06.writeOne_state _ s rn stamp "in-place" none _ [] w hone
    have hign := C12.written_ignore _ s rn stamp "in-place" none _ [] w hone
    have hlat : latestGenerationNumber (storeGens hs) = n := C06.latest_of_contiguous _ n hnums
    simp only [Hist.gens, Hist.root] at hnum hroot hname hign
    rw [hlat] at hnum
    rw [hnum] at hname
    simp only [List.getLast?_nil, Option.getD_none] at hname
    refine ⟨hroot, hnum, hname, ?_, hstate, ?_⟩
    · rw [hname]; exact C06.parseGenName_genFileName _ _ _ hrn hstamp
    · rw [hign, latestIgnore_map_seq, hgens]


/-! ## E. the chain of a list of generations; names and numbers -/

/-- the chain that belongs to the generations `gs`, numbered from `k` -/
def chainFrom (k : Nat) : List Generation → List ChainEntry
  | [] => []
  | g :: gs => ⟨k, g.fileName⟩ :: chainFrom (k + 1) gs

theorem chainFrom_append (k : Nat) (a b : List Generation) :
    chainFrom k (a ++ b) = chainFrom k a ++ chainFrom (k + a.length) b := by
  induction a generalizing k with
  | nil => rfl
  | cons x xs ih =>
    simp only [List.cons_append, chainFrom, ih, List.length_cons]
    rw [show k + 1 + xs.length = k + (xs.length + 1) by omega]

theorem chainFrom_prefix (k : Nat) (a b : List Generation) (h : a <+: b) : chainFrom k a <+: chainFrom k b := by
  obtain ⟨c, rfl⟩ := h
  rw [chainFrom_append]
  exact List.prefix_append _ _

theorem chainFrom_length (k : Nat) (a : List Generation) : (chainFrom k a).length = a.length := by
  induction a generalizing k with
  | nil => rfl
  | cons x xs ih => simp [chainFrom, ih]

theorem chainFrom_seq (k : Nat) (a : List Generation) : (chainFrom k a).map (·.seq) = List.range' k a.length := by
  induction a generalizing k with
  | nil => rfl
  | cons x xs ih => simp [chainFrom, ih, List.range'_succ]

theorem chainFrom_names (k : Nat) (a : List Generation) :
    (chainFrom k a).map (·.fileName) = a.map (·.fileName) := by
  induction a generalizing k with
  | nil => rfl
  | cons x xs ih => simp [chainFrom, ih]

theorem map_chainEntryOf_seq (l : List LGen) (k n : Nat) (h : l.map (·.number) = List.range' k n) :
    l.map chainEntryOf = chainFrom k (l.map (·.gen)) := by
  induction l generalizing k n with
  | nil => rfl
  | cons x xs ih =>
    cases n with
    | zero => simp at h
    | succ m =>
      rw [List.range'_succ] at h
      simp only [List.map_cons, List.cons.injEq] at h
      simp only [List.map_cons, chainFrom, ih (k + 1) m h.2, chainEntryOf, h.1]

/-- a loaded generation is numbered by its file name -/
theorem loadGens_parse_seq (s : HistStore) : ∀ g ∈ loadGens s, parseGenName g.gen.fileName = some g.number := by
  intro g hg
  unfold loadGens at hg
  rw [mem_isort_n] at hg
  obtain ⟨x, -, hx⟩ := List.mem_filterMap.1 hg
  split at hx
  · cases hx
  · cases hp : parseGenName x.fileName with
    | none => rw [hp] at hx; cases hx
    | some k => rw [hp] at hx; cases hx; exact hp

theorem storeGens_parse_seq (hs : Option HistStore) :
    ∀ g ∈ storeGens hs, parseGenName g.gen.fileName = some g.number := by
  cases hs with
  | none => intro g hg; cases hg
  | some s => exact loadGens_parse_seq s


end MhlModel
