/-
Lemmas for C11 (every written file validates against the published schemas).

Part 1: GENERAL lemmas about the generic fuel-driven matcher of MhlModel/XsdCore.lean, for an arbitrary schema.
  All of them have the shape "for every fuel f ≥ K the matcher returns …" (`EvValid`, `EvPart`, `EvSeq`), with an
  explicit bound K, so they compose without a fuel-monotonicity lemma.  (Monotonicity in fuel is FALSE for this
  matcher in general, see `fuel_not_monotone` in MhlProps/C11.lean: `none` "ran out of fuel" and `none` "no match" are
  the same value, and an optional particle turns the former into "skip".)
Part 2: lexical lemmas (`toString n` is an xs:integer).
Part 3: a `strLe`-sorted duplicate-free list of supported formats is a sub-list of the schema order.
-/
import MhlModel.Gen.Xsd
import MhlProps.Proofs.PermLemmas

namespace MhlProps.C11
open MhlModel MhlModel.Xml MhlModel.Xsd MhlModel.Gen

/-! ## Part 1: the generic matcher -/

/-- `e` is a valid element of type `ty` for every fuel ≥ K -/
def EvValid (K : Nat) (sch : Schema) (ty : String) (e : Elem) : Prop :=
  ∀ f, K ≤ f → validElem f sch ty e = true

/-- the particle `p` consumes `cs` down to `rest` for every fuel ≥ K -/
def EvPart (K : Nat) (sch : Schema) (p : Particle) (cs rest : List Elem) : Prop :=
  ∀ f, K ≤ f → matchParticle f sch p cs = some rest

/-- the particle sequence `ps` consumes `cs` down to `rest` for every fuel ≥ K -/
def EvSeq (K : Nat) (sch : Schema) (ps : List Particle) (cs rest : List Elem) : Prop :=
  ∀ f, K ≤ f → matchSeq f sch ps cs = some rest

theorem EvValid.mono {K K' : Nat} {sch : Schema} {ty : String} {e : Elem} (h : EvValid K sch ty e) (hk : K ≤ K') :
    EvValid K' sch ty e := fun f hf => h f (Nat.le_trans hk hf)

theorem EvPart.mono {K K' : Nat} {sch : Schema} {p : Particle} {cs rest : List Elem} (h : EvPart K sch p cs rest)
    (hk : K ≤ K') : EvPart K' sch p cs rest := fun f hf => h f (Nat.le_trans hk hf)

theorem EvSeq.mono {K K' : Nat} {sch : Schema} {ps : List Particle} {cs rest : List Elem}
    (h : EvSeq K sch ps cs rest) (hk : K ≤ K') : EvSeq K' sch ps cs rest := fun f hf => h f (Nat.le_trans hk hf)

/-- the tag of the first element of `cs`, if any, is not `name` -/
def HeadNe (name : String) (cs : List Elem) : Prop := cs.head?.map Elem.tag ≠ some name

theorem headNe_nil (name : String) : HeadNe name [] := by simp [HeadNe]

theorem headNe_cons {name : String} {c : Elem} {cs : List Elem} (h : c.tag ≠ name) : HeadNe name (c :: cs) := by
  simpa [HeadNe] using h

/-- the `one` of an element particle -/
def oneElem (f : Nat) (sch : Schema) (name ty : String) : List Elem → Option (List Elem) :=
  fun cs => match cs with
    | c :: rest => if c.tag == name && validElem f sch ty c then some rest else none
    | [] => none

theorem matchParticle_elem (f : Nat) (sch : Schema) (name ty : String) (mn : Nat) (mx : Option Nat) (cs : List Elem) :
    matchParticle (f + 1) sch (.elem name ty mn mx) cs = matchRepeat f sch (oneElem f sch name ty) mn mx cs 0 := by
  rw [matchParticle.eq_2]; rfl

theorem oneElem_hit {f : Nat} {sch : Schema} {name ty : String} {c : Elem} (rest : List Elem) (ht : c.tag = name)
    (hv : validElem f sch ty c = true) : oneElem f sch name ty (c :: rest) = some rest := by
  simp [oneElem, ht, hv]

theorem oneElem_miss {f : Nat} {sch : Schema} {name ty : String} {cs : List Elem} (h : HeadNe name cs) :
    oneElem f sch name ty cs = none := by
  cases cs with
  | nil => rfl
  | cons c rest =>
    have : c.tag ≠ name := by simpa [HeadNe] using h
    simp [oneElem, this]

/-! ### `matchRepeat` -/

/-- one iteration that is also the last one allowed (`max = 1`) -/
theorem matchRepeat_once (f : Nat) (sch : Schema) (one : List Elem → Option (List Elem)) (mn : Nat)
    (cs rest : List Elem) (hmn : mn ≤ 1) (h1 : one cs = some rest) :
    matchRepeat (f + 2) sch one mn (some 1) cs 0 = some rest := by
  rw [matchRepeat.eq_2]
  simp only [h1]
  by_cases hlt : rest.length < cs.length
  · simp only [hlt, if_true]
    rw [matchRepeat.eq_2]; simp
  · simp [hlt, hmn]

/-- no (further) iteration possible and the minimum is reached -/
theorem matchRepeat_stop (f : Nat) (sch : Schema) (one : List Elem → Option (List Elem)) (mn : Nat) (mx : Option Nat)
    (cs : List Elem) (done : Nat) (hmn : mn ≤ done) (h1 : one cs = none) :
    matchRepeat (f + 1) sch one mn mx cs done = some cs := by
  cases mx with
  | none => rw [matchRepeat.eq_3]; simp [h1, hmn]
  | some m =>
    rw [matchRepeat.eq_2]
    by_cases hm : done ≥ m
    · simp [hm]
    · simp [hm, h1, hmn]

/-- unbounded repetition over a block `l` of elements each of which `one` consumes, followed by `rest` on which
`one` fails -/
theorem matchRepeat_many (sch : Schema) (one : List Elem → Option (List Elem)) (mn : Nat) (rest : List Elem)
    (hrest : one rest = none) :
    ∀ (l : List Elem) (f done : Nat), (∀ c ∈ l, ∀ tl, one (c :: tl) = some tl) → mn ≤ done + l.length →
      l.length < f → matchRepeat f sch one mn none (l ++ rest) done = some rest := by
  intro l
  induction l with
  | nil =>
    intro f done _ hmn hf
    obtain ⟨f', rfl⟩ : ∃ f', f = f' + 1 := ⟨f - 1, by simp at hf; omega⟩
    simpa using matchRepeat_stop f' sch one mn none rest done (by simpa using hmn) hrest
  | cons c l ih =>
    intro f done hone hmn hf
    obtain ⟨f', rfl⟩ : ∃ f', f = f' + 1 := ⟨f - 1, by simp at hf; omega⟩
    rw [List.cons_append, matchRepeat.eq_3]
    simp only [hone c (List.mem_cons_self ..) (l ++ rest)]
    have hlt : (l ++ rest).length < (c :: (l ++ rest)).length := by simp
    simp only [hlt, if_true]
    exact ih f' (done + 1) (fun c' hc' => hone c' (List.mem_cons_of_mem _ hc'))
      (by simp at hmn; omega) (by simp at hf; omega)

/-! ### element particles -/

/-- a required-or-optional single element that is there -/
theorem evPart_elem_hit {K : Nat} {sch : Schema} {name ty : String} {c : Elem} (mn : Nat) (rest : List Elem)
    (hmn : mn ≤ 1) (ht : c.tag = name) (hv : EvValid K sch ty c) :
    EvPart (K + 3) sch (.elem name ty mn (some 1)) (c :: rest) rest := by
  intro f hf
  obtain ⟨f', rfl⟩ : ∃ f', f = f' + 3 := ⟨f - 3, by omega⟩
  rw [matchParticle_elem]
  exact matchRepeat_once f' sch _ mn _ rest hmn (oneElem_hit rest ht (hv _ (by omega)))

/-- an optional element that is not there -/
theorem evPart_elem_skip (sch : Schema) (name ty : String) (mx : Option Nat) {cs : List Elem} (h : HeadNe name cs) :
    EvPart 2 sch (.elem name ty 0 mx) cs cs := by
  intro f hf
  obtain ⟨f', rfl⟩ : ∃ f', f = f' + 2 := ⟨f - 2, by omega⟩
  rw [matchParticle_elem]
  exact matchRepeat_stop f' sch _ 0 mx cs 0 (Nat.le_refl _) (oneElem_miss h)

/-- `minOccurs = mn`, `maxOccurs = unbounded`: a block of at least `mn` valid elements of that name -/
theorem evPart_elem_many {K : Nat} {sch : Schema} {name ty : String} (mn : Nat) (l rest : List Elem)
    (hl : ∀ c ∈ l, c.tag = name ∧ EvValid K sch ty c) (hmn : mn ≤ l.length) (hrest : HeadNe name rest) :
    EvPart (K + l.length + 2) sch (.elem name ty mn none) (l ++ rest) rest := by
  intro f hf
  obtain ⟨f', rfl⟩ : ∃ f', f = f' + 1 := ⟨f - 1, by omega⟩
  rw [matchParticle_elem]
  refine matchRepeat_many sch _ mn rest (oneElem_miss hrest) l f' 0 ?_ (by omega) (by omega)
  intro c hc tl
  exact oneElem_hit tl (hl c hc).1 ((hl c hc).2 _ (by omega))

/-! ### sequences -/

theorem evSeq_nil (sch : Schema) (cs : List Elem) : EvSeq 1 sch [] cs cs := by
  intro f hf
  obtain ⟨f', rfl⟩ : ∃ f', f = f' + 1 := ⟨f - 1, by omega⟩
  rw [matchSeq.eq_2]

theorem evSeq_cons {K : Nat} {sch : Schema} {p : Particle} {ps : List Particle} {cs mid rest : List Elem}
    (hp : EvPart K sch p cs mid) (hps : EvSeq K sch ps mid rest) : EvSeq (K + 1) sch (p :: ps) cs rest := by
  intro f hf
  obtain ⟨f', rfl⟩ : ∃ f', f = f' + 1 := ⟨f - 1, by omega⟩
  rw [matchSeq.eq_3, hp f' (by omega)]
  exact hps f' (by omega)

/-- `evSeq_cons` with independent bounds -/
theorem evSeq_cons' {K K1 K2 : Nat} {sch : Schema} {p : Particle} {ps : List Particle} {cs rest : List Elem}
    (mid : List Elem) (hp : EvPart K1 sch p cs mid) (hps : EvSeq K2 sch ps mid rest) (h1 : K1 < K) (h2 : K2 < K) :
    EvSeq K sch (p :: ps) cs rest := by
  obtain ⟨K', rfl⟩ : ∃ K', K = K' + 1 := ⟨K - 1, by omega⟩
  exact evSeq_cons (hp.mono (by omega)) (hps.mono (by omega))

/-- `<xs:sequence>` with the default occurrence 1..1 -/
theorem evPart_seq {K : Nat} {sch : Schema} {ps : List Particle} {cs rest : List Elem} (h : EvSeq K sch ps cs rest) :
    EvPart (K + 3) sch (.seq ps 1 (some 1)) cs rest := by
  intro f hf
  obtain ⟨f', rfl⟩ : ∃ f', f = f' + 3 := ⟨f - 3, by omega⟩
  rw [matchParticle.eq_3]
  exact matchRepeat_once f' sch _ 1 cs rest (Nat.le_refl _) (h _ (by omega))

/-- A sequence of OPTIONAL single elements `names.map (· 0..1)` of one type accepts every block of valid elements whose
tags form a sub-list of `names` (same order, no repetition), provided what follows does not start with one of the
names. -/
theorem evSeq_optionals {K : Nat} (sch : Schema) (ty : String) (rest : List Elem) :
    ∀ (names : List String), names.Nodup → (∀ n ∈ names, HeadNe n rest) →
    ∀ (es : List Elem), (es.map Elem.tag).Sublist names → (∀ e ∈ es, EvValid K sch ty e) →
      EvSeq (K + names.length + 3) sch (names.map fun n => .elem n ty 0 (some 1)) (es ++ rest) rest := by
  intro names
  induction names with
  | nil =>
    intro _ _ es hsub _
    have : es = [] := by simpa using hsub
    subst this
    exact (evSeq_nil sch rest).mono (by omega)
  | cons n ns ih =>
    intro hnd hrest es hsub hval
    rw [List.nodup_cons] at hnd
    have hrest' : ∀ m ∈ ns, HeadNe m rest := fun m hm => hrest m (List.mem_cons_of_mem _ hm)
    rw [List.map_cons]
    cases es with
    | nil =>
      have h1 : EvPart 2 sch (.elem n ty 0 (some 1)) ([] ++ rest) ([] ++ rest) :=
        evPart_elem_skip sch n ty (some 1) (by simpa using hrest n (List.mem_cons_self ..))
      have h2 := ih hnd.2 hrest' [] (by simp) (by simp)
      exact (evSeq_cons (h1.mono (by omega)) h2).mono (by simp; omega)
    | cons e es =>
      rw [List.map_cons] at hsub
      cases hsub with
      | cons _ hsub' =>
        -- `e` is not an `n`: skip the particle
        have hmem : e.tag ∈ ns := hsub'.subset (List.mem_cons_self ..)
        have hne : e.tag ≠ n := fun h => hnd.1 (h ▸ hmem)
        have h1 : EvPart 2 sch (.elem n ty 0 (some 1)) (e :: es ++ rest) (e :: es ++ rest) :=
          evPart_elem_skip sch n ty (some 1) (headNe_cons hne)
        have h2 := ih hnd.2 hrest' (e :: es) (by simpa using hsub') hval
        exact (evSeq_cons (h1.mono (by omega)) h2).mono (by simp; omega)
      | cons_cons _ hsub' =>
        have h1 : EvPart (K + 3) sch (.elem e.tag ty 0 (some 1)) (e :: (es ++ rest)) (es ++ rest) :=
          evPart_elem_hit 0 _ (by omega) rfl (hval e (List.mem_cons_self ..))
        have h2 := ih hnd.2 hrest' es hsub' (fun e' he' => hval e' (List.mem_cons_of_mem _ he'))
        exact (evSeq_cons (h1.mono (by omega)) h2).mono (by simp; omega)

/-! ### choice -/

/-- the `one` of `<xs:choice maxOccurs="unbounded">` over single elements: an element that is a valid instance of one
of the alternatives (first by name) is consumed -/
theorem matchChoice_hit {K : Nat} (sch : Schema) (c : Elem) (tl : List Elem) :
    ∀ (alts : List (String × String)) (ty : String), alookup c.tag alts = some ty → EvValid K sch ty c →
    ∀ f, K + alts.length + 3 ≤ f →
      matchChoice f sch (alts.map fun a => .elem a.1 a.2 1 (some 1)) (c :: tl) = some tl := by
  intro alts
  induction alts with
  | nil => intro ty h; simp [alookup] at h
  | cons a alts ih =>
    intro ty hlook hv f hf
    obtain ⟨f', rfl⟩ : ∃ f', f = f' + 1 := ⟨f - 1, by omega⟩
    obtain ⟨n, t⟩ := a
    rw [List.map_cons, matchChoice.eq_3]
    by_cases hn : n = c.tag
    · have hty : t = ty := by simpa [alookup, hn] using hlook
      subst hty
      have := evPart_elem_hit (sch := sch) (name := n) 1 tl (Nat.le_refl _) hn.symm hv f' (by simp at hf; omega)
      simp [this]
    · have hlook' : alookup c.tag alts = some ty := by simpa [alookup, hn] using hlook
      have hmiss : matchParticle f' sch (.elem n t 1 (some 1)) (c :: tl) = none := by
        obtain ⟨f'', rfl⟩ : ∃ f'', f' = f'' + 2 := ⟨f' - 2, by simp at hf; omega⟩
        rw [matchParticle_elem, matchRepeat.eq_2]
        simp [oneElem_miss (headNe_cons (Ne.symm hn))]
      simp only [hmiss]
      exact ih ty hlook' hv f' (by simp at hf; omega)

theorem matchChoice_nil_children (sch : Schema) :
    ∀ (alts : List (String × String)) (f : Nat),
      matchChoice f sch (alts.map fun a => .elem a.1 a.2 1 (some 1)) [] = none := by
  intro alts
  induction alts with
  | nil => intro f; cases f <;> simp [matchChoice]
  | cons a alts ih =>
    intro f
    cases f with
    | zero => simp [matchChoice]
    | succ f =>
      rw [List.map_cons, matchChoice.eq_3]
      have hmiss : matchParticle f sch (.elem a.1 a.2 1 (some 1)) [] = none := by
        cases f with
        | zero => simp [matchParticle]
        | succ f =>
          rw [matchParticle_elem]
          cases f with
          | zero => simp [matchRepeat]
          | succ f => rw [matchRepeat.eq_2]; simp [oneElem]
      simp only [hmiss]
      exact ih f

/-- `<xs:choice minOccurs="1" maxOccurs="unbounded">` over single elements: a NON-EMPTY list of children each of which is
a valid instance of the alternative of its name -/
theorem evPart_choice_many {K : Nat} (sch : Schema) (alts : List (String × String)) (l : List Elem)
    (hl : ∀ c ∈ l, ∃ ty, alookup c.tag alts = some ty ∧ EvValid K sch ty c) (hne : l ≠ []) :
    EvPart (K + alts.length + l.length + 5) sch (.choice (alts.map fun a => .elem a.1 a.2 1 (some 1)) 1 none) l [] := by
  intro f hf
  obtain ⟨f', rfl⟩ : ∃ f', f = f' + 1 := ⟨f - 1, by omega⟩
  rw [matchParticle.eq_4]
  have := matchRepeat_many sch (fun cs => matchChoice f' sch (alts.map fun a => .elem a.1 a.2 1 (some 1)) cs) 1 []
    (matchChoice_nil_children sch alts f') l f' 0 ?_ ?_ (by omega)
  · simpa using this
  · intro c hc tl
    obtain ⟨ty, h1, h2⟩ := hl c hc
    exact matchChoice_hit sch c tl alts ty h1 h2 f' (by omega)
  · cases l with
    | nil => exact absurd rfl hne
    | cons _ _ => simp

/-! ### complex types -/

theorem evValid_complex {K : Nat} {sch : Schema} {ty : String} {e : Elem} {p : Particle} {attrs : List AttrDecl}
    (hl : lookupType sch ty = some (.complex p attrs)) (ht : isBlank e.text = true)
    (ha : validAttrs sch attrs e.attrs = true) (hp : EvPart K sch p e.children []) : EvValid (K + 1) sch ty e := by
  intro f hf
  obtain ⟨f', rfl⟩ : ∃ f', f = f' + 1 := ⟨f - 1, by omega⟩
  rw [validElem.eq_2, hl]
  simp [ht, ha, hp f' (by omega)]

theorem evValid_simpleContent {sch : Schema} {ty : String} {e : Elem} {base : String} {attrs : List AttrDecl}
    (hl : lookupType sch ty = some (.simpleContent base attrs)) (hc : e.children = [])
    (ha : validAttrs sch attrs e.attrs = true) (ht : validText sch base (e.text.getD "") = true) :
    EvValid 1 sch ty e := by
  intro f hf
  obtain ⟨f', rfl⟩ : ∃ f', f = f' + 1 := ⟨f - 1, by omega⟩
  rw [validElem.eq_2, hl]
  simp [hc, ha, ht]

theorem evValid_simple {sch : Schema} {ty : String} {e : Elem} {t : SimpleType}
    (hl : lookupType sch ty = some (.simple t)) (hc : e.children = []) (ha : e.attrs = [])
    (ht : validSimple t (e.text.getD "") = true) : EvValid 1 sch ty e := by
  intro f hf
  obtain ⟨f', rfl⟩ : ∃ f', f = f' + 1 := ⟨f - 1, by omega⟩
  rw [validElem.eq_2, hl]
  simp [hc, ha, ht]

theorem evValid_builtin {sch : Schema} {ty : String} {e : Elem}
    (hl : lookupType sch ty = none) (hc : e.children = []) (ha : e.attrs = [])
    (ht : validSimple (.base ty) (e.text.getD "") = true) : EvValid 1 sch ty e := by
  intro f hf
  obtain ⟨f', rfl⟩ : ∃ f', f = f' + 1 := ⟨f - 1, by omega⟩
  rw [validElem.eq_2, hl]
  simp [hc, ha, ht]

/-! ### size of a tree -/

theorem sizeList_append (a b : List Elem) : Elem.size.sizeList (a ++ b) = Elem.size.sizeList a + Elem.size.sizeList b := by
  induction a with
  | nil => simp [Elem.size.sizeList]
  | cons c cs ih => simp [Elem.size.sizeList, ih]; omega

theorem size_pos (e : Elem) : 1 ≤ Elem.size e := by
  cases e; simp [Elem.size]

theorem length_le_sizeList (l : List Elem) : l.length ≤ Elem.size.sizeList l := by
  induction l with
  | nil => simp
  | cons c cs ih => have := size_pos c; simp [Elem.size.sizeList]; omega

theorem size_mk (t : String) (a : List (String × String)) (x : Option String) (cs : List Elem) :
    Elem.size (.mk t a x cs) = 1 + Elem.size.sizeList cs := by simp [Elem.size]


/-! ## Part 2: lexical lemmas -/

theorem isDigitC_of_isDigit {c : Char} (h : c.isDigit = true) : isDigitC c = true := by
  simp [Char.isDigit] at h
  simp [isDigitC, Char.le_def, h]

theorem isInteger_toString (n : Nat) : isInteger (toString n) = true := by
  have hl : (toString n).toList = Nat.toDigits 10 n := by simp
  have hd : ∀ c ∈ Nat.toDigits 10 n, isDigitC c = true := fun c hc =>
    isDigitC_of_isDigit (Nat.isDigit_of_mem_toDigits (by omega) (by omega) hc)
  have hne : Nat.toDigits 10 n ≠ [] := Nat.toDigits_ne_nil
  unfold isInteger
  rw [hl]
  cases hds : Nat.toDigits 10 n with
  | nil => exact absurd hds hne
  | cons c cs =>
    rw [hds] at hd
    have hc := hd c (List.mem_cons_self ..)
    have hp : c ≠ '+' := by rintro rfl; simp [isDigitC] at hc
    have hm : c ≠ '-' := by rintro rfl; simp [isDigitC] at hc
    have hall : (c :: cs).all isDigitC = true := List.all_eq_true.2 hd
    dsimp only
    split
    · next h => cases h; exact absurd rfl hp
    · next h => cases h; exact absurd rfl hm
    · simp [hall]

/-! ## Part 3: the alphabetical order of the writer is the order of the schema -/

/-- the order the schemas list the format elements in -/
def fmtOrder : List String := ["c4", "md5", "sha1", "xxh128", "xxh3", "xxh64"]

theorem fmtOrder_sorted : fmtOrder.Pairwise (· < ·) := by decide

theorem sublist_of_pairwise_lt : ∀ (L l : List String), l.Pairwise (· < ·) → L.Pairwise (· < ·) → (∀ x ∈ l, x ∈ L) →
    l.Sublist L := by
  intro L
  induction L with
  | nil =>
    intro l _ _ hsub
    cases l with
    | nil => exact List.Sublist.slnil
    | cons a _ => exact absurd (hsub a (List.mem_cons_self ..)) (by simp)
  | cons b L ih =>
    intro l hl hL hsub
    cases l with
    | nil => exact List.nil_sublist _
    | cons a l =>
      rw [List.pairwise_cons] at hl hL
      by_cases hab : a = b
      · subst hab
        refine List.Sublist.cons_cons _ (ih l hl.2 hL.2 ?_)
        intro x hx
        rcases List.mem_cons.1 (hsub x (List.mem_cons_of_mem _ hx)) with rfl | h
        · exact absurd (hl.1 x hx) (String.lt_irrefl _)
        · exact h
      · have haL : a ∈ L := by
          rcases List.mem_cons.1 (hsub a (List.mem_cons_self ..)) with h | h
          · exact absurd h hab
          · exact h
        have hba : b < a := hL.1 a haL
        refine List.Sublist.cons _ (ih (a :: l) (List.pairwise_cons.2 hl) hL.2 ?_)
        intro x hx
        have hbx : b < x := by
          rcases List.mem_cons.1 hx with rfl | h
          · exact hba
          · exact String.lt_trans hba (hl.1 x h)
        rcases List.mem_cons.1 (hsub x hx) with rfl | h
        · exact absurd hbx (String.lt_irrefl _)
        · exact h

/-- the alphabetical order of the writer IS the order of the schema: the sorted formats of a file record, pairwise
distinct and supported, form a sub-list of the schema order -/
theorem sorted_formats_sublist (es : List XEntry) (hnd : (es.map (·.fmt)).Nodup)
    (hsup : ∀ e ∈ es, e.fmt ∈ fmtOrder) :
    ((isort (fun a b => strLe a.fmt b.fmt) es).map (·.fmt)).Sublist fmtOrder := by
  have hperm := isort_perm_d (fun a b : XEntry => strLe a.fmt b.fmt) es
  have hs := isort_key_sorted (fun e : XEntry => e.fmt) es
  have hnd' : ((isort (fun a b => strLe a.fmt b.fmt) es).map (·.fmt)).Nodup :=
    (hperm.map _).nodup_iff.2 hnd
  refine sublist_of_pairwise_lt fmtOrder _ ?_ fmtOrder_sorted ?_
  · rw [List.pairwise_map]
    rw [List.nodup_iff_pairwise_ne, List.pairwise_map] at hnd'  
    refine (hs.and hnd').imp ?_
    intro a b ⟨h1, h2⟩
    exact Std.lt_of_le_of_ne (by simpa [strLe] using h1) h2
  · intro x hx
    obtain ⟨e, he, rfl⟩ := List.mem_map.1 hx
    exact hsup e (hperm.mem_iff.1 he)

end MhlProps.C11
