/-
Lemmas for the refinement theorem of C07 (MhlProps/C07impl.lean): the implementation-shaped computation of the
directory hashes in `createVisit` (per-folder contexts filled while folding over the post-order traversal, child
folders popped from the association list `dirHashes`) against the compositional definition `nodeHashes`.

Contents
  * list lemmas: `isort` commutes with `map`, `find?` in a keyed list, `alookup` / `filter` on an association list;
  * the initial contexts `ctxInit` (named copy of `ctx0` in `createVisit`) are `(ctxKeys fmts).map (·, {})`;
  * the result list of `sealFile` contains, for every requested format `f`, the digest `H f content`;
  * `childStep` / `createVisit_eq`: a named copy of the anonymous per-child step of `createVisit`, and its
    projection `dirStep` on the two components that matter for directory hashes (`dirHashes`, contexts);
  * `Node.at?` along appended paths;
  * `visNodes` / `traverse_dir_nodes`: the traversal of a directory in terms of its sorted visible child NODES;
  * `foldl_dirStep`, `foldl_kid_visits`, `foldl_createVisit_dirHashes`: the induction;
  * `Session.get` after `put`, and the root record `appendDirHashes` leaves for the folder `[]`.
-/
import MhlProps.Proofs.TraverseLemmas
import MhlProps.Proofs.DirHashLemmas
import MhlProps.Proofs.SealLemmas
import MhlModel.Commands
import MhlModel.DirHash

namespace MhlModel

/-! ## lists -/

theorem insertSorted_map_key {α β : Type} (g : α → β) (le : β → β → Bool) (a : α) (l : List α) :
    insertSorted le (g a) (l.map g) = (insertSorted (fun x y => le (g x) (g y)) a l).map g := by
  induction l with
  | nil => rfl
  | cons x xs ih =>
    simp only [List.map_cons, insertSorted]
    split
    · rfl
    · rw [List.map_cons, ih]

/-- sorting the images by a test = image of sorting by the pulled-back test -/
theorem isort_map_key {α β : Type} (g : α → β) (le : β → β → Bool) (l : List α) :
    isort le (l.map g) = (isort (fun x y => le (g x) (g y)) l).map g := by
  induction l with
  | nil => rfl
  | cons x xs ih => simp only [List.map_cons, isort, ih, insertSorted_map_key]

/-- in a list keyed by the elements of `K`, looking for the key `f ∈ K` finds the entry of `f` -/
theorem find?_keyed {β : Type} (K : List String) (val : String → β) (f : String) (hf : f ∈ K) :
    (K.map fun g => (g, val g)).find? (fun x => x.1 == f) = some (f, val f) := by
  induction K with
  | nil => simp at hf
  | cons k K ih =>
    simp only [List.map_cons, List.find?_cons]
    by_cases hk : k = f
    · subst hk; simp
    · have : (k == f) = false := by simpa using hk
      simp only [this]
      exact ih (by simpa [Ne.symm hk] using hf)

theorem alookup_append_of_not_mem {κ α : Type} [DecidableEq κ] (k : κ) (l₁ l₂ : List (κ × α))
    (h : ∀ x ∈ l₁, x.1 ≠ k) : alookup k (l₁ ++ l₂) = alookup k l₂ := by
  induction l₁ with
  | nil => rfl
  | cons x xs ih =>
    obtain ⟨k', v⟩ := x
    have hk : k' ≠ k := h (k', v) (List.mem_cons_self ..)
    simp only [List.cons_append, alookup, hk, if_false]
    exact ih fun y hy => h y (List.mem_cons_of_mem _ hy)

theorem alookup_cons_self {κ α : Type} [DecidableEq κ] (k : κ) (v : α) (l : List (κ × α)) :
    alookup k ((k, v) :: l) = some v := by
  simp [alookup]

theorem filter_ne_of_not_mem {κ α : Type} [BEq κ] [LawfulBEq κ] (k : κ) (l : List (κ × α))
    (h : ∀ x ∈ l, x.1 ≠ k) : l.filter (fun x => x.1 != k) = l := by
  rw [List.filter_eq_self]
  intro x hx
  simpa using h x hx

/-! ## the initial contexts -/

/-- `ctx0` of `createVisit` / `dhVisit` (for `noDir = false`) -/
def ctxInit (fmts : List String) : List (String × DirCtx) :=
  fmts.foldl (fun a f => ainsert f ({} : DirCtx) a) []

/-- the formats for which a folder gets directory hashes: the requested ones without repetitions, in order of first
occurrence (a Python dict keyed by format) -/
def ctxKeys (fmts : List String) : List String := fmts.foldl appendNew []

theorem ainsert_keyed (f : String) (K : List String) :
    ainsert f ({} : DirCtx) (K.map fun g => (g, ({} : DirCtx))) = (appendNew K f).map fun g => (g, ({} : DirCtx)) := by
  induction K with
  | nil => simp [ainsert, appendNew]
  | cons k K ih =>
    simp only [List.map_cons, ainsert]
    by_cases hk : k = f
    · subst hk; simp [appendNew]
    · simp only [hk, if_false, ih]
      unfold appendNew
      by_cases hm : f ∈ K
      · simp [hm]
      · simp [hm, Ne.symm hk]

theorem foldl_ainsert_keyed (fmts K : List String) :
    fmts.foldl (fun a f => ainsert f ({} : DirCtx) a) (K.map fun g => (g, ({} : DirCtx))) =
      (fmts.foldl appendNew K).map fun g => (g, ({} : DirCtx)) := by
  induction fmts generalizing K with
  | nil => rfl
  | cons f fs ih => simp only [List.foldl_cons, ainsert_keyed, ih]

theorem ctxInit_eq (fmts : List String) : ctxInit fmts = (ctxKeys fmts).map fun g => (g, ({} : DirCtx)) :=
  foldl_ainsert_keyed fmts []

theorem mem_ctxKeys (fmts : List String) (f : String) : f ∈ ctxKeys fmts ↔ f ∈ fmts := by
  have := mem_foldl_appendNew (fun x : String => x) fmts [] f
  simpa [ctxKeys] using this

theorem foldl_appendNew_of_nodup_str (fmts K : List String) (h : (K ++ fmts).Nodup) :
    fmts.foldl appendNew K = K ++ fmts := by
  induction fmts generalizing K with
  | nil => simp
  | cons f fs ih =>
    have hf : f ∉ K := by
      intro hm
      have := (List.nodup_append.1 h).2.2 f hm f (List.mem_cons_self ..)
      exact this rfl
    simp only [List.foldl_cons, appendNew, hf, if_false]
    rw [ih _ (by simpa using h)]
    simp

theorem ctxKeys_of_nodup (fmts : List String) (h : fmts.Nodup) : ctxKeys fmts = fmts := by
  unfold ctxKeys
  simpa using foldl_appendNew_of_nodup_str fmts [] (by simpa using h)

/-! ## the result list of `sealFile` -/

theorem sealFile_snd (H : HashFn) (rootHist : Hist) (s : Session) (file : RelPath) (content : Bytes)
    (requested : List String) :
    (sealFile H rootHist s file content requested).2 =
      (sealEntries (route rootHist file).1.gens (posix (route rootHist file).2)
        (fun f => H f content) requested).2 := by
  unfold sealFile
  simp only
  split <;> rfl

theorem mem_formatsToGenerate (existing requested : List String) (f : String) (hf : f ∈ requested) :
    f ∈ formatsToGenerate existing requested := by
  unfold formatsToGenerate
  exact (mem_foldl_appendNew (fun x : String => x) requested (baseFormats existing requested) f).2
    (Or.inr ⟨f, hf, rfl⟩)

/-- every entry of the result list of `sealEntries` carries the digest of its format -/
theorem sealEntries_res_shape (gens : List LGen) (p : String) (dig : String → String) (req : List String) :
    ∀ x ∈ (sealEntries gens p dig req).2, x.2.1 = dig x.1 := by
  intro x hx
  simp only [sealEntries, List.mem_append, List.mem_map] at hx
  rcases hx with ⟨f, -, rfl⟩ | ⟨f, -, rfl⟩ <;> rfl

/-- every requested format has an entry in the result list of `sealEntries` -/
theorem sealEntries_res_mem (gens : List LGen) (p : String) (dig : String → String) (req : List String)
    (f : String) (hf : f ∈ req) : ∃ ok, (f, dig f, ok) ∈ (sealEntries gens p dig req).2 := by
  have htg := mem_formatsToGenerate (existingFormats gens p) req f hf
  by_cases hex : f ∈ existingFormats gens p
  · simp only [sealEntries, List.mem_append, List.mem_map, List.mem_filter]
    exact ⟨_, Or.inl ⟨f, ⟨⟨hex, by simpa using htg⟩, by simpa using hf⟩, rfl⟩⟩
  · simp only [sealEntries, List.mem_append, List.mem_map, List.mem_filter]
    exact ⟨_, Or.inr ⟨f, ⟨⟨htg, by simpa using hex⟩, by simpa using hf⟩, rfl⟩⟩

/-- looking a requested format up in the result list of `sealEntries` gives the digest of that format -/
theorem sealEntries_res_find (gens : List LGen) (p : String) (dig : String → String) (req : List String)
    (f : String) (hf : f ∈ req) :
    ∃ ok, (sealEntries gens p dig req).2.find? (fun x => x.1 == f) = some (f, dig f, ok) := by
  obtain ⟨ok, hmem⟩ := sealEntries_res_mem gens p dig req f hf
  cases hfind : (sealEntries gens p dig req).2.find? (fun x => x.1 == f) with
  | none =>
    have := List.find?_eq_none.1 hfind _ hmem
    simp at this
  | some x =>
    obtain ⟨g, d, ok'⟩ := x
    have hg : g = f := by simpa using List.find?_some hfind
    have hd := sealEntries_res_shape gens p dig req _ (List.mem_of_find?_eq_some hfind)
    simp only at hd
    subst hg
    exact ⟨ok', by rw [hd]⟩

/-- `seal_file_path` returns, for every requested format, the digest of the file's content in that format
(whatever the history says and whatever the session holds) -/
theorem sealFile_res_find (H : HashFn) (rootHist : Hist) (s : Session) (file : RelPath) (content : Bytes)
    (requested : List String) (f : String) (hf : f ∈ requested) :
    ∃ ok, (sealFile H rootHist s file content requested).2.find? (fun x => x.1 == f) =
      some (f, H f content, ok) := by
  rw [sealFile_snd]
  exact sealEntries_res_find _ _ (fun f => H f content) requested f hf

/-! ## `Node.at?` along appended paths -/

theorem Node.at?_append (t : Node) (p q : RelPath) : t.at? (p ++ q) = (t.at? p).bind (·.at? q) := by
  induction p generalizing t with
  | nil => simp [Node.at?]
  | cons a rest ih =>
    cases t with
    | file n c => simp [Node.at?]
    | dir n cs h =>
      simp only [List.cons_append, Node.at?_dir_cons]
      cases findChild cs a with
      | none => rfl
      | some c => simpa using ih c

/-- the child `c` of the directory found at `here` is found at `here ++ [c.name]` -/
theorem Node.at?_child {t : Node} {here : RelPath} {n : String} {cs : List Node} {h : Option HistStore}
    (hat : t.at? here = some (.dir n cs h)) (hnd : (cs.map Node.name).Nodup) {c : Node} (hc : c ∈ cs) :
    t.at? (here ++ [c.name]) = some c := by
  rw [Node.at?_append, hat]
  simp [findChild_of_mem hnd hc, Node.at?]

theorem fileContent_child {t : Node} {here : RelPath} {n : String} {cs : List Node} {h : Option HistStore}
    (hat : t.at? here = some (.dir n cs h)) (hnd : (cs.map Node.name).Nodup) {nm : String} {b : Bytes}
    (hc : Node.file nm b ∈ cs) : fileContent t (here ++ [nm]) = b := by
  have := Node.at?_child hat hnd hc
  simp only [Node.name] at this
  simp [fileContent, this]

/-! ## the per-child step of `createVisit`, named -/

/-- named copy of the anonymous per-child step of `createVisit` (definitionally the same function, see
`createVisit_dirHashes`) -/
def childStep (env : Env) (t : Node) (rootHist : Hist) (fmts : List String) (noDir : Bool) (folder : RelPath)
    (acc : CreateState × List (String × DirCtx)) (ch : String × Bool) : CreateState × List (String × DirCtx) :=
      let (st, ctx) := acc
      let p := folder ++ [ch.1]
      let st := { st with found := st.found ++ [p],
                          newPaths := if isNewPath rootHist p then appendNew st.newPaths p else st.newPaths }
      if ch.2 then
        if noDir then (st, ctx)
        else
          let sub := (alookup p st.dirHashes).getD []
          let ctx := ctx.map fun (f, c) =>
            match sub.find? (fun x => x.1 == f) with
            | some (_, ch', sh) => (f, c.add env.H env.D f ch.1 ch' sh)
            | none => (f, c)
          ({ st with dirHashes := st.dirHashes.filter fun x => x.1 != p }, ctx)
      else
        let (s, res) := sealFile env.H rootHist st.session p (fileContent t p) fmts
        let nfail := (res.filter fun r => !r.2.2).length
        let st := { st with session := s, failed := st.failed + nfail,
                            mismatch := if nfail > 0 then appendNew st.mismatch (posix p) else st.mismatch }
        let ctx := ctx.map fun (f, c) =>
          match res.find? (fun x => x.1 == f) with
          | some (_, d, _) => (f, c.add env.H env.D f ch.1 d d)
          | none => (f, c)
        (st, ctx)

def ctxHashes (env : Env) (ctx : List (String × DirCtx)) : List (String × String × String) :=
  ctx.map fun (f, c) => (f, hashOfList env.H env.D f c.content, hashOfList env.H env.D f c.structure_)

abbrev DirHashes := List (RelPath × List (String × String × String))

def dirStep (env : Env) (t : Node) (rootHist : Hist) (fmts : List String) (folder : RelPath)
    (acc : DirHashes × List (String × DirCtx)) (ch : String × Bool) : DirHashes × List (String × DirCtx) :=
  let p := folder ++ [ch.1]
  if ch.2 then
    let sub := (alookup p acc.1).getD []
    (acc.1.filter fun x => x.1 != p,
     acc.2.map fun (f, c) =>
        match sub.find? (fun x => x.1 == f) with
        | some (_, ch', sh) => (f, c.add env.H env.D f ch.1 ch' sh)
        | none => (f, c))
  else
    let res := (sealEntries (route rootHist p).1.gens (posix (route rootHist p).2)
      (fun f => env.H f (fileContent t p)) fmts).2
    (acc.1, acc.2.map fun (f, c) =>
        match res.find? (fun x => x.1 == f) with
        | some (_, d, _) => (f, c.add env.H env.D f ch.1 d d)
        | none => (f, c))

def proj (acc : CreateState × List (String × DirCtx)) : DirHashes × List (String × DirCtx) :=
  (acc.1.dirHashes, acc.2)

theorem childStep_proj (env : Env) (t : Node) (rootHist : Hist) (fmts : List String) (folder : RelPath)
    (acc : CreateState × List (String × DirCtx)) (ch : String × Bool) :
    proj (childStep env t rootHist fmts false folder acc ch) = dirStep env t rootHist fmts folder (proj acc) ch := by
  obtain ⟨st, ctx⟩ := acc
  obtain ⟨nm, b⟩ := ch
  cases b
  · have h2 := sealFile_snd env.H rootHist st.session (folder ++ [nm]) (fileContent t (folder ++ [nm])) fmts
    simp only [childStep, dirStep, proj, Bool.false_eq_true, if_false]
    rw [← h2]
  · simp only [childStep, dirStep, proj, if_true, Bool.false_eq_true, if_false]

theorem foldl_childStep_proj (env : Env) (t : Node) (rootHist : Hist) (fmts : List String) (folder : RelPath)
    (L : List (String × Bool)) (acc : CreateState × List (String × DirCtx)) :
    proj (L.foldl (childStep env t rootHist fmts false folder) acc) =
      L.foldl (dirStep env t rootHist fmts folder) (proj acc) := by
  induction L generalizing acc with
  | nil => rfl
  | cons ch L ih => simp only [List.foldl_cons, ih, childStep_proj]



theorem Node.name_file (n : String) (b : Bytes) : (Node.file n b).name = n := rfl
theorem Node.name_dir (n : String) (cs : List Node) (h : Option HistStore) : (Node.dir n cs h).name = n := rfl
theorem Node.isDir_file (n : String) (b : Bytes) : (Node.file n b).isDir = false := rfl
theorem Node.isDir_dir (n : String) (cs : List Node) (h : Option HistStore) : (Node.dir n cs h).isDir = true := rfl

/-! ## one step on keyed contexts -/

theorem dhStep_file (env : Env) (t : Node) (rootHist : Hist) (fmts : List String) (folder : RelPath)
    (K : List String) (hK : ∀ f ∈ K, f ∈ fmts) (dh : DirHashes) (C : String → DirCtx) (nm : String) :
    dirStep env t rootHist fmts folder (dh, K.map fun f => (f, C f)) (nm, false) =
      (dh, K.map fun f => (f, (C f).add env.H env.D f nm (env.H f (fileContent t (folder ++ [nm])))
        (env.H f (fileContent t (folder ++ [nm]))))) := by
  simp only [dirStep, Bool.false_eq_true, if_false, List.map_map, Prod.mk.injEq, true_and]
  apply List.map_congr_left
  intro f hf
  obtain ⟨ok, hfind⟩ := sealEntries_res_find (route rootHist (folder ++ [nm])).1.gens
    (posix (route rootHist (folder ++ [nm])).2) (fun f => env.H f (fileContent t (folder ++ [nm]))) fmts f (hK f hf)
  simp only [Function.comp, hfind]

theorem dhStep_dir (env : Env) (t : Node) (rootHist : Hist) (fmts : List String) (folder : RelPath)
    (K : List String) (dh : DirHashes) (C : String → DirCtx) (nm : String) (a b : String → String)
    (hlook : alookup (folder ++ [nm]) dh = some (K.map fun f => (f, a f, b f))) :
    dirStep env t rootHist fmts folder (dh, K.map fun f => (f, C f)) (nm, true) =
      (dh.filter (fun x => x.1 != folder ++ [nm]),
        K.map fun f => (f, (C f).add env.H env.D f nm (a f) (b f))) := by
  simp only [dirStep, if_true, List.map_map, Prod.mk.injEq, true_and, hlook, Option.getD_some]
  apply List.map_congr_left
  intro f hf
  have hfind := find?_keyed K (fun f => (a f, b f)) f hf
  simp only [Function.comp, hfind]

/-! ## the per-folder fold -/

/-- the `dirHashes` entry of the node `c` found at `p` -/
def specEntry (env : Env) (hit : RelPath → Bool) (K : List String) (p : RelPath) (c : Node) :
    RelPath × List (String × String × String) :=
  (p, K.map fun f => (f, (nodeHashes env.H env.D f hit p c).1, (nodeHashes env.H env.D f hit p c).2))

/-- what the child `c` of the folder at `here` adds to the context of format `f` -/
def addKid (env : Env) (hit : RelPath → Bool) (here : RelPath) (f : String) (cx : DirCtx) (c : Node) : DirCtx :=
  cx.add env.H env.D f c.name (nodeHashes env.H env.D f hit (here ++ [c.name]) c).1
    (nodeHashes env.H env.D f hit (here ++ [c.name]) c).2

theorem foldl_dhStep (env : Env) (t : Node) (rootHist : Hist) (fmts : List String) (hit : RelPath → Bool)
    (here : RelPath) (K : List String) (hK : ∀ f ∈ K, f ∈ fmts) (base : DirHashes)
    (L : List Node) (C : String → DirCtx)
    (hfile : ∀ nm b, Node.file nm b ∈ L → fileContent t (here ++ [nm]) = b)
    (hpw : L.Pairwise fun a b => a.name ≠ b.name)
    (hbase : ∀ c ∈ L, ∀ x ∈ base, x.1 ≠ here ++ [c.name]) :
    (L.map fun c => (c.name, c.isDir)).foldl (dirStep env t rootHist fmts here)
        (base ++ (L.filter (·.isDir)).map (fun c => specEntry env hit K (here ++ [c.name]) c),
          K.map fun f => (f, C f)) =
      (base, K.map fun f => (f, L.foldl (addKid env hit here f) (C f))) := by
  induction L generalizing C with
  | nil => simp
  | cons c L ih =>
    rw [List.pairwise_cons] at hpw
    have hfile' : ∀ nm b, Node.file nm b ∈ L → fileContent t (here ++ [nm]) = b :=
      fun nm b h => hfile nm b (List.mem_cons_of_mem _ h)
    have hbase' : ∀ c ∈ L, ∀ x ∈ base, x.1 ≠ here ++ [c.name] :=
      fun c' h => hbase c' (List.mem_cons_of_mem _ h)
    cases c with
    | file nm b =>
      simp only [List.map_cons, List.foldl_cons, Node.name_file, Node.isDir_file, List.filter_cons,
        Bool.false_eq_true, if_false]
      rw [dhStep_file env t rootHist fmts here K hK, hfile nm b (List.mem_cons_self ..),
        ih _ hfile' hpw.2 hbase']
      simp only [addKid, nodeHashes_file, Node.name_file]
    | dir nm cs h =>
      simp only [List.map_cons, List.foldl_cons, Node.name_dir, Node.isDir_dir, List.filter_cons, if_true]
      have hb0 : ∀ x ∈ base, x.1 ≠ here ++ [nm] := hbase _ (List.mem_cons_self ..)
      have hlook : alookup (here ++ [nm])
          (base ++ specEntry env hit K (here ++ [nm]) (.dir nm cs h) ::
            (L.filter (·.isDir)).map (fun c => specEntry env hit K (here ++ [c.name]) c)) =
          some (K.map fun f => (f, (nodeHashes env.H env.D f hit (here ++ [nm]) (.dir nm cs h)).1,
            (nodeHashes env.H env.D f hit (here ++ [nm]) (.dir nm cs h)).2)) := by
        rw [alookup_append_of_not_mem _ _ _ hb0]
        exact alookup_cons_self _ _ _
      rw [dhStep_dir env t rootHist fmts here K _ _ nm _ _ hlook]
      have hfilt : (base ++ specEntry env hit K (here ++ [nm]) (.dir nm cs h) ::
            (L.filter (·.isDir)).map (fun c => specEntry env hit K (here ++ [c.name]) c)).filter
              (fun x => x.1 != here ++ [nm]) =
          base ++ (L.filter (·.isDir)).map (fun c => specEntry env hit K (here ++ [c.name]) c) := by
        rw [List.filter_append, filter_ne_of_not_mem _ _ hb0, List.filter_cons]
        have : ((specEntry env hit K (here ++ [nm]) (.dir nm cs h)).1 != here ++ [nm]) = false := by
          simp [specEntry]
        rw [this]
        simp only [Bool.false_eq_true, if_false]
        rw [filter_ne_of_not_mem]
        intro x hx
        obtain ⟨c', hc', rfl⟩ := List.mem_map.1 hx
        have hne := hpw.1 c' (List.mem_filter.1 hc').1
        simp only [Node.name_dir] at hne
        simpa [specEntry] using Ne.symm hne
      rw [hfilt, ih _ hfile' hpw.2 hbase']
      rfl



/-! ## the traversal in terms of nodes -/

/-- the visible children of the directory at `here`, sorted by name (as nodes) -/
def visNodes (hit : RelPath → Bool) (here : RelPath) (cs : List Node) : List Node :=
  (isort (fun a b => strLe a.name b.name) cs).filter fun c => !hit (here ++ [c.name])

theorem visKids_eq_map (hit : RelPath → Bool) (here : RelPath) (cs : List Node) :
    visKids hit here cs = (visNodes hit here cs).map (kidOf hit here) := by
  unfold visKids visNodes
  rw [isort_map_key (kidOf hit here) (fun a b => strLe a.name b.name) cs, List.filter_map]
  rfl

theorem traverse_dir_nodes (hit : RelPath → Bool) (here : RelPath) (n : String) (cs : List Node)
    (h : Option HistStore) :
    traverse hit here (.dir n cs h) =
      (visNodes hit here cs).flatMap (fun c => traverse hit (here ++ [c.name]) c) ++
        [⟨here, (visNodes hit here cs).map fun c => (c.name, c.isDir)⟩] := by
  rw [traverse_dir, visKids_eq_map, List.flatMap_map, List.map_map]
  rfl

theorem mem_visNodes (hit : RelPath → Bool) (here : RelPath) (cs : List Node) (c : Node) :
    c ∈ visNodes hit here cs ↔ c ∈ cs ∧ hit (here ++ [c.name]) = false := by
  simp [visNodes, mem_isort]

theorem visNodes_perm (hit : RelPath → Bool) (here : RelPath) (cs : List Node) :
    (visNodes hit here cs).Perm (cs.filter fun c => !hit (here ++ [c.name])) :=
  (isort_perm _ cs).filter _

theorem visNodes_pairwise (hit : RelPath → Bool) (here : RelPath) (cs : List Node)
    (hnd : (cs.map Node.name).Nodup) : (visNodes hit here cs).Pairwise (fun a b => a.name ≠ b.name) := by
  unfold visNodes
  apply List.Pairwise.filter
  rw [pairwise_isort (fun h => Ne.symm h)]
  rw [List.Nodup, List.pairwise_map] at hnd
  exact hnd

/-! ## contexts after a fold of `addKid` -/

theorem foldl_addKid_content (env : Env) (hit : RelPath → Bool) (here : RelPath) (f : String) (L : List Node)
    (cx : DirCtx) :
    (L.foldl (addKid env hit here f) cx).content =
      cx.content ++ L.map fun c => (kidOf_d env.H env.D f hit here c).content := by
  induction L generalizing cx with
  | nil => simp
  | cons c L ih => simp [List.foldl_cons, ih, addKid, DirCtx.add, kidOf_d]

theorem foldl_addKid_structure (env : Env) (hit : RelPath → Bool) (here : RelPath) (f : String) (L : List Node)
    (cx : DirCtx) :
    (L.foldl (addKid env hit here f) cx).structure_ =
      cx.structure_ ++ L.map fun c => bindName env.H env.D f (kidOf_d env.H env.D f hit here c) := by
  induction L generalizing cx with
  | nil => simp
  | cons c L ih => simp [List.foldl_cons, ih, addKid, DirCtx.add, kidOf_d, bindName]

theorem hashOfList_of_perm (H : HashFn) (D : DecodeFn) (fmt : String) {l₁ l₂ : List String} (h : l₁.Perm l₂) :
    hashOfList H D fmt l₁ = hashOfList H D fmt l₂ := by
  unfold hashOfList
  rw [isort_eq_of_perm strLe strLe_total strLe_trans strLe_antisymm h]

theorem visKids_d_perm_visNodes (H : HashFn) (D : DecodeFn) (fmt : String) (hit : RelPath → Bool)
    (here : RelPath) (cs : List Node) :
    ((visNodes hit here cs).map (kidOf_d H D fmt hit here)).Perm (visKids_d H D fmt hit here cs) := by
  unfold visKids_d
  rw [List.filter_map]
  exact (visNodes_perm hit here cs).map _

/-- the hashes computed from the contexts filled with the sorted visible children are the specified ones -/
theorem ctxHashes_spec (env : Env) (hit : RelPath → Bool) (here : RelPath) (K : List String) (n : String)
    (cs : List Node) (h : Option HistStore) :
    ctxHashes env (K.map fun f => (f, (visNodes hit here cs).foldl (addKid env hit here f) {})) =
      (specEntry env hit K here (.dir n cs h)).2 := by
  simp only [ctxHashes, specEntry, List.map_map]
  apply List.map_congr_left
  intro f _
  simp only [Function.comp, foldl_addKid_content, foldl_addKid_structure, nodeHashes_dir, List.nil_append]
  have hp := visKids_d_perm_visNodes env.H env.D f hit here cs
  rw [← hashOfList_of_perm env.H env.D f (hp.map (·.content)),
    ← hashOfList_of_perm env.H env.D f (hp.map (bindName env.H env.D f))]
  simp only [List.map_map]
  rfl



/-! ## the fold over the visits of the children, and of a whole directory -/

theorem createVisit_dirHashes (env : Env) (t : Node) (rootHist : Hist) (fmts : List String)
    (st : CreateState) (v : Visit) :
    (createVisit env t rootHist fmts false st v).dirHashes =
      (v.children.foldl (childStep env t rootHist fmts false v.folder) (st, ctxInit fmts)).1.dirHashes ++
        [(v.folder, ctxHashes env
          (v.children.foldl (childStep env t rootHist fmts false v.folder) (st, ctxInit fmts)).2)] := rfl

/-- `createVisit` on `dirHashes`, through the projection `dirStep` -/
theorem createVisit_dirHashes_dh (env : Env) (t : Node) (rootHist : Hist) (fmts : List String)
    (st : CreateState) (v : Visit) :
    (createVisit env t rootHist fmts false st v).dirHashes =
      (v.children.foldl (dirStep env t rootHist fmts v.folder) (st.dirHashes, ctxInit fmts)).1 ++
        [(v.folder, ctxHashes env
          (v.children.foldl (dirStep env t rootHist fmts v.folder) (st.dirHashes, ctxInit fmts)).2)] := by
  rw [createVisit_dirHashes]
  have := foldl_childStep_proj env t rootHist fmts v.folder v.children (st, ctxInit fmts)
  rw [← show proj (st, ctxInit fmts) = (st.dirHashes, ctxInit fmts) from rfl, ← this]
  rfl

theorem prefix_singleton_ne {here : RelPath} {a b : String} (hab : a ≠ b) :
    ¬ (here ++ [a]) <+: (here ++ [b]) := by
  intro hp
  have := hp.eq_of_length (by simp)
  exact hab (by simpa using this)

theorem foldl_kid_visits (env : Env) (t : Node) (rootHist : Hist) (fmts : List String) (hit : RelPath → Bool)
    (here : RelPath) (K : List String) (L : List Node)
    (ih : ∀ c ∈ L, c.isDir = true → ∀ st : CreateState,
      (∀ x ∈ st.dirHashes, ¬ (here ++ [c.name]) <+: x.1) →
      ((traverse hit (here ++ [c.name]) c).foldl (createVisit env t rootHist fmts false) st).dirHashes =
        st.dirHashes ++ [specEntry env hit K (here ++ [c.name]) c])
    (hpw : L.Pairwise fun a b => a.name ≠ b.name) (st : CreateState)
    (hst : ∀ c ∈ L, ∀ x ∈ st.dirHashes, ¬ (here ++ [c.name]) <+: x.1) :
    ((L.flatMap fun c => traverse hit (here ++ [c.name]) c).foldl
        (createVisit env t rootHist fmts false) st).dirHashes =
      st.dirHashes ++ (L.filter (·.isDir)).map fun c => specEntry env hit K (here ++ [c.name]) c := by
  induction L generalizing st with
  | nil => simp
  | cons c L ihL =>
    rw [List.pairwise_cons] at hpw
    rw [List.flatMap_cons, List.foldl_append]
    have ih' := fun c' hc' => ih c' (List.mem_cons_of_mem _ hc')
    have hst' := fun c' hc' => hst c' (List.mem_cons_of_mem _ hc')
    cases hd : c.isDir with
    | false =>
      have : traverse hit (here ++ [c.name]) c = [] := by
        cases c with
        | file n b => rw [traverse]
        | dir n cs h => simp [Node.isDir] at hd
      rw [this, List.foldl_nil, List.filter_cons, hd]
      exact ihL ih' hpw.2 st hst'
    | true =>
      have h1 := ih c (List.mem_cons_self ..) hd st (hst c (List.mem_cons_self ..))
      rw [List.filter_cons, hd, if_pos rfl, List.map_cons, ihL ih' hpw.2, h1, List.append_assoc]
      · rfl
      · intro c' hc' x hx
        rw [h1, List.mem_append, List.mem_singleton] at hx
        rcases hx with hx | rfl
        · exact hst' c' hc' x hx
        · exact prefix_singleton_ne (Ne.symm (hpw.1 c' hc'))

/-- REFINEMENT, general form.  The fold of `createVisit` over the traversal of the directory `d` found at `here`
below the root, started from ANY state, appends exactly one entry to `dirHashes`: `here` with, for each format key,
the content and structure hash the compositional definition `nodeHashes` assigns to `d`. -/
theorem foldl_createVisit_dirHashes (env : Env) (t : Node) (rootHist : Hist) (fmts : List String)
    (hit : RelPath → Bool) (d : Node) :
    d.isDir = true → ∀ (here : RelPath) (st : CreateState), t.at? here = some d → d.NamesDistinct →
      (∀ x ∈ st.dirHashes, ¬ here <+: x.1) →
      ((traverse hit here d).foldl (createVisit env t rootHist fmts false) st).dirHashes =
        st.dirHashes ++ [specEntry env hit (ctxKeys fmts) here d] := by
  induction d using Node.induct with
  | file n c => intro h; simp [Node.isDir] at h
  | dir n cs h ih =>
    intro _ here st hat hnd hst
    rw [Node.namesDistinct_dir] at hnd
    have hVN := mem_visNodes hit here cs
    have hpw := visNodes_pairwise hit here cs hnd.1
    have hbelow : ∀ c : Node, ∀ x ∈ st.dirHashes, ¬ (here ++ [c.name]) <+: x.1 :=
      fun c x hx hp => hst x hx ((List.prefix_append _ _).trans hp)
    -- the visits of the children
    have hkids := foldl_kid_visits env t rootHist fmts hit here (ctxKeys fmts) (visNodes hit here cs)
      (fun c hc hdir st' hst' => ih c ((hVN c).1 hc).1 hdir (here ++ [c.name]) st'
        (Node.at?_child hat hnd.1 ((hVN c).1 hc).1) (hnd.2 c ((hVN c).1 hc).1) hst')
      hpw st (fun c _ => hbelow c)
    rw [traverse_dir_nodes, List.foldl_append, List.foldl_cons, List.foldl_nil, createVisit_dirHashes_dh, hkids,
      ctxInit_eq]
    -- the visit of the directory itself
    have hfold := foldl_dhStep env t rootHist fmts hit here (ctxKeys fmts)
      (fun f hf => (mem_ctxKeys fmts f).1 hf) st.dirHashes (visNodes hit here cs) (fun _ => {})
      (fun nm b hm => fileContent_child hat hnd.1 ((hVN _).1 hm).1) hpw
      (fun c _ x hx he => hbelow c x hx (he ▸ List.prefix_refl _))
    simp only [hfold]
    rw [ctxHashes_spec env hit here (ctxKeys fmts) n cs h]
    rfl

/-! ## the session: `get` after `put` / `touch`; the root record written by `appendDirHashes` -/

theorem route_nil (h : Hist) : route h [] = (h, []) := by
  unfold route
  have : ((allDescendants h).filter fun c => !c.root.isEmpty && isPrefixOf c.root []) = [] := by
    rw [List.filter_eq_nil_iff]
    intro c _
    cases hr : c.root with
    | nil => simp
    | cons a as => simp [isPrefixOf]
  rw [this]
  rfl

theorem NewList.update_root (nl : NewList) (path : String) (size : Option Nat) (g : Record → Record) :
    (nl.update path size g).root = nl.root := by
  unfold NewList.update
  split
  · rfl
  · split <;> rfl

theorem NewList.update_dot_rootRec (nl : NewList) (size : Option Nat) (g : Record → Record) :
    (nl.update "." size g).rootRec = some (g (nl.rootRec.getD { path := ".", size := size })) := by
  simp [NewList.update]

theorem Session.get_root (s : Session) (R : RelPath) : (s.get R).root = R := by
  unfold Session.get
  cases hf : s.lists.find? (fun l => l.root == R) with
  | none => rfl
  | some l => simpa using List.find?_some hf

theorem find?_replace_same (ls : List NewList) (nl : NewList)
    (hany : ls.any (fun l => l.root == nl.root) = true) :
    (ls.map fun l => if l.root == nl.root then nl else l).find? (fun l => l.root == nl.root) = some nl := by
  induction ls with
  | nil => simp at hany
  | cons l ls ih =>
    simp only [List.map_cons, List.find?_cons]
    by_cases hl : (l.root == nl.root) = true
    · simp [hl]
    · have : (l.root == nl.root) = false := by simpa using hl
      simp only [List.any_cons, this, Bool.false_or] at hany
      simp only [this, Bool.false_eq_true, if_false]
      exact ih hany

theorem find?_replace_ne (ls : List NewList) (nl : NewList) (R : RelPath) (hne : nl.root ≠ R) :
    (ls.map fun l => if l.root == nl.root then nl else l).find? (fun l => l.root == R) =
      ls.find? (fun l => l.root == R) := by
  induction ls with
  | nil => rfl
  | cons l ls ih =>
    simp only [List.map_cons, List.find?_cons]
    by_cases hl : (l.root == nl.root) = true
    · have h1 : l.root = nl.root := by simpa using hl
      have h2 : (nl.root == R) = false := by simpa using hne
      have h3 : (l.root == R) = false := by rw [h1]; exact h2
      simp only [hl, if_true, h2, h3]
      exact ih
    · have : (l.root == nl.root) = false := by simpa using hl
      simp only [this, Bool.false_eq_true, if_false]
      rw [ih]

theorem Session.get_put_same (s : Session) (nl : NewList) : (s.put nl).get nl.root = nl := by
  unfold Session.put Session.get
  split
  · next hany => simp only [find?_replace_same _ _ hany, Option.getD_some]
  · next hany =>
    have : s.lists.find? (fun l => l.root == nl.root) = none := by
      rw [List.find?_eq_none]
      intro l hl hh
      exact hany (List.any_eq_true.2 ⟨l, hl, hh⟩)
    simp [List.find?_append, this]

theorem Session.get_put_ne (s : Session) (nl : NewList) (R : RelPath) (hne : nl.root ≠ R) :
    (s.put nl).get R = s.get R := by
  unfold Session.put Session.get
  split
  · simp only [find?_replace_ne _ _ _ hne]
  · have h2 : (nl.root == R) = false := by simpa using hne
    simp [List.find?_append, h2]

/-- the entries `appendDirHashes` writes for a list of (format, content hash, structure hash) -/
def dirEntries (hashes : List (String × String × String)) : List Entry :=
  hashes.map fun (f, c, st) => { fmt := f, digest := c, shash := some st }

/-- after `appendDirHashes … [] hashes` the list of the root history has a root record, flagged as a directory,
whose entries END with the entries of `hashes` -/
theorem appendDirHashes_root_record (rootHist : Hist) (s : Session) (hashes : List (String × String × String)) :
    ∃ r, ((appendDirHashes rootHist s [] hashes).get rootHist.root).rootRec = some r ∧ r.isDir = true ∧
      ∃ pre, r.entries = pre ++ dirEntries hashes := by
  unfold appendDirHashes
  rw [route_nil]
  simp only [List.isEmpty_nil, if_true]
  have hposix : posix [] = "." := rfl
  rw [hposix]
  -- the list of the root history after the first update
  generalize hs1 : s.touch rootHist.root = s1
  generalize hnl : ((s1.get rootHist.root).update "." none fun r =>
    { r with isDir := true, entries := r.entries ++ List.map (fun x => match x with
      | (f, c, st) => ({ fmt := f, digest := c, shash := some st } : Entry)) hashes }) = nl
  have hroot : nl.root = rootHist.root := by
    rw [← hnl, NewList.update_root, Session.get_root]
  have hrec : ∃ r, nl.rootRec = some r ∧ r.isDir = true ∧ ∃ pre, r.entries = pre ++ dirEntries hashes := by
    rw [← hnl, NewList.update_dot_rootRec]
    exact ⟨_, rfl, rfl, _, rfl⟩
  cases hp : parentRoot rootHist rootHist.root with
  | none =>
    simp only
    rw [← hroot, Session.get_put_same]
    exact hrec
  | some pr =>
    simp only
    by_cases hpr : pr = rootHist.root
    · subst hpr
      have hposix2 : posix (([] : RelPath).drop rootHist.root.length) = "." := by simp [posix]
      rw [hposix2]
      generalize hnl2 : (((s1.put nl).touch rootHist.root).get rootHist.root).update "." none (fun r =>
        { r with isDir := true, entries := r.entries ++ List.map (fun x => match x with
          | (f, c, st) => ({ fmt := f, digest := c, shash := some st } : Entry)) hashes }) = nl2
      have hroot2 : nl2.root = rootHist.root := by
        rw [← hnl2, NewList.update_root, Session.get_root]
      rw [← hroot2, Session.get_put_same, ← hnl2, NewList.update_dot_rootRec]
      exact ⟨_, rfl, rfl, _, rfl⟩
    · have hne : ∀ nl2 : NewList, nl2.root = pr → ((((s1.put nl).touch pr).put nl2).get rootHist.root).rootRec =
          nl.rootRec := by
        intro nl2 h2
        rw [Session.get_put_ne _ _ _ (by rw [h2]; exact hpr)]
        have : ((s1.put nl).touch pr).get rootHist.root = (s1.put nl).get rootHist.root := by
          unfold Session.touch
          split
          · rfl
          · have hb : (pr == rootHist.root) = false := by simpa using hpr
            simp [Session.get, List.find?_append, hb]
        rw [this, ← hroot, Session.get_put_same]
      rw [hne _ (by rw [NewList.update_root, Session.get_root])]
      exact hrec

/-- the last thing `createVisit` does to the session is to record, for the visited folder, exactly the hashes it
appends to `dirHashes` -/
theorem createVisit_session (env : Env) (t : Node) (rootHist : Hist) (fmts : List String)
    (st : CreateState) (v : Visit) :
    ∃ s' pre hs, (createVisit env t rootHist fmts false st v).session = appendDirHashes rootHist s' v.folder hs ∧
      (createVisit env t rootHist fmts false st v).dirHashes = pre ++ [(v.folder, hs)] :=
  ⟨_, _, _, rfl, rfl⟩

end MhlModel
