/- Helper lemmas for generation file names, numbering, sorting and tree updates (C06). -/
import MhlModel.Seal
import MhlProps.Proofs.CodecLemmas

namespace MhlModel
open Codec

/-! ### decimal digit characters -/

theorem digitChar_toNat : ∀ d, d < 10 → (Char.ofNat (48 + d)).toNat - 48 = d := by decide
theorem digitChar_isDigit : ∀ d, d < 10 → isDigit (Char.ofNat (48 + d)) = true := by decide
theorem extChars_eq : extChars = ['.', 'm', 'h', 'l'] := by decide

/-- the value that `parseGenStem` computes from a digit string -/
def decVal (cs : List Char) : Nat := cs.foldl (fun r c => r * 10 + (c.toNat - 48)) 0

theorem foldl_digitChars (ds : List Nat) (h : ∀ d ∈ ds, d < 10) (init : Nat) :
    (ds.map fun d => Char.ofNat (48 + d)).foldl (fun r c => r * 10 + (c.toNat - 48)) init
      = ds.foldl (fun r d => r * 10 + d) init := by
  induction ds generalizing init with
  | nil => rfl
  | cons d ds ih =>
    simp only [List.map_cons, List.foldl_cons]
    rw [digitChar_toNat d (h d (by simp))]
    exact ih (fun x hx => h x (by simp [hx])) _

theorem decVal_decChars (n : Nat) : decVal (decChars n) = n := by
  unfold decVal decChars
  rw [foldl_digitChars _ (digits_lt 10 n)]
  exact decode_digits 10 (by omega) n

theorem foldl_replicate_zeroChar (k : Nat) (cs : List Char) :
    (List.replicate k '0' ++ cs).foldl (fun r c => r * 10 + (c.toNat - 48)) 0
      = cs.foldl (fun r c => r * 10 + (c.toNat - 48)) 0 := by
  induction k with
  | zero => simp
  | succ k ih => simpa [List.replicate_succ] using ih

theorem decVal_pad4Chars (n : Nat) : decVal (pad4Chars n) = n := by
  unfold pad4Chars rjust
  unfold decVal
  rw [foldl_replicate_zeroChar]
  exact decVal_decChars n

theorem decChars_isDigit (n : Nat) : ∀ c ∈ decChars n, isDigit c = true := by
  intro c hc
  unfold decChars at hc
  obtain ⟨d, hd, rfl⟩ := List.mem_map.1 hc
  exact digitChar_isDigit d (digits_lt 10 n d hd)

theorem pad4Chars_isDigit (n : Nat) : ∀ c ∈ pad4Chars n, isDigit c = true := by
  intro c hc
  unfold pad4Chars rjust at hc
  rcases List.mem_append.1 hc with h | h
  · have := (List.mem_replicate.1 h).2
    subst this; decide
  · exact decChars_isDigit n c h

theorem pad4Chars_length (n : Nat) : 4 ≤ (pad4Chars n).length := by
  unfold pad4Chars rjust
  simp only [List.length_append, List.length_replicate]
  omega

theorem pad4Chars_injective : Function.Injective pad4Chars := by
  intro a b h
  have := congrArg decVal h
  simpa [decVal_pad4Chars] using this

/-! ### takeWhile / dropWhile over a block followed by a stopper -/

theorem takeWhile_block {α : Type} (p : α → Bool) (l : List α) (x : α) (r : List α)
    (hl : ∀ a ∈ l, p a = true) (hx : p x = false) : (l ++ x :: r).takeWhile p = l := by
  induction l with
  | nil => simp [hx]
  | cons a as ih =>
    simp only [List.cons_append, List.takeWhile_cons, hl a (by simp), if_true]
    rw [ih (fun b hb => hl b (by simp [hb]))]

theorem dropWhile_block {α : Type} (p : α → Bool) (l : List α) (x : α) (r : List α)
    (hl : ∀ a ∈ l, p a = true) (hx : p x = false) : (l ++ x :: r).dropWhile p = x :: r := by
  induction l with
  | nil => simp [hx]
  | cons a as ih =>
    simp only [List.cons_append, List.dropWhile_cons, hl a (by simp), if_true]
    exact ih (fun b hb => hl b (by simp [hb]))

/-! ### parsing a stem / a file name that starts with a block of at least four digits -/

/-- a stem `dddd_tail`: the number, provided the tail is non-empty and newline-free -/
theorem parseGenStem_block (ds tail : List Char) (hd : ∀ c ∈ ds, isDigit c = true) (hlen : 4 ≤ ds.length) :
    parseGenStem (ds ++ '_' :: tail)
      = if tail.isEmpty || tail.contains '\n' then none else some (decVal ds) := by
  unfold parseGenStem
  simp only [takeWhile_block isDigit ds '_' tail hd (by decide),
    dropWhile_block isDigit ds '_' tail hd (by decide)]
  rw [if_neg (by omega)]
  rfl

/-- a file name `stem.mhl` whose stem starts with a digit is parsed by its stem -/
theorem parseGenChars_stem (c : Char) (body : List Char) (hc : isDigit c = true) :
    parseGenChars (c :: body ++ extChars) = parseGenStem (c :: body) := by
  have hne : c ≠ '.' := by
    intro h; subst h; revert hc; decide
  unfold parseGenChars
  have hlen : ((c :: body) ++ extChars).length - extChars.length = (c :: body).length := by
    simp only [List.length_append]; omega
  rw [hlen, List.drop_left, List.take_left, if_neg]
  intro h
  simp only [Bool.or_eq_true, Bool.and_eq_true, decide_eq_true_eq, bne_self_eq_false, Bool.false_eq_true,
    or_false] at h
  rcases h with ⟨_, h⟩ | h
  · cases body with
    | nil => simp [extChars_eq] at h
    | cons b bs => simp at h; exact hne h.1
  · simp only [List.length_append] at h; omega

/-! ### `isort` -/

theorem mem_insertSorted {α : Type} (le : α → α → Bool) (a x : α) (l : List α) :
    x ∈ insertSorted le a l ↔ x = a ∨ x ∈ l := by
  induction l with
  | nil => simp [insertSorted]
  | cons y ys ih =>
    unfold insertSorted
    split
    · simp
    · simp only [List.mem_cons, ih]
      constructor
      · rintro (h | h | h)
        · exact Or.inr (Or.inl h)
        · exact Or.inl h
        · exact Or.inr (Or.inr h)
      · rintro (h | h | h)
        · exact Or.inr (Or.inl h)
        · exact Or.inl h
        · exact Or.inr (Or.inr h)

theorem mem_isort_n {α : Type} (le : α → α → Bool) (x : α) (l : List α) : x ∈ isort le l ↔ x ∈ l := by
  induction l with
  | nil => simp [isort]
  | cons y ys ih => simp [isort, mem_insertSorted, ih]

theorem insertSorted_perm_n {α : Type} (le : α → α → Bool) (a : α) (l : List α) :
    (insertSorted le a l).Perm (a :: l) := by
  induction l with
  | nil => simp [insertSorted]
  | cons y ys ih =>
    unfold insertSorted
    split
    · exact List.Perm.refl _
    · exact (List.Perm.cons y ih).trans (List.Perm.swap a y ys)

theorem isort_perm_n {α : Type} (le : α → α → Bool) (l : List α) : (isort le l).Perm l := by
  induction l with
  | nil => simp [isort]
  | cons y ys ih => exact (insertSorted_perm_n le y _).trans (List.Perm.cons y ih)

theorem isort_length_n {α : Type} (le : α → α → Bool) (l : List α) : (isort le l).length = l.length :=
  (isort_perm_n le l).length_eq

/-- sorting by a natural-number key gives an ascending list -/
theorem insertSorted_pairwise {α : Type} (key : α → Nat) (a : α) (l : List α)
    (h : l.Pairwise (fun x y => key x ≤ key y)) :
    (insertSorted (fun x y => decide (key x ≤ key y)) a l).Pairwise (fun x y => key x ≤ key y) := by
  induction l with
  | nil => simp [insertSorted]
  | cons y ys ih =>
    unfold insertSorted
    rw [List.pairwise_cons] at h
    split
    · next hle =>
      have hle : key a ≤ key y := by simpa using hle
      rw [List.pairwise_cons]
      refine ⟨?_, List.pairwise_cons.2 h⟩
      intro b hb
      rcases List.mem_cons.1 hb with rfl | hb
      · exact hle
      · exact Nat.le_trans hle (h.1 b hb)
    · next hle =>
      have hlt : key y ≤ key a := by
        have : ¬ key a ≤ key y := by simpa using hle
        omega
      rw [List.pairwise_cons]
      refine ⟨?_, ih h.2⟩
      intro b hb
      rcases (mem_insertSorted _ a b ys).1 hb with rfl | hb
      · exact hlt
      · exact h.1 b hb

theorem isort_pairwise {α : Type} (key : α → Nat) (l : List α) :
    (isort (fun x y => decide (key x ≤ key y)) l).Pairwise (fun x y => key x ≤ key y) := by
  induction l with
  | nil => simp [isort]
  | cons y ys ih => exact insertSorted_pairwise key y _ ih

/-- stability at the end: an element that is not smaller than everything before it stays last -/
theorem insertSorted_append_last {α : Type} (le : α → α → Bool) (a x : α) (l : List α) (h : le a x = true) :
    insertSorted le a (l ++ [x]) = insertSorted le a l ++ [x] := by
  induction l with
  | nil => simp [insertSorted, h]
  | cons y ys ih =>
    simp only [List.cons_append, insertSorted]
    split
    · rfl
    · rw [ih]; rfl

theorem isort_append_last {α : Type} (le : α → α → Bool) (x : α) (l : List α) (h : ∀ a ∈ l, le a x = true) :
    isort le (l ++ [x]) = isort le l ++ [x] := by
  induction l with
  | nil => simp [isort, insertSorted]
  | cons y ys ih =>
    simp only [List.cons_append, isort]
    rw [ih (fun a ha => h a (by simp [ha])), insertSorted_append_last le y x _ (h y (by simp))]

/-- an already ascending list is left alone -/
theorem isort_of_pairwise {α : Type} (key : α → Nat) (l : List α)
    (h : l.Pairwise (fun x y => key x ≤ key y)) :
    isort (fun x y => decide (key x ≤ key y)) l = l := by
  induction l with
  | nil => rfl
  | cons y ys ih =>
    rw [List.pairwise_cons] at h
    simp only [isort, ih h.2]
    cases ys with
    | nil => rfl
    | cons z zs => simp [insertSorted, h.1 z (by simp)]

/-! ### the latest generation number -/

theorem latestGenerationNumber_append_one (gens : List LGen) (g : LGen) :
    latestGenerationNumber (gens ++ [g])
      = if g.number != 0 then g.number else latestGenerationNumber gens := by
  simp [latestGenerationNumber, List.foldl_append]

/-! ### tree updates -/

theorem Node.updateAt_name (f : Node → Node) (hf : ∀ x, (f x).name = x.name) (t : Node) (p : RelPath) :
    (Node.updateAt f t p).name = t.name := by
  cases p with
  | nil => cases t <;> simp [Node.updateAt, hf]
  | cons n rest => cases t <;> simp [Node.updateAt, Node.name]

theorem findChild_updateKids_ne (f : Node → Node) (hf : ∀ x, (f x).name = x.name) (n m : String)
    (rest : RelPath) (cs : List Node) (hnm : m ≠ n) :
    findChild (Node.updateKids f n rest cs) m = findChild cs m := by
  induction cs with
  | nil => simp [Node.updateKids]
  | cons c cs ih =>
    unfold findChild at ih ⊢
    simp only [Node.updateKids]
    by_cases hc : c.name = n
    · subst hc
      have h1 : ((Node.updateAt f c rest).name == m) = false := by
        rw [Node.updateAt_name f hf]; exact beq_false_of_ne (Ne.symm hnm)
      have h2 : (c.name == m) = false := beq_false_of_ne (Ne.symm hnm)
      simp only [beq_self_eq_true, if_true, List.find?_cons, h1, h2]
      exact ih
    · have : (c.name == n) = false := by simp [hc]
      simp only [this, Bool.false_eq_true, if_false, List.find?_cons]
      cases c.name == m
      · exact ih
      · rfl

theorem findChild_updateKids_eq (f : Node → Node) (hf : ∀ x, (f x).name = x.name) (n : String)
    (rest : RelPath) (cs : List Node) :
    findChild (Node.updateKids f n rest cs) n = (findChild cs n).map fun c => Node.updateAt f c rest := by
  induction cs with
  | nil => simp [Node.updateKids, findChild]
  | cons c cs ih =>
    unfold findChild at ih ⊢
    simp only [Node.updateKids]
    by_cases hc : c.name = n
    · have h1 : ((Node.updateAt f c rest).name == n) = true := by
        rw [Node.updateAt_name f hf]; simp [hc]
      simp [hc, h1]
    · have : (c.name == n) = false := by simp [hc]
      simp only [this, Bool.false_eq_true, if_false, List.find?_cons]
      exact ih

end MhlModel
