/- Lemmas about `flattenRecords` (C18): the nested fold is one fold of `ins` over the list of non-failed file
entries (`items`), and that fold maintains an invariant that describes the result completely. -/
import MhlModel.Commands

namespace MhlModel

/-! ### `isort` keeps the elements -/

theorem insertSorted_perm_f {α : Type} (le : α → α → Bool) (a : α) (l : List α) :
    (insertSorted le a l).Perm (a :: l) := by
  induction l with
  | nil => exact List.Perm.refl _
  | cons x xs ih =>
    unfold insertSorted
    split
    · exact List.Perm.refl _
    · exact (List.Perm.cons x ih).trans (List.Perm.swap a x xs)

theorem isort_perm_f {α : Type} (le : α → α → Bool) (l : List α) : (isort le l).Perm l := by
  induction l with
  | nil => exact List.Perm.refl _
  | cons x xs ih =>
    unfold isort
    exact (insertSorted_perm_f le x _).trans (List.Perm.cons x ih)

theorem mem_isort_f {α : Type} (le : α → α → Bool) (l : List α) (x : α) : x ∈ isort le l ↔ x ∈ l :=
  (isort_perm_f le l).mem_iff

theorem length_isort_f {α : Type} (le : α → α → Bool) (l : List α) : (isort le l).length = l.length :=
  (isort_perm_f le l).length_eq

/-! ### the three step functions of `flattenRecords`, named -/

/-- one digest of a file record that is taken into account: path and size of the record, and the entry -/
structure Item where
  path : String
  size : Option Nat
  entry : Entry
  deriving Repr, DecidableEq

/-- take one non-failed entry over -/
def ins (acc : List Record) (it : Item) : List Record :=
  match acc.find? (fun x => x.path == it.path) with
  | none => acc ++ [{ path := it.path, size := it.size, entries := [it.entry] }]
  | some x =>
    if x.entries.any (fun y => y.fmt == it.entry.fmt) then acc
    else acc.map fun y => if y.path == it.path then { y with entries := y.entries ++ [it.entry] } else y

def stepEntry (r : Record) (acc : List Record) (e : Entry) : List Record :=
  if e.action == "failed" then acc else ins acc ⟨r.path, r.size, e⟩

def stepRecord (acc : List Record) (r : Record) : List Record :=
  if r.isDir then acc else r.entries.foldl (stepEntry r) acc

def stepGen (acc : List Record) (g : LGen) : List Record :=
  g.gen.records.foldl stepRecord acc

theorem flattenRecords_eq_foldl (gens : List LGen) : flattenRecords gens = gens.foldl stepGen [] := rfl

/-! ### the items of a history, in the order in which `flattenRecords` meets them -/

def itemsOfRecord (r : Record) : List Item :=
  if r.isDir then []
  else (r.entries.filter fun e => !(e.action == "failed")).map fun e => ⟨r.path, r.size, e⟩

def itemsOfGen (g : LGen) : List Item := g.gen.records.flatMap itemsOfRecord

def items (gens : List LGen) : List Item := gens.flatMap itemsOfGen

theorem foldl_flatMap' {α β γ : Type} (f : α → List β) (g : γ → β → γ) (l : List α) (acc : γ) :
    (l.flatMap f).foldl g acc = l.foldl (fun acc x => (f x).foldl g acc) acc := by
  induction l generalizing acc with
  | nil => rfl
  | cons x xs ih => simp [List.flatMap_cons, List.foldl_append, ih]

theorem stepRecord_eq (acc : List Record) (r : Record) :
    stepRecord acc r = (itemsOfRecord r).foldl ins acc := by
  unfold stepRecord itemsOfRecord
  by_cases hd : r.isDir = true
  · simp [hd]
  · simp only [hd, Bool.false_eq_true, ↓reduceIte]
    generalize r.entries = es
    induction es generalizing acc with
    | nil => rfl
    | cons e es ih =>
      simp only [List.foldl_cons, List.filter_cons]
      by_cases hf : (e.action == "failed") = true
      · simp [stepEntry, hf, ih]
      · simp [stepEntry, hf, ih]

theorem stepGen_eq (acc : List Record) (g : LGen) : stepGen acc g = (itemsOfGen g).foldl ins acc := by
  unfold stepGen itemsOfGen
  rw [foldl_flatMap']
  congr 1
  funext acc r
  exact stepRecord_eq acc r

theorem flattenRecords_eq_items (gens : List LGen) : flattenRecords gens = (items gens).foldl ins [] := by
  rw [flattenRecords_eq_foldl]
  unfold items
  rw [foldl_flatMap']
  congr 1
  funext acc g
  exact stepGen_eq acc g

theorem mem_itemsOfRecord (r : Record) (it : Item) :
    it ∈ itemsOfRecord r ↔ r.isDir = false ∧ ∃ e ∈ r.entries, e.action ≠ "failed" ∧ it = ⟨r.path, r.size, e⟩ := by
  unfold itemsOfRecord
  by_cases hd : r.isDir = true
  · simp [hd]
  · simp only [Bool.not_eq_true] at hd
    simp only [hd, Bool.false_eq_true, ↓reduceIte, List.mem_map, List.mem_filter, true_and]
    constructor
    · rintro ⟨e, ⟨he, hf⟩, rfl⟩
      exact ⟨e, he, by simpa using hf, rfl⟩
    · rintro ⟨e, he, hf, rfl⟩
      exact ⟨e, ⟨he, by simpa using hf⟩, rfl⟩

theorem mem_items (gens : List LGen) (it : Item) :
    it ∈ items gens ↔ ∃ g ∈ gens, ∃ r ∈ g.gen.records, r.isDir = false ∧
      ∃ e ∈ r.entries, e.action ≠ "failed" ∧ it = ⟨r.path, r.size, e⟩ := by
  unfold items itemsOfGen
  simp only [List.mem_flatMap, mem_itemsOfRecord]

/-! ### the first item of a path and format -/

/-- the entry of the first item with that path and format -/
def firstItem (L : List Item) (p fmt : String) : Option Entry :=
  (L.find? fun it => it.path == p && it.entry.fmt == fmt).map (·.entry)

theorem firstItem_snoc (L : List Item) (it : Item) (p fmt : String) :
    firstItem (L ++ [it]) p fmt =
      (firstItem L p fmt).or (if it.path = p ∧ it.entry.fmt = fmt then some it.entry else none) := by
  unfold firstItem
  rw [List.find?_append]
  cases L.find? (fun it => it.path == p && it.entry.fmt == fmt) with
  | some x => simp
  | none =>
    by_cases h : it.path = p ∧ it.entry.fmt = fmt
    · simp [h]
    · have : (it.path == p && it.entry.fmt == fmt) = false := by
        simpa [Bool.and_eq_false_iff] using h
      simp [h, this]

theorem firstItem_some {L : List Item} {p fmt : String} {e : Entry} (h : firstItem L p fmt = some e) :
    e.fmt = fmt ∧ ∃ it ∈ L, it.path = p ∧ it.entry = e := by
  unfold firstItem at h
  rw [Option.map_eq_some_iff] at h
  obtain ⟨it, hfind, rfl⟩ := h
  have hp := List.find?_some hfind
  have hm := List.mem_of_find?_eq_some hfind
  simp only [Bool.and_eq_true, beq_iff_eq] at hp
  exact ⟨hp.2, it, hm, hp.1, rfl⟩

theorem firstItem_isSome_of_mem {L : List Item} {it : Item} (h : it ∈ L) :
    ∃ e, firstItem L it.path it.entry.fmt = some e := by
  unfold firstItem
  have : (L.find? fun x => x.path == it.path && x.entry.fmt == it.entry.fmt).isSome := by
    rw [List.find?_isSome]
    exact ⟨it, h, by simp⟩
  obtain ⟨x, hx⟩ := Option.isSome_iff_exists.mp this
  exact ⟨x.entry, by simp [hx]⟩

/-! ### the invariant of the fold -/

theorem eq_of_nodup_map_path {acc : List Record} (h : (acc.map (·.path)).Nodup) {r x : Record}
    (hr : r ∈ acc) (hx : x ∈ acc) (hp : r.path = x.path) : r = x := by
  induction acc with
  | nil => cases hr
  | cons a as ih =>
    rw [List.map_cons, List.nodup_cons] at h
    rcases List.mem_cons.mp hr with rfl | hr' <;> rcases List.mem_cons.mp hx with rfl | hx'
    · rfl
    · exact absurd (List.mem_map.mpr ⟨x, hx', hp.symm⟩) h.1
    · exact absurd (List.mem_map.mpr ⟨r, hr', hp⟩) h.1
    · exact ih h.2 hr' hx'

/-- what holds of the accumulator `acc` after the items `L` have been taken in -/
structure Inv (L : List Item) (acc : List Record) : Prop where
  noDir : ∀ r ∈ acc, r.isDir = false
  pathsNodup : (acc.map (·.path)).Nodup
  fmtsNodup : ∀ r ∈ acc, (r.entries.map (·.fmt)).Nodup
  nonempty : ∀ r ∈ acc, r.entries ≠ []
  sound : ∀ r ∈ acc, ∀ e ∈ r.entries, firstItem L r.path e.fmt = some e
  complete : ∀ p fmt e, firstItem L p fmt = some e → ∃ r ∈ acc, r.path = p ∧ e ∈ r.entries

theorem Inv.nil : Inv [] [] where
  noDir := by simp
  pathsNodup := by simp
  fmtsNodup := by simp
  nonempty := by simp
  sound := by simp
  complete := by simp [firstItem]

theorem Inv.step {L : List Item} {acc : List Record} (inv : Inv L acc) (it : Item) :
    Inv (L ++ [it]) (ins acc it) := by
  unfold ins
  split
  · -- a new path
    next hnone =>
    have hnew : ∀ r ∈ acc, r.path ≠ it.path := by
      intro r hr
      have := List.find?_eq_none.mp hnone r hr
      simpa using this
    have hfirst : ∀ fmt, firstItem L it.path fmt = none := by
      intro fmt
      cases hf : firstItem L it.path fmt with
      | none => rfl
      | some e =>
        obtain ⟨r, hr, hp, _⟩ := inv.complete _ _ _ hf
        exact absurd hp (hnew r hr)
    refine ⟨?_, ?_, ?_, ?_, ?_, ?_⟩
    · intro r hr
      rcases List.mem_append.mp hr with h | h
      · exact inv.noDir r h
      · simp at h; subst h; rfl
    · rw [List.map_append, List.nodup_append]
      refine ⟨inv.pathsNodup, by simp, ?_⟩
      intro a ha b hb
      simp at hb; subst hb
      obtain ⟨r, hr, rfl⟩ := List.mem_map.mp ha
      exact hnew r hr
    · intro r hr
      rcases List.mem_append.mp hr with h | h
      · exact inv.fmtsNodup r h
      · simp at h; subst h; simp
    · intro r hr
      rcases List.mem_append.mp hr with h | h
      · exact inv.nonempty r h
      · simp at h; subst h; simp
    · intro r hr e he
      rw [firstItem_snoc]
      rcases List.mem_append.mp hr with h | h
      · rw [inv.sound r h e he]; rfl
      · simp at h; subst h
        simp at he; subst he
        simp [hfirst]
    · intro p fmt e h
      rw [firstItem_snoc] at h
      cases hf : firstItem L p fmt with
      | some e' =>
        rw [hf] at h
        simp at h; subst h
        obtain ⟨r, hr, hp, he⟩ := inv.complete _ _ _ hf
        exact ⟨r, List.mem_append_left _ hr, hp, he⟩
      | none =>
        rw [hf] at h
        by_cases hc : it.path = p ∧ it.entry.fmt = fmt
        · simp [hc] at h
          exact ⟨_, List.mem_append_right _ (List.mem_singleton.mpr rfl), hc.1, by simp [h]⟩
        · simp [hc] at h
  · -- a path that has a record already
    next x hsome =>
    have hx : x ∈ acc := List.mem_of_find?_eq_some hsome
    have hxp : x.path = it.path := by simpa using List.find?_some hsome
    have huniq : ∀ r ∈ acc, r.path = it.path → r = x := fun r hr hp =>
      eq_of_nodup_map_path inv.pathsNodup hr hx (hp.trans hxp.symm)
    split
    · -- the format is there already: nothing changes
      next hany =>
      obtain ⟨y, hy, hyf⟩ := List.any_eq_true.mp hany
      have hyf : y.fmt = it.entry.fmt := by simpa using hyf
      have hsame : ∀ p fmt, firstItem (L ++ [it]) p fmt = firstItem L p fmt := by
        intro p fmt
        rw [firstItem_snoc]
        by_cases hc : it.path = p ∧ it.entry.fmt = fmt
        · have := inv.sound x hx y hy
          rw [hxp, hyf, hc.1, hc.2] at this
          simp [this]
        · simp [hc]
      exact ⟨inv.noDir, inv.pathsNodup, inv.fmtsNodup, inv.nonempty,
        fun r hr e he => by rw [hsame]; exact inv.sound r hr e he,
        fun p fmt e h => inv.complete p fmt e (by rw [← hsame]; exact h)⟩
    · -- a new format for the path
      next hany =>
      have hnofmt : ∀ y ∈ x.entries, y.fmt ≠ it.entry.fmt := by
        intro y hy hyf
        apply hany
        exact List.any_eq_true.mpr ⟨y, hy, by simpa using hyf⟩
      have hfirst : firstItem L it.path it.entry.fmt = none := by
        cases hf : firstItem L it.path it.entry.fmt with
        | none => rfl
        | some e =>
          obtain ⟨r, hr, hp, he⟩ := inv.complete _ _ _ hf
          have := huniq r hr hp
          subst this
          exact absurd (firstItem_some hf).1 (hnofmt e he)
      -- membership in the updated accumulator
      have hmem : ∀ r', r' ∈ acc.map (fun y => if y.path == it.path
          then { y with entries := y.entries ++ [it.entry] } else y) ↔
          (r' ∈ acc ∧ r'.path ≠ it.path) ∨ r' = { x with entries := x.entries ++ [it.entry] } := by
        intro r'
        rw [List.mem_map]
        constructor
        · rintro ⟨r, hr, rfl⟩
          by_cases hp : r.path = it.path
          · right
            have := huniq r hr hp
            subst this
            simp [hp]
          · left
            simp [hp, hr]
        · rintro (⟨hr, hp⟩ | rfl)
          · exact ⟨r', hr, by simp [hp]⟩
          · exact ⟨x, hx, by simp [hxp]⟩
      refine ⟨?_, ?_, ?_, ?_, ?_, ?_⟩
      · intro r hr
        rcases (hmem r).mp hr with ⟨h, _⟩ | rfl
        · exact inv.noDir r h
        · exact inv.noDir x hx
      · have : (acc.map (fun y => if y.path == it.path
            then { y with entries := y.entries ++ [it.entry] } else y)).map (·.path) = acc.map (·.path) := by
          rw [List.map_map]
          apply List.map_congr_left
          intro r _
          simp only [Function.comp]
          split <;> rfl
        rw [this]
        exact inv.pathsNodup
      · intro r hr
        rcases (hmem r).mp hr with ⟨h, _⟩ | rfl
        · exact inv.fmtsNodup r h
        · simp only [List.map_append, List.map_cons, List.map_nil]
          rw [List.nodup_append]
          refine ⟨inv.fmtsNodup x hx, by simp, ?_⟩
          intro a ha b hb
          simp at hb; subst hb
          obtain ⟨y, hy, rfl⟩ := List.mem_map.mp ha
          exact hnofmt y hy
      · intro r hr
        rcases (hmem r).mp hr with ⟨h, _⟩ | rfl
        · exact inv.nonempty r h
        · simp
      · intro r hr e he
        rw [firstItem_snoc]
        rcases (hmem r).mp hr with ⟨h, _⟩ | rfl
        · rw [inv.sound r h e he]; rfl
        · simp only [List.mem_append, List.mem_singleton] at he
          rcases he with he | rfl
          · have := inv.sound x hx e he
            simp only at this ⊢
            rw [this]; rfl
          · simp only
            rw [hxp, hfirst]
            simp
      · intro p fmt e h
        rw [firstItem_snoc] at h
        cases hf : firstItem L p fmt with
        | some e' =>
          rw [hf] at h
          simp at h; subst h
          obtain ⟨r, hr, hp, he⟩ := inv.complete _ _ _ hf
          by_cases hrp : r.path = it.path
          · have := huniq r hr hrp
            subst this
            exact ⟨_, (hmem _).mpr (Or.inr rfl), hp, by simp [he]⟩
          · exact ⟨r, (hmem r).mpr (Or.inl ⟨hr, hrp⟩), hp, he⟩
        | none =>
          rw [hf] at h
          by_cases hc : it.path = p ∧ it.entry.fmt = fmt
          · simp [hc] at h
            exact ⟨_, (hmem _).mpr (Or.inr rfl), hxp.trans hc.1, by simp [h]⟩
          · simp [hc] at h

theorem Inv.foldl {L₀ : List Item} {acc : List Record} (inv : Inv L₀ acc) (L : List Item) :
    Inv (L₀ ++ L) (L.foldl ins acc) := by
  induction L generalizing L₀ acc with
  | nil => simpa using inv
  | cons it L ih =>
    have := ih (inv.step it)
    simpa using this

/-- the invariant holds of the result of `flattenRecords` with all items of the history -/
theorem flattenRecords_inv (gens : List LGen) : Inv (items gens) (flattenRecords gens) := by
  rw [flattenRecords_eq_items]
  simpa using Inv.nil.foldl (items gens)

/-! ### the earliest entry that did not fail, stated over the generations -/

/-- the first entry - generations in order, records in order, entries in order - of a file record with path `p`
that has format `fmt` and did not fail -/
def firstNonFailed (gens : List LGen) (p fmt : String) : Option Entry :=
  gens.findSome? fun g => g.gen.records.findSome? fun r =>
    if r.isDir = false ∧ r.path = p then r.entries.find? (fun e => e.fmt == fmt && e.action != "failed")
    else none

theorem map_findSome? {α β γ : Type} (f : α → Option β) (g : β → γ) (l : List α) :
    (l.findSome? f).map g = l.findSome? (fun x => (f x).map g) := by
  induction l with
  | nil => rfl
  | cons x xs ih =>
    simp only [List.findSome?_cons]
    cases f x <;> simp [ih]

theorem firstItem_flatMap {α : Type} (f : α → List Item) (l : List α) (p fmt : String) :
    firstItem (l.flatMap f) p fmt = l.findSome? (fun x => firstItem (f x) p fmt) := by
  unfold firstItem
  rw [List.find?_flatMap, map_findSome?]

theorem firstItem_itemsOfRecord (r : Record) (p fmt : String) :
    firstItem (itemsOfRecord r) p fmt =
      if r.isDir = false ∧ r.path = p then r.entries.find? (fun e => e.fmt == fmt && e.action != "failed")
      else none := by
  unfold firstItem itemsOfRecord
  by_cases hd : r.isDir = true
  · simp [hd]
  · simp only [hd, Bool.false_eq_true, ↓reduceIte]
    simp only [true_and]
    generalize r.entries = es
    induction es with
    | nil => simp
    | cons e es ih =>
      simp only [List.filter_cons]
      by_cases hf : (e.action == "failed") = true
      · simp only [hf, Bool.not_true, Bool.false_eq_true, ↓reduceIte, ih]
        have : (e.action != "failed") = false := by simp [bne, hf]
        simp [this]
      · simp only [Bool.not_eq_true] at hf
        have hne : (e.action != "failed") = true := by simp [bne, hf]
        simp only [hf, Bool.not_false, ↓reduceIte, List.map_cons, List.find?_cons, hne, Bool.and_true]
        by_cases hp : r.path = p
        · by_cases hfm : e.fmt = fmt
          · simp [hp, hfm]
          · have : (e.fmt == fmt) = false := by simpa using hfm
            simp only [hp, beq_self_eq_true, Bool.true_and, this]
            simpa [hp] using ih
        · have : (r.path == p) = false := by simpa using hp
          simp only [this, Bool.false_and, hp, ↓reduceIte]
          simp [hp]

theorem firstNonFailed_eq_firstItem (gens : List LGen) (p fmt : String) :
    firstNonFailed gens p fmt = firstItem (items gens) p fmt := by
  unfold firstNonFailed items itemsOfGen
  rw [firstItem_flatMap]
  congr 1
  funext g
  rw [firstItem_flatMap]
  congr 1
  funext r
  exact (firstItem_itemsOfRecord r p fmt).symm

end MhlModel
