/- Lemmas about the lookups over generations and `appendNew` folds (C04, C12, C18). -/
import MhlModel.Seal

namespace MhlModel

theorem mem_appendNew [DecidableEq α] (l : List α) (x y : α) : y ∈ appendNew l x ↔ y ∈ l ∨ y = x := by
  unfold appendNew
  split
  · next h => constructor
              · exact Or.inl
              · rintro (h' | rfl)
                · exact h'
                · exact h
  · simp

theorem nodup_appendNew [DecidableEq α] (l : List α) (x : α) (h : l.Nodup) : (appendNew l x).Nodup := by
  unfold appendNew
  split
  · exact h
  · next hx =>
    rw [List.nodup_append]
    refine ⟨h, by simp, ?_⟩
    intro a ha b hb
    simp at hb; subst hb
    intro hab; subst hab; exact hx ha

theorem mem_foldl_appendNew [DecidableEq β] (f : α → β) (l : List α) (acc : List β) (y : β) :
    y ∈ l.foldl (fun a e => appendNew a (f e)) acc ↔ y ∈ acc ∨ ∃ e ∈ l, f e = y := by
  induction l generalizing acc with
  | nil => simp
  | cons a as ih =>
    simp only [List.foldl_cons, ih, mem_appendNew, List.mem_cons]
    constructor
    · rintro ((h | rfl) | ⟨e, he, rfl⟩)
      · exact Or.inl h
      · exact Or.inr ⟨a, Or.inl rfl, rfl⟩
      · exact Or.inr ⟨e, Or.inr he, rfl⟩
    · rintro (h | ⟨e, (rfl | he), rfl⟩)
      · exact Or.inl (Or.inl h)
      · exact Or.inl (Or.inr rfl)
      · exact Or.inr ⟨e, he, rfl⟩

theorem nodup_foldl_appendNew [DecidableEq β] (f : α → β) (l : List α) (acc : List β) (h : acc.Nodup) :
    (l.foldl (fun a e => appendNew a (f e)) acc).Nodup := by
  induction l generalizing acc with
  | nil => simpa
  | cons a as ih => exact ih _ (nodup_appendNew acc (f a) h)

/-- the formats ever recorded for a path: exactly those of the entries of its records -/
theorem mem_existingFormats (gens : List LGen) (p fmt : String) :
    fmt ∈ existingFormats gens p ↔
      ∃ g ∈ gens, ∃ r, g.gen.find p = some r ∧ ∃ e ∈ r.entries, e.fmt = fmt := by
  unfold existingFormats
  suffices h : ∀ acc : List String,
      fmt ∈ gens.foldl (existingStep p) acc ↔
        fmt ∈ acc ∨ ∃ g ∈ gens, ∃ r, g.gen.find p = some r ∧ ∃ e ∈ r.entries, e.fmt = fmt by
    simpa using h []
  induction gens with
  | nil => simp
  | cons g gs ih =>
    intro acc
    simp only [List.foldl_cons, ih, List.mem_cons]
    unfold existingStep
    cases hf : g.gen.find p with
    | none =>
      constructor
      · rintro (h | ⟨g', hg', r, hr, he⟩)
        · exact Or.inl h
        · exact Or.inr ⟨g', Or.inr hg', r, hr, he⟩
      · rintro (h | ⟨g', (rfl | hg'), r, hr, he⟩)
        · exact Or.inl h
        · simp [hf] at hr
        · exact Or.inr ⟨g', hg', r, hr, he⟩
    | some r0 =>
      simp only [mem_foldl_appendNew]
      constructor
      · rintro ((h | ⟨e, he, rfl⟩) | ⟨g', hg', r, hr, he⟩)
        · exact Or.inl h
        · exact Or.inr ⟨g, Or.inl rfl, r0, hf, e, he, rfl⟩
        · exact Or.inr ⟨g', Or.inr hg', r, hr, he⟩
      · rintro (h | ⟨g', (rfl | hg'), r, hr, e, he, rfl⟩)
        · exact Or.inl (Or.inl h)
        · rw [hf] at hr; cases hr
          exact Or.inl (Or.inr ⟨e, he, rfl⟩)
        · exact Or.inr ⟨g', hg', r, hr, e, he, rfl⟩

theorem existingFormats_nodup (gens : List LGen) (p : String) : (existingFormats gens p).Nodup := by
  unfold existingFormats
  suffices h : ∀ acc : List String, acc.Nodup →
      (gens.foldl (existingStep p) acc).Nodup from h [] (by simp)
  induction gens with
  | nil => intro acc h; simpa
  | cons g gs ih =>
    intro acc h
    simp only [List.foldl_cons]
    apply ih
    unfold existingStep
    cases g.gen.find p with
    | none => exact h
    | some r => exact nodup_foldl_appendNew _ _ _ h

/-- what `findFirstOfFormat` returns is an entry of that format of a record of the path -/
theorem findFirstOfFormat_spec (gens : List LGen) (p fmt : String) (e : Entry)
    (h : findFirstOfFormat gens p fmt = some e) :
    ∃ g ∈ gens, ∃ r, g.gen.find p = some r ∧ e ∈ r.entries ∧ e.fmt = fmt := by
  unfold findFirstOfFormat at h
  obtain ⟨g, hg, hh⟩ := List.exists_of_findSome?_eq_some h
  cases hf : g.gen.find p with
  | none => simp [hf] at hh
  | some r =>
    simp only [hf] at hh
    have := List.find?_some hh
    exact ⟨g, hg, r, hf, List.mem_of_find?_eq_some hh, by simpa using this⟩

theorem findFirstOfFormat_none_iff (gens : List LGen) (p fmt : String) :
    findFirstOfFormat gens p fmt = none ↔ fmt ∉ existingFormats gens p := by
  rw [mem_existingFormats]
  unfold findFirstOfFormat
  rw [List.findSome?_eq_none_iff]
  constructor
  · intro h ⟨g, hg, r, hr, e, he, hfmt⟩
    have := h g hg
    simp only [hr] at this
    rw [List.find?_eq_none] at this
    exact this e he (by simp [hfmt])
  · intro h g hg
    cases hr : g.gen.find p with
    | none => rfl
    | some r =>
      simp only
      rw [List.find?_eq_none]
      intro e he hfmt
      exact h ⟨g, hg, r, hr, e, he, by simpa using hfmt⟩

end MhlModel
