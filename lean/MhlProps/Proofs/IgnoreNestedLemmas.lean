/-
Helper lemmas for C12nested: pattern lists (`basePatterns`, `setPatterns`) at list level, the pattern list of the
generations a commit writes, congruence of the traversal folds in the tree, and the reconstruction of the traversal
from the list of visible paths.
-/
import MhlProps.C12
import MhlProps.C06seq
import MhlProps.C08part
import MhlProps.C03
import MhlProps.Proofs.RenameLemmas
import MhlProps.Proofs.NestedSealLemmas

namespace MhlProps.IgnoreNested
open MhlModel MhlProps.C12

/-! ## A. pattern lists -/

/-- the recorded list with repeated patterns dropped (first occurrences kept, in order) -/
theorem appendPatterns_nil_of_nodup (l : List String) (h : l.Nodup) : appendPatterns [] l = l :=
  setPatterns_keeps_previous.appendPatterns_nil_nodup l h

theorem basePatterns_some_nil : basePatterns (some []) = Gen.defaultIgnore := by decide

/-- a recorded, non-empty list: the starting list is that list with later repetitions of a pattern dropped -/
theorem basePatterns_some_ne (l : List String) (hne : l ≠ []) : basePatterns (some l) = appendPatterns [] l := by
  have hemp : l.isEmpty = false := by cases l <;> simp_all
  simp [basePatterns, hemp]

/-- a recorded, non-empty, duplicate-free list is the starting list itself -/
theorem basePatterns_some_nodup (l : List String) (hne : l ≠ []) (hnd : l.Nodup) : basePatterns (some l) = l := by
  rw [basePatterns_some_ne l hne, appendPatterns_nil_of_nodup l hnd]

theorem basePatterns_nodup (ex : Option (List String)) : (basePatterns ex).Nodup := by
  have base : ∀ l : List String, (appendPatterns [] l).Nodup := fun l => appendPatterns_nodup [] l (by simp)
  unfold basePatterns
  cases ex with
  | none => exact base _
  | some l => simp only; split <;> exact base _

/-- the members of the starting list: the defaults when nothing (or an empty list) is recorded, else the recorded
patterns -/
theorem mem_basePatterns (ex : Option (List String)) (x : String) :
    x ∈ basePatterns ex ↔
      ((ex = none ∨ ex = some []) ∧ x ∈ Gen.defaultIgnore) ∨ (∃ l, ex = some l ∧ l ≠ [] ∧ x ∈ l) := by
  cases ex with
  | none =>
    rw [basePatterns_none]
    constructor
    · intro h; exact Or.inl ⟨Or.inl rfl, h⟩
    · rintro (⟨-, h⟩ | ⟨l, h, -⟩)
      · exact h
      · cases h
  | some l =>
    by_cases hne : l = []
    · subst hne
      rw [basePatterns_some_nil]
      constructor
      · intro h; exact Or.inl ⟨Or.inr rfl, h⟩
      · rintro (⟨-, h⟩ | ⟨l, h, hne, -⟩)
        · exact h
        · cases h; exact absurd rfl hne
    · rw [basePatterns_some_ne l hne, mem_appendPatterns]
      constructor
      · rintro (h | h)
        · cases h
        · exact Or.inr ⟨l, rfl, hne, h⟩
      · rintro (⟨h | h, -⟩ | ⟨l', h, -, hx⟩)
        · cases h
        · cases h; exact absurd rfl hne
        · cases h; exact Or.inr hx

/-- the starting list is a prefix of the result: nothing recorded is dropped or reordered -/
theorem basePatterns_prefix_setPatterns (ex : Option (List String)) (cli file : List String) :
    basePatterns ex <+: setPatterns ex cli file := by
  unfold setPatterns
  split <;> split <;>
    first
      | exact List.prefix_refl _
      | exact appendPatterns_prefix _ _
      | exact List.IsPrefix.trans (appendPatterns_prefix _ _) (appendPatterns_prefix _ _)

/-- `setPatterns` written out: the starting list, then the command-line patterns, then the file's -/
theorem setPatterns_eq (ex : Option (List String)) (cli file : List String) :
    setPatterns ex cli file = appendPatterns (appendPatterns (basePatterns ex) cli) file := by
  unfold setPatterns
  cases cli with
  | nil =>
    cases file with
    | nil => simp [appendPatterns]
    | cons f fs => simp [appendPatterns]
  | cons c cs =>
    cases file with
    | nil => simp [appendPatterns]
    | cons f fs => simp [appendPatterns]

/-- exactly the starting list, the command-line patterns and the file's patterns -/
theorem mem_setPatterns (ex : Option (List String)) (cli file : List String) (x : String) :
    x ∈ setPatterns ex cli file ↔ x ∈ basePatterns ex ∨ x ∈ cli ∨ x ∈ file := by
  rw [setPatterns_eq, mem_appendPatterns, mem_appendPatterns, or_assoc]

/-- what `setPatterns ex P []` adds after the starting list: patterns of `P` that were not there, each once, in the
order of `P` -/
theorem basePatterns_ne_nil (ex : Option (List String)) : basePatterns ex ≠ [] := by
  cases ex with
  | none => rw [basePatterns_none]; decide
  | some l =>
    by_cases hne : l = []
    · subst hne; rw [basePatterns_some_nil]; decide
    · rw [basePatterns_some_ne l hne]
      intro h0
      cases l with
      | nil => exact hne rfl
      | cons a as =>
        have : a ∈ appendPatterns [] (a :: as) := (mem_appendPatterns _ _ _).2 (Or.inr (by simp))
        rw [h0] at this
        cases this

theorem setPatterns_shape (ex : Option (List String)) (P : List String) :
    ∃ added, setPatterns ex P [] = basePatterns ex ++ added ∧ (∀ x ∈ added, x ∈ P ∧ x ∉ basePatterns ex) ∧
      (basePatterns ex ++ added).Nodup := by
  obtain ⟨added, h1, h2, h3⟩ := appendPatterns_eq (basePatterns ex) P
  refine ⟨added, ?_, h2, h3 (basePatterns_nodup ex)⟩
  rw [setPatterns_eq, h1]
  simp [appendPatterns]

end MhlProps.IgnoreNested

namespace MhlProps.IgnoreNested
open MhlModel MhlProps.C12

/-! ## B. the pattern list of the generations a commit writes -/

/-- every generation a commit writes belongs to a history of the walk and carries that history's starting list
followed by the session's patterns -/
theorem commit_ignore (g : Hist) (s : Session) (rn stamp process : String) (cb : Option String)
    (ws : List Written) (hcm : commit g s rn stamp process cb = .ok ws) :
    ∀ w ∈ ws, ∃ h ∈ walkPost g, w.histRoot = h.root ∧
      w.gen.ignore = setPatterns (latestIgnore h.gens) s.patterns [] := by
  intro w hw
  obtain ⟨h, hh, refs, hwr⟩ := (commit_written g s rn stamp process cb hcm).2 w hw
  exact ⟨h, hh, (writeOne_records _ _ _ _ _ _ _ _ _ hwr).1, written_ignore _ _ _ _ _ _ _ _ _ hwr⟩

/-- the latest pattern list after one more generation is that generation's -/
theorem latestIgnore_append (gens : List LGen) (g : LGen) : latestIgnore (gens ++ [g]) = some g.gen.ignore := by
  simp [latestIgnore]

end MhlProps.IgnoreNested

namespace MhlProps.IgnoreNested
open MhlModel MhlProps.C12 MhlProps.C02rec

/-! ## C. a property of all records of all lists of a session, through rename detection and the commit -/

/-- every record of the list satisfies `Q` (of the list's root, the record's path and kind) -/
def ListAll (Q : RelPath → String → Bool → Prop) (l : NewList) : Prop := ∀ r ∈ l.records, Q l.root r.path r.isDir

/-- every record of every list of the session satisfies `Q` -/
def RecsAll (Q : RelPath → String → Bool → Prop) (s : Session) : Prop := ∀ l ∈ s.lists, ListAll Q l

theorem put_recsAll {Q : RelPath → String → Bool → Prop} {s : Session} {nl : NewList}
    (hs : RecsAll Q s) (hnl : ListAll Q nl) : RecsAll Q (s.put nl) := by
  unfold Session.put
  split
  · intro l hl
    simp only [List.mem_map] at hl
    obtain ⟨l0, hl0, rfl⟩ := hl
    split
    · exact hnl
    · exact hs _ hl0
  · intro l hl
    simp only [List.mem_append, List.mem_singleton] at hl
    rcases hl with h | rfl
    · exact hs _ h
    · exact hnl

theorem get_listAll {Q : RelPath → String → Bool → Prop} {s : Session} (hs : RecsAll Q s) (R : RelPath) :
    ListAll Q (s.get R) := by
  unfold Session.get
  cases hf : s.lists.find? (fun l => l.root == R) with
  | none => intro r hr; simp at hr
  | some l => exact hs l (List.mem_of_find?_eq_some hf)

/-- setting previous paths neither adds a record nor changes a record's path or kind -/
theorem setPrev_listAll {Q : RelPath → String → Bool → Prop} {l : NewList} (hl : ListAll Q l)
    (c : Record → Bool) (pv : Option String) :
    ListAll Q { l with records := l.records.map fun x => if c x then { x with prev := pv } else x } := by
  intro r hr
  simp only [List.mem_map] at hr
  obtain ⟨x, hx, rfl⟩ := hr
  split
  · exact hl x hx
  · exact hl x hx

theorem detectRenames_recsAll {Q : RelPath → String → Bool → Prop} (env : Env) (t : Node) (h : Hist)
    (s : Session) (newPaths notFound : List RelPath) (hs : RecsAll Q s) :
    RecsAll Q (detectRenames env t h s newPaths notFound).1 := by
  unfold detectRenames
  refine foldl_inv_mem (fun (a : Session × List RelPath × List (String × String)) => RecsAll Q a.1)
    _ _ _ hs ?_
  intro a np _ hP
  refine foldl_inv_mem (fun (a : Session × List RelPath × List (String × String)) => RecsAll Q a.1)
    _ _ _ hP ?_
  intro a nf _ hP
  obtain ⟨s', fo, ren⟩ := a
  dsimp only at hP ⊢
  generalize route h nf = x
  obtain ⟨oh, orel⟩ := x
  dsimp only
  split
  · exact hP
  · split
    · exact hP
    · next l r hhold =>
      have hlmem : l ∈ s'.lists := by
        obtain ⟨a, ha, hfa⟩ := List.exists_of_findSome?_eq_some hhold
        split at hfa
        · cases hfr : a.find (posix (np.drop a.root.length)) with
          | none => simp [hfr] at hfa
          | some r' =>
            simp only [hfr, Option.map_some, Option.some.injEq, Prod.mk.injEq] at hfa
            rw [← hfa.1]; exact ha
        · cases hfa
      have hset : RecsAll Q (if r.path == "." then
              match parentRoot h l.root with
              | some pr =>
                let pl := s'.get pr
                s'.put { pl with records := pl.records.map fun x =>
                  if x.path == posix (np.drop pr.length) then { x with prev := some (posix orel) } else x }
              | none => s'
            else
              s'.put { l with records := l.records.map fun x =>
                if x.path == r.path then { x with prev := some (posix orel) } else x }) := by
        split
        · split
          · exact put_recsAll hP (setPrev_listAll (get_listAll hP _) _ _)
          · exact hP
        · exact put_recsAll hP (setPrev_listAll (hP l hlmem) _ _)
      split
      · split
        · exact hset
        · exact hP
      · split
        · split
          · exact hset
          · exact hP
        · exact hP

/-- through the commit: every record of every written generation satisfies `Q` (of the history's root) -/
theorem commit_recsAll {Q : RelPath → String → Bool → Prop} (g : Hist) (s : Session) (rn stamp process : String)
    (cb : Option String) (ws : List Written) (hcm : commit g s rn stamp process cb = .ok ws) (hs : RecsAll Q s) :
    ∀ w ∈ ws, ∀ r ∈ w.gen.records, Q w.histRoot r.path r.isDir := by
  intro w hw r hr
  obtain ⟨h, -, refs, hwr⟩ := (commit_written g s rn stamp process cb hcm).2 w hw
  obtain ⟨hroot, hrecs, -⟩ := writeOne_records _ _ _ _ _ _ _ _ _ hwr
  rw [hrecs] at hr
  obtain ⟨r0, hr0, rfl⟩ := List.mem_map.1 hr
  rw [finalRec_path, finalRec_isDir, hroot]
  have := get_listAll hs h.root r0 hr0
  rwa [Session.get_root] at this

end MhlProps.IgnoreNested

namespace MhlProps.IgnoreNested
open MhlModel MhlProps.C12 MhlProps.C02rec

/-! ## D. a property of the roots of all lists of a session, through rename detection -/

def RootsAll (PR : RelPath → Prop) (s : Session) : Prop := ∀ l ∈ s.lists, PR l.root

theorem put_rootsAll {PR : RelPath → Prop} {s : Session} {nl : NewList}
    (hs : RootsAll PR s) (hnl : PR nl.root) : RootsAll PR (s.put nl) := by
  unfold Session.put
  split
  · intro l hl
    simp only [List.mem_map] at hl
    obtain ⟨l0, hl0, rfl⟩ := hl
    split
    · exact hnl
    · exact hs _ hl0
  · intro l hl
    simp only [List.mem_append, List.mem_singleton] at hl
    rcases hl with h | rfl
    · exact hs _ h
    · exact hnl

/-- rename detection only adds (empty) lists for PARENT histories of histories that have one -/
theorem detectRenames_rootsAll {PR : RelPath → Prop} (env : Env) (t : Node) (h : Hist)
    (hclosed : ∀ R pr, PR R → parentRoot h R = some pr → PR pr)
    (s : Session) (newPaths notFound : List RelPath) (hs : RootsAll PR s) :
    RootsAll PR (detectRenames env t h s newPaths notFound).1 := by
  unfold detectRenames
  refine foldl_inv_mem (fun (a : Session × List RelPath × List (String × String)) => RootsAll PR a.1)
    _ _ _ hs ?_
  intro a np _ hP
  refine foldl_inv_mem (fun (a : Session × List RelPath × List (String × String)) => RootsAll PR a.1)
    _ _ _ hP ?_
  intro a nf _ hP
  obtain ⟨s', fo, ren⟩ := a
  dsimp only at hP ⊢
  generalize route h nf = x
  obtain ⟨oh, orel⟩ := x
  dsimp only
  split
  · exact hP
  · split
    · exact hP
    · next l r hhold =>
      have hlmem : l ∈ s'.lists := by
        obtain ⟨a, ha, hfa⟩ := List.exists_of_findSome?_eq_some hhold
        split at hfa
        · cases hfr : a.find (posix (np.drop a.root.length)) with
          | none => simp [hfr] at hfa
          | some r' =>
            simp only [hfr, Option.map_some, Option.some.injEq, Prod.mk.injEq] at hfa
            rw [← hfa.1]; exact ha
        · cases hfa
      have hset : RootsAll PR (if r.path == "." then
              match parentRoot h l.root with
              | some pr =>
                let pl := s'.get pr
                s'.put { pl with records := pl.records.map fun x =>
                  if x.path == posix (np.drop pr.length) then { x with prev := some (posix orel) } else x }
              | none => s'
            else
              s'.put { l with records := l.records.map fun x =>
                if x.path == r.path then { x with prev := some (posix orel) } else x }) := by
        split
        · split
          · next pr hpr =>
            apply put_rootsAll hP
            show PR (s'.get pr).root
            rw [Session.get_root]
            exact hclosed _ _ (hP l hlmem) hpr
          · exact hP
        · exact put_rootsAll hP (hP l hlmem)
      split
      · split
        · exact hset
        · exact hP
      · split
        · split
          · exact hset
          · exact hP
        · exact hP

end MhlProps.IgnoreNested

namespace MhlProps.IgnoreNested
open MhlModel MhlProps.C12 MhlProps.C02rec

/-! ## E. the traversal folds depend on the tree only through the content of the visited files -/

theorem foldl_congr_mem_w {α β : Type} (f g : β → α → β) (l : List α) (b : β)
    (h : ∀ b, ∀ a ∈ l, f b a = g b a) : l.foldl f b = l.foldl g b := by
  induction l generalizing b with
  | nil => rfl
  | cons a as ih =>
    rw [List.foldl_cons, List.foldl_cons, h b a (by simp)]
    exact ih _ (fun b' a' ha' => h b' a' (by simp [ha']))

/-- one yielded folder of `create`: the tree is only consulted for the content of the folder's visible files -/
theorem createVisit_congr (env : Env) (t₁ t₂ : Node) (rootHist : Hist) (fmts : List String) (noDir : Bool)
    (st : CreateState) (v : Visit)
    (h : ∀ c ∈ v.children, c.2 = false → fileContent t₁ (v.folder ++ [c.1]) = fileContent t₂ (v.folder ++ [c.1])) :
    createVisit env t₁ rootHist fmts noDir st v = createVisit env t₂ rootHist fmts noDir st v := by
  unfold createVisit
  dsimp only
  generalize hres₁ : List.foldl _ (st, _) v.children = res₁
  generalize hres₂ : List.foldl _ (st, _) v.children = res₂
  have : res₁ = res₂ := by
    rw [← hres₁, ← hres₂]
    apply foldl_congr_mem_w
    intro a c hc
    by_cases hcd : c.2 = true
    · simp only [hcd, if_true]
    · have hcf : c.2 = false := by simpa using hcd
      simp only [hcf, Bool.false_eq_true, if_false, h c hc hcf]
  rw [this]

/-- one yielded folder of `verify -dh`: likewise -/
theorem dhVisit_congr (env : Env) (t₁ t₂ : Node) (rootHist : Hist) (fmts : List String) (o : DhOpts)
    (st : DhState) (v : Visit)
    (h : ∀ c ∈ v.children, c.2 = false → fileContent t₁ (v.folder ++ [c.1]) = fileContent t₂ (v.folder ++ [c.1])) :
    dhVisit env t₁ rootHist fmts o st v = dhVisit env t₂ rootHist fmts o st v := by
  unfold dhVisit
  dsimp only
  generalize hres₁ : List.foldl _ (st, _) v.children = res₁
  generalize hres₂ : List.foldl _ (st, _) v.children = res₂
  have : res₁ = res₂ := by
    rw [← hres₁, ← hres₂]
    apply foldl_congr_mem_w
    intro a c hc
    by_cases hcd : c.2 = true
    · simp only [hcd, if_true]
    · have hcf : c.2 = false := by simpa using hcd
      simp only [hcf, Bool.false_eq_true, if_false, h c hc hcf]
  rw [this]

end MhlProps.IgnoreNested

namespace MhlProps.IgnoreNested
open MhlModel MhlProps.C12 MhlProps.C02rec

/-! ## F. the traversal is determined by the list of visible paths -/

theorem append_split_of_pred {α : Type} (P : α → Bool) {l₁ m₁ l₂ m₂ : List α}
    (h : l₁ ++ m₁ = l₂ ++ m₂) (hl₁ : ∀ x ∈ l₁, P x = true) (hl₂ : ∀ x ∈ l₂, P x = true)
    (hm₁ : ∀ x ∈ m₁, P x = false) (hm₂ : ∀ x ∈ m₂, P x = false) : l₁ = l₂ ∧ m₁ = m₂ := by
  have key : ∀ (l m : List α), (∀ x ∈ l, P x = true) → (∀ x ∈ m, P x = false) → (l ++ m).filter P = l := by
    intro l m hl hm
    rw [List.filter_append, List.filter_eq_self.2 hl,
      List.filter_eq_nil_iff.2 (fun x hx => by simp [hm x hx]), List.append_nil]
  have : l₁ = l₂ := by rw [← key l₁ m₁ hl₁ hm₁, ← key l₂ m₂ hl₂ hm₂, h]
  subst this
  exact ⟨rfl, List.append_cancel_left h⟩

/-- two lists of per-child results with the same names and kinds, pairwise distinct names, the same yielded paths
overall — and such that children with the same yielded paths have the same visits — are equal -/
theorem kids_eq (here : RelPath) : ∀ (K₁ K₂ : List Kid),
    K₁.map (fun k => (here ++ [k.name], k.isDir)) = K₂.map (fun k => (here ++ [k.name], k.isDir)) →
    K₁.Pairwise (fun a b => a.name ≠ b.name) → K₂.Pairwise (fun a b => a.name ≠ b.name) →
    (∀ k ∈ K₁, ∀ x ∈ visitPaths k.visits, x.1.take (here.length + 1) = here ++ [k.name]) →
    (∀ k ∈ K₂, ∀ x ∈ visitPaths k.visits, x.1.take (here.length + 1) = here ++ [k.name]) →
    K₁.flatMap (fun k => visitPaths k.visits) = K₂.flatMap (fun k => visitPaths k.visits) →
    (∀ a ∈ K₁, ∀ b ∈ K₂, a.name = b.name → a.isDir = b.isDir → visitPaths a.visits = visitPaths b.visits →
      a.visits = b.visits) →
    K₁ = K₂ := by
  intro K₁
  induction K₁ with
  | nil =>
    intro K₂ hmap _ _ _ _ _ _
    cases K₂ with
    | nil => rfl
    | cons b K₂ => simp at hmap
  | cons a K₁ ih =>
    intro K₂ hmap hp₁ hp₂ ht₁ ht₂ hflat hIH
    cases K₂ with
    | nil => simp at hmap
    | cons b K₂ =>
      simp only [List.map_cons, List.cons.injEq, Prod.mk.injEq, List.append_cancel_left_eq] at hmap
      obtain ⟨⟨hname, hdir⟩, hmap'⟩ := hmap
      have hname : a.name = b.name := by simpa using hname
      rw [List.pairwise_cons] at hp₁ hp₂
      rw [List.flatMap_cons, List.flatMap_cons] at hflat
      obtain ⟨h1, h2⟩ := append_split_of_pred
        (fun x : RelPath × Bool => decide (x.1.take (here.length + 1) = here ++ [a.name])) hflat
        (fun x hx => by simpa using ht₁ a (by simp) x hx)
        (fun x hx => by simpa [hname] using ht₂ b (by simp) x hx)
        (fun x hx => by
          obtain ⟨k, hk, hxk⟩ := List.mem_flatMap.1 hx
          have := ht₁ k (by simp [hk]) x hxk
          simp only [this, decide_eq_false_iff_not, List.append_cancel_left_eq, List.cons.injEq, and_true]
          exact fun h => hp₁.1 k hk h.symm)
        (fun x hx => by
          obtain ⟨k, hk, hxk⟩ := List.mem_flatMap.1 hx
          have := ht₂ k (by simp [hk]) x hxk
          simp only [this, decide_eq_false_iff_not, List.append_cancel_left_eq, List.cons.injEq, and_true]
          exact fun h => hp₂.1 k hk (hname ▸ h.symm))
      have hvis := hIH a (by simp) b (by simp) hname hdir h1
      have hab : a = b := by
        cases a; cases b
        simp only at hname hdir hvis
        simp [hname, hdir, hvis]
      have htail := ih K₂ hmap' hp₁.2 hp₂.2 (fun k hk => ht₁ k (by simp [hk])) (fun k hk => ht₂ k (by simp [hk])) h2
        (fun a' ha' b' hb' => hIH a' (by simp [ha']) b' (by simp [hb']))
      rw [hab, htail]

/-- **the traversal is a function of the visible entries**: two trees (sibling names distinct, both folders or both
files) with the same list of visible paths — started at the same path — are traversed identically: the same
folders are yielded in the same order with the same children -/
theorem traverse_eq_of_visFrom_eq (hit : RelPath → Bool) (t₁ : Node) :
    ∀ (t₂ : Node) (here : RelPath), t₁.NamesDistinct → t₂.NamesDistinct → t₁.isDir = t₂.isDir →
      visFrom hit here t₁ = visFrom hit here t₂ → traverse hit here t₁ = traverse hit here t₂ := by
  induction t₁ using Node.induct with
  | file n c =>
    intro t₂ here _ _ hk _
    cases t₂ with
    | file n₂ c₂ => simp [traverse]
    | dir n₂ cs₂ h₂ => simp [Node.isDir] at hk
  | dir n cs h ih =>
    intro t₂ here hd₁ hd₂ hk hV
    cases t₂ with
    | file n₂ c₂ => simp [Node.isDir] at hk
    | dir n₂ cs₂ h₂ =>
      rw [Node.namesDistinct_dir] at hd₁ hd₂
      rw [visFrom_dir, visFrom_dir] at hV
      obtain ⟨hA, hB⟩ := append_split_of_pred
        (fun x : RelPath × Bool => decide (here.length + 1 < x.1.length)) hV
        (fun x hx => by
          obtain ⟨k, hk, hxk⟩ := List.mem_flatMap.1 hx
          simpa using (visitPaths_kid_prefix hk hxk).1)
        (fun x hx => by
          obtain ⟨k, hk, hxk⟩ := List.mem_flatMap.1 hx
          simpa using (visitPaths_kid_prefix hk hxk).1)
        (fun x hx => by
          obtain ⟨k, -, rfl⟩ := List.mem_map.1 hx
          simp)
        (fun x hx => by
          obtain ⟨k, -, rfl⟩ := List.mem_map.1 hx
          simp)
      have hK : visKids hit here cs = visKids hit here cs₂ := by
        apply kids_eq here _ _ hB (visKids_names_pairwise hit here cs hd₁.1)
          (visKids_names_pairwise hit here cs₂ hd₂.1)
          (fun k hk x hx => (visitPaths_kid_prefix hk hx).2)
          (fun k hk x hx => (visitPaths_kid_prefix hk hx).2) hA
        intro a ha b hb hname hdir hvp
        obtain ⟨c₁, hc₁, -, rfl⟩ := (mem_visKids _ _ _ _).1 ha
        obtain ⟨c₂, hc₂, -, rfl⟩ := (mem_visKids _ _ _ _).1 hb
        have hname' : c₁.name = c₂.name := hname
        show traverse hit (here ++ [c₁.name]) c₁ = traverse hit (here ++ [c₂.name]) c₂
        rw [← hname']
        apply ih c₁ hc₁ c₂ (here ++ [c₁.name]) (hd₁.2 c₁ hc₁) (hd₂.2 c₂ hc₂) hdir
        have : visitPaths (traverse hit (here ++ [c₁.name]) c₁) = visitPaths (traverse hit (here ++ [c₂.name]) c₂) := hvp
        rw [← hname'] at this
        exact this
      rw [traverse_dir, traverse_dir, hK]

end MhlProps.IgnoreNested

namespace MhlProps.IgnoreNested
open MhlModel MhlProps.C12 MhlProps.C02rec

/-! ## G. rename detection depends on the tree only through the content of the new files -/

/-- the two trees agree at `p` as far as rename detection can see: the same file content, or no file in either -/
def SameFileAt (t₁ t₂ : Node) (p : RelPath) : Prop :=
  (∃ n₁ n₂ c, t₁.at? p = some (.file n₁ c) ∧ t₂.at? p = some (.file n₂ c)) ∨
    ((∀ n c, t₁.at? p ≠ some (.file n c)) ∧ (∀ n c, t₂.at? p ≠ some (.file n c)))

theorem detectRenames_congr (env : Env) (t₁ t₂ : Node) (h : Hist) (s : Session) (newPaths notFound : List RelPath)
    (hsame : ∀ np ∈ newPaths, SameFileAt t₁ t₂ np) :
    detectRenames env t₁ h s newPaths notFound = detectRenames env t₂ h s newPaths notFound := by
  unfold detectRenames
  apply foldl_congr_mem_w
  intro acc np hnp
  apply foldl_congr_mem_w
  intro acc' nf _
  generalize ha₁ : t₁.at? np = a₁
  generalize ha₂ : t₂.at? np = a₂
  rcases hsame np hnp with ⟨n₁, n₂, c, h1, h2⟩ | ⟨h1, h2⟩
  · rw [h1] at ha₁; rw [h2] at ha₂
    subst ha₁; subst ha₂
    rfl
  · rw [ha₁] at h1; rw [ha₂] at h2
    cases a₁ with
    | none =>
      cases a₂ with
      | none => rfl
      | some x₂ =>
        cases x₂ with
        | file n c => exact absurd rfl (h2 n c)
        | dir n cs hh => rfl
    | some x₁ =>
      cases x₁ with
      | file n c => exact absurd rfl (h1 n c)
      | dir n cs hh =>
        cases a₂ with
        | none => rfl
        | some x₂ =>
          cases x₂ with
          | file n c => exact absurd rfl (h2 n c)
          | dir n cs hh => rfl

/-- a path that both trees show as visible (same kind) with the same content if it is a file -/
theorem sameFileAt_of_visible (hit : RelPath → Bool) (t₁ t₂ : Node) (hd₁ : t₁.NamesDistinct) (hd₂ : t₂.NamesDistinct)
    (p : RelPath) (d : Bool) (hv₁ : (p, d) ∈ visiblePaths hit t₁) (hv₂ : (p, d) ∈ visiblePaths hit t₂)
    (hc : d = false → fileContent t₁ p = fileContent t₂ p) : SameFileAt t₁ t₂ p := by
  obtain ⟨c₁, hc₁, hk₁⟩ := MhlProps.C02.visible_on_disk hit t₁ hd₁ p d hv₁
  obtain ⟨c₂, hc₂, hk₂⟩ := MhlProps.C02.visible_on_disk hit t₂ hd₂ p d hv₂
  cases d with
  | false =>
    have hcc := hc rfl
    cases c₁ with
    | dir n cs hh => simp [Node.isDir] at hk₁
    | file n₁ b₁ =>
      cases c₂ with
      | dir n cs hh => simp [Node.isDir] at hk₂
      | file n₂ b₂ =>
        unfold fileContent at hcc
        rw [hc₁, hc₂] at hcc
        simp only at hcc
        subst hcc
        exact Or.inl ⟨n₁, n₂, b₁, hc₁, hc₂⟩
  | true =>
    right
    constructor
    · intro n c hf
      rw [hc₁] at hf
      cases hf
      simp [Node.isDir] at hk₁
    · intro n c hf
      rw [hc₂] at hf
      cases hf
      simp [Node.isDir] at hk₂

theorem mem_foldl_newStep (h : Hist) (L acc : List RelPath) (x : RelPath)
    (hx : x ∈ L.foldl (newStep h) acc) : x ∈ acc ∨ x ∈ L := by
  induction L generalizing acc with
  | nil => exact Or.inl hx
  | cons a as ih =>
    rw [List.foldl_cons] at hx
    rcases ih _ hx with h1 | h1
    · unfold newStep at h1
      split at h1
      · rcases (mem_appendNew _ _ _).1 h1 with h2 | h2
        · exact Or.inl h2
        · exact Or.inr (by simp [h2])
      · exact Or.inl h1
    · exact Or.inr (by simp [h1])

/-- the new paths of a folder-mode run are visited paths -/
theorem cState_newPaths_visible (env : Env) (t : Node) (rootHist : Hist) (o : CreateOpts) (np : RelPath)
    (hnp : np ∈ (cState env t rootHist o).newPaths) : ∃ d, (np, d) ∈ visiblePaths (cHit env rootHist o) t := by
  unfold cState at hnp
  rw [createFold_newPaths, ← visiblePaths_map_fst] at hnp
  rcases mem_foldl_newStep _ _ _ _ hnp with h | h
  · cases h
  · obtain ⟨x, hx, rfl⟩ := List.mem_map.1 h
    exact ⟨x.2, hx⟩

end MhlProps.IgnoreNested

namespace MhlProps.IgnoreNested
open MhlModel MhlProps.C12 MhlProps.C02rec

/-! ## H. texts of paths -/

/-- a non-empty path of well-formed names has a text that no other path with slash-free components has -/
theorem posix_inj_left {p q : RelPath} (hp : ∀ s ∈ p, NameOk s) (hpne : p ≠ [])
    (hq : ∀ s ∈ q, '/' ∉ s.toList) (h : posix p = posix q) : p = q := by
  by_cases hqe : q = []
  · subst hqe
    exact absurd ((posix_eq_dot hp).1 h) hpne
  · have h1 := posix_toList_split hpne (fun s hs => (hp s hs).1)
    have h2 := posix_toList_split hqe hq
    rw [h, h2] at h1
    exact ((List.map_inj_right (fun a b hab => String.toList_inj.1 hab)).1 h1).symm

/-- the text of such a path is not among the texts of a list of paths that does not contain it -/
theorem posix_not_mem_map {L : List RelPath} {p : RelPath} (hp : ∀ s ∈ p, NameOk s) (hpne : p ≠ [])
    (hL : ∀ q ∈ L, ∀ s ∈ q, '/' ∉ s.toList) (hnot : p ∉ L) : posix p ∉ L.map posix := by
  intro hm
  obtain ⟨q, hq, hqp⟩ := List.mem_map.1 hm
  exact hnot (posix_inj_left hp hpne (hL q hq) hqp.symm ▸ hq)

theorem take_append_succ {α : Type} (a : List α) (n : α) (b : List α) :
    (a ++ n :: b).take (a.length + 1) = a ++ [n] := by
  induction a with
  | nil => simp
  | cons x xs ih => simpa using ih

/-- "some non-empty initial segment of `p` is matched" is what `hitAbove` computes -/
theorem hitAbove_true_iff (hit : RelPath → Bool) (p : RelPath) :
    hitAbove hit p = true ↔ ∃ k, 0 < k ∧ k ≤ p.length ∧ hit (p.take k) = true := by
  constructor
  · intro h
    by_contra hno
    have : hitAbove hit p = false := by
      rw [hitAbove_false_iff]
      intro i hi
      cases hc : hit (p.take (i + 1)) with
      | false => rfl
      | true => exact absurd ⟨i + 1, by omega, by omega, hc⟩ hno
    rw [this] at h
    cases h
  · rintro ⟨k, hk0, hk, hh⟩
    cases hc : hitAbove hit p with
    | true => rfl
    | false =>
      have := (hitAbove_false_iff hit p).1 hc (k - 1) (by omega)
      rw [show k - 1 + 1 = k by omega, hh] at this
      cases this

end MhlProps.IgnoreNested

namespace MhlProps.IgnoreNested
open MhlModel MhlProps.C12 MhlProps.C02rec

/-! ## I. soundness of the session for ANY list of requested formats (the empty list included) -/

theorem SCore.mono' {g : Hist} {pats : List String} {s : Session} {L L' : List (RelPath × Bool)}
    (hc : SCore g pats s L) (hsub : ∀ y ∈ L, y ∈ L') : SCore g pats s L' :=
  ⟨hc.pats, hc.nodup, hc.paths,
    fun R r hr => by
      obtain ⟨x, hx, rest⟩ := hc.recs R r hr
      exact ⟨x, hsub x hx, rest⟩,
    fun R rr h => hsub _ (hc.rootRecs R rr h),
    fun R hR => by
      obtain ⟨x, hx, h⟩ := hc.rootsJ R hR
      exact ⟨x, hsub x hx, h⟩⟩

/-- a file for which nothing is to be recorded leaves the session alone -/
theorem sealFile_unchanged (H : HashFn) (g : Hist) (s : Session) (file : RelPath) (c : Bytes) (fmts : List String)
    (he : (sealEntries (route g file).1.gens (posix (relOf g file)) (fun f => H f c) fmts).1 = []) :
    (sealFile H g s file c fmts).1 = s := by
  unfold relOf at he
  unfold sealFile
  generalize route g file = x at he ⊢
  obtain ⟨h, hrel⟩ := x
  dsimp only at he ⊢
  generalize sealEntries h.gens (posix hrel) (fun f => H f c) fmts = se at he ⊢
  obtain ⟨ents, res⟩ := se
  dsimp only at he ⊢
  subst he
  rfl

section score
variable {t : Node} {g : Hist} {pats : List String} (hg : HistOK t g)
include hg

theorem score_file {s : Session} {L : List (RelPath × Bool)} {p : RelPath} (H : HashFn) (c : Bytes)
    (fmts : List String) (hs : SCore g pats s L) (hok : ItemsOk g (L ++ [(p, false)])) :
    SCore g pats (sealFile H g s p c fmts).1 (L ++ [(p, false)]) := by
  by_cases hne : (sealEntries (route g p).1.gens (posix (relOf g p)) (fun f => H f c) fmts).1 = []
  · rw [sealFile_unchanged H g s p c fmts hne]
    exact SCore.mono' hs (fun y hy => List.mem_append_left _ hy)
  · rw [sealFile_addTo H g s p c fmts hne]
    have hq0 : relOf g p ≠ [] := hok.files p (by simp)
    have hq := owner_append hg p
    have hpn : ∀ n ∈ p, NameOk n := hok.names (p, false) (by simp)
    have hqn : ∀ n ∈ relOf g p, NameOk n := fun n hn => hpn n (mem_of_append_eq hq n hn)
    have hfresh := hs.fresh (fun x hx => hok.left.names x hx) hq hqn hok.fresh
    exact (hs.addRec (L' := L ++ [(p, false)])
      (fun y hy => List.mem_append_left _ hy) (x := (p, false)) (by simp) hq0 hq hqn hfresh
      (some c.length)
      (fileUpd (sealEntries (route g p).1.gens (posix (relOf g p)) (fun f => H f c) fmts).1)
      rfl rfl (Or.inl rfl)).1

theorem score_dir {s : Session} {L : List (RelPath × Bool)} {d : RelPath}
    (hashes : List (String × String × String))
    (hs : SCore g pats s L) (hok : ItemsOk g (L ++ [(d, true)])) :
    SCore g pats (appendDirHashes g s d hashes) (L ++ [(d, true)]) := by
  rw [appendDirHashes_addTo]
  have hq := owner_append hg d
  have hdn : ∀ n ∈ d, NameOk n := hok.names (d, true) (by simp)
  have hsub : ∀ y ∈ L, y ∈ L ++ [(d, true)] := fun y hy => List.mem_append_left _ hy
  have hmem : (d, true) ∈ L ++ [(d, true)] := by simp
  have hLn : ∀ x ∈ L, ∀ n ∈ x.1, NameOk n := fun x hx => hok.left.names x hx
  by_cases hrel : relOf g d = []
  · obtain ⟨hown, -⟩ := relOf_nil hg hrel
    have hposix : posix (relOf g d) = "." := by rw [hrel]; rfl
    have hfresh0 : (s.get d).rootRec = none := by
      cases h : (s.get d).rootRec with
      | none => rfl
      | some rr =>
        exfalso
        exact hok.fresh (List.mem_map.2 ⟨(d, true), hs.rootRecs d rr h, rfl⟩)
    have hemp : (relOf g d).isEmpty = true := by rw [hrel]; rfl
    rw [if_pos hemp, hown, hposix]
    obtain ⟨hcore1, -, -, -, hrecs1⟩ := hs.setRoot hsub hmem hfresh0 none (dirUpd hashes)
    cases hpr : parentRoot g d with
    | none => exact hcore1
    | some pr =>
      simp only
      obtain ⟨hpre, hlen, -⟩ := parentRoot_prefix hg hpr
      have hq2 : pr ++ d.drop pr.length = d := List.prefix_iff_eq_append.1 hpre
      have hq20 : d.drop pr.length ≠ [] := by
        intro h
        have := congrArg List.length h
        simp only [List.length_drop, List.length_nil] at this
        omega
      have hqn2 : ∀ n ∈ d.drop pr.length, NameOk n := fun n hn => hdn n (List.mem_of_mem_drop hn)
      have hfresh2 : ∀ r ∈ ((s.addTo d "." none (dirUpd hashes)).get pr).records,
          r.path ≠ posix (d.drop pr.length) := by
        rw [hrecs1]
        exact hs.fresh hLn hq2 hqn2 hok.fresh
      exact (hcore1.addRec (L' := L ++ [(d, true)])
        (fun y hy => hy) (x := (d, true)) hmem hq20 hq2 hqn2 hfresh2 none (dirUpd hashes)
        rfl rfl (Or.inr ⟨rfl, hrel, hpr⟩)).1
  · have hemp : (relOf g d).isEmpty = false := by cases h : relOf g d <;> simp_all
    simp only [hemp, Bool.false_eq_true, if_false]
    have hqn : ∀ n ∈ relOf g d, NameOk n := fun n hn => hdn n (mem_of_append_eq hq n hn)
    have hfresh := hs.fresh hLn hq hqn hok.fresh
    exact (hs.addRec (L' := L ++ [(d, true)]) hsub (x := (d, true)) hmem
      hrel hq hqn hfresh none (dirUpd hashes) rfl rfl (Or.inl rfl)).1

end score

/-- the soundness half of the invariant, conditional on the visited items being unambiguous -/
def ScoreInv (g : Hist) (pats : List String) (s : Session) (L : List (RelPath × Bool)) : Prop :=
  ItemsOk g L → SCore g pats s L

theorem createVisit_score {env : Env} {t : Node} {g : Hist} {pats : List String} (hg : HistOK t g)
    (fmts : List String) (noDir : Bool) (st : CreateState) (v : Visit) (L : List (RelPath × Bool))
    (hs : ScoreInv g pats st.session L) :
    ScoreInv g pats (createVisit env t g fmts noDir st v).session (L ++ visitItems v) := by
  unfold createVisit
  dsimp only
  generalize hres : List.foldl _ (st, _) v.children = res
  have hP : ScoreInv g pats res.1.session
      (L ++ v.children.flatMap fun c => if c.2 then [] else [(v.folder ++ [c.1], false)]) := by
    rw [← hres]
    refine foldl_track (fun (a : CreateState × List (String × DirCtx)) L => ScoreInv g pats a.1.session L)
      _ _ ?_ _ _ _ hs
    intro a b L' hP
    try dsimp only at hP ⊢
    by_cases hb : b.2 = true
    · simp only [hb, if_true, List.append_nil]
      split <;> exact hP
    · simp only [hb, Bool.false_eq_true, if_false]
      intro hok
      exact score_file hg _ _ _ (hP hok.left) hok
  unfold visitItems
  rw [← List.append_assoc]
  cases noDir
  · simp only [Bool.false_eq_true, if_false]
    intro hok
    exact score_dir hg _ (hP hok.left) hok
  · simp only [if_true]
    intro hok
    exact score_dir hg _ (hP hok.left) hok

/-- the session after the whole traversal is sound, whatever formats are requested -/
theorem createFold_score {env : Env} {t : Node} {g : Hist} (hg : HistOK t g) (hd : t.NamesDistinct) (hn : t.NamesOk)
    (fmts : List String) (noDir : Bool) (pats : List String) (hit : RelPath → Bool) :
    SCore g pats
      ((traverse hit [] t).foldl (createVisit env t g fmts noDir) { session := { patterns := pats } }).session
      (recItems (traverse hit [] t)) := by
  have h0 := foldl_track (fun (st : CreateState) L => ScoreInv g pats st.session L) _ visitItems
    (fun a b L hP => createVisit_score (env := env) hg fmts noDir a b L hP) (traverse hit [] t)
    { session := { patterns := pats } } []
    (fun _ => (sessInv_empty env t g fmts pats (by
      refine ⟨by simp, by simp, by simp⟩)).core)
  rw [List.nil_append] at h0
  exact h0 (recItems_itemsOk hg hit hd hn)

end MhlProps.IgnoreNested
