/-
Lemmas for C09nested (MhlProps/C09nested.lean): `verify -dh` on trees WITH nested histories.

Part V  the verify side: an EXACT description of what the fold of `dhVisit` over the traversal marks
        (`foldl_dhVisit_marks`): a format is in `failedFormats` / a label in `dirMismatch` after the fold iff it was
        there before or (without `-ro`) some visible sub-folder has a recorded entry (looked up the way `dhVisit`
        does it: `route`, `dirEntriesFor`) in a computed format that differs from the specified hashes.
        `dhCompare_of_no_mismatch`; what is found under "." (`dirEntriesFor_dot_clean`).
Part C  the create side: the session of folder-mode `create` on a tree with nested histories — every directory record
        and every root record of every list carries exactly the specified hashes (`EInv`, `createFold_einv`),
        alongside the invariant `SInv` of NestedLemmas.
Part S  the tree without its `ascmhl` folders (`Node.strip`): traversal, specified hashes, name conditions and `at?`
        only depend on it; `applyWritten` does not change it (`SameFilesDh`).
Part W  the `ascmhl` folder found at a path after the generations of a run were written (`at?_applyWritten`).
Part X  the tree still loads afterwards (`checkStore_add_ok`, `loadHistory_applyWritten_ok`).
Part Y  completeness of the walk for nested histories (`findChildren_complete`, `loadHistory_roots_iff`).
Part Z  reloading after a run: same nested roots, same routing, generations = what the new `ascmhl` folders load as
        (`reload_after_run`); what a commit leaves (`commit_reload`: old generations ++ the new one, `NoLineFeeds`).
Part R  reading directory entries back from generations (`dirEntriesOfGens`, `Generation.find_of_mem`, …).
Part T  altering the content of a file does not change what the tree loads as (`loadHistory_setContent_n1`).
-/
import MhlProps.Proofs.DhLemmas
import MhlProps.Proofs.NestedLemmas
import MhlProps.Proofs.TamperLemmas

namespace MhlModel

/-! ## V. what the traversal of `verify -dh` marks -/

/-- the two lists a comparison may extend, selected by a flag: `true` = `failedFormats`, `false` = `dirMismatch` -/
def marksOf (b : Bool) (st : DhState) : List String := if b then st.failedFormats else st.dirMismatch

/-- what a mismatching entry `e` of the folder labelled `label` adds to that list -/
def tagOf (b : Bool) (label : String) (e : Entry) : String := if b then e.fmt else label

theorem mem_marksOf_dhStep (b : Bool) (fmts : List String) (label : String)
    (computed : List (String × String × String)) (st : DhState) (e : Entry) (x : String) :
    x ∈ marksOf b (dhStep fmts true label computed st e) ↔
      x ∈ marksOf b st ∨ (mismatches fmts computed e = true ∧ tagOf b label e = x) := by
  unfold dhStep mismatches
  cases hf : fmts.contains e.fmt with
  | false => simp
  | true =>
    simp only [Bool.not_true, Bool.false_eq_true, if_false, Bool.true_and]
    cases hc : computed.find? (fun x => x.1 == e.fmt) with
    | none => simp
    | some y =>
      obtain ⟨k, c', s'⟩ := y
      simp only
      by_cases hcmp : compareDir e c' s' = 1
      · cases b
        · simp [hcmp, marksOf, tagOf, mem_appendNew, eq_comm]
        · simp [hcmp, marksOf, tagOf, mem_appendNew, eq_comm]
      · simp [hcmp]

theorem mem_marksOf_dhCompare (b : Bool) (fmts : List String) (label : String)
    (computed : List (String × String × String)) (st : DhState) (recorded : List Entry) (x : String) :
    x ∈ marksOf b (dhCompare fmts true label computed st recorded) ↔
      x ∈ marksOf b st ∨ ∃ e ∈ recorded, mismatches fmts computed e = true ∧ tagOf b label e = x := by
  rw [dhCompare_eq]
  induction recorded generalizing st with
  | nil => simp
  | cons e es ih =>
    rw [List.foldl_cons, ih, mem_marksOf_dhStep]
    constructor
    · rintro ((h | h) | ⟨e', he', h⟩)
      · exact Or.inl h
      · exact Or.inr ⟨e, List.mem_cons_self, h⟩
      · exact Or.inr ⟨e', List.mem_cons_of_mem _ he', h⟩
    · rintro (h | ⟨e', he', h⟩)
      · exact Or.inl (Or.inl h)
      · rcases List.mem_cons.1 he' with rfl | he'
        · exact Or.inl (Or.inr h)
        · exact Or.inr ⟨e', he', h⟩

theorem marksOf_dirHashes (b : Bool) (st : DhState) (dh : List (RelPath × List (String × String × String))) :
    marksOf b { st with dirHashes := dh } = marksOf b st := by
  cases b <;> rfl

/-- a recorded entry mismatches the SPECIFIED hashes of the folder `c` at `p` iff it is in a computed format and its
content or structure hash is not the specified one -/
theorem mismatches_spec_iff (env : Env) (hit : RelPath → Bool) (fmts : List String) (p : RelPath) (c : Node)
    (e : Entry) :
    mismatches fmts (specEntry env hit (ctxKeys fmts) p c).2 e = true ↔
      e.fmt ∈ fmts ∧ ¬ (e.digest = (nodeHashes env.H env.D e.fmt hit p c).1 ∧
        e.shash = some (nodeHashes env.H env.D e.fmt hit p c).2) := by
  rw [mismatches_iff]
  constructor
  · rintro ⟨hf, c', s', hfind, hcmp⟩
    refine ⟨hf, ?_⟩
    obtain ⟨-, rfl, rfl⟩ := find?_specEntry env hit _ p c e.fmt e.fmt c' s' hfind
    rintro ⟨h1, h2⟩
    simp [compareDir, h1, h2] at hcmp
  · rintro ⟨hf, hne⟩
    have hk := find?_keyed (ctxKeys fmts)
      (fun f => ((nodeHashes env.H env.D f hit p c).1, (nodeHashes env.H env.D f hit p c).2)) e.fmt
      ((mem_ctxKeys fmts e.fmt).2 hf)
    refine ⟨hf, _, _, hk, ?_⟩
    unfold compareDir
    split
    · next h =>
      exfalso
      simp only [Bool.and_eq_true, beq_iff_eq] at h
      exact hne h
    · rfl

/-- the folder at `q` has a recorded entry, in a computed format, that differs from the specified hashes; `x` is what
that entry adds to the list selected by `b` -/
def DhBad (env : Env) (t : Node) (rootHist : Hist) (fmts : List String) (hit : RelPath → Bool) (b : Bool)
    (x : String) (q : RelPath) : Prop :=
  ∃ c e, t.at? q = some c ∧ e ∈ dirEntriesFor (route rootHist q).1 (posix (route rootHist q).2) ∧ e.fmt ∈ fmts ∧
    ¬ (e.digest = (nodeHashes env.H env.D e.fmt hit q c).1 ∧
       e.shash = some (nodeHashes env.H env.D e.fmt hit q c).2) ∧ tagOf b (posix q) e = x

theorem marksOf_dhChildStep_file (b : Bool) (env : Env) (t : Node) (rootHist : Hist) (fmts : List String)
    (o : DhOpts) (folder : RelPath) (acc : DhState × List (String × DirCtx)) (nm : String) :
    marksOf b (dhChildStep env t rootHist fmts o folder acc (nm, false)).1 = marksOf b acc.1 := by
  obtain ⟨st, ctx⟩ := acc
  simp only [dhChildStep, Bool.false_eq_true, if_false]

theorem mem_marksOf_dhChildStep_dir (b : Bool) (env : Env) (t : Node) (rootHist : Hist) (fmts : List String)
    (o : DhOpts) (folder : RelPath) (acc : DhState × List (String × DirCtx)) (nm : String) (x : String) :
    x ∈ marksOf b (dhChildStep env t rootHist fmts o folder acc (nm, true)).1 ↔
      x ∈ marksOf b acc.1 ∨ (o.rootOnly = false ∧
        ∃ e ∈ dirEntriesFor (route rootHist (folder ++ [nm])).1 (posix (route rootHist (folder ++ [nm])).2),
          mismatches fmts ((alookup (folder ++ [nm]) acc.1.dirHashes).getD []) e = true ∧
          tagOf b (posix (folder ++ [nm])) e = x) := by
  obtain ⟨st, ctx⟩ := acc
  simp only [dhChildStep, if_true]
  cases o.rootOnly
  · simp only [Bool.false_eq_true, if_false, mem_marksOf_dhCompare, marksOf_dirHashes, true_and]
  · simp only [if_true, marksOf_dirHashes, Bool.true_eq_false, false_and, or_false]

/-- the per-folder fold: exactly the pending sub-folders whose recorded entries differ from their specified hashes
are marked -/
theorem foldl_dhChildStep_marks (b : Bool) (env : Env) (t : Node) (rootHist : Hist) (fmts : List String)
    (o : DhOpts) (hit : RelPath → Bool) (here : RelPath) (base : DirHashes) (L : List Node)
    (acc : DhState × List (String × DirCtx)) (C : String → DirCtx)
    (hproj : dhProj acc =
      (base ++ specEntries env hit (ctxKeys fmts) here L, (ctxKeys fmts).map fun f => (f, C f)))
    (hfile : ∀ nm bs, Node.file nm bs ∈ L → fileContent t (here ++ [nm]) = bs)
    (hpw : L.Pairwise fun a b => a.name ≠ b.name)
    (hbase : ∀ c ∈ L, ∀ x ∈ base, x.1 ≠ here ++ [c.name])
    (hat : ∀ c ∈ L, t.at? (here ++ [c.name]) = some c) (x : String) :
    x ∈ marksOf b ((L.map fun c => (c.name, c.isDir)).foldl (dhChildStep env t rootHist fmts o here) acc).1 ↔
      x ∈ marksOf b acc.1 ∨ (o.rootOnly = false ∧ ∃ c ∈ L, c.isDir = true ∧
        DhBad env t rootHist fmts hit b x (here ++ [c.name])) := by
  induction L generalizing acc C with
  | nil => simp
  | cons c L ih =>
    rw [List.pairwise_cons] at hpw
    rw [List.map_cons, List.foldl_cons]
    have hb0 := hbase c (List.mem_cons_self ..)
    have hproj' : dhProj (dhChildStep env t rootHist fmts o here acc (c.name, c.isDir)) =
        (base ++ specEntries env hit (ctxKeys fmts) here L,
          (ctxKeys fmts).map fun f => (f, addKid env hit here f (C f) c)) := by
      rw [dhChildStep_proj, hproj,
        dhDirStep_node env t hit here (ctxKeys fmts) base c L C
          (fun nm bs hc => hfile nm bs (hc ▸ List.mem_cons_self ..)) hb0 hpw.1]
    rw [ih _ _ hproj' (fun nm bs h => hfile nm bs (List.mem_cons_of_mem _ h)) hpw.2
      (fun c' h => hbase c' (List.mem_cons_of_mem _ h)) (fun c' h => hat c' (List.mem_cons_of_mem _ h))]
    have hstep : x ∈ marksOf b (dhChildStep env t rootHist fmts o here acc (c.name, c.isDir)).1 ↔
        x ∈ marksOf b acc.1 ∨ (o.rootOnly = false ∧ c.isDir = true ∧
          DhBad env t rootHist fmts hit b x (here ++ [c.name])) := by
      cases hd : c.isDir with
      | false => rw [marksOf_dhChildStep_file]; simp
      | true =>
        rw [mem_marksOf_dhChildStep_dir]
        have hdh : acc.1.dirHashes = base ++ specEntries env hit (ctxKeys fmts) here (c :: L) :=
          congrArg Prod.fst hproj
        rw [hdh, alookup_specEntries env hit (ctxKeys fmts) here base c L hd hb0, Option.getD_some]
        simp only [mismatches_spec_iff, true_and]
        constructor
        · rintro (h | ⟨hro, e, he, ⟨hf, hne⟩, htag⟩)
          · exact Or.inl h
          · exact Or.inr ⟨hro, c, e, hat c (List.mem_cons_self ..), he, hf, hne, htag⟩
        · rintro (h | ⟨hro, c', e, hc', he, hf, hne, htag⟩)
          · exact Or.inl h
          · rw [hat c (List.mem_cons_self ..)] at hc'
            cases hc'
            exact Or.inr ⟨hro, e, he, ⟨hf, hne⟩, htag⟩
    rw [hstep]
    constructor
    · rintro ((h | ⟨hro, hd, hbad⟩) | ⟨hro, c', hc', hd, hbad⟩)
      · exact Or.inl h
      · exact Or.inr ⟨hro, c, List.mem_cons_self, hd, hbad⟩
      · exact Or.inr ⟨hro, c', List.mem_cons_of_mem _ hc', hd, hbad⟩
    · rintro (h | ⟨hro, c', hc', hd, hbad⟩)
      · exact Or.inl (Or.inl h)
      · rcases List.mem_cons.1 hc' with rfl | hc'
        · exact Or.inl (Or.inr ⟨hro, hd, hbad⟩)
        · exact Or.inr ⟨hro, c', hc', hd, hbad⟩

theorem marksOf_dhVisit (b : Bool) (env : Env) (t : Node) (rootHist : Hist) (fmts : List String) (o : DhOpts)
    (st : DhState) (v : Visit) :
    marksOf b (dhVisit env t rootHist fmts o st v) = marksOf b (dhKids env t rootHist fmts o st v).1 := by
  unfold dhVisit
  simp only
  split <;> cases b <;> rfl

/-- the traversals of the children of one folder -/
theorem foldl_dhKid_marks (b : Bool) (env : Env) (t : Node) (rootHist : Hist) (fmts : List String) (o : DhOpts)
    (hit : RelPath → Bool) (here : RelPath) (K : List String) (L : List Node) (x : String)
    (ihD : ∀ c ∈ L, c.isDir = true → ∀ st : DhState,
      (∀ y ∈ st.dirHashes, ¬ (here ++ [c.name]) <+: y.1) →
      ((traverse hit (here ++ [c.name]) c).foldl (dhVisit env t rootHist fmts o) st).dirHashes =
        st.dirHashes ++ [specEntry env hit K (here ++ [c.name]) c])
    (ihF : ∀ c ∈ L, c.isDir = true → ∀ st : DhState,
      (∀ y ∈ st.dirHashes, ¬ (here ++ [c.name]) <+: y.1) →
      (x ∈ marksOf b ((traverse hit (here ++ [c.name]) c).foldl (dhVisit env t rootHist fmts o) st) ↔
        x ∈ marksOf b st ∨ (o.rootOnly = false ∧ ∃ q, (q, true) ∈ visFrom hit (here ++ [c.name]) c ∧
          DhBad env t rootHist fmts hit b x q)))
    (hpw : L.Pairwise fun a b => a.name ≠ b.name) (st : DhState)
    (hst : ∀ c ∈ L, ∀ y ∈ st.dirHashes, ¬ (here ++ [c.name]) <+: y.1) :
    x ∈ marksOf b ((L.flatMap fun c => traverse hit (here ++ [c.name]) c).foldl
        (dhVisit env t rootHist fmts o) st) ↔
      x ∈ marksOf b st ∨ (o.rootOnly = false ∧ ∃ c ∈ L, ∃ q, (q, true) ∈ visFrom hit (here ++ [c.name]) c ∧
        DhBad env t rootHist fmts hit b x q) := by
  induction L generalizing st with
  | nil => simp
  | cons c L ihL =>
    rw [List.pairwise_cons] at hpw
    rw [List.flatMap_cons, List.foldl_append]
    have ihD' := fun c' hc' => ihD c' (List.mem_cons_of_mem _ hc')
    have ihF' := fun c' hc' => ihF c' (List.mem_cons_of_mem _ hc')
    have hst' := fun c' hc' => hst c' (List.mem_cons_of_mem _ hc')
    cases hd : c.isDir with
    | false =>
      have htr : traverse hit (here ++ [c.name]) c = [] := by
        cases c with
        | file n bs => rw [traverse]
        | dir n cs h => simp [Node.isDir] at hd
      have hvf : visFrom hit (here ++ [c.name]) c = [] := by
        cases c with
        | file n bs => simp
        | dir n cs h => simp [Node.isDir] at hd
      rw [htr, List.foldl_nil, ihL ihD' ihF' hpw.2 st hst']
      constructor
      · rintro (h | ⟨hro, c', hc', hq⟩)
        · exact Or.inl h
        · exact Or.inr ⟨hro, c', List.mem_cons_of_mem _ hc', hq⟩
      · rintro (h | ⟨hro, c', hc', q, hq, hbad⟩)
        · exact Or.inl h
        · rcases List.mem_cons.1 hc' with rfl | hc'
          · rw [hvf] at hq; cases hq
          · exact Or.inr ⟨hro, c', hc', q, hq, hbad⟩
    | true =>
      have h1 := ihD c (List.mem_cons_self ..) hd st (hst c (List.mem_cons_self ..))
      rw [ihL ihD' ihF' hpw.2, ihF c (List.mem_cons_self ..) hd st (hst c (List.mem_cons_self ..))]
      · constructor
        · rintro ((h | ⟨hro, hq⟩) | ⟨hro, c', hc', hq⟩)
          · exact Or.inl h
          · exact Or.inr ⟨hro, c, List.mem_cons_self, hq⟩
          · exact Or.inr ⟨hro, c', List.mem_cons_of_mem _ hc', hq⟩
        · rintro (h | ⟨hro, c', hc', hq⟩)
          · exact Or.inl (Or.inl h)
          · rcases List.mem_cons.1 hc' with rfl | hc'
            · exact Or.inl (Or.inr ⟨hro, hq⟩)
            · exact Or.inr ⟨hro, c', hc', hq⟩
      · intro c' hc' y hy
        rw [h1, List.mem_append, List.mem_singleton] at hy
        rcases hy with hy | rfl
        · exact hst' c' hc' y hy
        · exact prefix_singleton_ne (Ne.symm (hpw.1 c' hc'))

/-- WHAT THE TRAVERSAL MARKS, exactly.  `d` is a directory found at `here`, sibling names distinct, `st` any state
without `dirHashes` key at or below `here`.  After the fold of `dhVisit` over the traversal of `d`, `x` is in
`failedFormats` (`b = true`) / `dirMismatch` (`b = false`) iff it was there before or — without `-ro` — some visible
sub-folder `q` of `d` has a recorded entry in a computed format that differs from the specified hashes of the folder
at `q` (and `x` is that entry's format / the text of `q`). -/
theorem foldl_dhVisit_marks (b : Bool) (env : Env) (t : Node) (rootHist : Hist) (fmts : List String) (o : DhOpts)
    (hit : RelPath → Bool) (x : String) (d : Node) :
    d.isDir = true → ∀ (here : RelPath) (st : DhState), t.at? here = some d → d.NamesDistinct →
      (∀ y ∈ st.dirHashes, ¬ here <+: y.1) →
      (x ∈ marksOf b ((traverse hit here d).foldl (dhVisit env t rootHist fmts o) st) ↔
        x ∈ marksOf b st ∨ (o.rootOnly = false ∧ ∃ q, (q, true) ∈ visFrom hit here d ∧
          DhBad env t rootHist fmts hit b x q)) := by
  induction d using Node.induct with
  | file n c => intro h; simp [Node.isDir] at h
  | dir n cs h ih =>
    intro _ here st hat hnd hst
    rw [Node.namesDistinct_dir] at hnd
    have hVN := mem_visNodes hit here cs
    have hpw := visNodes_pairwise hit here cs hnd.1
    have hbelow : ∀ c : Node, ∀ y ∈ st.dirHashes, ¬ (here ++ [c.name]) <+: y.1 :=
      fun c y hy hp => hst y hy ((List.prefix_append _ _).trans hp)
    have hatc : ∀ c ∈ visNodes hit here cs, t.at? (here ++ [c.name]) = some c :=
      fun c hc => Node.at?_child hat hnd.1 ((hVN c).1 hc).1
    have ihD : ∀ c ∈ visNodes hit here cs, c.isDir = true → ∀ st' : DhState,
        (∀ y ∈ st'.dirHashes, ¬ (here ++ [c.name]) <+: y.1) →
        ((traverse hit (here ++ [c.name]) c).foldl (dhVisit env t rootHist fmts o) st').dirHashes =
          st'.dirHashes ++ [specEntry env hit (ctxKeys fmts) (here ++ [c.name]) c] :=
      fun c hc hdir st' hst' => foldl_dhVisit_dirHashes env t rootHist fmts o hit c hdir _ st' (hatc c hc)
        (hnd.2 c ((hVN c).1 hc).1) hst'
    have ihF : ∀ c ∈ visNodes hit here cs, c.isDir = true → ∀ st' : DhState,
        (∀ y ∈ st'.dirHashes, ¬ (here ++ [c.name]) <+: y.1) →
        (x ∈ marksOf b ((traverse hit (here ++ [c.name]) c).foldl (dhVisit env t rootHist fmts o) st') ↔
          x ∈ marksOf b st' ∨ (o.rootOnly = false ∧ ∃ q, (q, true) ∈ visFrom hit (here ++ [c.name]) c ∧
            DhBad env t rootHist fmts hit b x q)) :=
      fun c hc hdir st' hst' => ih c ((hVN c).1 hc).1 hdir _ st' (hatc c hc) (hnd.2 c ((hVN c).1 hc).1) hst'
    have hkidsD := foldl_dhKid_visits env t rootHist fmts o hit here (ctxKeys fmts) (visNodes hit here cs)
      ihD hpw st (fun c _ => hbelow c)
    have hkidsF := foldl_dhKid_marks b env t rootHist fmts o hit here (ctxKeys fmts) (visNodes hit here cs) x
      ihD ihF hpw st (fun c _ => hbelow c)
    rw [traverse_dir_nodes, List.foldl_append, List.foldl_cons, List.foldl_nil, marksOf_dhVisit]
    unfold dhKids
    simp only
    rw [foldl_dhChildStep_marks b env t rootHist fmts o hit here st.dirHashes (visNodes hit here cs) _ (fun _ => {})
      (by rw [dhProj, hkidsD, ctxInit_eq])
      (fun nm bs hm => fileContent_child hat hnd.1 ((hVN _).1 hm).1) hpw
      (fun c _ y hy he => hbelow c y hy (he ▸ List.prefix_refl _)) hatc, hkidsF]
    constructor
    · rintro ((h | ⟨hro, c, hc, q, hq, hbad⟩) | ⟨hro, c, hc, hd, hbad⟩)
      · exact Or.inl h
      · refine Or.inr ⟨hro, q, ?_, hbad⟩
        rw [mem_visFrom_dir]
        exact ⟨c, ((hVN c).1 hc).1, ((hVN c).1 hc).2, Or.inr hq⟩
      · refine Or.inr ⟨hro, here ++ [c.name], ?_, hbad⟩
        rw [mem_visFrom_dir]
        exact ⟨c, ((hVN c).1 hc).1, ((hVN c).1 hc).2, Or.inl (by rw [hd])⟩
    · rintro (h | ⟨hro, q, hq, hbad⟩)
      · exact Or.inl (Or.inl h)
      · rw [mem_visFrom_dir] at hq
        obtain ⟨c, hc, hh, hq | hq⟩ := hq
        · have hcv : c ∈ visNodes hit here cs := (hVN c).2 ⟨hc, hh⟩
          simp only [Prod.mk.injEq] at hq
          obtain ⟨rfl, hd⟩ := hq
          exact Or.inr ⟨hro, c, hcv, hd.symm, hbad⟩
        · exact Or.inl (Or.inr ⟨hro, c, (hVN c).2 ⟨hc, hh⟩, q, hq, hbad⟩)

end MhlModel

namespace MhlModel

theorem dhStep_of_not_mismatch (fmts : List String) (count : Bool) (label : String)
    (computed : List (String × String × String)) (st : DhState) (e : Entry)
    (h : mismatches fmts computed e = false) : dhStep fmts count label computed st e = st := by
  unfold dhStep
  unfold mismatches at h
  cases hf : fmts.contains e.fmt with
  | false => simp
  | true =>
    rw [hf] at h
    simp only [Bool.not_true, Bool.false_eq_true, if_false]
    cases hc : computed.find? (fun x => x.1 == e.fmt) with
    | none => rfl
    | some y =>
      obtain ⟨k, c', s'⟩ := y
      rw [hc] at h
      simp only [Bool.true_and] at h
      simp only [h, Bool.false_eq_true, if_false]

/-- a comparison in which no recorded entry mismatches leaves the state as it is (counted or not) -/
theorem dhCompare_of_no_mismatch (fmts : List String) (count : Bool) (label : String)
    (computed : List (String × String × String)) (st : DhState) (recorded : List Entry)
    (h : ∀ e ∈ recorded, mismatches fmts computed e = false) :
    dhCompare fmts count label computed st recorded = st := by
  rw [dhCompare_eq]
  induction recorded generalizing st with
  | nil => rfl
  | cons e es ih =>
    rw [List.foldl_cons, dhStep_of_not_mismatch _ _ _ _ _ _ (h e List.mem_cons_self)]
    exact ih _ (fun e' he' => h e' (List.mem_cons_of_mem _ he'))

/-- the recorded entries `dhVisit` compares a folder with that is the ROOT of a history `c` (path "." there): the
directory entries of what each generation of `c` finds under "." — its root hash, unless a record of the generation
has the path or previous path "." — followed by the root hash entries of every generation once more -/
theorem dirEntriesFor_dot (c : Hist) :
    dirEntriesFor c "." =
      (c.gens.flatMap fun g => match g.gen.find "." with
        | some r => if r.isDir then r.entries else []
        | none => []) ++ allRootEntries c := by
  simp only [dirEntriesFor, allRootEntries, beq_self_eq_true, if_true]
  rfl

/-- a generation none of whose records has the path or the previous path "." finds its root hash under "." -/
theorem Generation.find_dot (g : Generation)
    (h : ∀ r ∈ g.records, r.path ≠ "." ∧ r.prev ≠ some ".") :
    g.find "." = g.rootHash.map fun es => { path := ".", isDir := true, entries := es } := by
  unfold Generation.find
  simp only
  rw [List.reverse_append, List.find?_append]
  have hnone : g.records.reverse.find? (fun r => r.path == "." || r.prev == some ".") = none := by
    rw [List.find?_eq_none]
    intro r hr
    have := h r (List.mem_reverse.1 hr)
    simp [this.1, this.2]
  rw [hnone, Option.none_or]
  cases g.rootHash with
  | none => rfl
  | some es => simp

/-- … so for a history all of whose generations are like that, the root folder is compared with the root hash
entries of all its generations, each entry twice -/
theorem dirEntriesFor_dot_clean (c : Hist)
    (h : ∀ g ∈ c.gens, ∀ r ∈ g.gen.records, r.path ≠ "." ∧ r.prev ≠ some ".") :
    dirEntriesFor c "." = allRootEntries c ++ allRootEntries c := by
  rw [dirEntriesFor_dot]
  congr 1
  unfold allRootEntries
  apply List.flatMap_congr
  intro g hg
  rw [Generation.find_dot g.gen (h g hg)]
  cases g.gen.rootHash with
  | none => rfl
  | some es => rfl

end MhlModel

/-! ## C. the session of folder-mode `create` on a tree WITH nested histories: every directory record and every root
record carries exactly the specified hashes of the folder it denotes -/

namespace MhlModel

/-- the hash content of the session: a directory record `r` of the list of the history rooted at `R` denotes a folder
of the tree (`R ++ q`, `r.path = posix q`) and carries exactly the entries of that folder's specified hashes; the
root record of that list carries those of the folder `R`; no record has a previous path -/
structure EInv (env : Env) (t : Node) (hit : RelPath → Bool) (K : List String) (s : Session) : Prop where
  recs : ∀ R, ∀ r ∈ (s.get R).records, r.isDir = true → ∃ q c, r.path = posix q ∧ t.at? (R ++ q) = some c ∧
      r.entries = dirEnts (specEntry env hit K (R ++ q) c).2
  rootRecs : ∀ R rr, (s.get R).rootRec = some rr → ∃ c, t.at? R = some c ∧
      rr.entries = dirEnts (specEntry env hit K R c).2
  prev : ∀ R, ∀ r ∈ (s.get R).records, r.prev = none

theorem einv_empty (env : Env) (t : Node) (hit : RelPath → Bool) (K pats : List String) :
    EInv env t hit K { patterns := pats } := by
  refine ⟨?_, ?_, ?_⟩
  · intro R r hr; simp [Session.get] at hr
  · intro R rr hrr; simp [Session.get] at hrr
  · intro R r hr; simp [Session.get] at hr

theorem Session.addTo_fresh_get (s : Session) (R : RelPath) (p : String) (sz : Option Nat) (f : Record → Record)
    (hdot : p ≠ ".") (hfresh : ∀ r ∈ (s.get R).records, r.path ≠ p) (R' : RelPath) :
    (s.addTo R p sz f).get R' =
      if R' = R then { s.get R with records := (s.get R).records ++ [f { path := p, size := sz }] }
      else s.get R' := by
  by_cases h : R' = R
  · subst h
    rw [if_pos rfl, Session.addTo_get_same, NewList.update_fresh_q _ _ _ _ hdot hfresh]
  · rw [if_neg h, Session.addTo_get_ne _ _ _ _ _ _ h]

theorem Session.addTo_dot_get (s : Session) (R : RelPath) (sz : Option Nat) (f : Record → Record)
    (hnone : (s.get R).rootRec = none) (R' : RelPath) :
    (s.addTo R "." sz f).get R' =
      if R' = R then { s.get R with rootRec := some (f { path := ".", size := sz }) } else s.get R' := by
  by_cases h : R' = R
  · subst h
    rw [if_pos rfl, Session.addTo_get_same, NewList.update_dot_q, hnone]
    rfl
  · rw [if_neg h, Session.addTo_get_ne _ _ _ _ _ _ h]

theorem EInv.addRec {env : Env} {t : Node} {hit : RelPath → Bool} {K : List String} {s : Session}
    (he : EInv env t hit K s) {R : RelPath} {p : String} {sz : Option Nat} {f : Record → Record}
    (hdot : p ≠ ".") (hfresh : ∀ r ∈ (s.get R).records, r.path ≠ p)
    (hprev : (f { path := p, size := sz }).prev = none)
    (hnew : (f { path := p, size := sz }).isDir = true → ∃ q c, (f { path := p, size := sz }).path = posix q ∧
      t.at? (R ++ q) = some c ∧
      (f { path := p, size := sz }).entries = dirEnts (specEntry env hit K (R ++ q) c).2) :
    EInv env t hit K (s.addTo R p sz f) := by
  have hget := Session.addTo_fresh_get s R p sz f hdot hfresh
  refine ⟨?_, ?_, ?_⟩
  · intro R' r hr hd
    rw [hget] at hr
    by_cases h : R' = R
    · subst h
      rw [if_pos rfl] at hr
      rcases List.mem_append.1 hr with hr | hr
      · exact he.recs _ r hr hd
      · simp only [List.mem_singleton] at hr
        subst hr
        exact hnew hd
    · rw [if_neg h] at hr
      exact he.recs _ r hr hd
  · intro R' rr hrr
    rw [hget] at hrr
    by_cases h : R' = R
    · subst h
      rw [if_pos rfl] at hrr
      exact he.rootRecs _ rr hrr
    · rw [if_neg h] at hrr
      exact he.rootRecs _ rr hrr
  · intro R' r hr
    rw [hget] at hr
    by_cases h : R' = R
    · subst h
      rw [if_pos rfl] at hr
      rcases List.mem_append.1 hr with hr | hr
      · exact he.prev _ r hr
      · simp only [List.mem_singleton] at hr
        subst hr
        exact hprev
    · rw [if_neg h] at hr
      exact he.prev _ r hr

theorem EInv.setRoot {env : Env} {t : Node} {hit : RelPath → Bool} {K : List String} {s : Session}
    (he : EInv env t hit K s) {R : RelPath} {sz : Option Nat} {f : Record → Record}
    (hnone : (s.get R).rootRec = none)
    (hnew : ∃ c, t.at? R = some c ∧ (f { path := ".", size := sz }).entries = dirEnts (specEntry env hit K R c).2) :
    EInv env t hit K (s.addTo R "." sz f) := by
  have hget := Session.addTo_dot_get s R sz f hnone
  refine ⟨?_, ?_, ?_⟩
  · intro R' r hr hd
    rw [hget] at hr
    by_cases h : R' = R
    · subst h
      rw [if_pos rfl] at hr
      exact he.recs _ r hr hd
    · rw [if_neg h] at hr
      exact he.recs _ r hr hd
  · intro R' rr hrr
    rw [hget] at hrr
    by_cases h : R' = R
    · subst h
      rw [if_pos rfl] at hrr
      simp only [Option.some.injEq] at hrr
      subst hrr
      exact hnew
    · rw [if_neg h] at hrr
      exact he.rootRecs _ rr hrr
  · intro R' r hr
    rw [hget] at hr
    by_cases h : R' = R
    · subst h
      rw [if_pos rfl] at hr
      exact he.prev _ r hr
    · rw [if_neg h] at hr
      exact he.prev _ r hr

section esteps
variable {env : Env} {t : Node} {g : Hist} {fmts pats : List String} {hit : RelPath → Bool} {K : List String}
  (hg : HistOK t g)
include hg

theorem einv_file {s : Session} {L : List (RelPath × Bool)} {p : RelPath} (hfm : fmts ≠ [])
    (hs : SInv env t g fmts pats s L) (he : EInv env t hit K s) (hok : ItemsOk g (L ++ [(p, false)])) :
    EInv env t hit K (sealFile env.H g s p (fileContent t p) fmts).1 := by
  have hne := sealEntries_ne_nil (route g p).1.gens (posix (relOf g p)) (fun f => env.H f (fileContent t p)) fmts hfm
  rw [sealFile_addTo env.H g s p (fileContent t p) fmts hne]
  have hq0 : relOf g p ≠ [] := hok.files p (by simp)
  have hq := owner_append hg p
  have hpn : ∀ n ∈ p, NameOk n := hok.names (p, false) (by simp)
  have hqn : ∀ n ∈ relOf g p, NameOk n := fun n hn => hpn n (mem_of_append_eq hq n hn)
  have hfresh := hs.core.fresh (fun x hx => hok.left.names x hx) hq hqn hok.fresh
  have hdot : posix (relOf g p) ≠ "." := fun h => hq0 ((posix_eq_dot hqn).1 h)
  exact he.addRec hdot hfresh rfl (fun hd => by cases hd)

theorem einv_dir {s : Session} {L : List (RelPath × Bool)} {d : RelPath} (c : Node) (hatd : t.at? d = some c)
    (hs : SInv env t g fmts pats s L) (he : EInv env t hit K s) (hok : ItemsOk g (L ++ [(d, true)])) :
    EInv env t hit K (appendDirHashes g s d (specEntry env hit K d c).2) := by
  rw [appendDirHashes_addTo]
  have hq := owner_append hg d
  have hdn : ∀ n ∈ d, NameOk n := hok.names (d, true) (by simp)
  have hsub : ∀ y ∈ L, y ∈ L ++ [(d, true)] := fun y hy => List.mem_append_left _ hy
  have hmem : (d, true) ∈ L ++ [(d, true)] := by simp
  have hLn : ∀ x ∈ L, ∀ n ∈ x.1, NameOk n := fun x hx => hok.left.names x hx
  have hents : ∀ p : String, (dirUpd (specEntry env hit K d c).2 { path := p, size := none }).entries =
      dirEnts (specEntry env hit K d c).2 := by
    intro p; simp [dirUpd]
  by_cases hrel : relOf g d = []
  · obtain ⟨hown, -⟩ := relOf_nil hg hrel
    have hposix : posix (relOf g d) = "." := by rw [hrel]; rfl
    have hfresh0 : (s.get d).rootRec = none := by
      cases h : (s.get d).rootRec with
      | none => rfl
      | some rr =>
        exfalso
        exact hok.fresh (List.mem_map.2 ⟨(d, true), hs.core.rootRecs d rr h, rfl⟩)
    have hemp : (relOf g d).isEmpty = true := by rw [hrel]; rfl
    rw [if_pos hemp, hown, hposix]
    have he1 : EInv env t hit K (s.addTo d "." none (dirUpd (specEntry env hit K d c).2)) :=
      he.setRoot hfresh0 ⟨c, hatd, hents "."⟩
    obtain ⟨-, -, -, -, hrecs1⟩ := hs.core.setRoot hsub hmem hfresh0 none (dirUpd (specEntry env hit K d c).2)
    cases hpr : parentRoot g d with
    | none => exact he1
    | some pr =>
      simp only
      obtain ⟨hpre, hlen, -⟩ := parentRoot_prefix hg hpr
      have hq2 : pr ++ d.drop pr.length = d := List.prefix_iff_eq_append.1 hpre
      have hq20 : d.drop pr.length ≠ [] := by
        intro h
        have := congrArg List.length h
        simp only [List.length_drop, List.length_nil] at this
        omega
      have hqn2 : ∀ n ∈ d.drop pr.length, NameOk n := fun n hn => hdn n (List.mem_of_mem_drop hn)
      have hfresh2 : ∀ r ∈ ((s.addTo d "." none (dirUpd (specEntry env hit K d c).2)).get pr).records,
          r.path ≠ posix (d.drop pr.length) := by
        rw [hrecs1]
        exact hs.core.fresh hLn hq2 hqn2 hok.fresh
      have hdot2 : posix (d.drop pr.length) ≠ "." := fun h => hq20 ((posix_eq_dot hqn2).1 h)
      exact he1.addRec hdot2 hfresh2 rfl
        (fun _ => ⟨d.drop pr.length, c, rfl, by rw [hq2]; exact hatd, by rw [hents, hq2]⟩)
  · have hemp : (relOf g d).isEmpty = false := by cases h : relOf g d <;> simp_all
    simp only [hemp, Bool.false_eq_true, if_false]
    have hqn : ∀ n ∈ relOf g d, NameOk n := fun n hn => hdn n (mem_of_append_eq hq n hn)
    have hfresh := hs.core.fresh hLn hq hqn hok.fresh
    have hdot : posix (relOf g d) ≠ "." := fun h => hrel ((posix_eq_dot hqn).1 h)
    exact he.addRec hdot hfresh rfl
      (fun _ => ⟨relOf g d, c, rfl, by rw [hq]; exact hatd, by rw [hents, hq]⟩)

end esteps

/-- `SInv` together with `EInv`, conditional on the visited items being unambiguous -/
def SessInvE (env : Env) (t : Node) (g : Hist) (fmts pats : List String) (hit : RelPath → Bool) (s : Session)
    (L : List (RelPath × Bool)) : Prop :=
  ItemsOk g L → SInv env t g fmts pats s L ∧ EInv env t hit (ctxKeys fmts) s

theorem sessInvE_empty (env : Env) (t : Node) (g : Hist) (fmts pats : List String) (hit : RelPath → Bool) :
    SessInvE env t g fmts pats hit { patterns := pats } [] :=
  fun hok => ⟨sessInv_empty env t g fmts pats hok, einv_empty env t hit _ pats⟩

theorem childStep_sessInvE {env : Env} {t : Node} {g : Hist} {fmts pats : List String} {hit : RelPath → Bool}
    (hg : HistOK t g) (hfm : fmts ≠ []) (folder : RelPath)
    (a : CreateState × List (String × DirCtx)) (b : String × Bool) (L : List (RelPath × Bool))
    (hP : SessInvE env t g fmts pats hit a.1.session L) :
    SessInvE env t g fmts pats hit (childStep env t g fmts false folder a b).1.session
      (L ++ if b.2 then [] else [(folder ++ [b.1], false)]) := by
  obtain ⟨st, ctx⟩ := a
  obtain ⟨nm, d⟩ := b
  cases d
  · simp only [childStep, Bool.false_eq_true, if_false]
    intro hok
    obtain ⟨hs, he⟩ := hP hok.left
    exact ⟨sinv_file hg hfm hs hok, einv_file hg hfm hs he hok⟩
  · simp only [childStep, if_true, Bool.false_eq_true, if_false, List.append_nil]
    exact hP

theorem createVisit_sessInvE {env : Env} {t : Node} {g : Hist} {fmts pats : List String} {hit : RelPath → Bool}
    (hg : HistOK t g) (hfm : fmts ≠ []) (st : CreateState) (v : Visit) (L : List (RelPath × Bool))
    (hs : SessInvE env t g fmts pats hit st.session L)
    (hv : ∃ c, t.at? v.folder = some c ∧
      visitHashes env t g fmts st v = (specEntry env hit (ctxKeys fmts) v.folder c).2) :
    SessInvE env t g fmts pats hit (createVisit env t g fmts false st v).session (L ++ visitItems v) := by
  obtain ⟨c, hat, hvh⟩ := hv
  rw [createVisit_session_eq, hvh]
  unfold visitItems
  rw [← List.append_assoc]
  have hkids := foldl_track
    (fun (a : CreateState × List (String × DirCtx)) L => SessInvE env t g fmts pats hit a.1.session L)
    (childStep env t g fmts false v.folder) (fun b => if b.2 then [] else [(v.folder ++ [b.1], false)])
    (fun a b L hP => childStep_sessInvE hg hfm v.folder a b L hP)
    v.children (st, ctxInit fmts) L hs
  intro hok
  obtain ⟨hs', he'⟩ := hkids hok.left
  exact ⟨sinv_dir hg _ hs' hok, einv_dir hg c hat hs' he' hok⟩

theorem createFold_sessInvE {env : Env} {t : Node} {g : Hist} {fmts pats : List String} {hit : RelPath → Bool}
    (hg : HistOK t g) (hfm : fmts ≠ []) (vs : List Visit) (st : CreateState)
    (L : List (RelPath × Bool)) (hs : SessInvE env t g fmts pats hit st.session L)
    (hlog : LogOK env t g fmts hit vs st) :
    SessInvE env t g fmts pats hit (vs.foldl (createVisit env t g fmts false) st).session (L ++ recItems vs) := by
  induction vs generalizing st L with
  | nil => simpa [recItems] using hs
  | cons v vs ih =>
    have : recItems (v :: vs) = visitItems v ++ recItems vs := by simp [recItems]
    rw [List.foldl_cons, this, ← List.append_assoc]
    exact ih _ _ (createVisit_sessInvE hg hfm st v L hs hlog.1) hlog.2

/-- the session folder-mode `create` WITH directory hashes reaches on ANY tree whose history loaded (nested histories
to any depth): `SInv` (C08part) and, in addition, every directory record / root record carries exactly the specified
hashes of the folder it denotes, for the requested formats -/
theorem createFold_einv {env : Env} {t : Node} {g : Hist} (hg : HistOK t g) (hd : t.NamesDistinct) (hn : t.NamesOk)
    (hdir : t.isDir = true) (fmts : List String) (hfm : fmts ≠ []) (pats : List String) (hit : RelPath → Bool) :
    EInv env t hit (ctxKeys fmts)
      ((traverse hit [] t).foldl (createVisit env t g fmts false) { session := { patterns := pats } }).session := by
  have h0 := createFold_sessInvE (env := env) (pats := pats) hg hfm (traverse hit [] t)
    { session := { patterns := pats } } [] (sessInvE_empty env t g fmts pats hit)
    (logOK_traverse env t g fmts hit t hdir [] _ (by simp [Node.at?]) hd (by simp))
  rw [List.nil_append] at h0
  exact (h0 (recItems_itemsOk hg hit hd hn)).2

end MhlModel

/-! ## S. what does not depend on the `ascmhl` folders: the tree with every `ascmhl` folder taken away -/

namespace MhlModel

mutual
/-- the tree without any `ascmhl` folder -/
def Node.strip : Node → Node
  | .file n c => .file n c
  | .dir n cs _ => .dir n (Node.stripL cs) none
def Node.stripL : List Node → List Node
  | [] => []
  | c :: cs => c.strip :: Node.stripL cs
end

theorem Node.stripL_eq_map (cs : List Node) : Node.stripL cs = cs.map Node.strip := by
  induction cs with
  | nil => rw [Node.stripL]; rfl
  | cons c cs ih => rw [Node.stripL, ih]; rfl

theorem Node.strip_name (t : Node) : t.strip.name = t.name := by
  cases t with
  | file n c => rw [Node.strip]
  | dir n cs h => rw [Node.strip]; rfl

theorem Node.strip_isDir (t : Node) : t.strip.isDir = t.isDir := by
  cases t with
  | file n c => rw [Node.strip]
  | dir n cs h => rw [Node.strip]; rfl

theorem Node.strip_dir (n : String) (cs : List Node) (h : Option HistStore) :
    (Node.dir n cs h).strip = .dir n (cs.map Node.strip) none := by
  rw [Node.strip, Node.stripL_eq_map]

theorem Node.strip_file (n : String) (c : Bytes) : (Node.file n c).strip = .file n c := by
  rw [Node.strip]

theorem updateKids_eq_map_dn (f : Node → Node) (n : String) (rest : RelPath) (cs : List Node) :
    Node.updateKids f n rest cs = cs.map fun c => if c.name == n then Node.updateAt f c rest else c := by
  induction cs with
  | nil => simp [Node.updateKids]
  | cons c cs ih => simp [Node.updateKids, ih]

/-- an update that does not change the stripped node does not change the stripped tree -/
theorem strip_updateAt (f : Node → Node) (hf : ∀ x, (f x).strip = x.strip) :
    ∀ (p : RelPath) (t : Node), (Node.updateAt f t p).strip = t.strip
  | [], t => by rw [updateAt_nil, hf]
  | n :: rest, .file nm c => by simp [Node.updateAt]
  | n :: rest, .dir nm cs h => by
    rw [updateAt_dir_cons, Node.strip_dir, Node.strip_dir, updateKids_eq_map_dn, List.map_map]
    congr 1
    apply List.map_congr_left
    intro c _
    simp only [Function.comp]
    split
    · exact strip_updateAt f hf rest c
    · rfl

theorem strip_addGeneration (w : Written) (x : Node) : (Node.addGeneration w x).strip = x.strip := by
  cases x with
  | file n c => rfl
  | dir n cs h => rw [Node.addGeneration, Node.strip_dir, Node.strip_dir]

/-- writing generations changes `ascmhl` folders only -/
theorem strip_applyWritten (t : Node) (ws : List Written) : (applyWritten t ws).strip = t.strip := by
  unfold applyWritten
  induction ws generalizing t with
  | nil => rfl
  | cons w ws ih =>
    rw [List.foldl_cons, ih, strip_updateAt _ (strip_addGeneration w)]

mutual
theorem traverse_strip (hit : RelPath → Bool) : (t : Node) → (here : RelPath) →
    traverse hit here t.strip = traverse hit here t
  | .file n c, here => by rw [Node.strip]
  | .dir n cs h, here => by
    rw [Node.strip, traverse, traverse, traverseKids_strip hit cs here]
theorem traverseKids_strip (hit : RelPath → Bool) : (cs : List Node) → (here : RelPath) →
    traverseKids hit here (Node.stripL cs) = traverseKids hit here cs
  | [], _ => by rw [Node.stripL]
  | c :: cs, here => by
    rw [Node.stripL, traverseKids, traverseKids, traverse_strip hit c, traverseKids_strip hit cs, Node.strip_name,
      Node.strip_isDir]
end

mutual
theorem nodeHashes_strip (H : HashFn) (D : DecodeFn) (fmt : String) (hit : RelPath → Bool) : (t : Node) →
    (here : RelPath) → nodeHashes H D fmt hit here t.strip = nodeHashes H D fmt hit here t
  | .file n c, here => by rw [Node.strip]
  | .dir n cs h, here => by
    rw [Node.strip, nodeHashes, nodeHashes, kidHashes_strip H D fmt hit cs here]
theorem kidHashes_strip (H : HashFn) (D : DecodeFn) (fmt : String) (hit : RelPath → Bool) : (cs : List Node) →
    (here : RelPath) → kidHashes H D fmt hit here (Node.stripL cs) = kidHashes H D fmt hit here cs
  | [], _ => by rw [Node.stripL]
  | c :: cs, here => by
    rw [Node.stripL, kidHashes, kidHashes, nodeHashes_strip H D fmt hit c, kidHashes_strip H D fmt hit cs,
      Node.strip_name]
end

mutual
theorem namesDistinct_strip : (t : Node) → (t.strip.NamesDistinct ↔ t.NamesDistinct)
  | .file n c => by rw [Node.strip]
  | .dir n cs h => by
    rw [Node.strip, Node.NamesDistinct, Node.NamesDistinct, namesDistinctKids_strip cs, Node.stripL_eq_map,
      List.map_map]
    have : (Node.name ∘ Node.strip) = Node.name := by funext x; exact Node.strip_name x
    rw [this]
theorem namesDistinctKids_strip : (cs : List Node) →
    (Node.NamesDistinctKids (Node.stripL cs) ↔ Node.NamesDistinctKids cs)
  | [] => by rw [Node.stripL]
  | c :: cs => by
    rw [Node.stripL, Node.NamesDistinctKids, Node.NamesDistinctKids, namesDistinct_strip c,
      namesDistinctKids_strip cs]
end

mutual
theorem descNames_strip : (t : Node) → t.strip.descNames = t.descNames
  | .file n c => by rw [Node.strip]
  | .dir n cs h => by rw [Node.strip, Node.descNames, Node.descNames, descNamesKids_strip cs]
theorem descNamesKids_strip : (cs : List Node) → Node.descNamesKids (Node.stripL cs) = Node.descNamesKids cs
  | [] => by rw [Node.stripL]
  | c :: cs => by
    rw [Node.stripL, Node.descNamesKids, Node.descNamesKids, descNames_strip c, descNamesKids_strip cs,
      Node.strip_name]
end

theorem findChild_strip (cs : List Node) (n : String) :
    findChild (cs.map Node.strip) n = (findChild cs n).map Node.strip := by
  unfold findChild
  induction cs with
  | nil => rfl
  | cons c cs ih =>
    rw [List.map_cons, List.find?_cons, List.find?_cons, Node.strip_name]
    split
    · rfl
    · exact ih

theorem at?_strip : ∀ (q : RelPath) (t : Node), t.strip.at? q = (t.at? q).map Node.strip
  | [], t => by rw [Node.at?_nil', Node.at?_nil']; rfl
  | n :: rest, .file nm c => by rw [Node.strip]; simp [Node.at?]
  | n :: rest, .dir nm cs h => by
    rw [Node.strip_dir, Node.at?_dir_cons, Node.at?_dir_cons, findChild_strip]
    cases findChild cs n with
    | none => rfl
    | some c => exact at?_strip rest c

/-- two trees that differ in their `ascmhl` folders only -/
def SameFilesDh (t t' : Node) : Prop := t'.strip = t.strip

theorem sameFiles_applyWritten_n1 (t : Node) (ws : List Written) : SameFilesDh t (applyWritten t ws) :=
  strip_applyWritten t ws

section samefiles
variable {t t' : Node} (h : SameFilesDh t t')
include h

theorem SameFilesDh.traverse (hit : RelPath → Bool) (here : RelPath) : traverse hit here t' = traverse hit here t := by
  rw [← traverse_strip hit t', ← traverse_strip hit t, h]

theorem SameFilesDh.visiblePaths (hit : RelPath → Bool) : visiblePaths hit t' = visiblePaths hit t := by
  unfold MhlModel.visiblePaths; rw [h.traverse]

theorem SameFilesDh.nodeHashes (H : HashFn) (D : DecodeFn) (fmt : String) (hit : RelPath → Bool) (here : RelPath) :
    nodeHashes H D fmt hit here t' = nodeHashes H D fmt hit here t := by
  rw [← nodeHashes_strip H D fmt hit t', ← nodeHashes_strip H D fmt hit t, h]

theorem SameFilesDh.namesDistinct : t'.NamesDistinct ↔ t.NamesDistinct := by
  rw [← namesDistinct_strip t', ← namesDistinct_strip t, h]

theorem SameFilesDh.namesOk : t'.NamesOk ↔ t.NamesOk := by
  unfold Node.NamesOk; rw [← descNames_strip t', ← descNames_strip t, h]

theorem SameFilesDh.isDir : t'.isDir = t.isDir := by
  rw [← Node.strip_isDir t', ← Node.strip_isDir t, h]

/-- the nodes found at the same path differ in their `ascmhl` folders only -/
theorem SameFilesDh.at? (q : RelPath) :
    (t'.at? q = none ↔ t.at? q = none) ∧ ∀ c c', t.at? q = some c → t'.at? q = some c' → SameFilesDh c c' := by
  have := at?_strip q t'
  rw [h, at?_strip q t] at this
  constructor
  · cases h1 : t.at? q <;> cases h2 : t'.at? q <;> simp_all
  · intro c c' h1 h2
    rw [h1, h2] at this
    simpa [SameFilesDh] using this.symm

theorem SameFilesDh.at?_some {q : RelPath} {c : Node} (hc : t.at? q = some c) :
    ∃ c', t'.at? q = some c' ∧ SameFilesDh c c' := by
  cases h2 : t'.at? q with
  | none => rw [((h.at? q).1).1 h2] at hc; cases hc
  | some c' => exact ⟨c', rfl, (h.at? q).2 c c' hc h2⟩

end samefiles

end MhlModel

/-! ## W. the `ascmhl` folder found at a path after the generations of a run were written -/

namespace MhlModel

/-- one write: the folder at `q` keeps its name, and its `ascmhl` folder is the old one — with the new generation
added iff `q` is the root of the history that wrote -/
theorem at?_updateAt_addGeneration (w : Written) : ∀ (q p : RelPath) (t : Node) (nm : String) (cs : List Node)
    (hs : Option HistStore), t.at? q = some (.dir nm cs hs) →
    ∃ cs', (Node.updateAt (Node.addGeneration w) t p).at? q =
      some (.dir nm cs' (if q = p then some ((hs.getD {}).add w) else hs))
  | [], [], t, nm, cs, hs, h => by
    rw [Node.at?_nil'] at h
    cases h
    exact ⟨cs, by rw [updateAt_nil, Node.at?_nil']; rfl⟩
  | [], n :: rest, t, nm, cs, hs, h => by
    rw [Node.at?_nil'] at h
    cases h
    refine ⟨Node.updateKids (Node.addGeneration w) n rest cs, ?_⟩
    rw [updateAt_dir_cons, Node.at?_nil', if_neg (by simp)]
  | m :: q', [], t, nm, cs, hs, h => by
    cases t with
    | file n c => simp [Node.at?] at h
    | dir n0 cs0 h0 =>
      refine ⟨cs, ?_⟩
      rw [updateAt_nil, if_neg (by simp)]
      rw [Node.at?_dir_cons] at h
      show (Node.dir n0 cs0 _).at? (m :: q') = _
      rw [Node.at?_dir_cons]
      exact h
  | m :: q', n :: rest, t, nm, cs, hs, h => by
    cases t with
    | file n c => simp [Node.at?] at h
    | dir n0 cs0 h0 =>
      rw [Node.at?_dir_cons] at h
      rw [updateAt_dir_cons]
      by_cases hmn : m = n
      · subst hmn
        cases hf : findChild cs0 m with
        | none => rw [hf] at h; cases h
        | some c =>
          rw [hf] at h
          obtain ⟨cs', hcs'⟩ := at?_updateAt_addGeneration w q' rest c nm cs hs h
          refine ⟨cs', ?_⟩
          rw [Node.at?_dir_cons, findChild_updateKids_eq _ (MhlProps.C06.addGeneration_name w), hf]
          simp only [Option.map_some, Option.bind_some]
          rw [hcs']
          by_cases hq : q' = rest
          · simp [hq]
          · simp [hq]
      · refine ⟨cs, ?_⟩
        rw [Node.at?_dir_cons, findChild_updateKids_ne _ (MhlProps.C06.addGeneration_name w) _ _ _ _ hmn,
          if_neg (by simp [hmn])]
        exact h

/-- all writes of a run (the roots of the histories that wrote are pairwise different): the folder at `q` holds its
old `ascmhl` folder, with the generation added that the run wrote for the history rooted at `q` (if any) -/
theorem at?_applyWritten (ws : List Written) (hnd : (ws.map (·.histRoot)).Nodup) (q : RelPath) :
    ∀ (t : Node) (nm : String) (cs : List Node) (hs : Option HistStore), t.at? q = some (.dir nm cs hs) →
    ∃ cs', (applyWritten t ws).at? q =
      some (.dir nm cs' (match ws.find? (fun w => w.histRoot == q) with
        | some w => some ((hs.getD {}).add w)
        | none => hs)) := by
  induction ws with
  | nil => intro t nm cs hs h; exact ⟨cs, h⟩
  | cons w ws ih =>
    intro t nm cs hs h
    rw [List.map_cons, List.nodup_cons] at hnd
    obtain ⟨cs1, h1⟩ := at?_updateAt_addGeneration w q w.histRoot t nm cs hs h
    obtain ⟨cs2, h2⟩ := ih hnd.2 _ nm cs1 _ h1
    refine ⟨cs2, ?_⟩
    show (applyWritten (Node.updateAt (Node.addGeneration w) t w.histRoot) ws).at? q = _
    rw [h2, List.find?_cons]
    by_cases hq : q = w.histRoot
    · subst hq
      have hnone : ws.find? (fun w' => w'.histRoot == w.histRoot) = none := by
        rw [List.find?_eq_none]
        intro w' hw' he
        exact hnd.1 (List.mem_map.2 ⟨w', hw', by simpa using he⟩)
      simp [hnone]
    · have : (w.histRoot == q) = false := by simpa using fun e => hq e.symm
      simp [this, hq]

end MhlModel

/-! ## X. the tree still loads after the generations of a run were written -/

namespace MhlModel

theorem find?_congr_dn {α : Type} (p q : α → Bool) (l : List α) (h : ∀ x ∈ l, p x = q x) :
    l.find? p = l.find? q := by
  induction l with
  | nil => rfl
  | cons a as ih =>
    rw [List.find?_cons, List.find?_cons, h a List.mem_cons_self, ih (fun x hx => h x (List.mem_cons_of_mem _ hx))]

/-- adding an intact generation to a store that passes the chain check gives a store that passes it: an old chain
entry still finds the first manifest of its name (or, if it names the new file, the new manifest) -/
theorem checkStore_add_ok (hs : Option HistStore) (w : Written) (hok : checkStore hs = .ok ())
    (hst : w.gen.state = .ok) : checkStore (some ((hs.getD {}).add w)) = .ok () := by
  have hcc : checkChain (hs.getD {}) = .ok () := by
    cases hs with
    | none => rfl
    | some s =>
      unfold checkStore at hok
      simp only at hok
      split at hok
      · cases hok
      · exact hok
  generalize hs.getD {} = s at hcc
  show (if !(s.add w).chainPresent then throw errNoChain else checkChain (s.add w)) = _
  rw [if_neg (by simp [HistStore.add])]
  rw [MhlProps.C05.checkChain_ok_iff] at hcc ⊢
  intro e he
  have hgens : (s.add w).gens = s.gens.filter (fun g => g.fileName != w.gen.fileName) ++ [w.gen] := rfl
  have hchain : (s.add w).chain = s.chain ++ [⟨w.number, w.gen.fileName⟩] := rfl
  rw [hgens, List.find?_append]
  by_cases hnew : e.fileName = w.gen.fileName
  · have hnone : (s.gens.filter (fun g => g.fileName != w.gen.fileName)).find? (fun g => g.fileName == e.fileName)
        = none := by
      rw [List.find?_eq_none]
      intro g hg
      have := (List.mem_filter.1 hg).2
      simp only [bne_iff_ne, ne_eq] at this
      simp [hnew, this]
    rw [hnone, Option.none_or]
    exact ⟨w.gen, by simp [hnew], hst⟩
  · rw [hchain, List.mem_append] at he
    rcases he with he | he
    · obtain ⟨g, hfg, hgs⟩ := hcc e he
      refine ⟨g, ?_, hgs⟩
      have hfilt : (s.gens.filter (fun g => g.fileName != w.gen.fileName)).find? (fun g => g.fileName == e.fileName)
          = some g := by
        rw [List.find?_filter, ← hfg]
        apply find?_congr_dn
        intro x _
        by_cases hx : x.fileName = e.fileName
        · simp [hx, hnew]
        · simp [hx]
      rw [hfilt]; rfl
    · simp only [List.mem_singleton] at he
      subst he
      exact absurd rfl hnew

theorem nestedFaults_hist (nm : String) (cs : List Node) (h h' : Option HistStore) :
    nestedFaults (.dir nm cs h) = nestedFaults (.dir nm cs h') := by
  rw [nestedFaults, nestedFaults]

/-- a folder whose own store and whose children are without fault is without fault -/
theorem allFaults_nil_of_kids (nm : String) (cs : List Node) (h : Option HistStore)
    (h1 : storeFault h = none) (h2 : ∀ c ∈ cs, allFaults c = []) : allFaults (.dir nm cs h) = [] := by
  rw [allFaults_eq]
  simp only [Node.hist, h1, Option.toList, List.nil_append]
  rw [nestedFaults]
  apply flatMap_isort_nil
  intro x hx
  rw [nestedFaultsList_eq_map] at hx
  obtain ⟨c, hc, rfl⟩ := List.mem_map.1 hx
  exact h2 c hc

theorem storeFault_none_iff (hs : Option HistStore) : storeFault hs = none ↔ checkStore hs = .ok () := by
  rw [← checkStore_err]
  cases checkStore hs <;> simp [exceptErr]

theorem allFaults_addGeneration (w : Written) (hst : w.gen.state = .ok) (x : Node) (hx : allFaults x = []) :
    allFaults (Node.addGeneration w x) = [] := by
  cases x with
  | file n c => exact hx
  | dir nm cs h =>
    obtain ⟨h1, h2⟩ := allFaults_nil_kids nm cs h hx
    rw [Node.addGeneration]
    exact allFaults_nil_of_kids nm cs _
      ((storeFault_none_iff _).2 (checkStore_add_ok h w ((storeFault_none_iff _).1 h1) hst)) h2

/-- an update that keeps a fault-free node fault-free keeps a fault-free tree fault-free -/
theorem allFaults_updateAt (f : Node → Node) (hf : ∀ x, allFaults x = [] → allFaults (f x) = []) :
    ∀ (p : RelPath) (t : Node), allFaults t = [] → allFaults (Node.updateAt f t p) = []
  | [], t, h => by rw [updateAt_nil]; exact hf t h
  | n :: rest, .file nm c, h => by simpa [Node.updateAt] using h
  | n :: rest, .dir nm cs hs, h => by
    obtain ⟨h1, h2⟩ := allFaults_nil_kids nm cs hs h
    rw [updateAt_dir_cons]
    apply allFaults_nil_of_kids _ _ _ h1
    intro c hc
    rw [updateKids_eq_map_dn] at hc
    obtain ⟨c0, hc0, rfl⟩ := List.mem_map.1 hc
    split
    · exact allFaults_updateAt f hf rest c0 (h2 c0 hc0)
    · exact h2 c0 hc0

theorem allFaults_applyWritten (ws : List Written) (hst : ∀ w ∈ ws, w.gen.state = .ok) (t : Node)
    (h : allFaults t = []) : allFaults (applyWritten t ws) = [] := by
  unfold applyWritten
  induction ws generalizing t with
  | nil => exact h
  | cons w ws ih =>
    rw [List.foldl_cons]
    exact ih (fun w' hw' => hst w' (List.mem_cons_of_mem _ hw')) _
      (allFaults_updateAt _ (allFaults_addGeneration w (hst w List.mem_cons_self)) _ t h)

theorem allFaults_of_loaded (t : Node) (h : Hist) (hl : loadHistory t = .ok h) : allFaults t = [] := by
  have := loadHistory_err t
  rw [hl] at this
  simp only [exceptErr_ok] at this
  cases hf : allFaults t with
  | nil => rfl
  | cons a as => rw [hf] at this; cases this

theorem loaded_of_allFaults (t : Node) (h : allFaults t = []) : ∃ h', loadHistory t = .ok h' := by
  have := loadHistory_err t
  rw [h] at this
  exact (exceptErr_eq_none _).1 this

/-- THE TREE STILL LOADS: a tree that loads, after intact generations were written into `ascmhl` folders of it -/
theorem loadHistory_applyWritten_ok (t : Node) (h : Hist) (hl : loadHistory t = .ok h) (ws : List Written)
    (hst : ∀ w ∈ ws, w.gen.state = .ok) : ∃ h', loadHistory (applyWritten t ws) = .ok h' :=
  loaded_of_allFaults _ (allFaults_applyWritten ws hst t (allFaults_of_loaded t h hl))

end MhlModel

/-! ## Y. every folder with an `ascmhl` folder below the root is loaded as a nested history -/

namespace MhlModel

theorem forall₂_left_mem_dn {α β : Type} {R : α → β → Prop} {l₁ : List α} {l₂ : List β}
    (h : List.Forall₂ R l₁ l₂) : ∀ a ∈ l₁, ∃ b ∈ l₂, R a b := by
  induction h with
  | nil => intro a ha; cases ha
  | cons hab _ ih =>
    intro a ha
    rcases List.mem_cons.1 ha with rfl | ha
    · exact ⟨_, List.mem_cons_self, hab⟩
    · obtain ⟨b, hb, hr⟩ := ih a ha
      exact ⟨b, List.mem_cons_of_mem _ hb, hr⟩

theorem mem_descList_of_flatten {Ls : List (List Hist)} {b : List Hist} {x : Hist} (hb : b ∈ Ls)
    (hx : x ∈ descList b) : x ∈ descList Ls.flatten := by
  rw [descList_eq, List.mem_flatMap] at hx ⊢
  obtain ⟨k, hk, hxk⟩ := hx
  exact ⟨k, List.mem_flatten.2 ⟨b, hb, hk⟩, hxk⟩

/-- COMPLETENESS of the walk for nested histories: every folder strictly below `t` that holds an `ascmhl` folder is
the root of one of the histories found (or of a descendant of one) -/
theorem findChildren_complete (t : Node) : ∀ (here : RelPath) (hs : List Hist), findChildren here t = .ok hs →
    ∀ (q : RelPath) (d : Node), q ≠ [] → t.at? q = some d → d.hist.isSome = true →
      ∃ x ∈ descList hs, x.root = here ++ q := by
  induction t using Node.induct with
  | file n c =>
    intro here hs _ q d hq hat
    cases q with
    | nil => exact absurd rfl hq
    | cons m q' => simp [Node.at?] at hat
  | dir n cs st ih =>
    intro here hs h q d hq hat hsome
    cases q with
    | nil => exact absurd rfl hq
    | cons m q' =>
      rw [Node.at?_dir_cons] at hat
      cases hf : findChild cs m with
      | none => rw [hf] at hat; cases hat
      | some c =>
        rw [hf] at hat
        have hat : c.at? q' = some d := hat
        obtain ⟨hcm, hcn⟩ := findChild_some hf
        rw [findChildren_dir] at h
        cases hm : (isort (fun (a b : String × Except Err (List Hist)) => strLe a.1 b.1)
            (cs.map (childPair here))).mapM (fun (x : String × Except Err (List Hist)) => x.2) with
        | error e => rw [hm] at h; cases h
        | ok Ls =>
          rw [hm] at h
          simp only [Except.map, Except.ok.injEq] at h
          subst h
          have hF := mapM_ok_forall₂ _ _ _ hm
          have hmem : childPair here c ∈ isort (fun (a b : String × Except Err (List Hist)) => strLe a.1 b.1)
              (cs.map (childPair here)) := (mem_isort _ _ _).2 (List.mem_map.2 ⟨c, hcm, rfl⟩)
          obtain ⟨b, hb, hcb⟩ := forall₂_left_mem_dn hF _ hmem
          suffices hgoal : ∃ x ∈ descList b, x.root = here ++ m :: q' by
            obtain ⟨x, hx, hxr⟩ := hgoal
            exact ⟨x, mem_descList_of_flatten hb hx, hxr⟩
          have happ : here ++ m :: q' = (here ++ [c.name]) ++ q' := by rw [hcn]; simp
          unfold childPair at hcb
          simp only at hcb
          cases hh : c.hist with
          | none =>
            rw [hh] at hcb
            simp only at hcb
            cases q' with
            | nil =>
              rw [Node.at?_nil'] at hat
              cases hat
              rw [hh] at hsome
              cases hsome
            | cons m' q'' =>
              rw [happ]
              exact ih c hcm (here ++ [c.name]) b hcb (m' :: q'') d (by simp) hat hsome
          | some s =>
            rw [hh] at hcb
            simp only at hcb
            cases hcs : checkStore (some s) with
            | error e => simp [hcs, bind, Except.bind] at hcb
            | ok u =>
              cases hk : findChildren (here ++ [c.name]) c with
              | error e => simp [hcs, hk, bind, Except.bind] at hcb
              | ok kids =>
                simp only [hcs, hk, bind, Except.bind, pure, Except.pure, Except.ok.injEq] at hcb
                subst hcb
                have hdl : descList [buildHist (here ++ [c.name]) (some s) kids] =
                    buildHist (here ++ [c.name]) (some s) kids :: descList kids := by
                  simp [descList, buildHist_desc]
                rw [hdl]
                cases q' with
                | nil =>
                  exact ⟨_, List.mem_cons_self, by rw [buildHist_root, hcn]⟩
                | cons m' q'' =>
                  obtain ⟨x, hx, hxr⟩ := ih c hcm (here ++ [c.name]) kids hk (m' :: q'') d (by simp) hat hsome
                  exact ⟨x, List.mem_cons_of_mem _ hx, by rw [hxr, happ]⟩

/-- the nested histories of a loaded tree are exactly the folders below the root that hold an `ascmhl` folder -/
theorem loadHistory_roots_iff (t : Node) (h : Hist) (hl : loadHistory t = .ok h) (hd : t.NamesDistinct)
    (R : RelPath) :
    (∃ c ∈ allDescendants h, c.root = R) ↔ (R ≠ [] ∧ ∃ d, t.at? R = some d ∧ d.hist.isSome = true) := by
  constructor
  · rintro ⟨c, hc, rfl⟩
    obtain ⟨d, s, hat, hds, -, -⟩ := loadHistory_stores t h hl hd c hc
    exact ⟨((loadHistory_histOK t h hl hd).isDir c hc).1, d, hat, by rw [hds]; rfl⟩
  · rintro ⟨hne, d, hat, hsome⟩
    obtain ⟨kids, hk, rfl⟩ := loadHistory_ok_eq t h hl
    rw [buildHist_desc]
    obtain ⟨x, hx, hxr⟩ := findChildren_complete t [] kids hk R d hne hat hsome
    exact ⟨x, hx, by rw [hxr]; rfl⟩

end MhlModel

/-! ## Z. reloading the tree after a run -/

namespace MhlModel

/-- two loaded histories with the same set of nested roots route every path alike -/
theorem route_same_roots {t t' : Node} {g g' : Hist} (hg : HistOK t g) (hg' : HistOK t' g')
    (hset : ∀ R, (∃ c ∈ allDescendants g', c.root = R) ↔ (∃ c ∈ allDescendants g, c.root = R)) (p : RelPath) :
    ownerOf g' p = ownerOf g p ∧ relOf g' p = relOf g p := by
  have key : ∀ {t₁ t₂ : Node} {g₁ g₂ : Hist}, HistOK t₁ g₁ → HistOK t₂ g₂ →
      (∀ R, (∃ c ∈ allDescendants g₁, c.root = R) → (∃ c ∈ allDescendants g₂, c.root = R)) →
      (ownerOf g₁ p).length ≤ (ownerOf g₂ p).length := by
    intro t₁ t₂ g₁ g₂ h₁ h₂ hsub
    rcases List.mem_cons.1 (route_mem h₁ p) with he | hm
    · have : ownerOf g₁ p = g₁.root := congrArg Hist.root he
      rw [this, h₁.root]; exact Nat.zero_le _
    · obtain ⟨c', hc', hcr⟩ := hsub _ ⟨_, hm, rfl⟩
      have := owner_max h₂ p hc' (by rw [hcr]; exact owner_prefix h₁ p)
      rwa [hcr] at this
  have h1 := key hg hg' (fun R => (hset R).2)
  have h2 := key hg' hg (fun R => (hset R).1)
  have hlen : (ownerOf g' p).length = (ownerOf g p).length := Nat.le_antisymm h2 h1
  have hp1 := owner_prefix hg p
  have hp2 := owner_prefix hg' p
  have hown : ownerOf g' p = ownerOf g p := by
    rw [List.prefix_iff_eq_take] at hp1 hp2
    rw [hp1, hp2, hlen]
  refine ⟨hown, ?_⟩
  have a1 := owner_append hg p
  have a2 := owner_append hg' p
  rw [hown] at a2
  exact List.append_cancel_left (a2.trans a1.symm)

/-- the generations an `ascmhl` folder (if any) loads as -/
def loadGensO : Option HistStore → List LGen
  | none => []
  | some s => loadGens s

/-- the `ascmhl` folder a run leaves at the root `R` of a history: the old one, plus the generation written for it -/
def storeAfter (ws : List Written) (R : RelPath) (hs : Option HistStore) : Option HistStore :=
  match ws.find? (fun w => w.histRoot == R) with
  | some w => some ((hs.getD {}).add w)
  | none => hs

theorem hist_some_dir {d : Node} {s : HistStore} (h : d.hist = some s) : ∃ nm cs, d = .dir nm cs (some s) := by
  cases d with
  | file n c => cases h
  | dir nm cs hs => simp only [Node.hist] at h; subst h; exact ⟨nm, cs, rfl⟩

theorem isDir_dir {d : Node} (h : d.isDir = true) : ∃ nm cs hs, d = .dir nm cs hs := by
  cases d with
  | file n c => cases h
  | dir nm cs hs => exact ⟨nm, cs, hs, rfl⟩

/-- RELOADING AFTER A RUN.  `t` loads as `h` (nested histories to any depth), sibling names distinct; `ws` are intact
generations written for pairwise different histories of `h`.  Then the tree with the generations written into its
`ascmhl` folders loads again, as a history `h'` with the same nested roots, that routes every path like `h`, and whose
histories carry the generations their (new) `ascmhl` folders load as. -/
theorem reload_after_run (t : Node) (h : Hist) (hl : loadHistory t = .ok h) (hd : t.NamesDistinct)
    (ws : List Written) (hnd : (ws.map (·.histRoot)).Nodup) (hst : ∀ w ∈ ws, w.gen.state = .ok)
    (htg : ∀ w ∈ ws, ∃ x ∈ h.all, x.root = w.histRoot) :
    ∃ h', loadHistory (applyWritten t ws) = .ok h' ∧ HistOK (applyWritten t ws) h' ∧
      (∀ R, (∃ c ∈ allDescendants h', c.root = R) ↔ (∃ c ∈ allDescendants h, c.root = R)) ∧
      (∀ p, ownerOf h' p = ownerOf h p ∧ relOf h' p = relOf h p) ∧
      (∀ x' ∈ h'.all, ∀ nm cs hs, t.at? x'.root = some (.dir nm cs hs) →
        x'.gens = loadGensO (storeAfter ws x'.root hs)) := by
  obtain ⟨h', hl'⟩ := loadHistory_applyWritten_ok t h hl ws hst
  have hsf := sameFiles_applyWritten_n1 t ws
  have hd' : (applyWritten t ws).NamesDistinct := hsf.namesDistinct.2 hd
  have hg := loadHistory_histOK t h hl hd
  have hg' := loadHistory_histOK _ h' hl' hd'
  have hset : ∀ R, (∃ c ∈ allDescendants h', c.root = R) ↔ (∃ c ∈ allDescendants h, c.root = R) := by
    intro R
    rw [loadHistory_roots_iff _ h' hl' hd', loadHistory_roots_iff t h hl hd]
    constructor
    · rintro ⟨hne, d', hat', hsome'⟩
      refine ⟨hne, ?_⟩
      cases hat : t.at? R with
      | none => rw [((hsf.at? R).1).2 hat] at hat'; cases hat'
      | some d =>
        have hsd := (hsf.at? R).2 d d' hat hat'
        have hdir' : d'.isDir = true := by
          cases d' with
          | file n c => cases hsome'
          | dir _ _ _ => rfl
        obtain ⟨nm, cs, hs, rfl⟩ := isDir_dir (hsd.isDir ▸ hdir' : d.isDir = true)
        obtain ⟨cs', hcs'⟩ := at?_applyWritten ws hnd R t nm cs hs hat
        rw [hcs'] at hat'
        cases hat'
        refine ⟨_, rfl, ?_⟩
        cases hs with
        | some s => rfl
        | none =>
          exfalso
          simp only [Node.hist] at hsome'
          cases hfind : ws.find? (fun w => w.histRoot == R) with
          | none => rw [hfind] at hsome'; cases hsome'
          | some w =>
            have hwm : w ∈ ws := List.mem_of_find?_eq_some hfind
            have hwr : w.histRoot = R := by simpa using List.find?_some hfind
            obtain ⟨x, hx, hxr⟩ := htg w hwm
            rcases List.mem_cons.1 hx with rfl | hx
            · rw [hg.root] at hxr; exact hne (hwr ▸ hxr.symm)
            · obtain ⟨d2, s2, hat2, hds2, -, -⟩ := loadHistory_stores t h hl hd x hx
              rw [hxr, hwr, hat] at hat2
              cases hat2
              cases hds2
    · rintro ⟨hne, d, hat, hsome⟩
      refine ⟨hne, ?_⟩
      obtain ⟨nm, cs, hs, rfl⟩ := isDir_dir (by cases d with
        | file n c => cases hsome
        | dir _ _ _ => rfl : d.isDir = true)
      obtain ⟨cs', hcs'⟩ := at?_applyWritten ws hnd R t nm cs hs hat
      refine ⟨_, hcs', ?_⟩
      simp only [Node.hist] at hsome ⊢
      cases ws.find? (fun w => w.histRoot == R) with
      | none => exact hsome
      | some w => rfl
  refine ⟨h', hl', hg', hset, fun p => route_same_roots hg hg' hset p, ?_⟩
  intro x' hx' nm cs hs hat
  obtain ⟨cs', hcs'⟩ := at?_applyWritten ws hnd x'.root t nm cs hs hat
  rcases List.mem_cons.1 hx' with rfl | hx'
  · obtain ⟨kids, -, hb⟩ := loadHistory_ok_eq _ _ hl'
    rw [hg'.root, Node.at?_nil'] at hcs'
    have hh : (applyWritten t ws).hist = storeAfter ws [] hs := by
      rw [Option.some.inj hcs']; rfl
    rw [hg'.root]
    conv => lhs; rw [hb, hh]
    unfold buildHist storeAfter loadGensO
    cases ws.find? (fun w => w.histRoot == []) with
    | none => cases hs <;> rfl
    | some w => rfl
  · obtain ⟨d', s', hat', hds', hgens, -⟩ := loadHistory_stores _ h' hl' hd' x' hx'
    rw [hcs'] at hat'
    cases hat'
    simp only [Node.hist] at hds'
    unfold storeAfter
    rw [hds', hgens]
    rfl

end MhlModel

namespace MhlModel

theorem loadGens_empty : loadGens {} = [] := rfl

theorem loadGensO_getD (hs : Option HistStore) : loadGens (hs.getD {}) = loadGensO hs := by
  cases hs <;> rfl

/-- the generations of a loaded history are what the `ascmhl` folder of its root folder loads as -/
theorem gens_of_store (t : Node) (h : Hist) (hl : loadHistory t = .ok h) (hd : t.NamesDistinct) :
    ∀ x ∈ h.all, ∀ nm cs hs, t.at? x.root = some (.dir nm cs hs) → x.gens = loadGensO hs := by
  intro x hx nm cs hs hat
  rcases List.mem_cons.1 hx with rfl | hx
  · obtain ⟨kids, -, hb⟩ := loadHistory_ok_eq t _ hl
    have hroot := (loadHistory_histOK t _ hl hd).root
    rw [hroot, Node.at?_nil'] at hat
    have hh : t.hist = hs := by rw [Option.some.inj hat]; rfl
    conv => lhs; rw [hb, hh]
    unfold buildHist loadGensO
    cases hs <;> rfl
  · obtain ⟨d, s, hat', hds, hgens, -⟩ := loadHistory_stores t h hl hd x hx
    rw [hat] at hat'
    cases hat'
    simp only [Node.hist] at hds
    rw [hds, hgens]; rfl

/-- the name of a history's folder (the command's folder for the root history) and the time stamp are free of line
feeds: what `parseGenName` needs to recognise the name of a generation just written (C06) -/
def NoLineFeeds (h : Hist) (rootName stamp : String) : Prop :=
  '\n' ∉ stamp.toList ∧ ∀ x ∈ h.all, '\n' ∉ ((x.root.getLast?).getD rootName).toList

/-- WHAT A COMMIT LEAVES.  For every generation `w` the commit wrote: it is intact, belongs to a history `x` of the
loaded tree, and the `ascmhl` folder of `x`'s root folder with `w` added loads as the old generations of `x`
followed by `w` under its number -/
theorem commit_reload {t : Node} {g : Hist} (hl : loadHistory t = .ok g) (hd : t.NamesDistinct) (s : Session)
    (rn stamp process : String) {ws : List Written} (hcm : commit g s rn stamp process none = .ok ws)
    (hlf : NoLineFeeds g rn stamp) :
    (ws.map (·.histRoot)).Nodup ∧ (∀ w ∈ ws, w.gen.state = .ok) ∧
    ∀ w ∈ ws, ∃ x ∈ g.all, x.root = w.histRoot ∧ ∀ nm cs hs, t.at? w.histRoot = some (.dir nm cs hs) →
      loadGens ((hs.getD {}).add w) = x.gens ++ [⟨w.number, w.gen⟩] := by
  have hg := loadHistory_histOK t g hl hd
  have hwr := (commit_written g s rn stamp process none hcm).2
  refine ⟨commit_roots_nodup hg s rn stamp process none hcm, ?_, ?_⟩
  · intro w hw
    obtain ⟨x, -, refs, hwo⟩ := hwr w hw
    exact (MhlProps.C06.writeOne_state _ _ _ _ _ _ _ _ _ hwo).1
  · intro w hw
    obtain ⟨x, hx, refs, hwo⟩ := hwr w hw
    have hxa : x ∈ g.all := (mem_walkPost g x).1 hx
    obtain ⟨hstate, hnum, hroot⟩ := MhlProps.C06.writeOne_state _ _ _ _ _ _ _ _ _ hwo
    refine ⟨x, hxa, hroot.symm, ?_⟩
    intro nm cs hs hat
    have hgens : x.gens = loadGensO hs := gens_of_store t g hl hd x hxa nm cs hs (hroot ▸ hat)
    have hasc : (x.gens.map (·.number)).Pairwise (· ≤ ·) := by
      rw [hgens, ← loadGensO_getD]; exact MhlProps.C06.loadGens_sorted _
    obtain ⟨hparse, -⟩ := MhlProps.C06.new_name_fresh g s rn stamp process x refs w hwo hasc (hlf.2 x hxa) hlf.1
    have hmax := (MhlProps.C06.latest_is_max_of_sorted x.gens hasc).1
    rw [MhlProps.C06.loadGens_add_lt _ w (latestGenerationNumber x.gens + 1) hparse hstate
      (by intro g' hg'
          rw [loadGensO_getD, ← hgens] at hg'
          exact Nat.lt_succ_of_le (hmax g' hg')),
      loadGensO_getD, ← hgens, hnum]

end MhlModel

/-! ## R. reading directory entries back from generations -/

namespace MhlModel

/-- `dirEntriesFor` looks at the generations only -/
def dirEntriesOfGens (gens : List LGen) (path : String) : List Entry :=
  (gens.flatMap fun g =>
    match g.gen.find path with
    | some r => if r.isDir then r.entries else []
    | none => []) ++ (if path == "." then gens.flatMap fun g => (g.gen.rootHash.getD []) else [])

theorem dirEntriesFor_eq (h : Hist) (path : String) : dirEntriesFor h path = dirEntriesOfGens h.gens path := rfl

theorem mem_dirEntriesOfGens_append (a b : List LGen) (path : String) (e : Entry) :
    e ∈ dirEntriesOfGens (a ++ b) path ↔ e ∈ dirEntriesOfGens a path ∨ e ∈ dirEntriesOfGens b path := by
  unfold dirEntriesOfGens
  by_cases hp : (path == ".") = true
  · simp only [hp, if_true, List.flatMap_append, List.mem_append]
    constructor
    · rintro ((h | h) | (h | h))
      · exact Or.inl (Or.inl h)
      · exact Or.inr (Or.inl h)
      · exact Or.inl (Or.inr h)
      · exact Or.inr (Or.inr h)
    · rintro ((h | h) | (h | h))
      · exact Or.inl (Or.inl h)
      · exact Or.inr (Or.inl h)
      · exact Or.inl (Or.inr h)
      · exact Or.inr (Or.inr h)
  · simp only [hp, Bool.false_eq_true, if_false, List.flatMap_append, List.mem_append, List.append_nil]

theorem mem_dirEntriesOfGens_nil (path : String) (e : Entry) : ¬ e ∈ dirEntriesOfGens [] path := by
  unfold dirEntriesOfGens
  split <;> simp

theorem mem_dirEntriesOfGens_single (k : Nat) (g : Generation) (path : String) (e : Entry) :
    e ∈ dirEntriesOfGens [⟨k, g⟩] path ↔
      (∃ r, g.find path = some r ∧ r.isDir = true ∧ e ∈ r.entries) ∨ (path = "." ∧ e ∈ g.rootHash.getD []) := by
  unfold dirEntriesOfGens
  simp only [List.flatMap_cons, List.flatMap_nil, List.append_nil, List.mem_append]
  constructor
  · rintro (h | h)
    · left
      cases hf : g.find path with
      | none => rw [hf] at h; cases h
      | some r =>
        rw [hf] at h
        simp only at h
        cases hd : r.isDir with
        | false => rw [hd] at h; cases h
        | true => rw [hd] at h; exact ⟨r, rfl, hd, h⟩
    · right
      split at h
      · next hp => exact ⟨by simpa using hp, h⟩
      · cases h
  · rintro (⟨r, hf, hd, he⟩ | ⟨hp, he⟩)
    · left; rw [hf]; simp only [hd, if_true]; exact he
    · right; rw [if_pos (by simp [hp])]; exact he

/-- a generation as the tool writes it: no record has a previous path or the path "." -/
def Generation.Clean (g : Generation) : Prop := ∀ r ∈ g.records, r.prev = none ∧ r.path ≠ "."

theorem Generation.find_clean {g : Generation} (hc : g.Clean) {p : String} (hp : p ≠ ".") {r : Record}
    (h : g.find p = some r) : r ∈ g.records ∧ r.path = p := by
  unfold Generation.find at h
  have hmem := List.mem_of_find?_eq_some h
  have hpred := List.find?_some h
  rw [List.mem_reverse, List.mem_append] at hmem
  rcases hmem with hmem | hmem
  · exfalso
    cases hrh : g.rootHash with
    | none => simp [hrh] at hmem
    | some es =>
      simp only [hrh, List.mem_singleton] at hmem
      subst hmem
      simp [Ne.symm hp] at hpred
  · exact ⟨hmem, by simpa [(hc r hmem).1] using hpred⟩

theorem Generation.find_of_mem {g : Generation} (hc : g.Clean) (hnd : (g.records.map (·.path)).Nodup) {r : Record}
    (hr : r ∈ g.records) : g.find r.path = some r := by
  unfold Generation.find
  simp only
  rw [List.reverse_append, List.find?_append]
  cases hf : g.records.reverse.find? (fun x => x.path == r.path || x.prev == some r.path) with
  | none =>
    exfalso
    have := List.find?_eq_none.1 hf r (List.mem_reverse.2 hr)
    simp at this
  | some r' =>
    have hm : r' ∈ g.records := List.mem_reverse.1 (List.mem_of_find?_eq_some hf)
    have hp : r'.path = r.path := by simpa [(hc r' hm).1] using List.find?_some hf
    rw [List.inj_on_of_nodup_map hnd hm hr hp]
    rfl

theorem Generation.find_dot_clean {g : Generation} (hc : g.Clean) :
    g.find "." = g.rootHash.map fun es => { path := ".", isDir := true, entries := es } :=
  Generation.find_dot g (fun r hr => ⟨(hc r hr).2, by rw [(hc r hr).1]; simp⟩)

end MhlModel

/-! ## T. altering the content of a file does not change what the tree loads as -/

namespace MhlModel

theorem updateAt_hist_dn (f : Node → Node) (hf : ∀ x, (f x).hist = x.hist) (t : Node) (p : RelPath) :
    (Node.updateAt f t p).hist = t.hist := by
  cases p with
  | nil => rw [updateAt_nil, hf]
  | cons n rest => cases t <;> simp [Node.updateAt, Node.hist]

theorem setContent_hist_n1 (c' : Bytes) (x : Node) : (setContent c' x).hist = x.hist := by
  cases x <;> rfl

theorem findChildren_setContent (c' : Bytes) : ∀ (p : RelPath) (t : Node) (here : RelPath),
    findChildren here (Node.updateAt (setContent c') t p) = findChildren here t
  | [], t, here => by
    rw [updateAt_nil]
    cases t with
    | file n c => simp [setContent, findChildren]
    | dir n cs h => rfl
  | n :: rest, .file nm c, here => by simp [Node.updateAt]
  | n :: rest, .dir nm cs h, here => by
    rw [updateAt_dir_cons, findChildren_dir, findChildren_dir, updateKids_eq_map_dn, List.map_map]
    congr 3
    apply List.map_congr_left
    intro c _
    simp only [Function.comp]
    split
    · unfold childPair
      rw [Node.updateAt_name _ (setContent_name c'), updateAt_hist_dn _ (setContent_hist_n1 c'),
        findChildren_setContent c' rest c]
    · rfl

/-- a tree in which the content of one file was replaced loads exactly as before -/
theorem loadHistory_setContent_n1 (c' : Bytes) (t : Node) (p : RelPath) :
    loadHistory (Node.updateAt (setContent c') t p) = loadHistory t := by
  unfold loadHistory
  rw [updateAt_hist_dn _ (setContent_hist_n1 c'), findChildren_setContent]

end MhlModel
