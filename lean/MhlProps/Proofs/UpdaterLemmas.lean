/-
Helper lemmas for C20: the inductive invariant of the updater transition system `MhlModel.Updater`.
-/
import MhlModel.Updater

namespace MhlProps.UpdaterLemmas
open MhlModel.Updater

@[simp] theorem isReply_reply (n p d : Bool) : (ServerBehaviour.reply n p d).isReply = true := rfl

@[simp] theorem needsUpdate_none : needsUpdate none = false := rfl

theorem needsUpdate_some (l : Latest) :
    needsUpdate (some l) = true ↔ l.newer = true ∧ l.prerelease = false ∧ l.dev = false := by
  cases l with | mk n p d => cases n <;> cases p <;> cases d <;> simp [needsUpdate]

/-- The inductive invariant: per value of the main thread's program counter what stdout / exitCode / joinStart / now /
seenNeedsUpdate can be, plus the facts about the shared variable `latest`, the checker and stderr. -/
structure Inv (cmd : Cmd) (srv : ServerBehaviour) (s : State) : Prop where
  start : s.mainPc = .start →
    s.stdout = [] ∧ s.exitCode = none ∧ s.seenNeedsUpdate = false ∧ s.chkPc = .notStarted ∧ s.latest = none ∧ s.stderr = []
  running : s.mainPc = .running → s.stdout = [] ∧ s.exitCode = none ∧ s.seenNeedsUpdate = false
  joining : s.mainPc = .joining →
    cmd.normalReturn = true ∧ s.stdout = cmd.stdout ∧ s.exitCode = none ∧ s.seenNeedsUpdate = false ∧ s.now = s.joinStart
  reading : s.mainPc = .reading →
    cmd.normalReturn = true ∧ s.stdout = cmd.stdout ∧ s.exitCode = none ∧ s.seenNeedsUpdate = false ∧
      s.now ≤ s.joinStart + joinTimeoutMs
  printing : s.mainPc = .printing →
    cmd.normalReturn = true ∧ s.stdout = cmd.stdout ∧ s.exitCode = none ∧ s.now ≤ s.joinStart + joinTimeoutMs
  exited : s.mainPc = .exited →
    s.exitCode = some cmd.exitCode ∧ s.now = s.exitTime ∧ s.exitTime ≤ s.joinStart + joinTimeoutMs ∧
      ((cmd.normalReturn = false ∧ s.stdout = cmd.stdout ∧ s.seenNeedsUpdate = false ∧ s.exitTime = s.joinStart) ∨
       (cmd.normalReturn = true ∧ s.stdout = if s.seenNeedsUpdate then cmd.stdout ++ [notice] else cmd.stdout))
  /-- the flag the main thread read is only ever set from a stored version that needs an update -/
  seen : s.seenNeedsUpdate = true → needsUpdate s.latest = true
  /-- `latest` is only ever the server's reply, and is stored by the step that ends the checker -/
  latest : ∀ l, s.latest = some l → srv = .reply l.newer l.prerelease l.dev
  latestDone : s.chkPc ≠ .done → s.latest = none
  gotReply : s.chkPc = .gotReply → srv.isReply = true
  dead : s.chkPc = .dead → srv = .garbage ∨ srv = .otherException
  stderrOnly : ∀ x ∈ s.stderr, x = traceback
  stderrDead : s.stderr ≠ [] → s.chkPc = .dead
  clock : s.joinStart ≤ s.now

theorem inv_init (cmd : Cmd) (srv : ServerBehaviour) : Inv cmd srv {} := by
  constructor <;> simp

variable {cmd : Cmd} {srv : ServerBehaviour} {s : State}

theorem inv_mainStart (h : Inv cmd srv s) (hpc : s.mainPc = .start) :
    Inv cmd srv { s with mainPc := .running, chkPc := .requesting } := by
  obtain ⟨h1, h2, h3, h4, h5, h6, h7, h8, h9, h10, h11, h12, h13, h14⟩ := h
  constructor <;> simp_all
  all_goals first | assumption | omega

theorem inv_mainCommandNormal (h : Inv cmd srv s) (dt : Nat) (hpc : s.mainPc = .running) (hn : cmd.normalReturn = true) :
    Inv cmd srv { s with mainPc := .joining, now := s.now + dt, joinStart := s.now + dt, stdout := s.stdout ++ cmd.stdout } := by
  obtain ⟨h1, h2, h3, h4, h5, h6, h7, h8, h9, h10, h11, h12, h13, h14⟩ := h
  constructor <;> simp_all
  all_goals first | assumption | omega

theorem inv_mainCommandRaises (h : Inv cmd srv s) (dt : Nat) (hpc : s.mainPc = .running) (hn : cmd.normalReturn = false) :
    Inv cmd srv { s with mainPc := .exited, now := s.now + dt, joinStart := s.now + dt, exitTime := s.now + dt, stdout := s.stdout ++ cmd.stdout, exitCode := some cmd.exitCode } := by
  obtain ⟨h1, h2, h3, h4, h5, h6, h7, h8, h9, h10, h11, h12, h13, h14⟩ := h
  constructor <;> simp_all
  all_goals first | assumption | omega

theorem inv_mainJoinThreadDone (h : Inv cmd srv s) (dt : Nat) (hpc : s.mainPc = .joining) (hd : s.now + dt ≤ s.joinStart + joinTimeoutMs) :
    Inv cmd srv { s with mainPc := .reading, now := s.now + dt } := by
  obtain ⟨h1, h2, h3, h4, h5, h6, h7, h8, h9, h10, h11, h12, h13, h14⟩ := h
  constructor <;> simp_all
  all_goals first | assumption | omega

theorem inv_mainJoinTimeout (h : Inv cmd srv s) (hpc : s.mainPc = .joining) :
    Inv cmd srv { s with mainPc := .reading, now := max s.now (s.joinStart + joinTimeoutMs) } := by
  obtain ⟨h1, h2, h3, h4, h5, h6, h7, h8, h9, h10, h11, h12, h13, h14⟩ := h
  constructor <;> simp_all
  all_goals first | assumption | omega

theorem inv_mainRead (h : Inv cmd srv s) (hpc : s.mainPc = .reading) :
    Inv cmd srv { s with mainPc := .printing, seenNeedsUpdate := needsUpdate s.latest } := by
  obtain ⟨h1, h2, h3, h4, h5, h6, h7, h8, h9, h10, h11, h12, h13, h14⟩ := h
  constructor <;> simp_all
  all_goals first | assumption | omega

theorem inv_mainFinish (h : Inv cmd srv s) (hpc : s.mainPc = .printing) :
    Inv cmd srv { s with mainPc := .exited, exitTime := s.now, exitCode := some cmd.exitCode, stdout := if s.seenNeedsUpdate then s.stdout ++ [notice] else s.stdout } := by
  obtain ⟨h1, h2, h3, h4, h5, h6, h7, h8, h9, h10, h11, h12, h13, h14⟩ := h
  constructor <;> simp_all
  all_goals first | assumption | omega

theorem inv_chkReply (h : Inv cmd srv s) (n p d : Bool) (hc : s.chkPc = .requesting) (hs : srv = .reply n p d) :
    Inv cmd srv { s with chkPc := .gotReply } := by
  obtain ⟨h1, h2, h3, h4, h5, h6, h7, h8, h9, h10, h11, h12, h13, h14⟩ := h
  constructor <;> simp_all
  all_goals first | assumption | omega

theorem inv_chkStore (h : Inv cmd srv s) (n p d : Bool) (hc : s.chkPc = .gotReply) (hs : srv = .reply n p d) :
    Inv cmd srv { s with chkPc := .done, latest := some ⟨n, p, d⟩ } := by
  obtain ⟨h1, h2, h3, h4, h5, h6, h7, h8, h9, h10, h11, h12, h13, h14⟩ := h
  constructor <;> simp_all
  all_goals first | assumption | omega

theorem inv_chkGarbage (h : Inv cmd srv s) (hc : s.chkPc = .requesting) (hs : srv = .garbage) :
    Inv cmd srv { s with chkPc := .dead, stderr := s.stderr ++ [traceback] } := by
  obtain ⟨h1, h2, h3, h4, h5, h6, h7, h8, h9, h10, h11, h12, h13, h14⟩ := h
  constructor <;> simp_all
  all_goals first | assumption | omega

theorem inv_chkRequestException (h : Inv cmd srv s) (hc : s.chkPc = .requesting) (hs : srv = .requestException) :
    Inv cmd srv { s with chkPc := .done } := by
  obtain ⟨h1, h2, h3, h4, h5, h6, h7, h8, h9, h10, h11, h12, h13, h14⟩ := h
  constructor <;> simp_all
  all_goals first | assumption | omega

theorem inv_chkOtherException (h : Inv cmd srv s) (hc : s.chkPc = .requesting) (hs : srv = .otherException) :
    Inv cmd srv { s with chkPc := .dead, stderr := s.stderr ++ [traceback] } := by
  obtain ⟨h1, h2, h3, h4, h5, h6, h7, h8, h9, h10, h11, h12, h13, h14⟩ := h
  constructor <;> simp_all
  all_goals first | assumption | omega

theorem inv_tick (h : Inv cmd srv s) (dt : Nat) (hpc : s.mainPc = .start ∨ s.mainPc = .running) :
    Inv cmd srv { s with now := s.now + dt } := by
  obtain ⟨h1, h2, h3, h4, h5, h6, h7, h8, h9, h10, h11, h12, h13, h14⟩ := h
  rcases hpc with hpc | hpc <;> constructor <;> simp_all
  all_goals first | assumption | omega

theorem inv_step {s' : State} (h : Inv cmd srv s) (st : Step cmd srv s s') : Inv cmd srv s' := by
  cases st with
  | mainStart hpc => exact inv_mainStart h hpc
  | mainCommandNormal dt hpc hn => exact inv_mainCommandNormal h dt hpc hn
  | mainCommandRaises dt hpc hn => exact inv_mainCommandRaises h dt hpc hn
  | mainJoinThreadDone dt hpc _ hd => exact inv_mainJoinThreadDone h dt hpc hd
  | mainJoinTimeout hpc => exact inv_mainJoinTimeout h hpc
  | mainRead hpc => exact inv_mainRead h hpc
  | mainFinish hpc => exact inv_mainFinish h hpc
  | chkReply n p d hc hs => exact inv_chkReply h n p d hc hs
  | chkStore n p d hc hs => exact inv_chkStore h n p d hc hs
  | chkGarbage hc hs => exact inv_chkGarbage h hc hs
  | chkRequestException hc hs => exact inv_chkRequestException h hc hs
  | chkOtherException hc hs => exact inv_chkOtherException h hc hs
  | tick dt hpc => exact inv_tick h dt hpc

theorem inv_reach (h : Reach cmd srv s) : Inv cmd srv s := by
  induction h with
  | init => exact inv_init cmd srv
  | step s s' _ st ih => exact inv_step ih st

end MhlProps.UpdaterLemmas
