/-
Lemmas about `ownerHist` (`find_history_for_path` as used by `info -sf`): the nearest enclosing loaded history of a
path.

A. `ownerHist` / `ownerHistList` through `List.find?`: the FIRST child whose root is a prefix of the path is entered
B. `allHists` (= the history and all its transitive children, pre-order), `ownerHist_mem'`, `ownerHist_root_prefix'`,
   `ownerHist_eq_self'`
C. `Hist.WF`: children rooted properly below their parent, sibling roots not prefixes of one another, hereditarily;
   `ownerHist_deepest'`: on a well-formed history `ownerHist` is the DEEPEST history whose root lies on the path
D. what the loader builds is well formed (with distinct sibling names, `Node.NoDupNames` = `Node.NamesDistinct`);
   without that hypothesis it is FALSE (`loadHistory_WF_needs_names`)
-/
import MhlProps.Proofs.NestedLemmas

namespace MhlModel

/-! ## A. `ownerHist` through `find?` -/

theorem ownerHistList_eq (cs : List Hist) (p : RelPath) :
    ownerHistList cs p = (cs.find? fun c => c.root.isPrefixOf p).map fun c => ownerHist c p := by
  induction cs with
  | nil => simp [ownerHistList]
  | cons c cs ih =>
    rw [ownerHistList, List.find?_cons]
    cases hc : c.root.isPrefixOf p with
    | true => simp
    | false => simpa using ih

/-- the first child history whose root folder lies on the path is entered; if there is none the history itself is the
owner -/
theorem ownerHist_eq (h : Hist) (p : RelPath) :
    ownerHist h p = match h.children.find? (fun c => c.root.isPrefixOf p) with
      | some c => ownerHist c p
      | none => h := by
  cases h with
  | mk r g ch e cs =>
    rw [ownerHist, ownerHistList_eq]
    simp only [Hist.children]
    cases cs.find? (fun c => c.root.isPrefixOf p) <;> rfl

theorem ownerHist_of_find_some {h c : Hist} {p : RelPath}
    (hf : h.children.find? (fun c => c.root.isPrefixOf p) = some c) : ownerHist h p = ownerHist c p := by
  rw [ownerHist_eq h p, hf]

theorem ownerHist_of_find_none {h : Hist} {p : RelPath}
    (hf : h.children.find? (fun c => c.root.isPrefixOf p) = none) : ownerHist h p = h := by
  rw [ownerHist_eq h p, hf]

theorem find_prefix_some {cs : List Hist} {p : RelPath} {c : Hist}
    (hf : cs.find? (fun c => c.root.isPrefixOf p) = some c) : c ∈ cs ∧ c.root <+: p := by
  have h1 := List.find?_some hf
  exact ⟨List.mem_of_find?_eq_some hf, List.isPrefixOf_iff_prefix.1 h1⟩

/-! ## B. membership, prefix, the flat case -/

/-- all histories of a loaded tree of histories: the history itself, then every transitive child (pre-order, children
in discovery order) — the same list as `Hist.all` -/
def allHists (h : Hist) : List Hist := h :: allDescendants h

theorem allHists_eq_all (h : Hist) : allHists h = h.all := rfl

theorem allHists_eq (h : Hist) : allHists h = h :: h.children.flatMap allHists := by
  have : (allHists : Hist → List Hist) = Hist.all := rfl
  rw [this]
  exact Hist.all_eq h

theorem self_mem_allHists (h : Hist) : h ∈ allHists h := List.mem_cons_self

theorem mem_allHists_of_child {h c x : Hist} (hc : c ∈ h.children) (hx : x ∈ allHists c) : x ∈ allHists h := by
  rw [allHists_eq h]
  exact List.mem_cons_of_mem _ (List.mem_flatMap.2 ⟨c, hc, hx⟩)

/-- the owner is the history itself or one of its transitive children -/
theorem ownerHist_mem' (h : Hist) (p : RelPath) : ownerHist h p ∈ allHists h := by
  induction h using Hist.induct with
  | mk r g ch e cs ih =>
    cases hf : (Hist.mk r g ch e cs).children.find? (fun c => c.root.isPrefixOf p) with
    | none => rw [ownerHist_of_find_none hf]; exact self_mem_allHists _
    | some c =>
      rw [ownerHist_of_find_some hf]
      have hc : c ∈ cs := List.mem_of_find?_eq_some hf
      exact mem_allHists_of_child (h := .mk r g ch e cs) hc (ih c hc)

/-- the root of the owner lies on the path (given that the root of the history asked does) -/
theorem ownerHist_root_prefix' (h : Hist) (p : RelPath) (hp : h.root <+: p) : (ownerHist h p).root <+: p := by
  induction h using Hist.induct with
  | mk r g ch e cs ih =>
    cases hf : (Hist.mk r g ch e cs).children.find? (fun c => c.root.isPrefixOf p) with
    | none => rw [ownerHist_of_find_none hf]; exact hp
    | some c =>
      rw [ownerHist_of_find_some hf]
      have hc : c ∈ cs := List.mem_of_find?_eq_some hf
      have hcp : c.root <+: p := (find_prefix_some hf).2
      exact ih c hc hcp

/-- no child history's root lies on the path: the history itself is the owner -/
theorem ownerHist_eq_self' (h : Hist) (p : RelPath) (hno : ∀ c ∈ h.children, ¬ c.root <+: p) :
    ownerHist h p = h := by
  apply ownerHist_of_find_none
  rw [List.find?_eq_none]
  intro c hc hpre
  exact hno c hc (List.isPrefixOf_iff_prefix.1 hpre)

theorem ownerHist_of_no_children (h : Hist) (p : RelPath) (hc : h.children = []) : ownerHist h p = h :=
  ownerHist_eq_self' h p (by rw [hc]; intro c hc; cases hc)

/-- conversely: the history is its own owner only if no child root lies on the path -/
theorem ownerHist_eq_self_iff (h : Hist) (p : RelPath) (hne : ∀ x ∈ allDescendants h, x ≠ h) :
    ownerHist h p = h ↔ ∀ c ∈ h.children, ¬ c.root <+: p := by
  constructor
  · intro ho c hc hpre
    cases hf : h.children.find? (fun c => c.root.isPrefixOf p) with
    | none =>
      rw [List.find?_eq_none] at hf
      exact hf c hc (List.isPrefixOf_iff_prefix.2 hpre)
    | some c' =>
      have hc' : c' ∈ h.children := List.mem_of_find?_eq_some hf
      have hm := ownerHist_mem' c' p
      rw [← ownerHist_of_find_some hf, ho] at hm
      have : h ∈ allDescendants h := by
        rw [allDescendants_eq, List.mem_flatMap]
        exact ⟨c', hc', hm⟩
      exact hne h this rfl
  · exact ownerHist_eq_self' h p

/-! ## C. well-formed histories; `ownerHist` is the deepest -/

/-- sibling roots: neither is a prefix of the other -/
def RootsApart (a b : Hist) : Prop := ¬ a.root <+: b.root ∧ ¬ b.root <+: a.root

/-- well-formedness of a tree of histories, hereditarily (for the history and every transitive child): the root of
every child properly extends the root of its parent, and the roots of two different siblings are not prefixes of one
another -/
def Hist.WF (h : Hist) : Prop :=
  ∀ x ∈ allHists h,
    (∀ c ∈ x.children, x.root <+: c.root ∧ c.root ≠ x.root) ∧ x.children.Pairwise RootsApart

/-- the recursive reading of `Hist.WF` -/
theorem Hist.wf_iff (h : Hist) :
    h.WF ↔ (∀ c ∈ h.children, h.root <+: c.root ∧ c.root ≠ h.root) ∧ h.children.Pairwise RootsApart ∧
      ∀ c ∈ h.children, c.WF := by
  unfold Hist.WF
  constructor
  · intro hw
    refine ⟨(hw h (self_mem_allHists h)).1, (hw h (self_mem_allHists h)).2, ?_⟩
    intro c hc x hx
    exact hw x (mem_allHists_of_child hc hx)
  · rintro ⟨h1, h2, h3⟩ x hx
    rw [allHists_eq] at hx
    rcases List.mem_cons.1 hx with rfl | hx
    · exact ⟨h1, h2⟩
    · obtain ⟨c, hc, hxc⟩ := List.mem_flatMap.1 hx
      exact h3 c hc x hxc

theorem Hist.WF.child {h c : Hist} (hw : h.WF) (hc : c ∈ h.children) : c.WF :=
  ((Hist.wf_iff h).1 hw).2.2 c hc

/-- in a well-formed history every member's root extends the root of the history -/
theorem Hist.WF.root_prefix {h : Hist} (hw : h.WF) : ∀ x ∈ allHists h, h.root <+: x.root := by
  intro x hx
  rw [allHists_eq_all] at hx
  refine all_root_prefix h ?_ x hx
  intro y hy c hc
  exact ((hw y hy).1 c hc).1

theorem pairwise_rootsApart_eq {cs : List Hist} (hp : cs.Pairwise RootsApart) {a b : Hist} (ha : a ∈ cs)
    (hb : b ∈ cs) (hab : a.root <+: b.root ∨ b.root <+: a.root) : a = b := by
  induction cs with
  | nil => cases ha
  | cons x xs ih =>
    rw [List.pairwise_cons] at hp
    rcases List.mem_cons.1 ha with hax | hax <;> rcases List.mem_cons.1 hb with hbx | hbx
    · rw [hax, hbx]
    · have := hp.1 b hbx
      rw [← hax] at this
      rcases hab with h | h
      · exact absurd h this.1
      · exact absurd h this.2
    · have := hp.1 a hax
      rw [← hbx] at this
      rcases hab with h | h
      · exact absurd h this.2
      · exact absurd h this.1
    · exact ih hp.2 hax hbx

/-- two prefixes of one list are comparable -/
theorem prefix_comparable {α : Type} {a b p : List α} (ha : a <+: p) (hb : b <+: p) : a <+: b ∨ b <+: a := by
  rcases Nat.le_total a.length b.length with h | h
  · exact Or.inl (List.prefix_of_prefix_length_le ha hb h)
  · exact Or.inr (List.prefix_of_prefix_length_le hb ha h)

/-- NEAREST ENCLOSING: on a well-formed tree of histories, the root of every history whose root lies on the path is
at most as long as the root of the owner -/
theorem ownerHist_deepest' (h : Hist) (p : RelPath) (hw : h.WF) :
    ∀ k ∈ allHists h, k.root <+: p → k.root.length ≤ (ownerHist h p).root.length := by
  induction h using Hist.induct with
  | mk r g ch e cs ih =>
    intro k hk hkp
    rw [allHists_eq] at hk
    rcases List.mem_cons.1 hk with rfl | hk
    · exact (hw.root_prefix _ (ownerHist_mem' _ p)).length_le
    · obtain ⟨c', hc', hkc'⟩ := List.mem_flatMap.1 hk
      have hc'w : c'.WF := hw.child hc'
      have hc'p : c'.root <+: p := (hc'w.root_prefix k hkc').trans hkp
      cases hf : (Hist.mk r g ch e cs).children.find? (fun c => c.root.isPrefixOf p) with
      | none =>
        rw [List.find?_eq_none] at hf
        exact absurd (List.isPrefixOf_iff_prefix.2 hc'p) (hf c' hc')
      | some c =>
        rw [ownerHist_of_find_some hf]
        have hc : c ∈ cs := List.mem_of_find?_eq_some hf
        have hcp : c.root <+: p := (find_prefix_some hf).2
        have hpw := ((Hist.wf_iff _).1 hw).2.1
        have : c = c' := pairwise_rootsApart_eq hpw hc hc' (prefix_comparable hcp hc'p)
        subst this
        exact ih c hc hc'w k hkc' hkp

/-- on a well-formed history rooted on the path the owner is determined by the two properties: its root lies on the
path, and no member with its root on the path has a longer root -/
theorem ownerHist_root_unique (h : Hist) (p : RelPath) (hw : h.WF) (hp : h.root <+: p) (k : Hist)
    (hk : k ∈ allHists h) (hkp : k.root <+: p) (hmax : ∀ x ∈ allHists h, x.root <+: p → x.root.length ≤ k.root.length) :
    k.root = (ownerHist h p).root := by
  have h1 := ownerHist_deepest' h p hw k hk hkp
  have h2 := hmax _ (ownerHist_mem' h p) (ownerHist_root_prefix' h p hp)
  have h3 := List.prefix_of_prefix_length_le hkp (ownerHist_root_prefix' h p hp) h1
  exact h3.eq_of_length_le h2

/-! ## D. what the loader builds is well formed -/

/-- the names of the children of every directory of the tree are pairwise distinct (the project's
`Node.NamesDistinct`, under the name the task uses) -/
abbrev Node.NoDupNames (t : Node) : Prop := t.NamesDistinct

theorem loadHistory_root (t : Node) (h : Hist) (hl : loadHistory t = .ok h) : h.root = [] := by
  obtain ⟨kids, -, rfl⟩ := loadHistory_ok_eq t h hl
  exact buildHist_root _ _ _

/-- with distinct sibling names the loaded tree of histories is well formed -/
theorem histOK_WF {t : Node} {h : Hist} (hg : HistOK t h) : h.WF := by
  intro x hx
  rw [allHists_eq_all] at hx
  refine ⟨?_, ?_⟩
  · intro c hc
    obtain ⟨h1, h2⟩ := hg.child x hx c hc
    refine ⟨h1, ?_⟩
    intro he
    rw [he] at h2
    exact Nat.lt_irrefl _ h2
  · have := hg.order x hx
    rw [rootsOf, List.pairwise_map] at this
    exact this.imp fun hlt => hlt.not_prefix

theorem loadHistory_WF' (t : Node) (h : Hist) (hl : loadHistory t = .ok h) (hd : t.NoDupNames) : h.WF :=
  histOK_WF (loadHistory_histOK t h hl hd)

end MhlModel
