/-
Lemmas for C03e2e: the end-to-end composition  create → applyWritten → verify / diff / create  on a tree that had
no `ascmhl` folder.

A. `String.splitOn "/"` on the POSIX text of a path (`splitPath (posix p) = p`), an evaluable `splitPathL`
B. `setPatterns` on its own output
C. loading a tree without / with the one freshly written generation
D. the counters of the `createVisit` fold (`failed`, `mismatch`, `found`)
E. validation and commit succeed when nothing is `failed`
F. folder-mode `create` with named pieces (`createFolder_eq`) and the general `createFolder_flat_ok`: exit code 0 on
   a flat history whenever every visible file is unaltered (`FirstOk`) and every expected path is visited
G. the generation a first seal writes, record by record (`SealedGen`, `origEntries`, `firstFormat`)
G'. the lookups of verify / create over such a generation (`find`, `recordedName`, `findOriginal`, `FirstOk`,
   `expectedPaths`, `judgeFile`)
H. replacing the content of one file (`setContent`): history, traversal and the other files are unaffected
-/
import MhlProps.C02rec
import MhlProps.C03
import MhlProps.C06
import MhlProps.C12
import MhlProps.Proofs.PermLemmas
import Batteries.Data.String.Lemmas

namespace MhlModel

/-! ## A. `splitPath` inverts `posix` -/

theorem get_slash : String.Pos.Raw.get "/" 0 = '/' := by decide
theorem next_slash : String.Pos.Raw.next "/" 0 = ⟨1⟩ := by decide
theorem atEnd_slash : String.Pos.Raw.atEnd "/" ⟨1⟩ = true := by decide

/-- with the one-character separator "/" the legacy `splitOnAux` loop is the `splitAux` loop for `· == '/'` -/
theorem splitOnAux_slash (s : String) (b i : String.Pos.Raw) (r : List String) :
    String.splitOnAux s "/" b i 0 r = String.splitAux s (fun c => c == '/') b i r := by
  fun_induction String.splitAux s (fun c => c == '/') b i r with
  | case1 b i r h r' =>
    rw [String.splitOnAux]
    simp [h, r']
  | case2 b i r h _ hp i' ih =>
    rw [String.splitOnAux]
    have hc : String.Pos.Raw.get s i = '/' := by simpa using hp
    simp only [h, get_slash, next_slash, atEnd_slash, hp, if_true, Bool.false_eq_true, if_false]
    have : (String.Pos.Raw.next s i).unoffsetBy ⟨1⟩ = i := by
      have h1 : '/'.utf8Size = 1 := by decide
      simp [String.Pos.Raw.next, hc, String.Pos.Raw.ext_iff, h1]
    rw [this]
    exact ih
  | case3 b i r h _ hp ih =>
    rw [String.splitOnAux]
    simp only [h, get_slash, hp, Bool.false_eq_true, if_false]
    have : i.unoffsetBy 0 = i := by simp
    rw [this]
    exact ih

/-- `String.splitOn "/"` in terms of lists of characters -/
theorem splitOn_slash (s : String) : s.splitOn "/" = (s.toList.splitOn '/').map String.ofList := by
  have : ("/" == "") = false := by decide
  simp only [String.splitOn, this, Bool.false_eq_true, if_false]
  rw [splitOnAux_slash]
  have := String.splitToList_of_valid s (fun c => c == '/')
  simpa [String.splitToList, List.splitOn] using this

/-- `splitPath` inverts `posix` on paths made of well-formed names (no '/', not ".") -/
theorem splitPath_posix {p : RelPath} (hp : ∀ s ∈ p, NameOk s) : splitPath (posix p) = p := by
  unfold splitPath
  by_cases hne : p = []
  · subst hne; rfl
  · have hdot : (posix p == ".") = false := by
      simpa using fun h => hne ((posix_eq_dot hp).1 h)
    rw [hdot]
    simp only [Bool.false_eq_true, if_false]
    rw [splitOn_slash, posix_toList_split hne (fun s hs => (hp s hs).1), List.map_map]
    conv => rhs; rw [← List.map_id p]
    apply List.map_congr_left
    intro s _
    simp

example : splitPath (posix ["sub", "deep", "y.txt"]) = ["sub", "deep", "y.txt"] :=
  splitPath_posix (by decide)

/-- an evaluable form of `splitPath`: `String.splitOn` is defined by well-founded recursion and does not reduce in
the kernel, this one does (`decide`) -/
def splitPathL (s : String) : RelPath :=
  if s == "." then [] else (s.toList.splitOn '/').map String.ofList

theorem splitPath_eq_splitPathL : splitPath = splitPathL := by
  funext s
  unfold splitPath splitPathL
  rw [splitOn_slash]

example : splitPathL "sub/deep/y.txt" = ["sub", "deep", "y.txt"] ∧ splitPathL "." = [] ∧ splitPathL "" = [""] := by
  decide +kernel

/-- the expected paths of a history with one generation and no nested histories, with the splitter as a parameter -/
def expectedSingleWith (sp : String → RelPath) (g : Generation) : List RelPath :=
  (g.records.foldl (fun a r => appendNew a (([] : RelPath) ++ sp r.path)) []).foldl appendNew []

theorem expectedPaths_single (k : Nat) (g : Generation) (chain : List ChainEntry) (e : Bool) :
    expectedPaths (.mk [] [⟨k, g⟩] chain e []) = expectedSingleWith splitPathL g := by
  rw [← splitPath_eq_splitPathL]
  simp [expectedPaths, allDescendants, descList, expectedOfGens, expectedSingleWith, Hist.root, Hist.gens]

/-! ## B. `setPatterns` on its own output -/

theorem appendPatterns_of_subset (cur batch : List String) (h : ∀ x ∈ batch, x ∈ cur) :
    appendPatterns cur batch = cur := by
  unfold appendPatterns
  induction batch with
  | nil => rfl
  | cons b bs ih =>
    have hb : appendNew cur b = cur := by simp [appendNew, h b (by simp)]
    rw [List.foldl_cons, hb]
    exact ih (fun x hx => h x (by simp [hx]))

theorem appendPatterns_append (cur a b : List String) :
    appendPatterns cur (a ++ b) = appendPatterns (appendPatterns cur a) b := by
  simp [appendPatterns, List.foldl_append]

/-- appending a duplicate-free list that starts with the current list gives that list -/
theorem appendPatterns_extension (cur rest : List String) (hnd : (cur ++ rest).Nodup) :
    appendPatterns cur (cur ++ rest) = cur ++ rest := by
  rw [appendPatterns_append, appendPatterns_of_subset cur cur (fun _ h => h)]
  exact MhlProps.C12.setPatterns_keeps_previous.appendPatterns_of_nodup cur rest hnd

theorem basePatterns_none : basePatterns none = Gen.defaultIgnore := by decide

theorem basePatterns_some (P : List String) (hne : P ≠ []) (hnd : P.Nodup) : basePatterns (some P) = P := by
  have hemp : P.isEmpty = false := by cases P <;> simp_all
  simp only [basePatterns, hemp, Bool.false_eq_true, if_false]
  simpa using MhlProps.C12.setPatterns_keeps_previous.appendPatterns_of_nodup [] P (by simpa using hnd)

theorem setPatterns_fresh_ne_nil (cli file : List String) : setPatterns none cli file ≠ [] := by
  intro h
  have := MhlProps.C12.setPatterns_fresh cli file
  rw [h, List.prefix_nil] at this
  exact absurd this (by decide)

/-- the list a generation of a history without generations carries when the session holds the list `P` that
`setPatterns none cli file` made: `P` itself -/
theorem setPatterns_none_own (cli file : List String) :
    setPatterns none (setPatterns none cli file) [] = setPatterns none cli file := by
  generalize hP : setPatterns none cli file = P
  have hnd : P.Nodup := hP ▸ MhlProps.C12.setPatterns_nodup none cli file
  have hne : P ≠ [] := hP ▸ setPatterns_fresh_ne_nil cli file
  obtain ⟨rest, hrest⟩ : Gen.defaultIgnore <+: P := hP ▸ MhlProps.C12.setPatterns_fresh cli file
  have hemp : P.isEmpty = false := by cases P <;> simp_all
  simp only [setPatterns, hemp, Bool.false_eq_true, if_false, List.isEmpty_nil, if_true, basePatterns_none]
  rw [← hrest]
  exact appendPatterns_extension _ _ (hrest ▸ hnd)

/-- on top of a recorded list `P` (non-empty, duplicate-free), options that only name patterns of `P` change
nothing -/
theorem setPatterns_some_own (P cli file : List String) (hne : P ≠ []) (hnd : P.Nodup)
    (hcli : ∀ x ∈ cli, x ∈ P) (hfile : ∀ x ∈ file, x ∈ P) : setPatterns (some P) cli file = P := by
  unfold setPatterns
  rw [basePatterns_some P hne hnd]
  have h1 : (if cli.isEmpty then P else appendPatterns P cli) = P := by
    split
    · rfl
    · exact appendPatterns_of_subset P cli hcli
  simp only [h1]
  split
  · rfl
  · exact appendPatterns_of_subset P file hfile

example : setPatterns none (setPatterns none ["*.tmp", ".DS_Store"] ["x/"]) [] =
      [".DS_Store", "ascmhl", "ascmhl/", "*.tmp", "x/"] ∧
    setPatterns (some (setPatterns none ["*.tmp", ".DS_Store"] ["x/"])) [] [] =
      [".DS_Store", "ascmhl", "ascmhl/", "*.tmp", "x/"] := by decide

/-! ## C. loading -/

/-- a folder without any `ascmhl` folder in or below it loads as the empty history -/
theorem loadHistory_fresh (rn : String) (cs : List Node) (hflat : noNested (.dir rn cs none) = true) :
    loadHistory (.dir rn cs none) = .ok (.mk [] [] [] false []) := by
  unfold loadHistory
  rw [findChildren_noNested _ [] hflat]
  rfl

theorem noNested_root_hist (rn : String) (cs : List Node) (h h' : Option HistStore) :
    noNested (.dir rn cs h) = noNested (.dir rn cs h') := rfl

/-- what a first `write_new_generation` leaves in the new `ascmhl` folder -/
def firstStore (w : Written) : HistStore := ({} : HistStore).add w

theorem applyWritten_root (rn : String) (cs : List Node) (hs : Option HistStore) (w : Written)
    (hw : w.histRoot = []) :
    applyWritten (.dir rn cs hs) [w] = .dir rn cs (some ((hs.getD {}).add w)) := by
  simp only [applyWritten, List.foldl_cons, List.foldl_nil, hw]
  rfl

/-- the folder with the one generation `w` (present, unaltered, its name parsing to `k`) loads as the history with
that generation, numbered `k` -/
theorem loadHistory_firstStore (rn : String) (cs : List Node) (hflat : noNested (.dir rn cs none) = true)
    (w : Written) (k : Nat) (hparse : parseGenName w.gen.fileName = some k) (hstate : w.gen.state = .ok) :
    loadHistory (.dir rn cs (some (firstStore w))) =
      .ok (.mk [] [⟨k, w.gen⟩] [⟨w.number, w.gen.fileName⟩] true []) := by
  unfold loadHistory
  have hflat' : noNested (.dir rn cs (some (firstStore w))) = true := hflat
  rw [findChildren_noNested _ [] hflat']
  have hchk : checkStore (some (firstStore w)) = .ok () := by
    simp [checkStore, firstStore, HistStore.add, checkChain, hstate, pure, Except.pure, bind, Except.bind]
  have hg : loadGens (firstStore w) = [⟨k, w.gen⟩] := by
    have := MhlProps.C06.loadGens_add_lt {} w k hparse hstate (by simp [loadGens])
    rw [firstStore, this]
    rfl
  simp only [Node.hist, hchk, bind, Except.bind, pure, Except.pure, buildHist, hg]
  rfl

/-! ## D. the counters of the `createVisit` fold -/

theorem foldl_inv_mem {α β : Type} (P : β → Prop) (f : β → α → β) (l : List α) (b : β) (h0 : P b)
    (step : ∀ b, ∀ a ∈ l, P b → P (f b a)) : P (l.foldl f b) := by
  induction l generalizing b with
  | nil => exact h0
  | cons a as ih =>
    rw [List.foldl_cons]
    exact ih _ (step b a (by simp) h0) (fun b' a' ha' => step b' a' (by simp [ha']))

/-- the result dict of `seal_file_path` is the one `sealEntries` computes for the routed path -/
theorem sealFile_snd (H : HashFn) (h : Hist) (s : Session) (file : RelPath) (c : Bytes) (req : List String) :
    (sealFile H h s file c req).2 =
      (sealEntries (route h file).1.gens (posix (route h file).2) (fun f => H f c) req).2 := by
  unfold sealFile
  generalize route h file = x
  obtain ⟨h', hrel⟩ := x
  dsimp only
  generalize sealEntries h'.gens (posix hrel) (fun f => H f c) req = y
  obtain ⟨ents, res⟩ := y
  dsimp only
  split <;> rfl

/-- the paths one visit adds to `found` -/
def visitFound (v : Visit) : List RelPath := v.children.map fun ch => v.folder ++ [ch.1]

theorem visiblePaths_map_fst (hit : RelPath → Bool) (t : Node) :
    (visiblePaths hit t).map (·.1) = (traverse hit [] t).flatMap visitFound := by
  unfold visiblePaths visitFound
  rw [List.map_flatMap]
  simp [List.map_map, Function.comp_def]

/-- every visited path is appended to `found`, in order -/
theorem createVisit_found (env : Env) (t : Node) (h : Hist) (fmts : List String) (noDir : Bool)
    (st : CreateState) (v : Visit) :
    (createVisit env t h fmts noDir st v).found = st.found ++ visitFound v := by
  unfold createVisit
  dsimp only
  generalize hres : List.foldl _ (st, _) v.children = res
  have hP : res.1.found = st.found ++ v.children.flatMap fun ch => [v.folder ++ [ch.1]] := by
    rw [← hres]
    refine foldl_track (fun (a : CreateState × List (String × DirCtx)) L => a.1.found = L) _ _ ?_ _ _ _ rfl
    intro a b L hP
    try dsimp only at hP ⊢
    split
    · split <;> simp [hP]
    · simp [hP]
  have hfm : (v.children.flatMap fun ch => [v.folder ++ [ch.1]]) = visitFound v := by
    unfold visitFound
    induction v.children with
    | nil => rfl
    | cons a as ih => simp [ih]
  rw [← hfm, ← hP]
  cases noDir <;> rfl

theorem createFold_found (env : Env) (t : Node) (h : Hist) (fmts : List String) (noDir : Bool)
    (vs : List Visit) (st : CreateState) :
    (vs.foldl (createVisit env t h fmts noDir) st).found = st.found ++ vs.flatMap visitFound :=
  foldl_track (fun (st' : CreateState) L => st'.found = L) _ visitFound
    (fun a b L hP => by rw [createVisit_found, hP]) vs st st.found rfl

/-- when every digest of every file of the visit is judged a success, nothing is counted as failed -/
theorem createVisit_failed (env : Env) (t : Node) (h : Hist) (fmts : List String) (noDir : Bool)
    (st : CreateState) (v : Visit)
    (hok : ∀ ch ∈ v.children, ch.2 = false → ∀ s : Session,
      ∀ r ∈ (sealFile env.H h s (v.folder ++ [ch.1]) (fileContent t (v.folder ++ [ch.1])) fmts).2, r.2.2 = true)
    (h0 : st.failed = 0 ∧ st.mismatch = []) :
    (createVisit env t h fmts noDir st v).failed = 0 ∧ (createVisit env t h fmts noDir st v).mismatch = [] := by
  unfold createVisit
  dsimp only
  generalize hres : List.foldl _ (st, _) v.children = res
  have hP : res.1.failed = 0 ∧ res.1.mismatch = [] := by
    rw [← hres]
    refine foldl_inv_mem (fun (a : CreateState × List (String × DirCtx)) => a.1.failed = 0 ∧ a.1.mismatch = [])
      _ _ _ h0 ?_
    intro a b hb hP
    try dsimp only at hP ⊢
    by_cases hd : b.2 = true
    · simp only [hd, if_true]
      split <;> exact hP
    · have hd' : b.2 = false := by simpa using hd
      simp only [hd', Bool.false_eq_true, if_false]
      have hall := hok b hb hd' a.1.session
      have hnil : ((sealFile env.H h a.1.session (v.folder ++ [b.1]) (fileContent t (v.folder ++ [b.1])) fmts).2.filter
          fun r => !r.2.2) = [] := by
        rw [List.filter_eq_nil_iff]
        intro r hr
        simp [hall r hr]
      simp [hnil, hP.1, hP.2]
  cases noDir <;> exact hP

theorem createFold_failed (env : Env) (t : Node) (h : Hist) (fmts : List String) (noDir : Bool)
    (vs : List Visit) (st : CreateState)
    (hok : ∀ v ∈ vs, ∀ ch ∈ v.children, ch.2 = false → ∀ s : Session,
      ∀ r ∈ (sealFile env.H h s (v.folder ++ [ch.1]) (fileContent t (v.folder ++ [ch.1])) fmts).2, r.2.2 = true)
    (h0 : st.failed = 0 ∧ st.mismatch = []) :
    (vs.foldl (createVisit env t h fmts noDir) st).failed = 0 ∧
      (vs.foldl (createVisit env t h fmts noDir) st).mismatch = [] :=
  foldl_inv_mem (fun (st' : CreateState) => st'.failed = 0 ∧ st'.mismatch = []) _ vs st h0
    (fun b a ha hP => createVisit_failed env t h fmts noDir b a (hok a ha) hP)

/-! ## E. validation and commit -/

/-- the test `_validate_new_hash_list` makes, on the entries alone -/
def entriesPass (es : List Entry) : Bool :=
  !(es.any fun e => e.action == "new") ||
    (!(es.filter fun e => e.action == "verified" || e.action == "failed").isEmpty &&
      !((es.filter fun e => e.action == "verified" || e.action == "failed").any fun e => e.action != "verified"))

theorem validateRecord_isOk (r : Record) : (∃ x, validateRecord r = .ok x) ↔ entriesPass r.entries = true := by
  unfold validateRecord entriesPass
  split
  · next hnew =>
    simp only [hnew, Bool.not_true, Bool.false_or]
    split
    · next h1 => simp [h1]
    · next h1 =>
      split
      · next h2 => simp [h2]
      · next h2 => simp [h1, h2, pure, Except.pure]
  · next hnew => simp [hnew, pure, Except.pure]

theorem validateRecord_isOk_congr (r r' : Record) (he : r.entries = r'.entries)
    (h : ∃ x, validateRecord r = .ok x) : ∃ y, validateRecord r' = .ok y := by
  rw [validateRecord_isOk] at h ⊢
  rw [← he]; exact h

theorem entriesPass_no_new (es : List Entry) (h : ∀ e ∈ es, e.action ≠ "new") : entriesPass es = true := by
  unfold entriesPass
  have : (es.any fun e => e.action == "new") = false := by
    rw [List.any_eq_false]
    intro e he
    simpa using h e he
  simp [this]

theorem mapM_validate_isOk (rs : List Record) (h : ∀ r ∈ rs, ∃ r', validateRecord r = .ok r') :
    ∃ out, rs.mapM validateRecord = .ok out := by
  induction rs with
  | nil => exact ⟨[], rfl⟩
  | cons r rs ih =>
    obtain ⟨r', hr'⟩ := h r (by simp)
    obtain ⟨out, hout⟩ := ih (fun x hx => h x (by simp [hx]))
    refine ⟨r' :: out, ?_⟩
    rw [List.mapM_cons, hr', hout]
    rfl

theorem writeOne_isOk (rootHist : Hist) (s : Session) (rn stamp process : String) (cb : Option String)
    (h : Hist) (refs : List Written)
    (hv : ∀ r ∈ (s.get h.root).records, ∃ r', validateRecord r = .ok r') :
    ∃ w, writeOne rootHist s rn stamp process cb h refs = .ok w := by
  obtain ⟨out, hout⟩ := mapM_validate_isOk _ hv
  unfold writeOne
  simp only [hout, bind, Except.bind, pure, Except.pure]
  exact ⟨_, rfl⟩

/-- the commit of a history without nested histories whose list is in the session and validates: exactly the one
generation `writeOne` makes -/
theorem commit_flat_ok_sv (h : Hist) (hc : h.children = []) (s : Session) (rn stamp process : String)
    (cb : Option String) (hin : s.lists.any (fun l => l.root == h.root) = true)
    (hv : ∀ r ∈ (s.get h.root).records, ∃ r', validateRecord r = .ok r') :
    ∃ w, commit h s rn stamp process cb = .ok [w] ∧ writeOne h s rn stamp process cb h [] = .ok w := by
  obtain ⟨w, hw⟩ := writeOne_isOk h s rn stamp process cb h [] hv
  refine ⟨w, ?_, hw⟩
  unfold commit
  rw [walkPost_flat h hc]
  simp only [List.foldlM_cons, List.foldlM_nil, commitStep, List.filter_nil, List.isEmpty_nil, Bool.and_true,
    hin, Bool.not_true, Bool.false_eq_true, if_false, hw, bind, Except.bind, pure, Except.pure, List.nil_append]

/-! ## F. folder-mode `create`, named pieces -/

open MhlProps.C02rec in
/-- the state after the traversal of a folder-mode `create` (its session is `cSession`) -/
def cState (env : Env) (t : Node) (rootHist : Hist) (o : CreateOpts) : CreateState :=
  (traverse (cHit env rootHist o) [] t).foldl
    (createVisit env t rootHist (isort strLe o.formats) o.noDirHashes)
    { session := { patterns := setPatterns (latestIgnore rootHist.gens) o.ignoreCli o.ignoreFile } }

/-- nested histories referenced by the latest generation whose folder vanished -/
def cMissingHist (t : Node) (rootHist : Hist) : List RelPath :=
  match rootHist.gens.getLast? with
  | none => []
  | some g => g.gen.refs.filterMap fun ref =>
      let p := (splitPath ref).dropLast.dropLast
      match t.at? p with
      | some n => if n.hist.isSome then none else some p
      | none => some p

open MhlProps.C02rec in
/-- the missing paths of a folder-mode `create` without `-dr` -/
def cMissing (env : Env) (t : Node) (rootHist : Hist) (o : CreateOpts) : List RelPath :=
  missingAfter (cHit env rootHist o)
    ((expectedPaths rootHist).filter fun p => !(cState env t rootHist o).found.contains p)

open MhlProps.C02rec in
theorem cState_session (env : Env) (t : Node) (rootHist : Hist) (o : CreateOpts) :
    (cState env t rootHist o).session = cSession env t rootHist o := rfl

open MhlProps.C02rec in
/-- folder-mode `create` without `-dr`, once the history loaded and the commit went through -/
theorem createFolder_eq (env : Env) (t : Node) (o : CreateOpts) (rootHist : Hist)
    (hl : loadHistory t = .ok rootHist) (hdr : o.detectRenaming = false) (ws : List Written)
    (hcm : commit rootHist (cSession env t rootHist o) env.rootName env.stamp "in-place" = .ok ws) :
    createFolder env t o =
      { err := createExit (cState env t rootHist o).failed (cMissing env t rootHist o) (cMissingHist t rootHist),
        report := { mismatch := (cState env t rootHist o).mismatch,
                    missing := (cMissing env t rootHist o).map posix, renamed := [] },
        written := ws } := by
  unfold createFolder
  simp only [hl, hdr, Bool.false_eq_true, if_false]
  have hs : commit rootHist (cState env t rootHist o).session env.rootName env.stamp "in-place" = .ok ws := hcm
  unfold cState cHit at hs
  rw [hs]
  rfl

theorem forall₂_mem_right_sv {α β : Type} {R : α → β → Prop} {l₁ : List α} {l₂ : List β}
    (h : List.Forall₂ R l₁ l₂) : ∀ b ∈ l₂, ∃ a ∈ l₁, R a b := by
  induction h with
  | nil => intro b hb; cases hb
  | cons hr _ ih =>
    intro b hb
    rcases List.mem_cons.1 hb with rfl | hb
    · exact ⟨_, List.mem_cons_self, hr⟩
    · obtain ⟨a, ha, hab⟩ := ih b hb
      exact ⟨a, List.mem_cons_of_mem _ ha, hab⟩

theorem mem_visible_of_visit {hit : RelPath → Bool} {t : Node} {v : Visit} {ch : String × Bool}
    (hv : v ∈ traverse hit [] t) (hch : ch ∈ v.children) : (v.folder ++ [ch.1], ch.2) ∈ visiblePaths hit t := by
  unfold visiblePaths
  exact List.mem_flatMap.2 ⟨v, hv, List.mem_map.2 ⟨ch, hch, rfl⟩⟩

open MhlProps.C02rec MhlProps.C04 in
/-- Folder-mode `create` (no `-dr`) on a folder whose only history is the one at the root ends with exit code 0
and writes exactly one generation, PROVIDED every visible file is unaltered with respect to the history
(`FirstOk`), every expected path is visited or ignored, and the latest generation references no nested history. -/
theorem createFolder_flat_ok (env : Env) (t : Node) (o : CreateOpts) (rootHist : Hist)
    (hl : loadHistory t = .ok rootHist) (hc : rootHist.children = []) (hd : t.NamesDistinct) (hn : t.NamesOk)
    (hf : o.formats ≠ []) (hdr : o.detectRenaming = false) (hdir : t.isDir = true)
    (hfirst : ∀ p, (p, false) ∈ visiblePaths (cHit env rootHist o) t →
      FirstOk (fun f => env.H f (fileContent t p)) rootHist.gens (posix p))
    (hexp : ∀ p ∈ expectedPaths rootHist,
      (∃ d, (p, d) ∈ visiblePaths (cHit env rootHist o) t) ∨ hitAbove (cHit env rootHist o) p = true)
    (hrefs : ∀ g, rootHist.gens.getLast? = some g → g.gen.refs = []) :
    ∃ w, (createFolder env t o).err = none ∧ (createFolder env t o).written = [w] ∧
      (createFolder env t o).report.mismatch = [] ∧ (createFolder env t o).report.missing = [] ∧
      (createFolder env t o).report.renamed = [] ∧
      writeOne rootHist (cSession env t rootHist o) env.rootName env.stamp "in-place" none rootHist [] = .ok w := by
  have hr := loadHistory_root t rootHist hl
  have hfm : isort strLe o.formats ≠ [] := by
    intro h0
    have := length_isort strLe o.formats
    rw [h0] at this
    exact hf (List.length_eq_zero_iff.1 this.symm)
  obtain ⟨-, -, hroot, hrecs, -, -, -, hlists⟩ :=
    createVisit_records env t rootHist hc hr hd hn (isort strLe o.formats) hfm o.noDirHashes
      (setPatterns (latestIgnore rootHist.gens) o.ignoreCli o.ignoreFile) (cHit env rootHist o)
  change ((cSession env t rootHist o).get []).root = [] at hroot
  change List.Forall₂ _ _ ((cSession env t rootHist o).get []).records at hrecs
  change t.isDir = true → (cSession env t rootHist o).lists = [(cSession env t rootHist o).get []] ∧ _ at hlists
  obtain ⟨hlist1, -⟩ := hlists hdir
  -- the list of the root history is in the session
  have hin : (cSession env t rootHist o).lists.any (fun l => l.root == rootHist.root) = true := by
    rw [hlist1, hr]; simp [hroot]
  -- every record validates
  have hv : ∀ r ∈ ((cSession env t rootHist o).get rootHist.root).records, ∃ r', validateRecord r = .ok r' := by
    rw [hr]
    intro r hrm
    obtain ⟨x, hx, hrf⟩ := forall₂_mem_right_sv hrecs r hrm
    obtain ⟨p, d⟩ := x
    have hvis : (p, d) ∈ visiblePaths (cHit env rootHist o) t :=
      (nonRoot_recItems_perm _ t).mem_iff.1 hx
    cases d with
    | false =>
      obtain ⟨-, hents⟩ := hrf.2.2.2.1 rfl
      obtain ⟨r', hr', -⟩ := unaltered_validate_ok (fun f => env.H f (fileContent t p)) rootHist.gens (posix p)
        (isort strLe o.formats) (hfirst p hvis) none
      exact validateRecord_isOk_congr _ r (by rw [hents]) ⟨r', hr'⟩
    | true =>
      obtain ⟨-, hact⟩ := hrf.2.2.2.2 rfl
      rw [validateRecord_isOk]
      apply entriesPass_no_new
      intro e he hnew
      have := hact e he
      rw [this] at hnew
      exact absurd hnew (by decide)
  obtain ⟨w, hcm, hw⟩ := commit_flat_ok_sv rootHist hc (cSession env t rootHist o) env.rootName env.stamp "in-place"
    none hin hv
  have heq := createFolder_eq env t o rootHist hl hdr [w] hcm
  -- nothing failed
  have hfail : (cState env t rootHist o).failed = 0 ∧ (cState env t rootHist o).mismatch = [] := by
    unfold cState
    apply createFold_failed
    · intro v hv' ch hch hfile s r hr'
      rw [sealFile_snd, route_flat rootHist hc] at hr'
      have hvis : (v.folder ++ [ch.1], false) ∈ visiblePaths (cHit env rootHist o) t := by
        have := mem_visible_of_visit hv' hch
        rwa [hfile] at this
      exact unaltered_all_success _ _ _ _ (hfirst _ hvis) r hr'
    · exact ⟨rfl, rfl⟩
  -- nothing is missing
  have hfound : (cState env t rootHist o).found = (visiblePaths (cHit env rootHist o) t).map (·.1) := by
    unfold cState
    rw [createFold_found, visiblePaths_map_fst]
    rfl
  have hmiss : cMissing env t rootHist o = [] := by
    apply List.eq_nil_iff_forall_not_mem.2
    intro p hp
    unfold cMissing at hp
    rw [mem_missingAfter, List.mem_filter, hfound] at hp
    obtain ⟨⟨hpe, hnf⟩, hh⟩ := hp
    rcases hexp p hpe with ⟨d, hd'⟩ | hi
    · have : p ∈ (visiblePaths (cHit env rootHist o) t).map (·.1) := List.mem_map.2 ⟨(p, d), hd', rfl⟩
      simp [this] at hnf
    · rw [hh] at hi; exact Bool.noConfusion hi
  have hmh : cMissingHist t rootHist = [] := by
    unfold cMissingHist
    cases hg : rootHist.gens.getLast? with
    | none => rfl
    | some g => simp only [hrefs g hg, List.filterMap_nil]
  refine ⟨w, ?_, ?_, ?_, ?_, ?_, hw⟩
  · rw [heq, hfail.1, hmiss, hmh]; rfl
  · rw [heq]
  · rw [heq, hfail.2]
  · rw [heq, hmiss]; rfl
  · rw [heq]

/-! ## G. the generation a first seal writes -/

section firstSeal
open MhlProps.C02rec MhlProps.C04

theorem sealEntries_nil (p : String) (dig : String → String) (req : List String) :
    (sealEntries [] p dig req).1 =
      (req.foldl appendNew []).map fun f => ({ fmt := f, digest := dig f, action := "original" } : Entry) := by
  simp [sealEntries, existingFormats, formatsToGenerate, baseFormats, decideAction, findOriginal]

/-- the history of a folder without `ascmhl` folder -/
def emptyHist : Hist := .mk [] [] [] false []

theorem expectedPaths_emptyHist : expectedPaths emptyHist = [] := by
  simp [expectedPaths, emptyHist, allDescendants, descList, expectedOfGens, Hist.gens, Hist.root]

theorem emptyHist_gens : emptyHist.gens = [] := rfl

theorem writeOne_refs_nil (rootHist : Hist) (s : Session) (rn stamp process : String) (cb : Option String)
    (h : Hist) (w : Written) (hw : writeOne rootHist s rn stamp process cb h [] = .ok w) : w.gen.refs = [] := by
  unfold writeOne at hw
  cases hm : (s.get h.root).records.mapM validateRecord with
  | error e => simp [hm, bind, Except.bind] at hw
  | ok recs =>
    simp only [hm, bind, Except.bind, pure, Except.pure, Except.ok.injEq] at hw
    subst hw
    rfl

/-- the entries of a file record of a first generation: one `original` entry per requested format (each once),
sorted by format name -/
def origEntries (env : Env) (c : Bytes) (formats : List String) : List Entry :=
  isort (fun a b => strLe a.fmt b.fmt)
    (((isort strLe formats).foldl appendNew []).map fun f =>
      ({ fmt := f, digest := env.H f c, action := "original" } : Entry))

/-- what the commands need to know about a generation sealed from the tree `t` as seen through `hit` -/
structure SealedGen (env : Env) (t : Node) (hit : RelPath → Bool) (formats : List String) (g : Generation) :
    Prop where
  nodup : (g.records.map (·.path)).Nodup
  paths : ∀ s, s ∈ g.records.map (·.path) ↔ ∃ x ∈ visiblePaths hit t, posix x.1 = s
  prev : ∀ r ∈ g.records, r.prev = none
  files : ∀ p, (p, false) ∈ visiblePaths hit t →
    ∃ r ∈ g.records, r.path = posix p ∧ r.entries = origEntries env (fileContent t p) formats

theorem relabel_original (e : Entry) (h : e.action = "original") : relabel e = e := by
  unfold relabel
  rw [h]
  rfl

theorem first_seal_gen (env : Env) (t : Node) (o : CreateOpts) (hd : t.NamesDistinct) (hn : t.NamesOk)
    (hf : o.formats ≠ []) (w : Written)
    (hw : writeOne emptyHist (cSession env t emptyHist o) env.rootName env.stamp "in-place" none emptyHist [] = .ok w) :
    SealedGen env t (cHit env emptyHist o) o.formats w.gen := by
  have hfm : isort strLe o.formats ≠ [] := by
    intro h0
    have := length_isort strLe o.formats
    rw [h0] at this
    exact hf (List.length_eq_zero_iff.1 this.symm)
  obtain ⟨-, hrecs, -⟩ := writeOne_records _ _ _ _ _ _ _ _ _ hw
  change w.gen.records = ((cSession env t emptyHist o).get []).records.map finalRec at hrecs
  obtain ⟨-, -, -, hfor, hperm, hnodup, hfiles, -⟩ :=
    createVisit_records env t emptyHist rfl rfl hd hn (isort strLe o.formats) hfm o.noDirHashes
      (setPatterns (latestIgnore emptyHist.gens) o.ignoreCli o.ignoreFile) (cHit env emptyHist o)
  change List.Forall₂ _ _ ((cSession env t emptyHist o).get []).records at hfor
  change (((cSession env t emptyHist o).get []).records.map (fun r => (r.path, r.isDir))).Perm _ at hperm
  change (((cSession env t emptyHist o).get []).records.map (·.path)).Nodup at hnodup
  change ∀ p, _ → ∃ r ∈ ((cSession env t emptyHist o).get []).records, _ at hfiles
  have hpaths : w.gen.records.map (·.path) = ((cSession env t emptyHist o).get []).records.map (·.path) := by
    rw [hrecs, List.map_map]
    apply List.map_congr_left
    intro r _
    exact finalRec_path r
  refine ⟨by rw [hpaths]; exact hnodup, ?_, ?_, ?_⟩
  · intro s
    rw [hpaths]
    have h1 : s ∈ ((cSession env t emptyHist o).get []).records.map (·.path) ↔
        s ∈ (((cSession env t emptyHist o).get []).records.map fun r => (r.path, r.isDir)).map (·.1) := by
      simp [List.map_map, Function.comp_def]
    rw [h1, (hperm.map (·.1)).mem_iff]
    simp only [List.map_map, List.mem_map, Function.comp]
  · intro r hr
    rw [hrecs] at hr
    obtain ⟨r0, hr0, rfl⟩ := List.mem_map.1 hr
    obtain ⟨x, -, hrf⟩ := forall₂_mem_right_sv hfor r0 hr0
    rw [finalRec_prev]
    exact hrf.2.2.1
  · intro p hp
    obtain ⟨r0, hr0, hpath, hdir, -, -, hents⟩ := hfiles p hp
    refine ⟨finalRec r0, by rw [hrecs]; exact List.mem_map_of_mem hr0, by rw [finalRec_path, hpath], ?_⟩
    have : emptyHist.gens = [] := rfl
    rw [this, sealEntries_nil] at hents
    unfold finalRec origEntries
    rw [hdir]
    simp only [Bool.false_eq_true, if_false, hents, List.map_map]
    congr 1

/-! ### the entries of a first record -/

def mkOrig (env : Env) (c : Bytes) (f : String) : Entry := { fmt := f, digest := env.H f c, action := "original" }

/-- the format whose entry comes first in a file record of a first generation: the least requested format name -/
def firstFormat (formats : List String) : String := (isort strLe formats).headD ""

theorem mem_origEntries (env : Env) (c : Bytes) (formats : List String) (e : Entry) :
    e ∈ origEntries env c formats ↔ ∃ f ∈ formats, e = mkOrig env c f := by
  unfold origEntries
  rw [mem_isort, List.mem_map]
  constructor
  · rintro ⟨f, hf, rfl⟩
    exact ⟨f, (mem_isort _ _ _).1 ((mem_foldl_appendNew' _ _ _).1 hf |>.resolve_left (by simp)), rfl⟩
  · rintro ⟨f, hf, rfl⟩
    exact ⟨f, (mem_foldl_appendNew' _ _ _).2 (Or.inr ((mem_isort _ _ _).2 hf)), rfl⟩

theorem origEntries_ne_nil (env : Env) (c : Bytes) (formats : List String) (hf : formats ≠ []) :
    origEntries env c formats ≠ [] := by
  obtain ⟨f, hfm⟩ := List.exists_mem_of_ne_nil _ hf
  exact List.ne_nil_of_mem ((mem_origEntries env c formats _).2 ⟨f, hfm, rfl⟩)

theorem origEntries_spec (env : Env) (c : Bytes) (formats : List String) :
    ∀ e ∈ origEntries env c formats, e.action = "original" ∧ e.digest = env.H e.fmt c ∧ e.fmt ∈ formats := by
  intro e he
  obtain ⟨f, hf, rfl⟩ := (mem_origEntries env c formats e).1 he
  exact ⟨rfl, rfl, hf⟩

theorem firstFormat_spec (formats : List String) (hf : formats ≠ []) :
    firstFormat formats ∈ formats ∧ ∀ f ∈ formats, strLe (firstFormat formats) f = true := by
  unfold firstFormat
  have hs := isort_pairwise_d strLe strLe_total strLe_trans formats
  have hm := mem_isort strLe formats
  cases hS : isort strLe formats with
  | nil =>
    have := length_isort strLe formats
    rw [hS] at this
    exact absurd (List.length_eq_zero_iff.1 this.symm) hf
  | cons f0 rest =>
    rw [hS] at hs hm
    simp only [List.headD_cons]
    refine ⟨(hm f0).1 (by simp), ?_⟩
    intro f hfm
    rcases List.mem_cons.1 ((hm f).2 hfm) with rfl | hr
    · rcases strLe_total f f with h | h <;> exact h
    · exact (List.pairwise_cons.1 hs).1 f hr

/-- the first entry of a first record: the `original` entry of the least format name -/
theorem origEntries_head (env : Env) (c : Bytes) (formats : List String) (hf : formats ≠ []) :
    (origEntries env c formats).head? = some (mkOrig env c (firstFormat formats)) := by
  obtain ⟨hin, hle⟩ := firstFormat_spec formats hf
  have hs : (origEntries env c formats).Pairwise (fun a b => strLe a.fmt b.fmt = true) :=
    isort_key_sorted (fun e : Entry => e.fmt) _
  have hne := origEntries_ne_nil env c formats hf
  have hm := mem_origEntries env c formats
  cases hE : origEntries env c formats with
  | nil => exact absurd hE hne
  | cons e0 rest =>
    rw [hE] at hs hm
    obtain ⟨f0', hf0', rfl⟩ := (hm e0).1 (by simp)
    have h1 : strLe f0' (firstFormat formats) = true := by
      rcases List.mem_cons.1 ((hm (mkOrig env c (firstFormat formats))).2 ⟨_, hin, rfl⟩) with h | h
      · have : firstFormat formats = f0' := congrArg Entry.fmt h
        rw [this]
        rcases strLe_total f0' f0' with h | h <;> exact h
      · exact (List.pairwise_cons.1 hs).1 _ h
    have h2 := hle f0' hf0'
    rw [strLe_antisymm _ _ h1 h2]
    rfl

theorem find?_all {α : Type} (p : α → Bool) (l : List α) (h : ∀ x ∈ l, p x = true) : l.find? p = l.head? := by
  cases l with
  | nil => rfl
  | cons a as => simp [h a (by simp)]

theorem origEntries_find_original (env : Env) (c : Bytes) (formats : List String) (hf : formats ≠ []) :
    (origEntries env c formats).find? (fun e => e.action == "original") =
      some (mkOrig env c (firstFormat formats)) := by
  rw [find?_all, origEntries_head env c formats hf]
  intro e he
  simp [(origEntries_spec env c formats e he).1]


end firstSeal

/-! ## G'. the lookups of verify / create over a sealed generation -/

section lookups
open MhlProps.C02rec MhlProps.C04

theorem reverse_find?_unique {α : Type} (l : List α) (pred : α → Bool) (r : α) (hr : r ∈ l)
    (hp : pred r = true) (huniq : ∀ x ∈ l, pred x = true → x = r) : l.reverse.find? pred = some r := by
  cases hf : l.reverse.find? pred with
  | none =>
    have := List.find?_eq_none.1 hf r (List.mem_reverse.2 hr)
    exact absurd hp this
  | some x =>
    have hx : x ∈ l := List.mem_reverse.1 (List.mem_of_find?_eq_some hf)
    have hpx : pred x = true := List.find?_some hf
    rw [huniq x hx hpx]

theorem record_unique {rs : List Record} (hnd : (rs.map (·.path)).Nodup) {a b : Record} (ha : a ∈ rs) (hb : b ∈ rs)
    (h : a.path = b.path) : a = b :=
  List.inj_on_of_nodup_map hnd ha hb h

section sealed
variable {env : Env} {t : Node} {hit : RelPath → Bool} {formats : List String} {g : Generation}

/-- the record of a visible file, as `find_media_hash_for_path` finds it -/
theorem SealedGen.find_file (hs : SealedGen env t hit formats g) (hn : t.NamesOk) (p : RelPath)
    (hp : (p, false) ∈ visiblePaths hit t) :
    ∃ r, g.find (posix p) = some r ∧ r ∈ g.records ∧ r.path = posix p ∧
      r.entries = origEntries env (fileContent t p) formats := by
  obtain ⟨r, hr, hpath, hents⟩ := hs.files p hp
  refine ⟨r, ?_, hr, hpath, hents⟩
  have hdot : posix p ≠ "." := by
    obtain ⟨hne, hok⟩ := visible_names_ok hit t hn (p, false) hp
    exact fun h => hne ((posix_eq_dot hok).1 h)
  unfold Generation.find
  apply reverse_find?_unique
  · exact List.mem_append_right _ hr
  · simp [hpath]
  · intro x hx hpx
    rcases List.mem_append.1 hx with hx | hx
    · exfalso
      cases hrh : g.rootHash with
      | none => simp [hrh] at hx
      | some es =>
        simp only [hrh, List.mem_singleton] at hx
        subst hx
        simp at hpx
        exact hdot hpx.symm
    · have hprev := hs.prev x hx
      simp only [hprev, Bool.or_eq_true, beq_iff_eq, reduceCtorEq, or_false] at hpx
      exact record_unique hs.nodup hx hr (hpx.trans hpath.symm)

/-- no rename is recorded: the recorded name of any path is the path itself -/
theorem SealedGen.recordedName_eq (hs : SealedGen env t hit formats g) (k : Nat) (s : String) :
    recordedName [⟨k, g⟩] s = s := by
  simp only [recordedName, List.foldl_cons, List.foldl_nil]
  cases hf : g.records.find? (fun r => r.path == s) with
  | none => rfl
  | some r =>
    simp only [hs.prev r (List.mem_of_find?_eq_some hf)]
    rfl

/-- the ORIGINAL entry verify compares a visible file with: the entry of the least requested format name, carrying
the digest of the content at seal time -/
theorem SealedGen.findOriginal_eq (hs : SealedGen env t hit formats g) (hn : t.NamesOk) (hf : formats ≠ []) (k : Nat)
    (p : RelPath) (hp : (p, false) ∈ visiblePaths hit t) :
    findOriginal [⟨k, g⟩] (posix p) = some (mkOrig env (fileContent t p) (firstFormat formats)) := by
  obtain ⟨r, hfind, -, -, hents⟩ := hs.find_file hn p hp
  simp only [findOriginal, List.findSome?_cons, hfind, hents,
    origEntries_find_original env _ formats hf]

/-- every recorded digest of a visible file is the digest of its content at seal time -/
theorem SealedGen.firstOk (hs : SealedGen env t hit formats g) (hn : t.NamesOk) (k : Nat)
    (p : RelPath) (hp : (p, false) ∈ visiblePaths hit t) :
    FirstOk (fun f => env.H f (fileContent t p)) [⟨k, g⟩] (posix p) := by
  intro fmt e he
  obtain ⟨r, hfind, -, -, hents⟩ := hs.find_file hn p hp
  simp only [findFirstOfFormat, List.findSome?_cons, hfind, hents] at he
  cases hfe : (origEntries env (fileContent t p) formats).find? (fun e => e.fmt == fmt) with
  | none => simp [hfe] at he
  | some e' =>
    simp only [hfe, Option.some.injEq] at he
    subst he
    have hm := List.mem_of_find?_eq_some hfe
    have hfmt : e'.fmt = fmt := by simpa using List.find?_some hfe
    rw [← hfmt]
    exact (origEntries_spec env _ formats e' hm).2.1

/-- every expected path is a visible path -/
theorem SealedGen.expected (hs : SealedGen env t hit formats g) (hn : t.NamesOk) (k : Nat) (chain : List ChainEntry)
    (e : Bool) (p : RelPath) (hp : p ∈ expectedPaths (.mk [] [⟨k, g⟩] chain e [])) :
    ∃ d, (p, d) ∈ visiblePaths hit t := by
  simp only [expectedPaths, allDescendants, descList, List.foldl_cons, List.foldl_nil, Hist.root, Hist.gens,
    expectedOfGens, List.filter_nil] at hp
  rw [mem_foldl_appendNew'] at hp
  rcases hp with hp | hp
  · cases hp
  · rw [mem_foldl_appendNew (fun r : Record => ([] : RelPath) ++ splitPath r.path)] at hp
    rcases hp with hp | ⟨r, hr, rfl⟩
    · cases hp
    · obtain ⟨x, hx, hxs⟩ := (hs.paths r.path).1 (List.mem_map_of_mem hr)
      obtain ⟨q, d⟩ := x
      refine ⟨d, ?_⟩
      rw [← hxs, List.nil_append, splitPath_posix (visible_names_ok hit t hn _ hx).2]
      exact hx

/-- the verdict of verify (`hashing = true`) / diff (`hashing = false`) on a file that was visible when `g` was
sealed from `t`, judged on ANY tree `t2` against the history holding just `g`: ok unless (verify only) the digest of
the file's content in `t2`, in the LEAST requested format name, differs from the digest of its content in `t` -/
theorem SealedGen.judgeFile_eq (hs : SealedGen env t hit formats g) (hn : t.NamesOk) (hf : formats ≠ [])
    (k : Nat) (chain : List ChainEntry) (ex : Bool) (t2 : Node) (hashing : Bool) (p : RelPath)
    (hp : (p, false) ∈ visiblePaths hit t) :
    judgeFile env t2 (.mk [] [⟨k, g⟩] chain ex []) hashing p =
      if hashing && env.H (firstFormat formats) (fileContent t2 p) !=
          env.H (firstFormat formats) (fileContent t p) then .mismatch else .ok := by
  unfold judgeFile
  rw [route_flat _ rfl p]
  simp only [Hist.gens, hs.recordedName_eq, hs.findOriginal_eq hn hf k p hp, mkOrig]

theorem fileContent_root_hist (rn : String) (cs : List Node) (h h' : Option HistStore) (p : RelPath) :
    fileContent (.dir rn cs h) p = fileContent (.dir rn cs h') p := by
  cases p with
  | nil => simp [fileContent, Node.at?]
  | cons n rest => simp [fileContent, Node.at?_dir_cons]

theorem visiblePaths_root_hist (hit : RelPath → Bool) (rn : String) (cs : List Node) (h h' : Option HistStore) :
    visiblePaths hit (.dir rn cs h) = visiblePaths hit (.dir rn cs h') := by
  unfold visiblePaths
  rw [traverse_dir, traverse_dir]

end sealed

end lookups

/-! ## H. replacing the content of one file -/

section alter
open MhlProps.C02rec MhlProps.C04

/-- replace the content of a file node (folders are left alone) -/
def setContent (c' : Bytes) : Node → Node
  | .file n _ => .file n c'
  | d => d

theorem setContent_name (c' : Bytes) (x : Node) : (setContent c' x).name = x.name := by
  cases x <;> rfl

/-- replacing the content of a file changes neither which entries are folders, nor where `ascmhl` folders are, nor
what the traversal yields -/
theorem updateAt_setContent (c' : Bytes) (hit : RelPath → Bool) : ∀ (p : RelPath) (t : Node),
    (Node.updateAt (setContent c') t p).isDir = t.isDir ∧
    noHist (Node.updateAt (setContent c') t p) = noHist t ∧
    ∀ here, traverse hit here (Node.updateAt (setContent c') t p) = traverse hit here t := by
  intro p
  induction p with
  | nil =>
    intro t
    cases t with
    | file n c => simp [Node.updateAt, setContent, Node.isDir, noHist, traverse]
    | dir n cs h => simp [Node.updateAt, setContent]
  | cons n rest ih =>
    intro t
    cases t with
    | file nm c => simp [Node.updateAt]
    | dir nm cs h =>
      have hk : noHistList (Node.updateKids (setContent c') n rest cs) = noHistList cs ∧
          ∀ here, (Node.updateKids (setContent c') n rest cs).map (kidOf hit here) = cs.map (kidOf hit here) := by
        induction cs with
        | nil => simp [Node.updateKids]
        | cons c cs ihc =>
          simp only [Node.updateKids, noHistList, List.map_cons]
          by_cases hc : (c.name == n) = true
          · simp only [hc, if_true]
            obtain ⟨h1, h2, h3⟩ := ih c
            refine ⟨by rw [h2, ihc.1], fun here => ?_⟩
            rw [ihc.2 here]
            congr 1
            simp only [kidOf, Node.updateAt_name _ (setContent_name c'), h1, h3]
          · simp only [hc, Bool.false_eq_true, if_false]
            exact ⟨by rw [ihc.1], fun here => by rw [ihc.2 here]⟩
      simp only [Node.updateAt, Node.isDir, noHist, hk.1, true_and]
      intro here
      rw [traverse_dir, traverse_dir]
      unfold visKids
      rw [hk.2 here]


theorem updateAt_dir_cons (f : Node → Node) (rn : String) (cs : List Node) (hs : Option HistStore) (n : String)
    (rest : RelPath) :
    Node.updateAt f (.dir rn cs hs) (n :: rest) = .dir rn (Node.updateKids f n rest cs) hs := by
  simp [Node.updateAt]

/-- the content of the altered file is the new content -/
theorem fileContent_updateAt_setContent (c' : Bytes) (t : Node) (p : RelPath) (nm : String) (c : Bytes)
    (h : t.at? p = some (.file nm c)) :
    (Node.updateAt (setContent c') t p).at? p = some (.file nm c') ∧
      fileContent (Node.updateAt (setContent c') t p) p = c' := by
  have := MhlProps.C06.updateAt_at?_self (setContent c') (setContent_name c') t p
  rw [h] at this
  refine ⟨this, ?_⟩
  unfold fileContent
  rw [this]
  rfl

theorem Node.at?_nil (t : Node) : t.at? [] = some t := by cases t <;> rfl

theorem Node.at?_append (t : Node) (a b : RelPath) : t.at? (a ++ b) = (t.at? a).bind (·.at? b) := by
  induction a generalizing t with
  | nil => simp [Node.at?_nil]
  | cons n a ih =>
    cases t with
    | file nm c => simp [Node.at?]
    | dir nm cs h =>
      rw [List.cons_append, Node.at?_dir_cons, Node.at?_dir_cons]
      cases findChild cs n with
      | none => rfl
      | some c => simp [ih c]

/-- nothing lies below a file -/
theorem at?_file_prefix (t : Node) (a b : RelPath) (nm : String) (c : Bytes) (ha : t.at? a = some (.file nm c))
    (hp : a <+: b) (x : Node) (hb : t.at? b = some x) : a = b := by
  obtain ⟨r, rfl⟩ := hp
  rw [Node.at?_append, ha] at hb
  cases r with
  | nil => simp
  | cons m r => simp [Node.at?] at hb

/-- replacing the content of the file at `p` leaves every other file alone -/
theorem updateAt_at?_other_file (f : Node → Node) (hf : ∀ x, (f x).name = x.name) (t : Node) (p q : RelPath)
    (nm : String) (c : Bytes) (nm' : String) (c' : Bytes) (hp : t.at? p = some (.file nm c))
    (hq : t.at? q = some (.file nm' c')) (hne : q ≠ p) :
    (Node.updateAt f t p).at? q = some (.file nm' c') := by
  rw [MhlProps.C06.updateAt_at?_disjoint f hf t p q, hq]
  · exact fun h => hne (at?_file_prefix t p q nm c hp h _ hq).symm
  · exact fun h => hne (at?_file_prefix t q p nm' c' hq h _ hp)

theorem filter_eq_singleton {α : Type} (l : List α) (P : α → Bool) (a : α) (hnd : l.Nodup) (ha : a ∈ l)
    (hP : ∀ x ∈ l, P x = true ↔ x = a) : l.filter P = [a] := by
  induction l with
  | nil => cases ha
  | cons x xs ih =>
    rw [List.nodup_cons] at hnd
    by_cases hx : x = a
    · subst hx
      have h1 : P x = true := (hP x (by simp)).2 rfl
      have h2 : xs.filter P = [] := by
        rw [List.filter_eq_nil_iff]
        intro y hy hPy
        have := (hP y (by simp [hy])).1 hPy
        exact hnd.1 (this ▸ hy)
      simp [h1, h2]
    · have h1 : ¬ P x = true := fun h => hx ((hP x (by simp)).1 h)
      have ha' : a ∈ xs := by
        rcases List.mem_cons.1 ha with h | h
        · exact absurd h.symm hx
        · exact h
      simp only [List.filter_cons, h1]
      exact ih hnd.2 ha' (fun y hy => hP y (by simp [hy]))

/-- the visited files are listed once each -/
theorem visibleFiles_nodup (hit : RelPath → Bool) (t : Node) (hd : t.NamesDistinct) (hn : t.NamesOk) :
    (((visiblePaths hit t).filter fun x => !x.2).map (·.1)).Nodup := by
  have h1 : ((visiblePaths hit t).map (·.1)).Nodup := by
    have := visible_keys_nodup hit t hd hn
    rw [show (fun x : RelPath × Bool => posix x.1) = posix ∘ (·.1) from rfl, ← List.map_map] at this
    exact List.Nodup.of_map _ this
  exact List.Nodup.sublist (List.Sublist.map _ List.filter_sublist) h1

end alter

end MhlModel
