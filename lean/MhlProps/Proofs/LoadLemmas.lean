/-
Lemmas about loading histories (`checkChain`, `loadOne`, `findChildren`, `loadHistory`) for C05, and about the
directory-hash verification helpers (`dhCompare`, `dhVisit`, `dhFormats`, `dhExit`) for C09.
-/
import MhlModel.Commands
import MhlProps.Proofs.SealLemmas
import MhlProps.Proofs.DirHashLemmas

namespace MhlModel

/-! ## the chain check -/

/-- the generation a chain entry names: the first one with that file name -/
def resolve (s : HistStore) (e : ChainEntry) : Option Generation :=
  s.gens.find? (fun g => g.fileName == e.fileName)

/-- one step of `checkChain` (the anonymous function of the fold, named) -/
def chainStep (s : HistStore) (e : ChainEntry) : Except Err Unit :=
  match resolve s e with
  | some g =>
    match g.state with
    | .ok => pure ()
    | .modified => throw errModified
    | .missing => throw errMissingManifest
  | none => throw errMissingManifest

theorem checkChain_eq (s : HistStore) : checkChain s = s.chain.foldlM (fun _ e => chainStep s e) () := rfl

/-- the verdict on one entry -/
def entryFault (s : HistStore) (e : ChainEntry) : Option Err :=
  match resolve s e with
  | some g =>
    match g.state with
    | .ok => none
    | .modified => some errModified
    | .missing => some errMissingManifest
  | none => some errMissingManifest

theorem chainStep_eq (s : HistStore) (e : ChainEntry) :
    chainStep s e = match entryFault s e with | none => .ok () | some x => .error x := by
  unfold chainStep entryFault
  cases resolve s e with
  | none => rfl
  | some g => cases h : g.state <;> simp [h] <;> rfl

theorem entryFault_none_iff (s : HistStore) (e : ChainEntry) :
    entryFault s e = none ↔ ∃ g, resolve s e = some g ∧ g.state = .ok := by
  unfold entryFault
  cases h : resolve s e with
  | none => simp
  | some g => cases hs : g.state <;> simp [hs]

/-- the fold over a list of entries: ok iff no entry is at fault, else the first fault -/
theorem chainFold_spec (s : HistStore) (l : List ChainEntry) :
    l.foldlM (fun _ e => chainStep s e) () =
      match l.findSome? (entryFault s) with
      | none => .ok ()
      | some x => .error x := by
  induction l with
  | nil => rfl
  | cons e es ih =>
    rw [List.foldlM_cons, chainStep_eq, List.findSome?_cons]
    cases h : entryFault s e with
    | none => exact ih
    | some x => rfl

theorem checkChain_spec (s : HistStore) :
    checkChain s = match s.chain.findSome? (entryFault s) with
      | none => .ok ()
      | some x => .error x := by
  rw [checkChain_eq, chainFold_spec]

/-! ## `checkStore`, `loadOne` -/

/-- what is wrong with a store (independent of where it is and of its children) -/
def storeFault : Option HistStore → Option Err
  | none => none
  | some s => if !s.chainPresent then some errNoChain else s.chain.findSome? (entryFault s)

theorem checkStore_spec (store : Option HistStore) :
    checkStore store = match storeFault store with
      | some x => .error x
      | none => .ok () := by
  cases store with
  | none => rfl
  | some s =>
    unfold checkStore storeFault
    cases hc : s.chainPresent with
    | false => simp [hc]; rfl
    | true =>
      simp only [hc, Bool.not_true, Bool.false_eq_true, if_false]
      rw [checkChain_spec]
      cases s.chain.findSome? (entryFault s) <;> rfl

theorem loadOne_spec (here : RelPath) (store : Option HistStore) (kids : List Hist) :
    loadOne here store kids =
      match storeFault store with
      | some x => .error x
      | none => .ok (buildHist here store kids) := by
  unfold loadOne
  rw [checkStore_spec]
  cases storeFault store <;> rfl

/-- the error of an `Except` -/
def exceptErr {ε α : Type} : Except ε α → Option ε
  | .error e => some e
  | .ok _ => none

@[simp] theorem exceptErr_error {ε α : Type} (e : ε) : exceptErr (Except.error e : Except ε α) = some e := rfl
@[simp] theorem exceptErr_ok {ε α : Type} (a : α) : exceptErr (Except.ok a : Except ε α) = none := rfl

theorem exceptErr_eq_some {ε α : Type} (x : Except ε α) (e : ε) : exceptErr x = some e ↔ x = .error e := by
  cases x <;> simp [exceptErr]

theorem exceptErr_eq_none {ε α : Type} (x : Except ε α) : exceptErr x = none ↔ ∃ a, x = .ok a := by
  cases x <;> simp [exceptErr]

theorem checkStore_err (store : Option HistStore) : exceptErr (checkStore store) = storeFault store := by
  rw [checkStore_spec]; cases storeFault store <;> rfl

theorem loadOne_err (here : RelPath) (store : Option HistStore) (kids : List Hist) :
    exceptErr (loadOne here store kids) = storeFault store := by
  rw [loadOne_spec]; cases storeFault store <;> rfl

theorem head?_append_of_ne_nil' {α : Type} (l₁ l₂ : List α) (h : l₁ ≠ []) : (l₁ ++ l₂).head? = l₁.head? := by
  cases l₁ with
  | nil => exact absurd rfl h
  | cons a as => rfl

theorem exceptErr_map {ε α β : Type} (f : α → β) (x : Except ε α) : exceptErr (x.map f) = exceptErr x := by
  cases x <;> rfl

/-- `mapM` over `Except`: the first error in list order -/
theorem exceptErr_mapM {ε α β : Type} (f : α → Except ε β) (l : List α) :
    exceptErr (l.mapM f) = l.findSome? (fun x => exceptErr (f x)) := by
  induction l with
  | nil => rfl
  | cons a as ih =>
    rw [List.mapM_cons, List.findSome?_cons]
    cases hf : f a with
    | error e => rfl
    | ok b =>
      simp only [exceptErr_ok, bind, Except.bind]
      cases hm : as.mapM f with
      | error e => rw [hm] at ih; exact ih
      | ok bs => rw [hm] at ih; exact ih

theorem head?_flatMap {α β : Type} (f : α → List β) (l : List α) :
    (l.flatMap f).head? = l.findSome? (fun x => (f x).head?) := by
  induction l with
  | nil => rfl
  | cons a as ih =>
    rw [List.flatMap_cons, List.findSome?_cons]
    cases hfa : f a with
    | nil => simpa using ih
    | cons b bs => rfl

theorem insertSorted_map {α β : Type} (le₁ : α → α → Bool) (le₂ : β → β → Bool) (f : α → β)
    (h : ∀ a b, le₂ (f a) (f b) = le₁ a b) (a : α) (l : List α) :
    insertSorted le₂ (f a) (l.map f) = (insertSorted le₁ a l).map f := by
  induction l with
  | nil => rfl
  | cons x xs ih =>
    simp only [List.map_cons, insertSorted, h]
    split
    · rfl
    · simp [ih]

theorem isort_map {α β : Type} (le₁ : α → α → Bool) (le₂ : β → β → Bool) (f : α → β)
    (h : ∀ a b, le₂ (f a) (f b) = le₁ a b) (l : List α) :
    isort le₂ (l.map f) = (isort le₁ l).map f := by
  induction l with
  | nil => rfl
  | cons x xs ih => simp only [List.map_cons, isort, ih, insertSorted_map le₁ le₂ f h]

/-! ## nested histories: all faults in walk order -/

/-- the order of the per-child results: by name -/
abbrev keyLe {β : Type} (a b : String × β) : Bool := strLe a.1 b.1

mutual
/-- the faults of the histories strictly below a node, in the order `findChildren` reports them (= the walk order of
the tool): children in NAME order (stable for equal names), for each child first its own store, then what is
below it -/
def nestedFaults : Node → List Err
  | .file _ _ => []
  | .dir _ cs _ => (isort keyLe (nestedFaultsList cs)).flatMap (·.2)
/-- per child (stored order): its name and its faults -/
def nestedFaultsList : List Node → List (String × List Err)
  | [] => []
  | c :: cs => (c.name, (storeFault c.hist).toList ++ nestedFaults c) :: nestedFaultsList cs
end

theorem findSome?_sorted_eq {α β : Type} (l₁ : List (String × α)) (l₂ : List (String × β))
    (g₁ : α → Option Err) (g₂ : β → Option Err)
    (h : l₁.map (fun x => (x.1, g₁ x.2)) = l₂.map (fun x => (x.1, g₂ x.2))) :
    (isort keyLe l₁).findSome? (fun x => g₁ x.2) = (isort keyLe l₂).findSome? (fun x => g₂ x.2) := by
  have e1 : (isort keyLe l₁).findSome? (fun x => g₁ x.2) =
      ((isort keyLe l₁).map (fun x => (x.1, g₁ x.2))).findSome? (fun x : String × Option Err => x.2) := by
    rw [List.findSome?_map]; rfl
  have e2 : (isort keyLe l₂).findSome? (fun x => g₂ x.2) =
      ((isort keyLe l₂).map (fun x => (x.1, g₂ x.2))).findSome? (fun x : String × Option Err => x.2) := by
    rw [List.findSome?_map]; rfl
  have m1 := isort_map keyLe keyLe (fun x : String × α => (x.1, g₁ x.2)) (fun _ _ => rfl) l₁
  have m2 := isort_map keyLe keyLe (fun x : String × β => (x.1, g₂ x.2)) (fun _ _ => rfl) l₂
  rw [e1, e2, ← m1, ← m2, h]

mutual
theorem findChildren_err (here : RelPath) : (t : Node) →
    exceptErr (findChildren here t) = (nestedFaults t).head?
  | .file _ _ => by simp [findChildren, nestedFaults, pure, Except.pure]
  | .dir _ cs _ => by
    have ih := findChildrenList_err here cs
    unfold findChildren nestedFaults
    simp only
    rw [exceptErr_map, exceptErr_mapM, head?_flatMap]
    exact findSome?_sorted_eq _ _ exceptErr List.head? ih
theorem findChildrenList_err (here : RelPath) : (cs : List Node) →
    (findChildrenList here cs).map (fun x => (x.1, exceptErr x.2)) =
      (nestedFaultsList cs).map (fun x => (x.1, x.2.head?))
  | [] => by simp [findChildrenList, nestedFaultsList]
  | c :: cs => by
    have ihr := findChildrenList_err here cs
    have ihc := findChildren_err (here ++ [c.name]) c
    unfold findChildrenList nestedFaultsList
    simp only [List.map_cons, ihr, List.cons.injEq, Prod.mk.injEq, true_and, and_true]
    cases hh : c.hist with
    | none => simpa [storeFault] using ihc
    | some s =>
      simp only
      have hcs := checkStore_err (some s)
      cases hc : checkStore (some s) with
      | error e =>
        rw [hc] at hcs
        simp only [exceptErr_error] at hcs
        simp [bind, Except.bind, ← hcs]
      | ok u =>
        rw [hc] at hcs
        simp only [exceptErr_ok] at hcs
        rw [← hcs]
        simp only [bind, Except.bind, Option.toList, List.nil_append]
        cases hk : findChildren (here ++ [c.name]) c with
        | error e => rw [hk] at ihc; simpa using ihc
        | ok v => rw [hk] at ihc; simpa [pure, Except.pure] using ihc
end

/-- all faults of a tree in the order `loadHistory` reports them: the root's own store first, then the nested
histories in walk order -/
def allFaults (t : Node) : List Err := (storeFault t.hist).toList ++ nestedFaults t

theorem loadHistory_err (t : Node) : exceptErr (loadHistory t) = (allFaults t).head? := by
  unfold loadHistory allFaults
  have h1 := checkStore_err t.hist
  have h2 := findChildren_err [] t
  cases hl : checkStore t.hist with
  | error e =>
    rw [hl] at h1; simp only [exceptErr_error] at h1
    simp [bind, Except.bind, ← h1]
  | ok r =>
    rw [hl] at h1; simp only [exceptErr_ok] at h1
    rw [← h1]
    cases hc : findChildren [] t with
    | error e => rw [hc] at h2; simpa [bind, Except.bind] using h2
    | ok v => rw [hc] at h2; simpa [bind, Except.bind, pure, Except.pure] using h2

/-- on success the loaded root history is `buildHist` of the root store with the children found -/
theorem loadHistory_ok_eq (t : Node) (h : Hist) (hl : loadHistory t = .ok h) :
    ∃ kids, findChildren [] t = .ok kids ∧ h = buildHist [] t.hist kids := by
  unfold loadHistory at hl
  cases hc : checkStore t.hist with
  | error e => simp [hc, bind, Except.bind] at hl
  | ok u =>
    cases hk : findChildren [] t with
    | error e => simp [hc, hk, bind, Except.bind] at hl
    | ok v =>
      simp [hc, hk, bind, Except.bind, pure, Except.pure] at hl
      exact ⟨v, rfl, hl.symm⟩

theorem nestedFaultsList_eq_map (cs : List Node) :
    nestedFaultsList cs = cs.map fun c => (c.name, (storeFault c.hist).toList ++ nestedFaults c) := by
  induction cs with
  | nil => rfl
  | cons c cs ih => simp [nestedFaultsList, ih]

theorem nestedFaultsList_append (l₁ l₂ : List Node) :
    nestedFaultsList (l₁ ++ l₂) = nestedFaultsList l₁ ++ nestedFaultsList l₂ := by
  simp [nestedFaultsList_eq_map]

theorem keyLe_total {β : Type} (a b : String × β) : keyLe a b = true ∨ keyLe b a = true := strLe_total _ _
theorem keyLe_trans {β : Type} (a b c : String × β) (h₁ : keyLe a b = true) (h₂ : keyLe b c = true) :
    keyLe a c = true := strLe_trans _ _ _ h₁ h₂

/-! ## trees without nested histories -/

mutual
/-- no `ascmhl` folder at or below the node -/
def noHist : Node → Bool
  | .file _ _ => true
  | .dir _ cs h => h.isNone && noHistList cs
def noHistList : List Node → Bool
  | [] => true
  | c :: cs => noHist c && noHistList cs
end

theorem flatMap_isort_nil {β : Type} (l : List (String × List β)) (h : ∀ x ∈ l, x.2 = []) :
    (isort keyLe l).flatMap (·.2) = [] := by
  rw [List.flatMap_eq_nil_iff]
  intro x hx
  exact h x ((mem_isort_d _ _ _).1 hx)

mutual
theorem nestedFaults_noHist : (t : Node) → noHist t = true → nestedFaults t = [] ∧ storeFault t.hist = none
  | .file _ _, _ => by simp [nestedFaults, Node.hist, storeFault]
  | .dir _ cs h, hn => by
    simp only [noHist, Bool.and_eq_true, Option.isNone_iff_eq_none] at hn
    obtain ⟨rfl, hcs⟩ := hn
    refine ⟨?_, rfl⟩
    rw [nestedFaults]
    exact flatMap_isort_nil _ (nestedFaultsList_noHist cs hcs)
theorem nestedFaultsList_noHist : (cs : List Node) → noHistList cs = true →
    ∀ x ∈ nestedFaultsList cs, x.2 = []
  | [], _ => by simp [nestedFaultsList]
  | c :: cs, hn => by
    simp only [noHistList, Bool.and_eq_true] at hn
    have h1 := nestedFaults_noHist c hn.1
    have h2 := nestedFaultsList_noHist cs hn.2
    intro x hx
    rw [nestedFaultsList, List.mem_cons] at hx
    rcases hx with rfl | hx
    · simp [h1.1, h1.2]
    · exact h2 x hx
end

theorem noHistList_iff (cs : List Node) : noHistList cs = true ↔ ∀ c ∈ cs, noHist c = true := by
  induction cs with
  | nil => simp [noHistList]
  | cons c cs ih => simp [noHistList, ih]

/-- a single faulty child among fault-free siblings: its faults are those of the folder, wherever it is listed -/
theorem flatMap_isort_single {β : Type} (pre post : List (String × List β)) (p : String × List β)
    (hpre : ∀ x ∈ pre, x.2 = []) (hpost : ∀ x ∈ post, x.2 = []) :
    (isort keyLe (pre ++ p :: post)).flatMap (·.2) = p.2 := by
  classical
  generalize hL : isort keyLe (pre ++ p :: post) = L
  have hperm : L.Perm (pre ++ p :: post) := hL ▸ isort_perm_d _ _
  have hothers : ∀ x ∈ pre ++ post, x.2 = [] := by
    intro x hx
    rcases List.mem_append.1 hx with h | h
    · exact hpre x h
    · exact hpost x h
  have hperm' : L.Perm (p :: (pre ++ post)) := hperm.trans List.perm_middle
  generalize pre ++ post = R at hothers hperm'
  clear hL hperm
  induction L generalizing R with
  | nil => exact absurd hperm'.length_eq (by simp)
  | cons x xs ih =>
    have hx : x ∈ p :: R := hperm'.subset List.mem_cons_self
    rw [List.flatMap_cons]
    by_cases hxp : x = p
    · subst hxp
      have : xs.Perm R := List.Perm.cons_inv hperm'
      have hnil : xs.flatMap (·.2) = [] := by
        rw [List.flatMap_eq_nil_iff]
        intro y hy; exact hothers y (this.subset hy)
      rw [hnil, List.append_nil]
    · have hxR : x ∈ R := by
        rcases List.mem_cons.1 hx with h | h
        · exact absurd h hxp
        · exact h
      rw [hothers x hxR, List.nil_append]
      have hp2 : xs.Perm (p :: R.erase x) := by
        have h1 : (x :: xs).Perm (x :: p :: R.erase x) :=
          hperm'.trans ((List.Perm.cons p (List.perm_cons_erase hxR)).trans (List.Perm.swap x p _))
        exact List.Perm.cons_inv h1
      exact ih (R.erase x) (fun y hy => hothers y (List.mem_of_mem_erase hy)) hp2

/-- in a list sorted by name the first fault is that of `p` when every other element is fault free or has a strictly
greater name -/
theorem findSome?_sorted_first {α β : Type} (le : α → α → Bool) (g : α → Option β) (L : List α) (p : α)
    (hs : L.Pairwise (fun a b => le a b = true)) (hp : p ∈ L) (hgp : g p ≠ none)
    (hothers : ∀ q ∈ L, q = p ∨ g q = none ∨ le q p = false) : L.findSome? g = g p := by
  induction L with
  | nil => cases hp
  | cons q qs ih =>
    rw [List.findSome?_cons]
    rw [List.pairwise_cons] at hs
    cases hq : g q with
    | none =>
      have hne : q ≠ p := fun h => hgp (h ▸ hq)
      have hp' : p ∈ qs := by
        rcases List.mem_cons.1 hp with h | h
        · exact absurd h.symm hne
        · exact h
      exact ih hs.2 hp' (fun r hr => hothers r (List.mem_cons_of_mem _ hr))
    | some y =>
      rcases hothers q List.mem_cons_self with h | h | h
      · rw [← h, hq]
      · rw [hq] at h; cases h
      · rcases List.mem_cons.1 hp with h' | h'
        · rw [h', hq]
        · rw [hs.1 p h'] at h; cases h

/-- every fault is one of the three chain errors -/
theorem storeFault_kind (o : Option HistStore) (e : Err) (h : storeFault o = some e) :
    e = errModified ∨ e = errMissingManifest ∨ e = errNoChain := by
  cases o with
  | none => simp [storeFault] at h
  | some s =>
    unfold storeFault at h
    cases hc : s.chainPresent with
    | false => simp [hc] at h; exact Or.inr (Or.inr h.symm)
    | true =>
      simp only [hc, Bool.not_true, Bool.false_eq_true, if_false] at h
      obtain ⟨c, _, hc⟩ := List.exists_of_findSome?_eq_some h
      unfold entryFault at hc
      split at hc
      · split at hc
        · cases hc
        · cases hc; exact Or.inl rfl
        · cases hc; exact Or.inr (Or.inl rfl)
      · cases hc; exact Or.inr (Or.inl rfl)

mutual
theorem nestedFaults_kind : (t : Node) → ∀ e ∈ nestedFaults t,
    e = errModified ∨ e = errMissingManifest ∨ e = errNoChain
  | .file _ _ => by simp [nestedFaults]
  | .dir _ cs _ => by
    intro e he
    rw [nestedFaults, List.mem_flatMap] at he
    obtain ⟨x, hx, hex⟩ := he
    exact nestedFaultsList_kind cs x ((mem_isort_d _ _ _).1 hx) e hex
theorem nestedFaultsList_kind : (cs : List Node) → ∀ x ∈ nestedFaultsList cs, ∀ e ∈ x.2,
    e = errModified ∨ e = errMissingManifest ∨ e = errNoChain
  | [] => by simp [nestedFaultsList]
  | c :: cs => by
    intro x hx e he
    rw [nestedFaultsList, List.mem_cons] at hx
    rcases hx with rfl | hx
    · simp only [List.mem_append, Option.mem_toList] at he
      rcases he with h | h
      · exact storeFault_kind _ e h
      · exact nestedFaults_kind c e h
    · exact nestedFaultsList_kind cs x hx e he
end

theorem allFaults_kind (t : Node) : ∀ e ∈ allFaults t,
    e = errModified ∨ e = errMissingManifest ∨ e = errNoChain := by
  intro e he
  simp only [allFaults, List.mem_append, Option.mem_toList] at he
  rcases he with h | h
  · exact storeFault_kind _ e h
  · exact nestedFaults_kind t e h

end MhlModel

/-! ## `verify -dh` (C09) -/

namespace MhlModel

/-- one step of `dhCompare` (the anonymous function of the fold, named) -/
def dhStep (fmts : List String) (count : Bool) (label : String) (computed : List (String × String × String))
    (st : DhState) (e : Entry) : DhState :=
  if !fmts.contains e.fmt then st
  else match computed.find? (fun x => x.1 == e.fmt) with
    | some (_, c', s') =>
      if compareDir e c' s' == 1 then
        { st with failedFormats := if count then appendNew st.failedFormats e.fmt else st.failedFormats,
                  dirMismatch := if count || label == "." then appendNew st.dirMismatch label else st.dirMismatch }
      else st
    | none => st

theorem dhCompare_eq (fmts : List String) (count : Bool) (label : String)
    (computed : List (String × String × String)) (st : DhState) (recorded : List Entry) :
    dhCompare fmts count label computed st recorded = recorded.foldl (dhStep fmts count label computed) st := rfl

/-- a recorded entry that is in a computed format, has a computed counterpart (first match) and differs from it -/
def mismatches (fmts : List String) (computed : List (String × String × String)) (e : Entry) : Bool :=
  fmts.contains e.fmt &&
    match computed.find? (fun x => x.1 == e.fmt) with
    | some (_, c', s') => compareDir e c' s' == 1
    | none => false

theorem mismatches_iff (fmts : List String) (computed : List (String × String × String)) (e : Entry) :
    mismatches fmts computed e = true ↔
      e.fmt ∈ fmts ∧ ∃ c' s', computed.find? (fun x => x.1 == e.fmt) = some (e.fmt, c', s') ∧
        compareDir e c' s' = 1 := by
  unfold mismatches
  cases h : computed.find? (fun x => x.1 == e.fmt) with
  | none => simp
  | some x =>
    obtain ⟨k, c', s'⟩ := x
    have hk : k = e.fmt := by simpa using List.find?_some h
    subst hk
    simp only [Bool.and_eq_true, List.contains_eq_mem, decide_eq_true_eq, beq_iff_eq, Option.some.injEq,
      Prod.mk.injEq, true_and]
    constructor
    · rintro ⟨h1, h2⟩; exact ⟨h1, c', s', ⟨rfl, rfl⟩, h2⟩
    · rintro ⟨h1, c'', s'', ⟨rfl, rfl⟩, h2⟩; exact ⟨h1, h2⟩

theorem dhStep_failed (fmts : List String) (count : Bool) (label : String)
    (computed : List (String × String × String)) (st : DhState) (e : Entry) :
    (dhStep fmts count label computed st e).failedFormats =
      if count && mismatches fmts computed e then appendNew st.failedFormats e.fmt else st.failedFormats := by
  unfold dhStep mismatches
  cases hf : fmts.contains e.fmt with
  | false => simp
  | true =>
    simp only [Bool.not_true, Bool.false_eq_true, if_false, Bool.true_and]
    cases hc : computed.find? (fun x => x.1 == e.fmt) with
    | none => simp
    | some x =>
      obtain ⟨k, c', s'⟩ := x
      simp only
      by_cases hcmp : compareDir e c' s' = 1
      · cases count <;> simp [hcmp]
      · simp [hcmp]

theorem dhStep_dirHashes (fmts : List String) (count : Bool) (label : String)
    (computed : List (String × String × String)) (st : DhState) (e : Entry) :
    (dhStep fmts count label computed st e).dirHashes = st.dirHashes ∧
    (dhStep fmts count label computed st e).lines = st.lines := by
  unfold dhStep
  split
  · exact ⟨rfl, rfl⟩
  · split
    · split <;> exact ⟨rfl, rfl⟩
    · exact ⟨rfl, rfl⟩

theorem dhCompare_dirHashes (fmts : List String) (count : Bool) (label : String)
    (computed : List (String × String × String)) (st : DhState) (recorded : List Entry) :
    (dhCompare fmts count label computed st recorded).dirHashes = st.dirHashes ∧
    (dhCompare fmts count label computed st recorded).lines = st.lines := by
  rw [dhCompare_eq]
  induction recorded generalizing st with
  | nil => exact ⟨rfl, rfl⟩
  | cons e es ih =>
    rw [List.foldl_cons]
    have := dhStep_dirHashes fmts count label computed st e
    exact ⟨(ih _).1.trans this.1, (ih _).2.trans this.2⟩

/-- the failed formats after `dhCompare`: the formats of the mismatching entries appended (once each), if counting -/
theorem dhCompare_failed (fmts : List String) (count : Bool) (label : String)
    (computed : List (String × String × String)) (st : DhState) (recorded : List Entry) :
    (dhCompare fmts count label computed st recorded).failedFormats =
      if count then ((recorded.filter (mismatches fmts computed)).foldl (fun a e => appendNew a e.fmt)
        st.failedFormats) else st.failedFormats := by
  rw [dhCompare_eq]
  induction recorded generalizing st with
  | nil => simp
  | cons e es ih =>
    rw [List.foldl_cons, ih, dhStep_failed]
    cases count with
    | false => simp
    | true =>
      simp only [Bool.true_and, if_true, List.filter_cons]
      cases mismatches fmts computed e <;> simp

/-- comparing generation by generation is comparing all their entries in order -/
theorem foldl_dhCompare (fmts : List String) (count : Bool) (label : String)
    (computed : List (String × String × String)) {α : Type} (f : α → List Entry) (l : List α) (st : DhState) :
    l.foldl (fun (st : DhState) g => dhCompare fmts count label computed st (f g)) st =
      dhCompare fmts count label computed st (l.flatMap f) := by
  induction l generalizing st with
  | nil => rfl
  | cons a as ih =>
    rw [List.foldl_cons, ih, List.flatMap_cons, dhCompare_eq, dhCompare_eq, dhCompare_eq, List.foldl_append]

/-- failed formats are computed formats, each listed once -/
def DhInv (fmts : List String) (st : DhState) : Prop :=
  st.failedFormats.Nodup ∧ ∀ f ∈ st.failedFormats, f ∈ fmts

theorem dhInv_init (fmts : List String) : DhInv fmts ({} : DhState) := by
  constructor <;> simp

theorem dhCompare_inv (fmts : List String) (count : Bool) (label : String)
    (computed : List (String × String × String)) (st : DhState) (recorded : List Entry) (h : DhInv fmts st) :
    DhInv fmts (dhCompare fmts count label computed st recorded) := by
  unfold DhInv
  rw [dhCompare_failed]
  cases count with
  | false => exact h
  | true =>
    simp only [if_true]
    refine ⟨nodup_foldl_appendNew _ _ _ h.1, ?_⟩
    intro f hf
    rw [mem_foldl_appendNew] at hf
    rcases hf with hf | ⟨e, he, rfl⟩
    · exact h.2 f hf
    · rw [List.mem_filter, mismatches_iff] at he
      exact he.2.1

theorem foldl_invariant {α β : Type} (P : β → Prop) (f : β → α → β) (l : List α) (b : β)
    (h0 : P b) (hstep : ∀ b a, P b → P (f b a)) : P (l.foldl f b) := by
  induction l generalizing b with
  | nil => exact h0
  | cons a as ih => exact ih _ (hstep b a h0)

theorem dhVisit_inv (env : Env) (t : Node) (rootHist : Hist) (fmts : List String) (o : DhOpts) (st : DhState)
    (v : Visit) (h : DhInv fmts st) : DhInv fmts (dhVisit env t rootHist fmts o st v) := by
  unfold dhVisit
  simp only
  generalize hX : List.foldl _ _ v.children = X
  have hinv : DhInv fmts X.1 := by
    rw [← hX]
    apply foldl_invariant (fun acc : DhState × List (String × DirCtx) => DhInv fmts acc.1)
    · exact h
    · rintro ⟨st', ctx'⟩ ch hacc
      simp only at hacc ⊢
      split
      · split
        · exact hacc
        · exact dhCompare_inv _ _ _ _ _ _ hacc
      · exact hacc
  obtain ⟨st', ctx'⟩ := X
  simp only at hinv ⊢
  split <;> exact hinv

theorem dhFoldVisits_inv (env : Env) (t : Node) (rootHist : Hist) (fmts : List String) (o : DhOpts)
    (vs : List Visit) (st : DhState) (h : DhInv fmts st) :
    DhInv fmts (vs.foldl (dhVisit env t rootHist fmts o) st) :=
  foldl_invariant (DhInv fmts) _ vs st h (fun b a hb => dhVisit_inv env t rootHist fmts o b a hb)

/-- the state `verify -dh` reaches after the traversal, before the root folder is compared -/
def dhFold (env : Env) (t : Node) (rootHist : Hist) (o : DhOpts) : DhState :=
  (traverse (env.hit (setPatterns (latestIgnore rootHist.gens) o.ignoreCli o.ignoreFile)) [] t).foldl
    (dhVisit env t rootHist (dhFormats rootHist o.format) o) ({} : DhState)

theorem dhFold_inv (env : Env) (t : Node) (rootHist : Hist) (o : DhOpts) :
    DhInv (dhFormats rootHist o.format) (dhFold env t rootHist o) :=
  dhFoldVisits_inv _ _ _ _ _ _ _ (dhInv_init _)

/-- all root-hash entries of all generations, in order -/
def allRootEntries (h : Hist) : List Entry := h.gens.flatMap fun g => g.gen.rootHash.getD []

/-- the root hashes `verify -dh` computed -/
def dhRootHashes (env : Env) (t : Node) (rootHist : Hist) (o : DhOpts) : List (String × String × String) :=
  (alookup ([] : RelPath) (dhFold env t rootHist o).dirHashes).getD []

/-- the final state of `verify -dh` -/
def dhFinal (env : Env) (t : Node) (rootHist : Hist) (o : DhOpts) : DhState :=
  dhCompare (dhFormats rootHist o.format) (!o.rootOnly) "." (dhRootHashes env t rootHist o)
    (dhFold env t rootHist o) (allRootEntries rootHist)

theorem verifyDh_ok (env : Env) (t : Node) (o : DhOpts) (h : Hist) (hl : loadHistory t = .ok h) :
    verifyDh env t o =
      { err := dhExit (dhFormats h o.format) (dhFinal env t h o).failedFormats,
        report := { dirMismatch := (dhFinal env t h o).dirMismatch, lines := (dhFinal env t h o).lines } } := by
  unfold verifyDh
  simp only [hl]
  rw [foldl_dhCompare]
  rfl

/-! ### the formats -/

/-- the formats occurring in root hashes, in order of first occurrence -/
def rootFmts (gens : List LGen) : List String :=
  gens.foldl (fun acc g => (g.gen.rootHash.getD []).foldl (fun a e => appendNew a e.fmt) acc) []

theorem rootFmts_aux (gens : List LGen) (acc : List String) (hacc : acc.Nodup) :
    (gens.foldl (fun acc g => (g.gen.rootHash.getD []).foldl (fun a e => appendNew a e.fmt) acc) acc).Nodup ∧
    ∀ f, f ∈ gens.foldl (fun acc g => (g.gen.rootHash.getD []).foldl (fun a e => appendNew a e.fmt) acc) acc ↔
      f ∈ acc ∨ ∃ g ∈ gens, ∃ e ∈ g.gen.rootHash.getD [], e.fmt = f := by
  induction gens generalizing acc with
  | nil => simp [hacc]
  | cons g gs ih =>
    rw [List.foldl_cons]
    have := ih _ (nodup_foldl_appendNew (fun e : Entry => e.fmt) (g.gen.rootHash.getD []) acc hacc)
    refine ⟨this.1, fun f => ?_⟩
    rw [this.2 f, mem_foldl_appendNew]
    constructor
    · rintro ((h | ⟨e, he, rfl⟩) | ⟨g', hg', e, he, rfl⟩)
      · exact Or.inl h
      · exact Or.inr ⟨g, List.mem_cons_self, e, he, rfl⟩
      · exact Or.inr ⟨g', List.mem_cons_of_mem _ hg', e, he, rfl⟩
    · rintro (h | ⟨g', hg', e, he, rfl⟩)
      · exact Or.inl (Or.inl h)
      · rcases List.mem_cons.1 hg' with rfl | hg'
        · exact Or.inl (Or.inr ⟨e, he, rfl⟩)
        · exact Or.inr ⟨g', hg', e, he, rfl⟩

theorem rootFmts_nodup (gens : List LGen) : (rootFmts gens).Nodup := (rootFmts_aux gens [] (by simp)).1

theorem mem_rootFmts (gens : List LGen) (f : String) :
    f ∈ rootFmts gens ↔ ∃ g ∈ gens, ∃ e ∈ g.gen.rootHash.getD [], e.fmt = f := by
  have := (rootFmts_aux gens [] (by simp)).2 f
  unfold rootFmts
  simpa using this

theorem dhFormats_none (h : Hist) :
    dhFormats h none = isort strLe (if (rootFmts h.gens).isEmpty then ["c4"] else rootFmts h.gens) := rfl

theorem dhFormats_some (h : Hist) (f : String) : dhFormats h (some f) = [f] := rfl

theorem dhFormats_nodup (h : Hist) (fo : Option String) : (dhFormats h fo).Nodup := by
  cases fo with
  | some f => simp [dhFormats_some]
  | none =>
    rw [dhFormats_none]
    refine (isort_perm_d strLe _).nodup_iff.2 ?_
    split
    · simp
    · exact rootFmts_nodup _

theorem dhFormats_sorted (h : Hist) (fo : Option String) : (dhFormats h fo).Pairwise (· ≤ ·) := by
  unfold dhFormats
  exact isort_strLe_sorted _

theorem dhFormats_ne_nil (h : Hist) (fo : Option String) : dhFormats h fo ≠ [] := by
  cases fo with
  | some f => simp [dhFormats_some]
  | none =>
    rw [dhFormats_none]
    intro h0
    have := length_isort_d strLe (if (rootFmts h.gens).isEmpty then ["c4"] else rootFmts h.gens)
    rw [h0] at this
    split at this
    · simp at this
    · next hne =>
      simp only [List.length_nil] at this
      exact hne (by simpa using List.eq_nil_of_length_eq_zero this.symm)

/-- without `-h`: exactly the formats occurring in a root hash of some generation (when there is one) -/
theorem mem_dhFormats_none (h : Hist) (hne : rootFmts h.gens ≠ []) (f : String) :
    f ∈ dhFormats h none ↔ ∃ g ∈ h.gens, ∃ e ∈ g.gen.rootHash.getD [], e.fmt = f := by
  rw [dhFormats_none, mem_isort_d]
  have : (rootFmts h.gens).isEmpty = false := by
    cases hh : rootFmts h.gens <;> simp_all
  simp only [this, Bool.false_eq_true, if_false]
  exact mem_rootFmts _ f

/-! ### the exit decision -/

theorem foldl_appendNew_nodup {α : Type} [DecidableEq α] (l acc : List α) :
    (l.foldl appendNew acc).Nodup ↔ acc.Nodup := by
  induction l generalizing acc with
  | nil => simp
  | cons a as ih =>
    rw [List.foldl_cons, ih]
    unfold appendNew
    split
    · rfl
    · next hx =>
      rw [List.nodup_append]
      simp only [List.nodup_cons, List.not_mem_nil, not_false_eq_true, List.nodup_nil, and_self, List.mem_cons,
        or_false, ne_eq, forall_eq, true_and]
      constructor
      · exact fun h => h.1
      · exact fun h => ⟨h, fun x hx' hxa => hx (hxa ▸ hx')⟩

theorem mem_foldl_appendNew' {α : Type} [DecidableEq α] (l acc : List α) (y : α) :
    y ∈ l.foldl appendNew acc ↔ y ∈ acc ∨ y ∈ l := by
  have := mem_foldl_appendNew (fun x : α => x) l acc y
  simpa using this

/-- `fmts.foldl appendNew []` is `fmts` without its duplicates -/
theorem dedup_spec (fmts : List String) :
    (fmts.foldl appendNew []).Nodup ∧ ∀ f, f ∈ fmts.foldl appendNew [] ↔ f ∈ fmts := by
  refine ⟨(foldl_appendNew_nodup fmts []).2 (by simp), fun f => ?_⟩
  simpa using mem_foldl_appendNew' fmts [] f

theorem foldl_appendNew_of_nodup {α : Type} [DecidableEq α] (l acc : List α) (h : (acc ++ l).Nodup) :
    l.foldl appendNew acc = acc ++ l := by
  induction l generalizing acc with
  | nil => simp
  | cons a as ih =>
    rw [List.foldl_cons]
    have ha : a ∉ acc := by
      intro hin
      rw [List.nodup_append] at h
      exact h.2.2 a hin a List.mem_cons_self rfl
    have : appendNew acc a = acc ++ [a] := by simp [appendNew, ha]
    rw [this, ih _ (by simpa using h)]
    simp

end MhlModel
