/-
Lemmas for C17detect: what the double loop of `detectRenames` (`create -dr`) really does on a FLAT history
(`rootHist.children = []`).

A. named pieces of the inner step (`holderOf`, `digestFor`, `matchesB`, `setPrevIn`, `setPrevOf`, `drStep`) and
   `detectRenames_eq_flat`
B. erasing the previous paths (`eraseSess`): `setPrevOf` changes nothing else, and whether a pair (new, old) matches
   does not depend on previous paths
C. the exact result of the double loop (`detectRenames_pairs`)
D. the previous path of the record of a new path after a run of `setPrevOf` (`holderOf_foldl_setPrev`)
…
G. (D19) the order of the not-found paths, histories with nested histories allowed: the inner step named
   (`drStepG`, `matchesG`, `setPrevG`), what the writes leave alone (`SameHolders`), the inner loop sees only the
   matching paths (`inner_loop_G`), `detectRenames_congr_filter`, `detectRenames_notFound_perm`
-/
import MhlProps.C17
import MhlProps.Proofs.SealVerifyLemmas

namespace MhlModel

/-! ## A. named pieces -/

/-- the record of the new path `np` in the session: the first list (in insertion order) whose root is a prefix of
`np` and that has a record for the rest of the path (the anonymous `holder` of `detectRenames`) -/
def holderOf (s : Session) (np : RelPath) : Option (NewList × Record) :=
  s.lists.findSome? fun l =>
    if isPrefixOf l.root np then (l.find (posix (np.drop l.root.length))).map fun r => (l, r) else none

/-- the digest `detectRenames` compares for the new path `np` in format `fmt`: the one its record of this run
carries in that format, else the digest of the file's content computed now (nothing if `np` is not a file) -/
def digestFor (env : Env) (t : Node) (np : RelPath) (entries : List Entry) (fmt : String) : Option String :=
  match entries.find? (fun e => e.fmt == fmt) with
  | some e => some e.digest
  | none =>
    match t.at? np with
    | some (.file _ c) => some (env.H fmt c)
    | _ => none

/-- the entries of the record of `np` in the session -/
def holderEntries (s : Session) (np : RelPath) : Option (List Entry) := (holderOf s np).map (·.2.entries)

/-- the digest of the new path `np` in format `fmt`, as `detectRenames` takes it -/
def newDigest (env : Env) (t : Node) (s : Session) (np : RelPath) (fmt : String) : Option String :=
  (holderEntries s np).bind fun es => digestFor env t np es fmt

/-- does the pair (new path, not-found path) count as a rename: the first entry recorded for the old path and the
digest of the new path in that entry's format are equal -/
def matchesB (env : Env) (t : Node) (gens : List LGen) (s : Session) (np nf : RelPath) : Bool :=
  match findFirstAny gens (posix nf) with
  | none => false
  | some oldE => newDigest env t s np oldE.fmt == some oldE.digest

/-- `setPrev` of `detectRenames` on a flat history (there is no parent history, so a root record "." is left
alone): every record of the list `l` with the path of `r` gets the previous path `old` -/
def setPrevIn (s : Session) (l : NewList) (r : Record) (old : String) : Session :=
  if r.path == "." then s
  else s.put { l with records := l.records.map fun x => if x.path == r.path then { x with prev := some old } else x }

/-- set the previous path of the record of `np` -/
def setPrevOf (s : Session) (np : RelPath) (old : String) : Session :=
  match holderOf s np with
  | none => s
  | some (l, r) => setPrevIn s l r old

/-- the inner step of `detectRenames` on a flat history -/
def drStep (env : Env) (t : Node) (gens : List LGen) (np : RelPath)
    (acc : Session × List RelPath × List (String × String)) (nf : RelPath) :
    Session × List RelPath × List (String × String) :=
  if matchesB env t gens acc.1 np nf then
    (setPrevOf acc.1 np (posix nf), appendNew acc.2.1 nf, acc.2.2 ++ [(posix nf, posix np)])
  else acc

theorem detectRenames_eq_flat (env : Env) (t : Node) (rootHist : Hist) (hc : rootHist.children = [])
    (s : Session) (newPaths notFound : List RelPath) :
    detectRenames env t rootHist s newPaths notFound =
      newPaths.foldl (fun acc np => notFound.foldl (drStep env t rootHist.gens np) acc) (s, [], []) := by
  unfold detectRenames
  congr 1
  funext acc np
  congr 1
  funext acc nf
  obtain ⟨s, fo, ren⟩ := acc
  simp only [route_flat rootHist hc, parentRoot_flat rootHist hc]
  unfold drStep matchesB newDigest holderEntries setPrevOf
  cases hff : findFirstAny rootHist.gens (posix nf) with
  | none => simp
  | some oldE =>
    simp only
    change (match holderOf s np with
      | none => (s, fo, ren)
      | some (l, r) => _) = _
    cases hh : holderOf s np with
    | none => simp
    | some x =>
      obtain ⟨l, r⟩ := x
      simp only [Option.map_some, Option.bind_some]
      unfold digestFor setPrevIn
      cases hfe : r.entries.find? (fun e => e.fmt == oldE.fmt) with
      | some e =>
        by_cases hd : e.digest = oldE.digest <;> simp [hd]
      | none =>
        simp only
        cases hat : t.at? np with
        | none => simp
        | some n =>
          cases n with
          | dir _ _ _ => simp
          | file nm c =>
            by_cases hd : env.H oldE.fmt c = oldE.digest <;> simp [hd]

/-! ## B. erasing the previous paths -/

def eraseRec (r : Record) : Record := { r with prev := none }

/-- the list with the previous paths of its records erased (the root record is left as it is) -/
def eraseList (l : NewList) : NewList := { l with records := l.records.map eraseRec }

def eraseSess (s : Session) : Session := { s with lists := s.lists.map eraseList }

/-- the roots of the lists of a session are pairwise different (an invariant of `touch` / `put`, which key the
lists by root; `Session.put` overwrites EVERY list with the root of the given one) -/
def Session.RootsNodup (s : Session) : Prop := (s.lists.map (·.root)).Nodup

theorem eraseSess_roots (s : Session) : (eraseSess s).lists.map (·.root) = s.lists.map (·.root) := by
  simp [eraseSess, eraseList, List.map_map, Function.comp_def]

theorem rootsNodup_of_erase {s s' : Session} (h : eraseSess s' = eraseSess s) (hs : s.RootsNodup) :
    s'.RootsNodup := by
  unfold Session.RootsNodup at *
  rw [← eraseSess_roots, h, eraseSess_roots]
  exact hs

theorem Session.Flat.rootsNodup {s : Session} (h : s.Flat) : s.RootsNodup := by
  rcases h with h | ⟨nl, h, -⟩ <;> simp [Session.RootsNodup, h]

theorem find?_map_path (rs : List Record) (m : Record → Record) (hm : ∀ x, (m x).path = x.path) (k : String) :
    (rs.map m).find? (fun r => r.path == k) = (rs.find? (fun r => r.path == k)).map m := by
  rw [List.find?_map]
  have : ((fun r : Record => r.path == k) ∘ m) = fun r => r.path == k := by
    funext x; simp [hm]
  rw [this]

/-- what `detectRenames` reads of the record of a new path: root of its list, its path, its entries -/
def holderInfo (s : Session) (np : RelPath) : Option (RelPath × String × List Entry) :=
  (holderOf s np).map fun x => (x.1.root, x.2.path, x.2.entries)

theorem eraseList_find (l : NewList) (k : String) :
    ((eraseList l).find k).map (fun r => (r.path, r.entries)) = (l.find k).map (fun r => (r.path, r.entries)) := by
  unfold NewList.find eraseList
  split
  · rfl
  · simp only
    rw [find?_map_path _ eraseRec (fun _ => rfl), Option.map_map]
    rfl

theorem holderInfo_erase (s : Session) (np : RelPath) : holderInfo (eraseSess s) np = holderInfo s np := by
  unfold holderInfo holderOf eraseSess
  simp only
  induction s.lists with
  | nil => rfl
  | cons l ls ih =>
    simp only [List.map_cons, List.findSome?_cons]
    have hroot : (eraseList l).root = l.root := rfl
    rw [hroot]
    by_cases hp : isPrefixOf l.root np = true
    · simp only [hp, if_true]
      have hf := eraseList_find l (posix (np.drop l.root.length))
      cases h1 : (eraseList l).find (posix (np.drop l.root.length)) with
      | none =>
        rw [h1] at hf
        cases h2 : l.find (posix (np.drop l.root.length)) with
        | none => simpa using ih
        | some r2 => rw [h2] at hf; cases hf
      | some r1 =>
        rw [h1] at hf
        cases h2 : l.find (posix (np.drop l.root.length)) with
        | none => rw [h2] at hf; cases hf
        | some r2 =>
          rw [h2] at hf
          simp only [Option.map_some, Option.some.injEq, Prod.mk.injEq] at hf
          simp [hroot, hf.1, hf.2]
    · simp only [hp]
      simpa using ih

theorem holderInfo_congr {s s' : Session} (h : eraseSess s' = eraseSess s) (np : RelPath) :
    holderInfo s' np = holderInfo s np := by
  rw [← holderInfo_erase s', h, holderInfo_erase]

theorem holderEntries_eq_info (s : Session) (np : RelPath) :
    holderEntries s np = (holderInfo s np).map (·.2.2) := by
  unfold holderEntries holderInfo
  rw [Option.map_map]
  rfl

/-- whether a pair matches does not depend on the previous paths in the session -/
theorem matchesB_congr (env : Env) (t : Node) (gens : List LGen) {s s' : Session}
    (h : eraseSess s' = eraseSess s) (np nf : RelPath) :
    matchesB env t gens s' np nf = matchesB env t gens s np nf := by
  unfold matchesB newDigest
  rw [holderEntries_eq_info, holderEntries_eq_info, holderInfo_congr h]

theorem holderOf_mem {s : Session} {np : RelPath} {l : NewList} {r : Record} (h : holderOf s np = some (l, r)) :
    l ∈ s.lists ∧ isPrefixOf l.root np = true ∧ l.find (posix (np.drop l.root.length)) = some r := by
  unfold holderOf at h
  obtain ⟨l', hl', hf⟩ := List.exists_of_findSome?_eq_some h
  by_cases hp : isPrefixOf l'.root np = true
  · simp only [hp, if_true, Option.map_eq_some_iff] at hf
    obtain ⟨r', hr', heq⟩ := hf
    simp only [Prod.mk.injEq] at heq
    obtain ⟨rfl, rfl⟩ := heq
    exact ⟨hl', hp, hr'⟩
  · simp [hp] at hf

theorem Session.put_of_mem (s : Session) (l lmod : NewList) (hl : l ∈ s.lists) (hr : lmod.root = l.root) :
    s.put lmod = { s with lists := s.lists.map fun x => if x.root == l.root then lmod else x } := by
  unfold Session.put
  have : s.lists.any (fun x => x.root == lmod.root) = true := by
    rw [List.any_eq_true]
    exact ⟨l, hl, by simp [hr]⟩
  rw [hr] at this
  simp only [hr, this, if_true]

/-- the list `l` with the previous path `old` set in every record with the path `k` -/
def setPrevList (l : NewList) (k old : String) : NewList :=
  { l with records := l.records.map fun x => if x.path == k then { x with prev := some old } else x }

theorem eraseList_setPrevList (l : NewList) (k old : String) : eraseList (setPrevList l k old) = eraseList l := by
  unfold eraseList setPrevList
  simp only [List.map_map]
  congr 1
  apply List.map_congr_left
  intro x _
  simp only [Function.comp]
  split <;> rfl

theorem setPrevIn_eq (s : Session) (l : NewList) (r : Record) (old : String) :
    setPrevIn s l r old = if r.path == "." then s else s.put (setPrevList l r.path old) := rfl

theorem root_unique {s : Session} (hs : s.RootsNodup) {x l : NewList} (hx : x ∈ s.lists) (hl : l ∈ s.lists)
    (h : x.root = l.root) : x = l :=
  List.inj_on_of_nodup_map hs hx hl h

/-- `setPrevOf` changes previous paths only -/
theorem eraseSess_setPrevOf (s : Session) (hs : s.RootsNodup) (np : RelPath) (old : String) :
    eraseSess (setPrevOf s np old) = eraseSess s := by
  unfold setPrevOf
  cases hh : holderOf s np with
  | none => rfl
  | some x =>
    obtain ⟨l, r⟩ := x
    simp only
    rw [setPrevIn_eq]
    split
    · rfl
    · obtain ⟨hl, -, -⟩ := holderOf_mem hh
      rw [Session.put_of_mem s l (setPrevList l r.path old) hl rfl]
      unfold eraseSess
      simp only [List.map_map]
      congr 1
      apply List.map_congr_left
      intro x hx
      simp only [Function.comp]
      split
      · next hxr =>
        have : x = l := root_unique hs hx hl (by simpa using hxr)
        rw [this, eraseList_setPrevList]
      · rfl

theorem eraseSess_foldl_setPrevOf (ps : List (RelPath × RelPath)) (s : Session) (hs : s.RootsNodup) :
    eraseSess (ps.foldl (fun s x => setPrevOf s x.1 (posix x.2)) s) = eraseSess s := by
  induction ps generalizing s with
  | nil => rfl
  | cons p ps ih =>
    rw [List.foldl_cons, ih _ (rootsNodup_of_erase (eraseSess_setPrevOf s hs _ _) hs), eraseSess_setPrevOf s hs]

/-! ## C. the exact result of the double loop -/

/-- the pairs (new path, not-found path) that count as renames, in the order the double loop meets them -/
def renamePairs (env : Env) (t : Node) (gens : List LGen) (s : Session) (newPaths notFound : List RelPath) :
    List (RelPath × RelPath) :=
  newPaths.flatMap fun np => (notFound.filter (matchesB env t gens s np)).map fun nf => (np, nf)

/-- the result of a run over the pairs `ps`, from the state `acc` -/
def applyPairs (acc : Session × List RelPath × List (String × String)) (ps : List (RelPath × RelPath)) :
    Session × List RelPath × List (String × String) :=
  (ps.foldl (fun s x => setPrevOf s x.1 (posix x.2)) acc.1,
   ps.foldl (fun a x => appendNew a x.2) acc.2.1,
   acc.2.2 ++ ps.map fun x => (posix x.2, posix x.1))

theorem applyPairs_append (acc : Session × List RelPath × List (String × String)) (p q : List (RelPath × RelPath)) :
    applyPairs acc (p ++ q) = applyPairs (applyPairs acc p) q := by
  simp [applyPairs, List.foldl_append]

theorem inner_loop (env : Env) (t : Node) (gens : List LGen) (s0 : Session) (hs0 : s0.RootsNodup) (np : RelPath)
    (notFound : List RelPath) (acc : Session × List RelPath × List (String × String))
    (hsim : eraseSess acc.1 = eraseSess s0) :
    notFound.foldl (drStep env t gens np) acc =
      applyPairs acc ((notFound.filter (matchesB env t gens s0 np)).map fun nf => (np, nf)) := by
  induction notFound generalizing acc with
  | nil => simp [applyPairs]
  | cons nf nfs ih =>
    rw [List.foldl_cons]
    have hm : matchesB env t gens acc.1 np nf = matchesB env t gens s0 np nf := matchesB_congr env t gens hsim np nf
    by_cases hmatch : matchesB env t gens s0 np nf = true
    · have hstep : drStep env t gens np acc nf = applyPairs acc [(np, nf)] := by
        unfold drStep
        rw [hm, hmatch]
        simp [applyPairs]
      rw [hstep, ih]
      · simp only [List.filter_cons, hmatch, if_true, List.map_cons]
        rw [← applyPairs_append]
        rfl
      · have : (applyPairs acc [(np, nf)]).1 = setPrevOf acc.1 np (posix nf) := rfl
        rw [this, eraseSess_setPrevOf _ (rootsNodup_of_erase hsim hs0), hsim]
    · have hstep : drStep env t gens np acc nf = acc := by
        unfold drStep
        rw [hm]
        simp [hmatch]
      rw [hstep, ih acc hsim]
      simp [List.filter_cons, hmatch]

theorem applyPairs_erase (acc : Session × List RelPath × List (String × String)) (ps : List (RelPath × RelPath))
    (hs : acc.1.RootsNodup) : eraseSess (applyPairs acc ps).1 = eraseSess acc.1 :=
  eraseSess_foldl_setPrevOf ps acc.1 hs

/-- THE DOUBLE LOOP, exactly: on a flat history and a session keyed by root, `detectRenames` runs `setPrevOf` /
`appendNew` / append over the pairs `renamePairs` (matching judged on the session it was given) -/
theorem detectRenames_pairs (env : Env) (t : Node) (rootHist : Hist) (hc : rootHist.children = [])
    (s : Session) (hs : s.RootsNodup) (newPaths notFound : List RelPath) :
    detectRenames env t rootHist s newPaths notFound =
      applyPairs (s, [], []) (renamePairs env t rootHist.gens s newPaths notFound) := by
  rw [detectRenames_eq_flat env t rootHist hc]
  suffices h : ∀ (acc : Session × List RelPath × List (String × String)), eraseSess acc.1 = eraseSess s →
      newPaths.foldl (fun acc np => notFound.foldl (drStep env t rootHist.gens np) acc) acc =
        applyPairs acc (renamePairs env t rootHist.gens s newPaths notFound) from h _ rfl
  induction newPaths with
  | nil => intro acc _; simp [renamePairs, applyPairs]
  | cons np nps ih =>
    intro acc hsim
    rw [List.foldl_cons, inner_loop env t rootHist.gens s hs np notFound acc hsim, ih]
    · unfold renamePairs
      rw [List.flatMap_cons, applyPairs_append]
    · rw [applyPairs_erase _ _ (rootsNodup_of_erase hsim hs), hsim]

/-! ## D. the previous path of the record of a new path -/

/-- which records a `setPrevOf` for the new path touches: the list root and the record path of its holder -/
def holderKey (s : Session) (np : RelPath) : Option (RelPath × String) :=
  (holderOf s np).map fun x => (x.1.root, x.2.path)

theorem holderKey_eq_info (s : Session) (np : RelPath) : holderKey s np = (holderInfo s np).map fun i => (i.1, i.2.1) := by
  unfold holderKey holderInfo
  rw [Option.map_map]
  rfl

theorem holderKey_congr {s s' : Session} (h : eraseSess s' = eraseSess s) (np : RelPath) :
    holderKey s' np = holderKey s np := by
  rw [holderKey_eq_info, holderKey_eq_info, holderInfo_congr h]

/-- `holderOf` after the lists were replaced one by one by lists with the same root whose look-ups are those of
the old ones up to a map on the record found -/
theorem holderOf_mapLists (L : List NewList) (pats pats' : List String) (g : NewList → NewList)
    (mm : NewList → String → Record → Record)
    (hroot : ∀ x ∈ L, (g x).root = x.root) (hfind : ∀ x ∈ L, ∀ k, (g x).find k = (x.find k).map (mm x k))
    (np : RelPath) :
    holderOf { lists := L.map g, patterns := pats' } np =
      (holderOf { lists := L, patterns := pats } np).map fun p =>
        (g p.1, mm p.1 (posix (np.drop p.1.root.length)) p.2) := by
  unfold holderOf
  simp only
  induction L with
  | nil => rfl
  | cons x xs ih =>
    simp only [List.map_cons, List.findSome?_cons]
    rw [hroot x (by simp), hfind x (by simp)]
    have ih' := ih (fun y hy => hroot y (by simp [hy])) (fun y hy => hfind y (by simp [hy]))
    by_cases hp : isPrefixOf x.root np = true
    · simp only [hp, if_true]
      cases hf : x.find (posix (np.drop x.root.length)) with
      | none => simpa using ih'
      | some r => simp
    · simp only [hp]
      simpa using ih'

theorem setPrevList_find (x : NewList) (k2 old k : String) :
    (setPrevList x k2 old).find k =
      (x.find k).map (if k == "." then id else fun r => if r.path == k2 then { r with prev := some old } else r) := by
  unfold NewList.find setPrevList
  by_cases hk : (k == ".") = true
  · simp [hk]
  · simp only [hk, Bool.false_eq_true, if_false]
    rw [find?_map_path]
    intro y
    split <;> rfl

theorem find_path {l : NewList} {k : String} {r : Record} (hk : k ≠ ".") (h : l.find k = some r) : r.path = k := by
  unfold NewList.find at h
  have : (k == ".") = false := by simpa using hk
  simp only [this, Bool.false_eq_true, if_false] at h
  simpa using List.find?_some h

/-- one `setPrevOf` (for `np'`) seen from the record of `np` (an ordinary record, not the root record): its previous
path is overwritten iff both new paths have the same holder key, and nothing else of it changes -/
theorem holderOf_setPrevOf (s : Session) (hs : s.RootsNodup) (np np' : RelPath) (old : String) (l : NewList)
    (r : Record) (hh : holderOf s np = some (l, r)) (hk : posix (np.drop l.root.length) ≠ ".") :
    ∃ l', holderOf (setPrevOf s np' old) np =
        some (l', if holderKey s np' = holderKey s np then { r with prev := some old } else r) ∧
      l'.root = l.root := by
  obtain ⟨hl, -, hfl⟩ := holderOf_mem hh
  have hrp : r.path = posix (np.drop l.root.length) := find_path hk hfl
  have hkey : holderKey s np = some (l.root, r.path) := by simp [holderKey, hh]
  unfold setPrevOf
  cases hh' : holderOf s np' with
  | none =>
    refine ⟨l, ?_, rfl⟩
    simp [holderKey, hh', hh]
  | some x =>
    obtain ⟨l2, r2⟩ := x
    have hkey' : holderKey s np' = some (l2.root, r2.path) := by simp [holderKey, hh']
    simp only
    rw [setPrevIn_eq]
    by_cases hdot : (r2.path == ".") = true
    · simp only [hdot, if_true]
      refine ⟨l, ?_, rfl⟩
      rw [hh, hkey, hkey']
      have : ¬ (l2.root = l.root ∧ r2.path = r.path) := by
        rintro ⟨-, h2⟩
        rw [hrp] at h2
        exact hk (h2 ▸ (by simpa using hdot))
      simp [this]
    · simp only [hdot, Bool.false_eq_true, if_false]
      obtain ⟨hl2, -, -⟩ := holderOf_mem hh'
      rw [Session.put_of_mem s l2 (setPrevList l2 r2.path old) hl2 rfl]
      have hmap := holderOf_mapLists s.lists s.patterns s.patterns
        (fun x => if x.root == l2.root then setPrevList l2 r2.path old else x)
        (fun x k => if x.root == l2.root then
          (if k == "." then id else fun r => if r.path == r2.path then { r with prev := some old } else r) else id)
        (by
          intro x _
          by_cases hx : (x.root == l2.root) = true
          · simp only [hx, if_true]
            exact (by simpa using hx : x.root = l2.root).symm
          · simp [hx])
        (by
          intro x hx k
          by_cases hxr : (x.root == l2.root) = true
          · have : x = l2 := root_unique hs hx hl2 (by simpa using hxr)
            subst this
            simp only [hxr, if_true]
            exact setPrevList_find x r2.path old k
          · simp [hxr])
        np
      have hs_eta : ({ lists := s.lists, patterns := s.patterns } : Session) = s := rfl
      rw [hs_eta, hh] at hmap
      rw [hmap]
      simp only [Option.map_some]
      refine ⟨(if l.root == l2.root then setPrevList l2 r2.path old else l), ?_, ?_⟩
      · rw [Option.some.injEq, Prod.mk.injEq]
        refine ⟨rfl, ?_⟩
        have hkd : (posix (np.drop l.root.length) == ".") = false := by simpa using hk
        rw [hkey, hkey']
        by_cases hroot : (l.root == l2.root) = true
        · have hroot' : l.root = l2.root := by simpa using hroot
          simp only [hroot, if_true, hkd, Bool.false_eq_true, if_false]
          by_cases hpath : (r.path == r2.path) = true
          · have hpath' : r.path = r2.path := by simpa using hpath
            simp [hpath, hroot', hpath']
          · have hpath' : ¬ r.path = r2.path := by simpa using hpath
            have : ¬ (l2.root = l.root ∧ r2.path = r.path) := fun h => hpath' h.2.symm
            simp [hpath, this]
        · have hroot' : ¬ l.root = l2.root := by simpa using hroot
          have : ¬ (l2.root = l.root ∧ r2.path = r.path) := fun h => hroot' h.1.symm
          simp [hroot, this]
      · split
        · next h => exact (by simpa using h : l.root = l2.root).symm
        · rfl

/-- the previous path of the record of `np` after a run of `setPrevOf` over the pairs `ps`: the old path of the
LAST pair whose new path has the same holder key as `np` (the record's own previous path if there is none) -/
theorem holderOf_foldl_setPrev (ps : List (RelPath × RelPath)) (s : Session) (hs : s.RootsNodup) (np : RelPath)
    (l : NewList) (r : Record) (hh : holderOf s np = some (l, r)) (hk : posix (np.drop l.root.length) ≠ ".") :
    ∃ l', holderOf (ps.foldl (fun s x => setPrevOf s x.1 (posix x.2)) s) np =
        some (l', { r with prev := ps.foldl (fun acc x =>
          if holderKey s x.1 = holderKey s np then some (posix x.2) else acc) r.prev }) ∧
      l'.root = l.root := by
  induction ps generalizing s l r with
  | nil => exact ⟨l, hh, rfl⟩
  | cons p ps ih =>
    obtain ⟨l1, h1, hr1⟩ := holderOf_setPrevOf s hs np p.1 (posix p.2) l r hh hk
    have he := eraseSess_setPrevOf s hs p.1 (posix p.2)
    obtain ⟨l', h2, hr2⟩ := ih (setPrevOf s p.1 (posix p.2)) (rootsNodup_of_erase he hs) l1 _ h1 (by rw [hr1]; exact hk)
    refine ⟨l', ?_, hr2.trans hr1⟩
    rw [List.foldl_cons, h2]
    simp only [holderKey_congr he, List.foldl_cons]
    by_cases hkey : holderKey s p.1 = holderKey s np <;> simp [hkey]

/-- in a session with the single list of the root history, new paths made of well-formed names have different
holder keys -/
theorem holderKey_inj_single (s : Session) (nl : NewList) (hl : s.lists = [nl]) (hroot : nl.root = [])
    (np np' : RelPath) (hok : ∀ x ∈ np, NameOk x) (hok' : ∀ x ∈ np', NameOk x) (hne : np ≠ []) (hne' : np' ≠ [])
    (hh : (holderOf s np).isSome = true) (heq : holderKey s np' = holderKey s np) : np' = np := by
  have hkey : ∀ q : RelPath, (∀ x ∈ q, NameOk x) → q ≠ [] →
      holderKey s q = (nl.find (posix q)).map fun r => (([] : RelPath), posix q) := by
    intro q hq hqne
    have hdot : posix q ≠ "." := fun h => hqne ((posix_eq_dot hq).1 h)
    unfold holderKey holderOf
    simp only [hl, List.findSome?_cons, List.findSome?_nil, hroot, isPrefixOf, List.length_nil, Nat.zero_le,
      decide_true, List.take_zero, beq_self_eq_true, Bool.and_self, if_true, List.drop_zero]
    cases hf : nl.find (posix q) with
    | none => rfl
    | some r => simp [find_path hdot hf, hroot]
  have h1 := hkey np hok hne
  have h2 := hkey np' hok' hne'
  have hsome : ∃ r, nl.find (posix np) = some r := by
    unfold holderOf at hh
    simp only [hl, List.findSome?_cons, List.findSome?_nil, hroot, isPrefixOf, List.length_nil, Nat.zero_le,
      decide_true, List.take_zero, beq_self_eq_true, Bool.and_self, if_true, List.drop_zero] at hh
    cases hf : nl.find (posix np) with
    | none => simp [hf] at hh
    | some r => exact ⟨r, rfl⟩
  obtain ⟨r, hr⟩ := hsome
  rw [h1, h2, hr] at heq
  cases hf : nl.find (posix np') with
  | none => rw [hf] at heq; cases heq
  | some r' =>
    rw [hf] at heq
    simp only [Option.map_some, Option.some.injEq, Prod.mk.injEq, true_and] at heq
    exact posix_inj hok' hok heq

/-- the fold of the previous path over `renamePairs` when `np` is the only new path with its holder key that has a
match: the LAST matching not-found path wins -/
theorem foldl_prev_renamePairs (K : RelPath → Option (RelPath × String)) (M : RelPath → RelPath → Bool)
    (newPaths notFound : List RelPath) (np nfLast : RelPath)
    (hlast : (notFound.filter (M np)).getLast? = some nfLast)
    (huniq : ∀ np' ∈ newPaths, (∃ nf ∈ notFound, M np' nf = true) → K np' = K np → np' = np)
    (init : Option String) :
    (newPaths.flatMap fun np' => (notFound.filter (M np')).map fun nf => (np', nf)).foldl
        (fun acc (x : RelPath × RelPath) => if K x.1 = K np then some (posix x.2) else acc) init =
      if np ∈ newPaths then some (posix nfLast) else init := by
  induction newPaths generalizing init with
  | nil => rfl
  | cons np' nps ih =>
    rw [List.flatMap_cons, List.foldl_append, ih (fun q hq => huniq q (by simp [hq]))]
    by_cases hK : K np' = K np
    · by_cases hex : ∃ nf ∈ notFound, M np' nf = true
      · have hnp : np' = np := huniq np' (by simp) hex hK
        subst hnp
        have hin : ∀ (L : List RelPath) (i : Option String),
            (L.map fun nf => (np', nf)).foldl
              (fun acc (x : RelPath × RelPath) => if K x.1 = K np' then some (posix x.2) else acc) i =
            match L.getLast? with
            | some x => some (posix x)
            | none => i := by
          intro L
          induction L with
          | nil => intro i; rfl
          | cons a as iha =>
            intro i
            rw [List.map_cons, List.foldl_cons, iha]
            cases as with
            | nil => simp
            | cons b bs =>
              rw [List.getLast?_cons_cons]
              cases hgl : (b :: bs).getLast? with
              | none => simp at hgl
              | some x => rfl
        rw [hin, hlast]
        simp
      · have hnil : notFound.filter (M np') = [] := by
          rw [List.filter_eq_nil_iff]
          intro nf hnf hm
          exact hex ⟨nf, hnf, hm⟩
        have hne : np' ≠ np := by
          rintro rfl
          rw [hnil] at hlast
          cases hlast
        rw [hnil]
        simp only [List.map_nil, List.foldl_nil, List.mem_cons]
        have : (np = np' ∨ np ∈ nps) ↔ np ∈ nps := by
          constructor
          · rintro (h | h)
            · exact absurd h.symm hne
            · exact h
          · exact Or.inr
        simp only [this]
    · have hne : np' ≠ np := fun h => hK (h ▸ rfl)
      have hin : ∀ (L : List RelPath) (i : Option String),
          (L.map fun nf => (np', nf)).foldl
            (fun acc (x : RelPath × RelPath) => if K x.1 = K np then some (posix x.2) else acc) i = i := by
        intro L
        induction L with
        | nil => intro i; rfl
        | cons a as iha => intro i; rw [List.map_cons, List.foldl_cons, iha]; simp [hK]
      rw [hin]
      have : (np = np' ∨ np ∈ nps) ↔ np ∈ nps := by
        constructor
        · rintro (h | h)
          · exact absurd h.symm hne
          · exact h
        · exact Or.inr
      simp only [List.mem_cons, this]

/-! ## E. folder-mode `create -dr`, named pieces -/

section createDr
open MhlProps.C02rec MhlProps.C04

/-- the expected paths the traversal did not come across -/
def cNotFound (env : Env) (t : Node) (rootHist : Hist) (o : CreateOpts) : List RelPath :=
  (expectedPaths rootHist).filter fun p => !(cState env t rootHist o).found.contains p

/-- the order in which `create -dr` visits the not-found paths: `sorted(not_found_paths)` (D19) -/
abbrev pathLe (a b : RelPath) : Bool := strLe (posix a) (posix b)

/-- the not-found paths in the order the detection visits them -/
def cNotFoundSorted (env : Env) (t : Node) (rootHist : Hist) (o : CreateOpts) : List RelPath :=
  isort pathLe (cNotFound env t rootHist o)

/-- folder-mode `create -dr`, once the history loaded, the detection gave `(s', fo, ren)` and the commit of `s'`
went through.
D19 (the detection iterates `sorted(not_found_paths)`): the hypothesis `hdet` used to be about
`detectRenames … (cNotFound env t rootHist o)`; it is now about the SORTED list `cNotFoundSorted env t rootHist o`.
The conclusion is unchanged (the paths still missing are filtered out of the unsorted list). -/
theorem createFolder_eq_dr (env : Env) (t : Node) (o : CreateOpts) (rootHist : Hist)
    (hl : loadHistory t = .ok rootHist) (hdr : o.detectRenaming = true)
    (s' : Session) (fo : List RelPath) (ren : List (String × String))
    (hdet : detectRenames env t rootHist (cState env t rootHist o).session (cState env t rootHist o).newPaths
      (cNotFoundSorted env t rootHist o) = (s', fo, ren))
    (ws : List Written) (hcm : commit rootHist s' env.rootName env.stamp "in-place" = .ok ws) :
    createFolder env t o =
      { err := createExit (cState env t rootHist o).failed
          (missingAfter (cHit env rootHist o) ((cNotFound env t rootHist o).filter fun p => !fo.contains p))
          (cMissingHist t rootHist),
        report := { mismatch := (cState env t rootHist o).mismatch,
                    missing := (missingAfter (cHit env rootHist o)
                      ((cNotFound env t rootHist o).filter fun p => !fo.contains p)).map posix,
                    renamed := ren },
        written := ws } := by
  unfold createFolder
  simp only [hl, hdr, if_true]
  unfold cNotFoundSorted cNotFound cState cHit pathLe at hdet
  rw [hdet]
  simp only
  rw [hcm]
  rfl

/-- one step of the bookkeeping of new paths -/
def newStep (h : Hist) (acc : List RelPath) (p : RelPath) : List RelPath :=
  if isNewPath h p then appendNew acc p else acc

theorem createVisit_newPaths (env : Env) (t : Node) (h : Hist) (fmts : List String) (noDir : Bool)
    (st : CreateState) (v : Visit) :
    (createVisit env t h fmts noDir st v).newPaths = (visitFound v).foldl (newStep h) st.newPaths := by
  unfold createVisit
  dsimp only
  generalize hres : List.foldl _ (st, _) v.children = res
  have hP : res.1.newPaths =
      (([] : List RelPath) ++ v.children.flatMap fun ch => [v.folder ++ [ch.1]]).foldl (newStep h) st.newPaths := by
    rw [← hres]
    refine foldl_track (fun (a : CreateState × List (String × DirCtx)) (L : List RelPath) =>
      a.1.newPaths = L.foldl (newStep h) st.newPaths) _ _ ?_ _ _ _ rfl
    intro a b L hP
    try dsimp only at hP ⊢
    rw [List.foldl_append, ← hP]
    split
    · split <;> simp [newStep]
    · simp [newStep]
  have hfm : (v.children.flatMap fun ch => [v.folder ++ [ch.1]]) = visitFound v := by
    unfold visitFound
    induction v.children with
    | nil => rfl
    | cons a as ih => simp [ih]
  rw [List.nil_append, hfm] at hP
  rw [← hP]
  cases noDir <;> rfl

theorem createFold_newPaths (env : Env) (t : Node) (h : Hist) (fmts : List String) (noDir : Bool)
    (vs : List Visit) (st : CreateState) :
    (vs.foldl (createVisit env t h fmts noDir) st).newPaths =
      (vs.flatMap visitFound).foldl (newStep h) st.newPaths := by
  induction vs generalizing st with
  | nil => rfl
  | cons v vs ih => rw [List.foldl_cons, ih, createVisit_newPaths, List.flatMap_cons, List.foldl_append]

theorem foldl_newStep_nodup (h : Hist) (L acc : List RelPath) (hd : ∀ x ∈ L, x ∉ acc) (hnd : L.Nodup) :
    L.foldl (newStep h) acc = acc ++ L.filter (isNewPath h) := by
  induction L generalizing acc with
  | nil => simp
  | cons x xs ih =>
    rw [List.foldl_cons]
    rw [List.nodup_cons] at hnd
    by_cases hx : isNewPath h x = true
    · have hstep : newStep h acc x = acc ++ [x] := by simp [newStep, hx, appendNew, hd x (by simp)]
      simp only [hx, List.filter_cons, if_true, hstep]
      rw [ih _ _ hnd.2]
      · simp
      · intro y hy hyacc
        rcases List.mem_append.1 hyacc with h1 | h1
        · exact hd y (by simp [hy]) h1
        · simp only [List.mem_singleton] at h1
          exact hnd.1 (h1 ▸ hy)
    · have hstep : newStep h acc x = acc := by simp [newStep, hx]
      simp only [hx, Bool.false_eq_true, if_false, List.filter_cons, hstep]
      exact ih _ (fun y hy => hd y (by simp [hy])) hnd.2

theorem visiblePaths_fst_nodup (hit : RelPath → Bool) (t : Node) (hd : t.NamesDistinct) (hn : t.NamesOk) :
    ((visiblePaths hit t).map (·.1)).Nodup := by
  have := visible_keys_nodup hit t hd hn
  rw [show (fun x : RelPath × Bool => posix x.1) = posix ∘ (·.1) from rfl, ← List.map_map] at this
  exact List.Nodup.of_map _ this

theorem cState_found (env : Env) (t : Node) (rootHist : Hist) (o : CreateOpts) :
    (cState env t rootHist o).found = (visiblePaths (cHit env rootHist o) t).map (·.1) := by
  unfold cState
  rw [createFold_found, visiblePaths_map_fst]
  rfl

/-- the new paths of the run: the visited paths no record of (some generation of) the root history names -/
theorem cState_newPaths (env : Env) (t : Node) (rootHist : Hist) (o : CreateOpts) (hd : t.NamesDistinct)
    (hn : t.NamesOk) :
    (cState env t rootHist o).newPaths =
      ((visiblePaths (cHit env rootHist o) t).map (·.1)).filter (isNewPath rootHist) := by
  unfold cState
  rw [createFold_newPaths, ← visiblePaths_map_fst,
    foldl_newStep_nodup _ _ _ (by simp) (visiblePaths_fst_nodup _ t hd hn)]
  rfl

theorem expectedPaths_nodup (h : Hist) : (expectedPaths h).Nodup := by
  unfold expectedPaths
  apply MhlProps.C17.foldl_invariant (fun acc : List RelPath => acc.Nodup)
  · intro acc x _ hacc
    exact (foldl_appendNew_nodup _ _).2 hacc
  · exact List.nodup_nil

theorem find?_path_of_nodup {rs : List Record} (hnd : (rs.map (·.path)).Nodup) {r : Record} (hr : r ∈ rs) :
    rs.find? (fun x => x.path == r.path) = some r := by
  cases hf : rs.find? (fun x => x.path == r.path) with
  | none =>
    have := List.find?_eq_none.1 hf r hr
    simp at this
  | some x =>
    have hx := List.mem_of_find?_eq_some hf
    have hp : x.path = r.path := by simpa using List.find?_some hf
    rw [record_unique hnd hx hr hp]

/-- the holder of a path in a session with the single list of the root history -/
theorem holderOf_single (s : Session) (nl : NewList) (hl : s.lists = [nl]) (hroot : nl.root = [])
    (hnd : (nl.records.map (·.path)).Nodup) (r : Record) (hr : r ∈ nl.records) (p : RelPath)
    (hp : r.path = posix p) (hdot : posix p ≠ ".") : holderOf s p = some (nl, r) := by
  unfold holderOf
  have hfind : nl.find (posix p) = some r := by
    unfold NewList.find
    have : (posix p == ".") = false := by simpa using hdot
    simp only [this, Bool.false_eq_true, if_false]
    rw [← hp]
    exact find?_path_of_nodup hnd hr
  simp [hl, hroot, isPrefixOf, hfind]

theorem setPrevOf_single (s : Session) (nl : NewList) (hl : s.lists = [nl]) (hroot : nl.root = [])
    (hnd : (nl.records.map (·.path)).Nodup) (r : Record) (hr : r ∈ nl.records) (p : RelPath)
    (hp : r.path = posix p) (hdot : posix p ≠ ".") (old : String) :
    setPrevOf s p old = { s with lists := [setPrevList nl (posix p) old] } := by
  unfold setPrevOf
  rw [holderOf_single s nl hl hroot hnd r hr p hp hdot]
  simp only
  rw [setPrevIn_eq]
  have : (r.path == ".") = false := by rw [hp]; simpa using hdot
  simp only [this, Bool.false_eq_true, if_false]
  rw [Session.put_of_mem s nl (setPrevList nl r.path old) (by simp [hl]) rfl, hl, hp]
  simp

/-- every record of the session of a run over unaltered files validates -/
theorem cSession_validates (env : Env) (t : Node) (o : CreateOpts) (rootHist : Hist)
    (hc : rootHist.children = []) (hr : rootHist.root = []) (hd : t.NamesDistinct) (hn : t.NamesOk)
    (hf : o.formats ≠ [])
    (hfirst : ∀ p, (p, false) ∈ visiblePaths (cHit env rootHist o) t →
      FirstOk (fun f => env.H f (fileContent t p)) rootHist.gens (posix p)) :
    ∀ r ∈ ((cSession env t rootHist o).get []).records, ∃ r', validateRecord r = .ok r' := by
  have hfm : isort strLe o.formats ≠ [] := by
    intro h0
    have := length_isort strLe o.formats
    rw [h0] at this
    exact hf (List.length_eq_zero_iff.1 this.symm)
  obtain ⟨-, -, -, hrecs, -, -, -, -⟩ :=
    createVisit_records env t rootHist hc hr hd hn (isort strLe o.formats) hfm o.noDirHashes
      (setPatterns (latestIgnore rootHist.gens) o.ignoreCli o.ignoreFile) (cHit env rootHist o)
  change List.Forall₂ _ _ ((cSession env t rootHist o).get []).records at hrecs
  intro r hrm
  obtain ⟨x, hx, hrf⟩ := forall₂_mem_right_sv hrecs r hrm
  obtain ⟨p, d⟩ := x
  have hvis : (p, d) ∈ visiblePaths (cHit env rootHist o) t :=
    (nonRoot_recItems_perm _ t).mem_iff.1 hx
  cases d with
  | false =>
    obtain ⟨-, hents⟩ := hrf.2.2.2.1 rfl
    obtain ⟨r', hr', -⟩ := unaltered_validate_ok (fun f => env.H f (fileContent t p)) rootHist.gens (posix p)
      (isort strLe o.formats) (hfirst p hvis) none
    exact validateRecord_isOk_congr _ r (by rw [hents]) ⟨r', hr'⟩
  | true =>
    obtain ⟨-, hact⟩ := hrf.2.2.2.2 rfl
    rw [validateRecord_isOk]
    apply entriesPass_no_new
    intro e he hnew
    have := hact e he
    rw [this] at hnew
    exact absurd hnew (by decide)

theorem cState_failed (env : Env) (t : Node) (o : CreateOpts) (rootHist : Hist) (hc : rootHist.children = [])
    (hfirst : ∀ p, (p, false) ∈ visiblePaths (cHit env rootHist o) t →
      FirstOk (fun f => env.H f (fileContent t p)) rootHist.gens (posix p)) :
    (cState env t rootHist o).failed = 0 ∧ (cState env t rootHist o).mismatch = [] := by
  unfold cState
  apply createFold_failed
  · intro v hv' ch hch hfile s r hr'
    rw [sealFile_snd, route_flat rootHist hc] at hr'
    have hvis : (v.folder ++ [ch.1], false) ∈ visiblePaths (cHit env rootHist o) t := by
      have := mem_visible_of_visit hv' hch
      rwa [hfile] at this
    exact unaltered_all_success _ _ _ _ (hfirst _ hvis) r hr'
  · exact ⟨rfl, rfl⟩

/-- the digest `detectRenames` takes for a visible file of the run: whatever the record carries, it is the digest
of the file's content -/
theorem newDigest_visible_file (env : Env) (t : Node) (o : CreateOpts) (rootHist : Hist)
    (hc : rootHist.children = []) (hr : rootHist.root = []) (hd : t.NamesDistinct) (hn : t.NamesOk)
    (hf : o.formats ≠ []) (hdir : t.isDir = true) (b : RelPath)
    (hb : (b, false) ∈ visiblePaths (cHit env rootHist o) t) (fmt : String) :
    newDigest env t (cSession env t rootHist o) b fmt = some (env.H fmt (fileContent t b)) ∧
    ∃ nl r, (cSession env t rootHist o).lists = [nl] ∧ nl = (cSession env t rootHist o).get [] ∧ nl.root = [] ∧
      (nl.records.map (·.path)).Nodup ∧ r ∈ nl.records ∧ r.path = posix b ∧ posix b ≠ "." := by
  have hfm : isort strLe o.formats ≠ [] := by
    intro h0
    have := length_isort strLe o.formats
    rw [h0] at this
    exact hf (List.length_eq_zero_iff.1 this.symm)
  obtain ⟨-, -, hroot, -, -, hnodup, hfiles, hlists⟩ :=
    createVisit_records env t rootHist hc hr hd hn (isort strLe o.formats) hfm o.noDirHashes
      (setPatterns (latestIgnore rootHist.gens) o.ignoreCli o.ignoreFile) (cHit env rootHist o)
  change ((cSession env t rootHist o).get []).root = [] at hroot
  change (((cSession env t rootHist o).get []).records.map (·.path)).Nodup at hnodup
  change ∀ p, _ → ∃ r ∈ ((cSession env t rootHist o).get []).records, _ at hfiles
  change t.isDir = true → (cSession env t rootHist o).lists = [(cSession env t rootHist o).get []] ∧ _ at hlists
  obtain ⟨hlist1, -⟩ := hlists hdir
  obtain ⟨r, hrm, hpath, -, -, -, hents⟩ := hfiles b hb
  have hdot : posix b ≠ "." := by
    obtain ⟨hne, hok⟩ := visible_names_ok _ t hn (b, false) hb
    exact fun h => hne ((posix_eq_dot hok).1 h)
  refine ⟨?_, _, r, hlist1, rfl, hroot, hnodup, hrm, hpath, hdot⟩
  have hh := holderOf_single _ _ hlist1 hroot hnodup r hrm b hpath hdot
  unfold newDigest holderEntries
  rw [hh]
  simp only [Option.map_some, Option.bind_some]
  unfold digestFor
  cases hfe : r.entries.find? (fun e => e.fmt == fmt) with
  | some e =>
    have hem := List.mem_of_find?_eq_some hfe
    have hfmt : e.fmt = fmt := by simpa using List.find?_some hfe
    rw [hents] at hem
    have := sealEntries_digest _ _ _ _ e hem
    simp only [this, hfmt]
  | none =>
    obtain ⟨c0, hat, hfile⟩ := MhlProps.C02.visible_on_disk _ t hd b false hb
    cases c0 with
    | dir _ _ _ => cases hfile
    | file nm c =>
      simp only [hat]
      unfold fileContent
      rw [hat]

/-- Folder-mode `create -dr` on a folder whose only history is the one at the root, when exactly ONE expected path
`a` was not come across and exactly ONE visited path `b` (a file) is new, and the digest of `b` in the format of the
first entry recorded for `a` is that entry's digest: exit code 0, nothing missing, the rename reported, one
generation written from the session with the previous path of the record of `b` set. -/
theorem createFolder_dr_single (env : Env) (t : Node) (o : CreateOpts) (rootHist : Hist)
    (hl : loadHistory t = .ok rootHist) (hc : rootHist.children = []) (hd : t.NamesDistinct) (hn : t.NamesOk)
    (hf : o.formats ≠ []) (hdr : o.detectRenaming = true) (hdir : t.isDir = true) (a b : RelPath)
    (hfirst : ∀ p, (p, false) ∈ visiblePaths (cHit env rootHist o) t →
      FirstOk (fun f => env.H f (fileContent t p)) rootHist.gens (posix p))
    (hb : (b, false) ∈ visiblePaths (cHit env rootHist o) t)
    (hnew : ∀ p d, (p, d) ∈ visiblePaths (cHit env rootHist o) t → (isNewPath rootHist p = true ↔ p = b))
    (ha : a ∈ expectedPaths rootHist) (hanot : ∀ d, (a, d) ∉ visiblePaths (cHit env rootHist o) t)
    (hexp : ∀ p ∈ expectedPaths rootHist, p ≠ a → ∃ d, (p, d) ∈ visiblePaths (cHit env rootHist o) t)
    (oldE : Entry) (hE : findFirstAny rootHist.gens (posix a) = some oldE)
    (hdig : env.H oldE.fmt (fileContent t b) = oldE.digest)
    (hrefs : ∀ g, rootHist.gens.getLast? = some g → g.gen.refs = []) :
    ∃ w, (createFolder env t o).err = none ∧ (createFolder env t o).written = [w] ∧
      (createFolder env t o).report.mismatch = [] ∧ (createFolder env t o).report.missing = [] ∧
      (createFolder env t o).report.renamed = [(posix a, posix b)] ∧
      writeOne rootHist { cSession env t rootHist o with
          lists := [setPrevList ((cSession env t rootHist o).get []) (posix b) (posix a)] }
        env.rootName env.stamp "in-place" none rootHist [] = .ok w ∧
      w.gen.records = (setPrevList ((cSession env t rootHist o).get []) (posix b) (posix a)).records.map finalRec := by
  have hr := loadHistory_root t rootHist hl
  obtain ⟨hnd, nl, rb, hlist1, hnl, hroot, hnodup, hrbm, hrbp, hdot⟩ :=
    newDigest_visible_file env t o rootHist hc hr hd hn hf hdir b hb oldE.fmt
  subst hnl
  have hsess : (cState env t rootHist o).session = cSession env t rootHist o := rfl
  -- the new paths and the not-found paths
  have hnewPaths : (cState env t rootHist o).newPaths = [b] := by
    rw [cState_newPaths env t rootHist o hd hn]
    apply filter_eq_singleton _ _ _ (visiblePaths_fst_nodup _ t hd hn)
    · exact List.mem_map.2 ⟨(b, false), hb, rfl⟩
    · intro x hx
      obtain ⟨⟨p, d⟩, hpd, rfl⟩ := List.mem_map.1 hx
      exact hnew p d hpd
  have hnotFound : cNotFound env t rootHist o = [a] := by
    unfold cNotFound
    rw [cState_found]
    apply filter_eq_singleton _ _ _ (expectedPaths_nodup rootHist) ha
    intro x hx
    simp only [Bool.not_eq_true', List.contains_eq_mem, decide_eq_false_iff_not, List.mem_map, not_exists, not_and]
    constructor
    · intro hnf
      by_contra hne
      obtain ⟨d, hd'⟩ := hexp x hx hne
      exact hnf (x, d) hd' rfl
    · rintro rfl ⟨p, d⟩ hpd hpe
      simp only at hpe
      subst hpe
      exact hanot d hpd
  -- the detection
  have hs : (cSession env t rootHist o).RootsNodup := by simp [Session.RootsNodup, hlist1]
  have hm : matchesB env t rootHist.gens (cSession env t rootHist o) b a = true := by
    unfold matchesB
    rw [hE]
    simp only [hnd, hdig, beq_self_eq_true]
  have hnotFoundS : cNotFoundSorted env t rootHist o = [a] := by
    unfold cNotFoundSorted
    rw [hnotFound]
    rfl
  have hdet : detectRenames env t rootHist (cState env t rootHist o).session (cState env t rootHist o).newPaths
      (cNotFoundSorted env t rootHist o) =
      ({ cSession env t rootHist o with
          lists := [setPrevList ((cSession env t rootHist o).get []) (posix b) (posix a)] },
        [a], [(posix a, posix b)]) := by
    rw [hsess, hnewPaths, hnotFoundS, detectRenames_pairs env t rootHist hc _ hs]
    have hp : renamePairs env t rootHist.gens (cSession env t rootHist o) [b] [a] = [(b, a)] := by
      simp [renamePairs, hm]
    rw [hp]
    simp only [applyPairs, List.foldl_cons, List.foldl_nil, List.map_cons, List.map_nil, List.nil_append]
    rw [setPrevOf_single _ _ hlist1 hroot hnodup rb hrbm b hrbp hdot]
    simp [appendNew]
  -- the commit
  have hget : ({ cSession env t rootHist o with
      lists := [setPrevList ((cSession env t rootHist o).get []) (posix b) (posix a)] } : Session).get rootHist.root =
      setPrevList ((cSession env t rootHist o).get []) (posix b) (posix a) := by
    rw [hr]
    generalize (cSession env t rootHist o).get [] = nl0 at hroot
    simp [Session.get, setPrevList, hroot]
  have hin : ({ cSession env t rootHist o with
      lists := [setPrevList ((cSession env t rootHist o).get []) (posix b) (posix a)] } : Session).lists.any
        (fun l => l.root == rootHist.root) = true := by
    rw [hr]
    generalize (cSession env t rootHist o).get [] = nl0 at hroot
    simp [setPrevList, hroot]
  have hv0 := cSession_validates env t o rootHist hc hr hd hn hf hfirst
  obtain ⟨w, hcm, hw⟩ := commit_flat_ok_sv rootHist hc _ env.rootName env.stamp "in-place" none hin (by
    rw [hget]
    intro r hrm
    simp only [setPrevList, List.mem_map] at hrm
    obtain ⟨r0, hr0, rfl⟩ := hrm
    refine validateRecord_isOk_congr r0 _ ?_ (hv0 r0 hr0)
    split <;> rfl)
  have heq := createFolder_eq_dr env t o rootHist hl hdr _ _ _ hdet [w] hcm
  obtain ⟨hfail, hmism⟩ := cState_failed env t o rootHist hc hfirst
  have hmiss : missingAfter (cHit env rootHist o)
      ((cNotFound env t rootHist o).filter fun p => !([a] : List RelPath).contains p) = [] := by
    rw [hnotFound]
    simp [missingAfter]
  have hmh : cMissingHist t rootHist = [] := by
    unfold cMissingHist
    cases hg : rootHist.gens.getLast? with
    | none => rfl
    | some g => simp only [hrefs g hg, List.filterMap_nil]
  obtain ⟨-, hrecs, -⟩ := writeOne_records _ _ _ _ _ _ _ _ _ hw
  rw [hget] at hrecs
  refine ⟨w, ?_, ?_, ?_, ?_, ?_, hw, hrecs⟩
  · rw [heq, hfail, hmiss, hmh]; rfl
  · rw [heq]
  · rw [heq, hmism]
  · rw [heq, hmiss]; rfl
  · rw [heq]

end createDr

/-! ## F. two generations: the sealed one and the one `create -dr` wrote after a move -/

section twoGens
open MhlProps.C02rec MhlProps.C04

/-- the children `cs2` are the children `cs` after the visible file at `a` (content `c`) was moved to `b`, as far as
the commands can tell through the matcher `hit`: `b` is a visible file with content `c`, `a` is gone, every other
visible entry is where and what it was -/
structure Moved (hit : RelPath → Bool) (rn : String) (cs cs2 : List Node) (a b : RelPath) (c : Bytes) : Prop where
  flat : noNested (.dir rn cs2 none) = true
  distinct : (Node.dir rn cs2 none).NamesDistinct
  namesOk : (Node.dir rn cs2 none).NamesOk
  srcVisible : (a, false) ∈ visiblePaths hit (.dir rn cs none)
  srcContent : fileContent (.dir rn cs none) a = c
  dstFresh : ∀ d, (b, d) ∉ visiblePaths hit (.dir rn cs none)
  vis : ∀ p d, (p, d) ∈ visiblePaths hit (.dir rn cs2 none) ↔
    ((p, d) ∈ visiblePaths hit (.dir rn cs none) ∧ p ≠ a) ∨ (p = b ∧ d = false)
  content : ∀ p, (p, false) ∈ visiblePaths hit (.dir rn cs none) → p ≠ a →
    fileContent (.dir rn cs2 none) p = fileContent (.dir rn cs none) p
  dstContent : fileContent (.dir rn cs2 none) b = c

theorem Moved.dstVisible {hit : RelPath → Bool} {rn : String} {cs cs2 : List Node} {a b : RelPath} {c : Bytes}
    (hM : Moved hit rn cs cs2 a b c) : (b, false) ∈ visiblePaths hit (.dir rn cs2 none) :=
  (hM.vis b false).2 (Or.inr ⟨rfl, rfl⟩)

theorem Moved.ne {hit : RelPath → Bool} {rn : String} {cs cs2 : List Node} {a b : RelPath} {c : Bytes}
    (hM : Moved hit rn cs cs2 a b c) : b ≠ a := by
  rintro rfl
  exact hM.dstFresh false hM.srcVisible

theorem Moved.srcGone {hit : RelPath → Bool} {rn : String} {cs cs2 : List Node} {a b : RelPath} {c : Bytes}
    (hM : Moved hit rn cs cs2 a b c) : ∀ d, (a, d) ∉ visiblePaths hit (.dir rn cs2 none) := by
  intro d h
  rcases (hM.vis a d).1 h with ⟨-, h2⟩ | ⟨h2, -⟩
  · exact h2 rfl
  · exact hM.ne h2.symm

section sealed
variable {env : Env} {t : Node} {hit : RelPath → Bool} {formats : List String} {g : Generation}

/-- a text that is not the path of a record (and not ".") is not found in a sealed generation -/
theorem SealedGen.find_none (hs : SealedGen env t hit formats g) (s : String) (hdot : s ≠ ".")
    (hno : s ∉ g.records.map (·.path)) : g.find s = none := by
  unfold Generation.find
  rw [List.find?_eq_none]
  intro x hx
  rw [List.mem_reverse, List.mem_append] at hx
  rcases hx with hx | hx
  · cases hrh : g.rootHash with
    | none => simp [hrh] at hx
    | some es =>
      simp only [hrh, List.mem_singleton] at hx
      subst hx
      simpa using fun h => hdot h.symm
  · have hprev := hs.prev x hx
    simp only [hprev, Bool.or_eq_true, beq_iff_eq, reduceCtorEq, or_false]
    intro hp
    exact hno (List.mem_map.2 ⟨x, hx, hp⟩)

/-- the ORIGINAL entry of a file visible at seal time, whatever generations follow -/
theorem SealedGen.findOriginal_cons (hs : SealedGen env t hit formats g) (hn : t.NamesOk) (hf : formats ≠ [])
    (k : Nat) (rest : List LGen) (p : RelPath) (hp : (p, false) ∈ visiblePaths hit t) :
    findOriginal (⟨k, g⟩ :: rest) (posix p) = some (mkOrig env (fileContent t p) (firstFormat formats)) := by
  obtain ⟨r, hfind, -, -, hents⟩ := hs.find_file hn p hp
  simp only [findOriginal, List.findSome?_cons, hfind, hents,
    origEntries_find_original env _ formats hf]

/-- the FIRST entry recorded for a file visible at seal time -/
theorem SealedGen.findFirstAny_cons (hs : SealedGen env t hit formats g) (hn : t.NamesOk) (hf : formats ≠ [])
    (k : Nat) (rest : List LGen) (p : RelPath) (hp : (p, false) ∈ visiblePaths hit t) :
    findFirstAny (⟨k, g⟩ :: rest) (posix p) = some (mkOrig env (fileContent t p) (firstFormat formats)) := by
  obtain ⟨r, hfind, -, -, hents⟩ := hs.find_file hn p hp
  simp only [findFirstAny, List.findSome?_cons, hfind, hents, origEntries_head env _ formats hf]

theorem mem_expectedPaths_flat (gens : List LGen) (chain : List ChainEntry) (e : Bool) (q : RelPath) :
    q ∈ expectedPaths (.mk [] gens chain e []) ↔ q ∈ expectedOfGens [] gens := by
  simp only [expectedPaths, allDescendants, descList, List.foldl_cons, List.foldl_nil, Hist.root, Hist.gens]
  rw [mem_foldl_appendNew']
  simp

/-- every visible path at seal time is expected -/
theorem SealedGen.expected_of_visible (hs : SealedGen env t hit formats g) (hn : t.NamesOk) (k : Nat)
    (chain : List ChainEntry) (e : Bool) (p : RelPath) (d : Bool) (hp : (p, d) ∈ visiblePaths hit t) :
    p ∈ expectedPaths (.mk [] [⟨k, g⟩] chain e []) := by
  rw [mem_expectedPaths_flat]
  obtain ⟨r, hr, hpath⟩ := List.mem_map.1 ((hs.paths (posix p)).2 ⟨(p, d), hp, rfl⟩)
  have := MhlProps.C17.recorded_expected [] [] ⟨k, g⟩ [] r hr (by simp)
  rw [hpath, splitPath_posix (visible_names_ok hit t hn _ hp).2] at this
  simpa using this

/-- a path is "new" for the history holding just `g` iff its text is no record path -/
theorem isNewPath_single (k : Nat) (chain : List ChainEntry) (e : Bool) (p : RelPath) :
    isNewPath (.mk [] [⟨k, g⟩] chain e []) p = true ↔ posix p ∉ g.records.map (·.path) := by
  simp [isNewPath, Hist.gens]

end sealed

/-- what the commands need to know about the generation `create -dr` wrote after the move of `a` to `b` -/
structure RenamedGen (hit : RelPath → Bool) (t2 : Node) (a b : RelPath) (g : Generation) : Prop where
  nodup : (g.records.map (·.path)).Nodup
  paths : ∀ s, s ∈ g.records.map (·.path) ↔ ∃ x ∈ visiblePaths hit t2, posix x.1 = s
  prevB : ∀ r ∈ g.records, r.path = posix b → r.prev = some (posix a)
  prevOther : ∀ r ∈ g.records, r.path ≠ posix b → r.prev = none

variable {env : Env} {hit : RelPath → Bool} {rn : String} {cs cs2 : List Node} {a b : RelPath} {c : Bytes}
  {formats : List String} {g1 g2 : Generation}

/-- verify / diff after the rename was recorded: every visible file of the moved tree is judged ok, on any tree
`t3` that holds the same file contents -/
theorem judge_after_rename (hM : Moved hit rn cs cs2 a b c) (hn : (Node.dir rn cs none).NamesOk)
    (hf : formats ≠ []) (hs1 : SealedGen env (.dir rn cs none) hit formats g1)
    (hs2 : RenamedGen hit (.dir rn cs2 none) a b g2) (chain : List ChainEntry) (ex : Bool) (t3 : Node)
    (hashing : Bool) (p : RelPath) (hp : (p, false) ∈ visiblePaths hit (.dir rn cs2 none))
    (hcont : fileContent t3 p = fileContent (.dir rn cs2 none) p) :
    judgeFile env t3 (.mk [] [⟨1, g1⟩, ⟨2, g2⟩] chain ex []) hashing p = .ok := by
  unfold judgeFile
  rw [route_flat _ rfl p]
  simp only [Hist.gens]
  have hbok := (visible_names_ok hit _ hM.namesOk _ hM.dstVisible).2
  by_cases hpb : p = b
  · subst hpb
    have hname : recordedName [⟨1, g1⟩, ⟨2, g2⟩] (posix p) = posix a := by
      have := MhlProps.C17.recordedName_step [⟨1, g1⟩] ⟨2, g2⟩ [] (posix p) (posix a)
        (by
          intro g' hg' r hr _
          simp only [List.mem_singleton] at hg'
          subst hg'
          exact hs1.prev r hr)
        (by
          obtain ⟨r, hr, hrp⟩ := List.mem_map.1 ((hs2.paths (posix p)).2 ⟨(p, false), hp, rfl⟩)
          exact ⟨r, hr, hrp⟩)
        (fun r hr hrp => hs2.prevB r hr hrp)
        (by intro g' hg'; cases hg')
      simpa using this
    rw [hname, hs1.findOriginal_cons hn hf 1 _ a hM.srcVisible]
    simp only [mkOrig, hcont, hM.dstContent, hM.srcContent]
    simp
  · have hp0 : (p, false) ∈ visiblePaths hit (.dir rn cs none) ∧ p ≠ a := by
      rcases (hM.vis p false).1 hp with h | ⟨h, -⟩
      · exact h
      · exact absurd h hpb
    have hpok := (visible_names_ok hit _ hM.namesOk _ hp).2
    have hname : recordedName [⟨1, g1⟩, ⟨2, g2⟩] (posix p) = posix p := by
      apply MhlProps.C17.recordedName_id
      intro g' hg' r hr hrp
      simp only [List.mem_cons, List.not_mem_nil, or_false] at hg'
      rcases hg' with rfl | rfl
      · exact hs1.prev r hr
      · apply hs2.prevOther r hr
        rw [hrp]
        exact fun h => hpb (posix_inj hpok hbok h)
    rw [hname, hs1.findOriginal_cons hn hf 1 _ p hp0.1]
    simp only [mkOrig, hcont, hM.content p hp0.1 hp0.2]
    simp

/-- after the rename was recorded the expected paths are visible paths of the moved tree: the old path is dropped -/
theorem expected_after_rename (hM : Moved hit rn cs cs2 a b c) (hn : (Node.dir rn cs none).NamesOk)
    (hs1 : SealedGen env (.dir rn cs none) hit formats g1)
    (hs2 : RenamedGen hit (.dir rn cs2 none) a b g2) (chain : List ChainEntry) (ex : Bool) (q : RelPath)
    (hq : q ∈ expectedPaths (.mk [] [⟨1, g1⟩, ⟨2, g2⟩] chain ex [])) :
    ∃ d, (q, d) ∈ visiblePaths hit (.dir rn cs2 none) := by
  rw [mem_expectedPaths_flat] at hq
  have hq' := (MhlProps.C17.expected_drops_previous [] [⟨1, g1⟩] ⟨2, g2⟩ q).1 hq
  rcases hq' with ⟨h1, h2⟩ | ⟨r, hr, rfl⟩
  · obtain ⟨d, hd⟩ := hs1.expected hn 1 [] true q ((mem_expectedPaths_flat _ _ _ _).2 h1)
    refine ⟨d, (hM.vis q d).2 (Or.inl ⟨hd, ?_⟩)⟩
    rintro rfl
    apply h2
    obtain ⟨r, hr, hrp⟩ := List.mem_map.1 ((hs2.paths (posix b)).2 ⟨(b, false), hM.dstVisible, rfl⟩)
    refine ⟨r, hr, posix q, hs2.prevB r hr hrp, ?_⟩
    rw [splitPath_posix (visible_names_ok hit _ hn _ hM.srcVisible).2]
    rfl
  · obtain ⟨x, hx, hxs⟩ := (hs2.paths r.path).1 (List.mem_map_of_mem hr)
    obtain ⟨p, d⟩ := x
    refine ⟨d, ?_⟩
    simp only at hxs
    rw [← hxs, List.nil_append, splitPath_posix (visible_names_ok hit _ hM.namesOk _ hx).2]
    exact hx

/-- the folder holding the generations `w` (number 1) and `w2` (number 2) loads as the history with both -/
theorem loadHistory_secondStore (rn : String) (cs : List Node) (hflat : noNested (.dir rn cs none) = true)
    (w w2 : Written) (hparse : parseGenName w.gen.fileName = some 1) (hstate : w.gen.state = .ok)
    (hparse2 : parseGenName w2.gen.fileName = some 2) (hstate2 : w2.gen.state = .ok) :
    loadHistory (.dir rn cs (some ((firstStore w).add w2))) =
      .ok (.mk [] [⟨1, w.gen⟩, ⟨2, w2.gen⟩]
        [⟨w.number, w.gen.fileName⟩, ⟨w2.number, w2.gen.fileName⟩] true []) := by
  unfold loadHistory
  have hflat' : noNested (.dir rn cs (some ((firstStore w).add w2))) = true := hflat
  rw [findChildren_noNested _ [] hflat']
  have hchk : checkStore (some ((firstStore w).add w2)) = .ok () := by
    have hname : ¬ w.gen.fileName = w2.gen.fileName := by
      intro h; rw [h, hparse2] at hparse; cases hparse
    have hname' : ¬ w2.gen.fileName = w.gen.fileName := fun h => hname h.symm
    simp [checkStore, firstStore, HistStore.add, checkChain, hstate, hstate2, hname, hname', pure, Except.pure,
      bind, Except.bind]
  have hg1 : loadGens (firstStore w) = [⟨1, w.gen⟩] := by
    have := MhlProps.C06.loadGens_add_lt {} w 1 hparse hstate (by simp [loadGens])
    rw [firstStore, this]
    rfl
  have hg : loadGens ((firstStore w).add w2) = [⟨1, w.gen⟩, ⟨2, w2.gen⟩] := by
    rw [MhlProps.C06.loadGens_add_lt (firstStore w) w2 2 hparse2 hstate2 (by rw [hg1]; simp), hg1]
    rfl
  simp only [Node.hist, hchk, bind, Except.bind, pure, Except.pure, buildHist, hg]
  rfl

/-- a path no generation knows: every requested format is recorded, as `original` -/
theorem sealEntries_unknown (gens : List LGen) (p : String) (dig : String → String) (req : List String)
    (hno : ∀ g ∈ gens, g.gen.find p = none) :
    (sealEntries gens p dig req).1 =
      (req.foldl appendNew []).map fun f => ({ fmt := f, digest := dig f, action := "original" } : Entry) := by
  have he : existingFormats gens p = [] := by
    unfold existingFormats
    apply MhlProps.C17.foldl_invariant (fun acc : List String => acc = [])
    · intro acc g hg hacc
      simp [existingStep, hno g hg, hacc]
    · rfl
  have ho : findOriginal gens p = none := by
    unfold findOriginal
    rw [List.findSome?_eq_none_iff]
    intro g hg
    simp [hno g hg]
  simp [sealEntries, he, formatsToGenerate, baseFormats, decideAction, ho]

/-- the generation written from the session of a run over the moved tree, with the previous path of the record of
`b` set, is a `RenamedGen`; the record of `b` carries one `original` entry per requested format with the digest of
the file's content -/
theorem renamedGen_of_run (env : Env) (t : Node) (o : CreateOpts) (rootHist : Hist) (hc : rootHist.children = [])
    (hr : rootHist.root = []) (hd : t.NamesDistinct) (hn : t.NamesOk) (hf : o.formats ≠ []) (a b : RelPath)
    (hb : (b, false) ∈ visiblePaths (cHit env rootHist o) t)
    (hunknown : ∀ g ∈ rootHist.gens, g.gen.find (posix b) = none) (g2 : Generation)
    (hrecs : g2.records =
      (setPrevList ((cSession env t rootHist o).get []) (posix b) (posix a)).records.map finalRec) :
    RenamedGen (cHit env rootHist o) t a b g2 ∧
    ∃ r ∈ g2.records, r.path = posix b ∧ r.prev = some (posix a) ∧ r.isDir = false ∧
      r.size = some (fileContent t b).length ∧
      (∀ e ∈ r.entries, e.action = "original" ∧ e.digest = env.H e.fmt (fileContent t b)) ∧
      (∀ f ∈ o.formats, ∃ e ∈ r.entries, e.fmt = f) := by
  have hfm : isort strLe o.formats ≠ [] := by
    intro h0
    have := length_isort strLe o.formats
    rw [h0] at this
    exact hf (List.length_eq_zero_iff.1 this.symm)
  obtain ⟨-, -, -, hfor, hperm, hnodup, hfiles, -⟩ :=
    createVisit_records env t rootHist hc hr hd hn (isort strLe o.formats) hfm o.noDirHashes
      (setPatterns (latestIgnore rootHist.gens) o.ignoreCli o.ignoreFile) (cHit env rootHist o)
  change List.Forall₂ _ _ ((cSession env t rootHist o).get []).records at hfor
  change (((cSession env t rootHist o).get []).records.map (fun r => (r.path, r.isDir))).Perm _ at hperm
  change (((cSession env t rootHist o).get []).records.map (·.path)).Nodup at hnodup
  change ∀ p, _ → ∃ r ∈ ((cSession env t rootHist o).get []).records, _ at hfiles
  generalize (cSession env t rootHist o).get [] = nl at hfor hperm hnodup hfiles hrecs
  have hpaths : g2.records.map (·.path) = nl.records.map (·.path) := by
    rw [hrecs]
    simp only [setPrevList, List.map_map]
    apply List.map_congr_left
    intro r _
    simp only [Function.comp, finalRec_path]
    split <;> rfl
  have hmem : ∀ r ∈ g2.records, ∃ r0 ∈ nl.records, r0.prev = none ∧
      r = finalRec (if r0.path == posix b then { r0 with prev := some (posix a) } else r0) := by
    intro r hrm
    rw [hrecs] at hrm
    simp only [setPrevList, List.map_map, List.mem_map, Function.comp] at hrm
    obtain ⟨r0, hr0, rfl⟩ := hrm
    obtain ⟨x, -, hrf⟩ := forall₂_mem_right_sv hfor r0 hr0
    exact ⟨r0, hr0, hrf.2.2.1, rfl⟩
  refine ⟨⟨by rw [hpaths]; exact hnodup, ?_, ?_, ?_⟩, ?_⟩
  · intro s
    rw [hpaths]
    have h1 : s ∈ nl.records.map (·.path) ↔ s ∈ (nl.records.map fun r => (r.path, r.isDir)).map (·.1) := by
      simp [List.map_map, Function.comp_def]
    rw [h1, (hperm.map (·.1)).mem_iff]
    simp only [List.map_map, List.mem_map, Function.comp]
  · intro r hrm hrp
    obtain ⟨r0, -, -, rfl⟩ := hmem r hrm
    rw [finalRec_path] at hrp
    rw [finalRec_prev]
    by_cases h0 : (r0.path == posix b) = true
    · simp [h0]
    · exfalso
      simp only [h0, Bool.false_eq_true, if_false] at hrp
      exact h0 (by simpa using hrp)
  · intro r hrm hrp
    obtain ⟨r0, -, hprev, rfl⟩ := hmem r hrm
    rw [finalRec_path] at hrp
    rw [finalRec_prev]
    by_cases h0 : (r0.path == posix b) = true
    · exfalso
      simp only [h0, if_true] at hrp
      exact hrp (by simpa using h0)
    · simp [h0, hprev]
  · obtain ⟨r0, hr0, hpath, hdir, -, hsize, hents⟩ := hfiles b hb
    rw [sealEntries_unknown _ _ _ _ hunknown] at hents
    have hb0 : (r0.path == posix b) = true := by simp [hpath]
    refine ⟨finalRec { r0 with prev := some (posix a) }, ?_, ?_, ?_, ?_, ?_, ?_, ?_⟩
    · rw [hrecs]
      simp only [setPrevList, List.map_map, List.mem_map, Function.comp]
      exact ⟨r0, hr0, by simp [hb0]⟩
    · rw [finalRec_path]; exact hpath
    · rw [finalRec_prev]
    · rw [finalRec_isDir]; exact hdir
    · rw [finalRec_size]; exact hsize
    · intro e he
      have := (finalRec_entries { r0 with prev := some (posix a) }).mem_iff.1 he
      simp only [hents, List.map_map, List.mem_map, Function.comp] at this
      obtain ⟨f, -, rfl⟩ := this
      simp [relabel]
    · intro f hfreq
      refine ⟨relabel { fmt := f, digest := env.H f (fileContent t b), action := "original" }, ?_, by simp [relabel]⟩
      apply (finalRec_entries { r0 with prev := some (posix a) }).mem_iff.2
      simp only [hents, List.map_map, List.mem_map, Function.comp]
      refine ⟨f, ?_, rfl⟩
      exact (mem_foldl_appendNew' _ _ _).2 (Or.inr ((mem_isort _ _ _).2 hfreq))

/-- every entry of a file record of the generation written from the run carries the digest of the file's content -/
theorem run_digests (env : Env) (t : Node) (o : CreateOpts) (rootHist : Hist) (hc : rootHist.children = [])
    (hr : rootHist.root = []) (hd : t.NamesDistinct) (hn : t.NamesOk) (hf : o.formats ≠ []) (k old : String)
    (g2 : Generation)
    (hrecs : g2.records = (setPrevList ((cSession env t rootHist o).get []) k old).records.map finalRec)
    (p : RelPath) (hp : (p, false) ∈ visiblePaths (cHit env rootHist o) t) :
    ∀ r ∈ g2.records, r.path = posix p → ∀ e ∈ r.entries, e.digest = env.H e.fmt (fileContent t p) := by
  have hfm : isort strLe o.formats ≠ [] := by
    intro h0
    have := length_isort strLe o.formats
    rw [h0] at this
    exact hf (List.length_eq_zero_iff.1 this.symm)
  obtain ⟨-, -, -, -, -, hnodup, hfiles, -⟩ :=
    createVisit_records env t rootHist hc hr hd hn (isort strLe o.formats) hfm o.noDirHashes
      (setPatterns (latestIgnore rootHist.gens) o.ignoreCli o.ignoreFile) (cHit env rootHist o)
  change (((cSession env t rootHist o).get []).records.map (·.path)).Nodup at hnodup
  change ∀ p, _ → ∃ r ∈ ((cSession env t rootHist o).get []).records, _ at hfiles
  generalize (cSession env t rootHist o).get [] = nl at hnodup hfiles hrecs
  intro r hrm hrp e he
  rw [hrecs] at hrm
  simp only [setPrevList, List.map_map, List.mem_map, Function.comp] at hrm
  obtain ⟨r0, hr0, rfl⟩ := hrm
  obtain ⟨r1, hr1, hpath1, -, -, -, hents1⟩ := hfiles p hp
  have hp0 : r0.path = posix p := by
    rw [finalRec_path] at hrp
    split at hrp <;> exact hrp
  have : r0 = r1 := record_unique hnodup hr0 hr1 (hp0.trans hpath1.symm)
  subst this
  have hmem := (finalRec_entries _).mem_iff.1 he
  have hentries : (if (r0.path == k) = true then { r0 with prev := some old } else r0).entries = r0.entries := by
    split <;> rfl
  rw [hentries, hents1] at hmem
  obtain ⟨e0, he0, rfl⟩ := List.mem_map.1 hmem
  rw [relabel_digest, relabel_fmt]
  exact sealEntries_digest _ _ _ _ e0 he0

/-- what `find_media_hash_for_path` can return: a record with that path or that previous path, or the root record -/
theorem Generation.find_cases (g : Generation) (s : String) (r : Record) (h : g.find s = some r) :
    (r ∈ g.records ∧ (r.path = s ∨ r.prev = some s)) ∨ s = "." := by
  unfold Generation.find at h
  have hm := List.mem_reverse.1 (List.mem_of_find?_eq_some h)
  have hp := List.find?_some h
  rcases List.mem_append.1 hm with hm | hm
  · right
    cases hrh : g.rootHash with
    | none => simp [hrh] at hm
    | some es =>
      simp only [hrh, List.mem_singleton] at hm
      subst hm
      have : "." = s := by simpa using hp
      exact this.symm
  · left
    refine ⟨hm, ?_⟩
    simpa using hp

/-- after the rename was recorded every visible file is unaltered with respect to BOTH generations: a further
`create` verifies it -/
theorem firstOk_after_rename {env : Env} {hit : RelPath → Bool} {rn : String} {cs cs2 : List Node} {a b : RelPath}
    {c : Bytes} {formats : List String} {g1 g2 : Generation}
    (hM : Moved hit rn cs cs2 a b c) (hn : (Node.dir rn cs none).NamesOk)
    (hs1 : SealedGen env (.dir rn cs none) hit formats g1)
    (hs2 : RenamedGen hit (.dir rn cs2 none) a b g2)
    (hdig : ∀ p, (p, false) ∈ visiblePaths hit (.dir rn cs2 none) → ∀ r ∈ g2.records, r.path = posix p →
      ∀ e ∈ r.entries, e.digest = env.H e.fmt (fileContent (.dir rn cs2 none) p))
    (p : RelPath) (hp : (p, false) ∈ visiblePaths hit (.dir rn cs2 none)) :
    FirstOk (fun f => env.H f (fileContent (.dir rn cs2 none) p)) [⟨1, g1⟩, ⟨2, g2⟩] (posix p) := by
  intro fmt e he
  obtain ⟨g, hg, r, hfind, hmem, hfmt⟩ := findFirstOfFormat_spec _ _ _ _ he
  obtain ⟨hne, hpok⟩ := visible_names_ok hit _ hM.namesOk _ hp
  have hdot : posix p ≠ "." := fun h => hne ((posix_eq_dot hpok).1 h)
  have hbok := (visible_names_ok hit _ hM.namesOk _ hM.dstVisible).2
  have haok := (visible_names_ok hit _ hn _ hM.srcVisible).2
  simp only [List.mem_cons, List.not_mem_nil, or_false] at hg
  rcases hg with rfl | rfl
  · -- generation 1
    by_cases hpb : p = b
    · subst hpb
      have hnot : posix p ∉ g1.records.map (·.path) := by
        intro hin
        obtain ⟨⟨q, d⟩, hx, hxs⟩ := (hs1.paths (posix p)).1 hin
        have : q = p := posix_inj (visible_names_ok _ _ hn _ hx).2 hpok hxs
        subst this
        exact hM.dstFresh d hx
      have : g1.find (posix p) = none := hs1.find_none _ hdot hnot
      simp only at hfind
      rw [this] at hfind
      cases hfind
    · have hp0 : (p, false) ∈ visiblePaths hit (.dir rn cs none) ∧ p ≠ a := by
        rcases (hM.vis p false).1 hp with h | ⟨h, -⟩
        · exact h
        · exact absurd h hpb
      obtain ⟨r1, hf1, -, -, hents⟩ := hs1.find_file hn p hp0.1
      simp only at hfind
      rw [hf1] at hfind
      cases hfind
      rw [hents] at hmem
      rw [← hfmt, hM.content p hp0.1 hp0.2]
      exact (origEntries_spec env _ formats e hmem).2.1
  · -- generation 2
    simp only at hfind
    rcases Generation.find_cases g2 _ r hfind with ⟨hrm, hpath | hprev⟩ | hd
    · rw [← hfmt]
      exact hdig p hp r hrm hpath e hmem
    · exfalso
      by_cases hrb : r.path = posix b
      · rw [hs2.prevB r hrm hrb] at hprev
        have : a = p := posix_inj haok hpok (Option.some.inj hprev)
        subst this
        exact hM.srcGone false hp
      · rw [hs2.prevOther r hrm hrb] at hprev
        cases hprev
    · exact absurd hd hdot

end twoGens

/-! ## G. the same move without `-dr` -/

section noDr
open MhlProps.C02rec MhlProps.C04

/-- the one expected path that is gone, and not ignored, is the missing list -/
theorem missing_single (hit : RelPath → Bool) (E F : List RelPath) (a : RelPath) (hnd : E.Nodup) (ha : a ∈ E)
    (haF : a ∉ F) (hhit : hitAbove hit a = false) (hrest : ∀ p ∈ E, p ≠ a → p ∈ F) :
    missingAfter hit (E.filter fun p => !F.contains p) = [a] := by
  unfold missingAfter
  rw [List.filter_filter]
  apply filter_eq_singleton _ _ _ hnd ha
  intro x hx
  simp only [Bool.and_eq_true, Bool.not_eq_true', List.contains_eq_mem, decide_eq_false_iff_not]
  constructor
  · rintro ⟨-, hxF⟩
    by_contra hne
    exact hxF (hrest x hx hne)
  · rintro rfl
    exact ⟨hhit, haF⟩

/-- folder-mode `create` without `-dr` on a flat history over unaltered files: one generation is written, nothing
failed, and the exit code is decided by the missing list alone -/
theorem createFolder_flat_outcome (env : Env) (t : Node) (o : CreateOpts) (rootHist : Hist)
    (hl : loadHistory t = .ok rootHist) (hc : rootHist.children = []) (hd : t.NamesDistinct) (hn : t.NamesOk)
    (hf : o.formats ≠ []) (hdr : o.detectRenaming = false) (hdir : t.isDir = true)
    (hfirst : ∀ p, (p, false) ∈ visiblePaths (cHit env rootHist o) t →
      FirstOk (fun f => env.H f (fileContent t p)) rootHist.gens (posix p))
    (hrefs : ∀ g, rootHist.gens.getLast? = some g → g.gen.refs = []) :
    ∃ w, createFolder env t o =
      { err := createExit 0 (cMissing env t rootHist o) [],
        report := { mismatch := [], missing := (cMissing env t rootHist o).map posix, renamed := [] },
        written := [w] } := by
  have hr := loadHistory_root t rootHist hl
  have hfm : isort strLe o.formats ≠ [] := by
    intro h0
    have := length_isort strLe o.formats
    rw [h0] at this
    exact hf (List.length_eq_zero_iff.1 this.symm)
  obtain ⟨-, -, hroot, -, -, -, -, hlists⟩ :=
    createVisit_records env t rootHist hc hr hd hn (isort strLe o.formats) hfm o.noDirHashes
      (setPatterns (latestIgnore rootHist.gens) o.ignoreCli o.ignoreFile) (cHit env rootHist o)
  change ((cSession env t rootHist o).get []).root = [] at hroot
  change t.isDir = true → (cSession env t rootHist o).lists = [(cSession env t rootHist o).get []] ∧ _ at hlists
  obtain ⟨hlist1, -⟩ := hlists hdir
  have hin : (cSession env t rootHist o).lists.any (fun l => l.root == rootHist.root) = true := by
    rw [hlist1, hr]; simp [hroot]
  have hv := cSession_validates env t o rootHist hc hr hd hn hf hfirst
  rw [← hr] at hv
  obtain ⟨w, hcm, -⟩ := commit_flat_ok_sv rootHist hc (cSession env t rootHist o) env.rootName env.stamp "in-place"
    none hin hv
  obtain ⟨hfail, hmism⟩ := cState_failed env t o rootHist hc hfirst
  have hmh : cMissingHist t rootHist = [] := by
    unfold cMissingHist
    cases hg : rootHist.gens.getLast? with
    | none => rfl
    | some g => simp only [hrefs g hg, List.filterMap_nil]
  refine ⟨w, ?_⟩
  rw [createFolder_eq env t o rootHist hl hdr [w] hcm, hfail, hmism, hmh]

end noDr

/-! ## H. moving a file with the model's tree operations -/

section move

/-- remove the child named `n` from a folder -/
def removeChild (n : String) : Node → Node
  | .dir nm cs h => .dir nm (cs.filter fun c => c.name != n) h
  | x => x

/-- add the child `x` to a folder (at the end of the stored order; the commands sort by name) -/
def addChild (x : Node) : Node → Node
  | .dir nm cs h => .dir nm (cs ++ [x]) h
  | y => y

/-- move the file named `na` in the folder `pa` to the folder `pb` under the name `nb`, with content `c`: the node
is removed from `pa` and a file node `nb` with the content is added to `pb` -/
def moveFile (t : Node) (pa : RelPath) (na : String) (pb : RelPath) (nb : String) (c : Bytes) : Node :=
  Node.updateAt (addChild (.file nb c)) (Node.updateAt (removeChild na) t pa) pb

theorem removeChild_name (n : String) (x : Node) : (removeChild n x).name = x.name := by cases x <;> rfl
theorem removeChild_isDir (n : String) (x : Node) : (removeChild n x).isDir = x.isDir := by cases x <;> rfl
theorem removeChild_hist (n : String) (x : Node) : (removeChild n x).hist = x.hist := by cases x <;> rfl
theorem addChild_name (y x : Node) : (addChild y x).name = x.name := by cases x <;> rfl
theorem addChild_isDir (y x : Node) : (addChild y x).isDir = x.isDir := by cases x <;> rfl
theorem addChild_hist (y x : Node) : (addChild y x).hist = x.hist := by cases x <;> rfl

theorem updateAt_nil (f : Node → Node) (t : Node) : Node.updateAt f t [] = f t := by
  cases t <;> simp [Node.updateAt]

theorem updateAt_isDir (f : Node → Node) (hf : ∀ x, (f x).isDir = x.isDir) (t : Node) (p : RelPath) :
    (Node.updateAt f t p).isDir = t.isDir := by
  cases p with
  | nil => rw [updateAt_nil, hf]
  | cons n rest => cases t <;> simp [Node.updateAt, Node.isDir]

theorem updateAt_hist (f : Node → Node) (hf : ∀ x, (f x).hist = x.hist) (t : Node) (p : RelPath) :
    (Node.updateAt f t p).hist = t.hist := by
  cases p with
  | nil => rw [updateAt_nil, hf]
  | cons n rest => cases t <;> simp [Node.updateAt, Node.hist]

theorem updateKids_eq_map (f : Node → Node) (n : String) (rest : RelPath) (cs : List Node) :
    Node.updateKids f n rest cs = cs.map fun c => if c.name == n then Node.updateAt f c rest else c := by
  induction cs with
  | nil => simp [Node.updateKids]
  | cons c cs ih => simp [Node.updateKids, ih]

/-- a node on the way to the updated node: the same node with the update applied further down -/
theorem updateAt_at?_prefix (f : Node → Node) (hf : ∀ x, (f x).name = x.name) (t : Node) (p r : RelPath) :
    (Node.updateAt f t (p ++ r)).at? p = (t.at? p).map fun n => Node.updateAt f n r := by
  induction p generalizing t with
  | nil => simp [Node.at?_nil]
  | cons m p' ih =>
    cases t with
    | file nm c => simp [Node.updateAt, Node.at?]
    | dir nm cs h =>
      simp only [List.cons_append, Node.updateAt, Node.at?_dir_cons]
      rw [findChild_updateKids_eq f hf]
      cases findChild cs m with
      | none => rfl
      | some c => simpa using ih c

/-- a node below the updated node -/
theorem updateAt_at?_below (f : Node → Node) (hf : ∀ x, (f x).name = x.name) (t : Node) (q rest : RelPath) :
    (Node.updateAt f t q).at? (q ++ rest) = ((t.at? q).map f).bind (·.at? rest) := by
  rw [Node.at?_append, MhlProps.C06.updateAt_at?_self f hf]

theorem prefix_trichotomy (p q : RelPath) :
    p <+: q ∨ (∃ m rest, p = q ++ m :: rest) ∨ (¬ p <+: q ∧ ¬ q <+: p) := by
  by_cases h1 : p <+: q
  · exact Or.inl h1
  · by_cases h2 : q <+: p
    · obtain ⟨r, rfl⟩ := h2
      cases r with
      | nil => exact absurd (by simp) h1
      | cons m rest => exact Or.inr (Or.inl ⟨m, rest, rfl⟩)
    · exact Or.inr (Or.inr ⟨h1, h2⟩)

theorem removeChild_at? (na : String) (n : Node) (m : String) (rest : RelPath) :
    (removeChild na n).at? (m :: rest) = if m = na then none else n.at? (m :: rest) := by
  cases n with
  | file nm c => simp [removeChild, Node.at?]
  | dir nm cs h =>
    simp only [removeChild, Node.at?_dir_cons]
    have : findChild (cs.filter fun c => c.name != na) m = if m = na then none else findChild cs m := by
      unfold findChild
      rw [List.find?_filter]
      by_cases hm : m = na
      · subst hm
        simp only [if_true]
        rw [List.find?_eq_none]
        intro x _
        by_cases hx : x.name = m <;> simp [hx]
      · simp only [hm, if_false]
        congr 1
        funext x
        by_cases hx : x.name = m
        · simp [hx, hm]
        · simp [hx]
    rw [this]
    split <;> simp

theorem addChild_at? (x : Node) (nm : String) (cs : List Node) (h : Option HistStore) (m : String)
    (rest : RelPath) :
    (addChild x (.dir nm cs h)).at? (m :: rest) =
      match findChild cs m with
      | some c => c.at? rest
      | none => if x.name = m then x.at? rest else none := by
  simp only [addChild, Node.at?_dir_cons]
  unfold findChild
  rw [List.find?_append]
  cases hf : cs.find? (fun c => c.name == m) with
  | some c => simp
  | none =>
    by_cases hx : x.name = m
    · simp [hx]
    · simp [hx]

/-- the tree has a node of kind `d` (is-directory flag) at `p` -/
def Has (T : Node) (p : RelPath) (d : Bool) : Prop := ∃ n, T.at? p = some n ∧ n.isDir = d

theorem at?_below_file {t : Node} {a : RelPath} {nm : String} {c : Bytes} (ha : t.at? a = some (.file nm c))
    (m : String) (rest : RelPath) : t.at? (a ++ m :: rest) = none := by
  rw [Node.at?_append, ha]
  simp [Node.at?]

theorem at?_below_none {t : Node} {b : RelPath} (hb : t.at? b = none) (rest : RelPath) : t.at? (b ++ rest) = none := by
  rw [Node.at?_append, hb]
  rfl

section remove
variable (t0 : Node) (pa : RelPath) (na : String) (nmA : String) (cA : Bytes)
  (ha : t0.at? (pa ++ [na]) = some (.file nmA cA))
include ha

/-- after the removal: a path that is not on the way to the folder `pa` -/
theorem removeAt_at? (p : RelPath) (hp : ¬ p <+: pa) :
    (Node.updateAt (removeChild na) t0 pa).at? p = if p = pa ++ [na] then none else t0.at? p := by
  rcases prefix_trichotomy p pa with h | ⟨m, rest, rfl⟩ | ⟨h1, h2⟩
  · exact absurd h hp
  · rw [updateAt_at?_below _ (removeChild_name na)]
    have h0 : t0.at? (pa ++ m :: rest) = (t0.at? pa).bind (·.at? (m :: rest)) := Node.at?_append _ _ _
    cases hpa : t0.at? pa with
    | none =>
      rw [hpa] at h0
      simp only [Option.map_none, Option.bind_none]
      split
      · rfl
      · exact h0.symm
    | some n =>
      rw [hpa] at h0
      simp only [Option.map_some, Option.bind_some, removeChild_at?]
      by_cases hm : m = na
      · subst hm
        simp only [if_true]
        cases rest with
        | nil => simp
        | cons m' rest' =>
          have : t0.at? (pa ++ m :: m' :: rest') = none := by
            have := at?_below_file ha m' rest'
            simpa using this
          rw [this]
          simp
      · have hne : pa ++ m :: rest ≠ pa ++ [na] := by
          intro h
          have := List.append_cancel_left h
          simp only [List.cons.injEq] at this
          exact hm this.1
        simp only [hm, if_false, hne]
        exact h0.symm
  · rw [MhlProps.C06.updateAt_at?_disjoint _ (removeChild_name na) t0 pa p h2 h1]
    have hne : p ≠ pa ++ [na] := by
      rintro rfl
      exact h2 (List.prefix_append _ _)
    simp [hne]

theorem removeAt_has (p : RelPath) (d : Bool) :
    Has (Node.updateAt (removeChild na) t0 pa) p d ↔ Has t0 p d ∧ p ≠ pa ++ [na] := by
  by_cases hp : p <+: pa
  · obtain ⟨r, rfl⟩ := hp
    have hne : p ≠ (p ++ r) ++ [na] := by
      intro h
      have := congrArg List.length h
      simp at this
    unfold Has
    rw [updateAt_at?_prefix _ (removeChild_name na)]
    constructor
    · rintro ⟨n, hn, hd⟩
      cases h0 : t0.at? p with
      | none => simp [h0] at hn
      | some n0 =>
        simp only [h0, Option.map_some, Option.some.injEq] at hn
        subst hn
        rw [updateAt_isDir _ (removeChild_isDir na)] at hd
        exact ⟨⟨n0, rfl, hd⟩, hne⟩
    · rintro ⟨⟨n0, h0, hd⟩, -⟩
      exact ⟨_, by rw [h0]; rfl, by rw [updateAt_isDir _ (removeChild_isDir na)]; exact hd⟩
  · unfold Has
    rw [removeAt_at? t0 pa na nmA cA ha p hp]
    by_cases hpa : p = pa ++ [na]
    · simp [hpa]
    · simp [hpa]

/-- every other file is still there -/
theorem removeAt_file (p : RelPath) (nm : String) (c : Bytes) (hpf : t0.at? p = some (.file nm c))
    (hne : p ≠ pa ++ [na]) : (Node.updateAt (removeChild na) t0 pa).at? p = some (.file nm c) := by
  have hp : ¬ p <+: pa := by
    rintro ⟨r, rfl⟩
    have : t0.at? (p ++ (r ++ [na])) = some (.file nmA cA) := by simpa using ha
    cases hr : r ++ [na] with
    | nil => simp at hr
    | cons m rest =>
      rw [hr, at?_below_file hpf m rest] at this
      cases this
  rw [removeAt_at? t0 pa na nmA cA ha p hp, if_neg hne, hpf]

theorem removeAt_none (p : RelPath) (hpn : t0.at? p = none) :
    (Node.updateAt (removeChild na) t0 pa).at? p = none := by
  cases h : (Node.updateAt (removeChild na) t0 pa).at? p with
  | none => rfl
  | some n =>
    have := (removeAt_has t0 pa na nmA cA ha p n.isDir).1 ⟨n, h, rfl⟩
    obtain ⟨⟨n0, h0, -⟩, -⟩ := this
    rw [hpn] at h0
    cases h0

end remove

section add
variable (t1 : Node) (pb : RelPath) (nb : String) (c : Bytes)
  (hpb : Has t1 pb true) (hfresh : t1.at? (pb ++ [nb]) = none)
include hpb hfresh

/-- after the addition: a path that is not on the way to the folder `pb` -/
theorem addAt_at? (p : RelPath) (hp : ¬ p <+: pb) :
    (Node.updateAt (addChild (.file nb c)) t1 pb).at? p =
      if p = pb ++ [nb] then some (.file nb c) else t1.at? p := by
  obtain ⟨nB, hnB, hdirB⟩ := hpb
  rcases prefix_trichotomy p pb with h | ⟨m, rest, rfl⟩ | ⟨h1, h2⟩
  · exact absurd h hp
  · rw [updateAt_at?_below _ (addChild_name _), hnB]
    simp only [Option.map_some, Option.bind_some]
    have h0 : t1.at? (pb ++ m :: rest) = nB.at? (m :: rest) := by rw [Node.at?_append, hnB]; rfl
    have hf0 : nB.at? [nb] = none := by
      have : t1.at? (pb ++ [nb]) = nB.at? [nb] := by rw [Node.at?_append, hnB]; rfl
      rw [← this]; exact hfresh
    cases nB with
    | file _ _ => cases hdirB
    | dir nm cs h =>
      rw [addChild_at?]
      rw [Node.at?_dir_cons] at h0 hf0
      have hfn : findChild cs nb = none := by
        cases hfc : findChild cs nb with
        | none => rfl
        | some x => rw [hfc] at hf0; simp [Node.at?_nil] at hf0
      by_cases hm : m = nb
      · subst hm
        rw [hfn]
        simp only [Node.name, if_true]
        cases rest with
        | nil => simp [Node.at?_nil]
        | cons m' rest' =>
          rw [h0, hfn]
          simp [Node.at?]
      · have hne : pb ++ m :: rest ≠ pb ++ [nb] := by
          intro h
          have := List.append_cancel_left h
          simp only [List.cons.injEq] at this
          exact hm this.1
        rw [if_neg hne, h0]
        cases hfc : findChild cs m with
        | some x => rfl
        | none =>
          have : ¬ nb = m := fun h => hm h.symm
          simp [Node.name, this]
  · rw [MhlProps.C06.updateAt_at?_disjoint _ (addChild_name _) t1 pb p h2 h1]
    have hne : p ≠ pb ++ [nb] := by
      rintro rfl
      exact h2 (List.prefix_append _ _)
    simp [hne]

theorem addAt_has (p : RelPath) (d : Bool) :
    Has (Node.updateAt (addChild (.file nb c)) t1 pb) p d ↔ Has t1 p d ∨ (p = pb ++ [nb] ∧ d = false) := by
  by_cases hp : p <+: pb
  · obtain ⟨r, rfl⟩ := hp
    have hne : p ≠ (p ++ r) ++ [nb] := by
      intro h
      have := congrArg List.length h
      simp at this
    unfold Has
    rw [updateAt_at?_prefix _ (addChild_name _)]
    constructor
    · rintro ⟨n, hn, hd⟩
      cases h0 : t1.at? p with
      | none => simp [h0] at hn
      | some n0 =>
        simp only [h0, Option.map_some, Option.some.injEq] at hn
        subst hn
        rw [updateAt_isDir _ (addChild_isDir _)] at hd
        exact Or.inl ⟨n0, rfl, hd⟩
    · rintro (⟨n0, h0, hd⟩ | ⟨h, -⟩)
      · exact ⟨_, by rw [h0]; rfl, by rw [updateAt_isDir _ (addChild_isDir _)]; exact hd⟩
      · exact absurd h hne
  · unfold Has
    rw [addAt_at? t1 pb nb c hpb hfresh p hp]
    by_cases hpe : p = pb ++ [nb]
    · subst hpe
      simp only [if_true, Option.some.injEq, hfresh, reduceCtorEq, false_and, exists_false, true_and, false_or]
      constructor
      · rintro ⟨n, rfl, hd⟩; exact hd.symm
      · rintro rfl; exact ⟨_, rfl, rfl⟩
    · simp [hpe]

theorem addAt_file (p : RelPath) (nm : String) (c' : Bytes) (hpf : t1.at? p = some (.file nm c')) :
    (Node.updateAt (addChild (.file nb c)) t1 pb).at? p = some (.file nm c') := by
  have hp : ¬ p <+: pb := by
    rintro ⟨r, rfl⟩
    obtain ⟨nB, hnB, hdirB⟩ := hpb
    cases r with
    | nil =>
      rw [List.append_nil, hpf] at hnB
      cases hnB
      cases hdirB
    | cons m rest =>
      rw [at?_below_file hpf m rest] at hnB
      cases hnB
  have hne : p ≠ pb ++ [nb] := by
    rintro rfl
    rw [hfresh] at hpf
    cases hpf
  rw [addAt_at? t1 pb nb c hpb hfresh p hp, if_neg hne, hpf]

theorem addAt_dst : (Node.updateAt (addChild (.file nb c)) t1 pb).at? (pb ++ [nb]) = some (.file nb c) := by
  have hp : ¬ (pb ++ [nb]) <+: pb := by
    intro h
    have := h.length_le
    simp at this
    omega
  rw [addAt_at? t1 pb nb c hpb hfresh _ hp, if_pos rfl]

end add

/-! ### tree-wide properties under an update -/

/-- the condition `C` holds for every node `Node.updateAt f t q` applies `f` to -/
def OnPath (C : Node → Prop) : Node → RelPath → Prop
  | t, [] => C t
  | .file _ _, _ :: _ => True
  | .dir _ cs _, m :: rest => ∀ c ∈ cs, c.name = m → OnPath C c rest

theorem onPath_nil (C : Node → Prop) (t : Node) : OnPath C t [] ↔ C t := by
  cases t <;> simp [OnPath]

theorem onPath_of_forall (C : Node → Prop) (h : ∀ n, C n) : ∀ (q : RelPath) (t : Node), OnPath C t q := by
  intro q
  induction q with
  | nil => intro t; exact (onPath_nil C t).2 (h t)
  | cons m rest ih =>
    intro t
    cases t with
    | file _ _ => simp [OnPath]
    | dir nm cs hs =>
      simp only [OnPath]
      intro c _ _
      exact ih c

theorem onPath_of_at? (C : Node → Prop) : ∀ (q : RelPath) (t : Node), t.NamesDistinct →
    (∀ n, t.at? q = some n → C n) → OnPath C t q := by
  intro q
  induction q with
  | nil => intro t _ h; exact (onPath_nil C t).2 (h t (Node.at?_nil t))
  | cons m rest ih =>
    intro t hd h
    cases t with
    | file _ _ => simp [OnPath]
    | dir nm cs hs =>
      simp only [OnPath]
      intro c hc hname
      rw [Node.namesDistinct_dir] at hd
      apply ih c (hd.2 c hc)
      intro n hn
      apply h n
      rw [Node.at?_dir_cons, ← hname, findChild_of_mem hd.1 hc]
      exact hn

/-- a property of trees that is, for a folder, a condition on the (name, `ascmhl` folder) pairs of its children
plus the property of every child, is kept by an update that keeps names and `ascmhl` folders and keeps the
property at the updated node(s) -/
theorem updateAt_good (Good : Node → Prop) (L : List (String × Option HistStore) → Prop)
    (hfile : ∀ n c, Good (.file n c))
    (hdir : ∀ nm cs h, Good (.dir nm cs h) ↔ L (cs.map fun c => (c.name, c.hist)) ∧ ∀ c ∈ cs, Good c)
    (f : Node → Node) (hfn : ∀ x, (f x).name = x.name) (hfh : ∀ x, (f x).hist = x.hist) :
    ∀ (q : RelPath) (t : Node), Good t → OnPath (fun n => Good n → Good (f n)) t q →
      Good (Node.updateAt f t q) := by
  intro q
  induction q with
  | nil =>
    intro t hg hon
    rw [updateAt_nil]
    exact (onPath_nil _ t).1 hon hg
  | cons m rest ih =>
    intro t hg hon
    cases t with
    | file n c => simp only [Node.updateAt]; exact hfile n c
    | dir nm cs h =>
      simp only [Node.updateAt]
      rw [hdir] at hg ⊢
      rw [updateKids_eq_map]
      simp only [OnPath] at hon
      constructor
      · have : (cs.map fun c => if c.name == m then Node.updateAt f c rest else c).map
            (fun c => (c.name, c.hist)) = cs.map fun c => (c.name, c.hist) := by
          rw [List.map_map]
          apply List.map_congr_left
          intro c _
          simp only [Function.comp]
          split
          · rw [Node.updateAt_name f hfn, updateAt_hist f hfh]
          · rfl
        rw [this]
        exact hg.1
      · intro c' hc'
        obtain ⟨c, hc, rfl⟩ := List.mem_map.1 hc'
        split
        · next hname => exact ih c (hg.2 c hc) (hon c hc (by simpa using hname))
        · exact hg.2 c hc

theorem namesOk_dir (nm : String) (cs : List Node) (h : Option HistStore) :
    (Node.dir nm cs h).NamesOk ↔
      (∀ k ∈ cs.map (fun c => (c.name, c.hist)), NameOk k.1) ∧ ∀ c ∈ cs, c.NamesOk := by
  unfold Node.NamesOk
  simp only [Node.mem_descNames_dir, List.mem_map, forall_exists_index, and_imp]
  constructor
  · intro hall
    refine ⟨?_, ?_⟩
    · rintro k c hc rfl
      exact hall c.name c hc (Or.inl rfl)
    · intro c hc s hs
      exact hall s c hc (Or.inr hs)
  · rintro ⟨h1, h2⟩ s c hc (rfl | hs)
    · exact h1 _ c hc rfl
    · exact h2 c hc s hs

theorem noNested_dir (nm : String) (cs : List Node) (h : Option HistStore) :
    noNested (.dir nm cs h) = true ↔
      (∀ k ∈ cs.map (fun c => (c.name, c.hist)), k.2 = none) ∧ ∀ c ∈ cs, noNested c = true := by
  simp only [noNested, noHistList_iff, List.mem_map, forall_exists_index, and_imp]
  constructor
  · intro hall
    refine ⟨?_, ?_⟩
    · rintro k c hc rfl
      exact (noHist_parts c (hall c hc)).1
    · intro c hc
      exact (noHist_parts c (hall c hc)).2
  · rintro ⟨h1, h2⟩ c hc
    have hh := h1 _ c hc rfl
    have hn := h2 c hc
    cases c with
    | file _ _ => rfl
    | dir n cs' h' =>
      simp only [Node.hist] at hh
      subst hh
      simpa [noHist, noNested] using hn

theorem namesDistinct_dir' (nm : String) (cs : List Node) (h : Option HistStore) :
    (Node.dir nm cs h).NamesDistinct ↔
      ((cs.map fun c => (c.name, c.hist)).map (·.1)).Nodup ∧ ∀ c ∈ cs, c.NamesDistinct := by
  rw [Node.namesDistinct_dir, List.map_map]
  rfl

/-- removing a child keeps the three tree-wide properties -/
theorem removeAt_props (na : String) (q : RelPath) (t : Node) :
    (t.NamesDistinct → (Node.updateAt (removeChild na) t q).NamesDistinct) ∧
    (t.NamesOk → (Node.updateAt (removeChild na) t q).NamesOk) ∧
    (noNested t = true → noNested (Node.updateAt (removeChild na) t q) = true) := by
  have hsub : ∀ cs : List Node, ((cs.filter fun c => c.name != na).map fun c => (c.name, c.hist)).Sublist
      (cs.map fun c => (c.name, c.hist)) := fun cs => List.Sublist.map _ List.filter_sublist
  refine ⟨fun hg => ?_, fun hg => ?_, fun hg => ?_⟩
  · refine updateAt_good Node.NamesDistinct (fun ks => (ks.map (·.1)).Nodup) (fun _ _ => trivial) namesDistinct_dir' _ (removeChild_name na)
      (removeChild_hist na) q t hg (onPath_of_forall _ ?_ q t)
    intro n hn
    cases n with
    | file _ _ => exact hn
    | dir nm cs h =>
      rw [removeChild, namesDistinct_dir'] at *
      exact ⟨List.Nodup.sublist (List.Sublist.map _ (hsub cs)) hn.1,
        fun c hc => hn.2 c (List.mem_of_mem_filter hc)⟩
  · refine updateAt_good Node.NamesOk (fun ks => ∀ k ∈ ks, NameOk k.1)
      (fun _ _ => by intro s hs; simp [Node.descNames] at hs) namesOk_dir _
      (removeChild_name na) (removeChild_hist na) q t hg (onPath_of_forall _ ?_ q t)
    intro n hn
    cases n with
    | file _ _ => exact hn
    | dir nm cs h =>
      rw [removeChild, namesOk_dir] at *
      exact ⟨fun k hk => hn.1 k ((hsub cs).subset hk), fun c hc => hn.2 c (List.mem_of_mem_filter hc)⟩
  · refine updateAt_good (fun t => noNested t = true) (fun ks => ∀ k ∈ ks, k.2 = none) (fun _ _ => rfl) noNested_dir _ (removeChild_name na)
      (removeChild_hist na) q t hg (onPath_of_forall _ ?_ q t)
    intro n hn
    cases n with
    | file _ _ => exact hn
    | dir nm cs h =>
      rw [removeChild, noNested_dir] at *
      exact ⟨fun k hk => hn.1 k ((hsub cs).subset hk), fun c hc => hn.2 c (List.mem_of_mem_filter hc)⟩

/-- adding a file under a well-formed name that the folder does not hold yet keeps them too -/
theorem addAt_props (nb : String) (c : Bytes) (hnb : NameOk nb) (q : RelPath) (t : Node) (hd : t.NamesDistinct)
    (hfresh : t.at? (q ++ [nb]) = none) :
    (Node.updateAt (addChild (.file nb c)) t q).NamesDistinct ∧
    (t.NamesOk → (Node.updateAt (addChild (.file nb c)) t q).NamesOk) ∧
    (noNested t = true → noNested (Node.updateAt (addChild (.file nb c)) t q) = true) := by
  have hmap : ∀ cs : List Node, ((cs ++ [Node.file nb c]).map fun c => (c.name, c.hist)) =
      (cs.map fun c => (c.name, c.hist)) ++ [(nb, none)] := by
    intro cs; simp [Node.name, Node.hist]
  refine ⟨?_, fun hg => ?_, fun hg => ?_⟩
  · refine updateAt_good Node.NamesDistinct (fun ks => (ks.map (·.1)).Nodup) (fun _ _ => trivial) namesDistinct_dir' _ (addChild_name _)
      (addChild_hist _) q t hd (onPath_of_at? _ q t hd ?_)
    intro n hnq hn
    cases n with
    | file _ _ => exact hn
    | dir nm cs h =>
      have hf : findChild cs nb = none := by
        have : t.at? (q ++ [nb]) = (Node.dir nm cs h).at? [nb] := by rw [Node.at?_append, hnq]; rfl
        rw [this, Node.at?_dir_cons] at hfresh
        cases hfc : findChild cs nb with
        | none => rfl
        | some x => rw [hfc] at hfresh; simp [Node.at?_nil] at hfresh
      rw [addChild, namesDistinct_dir'] at *
      rw [hmap]
      refine ⟨?_, ?_⟩
      · rw [List.map_append, List.nodup_append]
        refine ⟨hn.1, by simp, ?_⟩
        intro x hx y hy hxy
        simp only [List.map_cons, List.map_nil, List.mem_singleton] at hy
        subst hy
        subst hxy
        simp only [List.map_map, List.mem_map, Function.comp] at hx
        obtain ⟨c0, hc0, hname⟩ := hx
        unfold findChild at hf
        have := List.find?_eq_none.1 hf c0 hc0
        simp [hname] at this
      · intro c0 hc0
        rcases List.mem_append.1 hc0 with h1 | h1
        · exact hn.2 c0 h1
        · simp only [List.mem_singleton] at h1
          subst h1
          trivial
  · refine updateAt_good Node.NamesOk (fun ks => ∀ k ∈ ks, NameOk k.1)
      (fun _ _ => by intro s hs; simp [Node.descNames] at hs) namesOk_dir _
      (addChild_name _) (addChild_hist _) q t hg (onPath_of_forall _ ?_ q t)
    intro n hn
    cases n with
    | file _ _ => exact hn
    | dir nm cs h =>
      rw [addChild, namesOk_dir] at *
      rw [hmap]
      refine ⟨?_, ?_⟩
      · intro k hk
        rcases List.mem_append.1 hk with h1 | h1
        · exact hn.1 k h1
        · simp only [List.mem_singleton] at h1
          subst h1
          exact hnb
      · intro c0 hc0
        rcases List.mem_append.1 hc0 with h1 | h1
        · exact hn.2 c0 h1
        · simp only [List.mem_singleton] at h1
          subst h1
          intro s hs
          simp [Node.descNames] at hs
  · refine updateAt_good (fun t => noNested t = true) (fun ks => ∀ k ∈ ks, k.2 = none) (fun _ _ => rfl) noNested_dir _ (addChild_name _)
      (addChild_hist _) q t hg (onPath_of_forall _ ?_ q t)
    intro n hn
    cases n with
    | file _ _ => exact hn
    | dir nm cs h =>
      rw [addChild, noNested_dir] at *
      rw [hmap]
      refine ⟨?_, ?_⟩
      · intro k hk
        rcases List.mem_append.1 hk with h1 | h1
        · exact hn.1 k h1
        · simp only [List.mem_singleton] at h1
          subst h1
          rfl
      · intro c0 hc0
        rcases List.mem_append.1 hc0 with h1 | h1
        · exact hn.2 c0 h1
        · simp only [List.mem_singleton] at h1
          subst h1
          rfl

/-! ### the moved tree -/

/-- the children of the root folder after the move -/
def movedKids (cs : List Node) (pa : RelPath) (na : String) (pb : RelPath) (nb : String) (c : Bytes) : List Node :=
  (moveFile (.dir "" cs none) pa na pb nb c).children

/-- the move keeps the root folder's name and `ascmhl` folder -/
theorem moveFile_dir (rn : String) (cs : List Node) (h : Option HistStore) (pa : RelPath) (na : String)
    (pb : RelPath) (nb : String) (c : Bytes) :
    moveFile (.dir rn cs h) pa na pb nb c = .dir rn (movedKids cs pa na pb nb c) h := by
  unfold movedKids moveFile
  cases pa <;> cases pb <;> simp [Node.updateAt, removeChild, addChild, Node.children]

/-- MOVING A FILE with the model's tree operations gives a `Moved` pair of trees: the source `pa/na` is a visible
file, the destination folder `pb` is the root or a visible folder, the new name `nb` is well-formed, nothing is at
`pb/nb` yet, and `pb/nb` is not ignored -/
theorem moveFile_moved (hit : RelPath → Bool) (rn : String) (cs : List Node) (pa : RelPath) (na : String)
    (pb : RelPath) (nb : String)
    (hflat : noNested (.dir rn cs none) = true) (hd : (Node.dir rn cs none).NamesDistinct)
    (hn : (Node.dir rn cs none).NamesOk)
    (ha : (pa ++ [na], false) ∈ visiblePaths hit (.dir rn cs none))
    (hpb : pb = [] ∨ (pb, true) ∈ visiblePaths hit (.dir rn cs none))
    (hnb : NameOk nb) (hfresh : (Node.dir rn cs none).at? (pb ++ [nb]) = none)
    (hhit : hit (pb ++ [nb]) = false) :
    Moved hit rn cs (movedKids cs pa na pb nb (fileContent (.dir rn cs none) (pa ++ [na])))
      (pa ++ [na]) (pb ++ [nb]) (fileContent (.dir rn cs none) (pa ++ [na])) := by
  generalize hc : fileContent (.dir rn cs none) (pa ++ [na]) = c
  generalize ht0 : Node.dir rn cs none = t0 at *
  obtain ⟨nA, hatA, hfileA⟩ := MhlProps.C02.visible_on_disk hit t0 hd _ false ha
  obtain ⟨nmA, cA, rfl⟩ : ∃ nm c, nA = .file nm c := by
    cases nA with
    | file nm c => exact ⟨nm, c, rfl⟩
    | dir _ _ _ => cases hfileA
  have hHas0 : Has t0 pb true := by
    rcases hpb with rfl | hv
    · exact ⟨t0, Node.at?_nil t0, by rw [← ht0]; rfl⟩
    · exact MhlProps.C02.visible_on_disk hit t0 hd _ true hv
  have hpba : pb ≠ pa ++ [na] := by
    rintro rfl
    obtain ⟨n, hn1, hn2⟩ := hHas0
    rw [hatA] at hn1
    cases hn1
    cases hn2
  have hHas1 : Has (Node.updateAt (removeChild na) t0 pa) pb true :=
    (removeAt_has t0 pa na nmA cA hatA pb true).2 ⟨hHas0, hpba⟩
  have hfresh1 : (Node.updateAt (removeChild na) t0 pa).at? (pb ++ [nb]) = none :=
    removeAt_none t0 pa na nmA cA hatA _ hfresh
  obtain ⟨hd1, hn1, hf1⟩ := removeAt_props na pa t0
  obtain ⟨hd2, hn2, hf2⟩ := addAt_props nb c hnb pb _ (hd1 hd) hfresh1
  have ht2 : Node.dir rn (movedKids cs pa na pb nb c) none =
      Node.updateAt (addChild (.file nb c)) (Node.updateAt (removeChild na) t0 pa) pb := by
    rw [← ht0, ← moveFile_dir]
    rfl
  have hhas : ∀ p d, Has (Node.dir rn (movedKids cs pa na pb nb c) none) p d ↔
      (Has t0 p d ∧ p ≠ pa ++ [na]) ∨ (p = pb ++ [nb] ∧ d = false) := by
    intro p d
    rw [ht2, addAt_has _ pb nb c hHas1 hfresh1, removeAt_has t0 pa na nmA cA hatA]
  have hbfree : ∀ k, 0 < k → k ≤ (pb ++ [nb]).length → hit ((pb ++ [nb]).take k) = false := by
    intro k hk0 hk
    by_cases hk' : k ≤ pb.length
    · rw [List.take_append_of_le_length hk']
      rcases hpb with rfl | hv
      · simp at hk'; omega
      · exact ((MhlProps.C02.visible_iff_at hit t0 hd pb true).1 hv).2 k hk0 hk'
    · have : k = (pb ++ [nb]).length := by simp at hk ⊢; omega
      rw [this, List.take_length]
      exact hhit
  subst ht0
  refine ⟨?_, ?_, ?_, ha, hc, ?_, ?_, ?_, ?_⟩
  · rw [ht2]; exact hf2 (hf1 hflat)
  · rw [ht2]; exact hd2
  · rw [ht2]; exact hn2 (hn1 hn)
  · intro d hv
    obtain ⟨n, hn1', -⟩ := MhlProps.C02.visible_on_disk hit _ hd _ d hv
    rw [hfresh] at hn1'
    cases hn1'
  · intro p d
    have hd2' : (Node.dir rn (movedKids cs pa na pb nb c) none).NamesDistinct := by rw [ht2]; exact hd2
    rw [MhlProps.C02.visible_iff_at hit _ hd2' p d, MhlProps.C02.visible_iff_at hit _ hd p d]
    have := hhas p d
    unfold Has at this
    rw [this]
    constructor
    · rintro ⟨⟨hne, h | h⟩, hfree⟩
      · exact Or.inl ⟨⟨⟨hne, h.1⟩, hfree⟩, h.2⟩
      · exact Or.inr h
    · rintro (⟨⟨⟨hne, h⟩, hfree⟩, hpa⟩ | ⟨rfl, rfl⟩)
      · exact ⟨⟨hne, Or.inl ⟨h, hpa⟩⟩, hfree⟩
      · exact ⟨⟨by simp, Or.inr ⟨rfl, rfl⟩⟩, hbfree⟩
  · intro p hp hpa
    obtain ⟨n, hn1', hn2'⟩ := MhlProps.C02.visible_on_disk hit _ hd _ false hp
    cases n with
    | dir _ _ _ => cases hn2'
    | file nm c' =>
      have h1 := removeAt_file _ pa na nmA cA hatA p nm c' hn1' hpa
      have h2 := addAt_file _ pb nb c hHas1 hfresh1 p nm c' h1
      unfold fileContent
      rw [ht2, h2, hn1']
  · unfold fileContent
    rw [ht2, addAt_dst _ pb nb c hHas1 hfresh1]

end move

/-! ## G. the order of the not-found paths (D19) -/

/-- the inner step of `detectRenames`, named (verbatim) -/
def drStepG (env : Env) (t : Node) (rootHist : Hist) (np : RelPath)
    (acc : Session × List RelPath × List (String × String)) (nf : RelPath) :
    Session × List RelPath × List (String × String) :=
      let (s, foundOld, ren) := acc
      let (oh, orel) := route rootHist nf
      match findFirstAny oh.gens (posix orel) with
      | none => acc
      | some oldE =>
        let holder := s.lists.findSome? fun l =>
          if isPrefixOf l.root np then (l.find (posix (np.drop l.root.length))).map fun r => (l, r) else none
        match holder with
        | none => acc
        | some (l, r) =>
          let setPrev (s : Session) : Session :=
            if r.path == "." then
              match parentRoot rootHist l.root with
              | some pr =>
                let pl := s.get pr
                s.put { pl with records := pl.records.map fun x =>
                  if x.path == posix (np.drop pr.length) then { x with prev := some (posix orel) } else x }
              | none => s
            else
              s.put { l with records := l.records.map fun x =>
                if x.path == r.path then { x with prev := some (posix orel) } else x }
          match r.entries.find? (fun e => e.fmt == oldE.fmt) with
          | some e =>
            if e.digest == oldE.digest then
              (setPrev s, appendNew foundOld nf, ren ++ [(posix orel, posix np)])
            else acc
          | none =>
            match t.at? np with
            | some (.file _ c) =>
              if env.H oldE.fmt c == oldE.digest then
                (setPrev s, appendNew foundOld nf, ren ++ [(posix orel, posix np)])
              else acc
            | _ => acc

theorem detectRenames_eq_G (env : Env) (t : Node) (rootHist : Hist)
    (s : Session) (newPaths notFound : List RelPath) :
    detectRenames env t rootHist s newPaths notFound =
      newPaths.foldl (fun acc np => notFound.foldl (drStepG env t rootHist np) acc) (s, [], []) := rfl

/-- the test of `detectRenames` for the pair (new path, not-found path) below a history that may have nested
histories: the not-found path is routed to the history that owns it, then judged as on a flat history -/
def matchesG (env : Env) (t : Node) (rootHist : Hist) (s : Session) (np nf : RelPath) : Bool :=
  matchesB env t (route rootHist nf).1.gens s np (route rootHist nf).2

/-- `setPrev` of `detectRenames`, with nested histories: the root record "." of a nested history is not touched,
the record of the folder in the PARENT history's list is -/
def setPrevG (rootHist : Hist) (s : Session) (l : NewList) (r : Record) (np : RelPath) (old : String) : Session :=
  if r.path == "." then
    match parentRoot rootHist l.root with
    | some pr => s.put (setPrevList (s.get pr) (posix (np.drop pr.length)) old)
    | none => s
  else s.put (setPrevList l r.path old)

theorem drStepG_eq (env : Env) (t : Node) (rootHist : Hist) (np : RelPath)
    (acc : Session × List RelPath × List (String × String)) (nf : RelPath) :
    drStepG env t rootHist np acc nf =
      if matchesG env t rootHist acc.1 np nf then
        match holderOf acc.1 np with
        | some (l, r) => (setPrevG rootHist acc.1 l r np (posix (route rootHist nf).2), appendNew acc.2.1 nf,
            acc.2.2 ++ [(posix (route rootHist nf).2, posix np)])
        | none => acc
      else acc := by
  obtain ⟨s, fo, ren⟩ := acc
  unfold drStepG matchesG matchesB newDigest holderEntries
  generalize route rootHist nf = x
  obtain ⟨oh, orel⟩ := x
  simp only
  cases hff : findFirstAny oh.gens (posix orel) with
  | none => simp
  | some oldE =>
    simp only
    change (match holderOf s np with
      | none => (s, fo, ren)
      | some (l, r) => _) = _
    cases hh : holderOf s np with
    | none => simp
    | some x =>
      obtain ⟨l, r⟩ := x
      simp only [Option.map_some, Option.bind_some]
      unfold digestFor setPrevG setPrevList
      cases hfe : r.entries.find? (fun e => e.fmt == oldE.fmt) with
      | some e =>
        by_cases hd : e.digest = oldE.digest <;> simp [hd]
      | none =>
        simp only
        cases hat : t.at? np with
        | none => simp
        | some n =>
          cases n with
          | dir _ _ _ => simp
          | file nm c =>
            by_cases hd : env.H oldE.fmt c = oldE.digest <;> simp [hd]

/-- what `detectRenames` reads of a session, and what its writes leave alone: the lists are keyed by root, and the
record of every new path has the same list root, path and entries -/
def SameHolders (s' s : Session) : Prop := s'.RootsNodup ∧ ∀ q, holderInfo s' q = holderInfo s q

theorem SameHolders.refl {s : Session} (hs : s.RootsNodup) : SameHolders s s := ⟨hs, fun _ => rfl⟩

theorem SameHolders.trans {a b c : Session} (h1 : SameHolders a b) (h2 : SameHolders b c) : SameHolders a c :=
  ⟨h1.1, fun q => (h1.2 q).trans (h2.2 q)⟩

theorem matchesB_congr_holders (env : Env) (t : Node) (gens : List LGen) {s s' : Session}
    (h : ∀ q, holderInfo s' q = holderInfo s q) (np nf : RelPath) :
    matchesB env t gens s' np nf = matchesB env t gens s np nf := by
  unfold matchesB newDigest
  rw [holderEntries_eq_info, holderEntries_eq_info, h np]

/-- overwriting a list of the session with the same list, previous paths set -/
theorem sameHolders_put_mem (s : Session) (hs : s.RootsNodup) (l : NewList) (hl : l ∈ s.lists) (k old : String) :
    SameHolders (s.put (setPrevList l k old)) s := by
  rw [Session.put_of_mem s l (setPrevList l k old) hl rfl]
  refine ⟨?_, ?_⟩
  · unfold Session.RootsNodup at *
    have : (s.lists.map fun x => if x.root == l.root then setPrevList l k old else x).map (·.root) =
        s.lists.map (·.root) := by
      rw [List.map_map]
      apply List.map_congr_left
      intro x _
      simp only [Function.comp]
      split
      · next h => exact (by simpa using h : x.root = l.root).symm
      · rfl
    simp only
    rw [this]
    exact hs
  · intro q
    have hmap := holderOf_mapLists s.lists s.patterns s.patterns
      (fun x => if x.root == l.root then setPrevList l k old else x)
      (fun x k' => if x.root == l.root then
        (if k' == "." then id else fun r => if r.path == k then { r with prev := some old } else r) else id)
      (by
        intro x _
        by_cases hx : (x.root == l.root) = true
        · simp only [hx, if_true]
          exact (by simpa using hx : x.root = l.root).symm
        · simp [hx])
      (by
        intro x hx k'
        by_cases hxr : (x.root == l.root) = true
        · have : x = l := root_unique hs hx hl (by simpa using hxr)
          subst this
          simp only [hxr, if_true]
          exact setPrevList_find x k old k'
        · simp [hxr])
      q
    have hs_eta : ({ lists := s.lists, patterns := s.patterns } : Session) = s := rfl
    rw [hs_eta] at hmap
    unfold holderInfo
    rw [hmap, Option.map_map]
    cases holderOf s q with
    | none => rfl
    | some x =>
      obtain ⟨l2, r2⟩ := x
      simp only [Option.map_some, Function.comp, Option.some.injEq, Prod.mk.injEq]
      refine ⟨?_, ?_, ?_⟩
      · split
        · next h => exact (by simpa using h : l2.root = l.root).symm
        · rfl
      · split
        · split
          · rfl
          · simp only; split <;> rfl
        · rfl
      · split
        · split
          · rfl
          · simp only; split <;> rfl
        · rfl

/-- a list without records and without root record, added at the end, is nobody's holder -/
theorem sameHolders_put_fresh (s : Session) (hs : s.RootsNodup) (pr : RelPath)
    (hno : s.lists.any (fun l => l.root == pr) = false) (k old : String) :
    SameHolders (s.put (setPrevList { root := pr } k old)) s := by
  have hput : s.put (setPrevList { root := pr } k old) = { s with lists := s.lists ++ [{ root := pr }] } := by
    unfold Session.put setPrevList
    simp [hno]
  rw [hput]
  refine ⟨?_, ?_⟩
  · unfold Session.RootsNodup at *
    simp only [List.map_append, List.map_cons, List.map_nil]
    rw [List.nodup_append]
    refine ⟨hs, by simp, ?_⟩
    intro a ha b hb
    simp only [List.mem_singleton] at hb
    subst hb
    rintro rfl
    obtain ⟨x, hx, rfl⟩ := List.mem_map.1 ha
    have : s.lists.any (fun l => l.root == x.root) = true := List.any_eq_true.2 ⟨x, hx, by simp⟩
    rw [hno] at this
    cases this
  · intro q
    unfold holderInfo holderOf
    simp only [List.findSome?_append, List.findSome?_cons, List.findSome?_nil]
    have : (if isPrefixOf pr q = true then
        Option.map (fun r => (({ root := pr } : NewList), r))
          (({ root := pr } : NewList).find (posix (List.drop pr.length q))) else none) = none := by
      split
      · unfold NewList.find
        split <;> rfl
      · rfl
    simp only [this, Option.or_none]

theorem sameHolders_setPrevG (rootHist : Hist) (s : Session) (hs : s.RootsNodup) (l : NewList) (hl : l ∈ s.lists)
    (r : Record) (np : RelPath) (old : String) : SameHolders (setPrevG rootHist s l r np old) s := by
  unfold setPrevG
  split
  · split
    · next pr _ =>
      cases hany : s.lists.any (fun l => l.root == pr) with
      | true =>
        have hget : s.get pr ∈ s.lists := by
          unfold Session.get
          obtain ⟨x, hx, hxr⟩ := List.any_eq_true.1 hany
          cases hf : s.lists.find? (fun l => l.root == pr) with
          | none => rw [List.find?_eq_none] at hf; exact absurd hxr (hf x hx)
          | some y => exact List.mem_of_find?_eq_some hf
        exact sameHolders_put_mem s hs _ hget _ _
      | false =>
        have hget : s.get pr = { root := pr } := by
          unfold Session.get
          have : s.lists.find? (fun l => l.root == pr) = none := by
            rw [List.find?_eq_none]
            intro x hx hxr
            have : s.lists.any (fun l => l.root == pr) = true := List.any_eq_true.2 ⟨x, hx, hxr⟩
            rw [hany] at this
            cases this
          rw [this]
          rfl
        rw [hget]
        exact sameHolders_put_fresh s hs pr hany _ _
    · exact SameHolders.refl hs
  · exact sameHolders_put_mem s hs l hl _ _

/-- the inner step keeps what the loop reads -/
theorem sameHolders_drStepG (env : Env) (t : Node) (rootHist : Hist) (np : RelPath)
    (acc : Session × List RelPath × List (String × String)) (nf : RelPath) (hs : acc.1.RootsNodup) :
    SameHolders (drStepG env t rootHist np acc nf).1 acc.1 := by
  rw [drStepG_eq]
  split
  · cases hh : holderOf acc.1 np with
    | none => exact SameHolders.refl hs
    | some x =>
      obtain ⟨l, r⟩ := x
      exact sameHolders_setPrevG rootHist acc.1 hs l (holderOf_mem hh).1 r np _
  · exact SameHolders.refl hs

/-- a pair that does not match (judged on any session with the same holders) leaves the state alone -/
theorem drStepG_of_not_match (env : Env) (t : Node) (rootHist : Hist) (s0 : Session) (np : RelPath)
    (acc : Session × List RelPath × List (String × String)) (nf : RelPath) (hsim : SameHolders acc.1 s0)
    (hm : matchesG env t rootHist s0 np nf = false) : drStepG env t rootHist np acc nf = acc := by
  rw [drStepG_eq]
  have : matchesG env t rootHist acc.1 np nf = false := by
    unfold matchesG at hm ⊢
    rw [matchesB_congr_holders env t _ hsim.2, hm]
  simp [this]

/-- the inner loop only sees the not-found paths that match, judged on the session `s0` the detection started with -/
theorem inner_loop_G (env : Env) (t : Node) (rootHist : Hist) (s0 : Session) (np : RelPath)
    (notFound : List RelPath) (acc : Session × List RelPath × List (String × String))
    (hsim : SameHolders acc.1 s0) :
    notFound.foldl (drStepG env t rootHist np) acc =
      (notFound.filter (matchesG env t rootHist s0 np)).foldl (drStepG env t rootHist np) acc ∧
    SameHolders (notFound.foldl (drStepG env t rootHist np) acc).1 s0 := by
  induction notFound generalizing acc with
  | nil => exact ⟨rfl, hsim⟩
  | cons nf nfs ih =>
    rw [List.foldl_cons]
    cases hm : matchesG env t rootHist s0 np nf with
    | false =>
      rw [drStepG_of_not_match env t rootHist s0 np acc nf hsim hm]
      simp only [List.filter_cons, hm, Bool.false_eq_true, if_false]
      exact ih acc hsim
    | true =>
      simp only [List.filter_cons, hm, if_true, List.foldl_cons]
      exact ih _ ((sameHolders_drStepG env t rootHist np acc nf hsim.1).trans hsim)

/-- `detectRenames` only depends on the matching not-found paths of every new path, in their order -/
theorem detectRenames_congr_filter (env : Env) (t : Node) (rootHist : Hist) (s : Session) (hs : s.RootsNodup)
    (newPaths nf₁ nf₂ : List RelPath)
    (h : ∀ np ∈ newPaths, nf₁.filter (matchesG env t rootHist s np) = nf₂.filter (matchesG env t rootHist s np)) :
    detectRenames env t rootHist s newPaths nf₁ = detectRenames env t rootHist s newPaths nf₂ := by
  rw [detectRenames_eq_G, detectRenames_eq_G]
  suffices hgen : ∀ (acc : Session × List RelPath × List (String × String)), SameHolders acc.1 s →
      newPaths.foldl (fun acc np => nf₁.foldl (drStepG env t rootHist np) acc) acc =
        newPaths.foldl (fun acc np => nf₂.foldl (drStepG env t rootHist np) acc) acc from
    hgen _ (SameHolders.refl hs)
  induction newPaths with
  | nil => intro acc _; rfl
  | cons np nps ih =>
    intro acc hsim
    rw [List.foldl_cons, List.foldl_cons]
    obtain ⟨e1, i1⟩ := inner_loop_G env t rootHist s np nf₁ acc hsim
    obtain ⟨e2, -⟩ := inner_loop_G env t rootHist s np nf₂ acc hsim
    have hnp := h np (by simp)
    have : nf₁.foldl (drStepG env t rootHist np) acc = nf₂.foldl (drStepG env t rootHist np) acc := by
      rw [e1, e2, hnp]
    rw [← this]
    exact ih (fun q hq => h q (by simp [hq])) _ i1


/-- two lists with the same elements (as multisets), of which at most one passes the test, pass the same elements to
a filter, in the same order -/
theorem filter_eq_of_perm_unique {α : Type} (p : α → Bool) {l₁ l₂ : List α} (hp : l₁.Perm l₂)
    (hu : ∀ a ∈ l₁, ∀ b ∈ l₁, p a = true → p b = true → a = b) : l₁.filter p = l₂.filter p := by
  have hpf : (l₁.filter p).Perm (l₂.filter p) := hp.filter p
  cases h1 : l₁.filter p with
  | nil =>
    rw [h1] at hpf
    exact (List.perm_nil.1 hpf.symm).symm
  | cons a as =>
    have ha : a ∈ l₁.filter p := by rw [h1]; simp
    have hall : ∀ {l : List α}, (l₁.filter p).Perm l → l = List.replicate (l₁.filter p).length a := by
      intro l hl
      rw [List.eq_replicate_iff]
      refine ⟨hl.length_eq.symm, ?_⟩
      intro b hb
      have hb' : b ∈ l₁.filter p := hl.mem_iff.2 hb
      rw [List.mem_filter] at hb' ha
      exact hu b hb'.1 a ha.1 hb'.2 ha.2
    rw [← h1, hall (List.Perm.refl _), ← hall hpf]

/-- `matchesG` spelled out: the first entry recorded for the not-found path (in the history that owns it) has the
digest the loop takes for the new path in that entry's format -/
theorem matchesG_iff (env : Env) (t : Node) (rootHist : Hist) (s : Session) (np nf : RelPath) :
    matchesG env t rootHist s np nf = true ↔
      ∃ oldE, findFirstAny (route rootHist nf).1.gens (posix (route rootHist nf).2) = some oldE ∧
        newDigest env t s np oldE.fmt = some oldE.digest := by
  unfold matchesG matchesB
  cases findFirstAny (route rootHist nf).1.gens (posix (route rootHist nf).2) with
  | none => simp
  | some oldE => simp

theorem matchesG_flat (env : Env) (t : Node) (rootHist : Hist) (hc : rootHist.children = []) (s : Session)
    (np nf : RelPath) : matchesG env t rootHist s np nf = matchesB env t rootHist.gens s np nf := by
  unfold matchesG
  rw [route_flat rootHist hc]

/-- ORDER INDEPENDENCE of the rename detection (nested histories allowed): on a session keyed by root, if for every
new path at most one of the not-found paths matches, the whole result of `detectRenames` (session, paths found
again, renames reported) is the same for any two orders of the not-found paths -/
theorem detectRenames_notFound_perm (env : Env) (t : Node) (rootHist : Hist) (s : Session)
    (hs : s.RootsNodup) (newPaths nf₁ nf₂ : List RelPath) (hp : nf₁.Perm nf₂)
    (hu : ∀ np ∈ newPaths, ∀ a ∈ nf₁, ∀ b ∈ nf₁, matchesG env t rootHist s np a = true →
      matchesG env t rootHist s np b = true → a = b) :
    detectRenames env t rootHist s newPaths nf₁ = detectRenames env t rootHist s newPaths nf₂ :=
  detectRenames_congr_filter env t rootHist s hs newPaths nf₁ nf₂ fun np hnp =>
    filter_eq_of_perm_unique _ hp (hu np hnp)

end MhlModel
