/-
Helper lemmas for C15 (crash model, `MhlModel/Crash.lean`):
* the "view" of a file system (`fsGet`) after `fsSet` / `fsDel` / every `Op`,
* which paths an operation can touch (`Op.touches`) and the frame lemma,
* recursion / append equations for `crashStates`.
-/
import MhlModel.Crash

namespace MhlProps.CrashLemmas
open MhlModel.Crash

/-! ### fsGet after fsSet / fsDel -/

/-- lookup in the association list -/
def look (l : List (String × Bytes)) (q : String) : Option Bytes := (l.find? (·.1 == q)).map (·.2)

@[simp] theorem look_nil (q : String) : look [] q = none := rfl
theorem look_cons (e : String × Bytes) (l) (q : String) :
    look (e :: l) q = if e.1 = q then some e.2 else look l q := by
  unfold look
  rw [List.find?_cons]
  by_cases h : e.1 = q
  · simp [h]
  · have : (e.1 == q) = false := by simpa using h
    simp [this, h]

theorem look_map_set (l : List (String × Bytes)) (p q : String) (b : Bytes) :
    look (l.map fun e => if e.1 == p then (p, b) else e) q
      = if q = p then (if l.any (·.1 == p) then some b else none) else look l q := by
  induction l with
  | nil => simp
  | cons e l ih =>
    rw [List.map_cons, look_cons, ih, look_cons, List.any_cons]
    grind

theorem look_filter (l : List (String × Bytes)) (p q : String) :
    look (l.filter (·.1 != p)) q = if q = p then none else look l q := by
  induction l with
  | nil => simp
  | cons e l ih =>
    rw [List.filter_cons]
    split
    · rw [look_cons, look_cons, ih]; grind
    · rw [look_cons, ih]; grind

theorem look_append (l l' : List (String × Bytes)) (q : String) :
    look (l ++ l') q = (look l q).or (look l' q) := by
  induction l with
  | nil => simp
  | cons e l ih => rw [List.cons_append, look_cons, look_cons, ih]; split <;> simp

theorem look_none_of_any_false (l : List (String × Bytes)) (p : String)
    (h : l.any (·.1 == p) = false) : look l p = none := by
  induction l with
  | nil => simp
  | cons e l ih =>
    simp only [List.any_cons, Bool.or_eq_false_iff] at h
    rw [look_cons, ih h.2]; grind

theorem fsGet_eq_look (fs : Fs) (q : String) : fsGet fs q = look fs.files q := rfl

theorem fsGet_fsSet (fs : Fs) (p q : String) (b : Bytes) :
    fsGet (fsSet fs p b) q = if q = p then some b else fsGet fs q := by
  unfold fsSet
  by_cases hany : fs.files.any (·.1 == p) = true
  · rw [if_pos hany, fsGet_eq_look, fsGet_eq_look, look_map_set, hany]; simp
  · have hany' : fs.files.any (·.1 == p) = false := Bool.eq_false_iff.2 hany
    rw [if_neg hany, fsGet_eq_look, fsGet_eq_look, look_append, look_cons]
    by_cases hqp : q = p
    · subst hqp
      simp [look_none_of_any_false _ _ hany']
    · have : ¬ p = q := fun h => hqp h.symm
      simp [hqp, this]

theorem fsGet_fsDel (fs : Fs) (p q : String) :
    fsGet (fsDel fs p) q = if q = p then none else fsGet fs q := by
  rw [fsGet_eq_look, fsGet_eq_look]; exact look_filter _ _ _

@[simp] theorem dirs_fsSet (fs : Fs) (p : String) (b : Bytes) : (fsSet fs p b).dirs = fs.dirs := by
  unfold fsSet; split <;> rfl

@[simp] theorem dirs_fsDel (fs : Fs) (p : String) : (fsDel fs p).dirs = fs.dirs := rfl

/-! ### fsGet after one operation -/

@[simp] theorem fsGet_mkdir (fs : Fs) (d q : String) : fsGet (applyOp fs (.mkdir d)) q = fsGet fs q := by
  simp only [applyOp]; split <;> rfl

theorem fsGet_create (fs : Fs) (p q : String) :
    fsGet (applyOp fs (.create p)) q = if q = p then some [] else fsGet fs q := by
  simp [applyOp, fsGet_fsSet]

theorem fsGet_write (fs : Fs) (p q : String) (d : Bytes) :
    fsGet (applyOp fs (.write p d)) q = if q = p then some ((fsGet fs p).getD [] ++ d) else fsGet fs q := by
  simp [applyOp, fsGet_fsSet]

theorem fsGet_replace_some (fs : Fs) (s d q : String) (b : Bytes) (h : fsGet fs s = some b) :
    fsGet (applyOp fs (.replace s d)) q
      = if q = d then some b else if q = s then none else fsGet fs q := by
  simp [applyOp, h, fsGet_fsSet, fsGet_fsDel]

theorem applyOp_replace_none (fs : Fs) (s d : String) (h : fsGet fs s = none) :
    applyOp fs (.replace s d) = fs := by
  simp [applyOp, h]

/-! ### directories only grow -/

theorem dirs_applyOp (fs : Fs) (op : Op) :
    (applyOp fs op).dirs = fs.dirs ∨ ∃ d, op = .mkdir d ∧ (applyOp fs op).dirs = fs.dirs ++ [d] := by
  cases op with
  | mkdir d =>
    simp only [applyOp]
    by_cases h : fs.dirs.contains d = true
    · left; rw [if_pos h]
    · right; exact ⟨d, rfl, by rw [if_neg h]⟩
  | create p => left; simp [applyOp]
  | write p d => left; simp [applyOp]
  | replace s d =>
    left; simp only [applyOp]
    split <;> simp

theorem mem_dirs_applyOp {fs : Fs} {d : String} (op : Op) (h : d ∈ fs.dirs) : d ∈ (applyOp fs op).dirs := by
  rcases dirs_applyOp fs op with h' | ⟨_, _, h'⟩ <;> rw [h'] <;> simp [h]

theorem mem_dirs_mkdir (fs : Fs) (d : String) : d ∈ (applyOp fs (.mkdir d)).dirs := by
  simp only [applyOp]
  by_cases h : fs.dirs.contains d = true
  · rw [if_pos h]; simpa using h
  · rw [if_neg h]; simp

/-- an operation that is not a `mkdir` leaves the directories alone -/
theorem dirs_applyOp_of_not_mkdir (fs : Fs) (op : Op) (h : ∀ d, op ≠ .mkdir d) :
    (applyOp fs op).dirs = fs.dirs := by
  rcases dirs_applyOp fs op with h' | ⟨d, hd, _⟩
  · exact h'
  · exact absurd hd (h d)

/-! ### the paths an operation can touch, frame lemma for one operation -/

/-- the file paths whose content an operation can change -/
def touches : Op → List String
  | .mkdir _ => []
  | .create p => [p]
  | .write p _ => [p]
  | .replace s d => [s, d]

theorem fsGet_applyOp_of_not_touched (fs : Fs) (op : Op) (q : String) (h : q ∉ touches op) :
    fsGet (applyOp fs op) q = fsGet fs q := by
  cases op with
  | mkdir d => simp
  | create p =>
    have : q ≠ p := by simpa [touches] using h
    simp [fsGet_create, this]
  | write p d =>
    have : q ≠ p := by simpa [touches] using h
    simp [fsGet_write, this]
  | replace s d =>
    have hq : q ≠ s ∧ q ≠ d := by simpa [touches] using h
    cases hs : fsGet fs s with
    | none => rw [applyOp_replace_none _ _ _ hs]
    | some b => simp [fsGet_replace_some _ _ _ _ _ hs, hq.1, hq.2]

/-! ### applyOps -/

@[simp] theorem applyOps_nil (fs : Fs) : applyOps fs [] = fs := rfl
@[simp] theorem applyOps_cons (fs : Fs) (op : Op) (ops : List Op) :
    applyOps fs (op :: ops) = applyOps (applyOp fs op) ops := rfl
theorem applyOps_append (fs : Fs) (a b : List Op) :
    applyOps fs (a ++ b) = applyOps (applyOps fs a) b := by
  simp [applyOps, List.foldl_append]

theorem fsGet_applyOps_of_not_touched (fs : Fs) (ops : List Op) (q : String)
    (h : ∀ op ∈ ops, q ∉ touches op) : fsGet (applyOps fs ops) q = fsGet fs q := by
  induction ops generalizing fs with
  | nil => rfl
  | cons op ops ih =>
    rw [applyOps_cons, ih _ (fun o ho => h o (List.mem_cons_of_mem _ ho)),
      fsGet_applyOp_of_not_touched _ _ _ (h op List.mem_cons_self)]

theorem mem_dirs_applyOps {fs : Fs} {d : String} (ops : List Op) (h : d ∈ fs.dirs) :
    d ∈ (applyOps fs ops).dirs := by
  induction ops generalizing fs with
  | nil => exact h
  | cons op ops ih => exact ih (mem_dirs_applyOp op h)

/-! ### crashStates: recursion, append -/

/-- the torn states of one operation: a `write` that got only the first `j < d.length` bytes out -/
def torn (fs : Fs) : Op → List Fs
  | .write p d => (List.range d.length).map fun j => applyOp fs (.write p (d.take j))
  | _ => []

@[simp] theorem crashStates_nil (fs : Fs) : crashStates fs [] = [fs] := by
  simp [crashStates, applyOps]

theorem crashStates_cons (fs : Fs) (op : Op) (ops : List Op) :
    crashStates fs (op :: ops) = fs :: torn fs op ++ crashStates (applyOp fs op) ops := by
  unfold crashStates
  rw [List.length_cons, List.range_succ_eq_map, List.flatMap_cons, List.flatMap_map]
  congr 1
  · cases op <;> simp [torn, applyOps]

theorem mem_torn {fs st : Fs} {op : Op} :
    st ∈ torn fs op ↔ ∃ p d j, op = .write p d ∧ j < d.length ∧ st = applyOp fs (.write p (d.take j)) := by
  cases op with
  | write p d =>
    simp only [torn, List.mem_map, List.mem_range, Op.write.injEq]
    constructor
    · rintro ⟨j, hj, rfl⟩; exact ⟨p, d, j, ⟨rfl, rfl⟩, hj, rfl⟩
    · rintro ⟨p', d', j, ⟨rfl, rfl⟩, hj, rfl⟩; exact ⟨j, hj, rfl⟩
  | _ => simp [torn]

theorem mem_crashStates_cons {fs st : Fs} {op : Op} {ops : List Op} :
    st ∈ crashStates fs (op :: ops) ↔
      st = fs ∨ st ∈ torn fs op ∨ st ∈ crashStates (applyOp fs op) ops := by
  simp [crashStates_cons]

theorem self_mem_crashStates (fs : Fs) (ops : List Op) : fs ∈ crashStates fs ops := by
  cases ops with
  | nil => simp
  | cons op ops => simp [crashStates_cons]

theorem applyOps_mem_crashStates (fs : Fs) (ops : List Op) : applyOps fs ops ∈ crashStates fs ops := by
  induction ops generalizing fs with
  | nil => simp
  | cons op ops ih => rw [mem_crashStates_cons]; right; right; exact ih _

/-- a crash in `a ++ b` is a crash in `a`, or `a` ran to completion and the crash is in `b` -/
theorem mem_crashStates_append {fs st : Fs} {a b : List Op} :
    st ∈ crashStates fs (a ++ b) ↔ st ∈ crashStates fs a ∨ st ∈ crashStates (applyOps fs a) b := by
  induction a generalizing fs with
  | nil =>
    simp only [List.nil_append, crashStates_nil, List.mem_singleton, applyOps_nil]
    constructor
    · exact Or.inr
    · rintro (rfl | h)
      · exact self_mem_crashStates _ _
      · exact h
  | cons op a ih =>
    rw [List.cons_append, mem_crashStates_cons, mem_crashStates_cons, ih, applyOps_cons]
    simp only [or_assoc]

/-! ### frame lemma and directories for crash states -/

theorem fsGet_crash_of_not_touched {fs st : Fs} {ops : List Op} {q : String}
    (hst : st ∈ crashStates fs ops) (h : ∀ op ∈ ops, q ∉ touches op) : fsGet st q = fsGet fs q := by
  induction ops generalizing fs with
  | nil => simp at hst; rw [hst]
  | cons op ops ih =>
    rw [mem_crashStates_cons] at hst
    rcases hst with rfl | ht | hr
    · rfl
    · obtain ⟨p, d, j, rfl, _, rfl⟩ := mem_torn.1 ht
      exact fsGet_applyOp_of_not_touched _ _ _ (by simpa [touches] using h _ List.mem_cons_self)
    · rw [ih hr (fun o ho => h o (List.mem_cons_of_mem _ ho)),
        fsGet_applyOp_of_not_touched _ _ _ (h op List.mem_cons_self)]

theorem mem_dirs_crash {fs st : Fs} {ops : List Op} {d : String}
    (hst : st ∈ crashStates fs ops) (h : d ∈ fs.dirs) : d ∈ st.dirs := by
  induction ops generalizing fs with
  | nil => simp at hst; rw [hst]; exact h
  | cons op ops ih =>
    rw [mem_crashStates_cons] at hst
    rcases hst with rfl | ht | hr
    · exact h
    · obtain ⟨p, d, j, rfl, _, rfl⟩ := mem_torn.1 ht
      exact mem_dirs_applyOp _ h
    · exact ih hr (mem_dirs_applyOp op h)

/-- if no operation is a `mkdir`, the directories of every crash state are those of the start -/
theorem dirs_crash_of_no_mkdir {fs st : Fs} {ops : List Op}
    (hst : st ∈ crashStates fs ops) (h : ∀ op ∈ ops, ∀ d, op ≠ .mkdir d) : st.dirs = fs.dirs := by
  induction ops generalizing fs with
  | nil => simp at hst; rw [hst]
  | cons op ops ih =>
    rw [mem_crashStates_cons] at hst
    rcases hst with rfl | ht | hr
    · rfl
    · obtain ⟨p, d, j, rfl, _, rfl⟩ := mem_torn.1 ht
      exact dirs_applyOp_of_not_mkdir _ _ (by intro d; simp)
    · rw [ih hr (fun o ho => h o (List.mem_cons_of_mem _ ho)),
        dirs_applyOp_of_not_mkdir _ _ (h op List.mem_cons_self)]

/-! ### views: the file system as a function path ↦ content -/

/-- point update of a view -/
def upd (v : String → Option Bytes) (p : String) (o : Option Bytes) : String → Option Bytes :=
  fun q => if q = p then o else v q

theorem upd_apply (v : String → Option Bytes) (p q : String) (o : Option Bytes) :
    upd v p o q = if q = p then o else v q := rfl
@[simp] theorem upd_same (v : String → Option Bytes) (p : String) (o : Option Bytes) : upd v p o p = o := by
  simp [upd]
theorem upd_ne (v : String → Option Bytes) {p q : String} (o : Option Bytes) (h : q ≠ p) :
    upd v p o q = v q := by simp [upd, h]
@[simp] theorem upd_upd (v : String → Option Bytes) (p : String) (a b : Option Bytes) :
    upd (upd v p a) p b = upd v p b := by
  funext q; simp only [upd]; split <;> rfl
theorem upd_self (v : String → Option Bytes) (p : String) (o : Option Bytes) (h : v p = o) :
    upd v p o = v := by
  funext q; simp only [upd]; split
  · next hq => rw [hq, h]
  · rfl

theorem view_mkdir (fs : Fs) (d : String) : fsGet (applyOp fs (.mkdir d)) = fsGet fs := by
  funext q; simp

theorem view_create (fs : Fs) (p : String) :
    fsGet (applyOp fs (.create p)) = upd (fsGet fs) p (some []) := by
  funext q; rw [fsGet_create]; rfl

theorem view_write (fs : Fs) (p : String) (d : Bytes) :
    fsGet (applyOp fs (.write p d)) = upd (fsGet fs) p (some ((fsGet fs p).getD [] ++ d)) := by
  funext q; rw [fsGet_write]; rfl

theorem view_replace (fs : Fs) (s d : String) (b : Bytes) (h : fsGet fs s = some b) :
    fsGet (applyOp fs (.replace s d)) = upd (upd (fsGet fs) s none) d (some b) := by
  funext q; rw [fsGet_replace_some _ _ _ _ _ h]; rfl

/-! ### a run of appending writes to one file -/

/-- a kill during the successive `write`s to `p` leaves in `p` the old content plus a PREFIX of the new bytes and
changes nothing else -/
theorem writes_crash {s st : Fs} {p : String} {x : Bytes} (chunks : List Bytes)
    (hx : fsGet s p = some x) (hst : st ∈ crashStates s (chunks.map (Op.write p))) :
    ∃ y, y <+: chunks.flatten ∧ fsGet st = upd (fsGet s) p (some (x ++ y)) := by
  induction chunks generalizing s x with
  | nil =>
    simp only [List.map_nil, crashStates_nil, List.mem_singleton] at hst
    subst hst
    exact ⟨[], List.nil_prefix, (upd_self _ _ _ (by simpa using hx)).symm⟩
  | cons d ds ih =>
    rw [List.map_cons, mem_crashStates_cons] at hst
    rcases hst with rfl | ht | hr
    · exact ⟨[], List.nil_prefix, (upd_self _ _ _ (by simpa using hx)).symm⟩
    · obtain ⟨p', d', j, he, _, rfl⟩ := mem_torn.1 ht
      obtain ⟨rfl, rfl⟩ : p = p' ∧ d = d' := by simpa using he
      refine ⟨d.take j, ?_, ?_⟩
      · rw [List.flatten_cons]
        exact (List.take_prefix j d).trans (List.prefix_append _ _)
      · rw [view_write, hx]; rfl
    · have hx' : fsGet (applyOp s (.write p d)) p = some (x ++ d) := by
        rw [fsGet_write, hx]; simp
      obtain ⟨y, hy, hv⟩ := ih hx' hr
      refine ⟨d ++ y, ?_, ?_⟩
      · rw [List.flatten_cons]; exact (List.prefix_append_right_inj d).2 hy
      · rw [hv, view_write, hx, upd_upd, List.append_assoc]

theorem writes_final {s : Fs} {p : String} {x : Bytes} (chunks : List Bytes) (hx : fsGet s p = some x) :
    fsGet (applyOps s (chunks.map (Op.write p))) = upd (fsGet s) p (some (x ++ chunks.flatten)) := by
  induction chunks generalizing s x with
  | nil => simpa using (upd_self _ _ _ hx).symm
  | cons d ds ih =>
    have hx' : fsGet (applyOp s (.write p d)) p = some (x ++ d) := by
      rw [fsGet_write, hx]; simp
    rw [List.map_cons, applyOps_cons, ih hx', view_write, hx, upd_upd, List.flatten_cons, List.append_assoc]

/-! ### strings: names ending in ".tmp" -/

theorem endsWith_iff_suffix (s pat : String) : s.endsWith pat = true ↔ pat.toList <:+ s.toList := by
  rw [String.endsWith_eq_endsWith_toSlice, String.Slice.endsWith_string_iff]
  simp

theorem tmp_ne_chainName (n : String) : n ++ ".tmp" ≠ chainName := by
  intro h
  have h1 : ".tmp".toList <:+ chainName.toList := by
    rw [← h, String.toList_append]; exact List.suffix_append _ _
  revert h1; decide

theorem ne_append_tmp (s : String) : s ≠ s ++ ".tmp" := by
  intro h
  have := congrArg String.length h
  rw [String.length_append] at this
  have h2 : ".tmp".length = 4 := by decide
  omega

end MhlProps.CrashLemmas
