/-
Lemmas about insertion sort over `strLe`, `hashOfList`, and the compositional directory hashes
`nodeHashes` / `kidHashes` (C07).
-/
import MhlModel.DirHash

namespace MhlModel

/-! ## insertion sort -/

theorem insertSorted_perm_d {α : Type} (le : α → α → Bool) (a : α) (l : List α) :
    (insertSorted le a l).Perm (a :: l) := by
  induction l with
  | nil => exact List.Perm.refl _
  | cons x xs ih =>
    unfold insertSorted
    split
    · exact List.Perm.refl _
    · exact ((List.Perm.cons x ih).trans (List.Perm.swap a x xs))

theorem isort_perm_d {α : Type} (le : α → α → Bool) (l : List α) : (isort le l).Perm l := by
  induction l with
  | nil => exact List.Perm.refl _
  | cons x xs ih =>
    unfold isort
    exact (insertSorted_perm_d le x _).trans (List.Perm.cons x ih)

theorem mem_isort_d {α : Type} (le : α → α → Bool) (l : List α) (a : α) : a ∈ isort le l ↔ a ∈ l :=
  (isort_perm_d le l).mem_iff

theorem length_isort_d {α : Type} (le : α → α → Bool) (l : List α) : (isort le l).length = l.length :=
  (isort_perm_d le l).length_eq

/-- inserting into a sorted list keeps it sorted, for a total transitive test -/
theorem insertSorted_pairwise_d {α : Type} (le : α → α → Bool)
    (total : ∀ a b, le a b = true ∨ le b a = true)
    (trans : ∀ a b c, le a b = true → le b c = true → le a c = true)
    (a : α) (l : List α) (h : l.Pairwise (fun x y => le x y = true)) :
    (insertSorted le a l).Pairwise (fun x y => le x y = true) := by
  induction l with
  | nil => simp [insertSorted]
  | cons x xs ih =>
    rw [List.pairwise_cons] at h
    unfold insertSorted
    split
    · next hax =>
      rw [List.pairwise_cons]
      refine ⟨?_, List.pairwise_cons.2 h⟩
      intro y hy
      rcases List.mem_cons.1 hy with rfl | hy
      · exact hax
      · exact trans _ _ _ hax (h.1 y hy)
    · next hax =>
      have hxa : le x a = true := by
        rcases total a x with h' | h'
        · exact absurd h' hax
        · exact h'
      rw [List.pairwise_cons]
      refine ⟨?_, ih h.2⟩
      intro y hy
      rcases List.mem_cons.1 ((insertSorted_perm_d le a xs).mem_iff.1 hy) with rfl | hy
      · exact hxa
      · exact h.1 y hy

theorem isort_pairwise_d {α : Type} (le : α → α → Bool)
    (total : ∀ a b, le a b = true ∨ le b a = true)
    (trans : ∀ a b c, le a b = true → le b c = true → le a c = true)
    (l : List α) : (isort le l).Pairwise (fun x y => le x y = true) := by
  induction l with
  | nil => simp [isort]
  | cons x xs ih =>
    unfold isort
    exact insertSorted_pairwise_d le total trans x _ ih

/-- for a total, transitive, antisymmetric test the sorted list depends only on the multiset of the elements -/
theorem isort_eq_of_perm {α : Type} (le : α → α → Bool)
    (total : ∀ a b, le a b = true ∨ le b a = true)
    (trans : ∀ a b c, le a b = true → le b c = true → le a c = true)
    (antisymm : ∀ a b, le a b = true → le b a = true → a = b)
    {l₁ l₂ : List α} (h : l₁.Perm l₂) : isort le l₁ = isort le l₂ :=
  List.Perm.eq_of_pairwise (le := fun x y => le x y = true)
    (fun a b _ _ hab hba => antisymm a b hab hba)
    (isort_pairwise_d le total trans l₁) (isort_pairwise_d le total trans l₂)
    ((isort_perm_d le l₁).trans (h.trans (isort_perm_d le l₂).symm))

theorem strLe_total (a b : String) : strLe a b = true ∨ strLe b a = true := by
  simpa [strLe] using String.le_total a b

theorem strLe_trans (a b c : String) (h₁ : strLe a b = true) (h₂ : strLe b c = true) : strLe a c = true := by
  simp only [strLe, decide_eq_true_eq] at *
  exact String.le_trans h₁ h₂

theorem strLe_antisymm (a b : String) (h₁ : strLe a b = true) (h₂ : strLe b a = true) : a = b := by
  simp only [strLe, decide_eq_true_eq] at *
  exact String.le_antisymm h₁ h₂

theorem isort_strLe_sorted (l : List String) : (isort strLe l).Pairwise (· ≤ ·) := by
  have := isort_pairwise_d strLe strLe_total strLe_trans l
  simpa [strLe] using this

/-- two lists of strings sort to the same list exactly when they are permutations of each other -/
theorem isort_strLe_eq_iff_perm (l₁ l₂ : List String) : isort strLe l₁ = isort strLe l₂ ↔ l₁.Perm l₂ := by
  constructor
  · intro h
    exact (isort_perm_d strLe l₁).symm.trans (h ▸ isort_perm_d strLe l₂)
  · exact isort_eq_of_perm strLe strLe_total strLe_trans strLe_antisymm

@[simp] theorem isort_nil {α : Type} (le : α → α → Bool) : isort le [] = [] := rfl

@[simp] theorem isort_singleton {α : Type} (le : α → α → Bool) (a : α) : isort le [a] = [a] := rfl

/-! ## the pre-image of `hashOfList` -/

/-- the byte string that `hashOfList` feeds to the hash function -/
def preimage (D : DecodeFn) (fmt : String) (l : List String) : Bytes :=
  (isort strLe l).flatMap fun s => (D fmt s).getD []

theorem hashOfList_eq (H : HashFn) (D : DecodeFn) (fmt : String) (l : List String) :
    hashOfList H D fmt l = H fmt (preimage D fmt l) := rfl

@[simp] theorem preimage_nil (D : DecodeFn) (fmt : String) : preimage D fmt [] = [] := rfl

@[simp] theorem preimage_singleton (D : DecodeFn) (fmt : String) (s : String) :
    preimage D fmt [s] = (D fmt s).getD [] := by
  simp [preimage]

theorem preimage_perm (D : DecodeFn) (fmt : String) {l₁ l₂ : List String} (h : l₁.Perm l₂) :
    preimage D fmt l₁ = preimage D fmt l₂ := by
  unfold preimage
  rw [(isort_strLe_eq_iff_perm l₁ l₂).2 h]

/-- concatenations of equally long non-empty blocks, decoded injectively, determine the list of blocks -/
theorem flatMap_inj_of_fixed_length {α β : Type} (f : α → List β) (L : Nat) (hL : 0 < L) :
    ∀ (l₁ l₂ : List α),
      (∀ a ∈ l₁, (f a).length = L) → (∀ a ∈ l₂, (f a).length = L) →
      (∀ a ∈ l₁, ∀ b ∈ l₂, f a = f b → a = b) →
      l₁.flatMap f = l₂.flatMap f → l₁ = l₂
  | [], [], _, _, _, _ => rfl
  | [], b :: bs, _, h₂, _, h => by
    have := congrArg List.length h
    have hb := h₂ b (List.mem_cons_self ..)
    simp only [List.flatMap_nil, List.length_nil, List.flatMap_cons, List.length_append] at this
    omega
  | a :: as, [], h₁, _, _, h => by
    have := congrArg List.length h
    have ha := h₁ a (List.mem_cons_self ..)
    simp only [List.flatMap_nil, List.length_nil, List.flatMap_cons, List.length_append] at this
    omega
  | a :: as, b :: bs, h₁, h₂, hinj, h => by
    simp only [List.flatMap_cons] at h
    have ha := h₁ a (List.mem_cons_self ..)
    have hb := h₂ b (List.mem_cons_self ..)
    obtain ⟨hab, hrest⟩ := List.append_inj h (ha.trans hb.symm)
    have := hinj a (List.mem_cons_self ..) b (List.mem_cons_self ..) hab
    subst this
    congr 1
    exact flatMap_inj_of_fixed_length f L hL as bs
      (fun x hx => h₁ x (List.mem_cons_of_mem _ hx))
      (fun x hx => h₂ x (List.mem_cons_of_mem _ hx))
      (fun x hx y hy => hinj x (List.mem_cons_of_mem _ hx) y (List.mem_cons_of_mem _ hy))
      hrest

/-- `D fmt` decodes every string of `S` to exactly `L` bytes, and decodes different strings of `S` differently
(true of hex decoding on the digests of one format) -/
structure DecodesWell (D : DecodeFn) (fmt : String) (L : Nat) (S : List String) : Prop where
  len : ∀ s ∈ S, (D fmt s).map List.length = some L
  inj : ∀ s ∈ S, ∀ t ∈ S, D fmt s = D fmt t → s = t

instance (D : DecodeFn) (fmt : String) (L : Nat) (S : List String) : Decidable (DecodesWell D fmt L S) :=
  decidable_of_iff
    ((∀ s ∈ S, (D fmt s).map List.length = some L) ∧ (∀ s ∈ S, ∀ t ∈ S, D fmt s = D fmt t → s = t))
    ⟨fun ⟨a, b⟩ => ⟨a, b⟩, fun ⟨a, b⟩ => ⟨a, b⟩⟩

theorem DecodesWell.mono {D : DecodeFn} {fmt : String} {L : Nat} {S T : List String}
    (h : DecodesWell D fmt L S) (hsub : ∀ s ∈ T, s ∈ S) : DecodesWell D fmt L T :=
  ⟨fun s hs => h.len s (hsub s hs), fun s hs t ht => h.inj s (hsub s hs) t (hsub t ht)⟩

/-- if the digests decode well (fixed positive length, injectively), the pre-image determines the multiset of digests -/
theorem perm_of_preimage_eq (D : DecodeFn) (fmt : String) (L : Nat) (hL : 0 < L) (l₁ l₂ : List String)
    (hD : DecodesWell D fmt L (l₁ ++ l₂)) (h : preimage D fmt l₁ = preimage D fmt l₂) : l₁.Perm l₂ := by
  rw [← isort_strLe_eq_iff_perm]
  have dec : ∀ s, s ∈ l₁ ++ l₂ → ∃ b, D fmt s = some b ∧ b.length = L := by
    intro s hs
    have := hD.len s hs
    cases hd : D fmt s with
    | none => simp [hd] at this
    | some b => exact ⟨b, rfl, by simpa [hd] using this⟩
  have len : ∀ s, s ∈ l₁ ++ l₂ → ((D fmt s).getD []).length = L := by
    intro s hs
    obtain ⟨b, hb, hl⟩ := dec s hs
    simp [hb, hl]
  have inj : ∀ s, s ∈ l₁ ++ l₂ → ∀ t, t ∈ l₁ ++ l₂ → (D fmt s).getD [] = (D fmt t).getD [] → s = t := by
    intro s hs t ht hst
    obtain ⟨b, hb, _⟩ := dec s hs
    obtain ⟨b', hb', _⟩ := dec t ht
    apply hD.inj s hs t ht
    simp only [hb, hb', Option.getD_some] at hst ⊢
    rw [hst]
  apply flatMap_inj_of_fixed_length (fun s => (D fmt s).getD []) L hL
  · intro a ha
    exact len a (List.mem_append_left _ ((mem_isort_d _ _ _).1 ha))
  · intro a ha
    exact len a (List.mem_append_right _ ((mem_isort_d _ _ _).1 ha))
  · intro a ha b hb
    exact inj a (List.mem_append_left _ ((mem_isort_d _ _ _).1 ha)) b (List.mem_append_right _ ((mem_isort_d _ _ _).1 hb))
  · exact h

/-- replacing one digest of the list by a different one changes `hashOfList`, provided the digests decode well and
`H fmt` does not collide on the two pre-images that occur -/
theorem hashOfList_replace_ne (H : HashFn) (D : DecodeFn) (fmt : String) (L : Nat) (hL : 0 < L)
    (A B : List String) (x y : String) (hxy : x ≠ y)
    (hD : DecodesWell D fmt L ((A ++ x :: B) ++ (A ++ y :: B)))
    (hinj : H fmt (preimage D fmt (A ++ x :: B)) = H fmt (preimage D fmt (A ++ y :: B)) →
      preimage D fmt (A ++ x :: B) = preimage D fmt (A ++ y :: B)) :
    hashOfList H D fmt (A ++ x :: B) ≠ hashOfList H D fmt (A ++ y :: B) := by
  intro h
  have hp := perm_of_preimage_eq D fmt L hL _ _ hD (hinj h)
  rw [List.perm_append_left_iff] at hp
  have hp' : ([x] ++ B).Perm ([y] ++ B) := hp
  rw [List.perm_append_right_iff, List.singleton_perm_singleton] at hp'
  exact hxy hp'

/-! ## `ByteArray.toList` (defined by a well-founded loop) is the list of the underlying array; makes
`"lit".toUTF8.toList` evaluable by `decide` -/

theorem byteArray_toList_loop_eq (bs : ByteArray) (i : Nat) (r : List UInt8) (hi : i ≤ bs.size) :
    ByteArray.toList.loop bs i r = r.reverse ++ bs.data.toList.drop i := by
  have hsz : bs.size = bs.data.toList.length := by
    rw [Array.length_toList]; rfl
  induction h : bs.size - i generalizing i r with
  | zero =>
    unfold ByteArray.toList.loop
    have : ¬ i < bs.size := by omega
    simp only [this, if_false]
    have : bs.data.toList.drop i = [] := by
      apply List.drop_eq_nil_of_le
      omega
    rw [this, List.append_nil]
  | succ k ih =>
    unfold ByteArray.toList.loop
    have hlt : i < bs.size := by omega
    simp only [hlt, if_true]
    rw [ih (i+1) _ (by omega) (by omega)]
    have hlt' : i < bs.data.toList.length := by omega
    rw [List.drop_eq_getElem_cons hlt']
    have : bs.get! i = bs.data.toList[i] := by
      show bs.data[i]! = _
      rw [getElem!_pos bs.data i (by rw [← Array.length_toList]; exact hlt')]
      simp
    rw [this]
    simp

theorem byteArray_toList_eq (bs : ByteArray) : bs.toList = bs.data.toList := by
  rw [ByteArray.toList, byteArray_toList_loop_eq bs 0 [] (Nat.zero_le _)]
  simp

/-- `bindName` with the kernel-evaluable reading of the UTF-8 bytes (for `decide` on concrete trees) -/
def bindNameC (H : HashFn) (D : DecodeFn) (fmt : String) (k : KidHash) : String :=
  H fmt (k.name.toUTF8.data.toList ++ (D fmt k.bind).getD [])

theorem bindName_eq_bindNameC (H : HashFn) (D : DecodeFn) (fmt : String) :
    bindName H D fmt = bindNameC H D fmt := by
  funext k
  rw [bindName, bindNameC, byteArray_toList_eq]

/-! ## `kidHashes` is a map -/

/-- the `KidHash` of one child of the directory at `here` -/
def kidOf_d (H : HashFn) (D : DecodeFn) (fmt : String) (hit : RelPath → Bool) (here : RelPath) (c : Node) : KidHash :=
  ⟨c.name, (nodeHashes H D fmt hit (here ++ [c.name]) c).1, (nodeHashes H D fmt hit (here ++ [c.name]) c).2⟩

theorem kidHashes_eq_map (H : HashFn) (D : DecodeFn) (fmt : String) (hit : RelPath → Bool) (here : RelPath)
    (cs : List Node) : kidHashes H D fmt hit here cs = cs.map (kidOf_d H D fmt hit here) := by
  induction cs with
  | nil => rw [kidHashes]; rfl
  | cons c cs ih => rw [kidHashes, ih]; rfl

/-- the visible children of the directory at `here`, with their digests -/
def visKids_d (H : HashFn) (D : DecodeFn) (fmt : String) (hit : RelPath → Bool) (here : RelPath)
    (cs : List Node) : List KidHash :=
  (cs.map (kidOf_d H D fmt hit here)).filter fun k => !hit (here ++ [k.name])

theorem nodeHashes_dir (H : HashFn) (D : DecodeFn) (fmt : String) (hit : RelPath → Bool) (here : RelPath)
    (n : String) (cs : List Node) (h : Option HistStore) :
    nodeHashes H D fmt hit here (.dir n cs h) =
      (hashOfList H D fmt ((visKids_d H D fmt hit here cs).map (·.content)),
       hashOfList H D fmt ((visKids_d H D fmt hit here cs).map (bindName H D fmt))) := by
  rw [nodeHashes, kidHashes_eq_map]; rfl

theorem nodeHashes_file (H : HashFn) (D : DecodeFn) (fmt : String) (hit : RelPath → Bool) (here : RelPath)
    (n : String) (c : Bytes) : nodeHashes H D fmt hit here (.file n c) = (H fmt c, H fmt c) := by
  rw [nodeHashes]

theorem visKids_append (H : HashFn) (D : DecodeFn) (fmt : String) (hit : RelPath → Bool) (here : RelPath)
    (l₁ l₂ : List Node) :
    visKids_d H D fmt hit here (l₁ ++ l₂) = visKids_d H D fmt hit here l₁ ++ visKids_d H D fmt hit here l₂ := by
  simp [visKids_d]

theorem visKids_cons (H : HashFn) (D : DecodeFn) (fmt : String) (hit : RelPath → Bool) (here : RelPath)
    (c : Node) (cs : List Node) :
    visKids_d H D fmt hit here (c :: cs) =
      (if hit (here ++ [c.name]) then [] else [kidOf_d H D fmt hit here c]) ++ visKids_d H D fmt hit here cs := by
  simp only [visKids_d, List.map_cons, List.filter_cons, kidOf_d]
  cases hit (here ++ [c.name]) <;> simp

theorem visKids_perm (H : HashFn) (D : DecodeFn) (fmt : String) (hit : RelPath → Bool) (here : RelPath)
    {cs₁ cs₂ : List Node} (h : cs₁.Perm cs₂) :
    (visKids_d H D fmt hit here cs₁).Perm (visKids_d H D fmt hit here cs₂) :=
  (h.map _).filter _

@[simp] theorem Node.name_rename (n' : String) (t : Node) : (t.rename n').name = n' := by
  cases t <;> rfl

/-! ## dependence of `nodeHashes` on `hit` and `here` -/

mutual
/-- the hashes of a node depend on the ignore test only through its values on the paths strictly below the node -/
theorem nodeHashes_congr (H : HashFn) (D : DecodeFn) (fmt : String) (hit₁ hit₂ : RelPath → Bool) :
    ∀ (t : Node) (here₁ here₂ : RelPath), (∀ p, hit₁ (here₁ ++ p) = hit₂ (here₂ ++ p)) →
      nodeHashes H D fmt hit₁ here₁ t = nodeHashes H D fmt hit₂ here₂ t
  | .file _ _, _, _, _ => by rw [nodeHashes, nodeHashes]
  | .dir n cs h, here₁, here₂, hh => by
    rw [nodeHashes, nodeHashes, kidHashes_congr H D fmt hit₁ hit₂ cs here₁ here₂ hh]
    simp only [hh]
theorem kidHashes_congr (H : HashFn) (D : DecodeFn) (fmt : String) (hit₁ hit₂ : RelPath → Bool) :
    ∀ (cs : List Node) (here₁ here₂ : RelPath), (∀ p, hit₁ (here₁ ++ p) = hit₂ (here₂ ++ p)) →
      kidHashes H D fmt hit₁ here₁ cs = kidHashes H D fmt hit₂ here₂ cs
  | [], _, _, _ => by rw [kidHashes, kidHashes]
  | c :: cs, here₁, here₂, hh => by
    rw [kidHashes, kidHashes, kidHashes_congr H D fmt hit₁ hit₂ cs here₁ here₂ hh,
      nodeHashes_congr H D fmt hit₁ hit₂ c (here₁ ++ [c.name]) (here₂ ++ [c.name])
        (fun p => by simpa [List.append_assoc] using hh ([c.name] ++ p))]
end

/-- the hashes of a node do not depend on the node's own name -/
theorem nodeHashes_rename (H : HashFn) (D : DecodeFn) (fmt : String) (hit : RelPath → Bool) (here : RelPath)
    (n' : String) (t : Node) : nodeHashes H D fmt hit here (t.rename n') = nodeHashes H D fmt hit here t := by
  cases t with
  | file n c => simp only [Node.rename]; rw [nodeHashes, nodeHashes]
  | dir n cs h => simp only [Node.rename]; rw [nodeHashes, nodeHashes]

end MhlModel
